import Cx.Model.Pike
import Cx.Proofs.Nfa
import Cx.Proofs.Utf8
/-
  Cx.Proofs.PikeBase — the Pike VM model (`Cx.Model.Pike`, SlotTable family of `nfa/pikevm.go`) against the path
  relation of the same NFA: closure lemmas, one generation, the search loop, and from them
  `pike_isMatch_iff`, `pike_search_sound`, `pike_search_leftmost`, `pike_search_none_iff`, `pike_search_longest`.
  Hypotheses (all necessary for the code as written, see the fidelity findings): the automaton is not flagged
  anchored, `SparseDet` (the step loop follows every matching transition of a sparse state), `RuneOK` (rune states
  are mishandled on multi-byte input).
-/

namespace Cx.Pike
open Cx Cx.Nfa

/-- states that end an epsilon closure: they are put in a thread queue -/
def Terminal (N : NFA) (q : Nat) : Prop :=
  match N.get q with
  | .mtch => True
  | .byteRange _ _ _ => True
  | .sparse _ => True
  | .runeAny _ => True
  | .runeAnyNotNL _ => True
  | _ => False

theorem get_lt_of_ne_fail {N : NFA} {q : Nat} (hne : N.get q ≠ .fail) : q < N.states.size := by
  cases Nat.lt_or_ge q N.states.size with
  | inl h => exact h
  | inr h => exact absurd (get_oob N h) hne

theorem Terminal.lt {N : NFA} {q : Nat} (ht : Terminal N q) : q < N.states.size := by
  apply get_lt_of_ne_fail
  intro hf
  simp [Terminal, hf] at ht

/-! ### `expand` -/

theorem expand_emit (N : NFA) (h : Bytes) (pos : Nat) (fr : Thread) :
    (expand N h pos fr).2 = true ↔ Terminal N fr.state := by
  unfold expand Terminal
  cases hk : N.get fr.state <;> simp

theorem expand_push {N : NFA} {h : Bytes} {pos : Nat} {fr x : Thread} (hx : x ∈ (expand N h pos fr).1) :
    x.start = fr.start ∧ Step N h (fr.state, pos) (x.state, pos) := by
  unfold expand at hx
  cases hk : N.get fr.state <;> simp only [hk] at hx
  all_goals try (simp at hx; done)
  · simp at hx
    rcases hx with rfl | rfl
    · exact ⟨rfl, Step.splitL hk⟩
    · exact ⟨rfl, Step.splitR hk⟩
  · simp at hx; subst hx; exact ⟨rfl, Step.eps hk⟩
  · simp at hx; subst hx; exact ⟨rfl, Step.cap hk⟩
  · split at hx
    · rename_i hl; simp at hx; subst hx; exact ⟨rfl, Step.look hk hl⟩
    · simp at hx

theorem expand_step {N : NFA} {h : Bytes} {pos : Nat} {fr : Thread} {q' : Nat}
    (hs : Step N h (fr.state, pos) (q', pos)) : (⟨q', fr.start⟩ : Thread) ∈ (expand N h pos fr).1 := by
  have hi := step_inv hs
  unfold expand
  cases hk : N.get fr.state <;> simp only [hk] at hi ⊢
  all_goals try (exfalso; omega)
  · rcases hi.1 with rfl | rfl <;> simp
  · simp [hi.1]
  · simp [hi.1]
  · simp [hi.1, hi.2.1]

theorem expand_len (N : NFA) (h : Bytes) (pos : Nat) (fr : Thread) : (expand N h pos fr).1.length ≤ 2 := by
  unfold expand
  split <;> simp
  split <;> simp

/-! ### closure: what is emitted -/

/-- closure keeps any frame property that is stable under epsilon moves at `pos`; emitted threads are terminal -/
theorem closure_pres (N : NFA) (h : Bytes) (pos : Nat) (P Q : Thread → Prop)
    (hstep : ∀ fr q', P fr → Step N h (fr.state, pos) (q', pos) → P ⟨q', fr.start⟩)
    (hout : ∀ fr, P fr → Terminal N fr.state → Q fr) :
    ∀ (fuel : Nat) (stack : List Thread) (vis : Vis) (out : List Thread),
      (∀ fr ∈ stack, P fr) → (∀ t ∈ out, Q t) → ∀ t ∈ (closure N h pos fuel stack vis out).2, Q t := by
  intro fuel
  induction fuel with
  | zero => intro stack vis out _ ho; simpa [closure] using ho
  | succ fuel ih =>
    intro stack vis out hs ho
    cases stack with
    | nil => simpa [closure] using ho
    | cons fr st =>
      have hfr : P fr := hs fr (List.mem_cons_self)
      have hst : ∀ x ∈ st, P x := fun x hx => hs x (List.mem_cons_of_mem _ hx)
      rw [closure]
      split
      · exact ih st vis out hst ho
      · simp only []
        apply ih
        · intro x hx
          rcases List.mem_append.mp hx with h1 | h1
          · obtain ⟨h2, h3⟩ := expand_push h1
            have := hstep _ _ hfr h3
            rw [← h2] at this
            exact this
          · exact hst x h1
        · intro t ht
          split at ht
          · rename_i he
            rcases List.mem_append.mp ht with h1 | h1
            · exact ho t h1
            · simp at h1; subst h1; exact hout _ hfr ((expand_emit N h pos _).mp he)
          · exact ho t ht

/-! ### closure: what is covered -/

def Marked (vis : Vis) (q : Nat) : Prop := vis.getD q true = true

/-- every epsilon successor (at `pos`) of a marked state is marked or still waiting on the stack `S` -/
def ClosedX (N : NFA) (h : Bytes) (pos : Nat) (vis : Vis) (S : List Thread) : Prop :=
  ∀ q q', q < N.states.size → Marked vis q → Step N h (q, pos) (q', pos) → Marked vis q' ∨ ∃ fr ∈ S, fr.state = q'

/-- every marked terminal state has a thread in the queue -/
def Covered (N : NFA) (vis : Vis) (out : List Thread) : Prop :=
  ∀ q, q < N.states.size → Marked vis q → Terminal N q → ∃ t ∈ out, t.state = q

theorem closure_complete (N : NFA) (h : Bytes) (pos : Nat) :
    ∀ (fuel : Nat) (stack : List Thread) (vis : Vis) (out : List Thread),
      vis.size = N.states.size → 2 * vis.count false + stack.length ≤ fuel →
      ClosedX N h pos vis stack → Covered N vis out →
      (closure N h pos fuel stack vis out).1.size = N.states.size ∧
      Mono vis (closure N h pos fuel stack vis out).1 ∧
      (∀ fr ∈ stack, Marked (closure N h pos fuel stack vis out).1 fr.state) ∧
      ClosedX N h pos (closure N h pos fuel stack vis out).1 [] ∧
      Covered N (closure N h pos fuel stack vis out).1 (closure N h pos fuel stack vis out).2 ∧
      (∃ new, (closure N h pos fuel stack vis out).2 = out ++ new) := by
  intro fuel
  induction fuel with
  | zero =>
    intro stack vis out hsz hf hcl hcov
    have : stack = [] := by
      cases stack with
      | nil => rfl
      | cons a b => simp at hf
    subst this
    simp only [closure]
    exact ⟨hsz, Mono.refl _, by simp, hcl, hcov, [], by simp⟩
  | succ fuel ih =>
    intro stack vis out hsz hf hcl hcov
    cases stack with
    | nil =>
      simp only [closure]
      exact ⟨hsz, Mono.refl _, by simp, hcl, hcov, [], by simp⟩
    | cons fr st =>
      rw [closure]
      split
      · rename_i hv
        have hcl' : ClosedX N h pos vis st := by
          intro q q' hq hm hs
          rcases hcl q q' hq hm hs with h1 | ⟨x, hx, rfl⟩
          · exact Or.inl h1
          · rcases List.mem_cons.mp hx with rfl | h2
            · exact Or.inl hv
            · exact Or.inr ⟨x, h2, rfl⟩
        obtain ⟨r1, r2, r3, r4, r5, r6⟩ := ih st vis out hsz (by simp at hf; omega) hcl' hcov
        refine ⟨r1, r2, ?_, r4, r5, r6⟩
        intro x hx
        rcases List.mem_cons.mp hx with rfl | h2
        · exact r2 _ hv
        · exact r3 x h2
      · rename_i hv
        have hv : vis.getD fr.state true = false := by simpa using hv
        have hlt : fr.state < N.states.size := hsz ▸ getD_false_lt hv
        simp only []
        have hself : Marked (vis.setIfInBounds fr.state true) fr.state := getD_set_self hv
        have hm1 : Mono vis (vis.setIfInBounds fr.state true) := fun _ hh => getD_set_mono hh
        have hcnt := count_set_lt hv
        have hlen := expand_len N h pos fr
        have hcl' : ClosedX N h pos (vis.setIfInBounds fr.state true) ((expand N h pos fr).1 ++ st) := by
          intro q q' hq hm hs
          by_cases hqe : q = fr.state
          · subst hqe
            refine Or.inr ⟨⟨q', fr.start⟩, ?_, rfl⟩
            exact List.mem_append_left _ (expand_step hs)
          · have hm' : Marked vis q := by
              unfold Marked at hm ⊢
              rwa [getD_set_other (Ne.symm hqe)] at hm
            rcases hcl q q' hq hm' hs with h1 | ⟨x, hx, rfl⟩
            · exact Or.inl (hm1 _ h1)
            · rcases List.mem_cons.mp hx with rfl | h2
              · exact Or.inl hself
              · exact Or.inr ⟨x, List.mem_append_right _ h2, rfl⟩
        have hcov' : Covered N (vis.setIfInBounds fr.state true)
            (if (expand N h pos fr).2 = true then out ++ [fr] else out) := by
          intro q hq hm ht
          by_cases hqe : q = fr.state
          · subst hqe
            rw [if_pos ((expand_emit N h pos fr).mpr ht)]
            exact ⟨fr, by simp, rfl⟩
          · have hm' : Marked vis q := by
              unfold Marked at hm ⊢
              rwa [getD_set_other (Ne.symm hqe)] at hm
            obtain ⟨t, ht1, ht2⟩ := hcov q hq hm' ht
            refine ⟨t, ?_, ht2⟩
            split
            · exact List.mem_append_left _ ht1
            · exact ht1
        obtain ⟨r1, r2, r3, r4, r5, r6⟩ := ih _ _ _ (by simpa using hsz)
          (by simp only [List.length_append, List.length_cons] at hf ⊢; omega) hcl' hcov'
        refine ⟨r1, hm1.trans r2, ?_, r4, r5, ?_⟩
        · intro x hx
          rcases List.mem_cons.mp hx with rfl | h2
          · exact r2 _ hself
          · exact r3 x (List.mem_append_right _ h2)
        · obtain ⟨new, hnew⟩ := r6
          by_cases he : (expand N h pos fr).2 = true
          · rw [if_pos he] at hnew ⊢
            exact ⟨fr :: new, by rw [hnew]; simp⟩
          · rw [if_neg he] at hnew ⊢
            exact ⟨new, hnew⟩

/-! ### epsilon reachability at a fixed position -/

inductive EpsReach (N : NFA) (h : Bytes) (pos : Nat) : Nat → Nat → Prop where
  | refl (q) : EpsReach N h pos q q
  | cons {q q' q''} : Step N h (q, pos) (q', pos) → EpsReach N h pos q' q'' → EpsReach N h pos q q''

theorem EpsReach.steps {N : NFA} {h : Bytes} {pos q q' : Nat} (e : EpsReach N h pos q q') :
    Steps N h (q, pos) (q', pos) := by
  induction e with
  | refl q => exact Steps.refl _
  | cons st _ ih => exact Steps.cons st ih

theorem EpsReach.trans {N : NFA} {h : Bytes} {pos a b c : Nat} (e1 : EpsReach N h pos a b)
    (e2 : EpsReach N h pos b c) : EpsReach N h pos a c := by
  induction e1 with
  | refl q => exact e2
  | cons st _ ih => exact EpsReach.cons st (ih e2)

theorem steps_trans {N : NFA} {h : Bytes} {a b c : Nat × Nat} (s1 : Steps N h a b) (s2 : Steps N h b c) :
    Steps N h a c := by
  induction s1 with
  | refl x => exact s2
  | cons st _ ih => exact Steps.cons st (ih s2)

theorem steps_snoc {N : NFA} {h : Bytes} {a b c : Nat × Nat} (s1 : Steps N h a b) (s2 : Step N h b c) :
    Steps N h a c := steps_trans s1 (Steps.cons s2 (Steps.refl _))

/-- a run that does not advance is a run of epsilon moves -/
theorem epsReach_of_steps {N : NFA} {h : Bytes} {a b : Nat × Nat} (s : Steps N h a b) (hp : a.2 ≤ h.size)
    (he : b.2 = a.2) : EpsReach N h a.2 a.1 b.1 := by
  induction s with
  | refl x => exact EpsReach.refl _
  | @cons x y z st rest ih =>
    obtain ⟨q, p⟩ := x
    obtain ⟨q', p'⟩ := y
    have h1 := step_pos_le st hp
    have h2 := steps_pos_le rest h1.2
    simp only at h1 h2 he ih ⊢
    have hpp : p' = p := by omega
    subst hpp
    exact EpsReach.cons st (ih h1.2 he)

/-- a marked state of a closed set only reaches marked states -/
theorem closed_reach {N : NFA} {h : Bytes} {pos : Nat} {vis : Vis} (hc : ClosedX N h pos vis [])
    {q q' : Nat} (e : EpsReach N h pos q q') (hm : Marked vis q) : Marked vis q' := by
  induction e with
  | refl q => exact hm
  | @cons a b c st _ ih =>
    apply ih
    have ha : a < N.states.size := by
      apply get_lt_of_ne_fail
      intro hf
      have := step_inv st
      simp only [hf] at this
    rcases hc a b ha hm st with h1 | ⟨x, hx, _⟩
    · exact h1
    · simp at hx

theorem isMatchState_iff (N : NFA) (q : Nat) : isMatchState N q = true ↔ N.get q = .mtch := by
  unfold isMatchState
  cases hk : N.get q <;> simp

/-! ### `matchesEmptyAt` -/

theorem pushAll_spec (L : List Nat) : ∀ (st : List Nat) (vis : Vis),
    (L.foldl pushNew (st, vis)).2.size = vis.size ∧
    Mono vis (L.foldl pushNew (st, vis)).2 ∧
    (∀ x ∈ L, Marked (L.foldl pushNew (st, vis)).2 x) ∧
    (∃ pre, (L.foldl pushNew (st, vis)).1 = pre ++ st ∧ (∀ x ∈ pre, x ∈ L) ∧
      ∀ x, Marked (L.foldl pushNew (st, vis)).2 x → Marked vis x ∨ x ∈ pre) ∧
    (L.foldl pushNew (st, vis)).1.length + (L.foldl pushNew (st, vis)).2.count false = st.length + vis.count false := by
  induction L with
  | nil => intro st vis; exact ⟨rfl, Mono.refl _, by simp, ⟨[], by simp, by simp, fun x hx => Or.inl hx⟩, rfl⟩
  | cons a L ih =>
    intro st vis
    simp only [List.foldl_cons]
    by_cases hv : vis.getD a true = true
    · have hp : pushNew (st, vis) a = (st, vis) := by simp [pushNew, hv]
      rw [hp]
      obtain ⟨r1, r2, r3, ⟨pre, r4, r5, r6⟩, r7⟩ := ih st vis
      refine ⟨r1, r2, ?_, ⟨pre, r4, fun x hx => List.mem_cons_of_mem _ (r5 x hx), r6⟩, r7⟩
      intro x hx
      rcases List.mem_cons.mp hx with rfl | h2
      · exact r2 _ hv
      · exact r3 x h2
    · have hv : vis.getD a true = false := by simpa using hv
      have hp : pushNew (st, vis) a = (a :: st, vis.setIfInBounds a true) := by simp [pushNew, hv]
      rw [hp]
      obtain ⟨r1, r2, r3, ⟨pre, r4, r5, r6⟩, r7⟩ := ih (a :: st) (vis.setIfInBounds a true)
      have hcnt := count_set_lt hv
      refine ⟨by simpa using r1, Mono.trans (fun _ hh => getD_set_mono hh) r2, ?_, ⟨pre ++ [a], ?_, ?_, ?_⟩, ?_⟩
      · intro x hx
        rcases List.mem_cons.mp hx with rfl | h2
        · exact r2 _ (getD_set_self hv)
        · exact r3 x h2
      · rw [r4]; simp
      · intro x hx
        rcases List.mem_append.mp hx with h1 | h1
        · exact List.mem_cons_of_mem _ (r5 x h1)
        · simp at h1; subst h1; exact List.mem_cons_self
      · intro x hx
        rcases r6 x hx with h1 | h1
        · by_cases hxa : x = a
          · subst hxa; exact Or.inr (by simp)
          · unfold Marked at h1
            rw [getD_set_other (Ne.symm hxa)] at h1
            exact Or.inl h1
        · exact Or.inr (List.mem_append_left _ h1)
      · rw [r7]; simp only [List.length_cons]; omega

theorem emptyLoop_sound (N : NFA) (h : Bytes) (pos : Nat) (P : Nat → Prop)
    (hP : ∀ q q', P q → Step N h (q, pos) (q', pos) → P q') :
    ∀ (fuel : Nat) (stack : List Nat) (vis : Vis), (∀ q ∈ stack, P q) → emptyLoop N h pos fuel stack vis = true →
      ∃ m, P m ∧ N.get m = .mtch := by
  intro fuel
  induction fuel with
  | zero => intro stack vis _ hr; simp [emptyLoop] at hr
  | succ fuel ih =>
    intro stack vis hs hr
    cases stack with
    | nil => simp [emptyLoop] at hr
    | cons q st =>
      rw [emptyLoop] at hr
      split at hr
      · rename_i hm
        exact ⟨q, hs q List.mem_cons_self, (isMatchState_iff N q).mp hm⟩
      · simp only [] at hr
        refine ih _ _ ?_ hr
        obtain ⟨_, _, _, ⟨pre, r4, r5, _⟩, _⟩ := pushAll_spec ((expand N h pos ⟨q, 0⟩).1.map (·.state)) st vis
        intro x hx
        rw [r4] at hx
        rcases List.mem_append.mp hx with h1 | h1
        · have := r5 x h1
          obtain ⟨t, ht, rfl⟩ := List.mem_map.mp this
          exact hP q _ (hs q List.mem_cons_self) (expand_push ht).2
        · exact hs x (List.mem_cons_of_mem _ h1)

/-- marked states that are not waiting on the stack are not match states and have all their epsilon successors
    marked -/
def EInv (N : NFA) (h : Bytes) (pos : Nat) (vis : Vis) (stack : List Nat) : Prop :=
  ∀ q, q < N.states.size → Marked vis q → q ∉ stack →
    N.get q ≠ .mtch ∧ ∀ q', Step N h (q, pos) (q', pos) → Marked vis q'

theorem emptyLoop_complete (N : NFA) (h : Bytes) (pos : Nat) :
    ∀ (fuel : Nat) (stack : List Nat) (vis : Vis), vis.size = N.states.size →
      stack.length + vis.count false < fuel → EInv N h pos vis stack → (∀ q ∈ stack, Marked vis q) →
      emptyLoop N h pos fuel stack vis = false →
      ∃ vis', Mono vis vis' ∧ EInv N h pos vis' [] := by
  intro fuel
  induction fuel with
  | zero => intro stack vis _ hf; omega
  | succ fuel ih =>
    intro stack vis hsz hf hinv hst hr
    cases stack with
    | nil => exact ⟨vis, Mono.refl _, hinv⟩
    | cons q st =>
      rw [emptyLoop] at hr
      split at hr
      · simp at hr
      · rename_i hnm
        simp only [] at hr
        obtain ⟨r1, r2, r3, ⟨pre, r4, r5, r6⟩, r7⟩ :=
          pushAll_spec ((expand N h pos ⟨q, 0⟩).1.map (·.state)) st vis
        have hnm' : N.get q ≠ .mtch := fun hh => hnm ((isMatchState_iff N q).mpr hh)
        have hA : EInv N h pos (List.foldl pushNew (st, vis) ((expand N h pos ⟨q, 0⟩).1.map (·.state))).2
            (List.foldl pushNew (st, vis) ((expand N h pos ⟨q, 0⟩).1.map (·.state))).1 := by
          -- EInv for the new configuration
          intro x hx hmx hnot
          rw [r4] at hnot
          have hnpre : x ∉ pre := fun hh => hnot (List.mem_append_left _ hh)
          have hnst : x ∉ st := fun hh => hnot (List.mem_append_right _ hh)
          have hmv : Marked vis x := (r6 x hmx).resolve_right hnpre
          by_cases hxq : x = q
          · subst hxq
            refine ⟨hnm', ?_⟩
            intro q' hs
            apply r3
            have := expand_step (fr := ⟨x, 0⟩) hs
            exact List.mem_map.mpr ⟨_, this, rfl⟩
          · have hnq : x ∉ q :: st := by
              intro hh
              rcases List.mem_cons.mp hh with h1 | h1
              · exact hxq h1
              · exact hnst h1
            obtain ⟨g1, g2⟩ := hinv x hx hmv hnq
            exact ⟨g1, fun q' hs => r2 _ (g2 q' hs)⟩
        have hB : ∀ x ∈ (List.foldl pushNew (st, vis) ((expand N h pos ⟨q, 0⟩).1.map (·.state))).1,
            Marked (List.foldl pushNew (st, vis) ((expand N h pos ⟨q, 0⟩).1.map (·.state))).2 x := by
          intro x hx
          rw [r4] at hx
          rcases List.mem_append.mp hx with h1 | h1
          · exact r3 x (r5 x h1)
          · exact r2 _ (hst x (List.mem_cons_of_mem _ h1))
        obtain ⟨vis', hm, hfin⟩ := ih _ _ (by rw [r1]; exact hsz) (by rw [r7]; simp at hf; omega) hA hB hr
        exact ⟨vis', Mono.trans r2 hm, hfin⟩

theorem einv_no_match {N : NFA} {h : Bytes} {pos : Nat} {vis : Vis} (hinv : EInv N h pos vis [])
    {q m : Nat} (e : EpsReach N h pos q m) (hm : Marked vis q) : N.get m ≠ .mtch := by
  induction e with
  | refl q =>
    intro hk
    have hq : q < N.states.size := get_lt_of_ne_fail (by rw [hk]; simp)
    exact (hinv q hq hm (by simp)).1 hk
  | @cons a b c st _ ih =>
    have ha : a < N.states.size := by
      apply get_lt_of_ne_fail
      intro hf
      have := step_inv st
      simp only [hf] at this
    exact ih ((hinv a ha hm (by simp)).2 b st)

theorem clearVis_size (N : NFA) : (clearVis N).size = N.states.size := by simp [clearVis]

theorem clearVis_not_marked (N : NFA) {q : Nat} (hq : q < N.states.size) : ¬ Marked (clearVis N) q := by
  simp [Marked, clearVis, Array.getD_eq_getD_getElem?, hq]

theorem clearVis_count (N : NFA) : (clearVis N).count false = N.states.size := by simp [clearVis]

/-- `matchesEmptyAt` decides whether a match state is reachable by epsilon moves at `pos` -/
theorem matchesEmptyAt_iff (N : NFA) (h : Bytes) (pos : Nat) :
    matchesEmptyAt N h pos = true ↔ ∃ m, EpsReach N h pos N.startAnchored m ∧ N.get m = .mtch := by
  constructor
  · intro hr
    exact emptyLoop_sound N h pos (fun q => EpsReach N h pos N.startAnchored q)
      (fun q q' hq hs => hq.trans (EpsReach.cons hs (EpsReach.refl _))) _ _ _
      (by intro q hq; simp at hq; subst hq; exact EpsReach.refl _) hr
  · intro ⟨m, he, hm⟩
    cases hr : matchesEmptyAt N h pos with
    | true => rfl
    | false =>
      exfalso
      unfold matchesEmptyAt at hr
      have hmark : Marked ((clearVis N).setIfInBounds N.startAnchored true) N.startAnchored := by
        unfold Marked
        by_cases hlt : N.startAnchored < N.states.size
        · simp [Array.getD_eq_getD_getElem?, clearVis, hlt]
        · simp [Array.getD_eq_getD_getElem?, clearVis, hlt]
      have hcnt : ((clearVis N).setIfInBounds N.startAnchored true).count false ≤ N.states.size := by
        have := Array.count_le_size (a := false) (xs := (clearVis N).setIfInBounds N.startAnchored true)
        simpa [clearVis] using this
      have hA : EInv N h pos ((clearVis N).setIfInBounds N.startAnchored true) [N.startAnchored] := by
        intro q hq hmq hnot
        exfalso
        have hne : N.startAnchored ≠ q := fun hh => hnot (by simp [hh])
        unfold Marked at hmq
        rw [getD_set_other hne] at hmq
        exact clearVis_not_marked N hq hmq
      have hB : ∀ q ∈ [N.startAnchored], Marked ((clearVis N).setIfInBounds N.startAnchored true) q := by
        intro q hq
        simp at hq; subst hq; exact hmark
      obtain ⟨vis', hm1, hfin⟩ := emptyLoop_complete N h pos _ _ _ (by simp [clearVis])
        (by simp only [List.length_cons, List.length_nil]; omega) hA hB hr
      exact einv_no_match hfin he (hm1 _ hmark) hm

/-! ### hypotheses on the automaton / the input, and what one byte step does under them -/

/-- every transition of a sparse state whose range contains the byte is the one `firstTrans` picks
    (true when the ranges of a sparse state are pairwise disjoint, as the compiler builds them) -/
def SparseDet (N : NFA) : Prop :=
  ∀ q ts, N.get q = .sparse ts → ∀ lo hi nx b, (lo, hi, nx) ∈ ts → lo ≤ b → b ≤ hi → firstTrans b ts = some nx

/-- no rune states (the compiler never emits them) -/
def NoRune (N : NFA) : Prop := ∀ q nx, N.get q ≠ .runeAny nx ∧ N.get q ≠ .runeAnyNotNL nx

def Ascii (h : Bytes) : Prop := ∀ i, i < h.size → h.at i < 128

/-- rune states are only exercised on ASCII input -/
def RuneOK (N : NFA) (h : Bytes) : Prop := NoRune N ∨ Ascii h

def sparseSuccs (b : Nat) : List (Nat × Nat × Nat) → List Nat
  | [] => []
  | (lo, hi, nx) :: ts => if lo ≤ b ∧ b ≤ hi then nx :: sparseSuccs b ts else sparseSuccs b ts

/-- targets of the byte step from state `q` at `pos`, in the order the code adds them -/
def succs (N : NFA) (h : Bytes) (pos : Nat) (q : Nat) : List Nat :=
  match N.get q with
  | .byteRange lo hi nx => if lo ≤ h.at pos ∧ h.at pos ≤ hi then [nx] else []
  | .sparse ts => sparseSuccs (h.at pos) ts
  | .runeAny nx => [nx]
  | .runeAnyNotNL nx => if h.at pos ≠ 10 then [nx] else []
  | _ => []

def addAll (N : NFA) (h : Bytes) (pos' : Nat) (start : Nat) (L : List Nat) (vq : Vis × List Thread) :
    Vis × List Thread :=
  L.foldl (fun vq nx => addThread N h pos' ⟨nx, start⟩ vq) vq

theorem stepSparse_eq (N : NFA) (h : Bytes) (pos b start : Nat) (ts : List (Nat × Nat × Nat)) :
    ∀ vq, stepSparse N h pos b start ts vq = addAll N h (pos+1) start (sparseSuccs b ts) vq := by
  induction ts with
  | nil => intro vq; rfl
  | cons a ts ih =>
    intro vq
    obtain ⟨lo, hi, nx⟩ := a
    simp only [stepSparse, sparseSuccs]
    split
    · rw [ih]; rfl
    · rw [ih]

theorem ascii_runeWidth {h : Bytes} (ha : Ascii h) {pos : Nat} (hp : pos < h.size) : runeWidth h pos = 1 := by
  have := ha pos hp
  unfold runeWidth
  rw [if_neg (by omega)]
  simp only []
  rw [if_pos this]

theorem stepThread_eq {N : NFA} {h : Bytes} (hR : RuneOK N h) {pos : Nat} (hp : pos < h.size) (t : Thread)
    (vq : Vis × List Thread) :
    stepThread N h pos t vq = addAll N h (pos+1) t.start (succs N h pos t.state) vq := by
  unfold stepThread succs
  cases hk : N.get t.state <;> simp only []
  · rfl
  · split <;> rfl
  · exact stepSparse_eq ..
  · rfl
  · rfl
  · rfl
  · rfl
  · rfl
  · -- runeAny
    rcases hR with hn | ha
    · exact absurd hk (hn _ _).1
    · have hb := ha pos hp
      rw [if_neg (by omega), if_pos hp, Utf8.decodeAt, Utf8.decode1_fwd h h.size pos (by omega) hb]
      simp [addAll]
  · rcases hR with hn | ha
    · exact absurd hk (hn _ _).2
    · have hb := ha pos hp
      rw [if_neg (by omega), if_pos hp, Utf8.decodeAt, Utf8.decode1_fwd h h.size pos (by omega) hb]
      by_cases h10 : h.at pos = 10 <;> simp [addAll, h10]

theorem mem_sparseSuccs {b nx : Nat} {ts : List (Nat × Nat × Nat)} :
    nx ∈ sparseSuccs b ts ↔ ∃ lo hi, (lo, hi, nx) ∈ ts ∧ lo ≤ b ∧ b ≤ hi := by
  induction ts with
  | nil => simp [sparseSuccs]
  | cons a ts ih =>
    obtain ⟨lo, hi, n2⟩ := a
    simp only [sparseSuccs]
    split
    · rename_i hc
      simp only [List.mem_cons, ih]
      constructor
      · rintro (rfl | ⟨l, hh, h1, h2⟩)
        · exact ⟨lo, hi, Or.inl rfl, hc⟩
        · exact ⟨l, hh, Or.inr h1, h2⟩
      · rintro ⟨l, hh, h1 | h1, h2⟩
        · simp only [Prod.mk.injEq] at h1; exact Or.inl h1.2.2
        · exact Or.inr ⟨l, hh, h1, h2⟩
    · rename_i hc
      rw [ih]
      constructor
      · rintro ⟨l, hh, h1, h2⟩; exact ⟨l, hh, List.mem_cons_of_mem _ h1, h2⟩
      · rintro ⟨l, hh, h1, h2⟩
        rcases List.mem_cons.mp h1 with h3 | h3
        · simp only [Prod.mk.injEq] at h3
          obtain ⟨rfl, rfl, rfl⟩ := h3
          exact absurd h2 hc
        · exact ⟨l, hh, h3, h2⟩

theorem firstTrans_mem {b nx : Nat} {ts : List (Nat × Nat × Nat)} (hf : firstTrans b ts = some nx) :
    ∃ lo hi, (lo, hi, nx) ∈ ts ∧ lo ≤ b ∧ b ≤ hi := by
  induction ts with
  | nil => simp [firstTrans] at hf
  | cons a ts ih =>
    obtain ⟨lo, hi, n2⟩ := a
    simp only [firstTrans] at hf
    split at hf
    · rename_i hc
      simp only [Option.some.injEq] at hf; subst hf
      exact ⟨lo, hi, List.mem_cons_self, hc⟩
    · obtain ⟨l, hh, h1, h2⟩ := ih hf
      exact ⟨l, hh, List.mem_cons_of_mem _ h1, h2⟩

/-- under the hypotheses, `succs` lists exactly the consuming moves -/
theorem mem_succs_iff {N : NFA} {h : Bytes} (hS : SparseDet N) (hR : RuneOK N h) {pos : Nat} (hp : pos < h.size)
    (q nx : Nat) : nx ∈ succs N h pos q ↔ Step N h (q, pos) (nx, pos+1) := by
  constructor
  · intro hm
    unfold succs at hm
    cases hk : N.get q <;> simp only [hk] at hm
    all_goals try (simp at hm; done)
    · split at hm
      · rename_i hc; simp at hm; subst hm; exact Step.byteRange hk hp hc.1 hc.2
      · simp at hm
    · obtain ⟨lo, hi, h1, h2, h3⟩ := mem_sparseSuccs.mp hm
      exact Step.sparse hk hp (hS q _ hk lo hi nx _ h1 h2 h3)
    · rcases hR with hn | ha
      · exact absurd hk (hn _ _).1
      · simp at hm; subst hm
        have hw := ascii_runeWidth ha hp
        have := Step.runeAny hk hp (by omega)
        rwa [hw] at this
    · rcases hR with hn | ha
      · exact absurd hk (hn _ _).2
      · split at hm
        · rename_i h10; simp at hm; subst hm
          have hw := ascii_runeWidth ha hp
          have := Step.runeAnyNotNL hk hp h10 (by omega)
          rwa [hw] at this
        · simp at hm
  · intro hs
    have hi := step_inv hs
    unfold succs
    cases hk : N.get q <;> simp only [hk] at hi ⊢
    all_goals try (exfalso; omega)
    · simp [hi.2.1, hi.2.2.1, hi.2.2.2.1]
    · obtain ⟨lo, hh, h1, h2⟩ := firstTrans_mem hi.2.1
      exact mem_sparseSuccs.mpr ⟨lo, hh, h1, h2⟩
    · simp [hi.2.2.1]
    · simp [hi.2.1, hi.2.2.2.1]

/-- under `RuneOK` every move advances by at most one byte -/
theorem step_adv {N : NFA} {h : Bytes} (hR : RuneOK N h) {q p q' p' : Nat} (hs : Step N h (q, p) (q', p')) :
    p' = p ∨ (p' = p + 1 ∧ p < h.size) := by
  have hi := step_inv hs
  cases hk : N.get q <;> simp only [hk] at hi
  all_goals try omega
  · rcases hR with hn | ha
    · exact absurd hk (hn _ _).1
    · have := ascii_runeWidth ha hi.1; omega
  · rcases hR with hn | ha
    · exact absurd hk (hn _ _).2
    · have := ascii_runeWidth ha hi.1; omega

/-- a consuming move leaves a terminal, non-match state -/
theorem step_consume_terminal {N : NFA} {h : Bytes} {q p q' p' : Nat} (hs : Step N h (q, p) (q', p')) (hne : p' ≠ p) :
    Terminal N q ∧ N.get q ≠ .mtch := by
  have hi := step_inv hs
  unfold Terminal
  cases hk : N.get q <;> simp only [hk] at hi ⊢
  all_goals first | (exfalso; omega) | simp

/-! ### one closure call, one byte step, one generation -/

theorem closure_append (N : NFA) (h : Bytes) (pos : Nat) : ∀ (fuel : Nat) (stack : List Thread) (vis : Vis)
    (o1 o2 : List Thread),
    closure N h pos fuel stack vis (o1 ++ o2) =
      ((closure N h pos fuel stack vis o2).1, o1 ++ (closure N h pos fuel stack vis o2).2) := by
  intro fuel
  induction fuel with
  | zero => intro stack vis o1 o2; simp [closure]
  | succ fuel ih =>
    intro stack vis o1 o2
    cases stack with
    | nil => simp [closure]
    | cons fr st =>
      rw [closure, closure]
      split
      · exact ih ..
      · simp only []
        by_cases he : (expand N h pos fr).2 = true
        · simp only [he, ↓reduceIte, List.append_assoc]
          exact ih ..
        · simp only [he, Bool.false_eq_true, ↓reduceIte]
          exact ih ..

/-- the state of one generation: visited set and thread queue under construction -/
structure GenOK (N : NFA) (h : Bytes) (pos : Nat) (vq : Vis × List Thread) : Prop where
  size : vq.1.size = N.states.size
  closed : ClosedX N h pos vq.1 []
  covered : Covered N vq.1 vq.2

theorem genOK_clear (N : NFA) (h : Bytes) (pos : Nat) : GenOK N h pos (clearVis N, []) where
  size := clearVis_size N
  closed := fun _ _ hq hm _ => absurd hm (clearVis_not_marked N hq)
  covered := fun _ hq hm _ => absurd hm (clearVis_not_marked N hq)

theorem addThread_spec {N : NFA} {h : Bytes} {pos : Nat} {vq : Vis × List Thread} (g : GenOK N h pos vq) (t : Thread) :
    GenOK N h pos (addThread N h pos t vq) ∧ Mono vq.1 (addThread N h pos t vq).1 ∧
    Marked (addThread N h pos t vq).1 t.state ∧
    ∃ new, (addThread N h pos t vq).2 = vq.2 ++ new ∧
      ∀ x ∈ new, x.start = t.start ∧ EpsReach N h pos t.state x.state ∧ Terminal N x.state := by
  have hcnt : vq.1.count false ≤ N.states.size := by
    have := Array.count_le_size (a := false) (xs := vq.1)
    rw [g.size] at this; exact this
  have hcl : ClosedX N h pos vq.1 [t] := by
    intro q q' hq hm hs
    rcases g.closed q q' hq hm hs with h1 | ⟨x, hx, _⟩
    · exact Or.inl h1
    · simp at hx
  obtain ⟨r1, r2, r3, r4, r5, _⟩ := closure_complete N h pos (closureFuel N) [t] vq.1 vq.2 g.size
    (by simp only [closureFuel, List.length_cons, List.length_nil]; omega) hcl g.covered
  refine ⟨⟨r1, r4, r5⟩, r2, r3 t (by simp), (closure N h pos (closureFuel N) [t] vq.1 []).2, ?_, ?_⟩
  · have := closure_append N h pos (closureFuel N) [t] vq.1 vq.2 []
    simp only [List.append_nil] at this
    unfold addThread
    rw [this]
  · intro x hx
    exact closure_pres N h pos (fun fr => fr.start = t.start ∧ EpsReach N h pos t.state fr.state)
      (fun x => x.start = t.start ∧ EpsReach N h pos t.state x.state ∧ Terminal N x.state)
      (fun fr q' hfr hs => ⟨hfr.1, hfr.2.trans (EpsReach.cons hs (EpsReach.refl _))⟩)
      (fun fr hfr ht => ⟨hfr.1, hfr.2, ht⟩) _ _ _ _
      (by intro fr hfr; simp at hfr; subst hfr; exact ⟨rfl, EpsReach.refl _⟩) (by simp) x hx

theorem addAll_spec {N : NFA} {h : Bytes} {pos : Nat} (start : Nat) (L : List Nat) :
    ∀ {vq : Vis × List Thread}, GenOK N h pos vq →
    GenOK N h pos (addAll N h pos start L vq) ∧ Mono vq.1 (addAll N h pos start L vq).1 ∧
    (∀ nx ∈ L, Marked (addAll N h pos start L vq).1 nx) ∧
    ∃ new, (addAll N h pos start L vq).2 = vq.2 ++ new ∧
      ∀ x ∈ new, x.start = start ∧ Terminal N x.state ∧ ∃ nx ∈ L, EpsReach N h pos nx x.state := by
  induction L with
  | nil => intro vq g; exact ⟨g, Mono.refl _, by simp, [], by simp [addAll], by simp⟩
  | cons a L ih =>
    intro vq g
    obtain ⟨g1, m1, k1, new1, e1, p1⟩ := addThread_spec g ⟨a, start⟩
    obtain ⟨g2, m2, k2, new2, e2, p2⟩ := ih g1
    have hunf : addAll N h pos start (a :: L) vq = addAll N h pos start L (addThread N h pos ⟨a, start⟩ vq) := rfl
    rw [hunf]
    refine ⟨g2, m1.trans m2, ?_, new1 ++ new2, ?_, ?_⟩
    · intro nx hnx
      rcases List.mem_cons.mp hnx with rfl | h2
      · exact m2 _ k1
      · exact k2 nx h2
    · rw [e2, e1, List.append_assoc]
    · intro x hx
      rcases List.mem_append.mp hx with h1 | h1
      · obtain ⟨a1, a2, a3⟩ := p1 x h1
        exact ⟨a1, a3, a, List.mem_cons_self, a2⟩
      · obtain ⟨a1, a2, nx, a3, a4⟩ := p2 x h1
        exact ⟨a1, a2, nx, List.mem_cons_of_mem _ a3, a4⟩

/-- threads are ordered by start position -/
def Sorted (l : List Thread) : Prop := l.Pairwise (fun a b => a.start ≤ b.start)

/-- what one pass of `stepAll` over a sorted queue produces -/
theorem stepAll_spec {N : NFA} {h : Bytes} (hR : RuneOK N h) {pos : Nat} (hp : pos < h.size) (Q : List Thread) :
    ∀ {vq : Vis × List Thread}, GenOK N h (pos+1) vq → Sorted Q → Sorted vq.2 →
    (∀ a ∈ vq.2, ∀ t ∈ Q, a.start ≤ t.start) →
    GenOK N h (pos+1) (stepAll N h pos Q vq) ∧ Sorted (stepAll N h pos Q vq).2 ∧
    (∃ new, (stepAll N h pos Q vq).2 = vq.2 ++ new ∧
      ∀ x ∈ new, Terminal N x.state ∧ ∃ t ∈ Q, x.start = t.start ∧ ∃ nx ∈ succs N h pos t.state,
        EpsReach N h (pos+1) nx x.state) ∧
    (∀ t ∈ Q, ∀ nx ∈ succs N h pos t.state, ∀ q, EpsReach N h (pos+1) nx q → Terminal N q →
      ∃ x ∈ (stepAll N h pos Q vq).2, x.state = q ∧ x.start ≤ t.start) := by
  induction Q with
  | nil =>
    intro vq g _ hs2 _
    exact ⟨g, hs2, ⟨[], by simp [stepAll], by simp⟩, by simp⟩
  | cons t ts ih =>
    intro vq g hs1 hs2 hb
    have hunf : stepAll N h pos (t :: ts) vq = stepAll N h pos ts (stepThread N h pos t vq) := rfl
    rw [hunf, stepThread_eq hR hp]
    obtain ⟨g1, m1, k1, new1, e1, p1⟩ := addAll_spec (pos := pos+1) t.start (succs N h pos t.state) g
    have hs1' := List.pairwise_cons.mp hs1
    have hsorted1 : Sorted (addAll N h (pos+1) t.start (succs N h pos t.state) vq).2 := by
      rw [e1]
      unfold Sorted
      rw [List.pairwise_append]
      refine ⟨hs2, ?_, ?_⟩
      · rw [List.pairwise_iff_forall_sublist]
        intro a b hab
        have ha := (p1 a (hab.subset (by simp))).1
        have hb' := (p1 b (hab.subset (by simp))).1
        omega
      · intro a ha b hb'
        have := hb a ha t List.mem_cons_self
        have := (p1 b hb').1
        omega
    have hb1 : ∀ a ∈ (addAll N h (pos+1) t.start (succs N h pos t.state) vq).2, ∀ t' ∈ ts, a.start ≤ t'.start := by
      intro a ha t' ht'
      rw [e1] at ha
      rcases List.mem_append.mp ha with h1 | h1
      · exact hb a h1 t' (List.mem_cons_of_mem _ ht')
      · have := (p1 a h1).1
        have := hs1'.1 t' ht'
        omega
    obtain ⟨g2, s2, ⟨new2, e2, p2⟩, c2⟩ := ih g1 hs1'.2 hsorted1 hb1
    refine ⟨g2, s2, ⟨new1 ++ new2, by rw [e2, e1, List.append_assoc], ?_⟩, ?_⟩
    · intro x hx
      rcases List.mem_append.mp hx with h1 | h1
      · obtain ⟨a1, a2, nx, a3, a4⟩ := p1 x h1
        exact ⟨a2, t, List.mem_cons_self, a1, nx, a3, a4⟩
      · obtain ⟨a1, t', a2, a3⟩ := p2 x h1
        exact ⟨a1, t', List.mem_cons_of_mem _ a2, a3⟩
    · intro t' ht' nx hnx q hq hterm
      rcases List.mem_cons.mp ht' with rfl | h2
      · have hmq : Marked (addAll N h (pos+1) t'.start (succs N h pos t'.state) vq).1 q :=
          closed_reach g1.closed hq (k1 nx hnx)
        obtain ⟨x, hx1, hx2⟩ := g1.covered q hterm.lt hmq hterm
        refine ⟨x, by rw [e2]; exact List.mem_append_left _ hx1, hx2, ?_⟩
        rw [e1] at hx1
        rcases List.mem_append.mp hx1 with h3 | h3
        · exact hb x h3 t' List.mem_cons_self
        · exact Nat.le_of_eq (p1 x h3).1
      · exact c2 t' h2 nx hnx q hq hterm

/-! ### the queue loops in closed form -/

def recordAll (N : NFA) (pos : Nat) : List Thread → Option (Nat × Nat) → Option (Nat × Nat)
  | [], best => best
  | t :: ts, best => recordAll N pos ts (if isMatchState N t.state then record best t.start pos else best)

def recordFirst (N : NFA) (pos : Nat) (Q : List Thread) (best : Option (Nat × Nat)) : Option (Nat × Nat) :=
  match Q.find? (fun t => isMatchState N t.state) with
  | some M => record best M.start pos
  | none => best

theorem stepThread_match {N : NFA} {h : Bytes} {pos : Nat} {t : Thread} (hm : isMatchState N t.state = true)
    (vq : Vis × List Thread) : stepThread N h pos t vq = vq := by
  have := (isMatchState_iff N t.state).mp hm
  simp [stepThread, this]

theorem stepQueue_first (N : NFA) (h : Bytes) (pos : Nat) (Q : List Thread) : ∀ best vq,
    stepQueue N h false pos Q best vq =
      (recordFirst N pos Q best, stepAll N h pos (Q.takeWhile (fun t => !isMatchState N t.state)) vq) := by
  induction Q with
  | nil => intro best vq; simp [stepQueue, recordFirst, stepAll]
  | cons t ts ih =>
    intro best vq
    by_cases hm : isMatchState N t.state = true
    · simp [stepQueue, recordFirst, hm, stepAll, List.takeWhile]
    · have hm' : isMatchState N t.state = false := by simpa using hm
      simp only [stepQueue, hm', Bool.false_eq_true, ↓reduceIte, recordFirst, List.find?, List.takeWhile,
        Bool.not_false, stepAll]
      rw [ih]
      simp [recordFirst]

theorem stepQueue_longest (N : NFA) (h : Bytes) (pos : Nat) (Q : List Thread) : ∀ best vq,
    stepQueue N h true pos Q best vq = (recordAll N pos Q best, stepAll N h pos Q vq) := by
  induction Q with
  | nil => intro best vq; simp [stepQueue, recordAll, stepAll]
  | cons t ts ih =>
    intro best vq
    by_cases hm : isMatchState N t.state = true
    · simp only [stepQueue, hm, ↓reduceIte, Bool.not_true, Bool.false_eq_true, recordAll, stepAll]
      rw [ih, stepThread_match hm]
    · have hm' : isMatchState N t.state = false := by simpa using hm
      simp only [stepQueue, hm', Bool.false_eq_true, ↓reduceIte, recordAll, stepAll]
      rw [ih]

theorem endQueue_eq (N : NFA) (pos : Nat) (Q : List Thread) : ∀ best,
    endQueue N pos Q best = recordFirst N pos Q best := by
  induction Q with
  | nil => intro best; simp [endQueue, recordFirst]
  | cons t ts ih =>
    intro best
    by_cases hm : isMatchState N t.state = true
    · simp [endQueue, recordFirst, hm]
    · have hm' : isMatchState N t.state = false := by simpa using hm
      simp only [endQueue, hm', Bool.false_eq_true, ↓reduceIte, recordFirst, List.find?]
      rw [ih]; rfl

theorem record_cases (best : Option (Nat × Nat)) (cs ce : Nat) :
    record best cs ce = best ∨ record best cs ce = some (cs, ce) := by
  unfold record; split <;> simp

/-- in a sorted queue a thread is stepped before the first match state, or that match state starts no later -/
theorem sorted_split {N : NFA} {Q : List Thread} (hs : Sorted Q) {t : Thread} (ht : t ∈ Q) :
    t ∈ Q.takeWhile (fun t => !isMatchState N t.state) ∨
    ∃ M, Q.find? (fun t => isMatchState N t.state) = some M ∧ M.start ≤ t.start ∧ M ∈ Q := by
  induction Q with
  | nil => simp at ht
  | cons a rest ih =>
    have hs' := List.pairwise_cons.mp hs
    by_cases hm : isMatchState N a.state = true
    · right
      refine ⟨a, by simp [List.find?, hm], ?_, List.mem_cons_self⟩
      rcases List.mem_cons.mp ht with rfl | h2
      · exact Nat.le_refl _
      · exact hs'.1 t h2
    · have hm' : isMatchState N a.state = false := by simpa using hm
      rcases List.mem_cons.mp ht with rfl | h2
      · left; simp [List.takeWhile, hm']
      · rcases ih hs'.2 h2 with h3 | ⟨M, h3, h4, h5⟩
        · left; simp [List.takeWhile, hm', h3]
        · right; exact ⟨M, by simp [List.find?, hm', h3], h4, List.mem_cons_of_mem _ h5⟩

theorem sorted_takeWhile {Q : List Thread} (hs : Sorted Q) (p : Thread → Bool) : Sorted (Q.takeWhile p) :=
  List.Pairwise.sublist (List.takeWhile_sublist p) hs

theorem find_mem_match {N : NFA} {Q : List Thread} {M : Thread}
    (hf : Q.find? (fun t => isMatchState N t.state) = some M) : M ∈ Q ∧ isMatchState N M.state = true := by
  have h1 := List.mem_of_find?_eq_some hf
  have h2 := List.find?_some hf
  exact ⟨h1, h2⟩

/-! ### invariants of the search loop -/

def ThreadOK (N : NFA) (h : Bytes) (at_ pos : Nat) (t : Thread) : Prop :=
  at_ ≤ t.start ∧ t.start ≤ pos ∧ Steps N h (N.startAnchored, t.start) (t.state, pos) ∧ Terminal N t.state

def BestOK (N : NFA) (h : Bytes) (at_ bound : Nat) (best : Option (Nat × Nat)) : Prop :=
  ∀ s e, best = some (s, e) → at_ ≤ s ∧ s ≤ e ∧ e < bound ∧ Accepts N h s e

/-- the recorded span is at least as good as the match `(i, j)`: it starts further left, or at `i` and (in longest
    mode) ends at or after `j` -/
def Good (longest : Bool) (i j : Nat) (best : Option (Nat × Nat)) : Prop :=
  ∃ s e, best = some (s, e) ∧ (s < i ∨ (s = i ∧ (longest = true → j ≤ e)))

/-- some thread that started at or before `i` can still complete a match ending at `j` -/
def Alive (N : NFA) (h : Bytes) (i j pos : Nat) (queue : List Thread) : Prop :=
  ∃ t ∈ queue, t.start ≤ i ∧ ∃ m, Steps N h (t.state, pos) (m, j) ∧ N.get m = .mtch

theorem terminal_step_adv {N : NFA} {h : Bytes} {q p q' p' : Nat} (ht : Terminal N q)
    (hs : Step N h (q, p) (q', p')) : p' ≠ p := by
  have hi := step_inv hs
  unfold Terminal at ht
  cases hk : N.get q <;> simp only [hk] at hi ht
  all_goals omega

theorem steps_cases {N : NFA} {h : Bytes} {a b : Nat × Nat} (hs : Steps N h a b) :
    a = b ∨ ∃ y, Step N h a y ∧ Steps N h y b := by
  cases hs with
  | refl => exact Or.inl rfl
  | cons st rest => exact Or.inr ⟨_, st, rest⟩

theorem match_steps {N : NFA} {h : Bytes} {q p m j : Nat} (hq : N.get q = .mtch) (hs : Steps N h (q, p) (m, j)) :
    m = q ∧ j = p := by
  rcases steps_cases hs with h1 | ⟨⟨q', p'⟩, st, _⟩
  · simp only [Prod.mk.injEq] at h1; exact ⟨h1.1.symm, h1.2.symm⟩
  · have := step_inv st
    simp only [hq] at this

/-- a run to a match state first makes epsilon moves to a terminal state -/
theorem reach_decomp {N : NFA} {h : Bytes} {a b : Nat × Nat} (hs : Steps N h a b) (hm : N.get b.1 = .mtch)
    (hp : a.2 ≤ h.size) :
    ∃ q1, EpsReach N h a.2 a.1 q1 ∧ Terminal N q1 ∧ Steps N h (q1, a.2) b := by
  induction hs with
  | refl x =>
    obtain ⟨q, p⟩ := x
    exact ⟨q, EpsReach.refl _, by simp only at hm; simp [Terminal, hm], Steps.refl _⟩
  | @cons x y z st rest ih =>
    obtain ⟨q, p⟩ := x
    obtain ⟨q', p'⟩ := y
    by_cases hpp : p' = p
    · subst hpp
      obtain ⟨q1, e1, t1, s1⟩ := ih hm hp
      exact ⟨q1, EpsReach.cons st e1, t1, s1⟩
    · exact ⟨q, EpsReach.refl _, (step_consume_terminal st hpp).1, Steps.cons st rest⟩

theorem threadOK_accepts {N : NFA} {h : Bytes} {at_ pos : Nat} {t : Thread} (ht : ThreadOK N h at_ pos t)
    (hm : isMatchState N t.state = true) : Accepts N h t.start pos :=
  ⟨t.state, ht.2.2.1, (isMatchState_iff N _).mp hm, ht.2.2.2.lt⟩

theorem bestOK_record {N : NFA} {h : Bytes} {at_ pos : Nat} {best : Option (Nat × Nat)} {t : Thread}
    (hb : BestOK N h at_ (pos+1) best) (ht : ThreadOK N h at_ pos t) (hm : isMatchState N t.state = true) :
    BestOK N h at_ (pos+1) (record best t.start pos) := by
  rcases record_cases best t.start pos with h1 | h1 <;> rw [h1]
  · exact hb
  · intro s e he
    simp only [Option.some.injEq, Prod.mk.injEq] at he
    obtain ⟨rfl, rfl⟩ := he
    exact ⟨ht.1, ht.2.1, by omega, threadOK_accepts ht hm⟩

theorem bestOK_mono {N : NFA} {h : Bytes} {at_ b1 b2 : Nat} {best : Option (Nat × Nat)} (hb : BestOK N h at_ b1 best)
    (hle : b1 ≤ b2) : BestOK N h at_ b2 best := by
  intro s e he
  obtain ⟨h1, h2, h3, h4⟩ := hb s e he
  exact ⟨h1, h2, by omega, h4⟩

theorem bestOK_recordFirst {N : NFA} {h : Bytes} {at_ pos : Nat} {best : Option (Nat × Nat)} {Q : List Thread}
    (hb : BestOK N h at_ (pos+1) best) (hq : ∀ t ∈ Q, ThreadOK N h at_ pos t) :
    BestOK N h at_ (pos+1) (recordFirst N pos Q best) := by
  unfold recordFirst
  split
  · rename_i M hf
    obtain ⟨h1, h2⟩ := find_mem_match hf
    exact bestOK_record hb (hq M h1) h2
  · exact hb

theorem bestOK_recordAll {N : NFA} {h : Bytes} {at_ pos : Nat} (Q : List Thread) :
    ∀ {best : Option (Nat × Nat)}, BestOK N h at_ (pos+1) best → (∀ t ∈ Q, ThreadOK N h at_ pos t) →
    BestOK N h at_ (pos+1) (recordAll N pos Q best) := by
  induction Q with
  | nil => intro best hb _; exact hb
  | cons t ts ih =>
    intro best hb hq
    simp only [recordAll]
    apply ih
    · split
      · rename_i hm; exact bestOK_record hb (hq t List.mem_cons_self) hm
      · exact hb
    · exact fun x hx => hq x (List.mem_cons_of_mem _ hx)

theorem isBetter_some (s e cs ce : Nat) :
    isBetter (some (s, e)) cs ce = true ↔ cs < s ∨ (cs = s ∧ ce > e) := by
  unfold isBetter
  simp only []
  split
  · simp; omega
  · split
    · simp; omega
    · simp; omega

theorem good_record_mono {l : Bool} {i j : Nat} {best : Option (Nat × Nat)} (hg : Good l i j best) (cs ce : Nat) :
    Good l i j (record best cs ce) := by
  obtain ⟨s, e, rfl, hh⟩ := hg
  unfold record
  by_cases hb : isBetter (some (s, e)) cs ce = true
  · rw [if_pos hb]
    rw [isBetter_some] at hb
    refine ⟨cs, ce, rfl, ?_⟩
    rcases hh with h1 | ⟨h1, h2⟩
    · omega
    · rcases hb with h3 | ⟨h3, h4⟩
      · omega
      · exact Or.inr ⟨by omega, fun hl => by have := h2 hl; omega⟩
  · rw [if_neg hb]
    exact ⟨s, e, rfl, hh⟩

theorem good_record_new {l : Bool} {i j : Nat} (best : Option (Nat × Nat)) {cs ce : Nat} (hcs : cs ≤ i)
    (hce : l = true → j ≤ ce) : Good l i j (record best cs ce) := by
  have hnew : Good l i j (some (cs, ce)) := by
    refine ⟨cs, ce, rfl, ?_⟩
    by_cases h1 : cs < i
    · exact Or.inl h1
    · exact Or.inr ⟨by omega, hce⟩
  unfold record
  cases best with
  | none => simpa [isBetter] using hnew
  | some b =>
    obtain ⟨s, e⟩ := b
    by_cases hb : isBetter (some (s, e)) cs ce = true
    · rw [if_pos hb]; exact hnew
    · rw [if_neg hb]
      rw [isBetter_some] at hb
      refine ⟨s, e, rfl, ?_⟩
      by_cases hsi : s < i
      · exact Or.inl hsi
      · exact Or.inr ⟨by omega, fun hl => by have := hce hl; omega⟩

theorem good_recordAll {N : NFA} {l : Bool} {i j pos : Nat} (Q : List Thread) :
    ∀ {best : Option (Nat × Nat)},
      (Good l i j best ∨ ∃ t ∈ Q, isMatchState N t.state = true ∧ t.start ≤ i ∧ (l = true → j ≤ pos)) →
      Good l i j (recordAll N pos Q best) := by
  induction Q with
  | nil =>
    intro best hg
    rcases hg with h1 | ⟨t, ht, _⟩
    · exact h1
    · simp at ht
  | cons a ts ih =>
    intro best hg
    simp only [recordAll]
    apply ih
    rcases hg with h1 | ⟨t, ht, h2, h3, h4⟩
    · left
      split
      · exact good_record_mono h1 _ _
      · exact h1
    · rcases List.mem_cons.mp ht with rfl | h5
      · left
        rw [if_pos h2]
        exact good_record_new best h3 h4
      · exact Or.inr ⟨t, h5, h2, h3, h4⟩

theorem good_recordFirst_mono {N : NFA} {l : Bool} {i j pos : Nat} {Q : List Thread} {best : Option (Nat × Nat)}
    (hg : Good l i j best) : Good l i j (recordFirst N pos Q best) := by
  unfold recordFirst
  split
  · exact good_record_mono hg _ _
  · exact hg

/-- a stepped thread that can still complete a match has a successor thread that can -/
theorem alive_step {N : NFA} {h : Bytes} (hS : SparseDet N) (hR : RuneOK N h) {pos i j : Nat} {t : Thread}
    {next : List Thread} (hti : t.start ≤ i) (hterm : Terminal N t.state) (hnm : isMatchState N t.state = false)
    {m : Nat} (hs : Steps N h (t.state, pos) (m, j)) (hm : N.get m = .mtch)
    (hcover : ∀ nx ∈ succs N h pos t.state, ∀ q, EpsReach N h (pos+1) nx q → Terminal N q →
      ∃ x ∈ next, x.state = q ∧ x.start ≤ t.start) :
    pos < h.size ∧ Alive N h i j (pos+1) next := by
  rcases steps_cases hs with h0 | ⟨⟨q', p'⟩, st, rest⟩
  · simp only [Prod.mk.injEq] at h0
    have := (isMatchState_iff N t.state).mpr (h0.1 ▸ hm)
    rw [this] at hnm; cases hnm
  · have hne := terminal_step_adv hterm st
    rcases step_adv hR st with h1 | ⟨h1, h2⟩
    · exact absurd h1 hne
    · subst h1
      have hmem := (mem_succs_iff hS hR h2 t.state q').mpr st
      obtain ⟨q1, e1, t1, s1⟩ := reach_decomp rest hm (by simp only; omega)
      obtain ⟨x, hx1, hx2, hx3⟩ := hcover q' hmem q1 e1 t1
      exact ⟨h2, x, hx1, by omega, m, by rw [hx2]; exact s1, hm⟩

theorem sorted_nil : Sorted [] := List.Pairwise.nil

theorem mem_takeWhile_imp' {α : Type} {p : α → Bool} {l : List α} {x : α} (hx : x ∈ l.takeWhile p) : p x = true := by
  induction l with
  | nil => simp at hx
  | cons a l ih =>
    simp only [List.takeWhile] at hx
    cases hp : p a with
    | true =>
      rw [hp] at hx
      rcases List.mem_cons.mp hx with rfl | h2
      · exact hp
      · exact ih h2
    | false => rw [hp] at hx; simp at hx

/-- stepping a list of sound threads from a fresh generation -/
theorem stepAll_fresh {N : NFA} {h : Bytes} (hS : SparseDet N) (hR : RuneOK N h) {at_ pos : Nat} (hp : pos < h.size)
    {Q : List Thread} (hq : ∀ t ∈ Q, ThreadOK N h at_ pos t) (hs : Sorted Q) :
    (∀ x ∈ (stepAll N h pos Q (clearVis N, [])).2, ThreadOK N h at_ (pos+1) x) ∧
    Sorted (stepAll N h pos Q (clearVis N, [])).2 ∧
    (∀ t ∈ Q, ∀ nx ∈ succs N h pos t.state, ∀ q, EpsReach N h (pos+1) nx q → Terminal N q →
      ∃ x ∈ (stepAll N h pos Q (clearVis N, [])).2, x.state = q ∧ x.start ≤ t.start) := by
  obtain ⟨_, s1, ⟨new, e1, p1⟩, c1⟩ := stepAll_spec hR hp Q (genOK_clear N h (pos+1)) hs sorted_nil (by simp)
  refine ⟨?_, s1, c1⟩
  intro x hx
  rw [e1] at hx
  simp only [List.nil_append] at hx
  obtain ⟨a1, t, a2, a3, nx, a4, a5⟩ := p1 x hx
  obtain ⟨b1, b2, b3, _⟩ := hq t a2
  refine ⟨by omega, by omega, ?_, a1⟩
  rw [a3]
  exact steps_trans b3 (Steps.cons ((mem_succs_iff hS hR hp _ _).mp a4) a5.steps)

/-- one pass of the combined match-check + step loop at `pos < len(haystack)` -/
theorem stepQueue_spec {N : NFA} {h : Bytes} (hS : SparseDet N) (hR : RuneOK N h) (longest : Bool) {at_ pos : Nat}
    (hp : pos < h.size) {queue : List Thread} {best : Option (Nat × Nat)}
    (hq : ∀ t ∈ queue, ThreadOK N h at_ pos t) (hs : Sorted queue) (hb : BestOK N h at_ pos best) :
    (∀ x ∈ (stepQueue N h longest pos queue best (clearVis N, [])).2.2, ThreadOK N h at_ (pos+1) x) ∧
    Sorted (stepQueue N h longest pos queue best (clearVis N, [])).2.2 ∧
    BestOK N h at_ (pos+1) (stepQueue N h longest pos queue best (clearVis N, [])).1 ∧
    (∀ i j, Good longest i j best ∨ Alive N h i j pos queue →
      Good longest i j (stepQueue N h longest pos queue best (clearVis N, [])).1 ∨
      Alive N h i j (pos+1) (stepQueue N h longest pos queue best (clearVis N, [])).2.2) := by
  have hb' : BestOK N h at_ (pos+1) best := bestOK_mono hb (by omega)
  cases longest with
  | false =>
    rw [stepQueue_first]
    simp only []
    have hsub : ∀ t ∈ queue.takeWhile (fun t => !isMatchState N t.state), t ∈ queue :=
      fun t ht => (List.takeWhile_sublist _).subset ht
    obtain ⟨a1, a2, a3⟩ := stepAll_fresh hS hR hp (fun t ht => hq t (hsub t ht)) (sorted_takeWhile hs _)
    refine ⟨a1, a2, bestOK_recordFirst hb' hq, ?_⟩
    intro i j hg
    rcases hg with hg | ⟨t, ht, hti, m, hsteps, hm⟩
    · exact Or.inl (good_recordFirst_mono hg)
    · rcases sorted_split (N := N) hs ht with h1 | ⟨M, h1, h2, _⟩
      · have hnm : isMatchState N t.state = false := by
          have := mem_takeWhile_imp' h1
          simpa using this
        right
        exact (alive_step hS hR hti (hq t ht).2.2.2 hnm hsteps hm (a3 t h1)).2
      · left
        unfold recordFirst
        rw [h1]
        exact good_record_new best (by omega) (by simp)
  | true =>
    rw [stepQueue_longest]
    simp only []
    obtain ⟨a1, a2, a3⟩ := stepAll_fresh hS hR hp hq hs
    refine ⟨a1, a2, bestOK_recordAll queue hb' hq, ?_⟩
    intro i j hg
    rcases hg with hg | ⟨t, ht, hti, m, hsteps, hm⟩
    · exact Or.inl (good_recordAll queue (Or.inl hg))
    · by_cases hmt : isMatchState N t.state = true
      · left
        have := match_steps ((isMatchState_iff N _).mp hmt) hsteps
        exact good_recordAll queue (Or.inr ⟨t, ht, hmt, hti, fun _ => by omega⟩)
      · right
        exact (alive_step hS hR hti (hq t ht).2.2.2 (by simpa using hmt) hsteps hm (a3 t ht)).2

/-- the start thread injected at `pos` -/
theorem inject_spec {N : NFA} {h : Bytes} {at_ pos : Nat} (hat : at_ ≤ pos) (hpos : pos ≤ h.size)
    {queue : List Thread} (hq : ∀ t ∈ queue, ThreadOK N h at_ pos t) (hs : Sorted queue) :
    (∀ t ∈ (addThread N h pos ⟨N.startAnchored, pos⟩ (clearVis N, queue)).2, ThreadOK N h at_ pos t) ∧
    Sorted (addThread N h pos ⟨N.startAnchored, pos⟩ (clearVis N, queue)).2 ∧
    (∀ j, Accepts N h pos j → Alive N h pos j pos (addThread N h pos ⟨N.startAnchored, pos⟩ (clearVis N, queue)).2) ∧
    (∀ t ∈ queue, t ∈ (addThread N h pos ⟨N.startAnchored, pos⟩ (clearVis N, queue)).2) := by
  have g0 : GenOK N h pos (clearVis N, queue) :=
    ⟨clearVis_size N, fun q _ hq' hm _ => absurd hm (clearVis_not_marked N hq'),
      fun q hq' hm _ => absurd hm (clearVis_not_marked N hq')⟩
  obtain ⟨g1, _, k1, new, e1, p1⟩ := addThread_spec g0 ⟨N.startAnchored, pos⟩
  simp only at e1 p1 k1
  have hok : ∀ t ∈ (addThread N h pos ⟨N.startAnchored, pos⟩ (clearVis N, queue)).2, ThreadOK N h at_ pos t := by
    intro t ht
    rw [e1] at ht
    rcases List.mem_append.mp ht with h1 | h1
    · exact hq t h1
    · obtain ⟨a1, a2, a3⟩ := p1 t h1
      refine ⟨by omega, by omega, ?_, a3⟩
      rw [a1]; exact a2.steps
  refine ⟨hok, ?_, ?_, fun t ht => by rw [e1]; exact List.mem_append_left _ ht⟩
  · rw [e1]
    unfold Sorted
    rw [List.pairwise_append]
    refine ⟨hs, ?_, ?_⟩
    · rw [List.pairwise_iff_forall_sublist]
      intro a b hab
      have ha := (p1 a (hab.subset (by simp))).1
      have hb' := (p1 b (hab.subset (by simp))).1
      omega
    · intro a ha b hb'
      have := (hq a ha).2.1
      have := (p1 b hb').1
      omega
  · intro j ⟨m, hsteps, hm, _⟩
    obtain ⟨q1, e2, t1, s1⟩ := reach_decomp hsteps hm hpos
    simp only at e2 s1
    have hmq := closed_reach g1.closed e2 k1
    obtain ⟨x, hx1, hx2⟩ := g1.covered q1 t1.lt hmq t1
    exact ⟨x, hx1, (hok x hx1).2.1, m, by rw [hx2]; exact s1, hm⟩

theorem alive_mono {N : NFA} {h : Bytes} {i j pos : Nat} {q1 q2 : List Thread} (hsub : ∀ t ∈ q1, t ∈ q2)
    (ha : Alive N h i j pos q1) : Alive N h i j pos q2 := by
  obtain ⟨t, ht, r⟩ := ha
  exact ⟨t, hsub t ht, r⟩

/-- the unanchored search loop: what it returns is a match, and it is at least as good as any match `(i, j)` whose
    start has not been passed over -/
theorem loopU_spec {N : NFA} {h : Bytes} (hS : SparseDet N) (hR : RuneOK N h) (longest : Bool) (at_ : Nat) :
    ∀ (fuel pos : Nat) (queue : List Thread) (best : Option (Nat × Nat)),
      fuel = h.size + 1 - pos → pos ≤ h.size → at_ ≤ pos →
      (∀ t ∈ queue, ThreadOK N h at_ pos t) → Sorted queue → BestOK N h at_ pos best →
      BestOK N h at_ (h.size+1) (loopU N h longest fuel pos queue best) ∧
      ∀ i j, at_ ≤ i → i ≤ h.size → Accepts N h i j →
        (Good longest i j best ∨ pos ≤ i ∨ Alive N h i j pos queue) →
        Good longest i j (loopU N h longest fuel pos queue best) := by
  intro fuel
  induction fuel with
  | zero => intro pos queue best hf hpos; omega
  | succ fuel ih =>
    intro pos queue best hf hpos hat hq hs hb
    rw [loopU]
    simp only []
    -- the start thread
    have hinj : ∃ queue', queue' = (if best.isNone = true then
          (addThread N h pos ⟨N.startAnchored, pos⟩ (clearVis N, queue)).2 else queue) ∧
        (∀ t ∈ queue', ThreadOK N h at_ pos t) ∧ Sorted queue' ∧
        ∀ i j, at_ ≤ i → i ≤ h.size → Accepts N h i j →
          (Good longest i j best ∨ pos ≤ i ∨ Alive N h i j pos queue) →
          (Good longest i j best ∨ pos < i ∨ Alive N h i j pos queue') := by
      refine ⟨_, rfl, ?_⟩
      cases best with
      | none =>
        simp only [Option.isNone_none, ↓reduceIte]
        obtain ⟨a1, a2, a3, a4⟩ := inject_spec hat hpos hq hs
        refine ⟨a1, a2, ?_⟩
        intro i j _ _ hacc htr
        rcases htr with h1 | h1 | h1
        · exact Or.inl h1
        · by_cases hpi : pos < i
          · exact Or.inr (Or.inl hpi)
          · have : i = pos := by omega
            subst this
            exact Or.inr (Or.inr (a3 j hacc))
        · exact Or.inr (Or.inr (alive_mono a4 h1))
      | some b =>
        obtain ⟨bs, be⟩ := b
        simp only [Option.isNone_some, Bool.false_eq_true, ↓reduceIte]
        refine ⟨hq, hs, ?_⟩
        intro i j _ _ _ htr
        rcases htr with h1 | h1 | h1
        · exact Or.inl h1
        · by_cases hpi : pos < i
          · exact Or.inr (Or.inl hpi)
          · have := hb bs be rfl
            exact Or.inl ⟨bs, be, rfl, Or.inl (by omega)⟩
        · exact Or.inr (Or.inr h1)
    obtain ⟨queue', hqe, hq', hs', htr'⟩ := hinj
    rw [← hqe]
    by_cases hp : pos < h.size
    · rw [if_pos hp]
      obtain ⟨b1, b2, b3, b4⟩ := stepQueue_spec hS hR longest hp hq' hs' hb
      generalize stepQueue N h longest pos queue' best (clearVis N, []) = r at b1 b2 b3 b4
      obtain ⟨best', vis', next⟩ := r
      simp only at b1 b2 b3 b4 ⊢
      -- what the next iteration gives
      have hcont := ih (pos+1) next best' (by omega) (by omega) (by omega) b1 b2 b3
      have htrack : ∀ i j, at_ ≤ i → i ≤ h.size → Accepts N h i j →
          (Good longest i j best ∨ pos ≤ i ∨ Alive N h i j pos queue) →
          (Good longest i j best' ∨ pos + 1 ≤ i ∨ Alive N h i j (pos+1) next) := by
        intro i j h1 h2 h3 h4
        rcases htr' i j h1 h2 h3 h4 with h5 | h5 | h5
        · exact (b4 i j (Or.inl h5)).elim Or.inl (fun x => Or.inr (Or.inr x))
        · exact Or.inr (Or.inl h5)
        · exact (b4 i j (Or.inr h5)).elim Or.inl (fun x => Or.inr (Or.inr x))
      cases best' with
      | none =>
        simp only []
        exact ⟨hcont.1, fun i j h1 h2 h3 h4 => hcont.2 i j h1 h2 h3 (htrack i j h1 h2 h3 h4)⟩
      | some b =>
        obtain ⟨bs, be⟩ := b
        simp only []
        split
        · exact ⟨hcont.1, fun i j h1 h2 h3 h4 => hcont.2 i j h1 h2 h3 (htrack i j h1 h2 h3 h4)⟩
        · rename_i hl
          refine ⟨bestOK_mono b3 (by omega), ?_⟩
          intro i j h1 h2 h3 h4
          rcases htrack i j h1 h2 h3 h4 with h5 | h5 | ⟨x, hx, hxi, _⟩
          · exact h5
          · have := b3 bs be rfl
            exact ⟨bs, be, rfl, Or.inl (by omega)⟩
          · have hnl : ¬ (x.start ≤ bs) := by
              intro hle
              apply hl
              unfold hasLeftmost
              rw [List.any_eq_true]
              exact ⟨x, hx, by simpa using hle⟩
            exact ⟨bs, be, rfl, Or.inl (by omega)⟩
    · rw [if_neg hp]
      have hpe : pos = h.size := by omega
      rw [endQueue_eq]
      have hb' : BestOK N h at_ (pos+1) best := bestOK_mono hb (by omega)
      refine ⟨by rw [← hpe]; exact bestOK_recordFirst hb' hq', ?_⟩
      intro i j h1 h2 h3 h4
      rcases htr' i j h1 h2 h3 h4 with h5 | h5 | ⟨t, ht, hti, m, hsteps, hm⟩
      · exact good_recordFirst_mono h5
      · omega
      · -- nothing moves at the end of the input: `t` is a match state and `j = pos`
        have hend : t.state = m ∧ pos = j := by
          rcases steps_cases hsteps with h0 | ⟨⟨q', p'⟩, st, _⟩
          · simpa using h0
          · exfalso
            rcases step_adv hR st with e1 | ⟨_, e2⟩
            · exact absurd e1 (terminal_step_adv (hq' t ht).2.2.2 st)
            · exact hp e2
        have hmt : isMatchState N t.state = true := (isMatchState_iff N _).mpr (hend.1 ▸ hm)
        rcases sorted_split (N := N) hs' ht with h6 | ⟨M, h6, h7, _⟩
        · have := mem_takeWhile_imp' h6
          simp [hmt] at this
        · have hMi : M.start ≤ i := by omega
          unfold recordFirst
          rw [h6]
          exact good_record_new best hMi (fun _ => by omega)

/-! ### the span search, unanchored automata -/

theorem searchUnanchored_spec {N : NFA} {h : Bytes} (hS : SparseDet N) (hR : RuneOK N h) (longest : Bool)
    {at_ : Nat} (hat : at_ ≤ h.size) :
    BestOK N h at_ (h.size+1) (searchUnanchored N h at_ longest) ∧
    ∀ i j, at_ ≤ i → i ≤ h.size → Accepts N h i j → Good longest i j (searchUnanchored N h at_ longest) := by
  obtain ⟨r1, r2⟩ := loopU_spec hS hR longest at_ (h.size + 1 - at_) at_ [] none rfl hat (Nat.le_refl _)
    (by simp) sorted_nil (fun s e he => nomatch he)
  exact ⟨r1, fun i j h1 h2 h3 => r2 i j h1 h2 h3 (Or.inr (Or.inl h1))⟩

theorem accepts_of_empty {N : NFA} {h : Bytes} {pos : Nat} (hm : matchesEmptyAt N h pos = true) :
    Accepts N h pos pos := by
  obtain ⟨m, he, hk⟩ := (matchesEmptyAt_iff N h pos).mp hm
  exact ⟨m, he.steps, hk, get_lt_of_ne_fail (by rw [hk]; simp)⟩

theorem empty_of_accepts {N : NFA} {h : Bytes} {j : Nat} (ha : Accepts N h h.size j) :
    j = h.size ∧ matchesEmptyAt N h h.size = true := by
  have hj := reaches_pos_le ha (Nat.le_refl _)
  have hje : j = h.size := by omega
  subst hje
  obtain ⟨m, hs, hk, _⟩ := ha
  exact ⟨rfl, (matchesEmptyAt_iff N h _).mpr ⟨m, epsReach_of_steps hs (Nat.le_refl _) rfl, hk⟩⟩

/-- everything `searchAt` guarantees on an unanchored automaton, in both modes -/
theorem searchAt_spec {N : NFA} {h : Bytes} (hna : anchored N = false) (hS : SparseDet N) (hR : RuneOK N h)
    (longest : Bool) (at_ : Nat) :
    BestOK N h at_ (h.size+1) (searchAt N h at_ longest) ∧
    ∀ i j, at_ ≤ i → i ≤ h.size → Accepts N h i j → Good longest i j (searchAt N h at_ longest) := by
  unfold searchAt
  by_cases h1 : at_ > h.size
  · rw [if_pos h1]
    exact ⟨(fun s e he => nomatch he), fun i j h2 h3 _ => by omega⟩
  · rw [if_neg h1]
    by_cases h2 : at_ = h.size
    · rw [if_pos h2]
      subst h2
      by_cases hm : matchesEmptyAt N h h.size = true
      · rw [if_pos hm]
        refine ⟨?_, ?_⟩
        · intro s e he
          simp only [Option.some.injEq, Prod.mk.injEq] at he
          obtain ⟨rfl, rfl⟩ := he
          exact ⟨Nat.le_refl _, Nat.le_refl _, by omega, accepts_of_empty hm⟩
        · intro i j h3 h4 h5
          have hi : i = h.size := by omega
          subst hi
          have := (empty_of_accepts h5).1
          exact ⟨h.size, h.size, rfl, Or.inr ⟨rfl, fun _ => by omega⟩⟩
      · rw [if_neg hm]
        refine ⟨(fun s e he => nomatch he), ?_⟩
        intro i j h3 h4 h5
        have hi : i = h.size := by omega
        subst hi
        exact absurd (empty_of_accepts h5).2 hm
    · rw [if_neg h2, hna]
      simp only [Bool.false_eq_true, ↓reduceIte]
      exact searchUnanchored_spec hS hR longest (by omega)

/-- (b) soundness: a reported span is a match of the automaton inside the window -/
theorem pike_search_sound {N : NFA} {h : Bytes} (hna : anchored N = false) (hS : SparseDet N) (hR : RuneOK N h)
    {at_ s e : Nat} {longest : Bool} (hr : searchAt N h at_ longest = some (s, e)) :
    at_ ≤ s ∧ s ≤ e ∧ e ≤ h.size ∧ Accepts N h s e := by
  obtain ⟨h1, h2, h3, h4⟩ := (searchAt_spec hna hS hR longest at_).1 s e hr
  exact ⟨h1, h2, by omega, h4⟩

/-- (b) leftmost: no match starts in `[at, s)`, and `none` means no match starts at or after `at` -/
theorem pike_search_leftmost {N : NFA} {h : Bytes} (hna : anchored N = false) (hS : SparseDet N) (hR : RuneOK N h)
    (at_ : Nat) (longest : Bool) :
    (∀ s e, searchAt N h at_ longest = some (s, e) → ∀ i j, at_ ≤ i → i < s → ¬ Accepts N h i j) ∧
    (searchAt N h at_ longest = none → ∀ i j, at_ ≤ i → i ≤ h.size → ¬ Accepts N h i j) := by
  obtain ⟨r1, r2⟩ := searchAt_spec hna hS hR longest at_
  refine ⟨?_, ?_⟩
  · intro s e hr i j h1 h2 ha
    have hs := (r1 s e hr)
    obtain ⟨s', e', h3, h4⟩ := r2 i j h1 (by omega) ha
    rw [hr] at h3
    simp only [Option.some.injEq, Prod.mk.injEq] at h3
    omega
  · intro hr i j h1 h2 ha
    obtain ⟨s', e', h3, _⟩ := r2 i j h1 h2 ha
    rw [hr] at h3
    cases h3

theorem pike_search_none_iff {N : NFA} {h : Bytes} (hna : anchored N = false) (hS : SparseDet N) (hR : RuneOK N h)
    (at_ : Nat) (longest : Bool) :
    searchAt N h at_ longest = none ↔ ∀ i j, at_ ≤ i → i ≤ h.size → ¬ Accepts N h i j := by
  constructor
  · exact (pike_search_leftmost hna hS hR at_ longest).2
  · intro hno
    cases hr : searchAt N h at_ longest with
    | none => rfl
    | some b =>
      obtain ⟨s, e⟩ := b
      obtain ⟨h1, h2, h3, h4⟩ := pike_search_sound hna hS hR hr
      exact absurd h4 (hno s e h1 (by omega))

/-- (d) longest mode: leftmost start, and the greatest end among the matches from that start -/
theorem pike_search_longest {N : NFA} {h : Bytes} (hna : anchored N = false) (hS : SparseDet N) (hR : RuneOK N h)
    {at_ s e : Nat} (hr : searchAt N h at_ true = some (s, e)) :
    (at_ ≤ s ∧ s ≤ e ∧ e ≤ h.size ∧ Accepts N h s e) ∧
    (∀ i j, at_ ≤ i → i < s → ¬ Accepts N h i j) ∧
    (∀ j, Accepts N h s j → j ≤ e) := by
  have hsound := pike_search_sound hna hS hR hr
  refine ⟨hsound, (pike_search_leftmost hna hS hR at_ true).1 s e hr, ?_⟩
  intro j ha
  obtain ⟨s', e', h3, h4⟩ := (searchAt_spec hna hS hR true at_).2 s j hsound.1 (by omega) ha
  rw [hr] at h3
  simp only [Option.some.injEq, Prod.mk.injEq] at h3
  obtain ⟨rfl, rfl⟩ := h3
  rcases h4 with h5 | ⟨_, h5⟩
  · omega
  · exact h5 rfl

/-! ### `IsMatch`, unanchored automata -/

/-- threads of `IsMatch` carry no start position (0); each is reachable from the start state at some offset -/
def MOK (N : NFA) (h : Bytes) (pos : Nat) (t : Thread) : Prop :=
  t.start = 0 ∧ Terminal N t.state ∧ ∃ s, s ≤ pos ∧ Steps N h (N.startAnchored, s) (t.state, pos)

theorem sorted_of_zero {Q : List Thread} (hz : ∀ t ∈ Q, t.start = 0) : Sorted Q := by
  induction Q with
  | nil => exact List.Pairwise.nil
  | cons a l ih =>
    refine List.Pairwise.cons ?_ (ih fun t ht => hz t (List.mem_cons_of_mem _ ht))
    intro b hb
    rw [hz a List.mem_cons_self, hz b (List.mem_cons_of_mem _ hb)]
    exact Nat.le_refl _

theorem anyMatch_iff (N : NFA) (Q : List Thread) :
    anyMatch N Q = true ↔ ∃ t ∈ Q, isMatchState N t.state = true := by
  unfold anyMatch
  rw [List.any_eq_true]

theorem injectM_spec {N : NFA} {h : Bytes} {pos : Nat} (hpos : pos ≤ h.size)
    {queue : List Thread} (hq : ∀ t ∈ queue, MOK N h pos t) :
    (∀ t ∈ (addThread N h pos ⟨N.startAnchored, 0⟩ (clearVis N, queue)).2, MOK N h pos t) ∧
    (∀ j, Accepts N h pos j → Alive N h 0 j pos (addThread N h pos ⟨N.startAnchored, 0⟩ (clearVis N, queue)).2) ∧
    (∀ t ∈ queue, t ∈ (addThread N h pos ⟨N.startAnchored, 0⟩ (clearVis N, queue)).2) := by
  have g0 : GenOK N h pos (clearVis N, queue) :=
    ⟨clearVis_size N, fun q _ hq' hm _ => absurd hm (clearVis_not_marked N hq'),
      fun q hq' hm _ => absurd hm (clearVis_not_marked N hq')⟩
  obtain ⟨g1, _, k1, new, e1, p1⟩ := addThread_spec g0 ⟨N.startAnchored, 0⟩
  simp only at e1 p1 k1
  have hok : ∀ t ∈ (addThread N h pos ⟨N.startAnchored, 0⟩ (clearVis N, queue)).2, MOK N h pos t := by
    intro t ht
    rw [e1] at ht
    rcases List.mem_append.mp ht with h1 | h1
    · exact hq t h1
    · obtain ⟨a1, a2, a3⟩ := p1 t h1
      exact ⟨a1, a3, pos, Nat.le_refl _, a2.steps⟩
  refine ⟨hok, ?_, fun t ht => by rw [e1]; exact List.mem_append_left _ ht⟩
  intro j ⟨m, hsteps, hm, _⟩
  obtain ⟨q1, e2, t1, s1⟩ := reach_decomp hsteps hm hpos
  simp only at e2 s1
  have hmq := closed_reach g1.closed e2 k1
  obtain ⟨x, hx1, hx2⟩ := g1.covered q1 t1.lt hmq t1
  exact ⟨x, hx1, Nat.le_of_eq (hok x hx1).1, m, by rw [hx2]; exact s1, hm⟩

theorem stepAllM_spec {N : NFA} {h : Bytes} (hS : SparseDet N) (hR : RuneOK N h) {pos : Nat} (hp : pos < h.size)
    {Q : List Thread} (hq : ∀ t ∈ Q, MOK N h pos t) :
    (∀ x ∈ (stepAll N h pos Q (clearVis N, [])).2, MOK N h (pos+1) x) ∧
    (∀ t ∈ Q, ∀ nx ∈ succs N h pos t.state, ∀ q, EpsReach N h (pos+1) nx q → Terminal N q →
      ∃ x ∈ (stepAll N h pos Q (clearVis N, [])).2, x.state = q ∧ x.start ≤ t.start) := by
  obtain ⟨_, _, ⟨new, e1, p1⟩, c1⟩ := stepAll_spec hR hp Q (genOK_clear N h (pos+1))
    (sorted_of_zero fun t ht => (hq t ht).1) sorted_nil (by simp)
  refine ⟨?_, c1⟩
  intro x hx
  rw [e1] at hx
  simp only [List.nil_append] at hx
  obtain ⟨a1, t, a2, a3, nx, a4, a5⟩ := p1 x hx
  obtain ⟨b1, _, s, b2, b3⟩ := hq t a2
  exact ⟨by omega, a1, s, by omega,
    steps_trans b3 (Steps.cons ((mem_succs_iff hS hR hp _ _).mp a4) a5.steps)⟩

theorem loopM_sound {N : NFA} {h : Bytes} (hS : SparseDet N) (hR : RuneOK N h) :
    ∀ (fuel pos : Nat) (queue : List Thread), pos ≤ h.size → (∀ t ∈ queue, MOK N h pos t) →
      loopM N h fuel pos queue = true → ∃ i j, i ≤ h.size ∧ Accepts N h i j := by
  intro fuel
  induction fuel with
  | zero => intro pos queue _ _ hr; simp [loopM] at hr
  | succ fuel ih =>
    intro pos queue hpos hq hr
    rw [loopM] at hr
    obtain ⟨a1, _, _⟩ := injectM_spec hpos hq
    split at hr
    · rename_i hany
      obtain ⟨t, ht, hm⟩ := (anyMatch_iff N _).mp hany
      obtain ⟨_, b2, s, b3, b4⟩ := a1 t ht
      exact ⟨s, pos, by omega, t.state, b4, (isMatchState_iff N _).mp hm, b2.lt⟩
    · split at hr
      · simp at hr
      · rename_i hp
        exact ih (pos+1) _ (by omega) (stepAllM_spec hS hR (by omega) a1).1 hr

theorem loopM_complete {N : NFA} {h : Bytes} (hS : SparseDet N) (hR : RuneOK N h) {i j : Nat} (hi : i ≤ h.size)
    (ha : Accepts N h i j) :
    ∀ (fuel pos : Nat) (queue : List Thread), fuel = h.size + 1 - pos → pos ≤ h.size →
      (∀ t ∈ queue, MOK N h pos t) → (pos ≤ i ∨ Alive N h 0 j pos queue) → loopM N h fuel pos queue = true := by
  intro fuel
  induction fuel with
  | zero => intro pos queue hf hpos; omega
  | succ fuel ih =>
    intro pos queue hf hpos hq htr
    rw [loopM]
    obtain ⟨a1, a2, a3⟩ := injectM_spec hpos hq
    have htr' : pos < i ∨ Alive N h 0 j pos (addThread N h pos ⟨N.startAnchored, 0⟩ (clearVis N, queue)).2 := by
      rcases htr with h1 | h1
      · by_cases hpi : pos < i
        · exact Or.inl hpi
        · have : i = pos := by omega
          subst this
          exact Or.inr (a2 j ha)
      · exact Or.inr (alive_mono a3 h1)
    split
    · rfl
    · rename_i hany
      have hnone : ∀ t ∈ (addThread N h pos ⟨N.startAnchored, 0⟩ (clearVis N, queue)).2,
          isMatchState N t.state = false := by
        intro t ht
        cases hm : isMatchState N t.state with
        | false => rfl
        | true => exact absurd ((anyMatch_iff N _).mpr ⟨t, ht, hm⟩) hany
      obtain ⟨b1, b2⟩ : pos < h.size ∧ (pos + 1 ≤ i ∨ Alive N h 0 j (pos+1)
          (stepAll N h pos (addThread N h pos ⟨N.startAnchored, 0⟩ (clearVis N, queue)).2 (clearVis N, [])).2) := by
        rcases htr' with h1 | ⟨t, ht, hti, m, hsteps, hm⟩
        · exact ⟨by omega, Or.inl h1⟩
        · rcases steps_cases hsteps with h0 | ⟨⟨q', p'⟩, st, _⟩
          · exfalso
            simp only [Prod.mk.injEq] at h0
            have := (isMatchState_iff N t.state).mpr (h0.1 ▸ hm)
            rw [hnone t ht] at this; cases this
          · have hlt : pos < h.size := by
              rcases step_adv hR st with e1 | ⟨_, e2⟩
              · exact absurd e1 (terminal_step_adv (a1 t ht).2.1 st)
              · exact e2
            have := alive_step hS hR hti (a1 t ht).2.1 (hnone t ht) hsteps hm
              ((stepAllM_spec hS hR hlt a1).2 t ht)
            exact ⟨hlt, Or.inr this.2⟩
      rw [if_neg (by omega)]
      exact ih (pos+1) _ (by omega) (by omega) (stepAllM_spec hS hR b1 a1).1 b2

/-- (a) `IsMatch` decides whether some substring is accepted -/
theorem pike_isMatch_iff {N : NFA} {h : Bytes} (hna : anchored N = false) (hS : SparseDet N) (hR : RuneOK N h) :
    isMatch N h = true ↔ ∃ i j, i ≤ h.size ∧ Accepts N h i j := by
  unfold isMatch
  by_cases h0 : h.size = 0
  · rw [if_pos h0]
    constructor
    · intro hm
      exact ⟨0, 0, Nat.zero_le _, accepts_of_empty hm⟩
    · intro ⟨i, j, hi, ha⟩
      have hi0 : i = h.size := by omega
      subst hi0
      have := (empty_of_accepts ha).2
      rwa [h0] at this
  · rw [if_neg h0, hna]
    simp only [Bool.false_eq_true, ↓reduceIte]
    constructor
    · exact loopM_sound hS hR _ _ _ (Nat.zero_le _) (by simp)
    · intro ⟨i, j, hi, ha⟩
      exact loopM_complete hS hR hi ha _ _ _ rfl (Nat.zero_le _) (by simp) (Or.inl (Nat.zero_le _))

/-! ### a checkable sufficient condition for `SparseDet` -/

/-- the ranges of every sparse state are pairwise disjoint (how the compiler builds them) -/
def SparseDisjoint (N : NFA) : Prop :=
  ∀ q ts, N.get q = .sparse ts → ts.Pairwise (fun a b => a.2.1 < b.1 ∨ b.2.1 < a.1)

theorem firstTrans_of_disjoint {ts : List (Nat × Nat × Nat)}
    (hd : ts.Pairwise (fun a b => a.2.1 < b.1 ∨ b.2.1 < a.1)) {lo hi nx b : Nat}
    (hm : (lo, hi, nx) ∈ ts) (h1 : lo ≤ b) (h2 : b ≤ hi) : firstTrans b ts = some nx := by
  induction ts with
  | nil => simp at hm
  | cons a ts ih =>
    obtain ⟨lo', hi', nx'⟩ := a
    have hd' := List.pairwise_cons.mp hd
    simp only [firstTrans]
    rcases List.mem_cons.mp hm with h3 | h3
    · simp only [Prod.mk.injEq] at h3
      obtain ⟨rfl, rfl, rfl⟩ := h3
      rw [if_pos ⟨h1, h2⟩]
    · have := hd'.1 _ h3
      simp only at this
      rw [if_neg (by omega)]
      exact ih hd'.2 h3

theorem sparseDet_of_disjoint {N : NFA} (hd : SparseDisjoint N) : SparseDet N :=
  fun q ts hk _ _ _ _ hm h1 h2 => firstTrans_of_disjoint (hd q ts hk) hm h1 h2

end Cx.Pike
