import Cx.Proofs.Caps
import Cx.Proofs.CapsAnchored
/-
  Cx.Proofs.CapsGroups — (b), second half: under the (decidable) group discipline `labOK` — a group is opened only
  when it is closed and closed only when it is open, consistently on all paths — every group of the reference's answer
  is unset, or `s ≤ start ≤ end ≤ e` (`btCaps_groups`).  The harness checks `groupsOK` for every compiled pattern.
-/
namespace Cx.Caps
open Cx Cx.Nfa

/-- the label invariant along a path that started at `s` and is at offset `pos` with slots `sl` -/
def GInv (ng : Nat) (L : List Bool) (s pos : Nat) (sl : Slots) : Prop :=
  ∀ i, 1 ≤ i → i < ng →
    if L.getD i false = true then
      ((s : Int) ≤ sl.getD (2*i) (-1) ∧ sl.getD (2*i) (-1) ≤ (pos : Int))
    else
      ((sl.getD (2*i) (-1) = -1 ∧ sl.getD (2*i+1) (-1) = -1) ∨
       ((s : Int) ≤ sl.getD (2*i) (-1) ∧ sl.getD (2*i) (-1) ≤ sl.getD (2*i+1) (-1) ∧ sl.getD (2*i+1) (-1) ≤ (pos : Int)))

theorem GInv.mono {ng : Nat} {L : List Bool} {s pos pos' : Nat} {sl : Slots} (h : GInv ng L s pos sl)
    (hp : pos ≤ pos') : GInv ng L s pos' sl := by
  intro i h1 h2
  have := h i h1 h2
  split at this
  · rename_i ho; rw [if_pos ho]; exact ⟨this.1, by omega⟩
  · rename_i ho; rw [if_neg ho]
    rcases this with h3 | h3
    · exact Or.inl h3
    · exact Or.inr ⟨h3.1, h3.2.1, by omega⟩

theorem getD_set_ne (sl : Slots) (k j : Nat) (v : Int) (hne : k ≠ j) : (sl.set k v).getD j (-1) = sl.getD j (-1) := by
  simp [List.getD_eq_getElem?_getD, List.getElem?_set_ne hne]

theorem getD_set_eq (sl : Slots) (k : Nat) (v : Int) (hk : k < sl.length) : (sl.set k v).getD k (-1) = v := by
  simp [List.getD_eq_getElem?_getD, List.getElem?_set, hk]

theorem labOK_spec {N : NFA} {ng : Nat} {lab : Lab} (hok : labOK N ng lab = true) {q : Nat} (hq : q < N.states.size)
    {L : List Bool} (hl : lab.getD q none = some L) :
    L.length = ng ∧
    (∀ idx st nx, N.get q = .cap idx st nx → idx ≠ 0 → idx < ng → L.getD idx false = !st) ∧
    (N.get q = .mtch → ∀ i, 1 ≤ i → L.getD i false = false) ∧
    (∀ q' ∈ succStates (N.get q), lab.getD q' none = some (updLab (N.get q) L)) := by
  unfold labOK at hok
  simp only [Bool.and_eq_true, List.all_eq_true, List.mem_range] at hok
  have := hok.2 q hq
  rw [hl] at this
  simp only [Bool.and_eq_true, beq_iff_eq, List.all_eq_true] at this
  obtain ⟨⟨h1, h2⟩, h3⟩ := this
  refine ⟨h1, ?_, ?_, h3⟩
  · intro idx st nx hk hne hlt
    rw [hk] at h2
    simp only [Bool.or_eq_true, beq_iff_eq, decide_eq_true_eq, bne_iff_ne, ne_eq] at h2
    rcases h2 with (h4 | h4) | h4
    · exact absurd h4 hne
    · omega
    · cases hb : L.getD idx false <;> cases st <;> simp_all
  · intro hk i hi
    rw [hk] at h2
    simp only [List.all_eq_true, Bool.not_eq_eq_eq_not, Bool.not_true] at h2
    cases hb : L.getD i false with
    | false => rfl
    | true =>
      exfalso
      have hil : i < L.length := by
        cases Nat.lt_or_ge i L.length with
        | inl h => exact h
        | inr h => simp [List.getD_eq_getElem?_getD, List.getElem?_eq_none h] at hb
      have hmem : L[i] ∈ L.drop 1 := by
        obtain ⟨j, rfl⟩ : ∃ j, i = j + 1 := ⟨i - 1, by omega⟩
        have : (L.drop 1)[j]? = some L[j+1] := by
          simp [List.getElem?_drop, Nat.add_comm, List.getElem?_eq_getElem hil]
        exact List.mem_of_getElem? this
      have := h2 _ hmem
      simp only [List.getD_eq_getElem?_getD, List.getElem?_eq_getElem hil, Option.getD_some] at hb
      rw [hb] at this; cases this

/-- what `nexts` looks like: at a capture state the single successor with the slot written; elsewhere the slots are
    unchanged -/
theorem nexts_shape {c : BTCtx} {pos q : Nat} {sl : Slots} {x : Nat × Nat × Slots} (hx : x ∈ nexts c pos q sl) :
    x.2.1 ∈ succStates (c.N.get q) ∧
    ((∃ idx st nx, c.N.get q = .cap idx st nx ∧ x = (pos, nx, sl.set (slotIdx idx st) (pos : Int))) ∨
     ((∀ idx st nx, c.N.get q ≠ .cap idx st nx) ∧ x.2.2 = sl)) := by
  unfold nexts at hx
  cases hk : c.N.get q <;> simp only [hk] at hx <;> simp only [succStates]
  · simp at hx
  · split at hx
    · simp only [List.mem_cons, List.not_mem_nil, or_false] at hx
      subst hx
      exact ⟨by simp, Or.inr ⟨by simp, rfl⟩⟩
    · simp at hx
  · split at hx
    · simp at hx
    · split at hx
      · rename_i nx hf
        simp only [List.mem_cons, List.not_mem_nil, or_false] at hx
        subst hx
        obtain ⟨lo, hi, h1, _, _⟩ := Pike.firstTrans_mem hf
        exact ⟨List.mem_map.mpr ⟨(lo, hi, nx), h1, rfl⟩, Or.inr ⟨by simp, rfl⟩⟩
      · simp at hx
  · simp only [List.mem_cons, List.not_mem_nil, or_false] at hx
    rcases hx with rfl | rfl
    · exact ⟨by simp, Or.inr ⟨by simp, rfl⟩⟩
    · exact ⟨by simp, Or.inr ⟨by simp, rfl⟩⟩
  · simp only [List.mem_cons, List.not_mem_nil, or_false] at hx
    subst hx
    exact ⟨by simp, Or.inr ⟨by simp, rfl⟩⟩
  · simp only [List.mem_cons, List.not_mem_nil, or_false] at hx
    subst hx
    exact ⟨by simp, Or.inl ⟨_, _, _, rfl, rfl⟩⟩
  · simp at hx
  · split at hx
    · simp only [List.mem_cons, List.not_mem_nil, or_false] at hx
      subst hx
      exact ⟨by simp, Or.inr ⟨by simp, rfl⟩⟩
    · simp at hx
  · split at hx
    · simp only [List.mem_cons, List.not_mem_nil, or_false] at hx
      subst hx
      exact ⟨by simp, Or.inr ⟨by simp, rfl⟩⟩
    · simp at hx
  · split at hx
    · simp only [List.mem_cons, List.not_mem_nil, or_false] at hx
      subst hx
      exact ⟨by simp, Or.inr ⟨by simp, rfl⟩⟩
    · simp at hx


theorem replicate_getD_false (ng i : Nat) : (List.replicate ng false).getD i false = false := by
  simp only [List.getD_eq_getElem?_getD, List.getElem?_replicate]
  split <;> rfl

/-- the label invariant is carried across one move of the reference -/
theorem ginv_step {c : BTCtx} {ng : Nat} {lab : Lab} (hok : labOK c.N ng lab = true) {n : Nat} (hn : 2 * ng ≤ n)
    {q pos s : Nat} {sl : Slots} {L : List Bool} (hq : q < c.N.states.size) (hl : lab.getD q none = some L)
    (hg : GInv ng L s pos sl) (hsp : s ≤ pos) (hlen : sl.length = n) (hple : pos ≤ c.h.size)
    {x : Nat × Nat × Slots} (hx : x ∈ nexts c pos q sl) :
    ∃ L', lab.getD x.2.1 none = some L' ∧ GInv ng L' s x.1 x.2.2 ∧ s ≤ x.1 ∧ x.2.2.length = n := by
  obtain ⟨hLlen, hcap, _, hsucc⟩ := labOK_spec hok hq hl
  obtain ⟨hmem, hshape⟩ := nexts_shape hx
  have hpos := nexts_pos hx hple
  refine ⟨updLab (c.N.get q) L, hsucc _ hmem, ?_, by omega, ?_⟩
  · rcases hshape with ⟨idx, st, nx, hk, rfl⟩ | ⟨hnc, hsl⟩
    · -- capture state
      simp only [updLab, hk]
      by_cases h0 : idx = 0
      · -- group 0: slots 0/1, no labelled group touched
        rw [if_pos h0]
        subst h0
        intro i h1 h2
        have e1 : (sl.set (slotIdx 0 st) (pos : Int)).getD (2*i) (-1) = sl.getD (2*i) (-1) :=
          getD_set_ne _ _ _ _ (by unfold slotIdx; split <;> omega)
        have e2 : (sl.set (slotIdx 0 st) (pos : Int)).getD (2*i+1) (-1) = sl.getD (2*i+1) (-1) :=
          getD_set_ne _ _ _ _ (by unfold slotIdx; split <;> omega)
        simp only [e1, e2]
        exact hg i h1 h2
      · rw [if_neg h0]
        by_cases hge : idx ≥ ng
        · -- unlabelled group: label and labelled slots untouched
          have hLs : L.set idx st = L := List.set_eq_of_length_le (by omega)
          rw [hLs]
          intro i h1 h2
          have e1 : (sl.set (slotIdx idx st) (pos : Int)).getD (2*i) (-1) = sl.getD (2*i) (-1) :=
            getD_set_ne _ _ _ _ (by unfold slotIdx; split <;> omega)
          have e2 : (sl.set (slotIdx idx st) (pos : Int)).getD (2*i+1) (-1) = sl.getD (2*i+1) (-1) :=
            getD_set_ne _ _ _ _ (by unfold slotIdx; split <;> omega)
          simp only [e1, e2]
          exact hg i h1 h2
        · have hlt : idx < ng := by omega
          have hLq := hcap idx st nx hk h0 hlt
          intro i h1 h2
          by_cases hi : i = idx
          · subst hi
            have hLi : (L.set i st).getD i false = st := by
              simp [List.getD_eq_getElem?_getD, List.getElem?_set, hLlen, h2]
            rw [hLi]
            have hgi := hg i h1 h2
            cases st with
            | true =>
              -- opening: the group was closed
              simp only [↓reduceIte]
              have e1 : (sl.set (slotIdx i true) (pos : Int)).getD (2*i) (-1) = (pos : Int) := by
                have : slotIdx i true = 2 * i := by simp [slotIdx]
                rw [this]; exact getD_set_eq _ _ _ (by omega)
              rw [e1]
              exact ⟨by omega, Int.le_refl _⟩
            | false =>
              -- closing: the group was open
              simp only [Bool.false_eq_true, ↓reduceIte]
              rw [hLq] at hgi
              simp only [Bool.not_false, ↓reduceIte] at hgi
              have hs1 : slotIdx i false = 2 * i + 1 := by simp [slotIdx]
              have e1 : (sl.set (slotIdx i false) (pos : Int)).getD (2*i) (-1) = sl.getD (2*i) (-1) := by
                rw [hs1]; exact getD_set_ne _ _ _ _ (by omega)
              have e2 : (sl.set (slotIdx i false) (pos : Int)).getD (2*i+1) (-1) = (pos : Int) := by
                rw [hs1]; exact getD_set_eq _ _ _ (by omega)
              rw [e1, e2]
              exact Or.inr ⟨hgi.1, hgi.2, Int.le_refl _⟩
          · have hLi : (L.set idx st).getD i false = L.getD i false := by
              simp [List.getD_eq_getElem?_getD, List.getElem?_set_ne (Ne.symm hi)]
            rw [hLi]
            have e1 : (sl.set (slotIdx idx st) (pos : Int)).getD (2*i) (-1) = sl.getD (2*i) (-1) :=
              getD_set_ne _ _ _ _ (by unfold slotIdx; split <;> omega)
            have e2 : (sl.set (slotIdx idx st) (pos : Int)).getD (2*i+1) (-1) = sl.getD (2*i+1) (-1) :=
              getD_set_ne _ _ _ _ (by unfold slotIdx; split <;> omega)
            simp only [e1, e2]
            exact hg i h1 h2
    · have hup : updLab (c.N.get q) L = L := by
        unfold updLab
        split
        · rename_i idx st nx hk; exact absurd hk (hnc idx st nx)
        · rfl
      rw [hup, hsl]
      exact hg.mono hpos.1
  · rcases hshape with ⟨idx, st, nx, hk, rfl⟩ | ⟨_, hsl⟩
    · simp [hlen]
    · rw [hsl]; exact hlen

/-- at the match state every labelled group is closed: unset, or `s ≤ start ≤ end ≤ e` -/
theorem btCapsFind_groups (c : BTCtx) {ng : Nat} {lab : Lab} (hok : labOK c.N ng lab = true) {n : Nat}
    (hn : 2 * ng ≤ n) (s : Nat) : ∀ (fuel pos q : Nat) (sl : Slots) (vis : Array Bool) (e : Nat) (sl' : Slots)
    (v' : Array Bool) (L : List Bool), btCapsFind c fuel pos q sl vis = (some (e, sl'), v') →
    lab.getD q none = some L → GInv ng L s pos sl → s ≤ pos → sl.length = n → pos ≤ c.h.size →
    GInv ng (List.replicate ng false) s e sl' := by
  intro fuel
  induction fuel with
  | zero => intro pos q sl vis e sl' v' L hr; simp [btCapsFind] at hr
  | succ fuel ih =>
    intro pos q sl vis e sl' v' L hr hl hg hsp hlen hple
    rw [btCapsFind_unfold] at hr
    split at hr
    · simp at hr
    · rename_i hq
      have hq' : q < c.N.states.size := by omega
      split at hr
      · simp at hr
      · split at hr
        · rename_i hm
          simp only [Prod.mk.injEq, Option.some.injEq] at hr
          obtain ⟨⟨rfl, rfl⟩, _⟩ := hr
          obtain ⟨_, _, hmt, _⟩ := labOK_spec hok hq' hl
          have hk := (Pike.isMatchState_iff c.N q).mp hm
          intro i h1 h2
          have := hg i h1 h2
          rw [hmt hk i h1] at this
          rw [replicate_getD_false]
          exact this
        · obtain ⟨x, hx, v0, v1, hf⟩ := tryCfg_some hr
          obtain ⟨L', a1, a2, a3, a4⟩ := ginv_step hok hn hq' hl hg hsp hlen hple hx
          exact ih x.1 x.2.1 x.2.2 v0 e sl' v1 L' hf a1 a2 a3 a4 (nexts_pos hx hple).2

theorem ginv_unset (ng s pos n : Nat) : GInv ng (List.replicate ng false) s pos (unset n) := by
  intro i _ _
  rw [replicate_getD_false]
  simp only [Bool.false_eq_true, ↓reduceIte]
  exact Or.inl ⟨unset_getD _ _, unset_getD _ _⟩

theorem btCapsFrom_groups (N : NFA) (h : Bytes) (at_ n : Nat) {ng : Nat} {lab : Lab} (hok : labOK N ng lab = true)
    (hn : 2 * ng ≤ n) : ∀ (fuel start : Nat) (sl : Slots), btCapsFrom N h at_ n fuel start = some sl →
    ∀ i, 1 ≤ i → i < ng →
      (sl.getD (2*i) (-1) = -1 ∧ sl.getD (2*i+1) (-1) = -1) ∨
      (sl.getD 0 0 ≤ sl.getD (2*i) (-1) ∧ sl.getD (2*i) (-1) ≤ sl.getD (2*i+1) (-1) ∧
        sl.getD (2*i+1) (-1) ≤ sl.getD 1 0) := by
  intro fuel
  induction fuel with
  | zero => intro start sl hr; simp [btCapsFrom] at hr
  | succ fuel ih =>
    intro start sl hr
    rw [btCapsFrom] at hr
    split at hr
    · simp at hr
    · rename_i hle
      simp only [] at hr
      split at hr
      · rename_i e sl' hf
        simp only [Option.some.injEq] at hr
        subst hr
        have hstart : lab.getD N.startAnchored none = some (List.replicate ng false) := by
          unfold labOK at hok
          simp only [Bool.and_eq_true, beq_iff_eq] at hok
          exact hok.1
        have hg := btCapsFind_groups { N := N, h := h, spanStart := at_ } hok hn start _ _ _ _ _ e sl' _ _
          (Prod.ext hf rfl) hstart (ginv_unset ng start start n) (Nat.le_refl _) (by simp [unset])
          (by simp only; omega)
        intro i h1 h2
        have := hg i h1 h2
        rw [replicate_getD_false] at this
        simp only [Bool.false_eq_true, ↓reduceIte] at this
        have e1 : (withSpan start e sl').getD (2*i) (-1) = sl'.getD (2*i) (-1) := by
          obtain ⟨j, hj⟩ : ∃ j, 2 * i = j + 2 := ⟨2 * i - 2, by omega⟩
          rw [hj]; simp [withSpan, List.getD_eq_getElem?_getD, Nat.add_comm]
        have e2 : (withSpan start e sl').getD (2*i+1) (-1) = sl'.getD (2*i+1) (-1) := by
          obtain ⟨j, hj⟩ : ∃ j, 2 * i + 1 = j + 2 := ⟨2 * i - 1, by omega⟩
          rw [hj]; simp [withSpan, List.getD_eq_getElem?_getD, Nat.add_comm]
        rw [e1, e2]
        simpa [withSpan] using this
      · exact ih (start+1) sl hr

/-- (b), second half: under the group discipline every group i ≥ 1 of the reference's answer is unset, or
    `s ≤ start ≤ end ≤ e` where `(s, e)` is group 0 -/
theorem btCaps_groups {N : NFA} {h : Bytes} {at_ n ng : Nat} {lab : Lab} (hok : labOK N ng lab = true)
    (hn : 2 * ng ≤ n) {sl : Slots} (hr : btCaps N h at_ n = some sl) :
    ∀ i, 1 ≤ i → i < ng →
      (sl.getD (2*i) (-1) = -1 ∧ sl.getD (2*i+1) (-1) = -1) ∨
      (sl.getD 0 0 ≤ sl.getD (2*i) (-1) ∧ sl.getD (2*i) (-1) ≤ sl.getD (2*i+1) (-1) ∧
        sl.getD (2*i+1) (-1) ≤ sl.getD 1 0) :=
  btCapsFrom_groups N h at_ n hok hn _ _ sl hr


/-! ### with the group discipline the filter of `buildCapturesFromSlots` is invisible -/

theorem paired_of_pointwise : ∀ (l : Slots), l.length % 2 = 0 →
    (∀ j, 2 * j + 1 < l.length →
      (l.getD (2*j) (-1) = -1 ∧ l.getD (2*j+1) (-1) = -1) ∨ (0 ≤ l.getD (2*j) (-1) ∧ 0 ≤ l.getD (2*j+1) (-1))) →
    Paired l := by
  intro l
  induction l using normPairs.induct with
  | case1 a b rest ih =>
    intro hlen hp
    refine ⟨?_, ih (by simp at hlen ⊢; omega) ?_⟩
    · have := hp 0 (by simp)
      simp only [Nat.mul_zero, List.getD_cons_zero, Nat.zero_add, List.getD_cons_succ] at this
      rcases this with h1 | h1
      · exact Or.inr h1
      · exact Or.inl h1
    · intro j hj
      have := hp (j+1) (by simp at hj ⊢; omega)
      have e1 : 2 * (j + 1) = 2 * j + 2 := by omega
      rw [e1] at this
      have e2 : 2 * j + 2 + 1 = (2 * j + 1) + 2 := by omega
      rw [e2] at this
      simpa only [List.getD_cons_succ] using this
  | case2 l hl =>
    intro hlen _
    match l, hl with
    | [], _ => trivial
    | [_], _ => simp at hlen
    | a :: b :: rest, hl => exact absurd rfl (hl a b rest)

theorem btCaps_paired {N : NFA} {h : Bytes} {at_ ng : Nat} {lab : Lab} (hok : labOK N ng lab = true) (hng : 1 ≤ ng)
    {sl : Slots} (hr : btCaps N h at_ (2 * ng) = some sl) : Paired (sl.drop 2) := by
  obtain ⟨s, e, _, _, _, g0, _, hlen, _⟩ := btCaps_wf hr
  have hg := btCaps_groups hok (Nat.le_refl _) hr
  apply paired_of_pointwise
  · simp only [List.length_drop, hlen]; omega
  · intro j hj
    simp only [List.length_drop, hlen] at hj
    have := hg (j+1) (by omega) (by omega)
    have e1 : (sl.drop 2).getD (2*j) (-1) = sl.getD (2*(j+1)) (-1) := by
      simp only [List.getD_eq_getElem?_getD, List.getElem?_drop]; congr 2; omega
    have e2 : (sl.drop 2).getD (2*j+1) (-1) = sl.getD (2*(j+1)+1) (-1) := by
      simp only [List.getD_eq_getElem?_getD, List.getElem?_drop]; congr 2; omega
    rw [e1, e2]
    rcases this with h1 | h1
    · exact Or.inl h1
    · right
      rw [g0] at h1
      exact ⟨by omega, by omega⟩

/-- (c) without the filter: for an automaton with the group discipline (every compiled pattern of the harness), the
    Pike VM's capture search IS the reference, for every start offset `at ≤ len(haystack)` -/
theorem pikeCaps_eq_btCaps_groups {N : NFA} {h : Bytes} (hna : Pike.anchored N = false) (hd : Pike.SparseDisjoint N)
    (hR : Pike.RuneOK N h) {at_ : Nat} (hat : at_ ≤ h.size) {ng : Nat} {lab : Lab} (hok : labOK N ng lab = true)
    (hng : 1 ≤ ng) : pikeCaps N h at_ (2 * ng) = btCaps N h at_ (2 * ng) :=
  pikeCaps_eq_btCaps_paired hna hd hR hat _ (fun _ hr => btCaps_paired hok hng hr)

/-- C07 for the Pike VM: group 0 is the overall span `(s, e)`; every other group is unset or `s ≤ start ≤ end ≤ e` -/
theorem pikeCaps_groups {N : NFA} {h : Bytes} (hna : Pike.anchored N = false) (hd : Pike.SparseDisjoint N)
    (hR : Pike.RuneOK N h) {at_ : Nat} (hat : at_ ≤ h.size) {ng : Nat} {lab : Lab} (hok : labOK N ng lab = true)
    (hng : 1 ≤ ng) {sl : Slots} (hr : pikeCaps N h at_ (2 * ng) = some sl) :
    ∀ i, 1 ≤ i → i < ng →
      (sl.getD (2*i) (-1) = -1 ∧ sl.getD (2*i+1) (-1) = -1) ∨
      (sl.getD 0 0 ≤ sl.getD (2*i) (-1) ∧ sl.getD (2*i) (-1) ≤ sl.getD (2*i+1) (-1) ∧
        sl.getD (2*i+1) (-1) ≤ sl.getD 1 0) := by
  rw [pikeCaps_eq_btCaps_groups hna hd hR hat hok hng] at hr
  exact btCaps_groups hok (Nat.le_refl _) hr

/-! ### non-vacuity -/

theorem exStarGroup_groups : groupsOK exStarGroup 2 = true := by decide +kernel

example : pikeCaps exStarGroup #[98, 97, 97] 0 4 = btCaps exStarGroup #[98, 97, 97] 0 4 :=
  pikeCaps_eq_btCaps_groups exStarGroup_anchored exStarGroup_disjoint (exStarGroup_norune _) (by decide)
    (lab := computeLab exStarGroup 2) exStarGroup_groups (by decide)

end Cx.Caps
