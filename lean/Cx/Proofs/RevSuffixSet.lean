import Cx.Model.RevSuffixSet
import Cx.Proofs.RevSuffix
/-
  Cx.Proofs.RevSuffixSet — the reverse-suffix-set strategy (`meta/reverse_suffix_set.go`, model `Cx.Model.RevSuffixSet`) returns
  exactly what the reference search returns, RELATIVE to the contracts of its components (the same oracles and contracts as the
  reverse-suffix strategy, with a SET of suffix literals).

  Hypotheses (`Spec`, all for the haystack at hand):
    necessity   every match ends with one of the literals `P.lits` (what `ExtractSuffixes` must guarantee)
    lit_pos     no literal is empty
    pf_*        `pfFind h st` = a position ≥ st, < |h|, with no literal occurrence in between; none: no occurrence from st on
    revL_* / revF_some / fwd / pike / lb_nl / lb_restart   exactly as `RevSuffix.Spec`
  Theorems:
    findIndicesAt_eq_ref   findIndicesAt O P h at = ref h at        (matchStartZero = false, at ≤ |h|)
    isMatch_eq_ref         isMatch O P h = (ref h 0).isSome          (either value of matchStartZero)
    dotStar_eq_ref         the byte-search shortcut for `.*(?:lit1|lit2|…)` (matchStartZero = true), under `DotStarSetSpec`
-/
namespace Cx.RevSuffixSet
open Cx
open Cx.RevSuffix (RevAnswer Oracles RefSpec Occ findFirst findLast occursAt lineStartBefore lineEndAt searchSpan)

/-- one of the literals stands at `p` -/
def LitAt (P : Params) (h : Bytes) (p : Nat) : Prop := ∃ l, l ∈ P.lits ∧ Occ h l p

structure Spec (O : Oracles) (P : Params) (Mt : Bytes → Nat → Nat → Prop) (ref : Bytes → Nat → Option (Nat × Nat))
    (h : Bytes) : Prop extends RefSpec Mt ref h where
  lit_pos : ∀ l, l ∈ P.lits → 0 < l.size
  pf_some : ∀ st p, st ≤ h.size → O.pfFind h st = some p → st ≤ p ∧ p < h.size ∧ ∀ q, st ≤ q → q < p → ¬ LitAt P h q
  pf_none : ∀ st, st ≤ h.size → O.pfFind h st = none → ∀ q, st ≤ q → ¬ LitAt P h q
  /-- literal necessity: every match ends with one of the suffix literals -/
  necessity : ∀ s e, s ≤ h.size → Mt h s e → e ≤ h.size ∧ ∃ l, l ∈ P.lits ∧ s + l.size ≤ e ∧ Occ h l (e - l.size)
  revL_found : ∀ lo e m s, lo < e → e ≤ h.size → O.revLimited h lo e m = .found s →
    lo ≤ s ∧ s ≤ e ∧ Mt h s e ∧ ∀ s', lo ≤ s' → Mt h s' e → s ≤ s'
  revL_none : ∀ lo e m, lo < e → e ≤ h.size → O.revLimited h lo e m = .none → ∀ s', lo ≤ s' → s' ≤ h.size → ¬ Mt h s' e
  revF_some : ∀ lo e s, lo ≤ e → e ≤ h.size → O.revFull h lo e = some s →
    lo ≤ s ∧ Mt h s e ∧ ∀ s', lo ≤ s' → s' ≤ h.size → Mt h s' e → s ≤ s'
  fwd : ∀ a, a ≤ h.size → O.fwdEnd h a = (ref h a).map (·.2)
  pike : ∀ a, a ≤ h.size → O.pike h a = ref h a
  lb_nl : P.lineBounded = true → ∀ s e, s ≤ h.size → Mt h s e → ∀ i, s ≤ i → i < e → h.at i ≠ 10
  lb_restart : P.lineBounded = true → ∀ a a' s e, a ≤ h.size → ref h a = some (s, e) → a ≤ a' → a' ≤ s → ref h a' = some (s, e)

section
variable {O : Oracles} {P : Params} {Mt : Bytes → Nat → Nat → Prop} {ref : Bytes → Nat → Option (Nat × Nat)} {h : Bytes}

theorem Spec.match_le (S : Spec O P Mt ref h) {s e : Nat} (hs : s ≤ h.size) (hm : Mt h s e) : s ≤ e ∧ e ≤ h.size := by
  obtain ⟨h1, l, _, h2, _⟩ := S.necessity s e hs hm
  exact ⟨by omega, h1⟩

/-- `searchSpan` is the reference search from `from`, provided `knownStart = from` only if a match starts at `from` -/
theorem searchSpan_eq (S : Spec O P Mt ref h) {from_ : Nat} (hf : from_ ≤ h.size) (ks : Option Nat)
    (hk : ks = some from_ → ∃ e, Mt h from_ e) : searchSpan O h from_ ks = ref h from_ := by
  unfold searchSpan
  rw [S.fwd from_ hf]
  cases hr : ref h from_ with
  | none => rfl
  | some se =>
    obtain ⟨s, e⟩ := se
    obtain ⟨h1, h2, h3⟩ := S.ref_sound from_ s e hf hr
    obtain ⟨hse, he⟩ := S.match_le h2 h3
    simp only [Option.map_some]
    split
    · rename_i hks
      obtain ⟨e', hm'⟩ := hk hks
      have := S.ref_leftmost from_ s e hf hr from_ e' (Nat.le_refl _) hm'
      have : s = from_ := by omega
      rw [this]
    · split
      · rw [S.pike from_ hf, hr]
      · rename_i s' hrev
        obtain ⟨g1, g2, g3⟩ := S.revF_some from_ e s' (by omega) he hrev
        have a1 := g3 s h1 h2 h3
        have a2 := S.ref_leftmost from_ s e hf hr s' e g1 g2
        have : s' = s := by omega
        rw [this]

/-- the loop invariant: no match from `at` ends with a literal occurrence that starts before `ss` -/
def NoEndBefore (P : Params) (Mt : Bytes → Nat → Nat → Prop) (h : Bytes) (at_ ss : Nat) : Prop :=
  ∀ s e l, at_ ≤ s → s ≤ h.size → Mt h s e → l ∈ P.lits → s + l.size ≤ e → Occ h l (e - l.size) → ss ≤ e - l.size

theorem noEndBefore_init (at_ : Nat) : NoEndBefore P Mt h at_ at_ := by
  intro s e l h1 _ _ _ h5 _
  omega

/-- no candidate left: no match -/
theorem no_match_of_none (S : Spec O P Mt ref h) {at_ ss : Nat} (hinv : NoEndBefore P Mt h at_ ss)
    (hno : ∀ q, ss ≤ q → ¬ LitAt P h q) : ∀ s e, at_ ≤ s → s ≤ h.size → ¬ Mt h s e := by
  intro s e h1 h2 h3
  obtain ⟨_, l, hl, hle, ho⟩ := S.necessity s e h2 h3
  exact hno (e - l.size) (hinv s e l h1 h2 h3 hl hle ho) ⟨l, hl, ho⟩

/-- the positions the prefilter skips hold no literal -/
theorem noEndBefore_skip (S : Spec O P Mt ref h) {at_ ss pos : Nat} (hss : ss ≤ h.size)
    (hinv : NoEndBefore P Mt h at_ ss) (hpf : O.pfFind h ss = some pos) : NoEndBefore P Mt h at_ pos := by
  intro s e l h1 h2 h3 hl hle ho
  have := hinv s e l h1 h2 h3 hl hle ho
  apply Classical.byContradiction
  intro hlt
  exact (S.pf_some ss pos hss hpf).2.2 (e - l.size) this (by omega) ⟨l, hl, ho⟩

/-- what the loop over the literals at one candidate guarantees -/
def LitsOK (Mt : Bytes → Nat → Nat → Prop) (h : Bytes) (lo pos : Nat) (ls : List Bytes) : LitsOut → Prop
  | .found m => ∃ l, l ∈ ls ∧ lo ≤ m ∧ m ≤ h.size ∧ Mt h m (pos + l.size)
  | .cutOff => True
  | .none _ => ∀ l, l ∈ ls → Occ h l pos → ∀ s', lo ≤ s' → s' ≤ h.size → ¬ Mt h s' (pos + l.size)

theorem litLoop_spec (S : Spec O P Mt ref h) {lo pos ms : Nat} (hlp : lo ≤ pos) :
    ∀ (ls : List Bytes) (maxEnd : Nat), (∀ l, l ∈ ls → l ∈ P.lits) → LitsOK Mt h lo pos ls (litLoop O h lo pos ms ls maxEnd) := by
  intro ls
  induction ls with
  | nil => intro maxEnd _ l hl; cases hl
  | cons l rest ih =>
    intro maxEnd hsub
    have hrest : ∀ l', l' ∈ rest → l' ∈ P.lits := fun l' hl' => hsub l' (List.mem_cons_of_mem _ hl')
    rw [litLoop]
    split
    · rename_i hocc
      have ho := (RevSuffix.occursAt_iff h l pos).mp hocc
      have hL := S.lit_pos l (hsub l List.mem_cons_self)
      cases hr : O.revLimited h lo (pos + l.size) ms with
      | cutOff => trivial
      | found m =>
        obtain ⟨f1, f2, f3, _⟩ := S.revL_found lo (pos + l.size) ms m (by omega) ho.1 hr
        exact ⟨l, List.mem_cons_self, f1, by have := ho.1; omega, f3⟩
      | none =>
        simp only []
        have hno := S.revL_none lo (pos + l.size) ms (by omega) ho.1 hr
        have := ih (if pos + l.size > maxEnd then pos + l.size else maxEnd) hrest
        cases hres : litLoop O h lo pos ms rest (if pos + l.size > maxEnd then pos + l.size else maxEnd) with
        | cutOff => trivial
        | found m =>
          rw [hres] at this
          obtain ⟨l', hl', rest'⟩ := this
          exact ⟨l', List.mem_cons_of_mem _ hl', rest'⟩
        | none me =>
          rw [hres] at this
          intro l' hl' ho' s' g1 g2
          rcases List.mem_cons.mp hl' with rfl | hl'
          · exact hno s' g1 g2
          · exact this l' hl' ho' s' g1 g2
    · rename_i hocc
      have := ih maxEnd hrest
      cases hres : litLoop O h lo pos ms rest maxEnd with
      | cutOff => trivial
      | found m =>
        rw [hres] at this
        obtain ⟨l', hl', rest'⟩ := this
        exact ⟨l', List.mem_cons_of_mem _ hl', rest'⟩
      | none me =>
        rw [hres] at this
        intro l' hl' ho' s' g1 g2
        rcases List.mem_cons.mp hl' with rfl | hl'
        · exact absurd ((RevSuffix.occursAt_iff h l' pos).mpr ho') hocc
        · exact this l' hl' ho' s' g1 g2

/-- the candidate holds no match end: the invariant moves past it -/
theorem noEndBefore_step {at_ pos : Nat} (hinv : NoEndBefore P Mt h at_ pos)
    (hno : ∀ l, l ∈ P.lits → Occ h l pos → ∀ s', at_ ≤ s' → s' ≤ h.size → ¬ Mt h s' (pos + l.size)) :
    NoEndBefore P Mt h at_ (pos + 1) := by
  intro s e l h1 h2 h3 hl hle ho
  have hge := hinv s e l h1 h2 h3 hl hle ho
  have hne : e - l.size ≠ pos := by
    intro heq
    rw [heq] at ho
    exact hno l hl ho s h1 h2 (by rw [show pos + l.size = e by omega]; exact h3)
  omega

theorem findLoop_eq (S : Spec O P Mt ref h) (hmz : P.matchStartZero = false) {at_ : Nat} (hat : at_ < h.size) :
    ∀ (fuel ss ms : Nat), at_ ≤ ss → ss < h.size → h.size - ss ≤ fuel → NoEndBefore P Mt h at_ ss →
      findLoop O P h at_ fuel ss ms = ref h at_ := by
  intro fuel
  induction fuel with
  | zero => intro ss ms _ h2 h3; omega
  | succ fuel ih =>
    intro ss ms h1 h2 h3 hinv
    rw [findLoop]
    cases hpf : O.pfFind h ss with
    | none =>
      simp only []
      exact (S.toRefSpec.none_of (by omega) (no_match_of_none S hinv (S.pf_none ss (by omega) hpf))).symm
    | some pos =>
      simp only [hmz, Bool.false_and, Bool.false_eq_true, if_false]
      obtain ⟨p1, p2, p3⟩ := S.pf_some ss pos (by omega) hpf
      have hinv' := noEndBefore_skip S (by omega) hinv hpf
      have hls := litLoop_spec S (lo := at_) (pos := pos) (ms := ms) (by omega) P.lits ms (fun l hl => hl)
      cases hres : litLoop O h at_ pos ms P.lits ms with
      | cutOff =>
        simp only []
        exact searchSpan_eq S (by omega) none (fun hc => by cases hc)
      | none me =>
        rw [hres] at hls
        simp only []
        have hinv'' := noEndBefore_step hinv' hls
        split
        · refine (S.toRefSpec.none_of (by omega) (no_match_of_none S hinv'' ?_)).symm
          rintro q hq ⟨l, hl, ho⟩
          have := ho.1
          have := S.lit_pos l hl
          omega
        · exact ih (pos + 1) me (by omega) (by omega) (by omega) hinv''
      | found mst =>
        rw [hres] at hls
        obtain ⟨l, hl, f1, hmsz, f3⟩ := hls
        simp only []
        cases hlb : P.lineBounded with
        | false =>
          simp only [Bool.false_eq_true, if_false]
          refine searchSpan_eq S (by omega) _ ?_
          intro hk
          cases hk
          exact ⟨_, f3⟩
        | true =>
          simp only [if_true]
          obtain ⟨l1, l2, l3, l4⟩ := RevSuffix.lineStartBefore_spec h (show at_ ≤ pos by omega)
          obtain ⟨s0, e0, hr0⟩ := S.toRefSpec.some_of (a := at_) (by omega) f1 hmsz f3
          obtain ⟨r1, r2, r3⟩ := S.ref_sound at_ s0 e0 (by omega) hr0
          obtain ⟨_, l0, hl0, hle0, ho0⟩ := S.necessity s0 e0 r2 r3
          have hE0 := hinv' s0 e0 l0 r1 r2 r3 hl0 hle0 ho0
          have hL0 := S.lit_pos l0 hl0
          have hfs : lineStartBefore h at_ pos ≤ s0 := by
            rcases l4 with l4 | ⟨l4, l5⟩
            · omega
            · apply Classical.byContradiction
              intro hlt
              exact S.lb_nl hlb s0 e0 r2 r3 (lineStartBefore h at_ pos - 1) (by omega) (by omega) l5
          have hrest := S.lb_restart hlb at_ (lineStartBefore h at_ pos) s0 e0 (by omega) hr0 l1 hfs
          rw [hr0, ← hrest]
          refine searchSpan_eq S (by omega) _ ?_
          intro hk
          have : mst = lineStartBefore h at_ pos := by injection hk
          exact ⟨_, this ▸ f3⟩

/-- **the strategy is exact**: `FindIndicesAt` returns the reference's leftmost-first span, `none` iff there is no match -/
theorem findIndicesAt_eq_ref (S : Spec O P Mt ref h) (hmz : P.matchStartZero = false) {at_ : Nat} (hat : at_ ≤ h.size) :
    findIndicesAt O P h at_ = ref h at_ := by
  unfold findIndicesAt
  split
  · refine (S.toRefSpec.none_of hat (no_match_of_none S (noEndBefore_init at_) ?_)).symm
    rintro q hq ⟨l, hl, ho⟩
    have := ho.1
    have := S.lit_pos l hl
    omega
  · exact findLoop_eq S hmz (by omega) _ _ _ (Nat.le_refl _) (by omega) (Nat.le_refl _) (noEndBefore_init at_)

theorem isMatchLoop_eq (S : Spec O P Mt ref h) :
    ∀ (fuel ss ms : Nat), ss < h.size → h.size - ss ≤ fuel → NoEndBefore P Mt h 0 ss →
      isMatchLoop O P h fuel ss ms = (ref h 0).isSome := by
  intro fuel
  induction fuel with
  | zero => intro ss ms h2 h3; omega
  | succ fuel ih =>
    intro ss ms h2 h3 hinv
    rw [isMatchLoop]
    cases hpf : O.pfFind h ss with
    | none =>
      simp only []
      rw [S.toRefSpec.none_of (Nat.zero_le _) (no_match_of_none S hinv (S.pf_none ss (by omega) hpf))]
      rfl
    | some pos =>
      simp only []
      obtain ⟨p1, p2, p3⟩ := S.pf_some ss pos (by omega) hpf
      have hinv' := noEndBefore_skip S (by omega) hinv hpf
      have hls := litLoop_spec S (lo := 0) (pos := pos) (ms := ms) (Nat.zero_le _) P.lits ms (fun l hl => hl)
      cases hres : litLoop O h 0 pos ms P.lits ms with
      | cutOff =>
        simp only []
        rw [S.pike 0 (Nat.zero_le _)]
      | found mst =>
        rw [hres] at hls
        obtain ⟨l, hl, f1, hmsz, f3⟩ := hls
        simp only []
        obtain ⟨s0, e0, hr0⟩ := S.toRefSpec.some_of (a := 0) (Nat.zero_le _) f1 hmsz f3
        rw [hr0]
        rfl
      | none me =>
        rw [hres] at hls
        simp only []
        have hinv'' := noEndBefore_step hinv' hls
        split
        · rw [S.toRefSpec.none_of (Nat.zero_le _) (no_match_of_none S hinv'' ?_)]
          · rfl
          · rintro q hq ⟨l, hl, ho⟩
            have := ho.1
            have := S.lit_pos l hl
            omega
        · exact ih (pos + 1) me (by omega) (by omega) hinv''

/-- **`IsMatch` is exact**: true iff the reference finds a match (for either value of `matchStartZero`) -/
theorem isMatch_eq_ref (S : Spec O P Mt ref h) : isMatch O P h = (ref h 0).isSome := by
  unfold isMatch
  split
  · rename_i h0
    rw [S.toRefSpec.none_of (Nat.zero_le _) (no_match_of_none S (noEndBefore_init 0) ?_)]
    · rfl
    · rintro q hq ⟨l, hl, ho⟩
      have := ho.1
      have := S.lit_pos l hl
      omega
  · exact isMatchLoop_eq S _ _ _ (by omega) (by omega) (noEndBefore_init 0)

end

/-! ### `matchStartZero`: the byte-search shortcut for `.*(?:lit1|lit2|…)` -/

/-- what `isDotStarLiteralSet` must guarantee: the pattern is a greedy `.*` (no '\n') followed by one of the literals — its
    matches are the spans that end with a literal and have no '\n' before it; no literal contains '\n'; at most one literal
    LENGTH stands at a position (no literal is a proper prefix of another); and, `.*` being greedy, the reference's match
    ends with the literal occurrence that starts LAST among those reachable without crossing a '\n' -/
structure DotStarSetSpec (O : Oracles) (P : Params) (Mt : Bytes → Nat → Nat → Prop) (ref : Bytes → Nat → Option (Nat × Nat))
    (h : Bytes) : Prop extends RefSpec Mt ref h where
  lit_pos : ∀ l, l ∈ P.lits → 0 < l.size
  lit_nonl : ∀ l, l ∈ P.lits → ∀ k, k < l.size → l.at k ≠ 10
  prefix_free : ∀ l l' p, l ∈ P.lits → l' ∈ P.lits → Occ h l p → Occ h l' p → l.size = l'.size
  pf_some : ∀ st p, st ≤ h.size → O.pfFind h st = some p → st ≤ p ∧ p < h.size ∧ ∀ q, st ≤ q → q < p → ¬ LitAt P h q
  pf_none : ∀ st, st ≤ h.size → O.pfFind h st = none → ∀ q, st ≤ q → ¬ LitAt P h q
  mt_iff : ∀ s e, s ≤ h.size → (Mt h s e ↔
    ∃ l, l ∈ P.lits ∧ s + l.size ≤ e ∧ Occ h l (e - l.size) ∧ ∀ i, s ≤ i → i + l.size < e → h.at i ≠ 10)
  ref_greedy : ∀ a s e, a ≤ h.size → ref h a = some (s, e) →
    ∃ l0 p0, l0 ∈ P.lits ∧ s ≤ p0 ∧ Occ h l0 p0 ∧ e = p0 + l0.size ∧ (∀ i, s ≤ i → i < p0 → h.at i ≠ 10) ∧
      ∀ l p, l ∈ P.lits → s ≤ p → Occ h l p → (∀ i, s ≤ i → i < p → h.at i ≠ 10) → p ≤ p0

section
variable {O : Oracles} {P : Params} {Mt : Bytes → Nat → Nat → Prop} {ref : Bytes → Nat → Option (Nat × Nat)} {h : Bytes}

theorem getSuffixLen_spec (P : Params) (h : Bytes) (p : Nat) :
    (∃ l, l ∈ P.lits ∧ Occ h l p ∧ getSuffixLen P h p = l.size) ∨ ((¬ LitAt P h p) ∧ getSuffixLen P h p = 0) := by
  unfold getSuffixLen
  cases hf : P.lits.find? (fun l => occursAt h l p) with
  | some l =>
    left
    have h1 := List.mem_of_find?_eq_some hf
    have h2 := List.find?_some hf
    exact ⟨l, h1, (RevSuffix.occursAt_iff h l p).mp h2, rfl⟩
  | none =>
    right
    refine ⟨?_, rfl⟩
    rintro ⟨l, hl, ho⟩
    have := List.find?_eq_none.mp hf l hl
    exact this ((RevSuffix.occursAt_iff h l p).mpr ho)

theorem getSuffixLen_pos_iff (D : DotStarSetSpec O P Mt ref h) (p : Nat) : getSuffixLen P h p > 0 ↔ LitAt P h p := by
  rcases getSuffixLen_spec P h p with ⟨l, hl, ho, he⟩ | ⟨hn, he⟩
  · rw [he]
    exact ⟨fun _ => ⟨l, hl, ho⟩, fun _ => D.lit_pos l hl⟩
  · rw [he]
    exact ⟨fun hc => absurd hc (by omega), fun hc => absurd hc hn⟩

/-- the end of the last literal occurrence in `[scan, lineEnd)`, or `end0` -/
def LastEnd (P : Params) (h : Bytes) (lineEnd scan end0 e : Nat) : Prop :=
  (∃ p, scan ≤ p ∧ p < lineEnd ∧ LitAt P h p ∧ (∀ q, p < q → q < lineEnd → ¬ LitAt P h q) ∧ e = p + getSuffixLen P h p) ∨
  ((∀ q, scan ≤ q → q < lineEnd → ¬ LitAt P h q) ∧ e = end0)

theorem scanLoop_spec (D : DotStarSetSpec O P Mt ref h) {lineEnd : Nat} :
    ∀ (fuel scan end0 : Nat), scan ≤ h.size → h.size - scan < fuel → LastEnd P h lineEnd scan end0 (scanLoop O P h lineEnd fuel scan end0) := by
  intro fuel
  induction fuel with
  | zero => intro scan end0 _ h2; omega
  | succ fuel ih =>
    intro scan end0 h1 h2
    rw [scanLoop]
    split
    · rename_i hlt
      cases hpf : O.pfFind h scan with
      | none =>
        simp only []
        exact Or.inr ⟨fun q q1 _ => D.pf_none scan h1 hpf q q1, rfl⟩
      | some np =>
        simp only []
        obtain ⟨p1, p2, p3⟩ := D.pf_some scan np h1 hpf
        split
        · rename_i hge
          exact Or.inr ⟨fun q q1 q2 => p3 q q1 (by omega), rfl⟩
        · rename_i hnge
          have hrec := ih (np + 1) (if getSuffixLen P h np > 0 then np + getSuffixLen P h np else end0) (by omega) (by omega)
          rcases hrec with ⟨p, r1, r2, r3, r4, r5⟩ | ⟨r1, r2⟩
          · exact Or.inl ⟨p, by omega, r2, r3, r4, r5⟩
          · rw [r2]
            by_cases hl : LitAt P h np
            · rw [if_pos ((getSuffixLen_pos_iff D np).mpr hl)]
              exact Or.inl ⟨np, p1, by omega, hl, fun q q1 q2 => r1 q (by omega) q2, rfl⟩
            · rw [if_neg (fun hc => hl ((getSuffixLen_pos_iff D np).mp hc))]
              refine Or.inr ⟨?_, rfl⟩
              intro q q1 q2
              by_cases hq : q < np
              · exact p3 q q1 hq
              · by_cases hqe : q = np
                · rw [hqe]; exact hl
                · exact r1 q (by omega) q2
    · rename_i hnlt
      exact Or.inr ⟨fun q q1 q2 => by omega, rfl⟩

/-- the span of `.*(?:lit1|…)` given the first literal occurrence `pos` at or after `at` -/
theorem dotStarMatch_eq (D : DotStarSetSpec O P Mt ref h) {at_ pos : Nat} (hat : at_ ≤ h.size) (hap : at_ ≤ pos)
    (hlit : LitAt P h pos) (hfirst : ∀ q, at_ ≤ q → q < pos → ¬ LitAt P h q) :
    ref h at_ = some (dotStarMatch O P h at_ pos (pos + getSuffixLen P h pos)) := by
  obtain ⟨lp, hlp, hop⟩ := hlit
  have hps : pos ≤ h.size := by have := hop.1; omega
  obtain ⟨l1, l2, l3, l4⟩ := RevSuffix.lineStartBefore_spec h hap
  -- the end of the candidate's line
  have hline : pos ≤ lineEndAt h pos ∧ lineEndAt h pos ≤ h.size ∧ (∀ j, pos ≤ j → j < lineEndAt h pos → h.at j ≠ 10) ∧
      (lineEndAt h pos = h.size ∨ h.at (lineEndAt h pos) = 10) := by
    unfold lineEndAt
    cases hnl : RevSuffix.nlFrom h pos with
    | none => exact ⟨hps, Nat.le_refl _, RevSuffix.nlFrom_none hnl, Or.inl rfl⟩
    | some nl =>
      obtain ⟨h1, h2, h3, h4⟩ := RevSuffix.nlFrom_some hnl
      simp only []
      exact ⟨h1, by omega, h4, Or.inr h3⟩
  obtain ⟨e1, e2, e3, e4⟩ := hline
  -- a literal occurrence that starts before the end of the line lies on the line
  have honline : ∀ l p, l ∈ P.lits → Occ h l p → pos ≤ p → p < lineEndAt h pos → p + l.size ≤ lineEndAt h pos := by
    intro l p hl ho hp1 hp2
    rcases e4 with e4 | e4
    · rw [e4]; exact ho.1
    · apply Classical.byContradiction
      intro hlt
      have := ho.2 (lineEndAt h pos - p) (by omega)
      rw [show p + (lineEndAt h pos - p) = lineEndAt h pos by omega, e4] at this
      exact D.lit_nonl l hl _ (by omega) this.symm
  have hposlt : pos < lineEndAt h pos := by
    have := D.lit_pos lp hlp
    rcases e4 with e4 | e4
    · have := hop.1; omega
    · apply Classical.byContradiction
      intro hge
      have hpe : pos = lineEndAt h pos := by omega
      have := hop.2 0 (D.lit_pos lp hlp)
      rw [Nat.add_zero, hpe, e4] at this
      exact D.lit_nonl lp hlp 0 (D.lit_pos lp hlp) this.symm
  have hls : lineStartBefore h at_ pos ≤ h.size := by omega
  -- the match [lineStart, pos + |lp|)
  have hmatch : Mt h (lineStartBefore h at_ pos) (pos + lp.size) := by
    refine (D.mt_iff _ _ hls).mpr ⟨lp, hlp, by omega, by rw [show pos + lp.size - lp.size = pos by omega]; exact hop, ?_⟩
    intro i i1 i2
    exact l3 i i1 (by omega)
  obtain ⟨s0, e0, hr0⟩ := D.toRefSpec.some_of (a := at_) hat l1 hls hmatch
  obtain ⟨r1, r2, r3⟩ := D.ref_sound at_ s0 e0 hat hr0
  have a1 := D.ref_leftmost at_ s0 e0 hat hr0 _ _ l1 hmatch
  -- the reference's match starts on the candidate's line
  obtain ⟨lm, hlm, m1, m2, m3⟩ := (D.mt_iff s0 e0 r2).mp r3
  have hpm : pos ≤ e0 - lm.size := by
    apply Classical.byContradiction
    intro hlt
    exact hfirst (e0 - lm.size) (by omega) (by omega) ⟨lm, hlm, m2⟩
  have a2 : lineStartBefore h at_ pos ≤ s0 := by
    rcases l4 with l4 | ⟨l4, l5⟩
    · omega
    · apply Classical.byContradiction
      intro hlt
      exact m3 (lineStartBefore h at_ pos - 1) (by omega) (by omega) l5
  have hs : s0 = lineStartBefore h at_ pos := by omega
  -- its end: the last occurrence on the line
  obtain ⟨l0, p0, g1, g2, g3, g4, g5, g6⟩ := D.ref_greedy at_ s0 e0 hat hr0
  have hadm : ∀ i, s0 ≤ i → i < pos → h.at i ≠ 10 := fun i i1 i2 => l3 i (by omega) i2
  have hp0 : pos ≤ p0 := g6 lp pos hlp (by omega) hop hadm
  have hp0lt : p0 < lineEndAt h pos := by
    rcases e4 with e4 | e4
    · have := g3.1
      have := D.lit_pos l0 g1
      omega
    · apply Classical.byContradiction
      intro hge
      by_cases hpe : p0 = lineEndAt h pos
      · have := g3.2 0 (D.lit_pos l0 g1)
        rw [Nat.add_zero, hpe, e4] at this
        exact D.lit_nonl l0 g1 0 (D.lit_pos l0 g1) this.symm
      · exact g5 (lineEndAt h pos) (by omega) (by omega) e4
  have hscan := scanLoop_spec D (lineEnd := lineEndAt h pos) h.size (pos + 1) (pos + getSuffixLen P h pos) (by omega) (by omega)
  unfold dotStarMatch
  rw [hr0, hs]
  congr 2
  -- `getSuffixLen` at an occurrence is the length of any literal standing there
  have hlen : ∀ l p, l ∈ P.lits → Occ h l p → getSuffixLen P h p = l.size := by
    intro l p hl ho
    rcases getSuffixLen_spec P h p with ⟨l', hl', ho', he'⟩ | ⟨hn, _⟩
    · rw [he']; exact D.prefix_free l' l p hl' hl ho' ho
    · exact absurd ⟨l, hl, ho⟩ hn
  rcases hscan with ⟨p, s1, s2, ⟨lq, hlq, hoq⟩, s4, s5⟩ | ⟨s1, s2⟩
  · -- p is the last occurrence on the line: p = p0
    have hadmp : ∀ i, s0 ≤ i → i < p → h.at i ≠ 10 := by
      intro i i1 i2
      by_cases hi : i < pos
      · exact hadm i i1 hi
      · exact e3 i (by omega) (by omega)
    have hpp0 : p ≤ p0 := g6 lq p hlq (by omega) hoq hadmp
    have : p0 = p := by
      apply Classical.byContradiction
      intro hne
      exact s4 p0 (by omega) hp0lt ⟨l0, g1, g3⟩
    rw [s5, g4, ← this, hlen l0 p0 g1 g3]
  · -- no occurrence after pos on the line: p0 = pos
    have : p0 = pos := by
      apply Classical.byContradiction
      intro hne
      exact s1 p0 (by omega) hp0lt ⟨l0, g1, g3⟩
    rw [s2, g4, this, hlen l0 pos g1 (this ▸ g3)]

theorem dotStar_findLoop (D : DotStarSetSpec O P Mt ref h) (hmz : P.matchStartZero = true) {at_ : Nat} (hat : at_ < h.size) :
    ∀ (fuel ss ms : Nat), at_ ≤ ss → ss < h.size → h.size - ss ≤ fuel → (∀ q, at_ ≤ q → q < ss → ¬ LitAt P h q) →
      findLoop O P h at_ fuel ss ms = ref h at_ := by
  have hnone : (∀ q, at_ ≤ q → ¬ LitAt P h q) → ref h at_ = none := by
    intro hno
    refine D.toRefSpec.none_of (by omega) ?_
    intro s e g1 g2 g3
    obtain ⟨l, hl, m1, m2, _⟩ := (D.mt_iff s e g2).mp g3
    exact hno (e - l.size) (by omega) ⟨l, hl, m2⟩
  intro fuel
  induction fuel with
  | zero => intro ss ms _ h2 h3; omega
  | succ fuel ih =>
    intro ss ms h1 h2 h3 hno
    rw [findLoop]
    cases hpf : O.pfFind h ss with
    | none =>
      simp only []
      refine (hnone ?_).symm
      intro q hq
      by_cases hlt : q < ss
      · exact hno q hq hlt
      · exact D.pf_none ss (by omega) hpf q (by omega)
    | some pos =>
      simp only [hmz, Bool.true_and, if_true]
      obtain ⟨p1, p2, p3⟩ := D.pf_some ss pos (by omega) hpf
      have hno' : ∀ q, at_ ≤ q → q < pos → ¬ LitAt P h q := by
        intro q hq hlt
        by_cases hl : q < ss
        · exact hno q hq hl
        · exact p3 q (by omega) hlt
      by_cases hg : getSuffixLen P h pos > 0
      · rw [if_pos (by simpa using hg)]
        exact (dotStarMatch_eq D (by omega) (by omega) ((getSuffixLen_pos_iff D pos).mp hg) hno').symm
      · rw [if_neg (by simpa using hg)]
        have hnl : ¬ LitAt P h pos := fun hc => hg ((getSuffixLen_pos_iff D pos).mpr hc)
        have hno'' : ∀ q, at_ ≤ q → q < pos + 1 → ¬ LitAt P h q := by
          intro q hq hlt
          by_cases hqe : q = pos
          · rw [hqe]; exact hnl
          · exact hno' q hq (by omega)
        split
        · refine (hnone ?_).symm
          intro q hq
          by_cases hlt : q < pos + 1
          · exact hno'' q hq hlt
          · rintro ⟨l, hl, ho⟩
            have := ho.1
            have := D.lit_pos l hl
            omega
        · exact ih (pos + 1) ms (by omega) (by omega) (by omega) hno''

/-- **the shortcut is exact** for the shape it is meant for -/
theorem dotStar_eq_ref (D : DotStarSetSpec O P Mt ref h) (hmz : P.matchStartZero = true) {at_ : Nat} (hat : at_ ≤ h.size) :
    findIndicesAt O P h at_ = ref h at_ := by
  unfold findIndicesAt
  split
  · refine (D.toRefSpec.none_of hat ?_).symm
    intro s e g1 g2 g3
    obtain ⟨l, hl, m1, m2, _⟩ := (D.mt_iff s e g2).mp g3
    have := m2.1
    have := D.lit_pos l hl
    omega
  · exact dotStar_findLoop D hmz (by omega) _ _ _ (Nat.le_refl _) (by omega) (Nat.le_refl _) (fun q h1 h2 => by omega)

end

/-! ### the anti-quadratic guard `minStart` with several literals per candidate -/

section
variable (O : Oracles) (P : Params) (h : Bytes)

theorem litLoopT_fst (lo pos ms : Nat) : ∀ (ls : List Bytes) (maxEnd : Nat) (t : List (Nat × Nat)),
    (litLoopT O h lo pos ms ls maxEnd t).1 = litLoop O h lo pos ms ls maxEnd := by
  intro ls
  induction ls with
  | nil => intro maxEnd t; rfl
  | cons l rest ih =>
    intro maxEnd t
    rw [litLoopT, litLoop]
    split
    · simp only []
      cases O.revLimited h lo (pos + l.size) ms with
      | cutOff => rfl
      | found m => rfl
      | none => exact ih _ _
    · exact ih _ _

theorem findLoopT_fst (at_ : Nat) : ∀ (fuel ss ms : Nat) (t : List (Nat × Nat)),
    (findLoopT O P h at_ fuel ss ms t).1 = findLoop O P h at_ fuel ss ms := by
  intro fuel
  induction fuel with
  | zero => intro ss ms t; rfl
  | succ fuel ih =>
    intro ss ms t
    rw [findLoopT, findLoop]
    cases O.pfFind h ss with
    | none => rfl
    | some pos =>
      simp only []
      split
      · rfl
      · cases hmz : P.matchStartZero with
        | true =>
          simp only [if_true]
          split
          · rfl
          · exact ih _ _ _
        | false =>
          simp only [Bool.false_eq_true, if_false]
          have hl := litLoopT_fst O h at_ pos ms P.lits ms t
          generalize litLoopT O h at_ pos ms P.lits ms t = r at hl
          obtain ⟨r, t'⟩ := r
          simp only [] at hl
          rw [← hl]
          cases r with
          | cutOff => rfl
          | found m => rfl
          | none me =>
            simp only []
            split
            · rfl
            · exact ih _ _ _

theorem findIndicesAtT_fst (at_ : Nat) : (findIndicesAtT O P h at_).1 = findIndicesAt O P h at_ := by
  unfold findIndicesAtT findIndicesAt
  split
  · rfl
  · exact findLoopT_fst O P h at_ _ _ _ _

end

section
variable {O : Oracles} {P : Params} {h : Bytes}

/-- the new `minStart` after the loop over the literals (`|h|` when the loop returns) -/
def exitEnd (h : Bytes) : LitsOut → Nat
  | .none me => me
  | _ => h.size

/-- the scans at one candidate: at most one window per literal, each inside `[minStart, M)`, where `M` is the new `minStart`
    (or `|h|` when the loop returns) -/
theorem litLoopT_cost {lo pos ms : Nat} (hlo : lo ≤ ms) : ∀ (ls : List Bytes) (maxEnd : Nat) (t : List (Nat × Nat)),
    maxEnd ≤ h.size →
      maxEnd ≤ exitEnd h (litLoopT O h lo pos ms ls maxEnd t).1 ∧ exitEnd h (litLoopT O h lo pos ms ls maxEnd t).1 ≤ h.size ∧
      RevSuffix.windowsCost (litLoopT O h lo pos ms ls maxEnd t).2 ≤
        RevSuffix.windowsCost t + ls.length * (exitEnd h (litLoopT O h lo pos ms ls maxEnd t).1 - ms) := by
  intro ls
  induction ls with
  | nil =>
    intro maxEnd t h2
    simp only [litLoopT, exitEnd, List.length_nil, Nat.zero_mul, Nat.add_zero]
    exact ⟨Nat.le_refl _, h2, Nat.le_refl _⟩
  | cons l rest ih =>
    intro maxEnd t h2
    rw [litLoopT]
    split
    · rename_i hocc
      have ho := (RevSuffix.occursAt_iff h l pos).mp hocc
      have hle := ho.1
      have hw : RevSuffix.windowsCost (t ++ [(max lo ms, pos + l.size)]) = RevSuffix.windowsCost t + (pos + l.size - ms) := by
        simp only [RevSuffix.windowsCost, List.map_append, List.sum_append, List.map_cons, List.map_nil, List.sum_cons, List.sum_nil]
        omega
      simp only []
      cases O.revLimited h lo (pos + l.size) ms with
      | cutOff =>
        simp only [exitEnd, hw, List.length_cons, Nat.succ_mul]
        exact ⟨h2, Nat.le_refl _, by omega⟩
      | found m =>
        simp only [exitEnd, hw, List.length_cons, Nat.succ_mul]
        exact ⟨h2, Nat.le_refl _, by omega⟩
      | none =>
        simp only []
        have hmx : maxEnd ≤ (if pos + l.size > maxEnd then pos + l.size else maxEnd) ∧
            pos + l.size ≤ (if pos + l.size > maxEnd then pos + l.size else maxEnd) ∧
            (if pos + l.size > maxEnd then pos + l.size else maxEnd) ≤ h.size := by split <;> omega
        generalize (if pos + l.size > maxEnd then pos + l.size else maxEnd) = mx at hmx ⊢
        obtain ⟨m1, m2, m4⟩ := ih mx (t ++ [(max lo ms, pos + l.size)]) hmx.2.2
        rw [hw] at m4
        simp only [List.length_cons, Nat.succ_mul]
        exact ⟨by omega, m2, by omega⟩
    · rename_i hocc
      obtain ⟨m1, m2, m4⟩ := ih maxEnd t h2
      simp only [List.length_cons, Nat.succ_mul]
      exact ⟨m1, m2, by omega⟩

theorem findLoopT_cost {at_ : Nat} :
    ∀ (fuel ss ms : Nat) (t : List (Nat × Nat)), at_ ≤ ms → ms ≤ h.size →
      RevSuffix.windowsCost t ≤ P.lits.length * (ms - at_) →
      RevSuffix.windowsCost (findLoopT O P h at_ fuel ss ms t).2 ≤ P.lits.length * (h.size - at_) := by
  have hmono : ∀ a b, a ≤ b → P.lits.length * (a - at_) ≤ P.lits.length * (b - at_) :=
    fun a b hab => Nat.mul_le_mul_left _ (by omega)
  intro fuel
  induction fuel with
  | zero =>
    intro ss ms t h1 h2 h3
    rw [findLoopT]
    exact Nat.le_trans h3 (hmono _ _ h2)
  | succ fuel ih =>
    intro ss ms t h1 h2 h3
    rw [findLoopT]
    cases hp : O.pfFind h ss with
    | none => exact Nat.le_trans h3 (hmono _ _ h2)
    | some pos =>
      simp only []
      split
      · exact Nat.le_trans h3 (hmono _ _ h2)
      · cases hmz : P.matchStartZero with
        | true =>
          simp only [if_true]
          split
          · exact Nat.le_trans h3 (hmono _ _ h2)
          · exact ih _ _ _ h1 h2 h3
        | false =>
          simp only [Bool.false_eq_true, if_false]
          obtain ⟨c1, c2, c3⟩ := litLoopT_cost (O := O) (h := h) (pos := pos) h1 P.lits ms t h2
          -- the cost after this candidate, in terms of the new frontier
          have hstep : RevSuffix.windowsCost (litLoopT O h at_ pos ms P.lits ms t).2 ≤
              P.lits.length * (exitEnd h (litLoopT O h at_ pos ms P.lits ms t).1 - at_) := by
            have he : P.lits.length * (ms - at_) + P.lits.length * (exitEnd h (litLoopT O h at_ pos ms P.lits ms t).1 - ms) =
                P.lits.length * (exitEnd h (litLoopT O h at_ pos ms P.lits ms t).1 - at_) := by
              rw [← Nat.mul_add]
              congr 1
              omega
            omega
          generalize litLoopT O h at_ pos ms P.lits ms t = r at c1 c2 c3 hstep
          obtain ⟨r, t'⟩ := r
          simp only [] at c1 c2 c3 hstep ⊢
          cases r with
          | cutOff => exact Nat.le_trans hstep (hmono _ _ c2)
          | found m => exact Nat.le_trans hstep (hmono _ _ c2)
          | none me =>
            simp only [exitEnd] at c1 c2 hstep
            simp only []
            split
            · exact Nat.le_trans hstep (hmono _ _ c2)
            · exact ih _ _ _ (by omega) c2 hstep

/-- **anti-quadratic bound** with `K` suffix literals: all bounded reverse scans of one `FindIndicesAt` together read at most
    `K·(|h| - at)` bytes — at one candidate every literal standing there is scanned from the same `minStart`, so a byte may be
    read once per literal, but never again at a later candidate -/
theorem limited_cost_le (at_ : Nat) :
    RevSuffix.windowsCost (findIndicesAtT O P h at_).2 ≤ P.lits.length * (h.size - at_) := by
  unfold findIndicesAtT
  split
  · simp [RevSuffix.windowsCost]
  · exact findLoopT_cost _ _ _ _ (Nat.le_refl _) (by omega) (by simp [RevSuffix.windowsCost])

end

/-! ### the contracts are satisfiable: brute-force oracles (what the fidelity driver runs the model with) -/

theorem refPfFindSet_some {lits : List Bytes} {h : Bytes} {st p : Nat} (hf : refPfFindSet lits h st = some p) :
    st ≤ p ∧ (∃ l, l ∈ lits ∧ Occ h l p) ∧ ∀ q, st ≤ q → q < p → ¬ ∃ l, l ∈ lits ∧ Occ h l q := by
  obtain ⟨h1, _, h3, h4⟩ := RevSuffix.findFirst_some hf
  simp only [List.any_eq_true] at h3
  obtain ⟨l, hl, ho⟩ := h3
  refine ⟨h1, ⟨l, hl, (RevSuffix.occursAt_iff h l p).mp ho⟩, ?_⟩
  rintro q hq1 hq2 ⟨l', hl', ho'⟩
  have := h4 q hq1 hq2
  have ht : (lits.any fun l => occursAt h l q) = true := List.any_eq_true.mpr ⟨l', hl', (RevSuffix.occursAt_iff h l' q).mpr ho'⟩
  rw [ht] at this
  cases this

theorem refPfFindSet_none {lits : List Bytes} {h : Bytes} {st : Nat} (hf : refPfFindSet lits h st = none) :
    ∀ q, st ≤ q → ¬ ∃ l, l ∈ lits ∧ Occ h l q := by
  rintro q hq ⟨l, hl, ho⟩
  have := RevSuffix.findFirst_none hf q hq (by have := ho.1; omega)
  have ht : (lits.any fun l => occursAt h l q) = true := List.any_eq_true.mpr ⟨l, hl, (RevSuffix.occursAt_iff h l q).mpr ho⟩
  rw [ht] at this
  cases this

theorem bruteOracles_spec {mt : Nat → Nat → Bool} {rf : Nat → Option (Nat × Nat)} (cutMode : Nat) (giveUp : Bool)
    {P : Params} {h : Bytes} (hL : ∀ l, l ∈ P.lits → 0 < l.size)
    (R : RefSpec (fun _ s e => mt s e = true) (fun _ a => rf a) h)
    (hnec : ∀ s e, s ≤ h.size → mt s e = true → e ≤ h.size ∧ ∃ l, l ∈ P.lits ∧ s + l.size ≤ e ∧ Occ h l (e - l.size))
    (hlb1 : P.lineBounded = true → ∀ s e, s ≤ h.size → mt s e = true → ∀ i, s ≤ i → i < e → h.at i ≠ 10)
    (hlb2 : P.lineBounded = true → ∀ a a' s e, a ≤ h.size → rf a = some (s, e) → a ≤ a' → a' ≤ s → rf a' = some (s, e)) :
    Spec (bruteOracles P.lits mt rf cutMode giveUp) P (fun _ s e => mt s e = true) (fun _ a => rf a) h where
  toRefSpec := R
  lit_pos := hL
  pf_some := by
    intro st p _ hf
    obtain ⟨f1, ⟨l, hl, ho⟩, f3⟩ := refPfFindSet_some (lits := P.lits) hf
    have := ho.1
    have := hL l hl
    exact ⟨f1, by omega, f3⟩
  pf_none := fun st _ hf => refPfFindSet_none (lits := P.lits) hf
  necessity := hnec
  revL_found := by
    intro lo e m s hlo he hr
    simp only [bruteOracles, RevSuffix.bruteOracles] at hr
    split at hr
    · cases hr
    · split at hr
      · rename_i s1 hf
        cases hr
        obtain ⟨f1, f2, f3, f4⟩ := RevSuffix.findFirst_some hf
        refine ⟨f1, by omega, f3, ?_⟩
        intro s' g1 g2
        apply Classical.byContradiction
        intro hlt
        have := f4 s' g1 (by omega)
        rw [g2] at this
        cases this
      · cases hr
  revL_none := by
    intro lo e m hlo he hr s' g1 g2 g3
    simp only [bruteOracles, RevSuffix.bruteOracles] at hr
    split at hr
    · cases hr
    · split at hr
      · cases hr
      · rename_i hf
        obtain ⟨_, l, _, hle, _⟩ := hnec s' e g2 g3
        have := RevSuffix.findFirst_none hf s' g1 (by omega)
        rw [g3] at this
        cases this
  revF_some := by
    intro lo e s hlo he hr
    simp only [bruteOracles, RevSuffix.bruteOracles] at hr
    split at hr
    · cases hr
    · obtain ⟨f1, f2, f3, f4⟩ := RevSuffix.findFirst_some hr
      refine ⟨f1, f3, ?_⟩
      intro s' g1 _ g3
      apply Classical.byContradiction
      intro hlt
      have := f4 s' g1 (by omega)
      rw [g3] at this
      cases this
  fwd := fun _ _ => rfl
  pike := fun _ _ => rfl
  lb_nl := hlb1
  lb_restart := hlb2

/-- non-vacuity: the contracts hold for `[a-z]+(?:ab|cd)` on "xab" (one match, [0,3)), with `lineBounded` -/
example : Spec (bruteOracles [#[97, 98], #[99, 100]] (fun s e => s == 0 && e == 3) (fun a => if a = 0 then some (0, 3) else none) 2 true)
    { lits := [#[97, 98], #[99, 100]], lineBounded := true } (fun _ s e => (s == 0 && e == 3) = true)
    (fun _ a => if a = 0 then some (0, 3) else none) #[120, 97, 98] := by
  refine bruteOracles_spec (P := { lits := [#[97, 98], #[99, 100]], lineBounded := true }) 2 true ?_ ⟨?_, ?_, ?_⟩ ?_ ?_ ?_
  · intro l hl
    simp only [List.mem_cons, List.not_mem_nil, or_false] at hl
    rcases hl with rfl | rfl <;> decide
  · intro a s e _ hr
    split at hr
    · cases hr; subst_vars; exact ⟨Nat.le_refl _, by decide, by decide⟩
    · cases hr
  · intro a s e _ hr s' e' h1 h2
    split at hr
    · cases hr
      simp only [Bool.and_eq_true, beq_iff_eq] at h2
      omega
    · cases hr
  · intro a _ hr s e h1 _ h3
    split at hr
    · cases hr
    · simp only [Bool.and_eq_true, beq_iff_eq] at h3
      omega
  · intro s e _ hm
    simp only [Bool.and_eq_true, beq_iff_eq] at hm
    obtain ⟨rfl, rfl⟩ := hm
    exact ⟨by decide, #[97, 98], by simp, by decide, (RevSuffix.occursAt_iff _ _ _).mp (by decide)⟩
  · intro _ s e _ hm i i1 i2
    simp only [Bool.and_eq_true, beq_iff_eq] at hm
    obtain ⟨rfl, rfl⟩ := hm
    have : i = 0 ∨ i = 1 ∨ i = 2 := by omega
    rcases this with rfl | rfl | rfl <;> decide
  · intro _ a a' s e _ hr g1 g2
    split at hr
    · cases hr
      have : a' = 0 := by omega
      subst this; subst_vars
      rfl
    · cases hr

/-! ### why the hypotheses are needed: counter-models (brute-force oracles over explicit tables)

* `necessity`: a match [0,2) of "xy" that ends with none of the literals `ab`, `cd` is lost.
* `lb_nl` / `lineBounded`: `(?s).+(?:ab|cd)` on "\nxab" (match [0,4) contains '\n') told `lineBounded`.
* `DotStarSetSpec` / `matchStartZero`: `[a-z]+(?:ab|cd)` on "ab" (no match) told to be `.*(?:ab|cd)`.
* every literal standing at the candidate has to be tried (`litLoop`): with the literals `b`, `bcd` standing at 1 in "abcd",
  only the SECOND one ends a match of `a(?:b$|bcd)`-like tables. -/

example :
    findIndicesAt (bruteOracles [#[97, 98], #[99, 100]] (fun s e => s == 0 && e == 2) (fun a => if a = 0 then some (0, 2) else none) 0 false)
      { lits := [#[97, 98], #[99, 100]] } #[120, 121] 0 = none := by decide

example :
    let O := bruteOracles [#[97, 98], #[99, 100]] (fun s e => s == 0 && e == 4) (fun a => if a = 0 then some (0, 4) else none) 0 false
    findIndicesAt O { lits := [#[97, 98], #[99, 100]], lineBounded := true } #[10, 120, 97, 98] 0 = none ∧
    findIndicesAt O { lits := [#[97, 98], #[99, 100]], lineBounded := false } #[10, 120, 97, 98] 0 = some (0, 4) := by decide

example :
    let O := bruteOracles [#[97, 98], #[99, 100]] (fun _ _ => false) (fun _ => none) 0 false
    findIndicesAt O { lits := [#[97, 98], #[99, 100]], matchStartZero := true } #[97, 98] 0 = some (0, 2) ∧
    findIndicesAt O { lits := [#[97, 98], #[99, 100]], matchStartZero := false } #[97, 98] 0 = none := by decide

example :
    let O := bruteOracles [#[98], #[98, 99, 100]] (fun s e => s == 0 && e == 4) (fun a => if a = 0 then some (0, 4) else none) 0 false
    findIndicesAt O { lits := [#[98], #[98, 99, 100]] } #[97, 98, 99, 100] 0 = some (0, 4) ∧
    isMatch O { lits := [#[98], #[98, 99, 100]] } #[97, 98, 99, 100] = true ∧
    findIndicesAt O { lits := [#[98]] } #[97, 98, 99, 100] 0 = none := by decide

end Cx.RevSuffixSet
