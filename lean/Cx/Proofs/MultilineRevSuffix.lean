import Cx.Model.MultilineRevSuffix
import Cx.Proofs.RevSuffix
/-
  Cx.Proofs.MultilineRevSuffix — the multiline reverse-suffix strategy (`meta/reverse_suffix_multiline.go`, model
  `Cx.Model.MultilineRevSuffix`) returns exactly what the reference search returns, RELATIVE to the contracts of its components.

  Hypotheses about the pattern (`Core`, all for the haystack at hand — what `isSafeForMultilineReverseSuffix` must guarantee):
    line_start   every match starts at the start of a line (the pattern begins with `(?m)^`)
    no_nl        no match contains '\n'
    lit_in       every match contains a position the prefilter reports (`IsLit`: a suffix literal occurrence)
  Component contracts: RefSpec; `pfFind` = a position ≥ start, < |h|, with no `IsLit` position in between / none: none left.
  Verification of a line (`LineOK`): `matchLine` at a line start answers `some e` only if a match starts there and `e` is the
  end the reference reports for that start, `none` only if no match starts there.  It follows
    * for general patterns (`Spec`) from: every match starts with `prefixBytes`; `fwdAnchored h s` = the end of the
      leftmost-first match starting exactly at `s`                                                    (`lineOK_of_spec`)
    * for the literal shape (`ShapeSpec`) from: the matches are exactly `^prefix .{minGap,} suffix` without '\n', and the
      reference's match is the longest at its start (greedy wildcard)                                  (`lineOK_of_shape`)

  Theorems:
    findIndicesAt_eq_ref   findIndicesAt O P h at = ref h at   (at ≤ |h|)        isMatch_eq_ref   isMatch O P h = (ref h 0).isSome
    findIndicesAtT_fst     the instrumented function computes the same answer
    lines_chained / lines_cost_le   the lines handed to `matchLine` by one call are consecutive and disjoint: together they
                           have at most |h| - at bytes (no line is verified twice: the search is linear)
-/
namespace Cx.MultilineRevSuffix
open Cx
open Cx.RevSuffix (RefSpec Occ findFirst findLast occursAt lineStartBefore lineEndAt lastIndexIn)

/-! ### lines -/

theorem lineEndAt_spec (h : Bytes) (pos : Nat) (hp : pos ≤ h.size) :
    pos ≤ lineEndAt h pos ∧ lineEndAt h pos ≤ h.size ∧ (∀ j, pos ≤ j → j < lineEndAt h pos → h.at j ≠ 10) ∧
      (lineEndAt h pos = h.size ∨ h.at (lineEndAt h pos) = 10) := by
  unfold lineEndAt
  cases hnl : RevSuffix.nlFrom h pos with
  | none => exact ⟨hp, Nat.le_refl _, RevSuffix.nlFrom_none hnl, Or.inl rfl⟩
  | some nl =>
    obtain ⟨h1, h2, h3, h4⟩ := RevSuffix.nlFrom_some hnl
    simp only []
    exact ⟨h1, by omega, h4, Or.inr h3⟩

/-- the line `[LS, LE)` of position `sp`: no '\n' inside, a line start on the left, a '\n' or the end on the right -/
theorem line_spec (h : Bytes) (sp : Nat) (hp : sp ≤ h.size) :
    lineStartBefore h 0 sp ≤ sp ∧ sp ≤ lineEndAt h sp ∧ lineEndAt h sp ≤ h.size ∧
    (∀ i, lineStartBefore h 0 sp ≤ i → i < lineEndAt h sp → h.at i ≠ 10) ∧
    (lineStartBefore h 0 sp = 0 ∨ (0 < lineStartBefore h 0 sp ∧ h.at (lineStartBefore h 0 sp - 1) = 10)) ∧
    (lineEndAt h sp = h.size ∨ h.at (lineEndAt h sp) = 10) := by
  obtain ⟨_, l2, l3, l4⟩ := RevSuffix.lineStartBefore_spec h (Nat.zero_le sp)
  obtain ⟨e1, e2, e3, e4⟩ := lineEndAt_spec h sp hp
  refine ⟨l2, e1, e2, ?_, l4, e4⟩
  intro i i1 i2
  by_cases hi : i < sp
  · exact l3 i i1 hi
  · exact e3 i (by omega) i2

/-! ### contracts -/

/-- what the strategy needs of the pattern and of the prefilter -/
structure Core (O : Oracles) (Mt : Bytes → Nat → Nat → Prop) (IsLit : Bytes → Nat → Prop)
    (ref : Bytes → Nat → Option (Nat × Nat)) (h : Bytes) : Prop extends RefSpec Mt ref h where
  /-- the pattern begins with `(?m)^` -/
  line_start : ∀ s e, s ≤ h.size → Mt h s e → s = 0 ∨ h.at (s - 1) = 10
  /-- the pattern cannot match '\n' -/
  no_nl : ∀ s e, s ≤ h.size → Mt h s e → ∀ i, s ≤ i → i < e → h.at i ≠ 10
  /-- literal necessity: every match contains a position the prefilter reports -/
  lit_in : ∀ s e, s ≤ h.size → Mt h s e → ∃ p, s ≤ p ∧ p < e ∧ IsLit h p
  lit_lt : ∀ p, IsLit h p → p < h.size
  pf_some : ∀ st p, st ≤ h.size → O.pfFind h st = some p → st ≤ p ∧ p < h.size ∧ ∀ q, st ≤ q → q < p → ¬ IsLit h q
  pf_none : ∀ st, st ≤ h.size → O.pfFind h st = none → ∀ q, st ≤ q → ¬ IsLit h q

/-- what the verification of one line must deliver -/
def LineOK (O : Oracles) (P : Params) (Mt : Bytes → Nat → Nat → Prop) (ref : Bytes → Nat → Option (Nat × Nat)) (h : Bytes) : Prop :=
  ∀ sp, sp < h.size →
    (∀ e, matchLine O P h (lineStartBefore h 0 sp) (lineEndAt h sp) = some e →
      Mt h (lineStartBefore h 0 sp) e ∧ ∀ a e0, a ≤ h.size → ref h a = some (lineStartBefore h 0 sp, e0) → e0 = e) ∧
    (matchLine O P h (lineStartBefore h 0 sp) (lineEndAt h sp) = none → ∀ e, ¬ Mt h (lineStartBefore h 0 sp) e)

section
variable {O : Oracles} {P : Params} {Mt : Bytes → Nat → Nat → Prop} {IsLit : Bytes → Nat → Prop}
  {ref : Bytes → Nat → Option (Nat × Nat)} {h : Bytes}

/-- the loop invariant: every match from `at` starts at or after `pos` -/
def Inv (Mt : Bytes → Nat → Nat → Prop) (h : Bytes) (at_ pos : Nat) : Prop := ∀ s e, at_ ≤ s → s ≤ h.size → Mt h s e → pos ≤ s

/-- a match at or after `pos` starts on the line of the next candidate, or after that line -/
theorem start_on_line (C : Core O Mt IsLit ref h) {at_ pos sp : Nat} (hpos : pos ≤ h.size) (hinv : Inv Mt h at_ pos)
    (hpf : O.pfFind h pos = some sp) {s e : Nat} (has : at_ ≤ s) (hs : s ≤ h.size) (hm : Mt h s e) :
    s = lineStartBefore h 0 sp ∨ lineEndAt h sp + 1 ≤ s := by
  obtain ⟨p1, p2, p3⟩ := C.pf_some pos sp hpos hpf
  obtain ⟨l1, l2, l3, l4, l5, l6⟩ := line_spec h sp (Nat.le_of_lt p2)
  have hge := hinv s e has hs hm
  obtain ⟨p, q1, q2, q3⟩ := C.lit_in s e hs hm
  have hpsp : sp ≤ p := by
    apply Classical.byContradiction
    intro hlt
    exact p3 p (by omega) (by omega) q3
  have hnl := C.no_nl s e hs hm
  -- not before the line start
  have hsl : lineStartBefore h 0 sp ≤ s := by
    rcases l5 with l5 | ⟨l5, l5'⟩
    · omega
    · apply Classical.byContradiction
      intro hlt
      exact hnl (lineStartBefore h 0 sp - 1) (by omega) (by omega) l5'
  by_cases heq : s = lineStartBefore h 0 sp
  · exact Or.inl heq
  · right
    rcases C.line_start s e hs hm with h0 | h0
    · omega
    · apply Classical.byContradiction
      intro hlt
      exact l4 (s - 1) (by omega) (by omega) h0

theorem no_match_of_none (C : Core O Mt IsLit ref h) {at_ pos : Nat} (hinv : Inv Mt h at_ pos)
    (hno : ∀ q, pos ≤ q → ¬ IsLit h q) : ∀ s e, at_ ≤ s → s ≤ h.size → ¬ Mt h s e := by
  intro s e h1 h2 h3
  obtain ⟨p, q1, _, q3⟩ := C.lit_in s e h2 h3
  exact hno p (by have := hinv s e h1 h2 h3; omega) q3

theorem findLoop_eq (C : Core O Mt IsLit ref h) (L : LineOK O P Mt ref h) {at_ : Nat} (hat : at_ < h.size) :
    ∀ (fuel pos : Nat), at_ ≤ pos → pos < h.size → h.size - pos ≤ fuel → Inv Mt h at_ pos →
      findLoop O P h at_ fuel pos = ref h at_ := by
  intro fuel
  induction fuel with
  | zero => intro pos _ h2 h3; omega
  | succ fuel ih =>
    intro pos h1 h2 h3 hinv
    rw [findLoop]
    cases hpf : O.pfFind h pos with
    | none =>
      simp only []
      exact (C.toRefSpec.none_of (by omega) (no_match_of_none C hinv (C.pf_none pos (by omega) hpf))).symm
    | some sp =>
      simp only []
      obtain ⟨p1, p2, p3⟩ := C.pf_some pos sp (by omega) hpf
      obtain ⟨l1, l2, l3, l4, l5, l6⟩ := line_spec h sp (Nat.le_of_lt p2)
      obtain ⟨L1, L2⟩ := L sp p2
      have hline := fun s e (a : at_ ≤ s) (b : s ≤ h.size) (c : Mt h s e) => start_on_line C (by omega) hinv hpf a b c
      -- the outcome of the line
      have hnext : (∀ e, at_ ≤ lineStartBefore h 0 sp → ¬ Mt h (lineStartBefore h 0 sp) e) →
          (if lineEndAt h sp + 1 ≥ h.size then none else findLoop O P h at_ fuel (lineEndAt h sp + 1)) = ref h at_ := by
        intro hno
        have hinv' : Inv Mt h at_ (lineEndAt h sp + 1) := by
          intro s e a b c
          rcases hline s e a b c with heq | hge
          · exact absurd (heq ▸ c) (hno e (heq ▸ a))
          · exact hge
        split
        · refine (C.toRefSpec.none_of (by omega) (no_match_of_none C hinv' ?_)).symm
          intro q hq hl
          have := C.lit_lt q hl
          omega
        · exact ih (lineEndAt h sp + 1) (by omega) (by omega) (by omega) hinv'
      by_cases hge : lineStartBefore h 0 sp ≥ at_
      · rw [if_pos hge]
        cases hml : matchLine O P h (lineStartBefore h 0 sp) (lineEndAt h sp) with
        | none =>
          simp only []
          exact hnext (fun e _ => L2 hml e)
        | some e =>
          simp only []
          obtain ⟨m1, m2⟩ := L1 e hml
          obtain ⟨s0, e0, hr0⟩ := C.toRefSpec.some_of (a := at_) (by omega) hge (by omega) m1
          obtain ⟨r1, r2, r3⟩ := C.ref_sound at_ s0 e0 (by omega) hr0
          have a1 := C.ref_leftmost at_ s0 e0 (by omega) hr0 _ e hge m1
          have a2 : lineStartBefore h 0 sp ≤ s0 := by
            rcases hline s0 e0 r1 r2 r3 with heq | hgt
            · omega
            · omega
          have hs : s0 = lineStartBefore h 0 sp := by omega
          subst hs
          rw [hr0, m2 at_ e0 (by omega) hr0]
      · rw [if_neg hge]
        simp only []
        exact hnext (fun e hc => absurd hc hge)

/-- **the strategy is exact**: `FindIndicesAt` returns the reference's leftmost-first span, `none` iff there is no match -/
theorem findIndicesAt_eq_ref (C : Core O Mt IsLit ref h) (L : LineOK O P Mt ref h) {at_ : Nat} (hat : at_ ≤ h.size) :
    findIndicesAt O P h at_ = ref h at_ := by
  have hinit : Inv Mt h at_ at_ := fun s e a _ _ => a
  unfold findIndicesAt
  split
  · refine (C.toRefSpec.none_of hat (no_match_of_none C hinit ?_)).symm
    intro q hq hl
    have := C.lit_lt q hl
    omega
  · exact findLoop_eq C L (by omega) _ _ (Nat.le_refl _) (by omega) (Nat.le_refl _) hinit

/-- **`IsMatch` is exact** -/
theorem isMatch_eq_ref (C : Core O Mt IsLit ref h) (L : LineOK O P Mt ref h) : isMatch O P h = (ref h 0).isSome := by
  unfold isMatch
  rw [findIndicesAt_eq_ref C L (Nat.zero_le _)]

end

/-! ### the verification of a line: general patterns -/

structure Spec (O : Oracles) (P : Params) (Mt : Bytes → Nat → Nat → Prop) (IsLit : Bytes → Nat → Prop)
    (ref : Bytes → Nat → Option (Nat × Nat)) (h : Bytes) : Prop extends Core O Mt IsLit ref h where
  shape_off : P.literalShape = false
  /-- what `SetPrefixLiterals` must guarantee: every match starts with `prefixBytes` -/
  pre_nec : ∀ s e, s ≤ h.size → Mt h s e → Occ h P.prefixBytes s
  anch_some : ∀ s e, s ≤ h.size → O.fwdAnchored h s = some e → Mt h s e
  anch_none : ∀ s, s ≤ h.size → O.fwdAnchored h s = none → ∀ e, ¬ Mt h s e
  anch_ref : ∀ a s e, a ≤ h.size → ref h a = some (s, e) → O.fwdAnchored h s = some e

section
variable {O : Oracles} {P : Params} {Mt : Bytes → Nat → Nat → Prop} {IsLit : Bytes → Nat → Prop}
  {ref : Bytes → Nat → Option (Nat × Nat)} {h : Bytes}

theorem verifyPrefix_false {s : Nat} (hv : verifyPrefix P h s = false) : ¬ Occ h P.prefixBytes s := by
  unfold verifyPrefix at hv
  split at hv
  · cases hv
  · split at hv
    · intro ho; have := ho.1; omega
    · intro ho
      rw [(RevSuffix.occursAt_iff h P.prefixBytes s).mpr ho] at hv
      cases hv

theorem lineOK_of_spec (S : Spec O P Mt IsLit ref h) : LineOK O P Mt ref h := by
  intro sp hsp
  obtain ⟨l1, l2, l3, _⟩ := line_spec h sp (Nat.le_of_lt hsp)
  have hls : lineStartBefore h 0 sp ≤ h.size := by omega
  unfold matchLine
  cases hv : verifyPrefix P h (lineStartBefore h 0 sp) with
  | false =>
    simp only [Bool.not_false, if_true]
    refine ⟨fun e he => (by cases he), ?_⟩
    intro _ e hm
    exact verifyPrefix_false hv (S.pre_nec _ e hls hm)
  | true =>
    simp only [Bool.not_true, Bool.false_eq_true, if_false, S.shape_off]
    refine ⟨?_, fun hn => S.anch_none _ hls hn⟩
    intro e he
    refine ⟨S.anch_some _ e hls he, ?_⟩
    intro a e0 ha hr
    have := S.anch_ref a _ e0 ha hr
    rw [he] at this
    exact (Option.some.inj this).symm

theorem C_find_eq_ref (S : Spec O P Mt IsLit ref h) {at_ : Nat} (hat : at_ ≤ h.size) : findIndicesAt O P h at_ = ref h at_ :=
  findIndicesAt_eq_ref S.toCore (lineOK_of_spec S) hat

end

/-! ### the verification of a line: the literal shape `(?m)^prefix.*suffix` / `(?m)^prefix.+suffix` -/

/-- what `multilineLiteralShape` must guarantee: the matches are exactly the '\n'-free spans that start at a line start with
    `prefixBytes` and end with an occurrence of `suffixBytes` at least `minGap` bytes after the prefix; the wildcard being
    greedy, the reference's match is the longest one at its start -/
structure ShapeSpec (O : Oracles) (P : Params) (Mt : Bytes → Nat → Nat → Prop) (IsLit : Bytes → Nat → Prop)
    (ref : Bytes → Nat → Option (Nat × Nat)) (h : Bytes) : Prop extends Core O Mt IsLit ref h where
  shape_on : P.literalShape = true
  suf_pos : 0 < P.suffixBytes.size
  mt_iff : ∀ s e, s ≤ h.size → (Mt h s e ↔
    (s = 0 ∨ h.at (s - 1) = 10) ∧ Occ h P.prefixBytes s ∧
    (∃ q, s + P.prefixBytes.size + P.minGap ≤ q ∧ Occ h P.suffixBytes q ∧ e = q + P.suffixBytes.size) ∧
    ∀ i, s ≤ i → i < e → h.at i ≠ 10)
  ref_longest : ∀ a s e, a ≤ h.size → ref h a = some (s, e) → ∀ e', Mt h s e' → e' ≤ e

section
variable {O : Oracles} {P : Params} {Mt : Bytes → Nat → Nat → Prop} {IsLit : Bytes → Nat → Prop}
  {ref : Bytes → Nat → Option (Nat × Nat)} {h : Bytes}

theorem verifyPrefix_true {s : Nat} (hs : s ≤ h.size) (hv : verifyPrefix P h s = true) : Occ h P.prefixBytes s := by
  unfold verifyPrefix at hv
  split at hv
  · rename_i h0
    exact ⟨by omega, fun k hk => by omega⟩
  · split at hv
    · cases hv
    · exact (RevSuffix.occursAt_iff h P.prefixBytes s).mp hv

theorem lineOK_of_shape (S : ShapeSpec O P Mt IsLit ref h) : LineOK O P Mt ref h := by
  intro sp hsp
  obtain ⟨l1, l2, l3, l4, l5, l6⟩ := line_spec h sp (Nat.le_of_lt hsp)
  have hls : lineStartBefore h 0 sp ≤ h.size := by omega
  have hL := S.suf_pos
  have hstart : lineStartBefore h 0 sp = 0 ∨ h.at (lineStartBefore h 0 sp - 1) = 10 := by
    rcases l5 with l5 | ⟨_, l5⟩
    · exact Or.inl l5
    · exact Or.inr l5
  -- a match on this line ends inside the line
  have hin : ∀ e, Mt h (lineStartBefore h 0 sp) e → e ≤ lineEndAt h sp := by
    intro e hm
    obtain ⟨_, _, ⟨q, _, q2, q3⟩, m4⟩ := (S.mt_iff _ e hls).mp hm
    rcases l6 with l6 | l6
    · have := q2.1; omega
    · apply Classical.byContradiction
      intro hgt
      exact m4 (lineEndAt h sp) (by omega) (by omega) l6
  unfold matchLine
  cases hv : verifyPrefix P h (lineStartBefore h 0 sp) with
  | false =>
    simp only [Bool.not_false, if_true]
    refine ⟨fun e he => (by cases he), ?_⟩
    intro _ e hm
    exact verifyPrefix_false hv ((S.mt_iff _ e hls).mp hm).2.1
  | true =>
    have hpre := verifyPrefix_true hls hv
    simp only [Bool.not_true, Bool.false_eq_true, if_false, S.shape_on, if_true]
    -- abbreviations
    generalize hfrom : lineStartBefore h 0 sp + P.prefixBytes.size + P.minGap = from_
    by_cases hfl : from_ > lineEndAt h sp
    · rw [if_pos hfl]
      refine ⟨fun e he => (by cases he), ?_⟩
      intro _ e hm
      have := hin e hm
      obtain ⟨_, _, ⟨q, q1, q2, q3⟩, _⟩ := (S.mt_iff _ e hls).mp hm
      omega
    · rw [if_neg hfl]
      unfold lastIndexIn
      cases hfl2 : findLast (fun p => occursAt h P.suffixBytes p && decide (p + P.suffixBytes.size ≤ lineEndAt h sp)) from_
          (lineEndAt h sp + 1 - (from_ + P.suffixBytes.size)) with
      | none =>
        simp only [Option.map_none]
        refine ⟨fun e he => (by cases he), ?_⟩
        intro _ e hm
        have hle := hin e hm
        obtain ⟨_, _, ⟨q, q1, q2, q3⟩, _⟩ := (S.mt_iff _ e hls).mp hm
        have := RevSuffix.findLast_none hfl2 q (by omega) (by omega)
        simp only [Bool.and_eq_false_iff, decide_eq_false_iff_not] at this
        rcases this with this | this
        · rw [(RevSuffix.occursAt_iff _ _ _).mpr q2] at this; cases this
        · omega
      | some q =>
        simp only [Option.map_some]
        obtain ⟨f1, f2, f3, f4⟩ := RevSuffix.findLast_some hfl2
        simp only [Bool.and_eq_true, decide_eq_true_eq] at f3
        have hqo : Occ h P.suffixBytes q := (RevSuffix.occursAt_iff _ _ _).mp f3.1
        have hmatch : Mt h (lineStartBefore h 0 sp) (q + P.suffixBytes.size) := by
          refine (S.mt_iff _ _ hls).mpr ⟨hstart, hpre, ⟨q, by omega, hqo, rfl⟩, ?_⟩
          intro i i1 i2
          exact l4 i i1 (by omega)
        refine ⟨?_, fun hn => by cases hn⟩
        intro e he
        have hee : e = q + P.suffixBytes.size := by
          have := Option.some.inj he
          omega
        subst hee
        refine ⟨hmatch, ?_⟩
        intro a e0 ha hr
        have b1 := S.ref_longest a _ e0 ha hr _ hmatch
        obtain ⟨_, r2, r3⟩ := S.ref_sound a _ e0 ha hr
        have hle := hin e0 r3
        obtain ⟨_, _, ⟨q', q1, q2, q3⟩, _⟩ := (S.mt_iff _ e0 hls).mp r3
        have b2 : q' ≤ q := by
          apply Classical.byContradiction
          intro hgt
          have := f4 q' (by omega) (by omega)
          simp only [Bool.and_eq_false_iff, decide_eq_false_iff_not] at this
          rcases this with this | this
          · rw [(RevSuffix.occursAt_iff _ _ _).mpr q2] at this; cases this
          · omega
        omega

theorem shape_find_eq_ref (S : ShapeSpec O P Mt IsLit ref h) {at_ : Nat} (hat : at_ ≤ h.size) :
    findIndicesAt O P h at_ = ref h at_ :=
  findIndicesAt_eq_ref S.toCore (lineOK_of_shape S) hat

end

/-! ### linearity: no line is verified twice -/

section
variable (O : Oracles) (P : Params) (h : Bytes)

theorem findLoopT_fst (at_ : Nat) : ∀ (fuel pos : Nat) (t : List (Nat × Nat)),
    (findLoopT O P h at_ fuel pos t).1 = findLoop O P h at_ fuel pos := by
  intro fuel
  induction fuel with
  | zero => intro pos t; rfl
  | succ fuel ih =>
    intro pos t
    rw [findLoopT, findLoop]
    cases O.pfFind h pos with
    | none => rfl
    | some sp =>
      simp only []
      cases (if lineStartBefore h 0 sp ≥ at_ then matchLine O P h (lineStartBefore h 0 sp) (lineEndAt h sp) else none) with
      | some e => rfl
      | none =>
        simp only []
        split
        · rfl
        · exact ih _ _

theorem findIndicesAtT_fst (at_ : Nat) : (findIndicesAtT O P h at_).1 = findIndicesAt O P h at_ := by
  unfold findIndicesAtT findIndicesAt
  split
  · rfl
  · exact findLoopT_fst O P h at_ _ _ _

end

section
variable {O : Oracles} {P : Params} {h : Bytes}

theorem findLoopT_chained (hpf : ∀ st p, O.pfFind h st = some p → st ≤ p ∧ p < h.size) {at_ : Nat} :
    ∀ (fuel pos F : Nat) (t : List (Nat × Nat)), F ≤ pos → pos ≤ h.size → (F = at_ ∨ (0 < pos ∧ h.at (pos - 1) = 10)) →
      RevSuffix.Chained at_ t F → RevSuffix.Chained at_ (findLoopT O P h at_ fuel pos t).2 h.size := by
  intro fuel
  induction fuel with
  | zero =>
    intro pos F t h1 h2 _ hc
    rw [findLoopT]
    exact RevSuffix.chained_mono hc (by omega)
  | succ fuel ih =>
    intro pos F t h1 h2 hnl hc
    rw [findLoopT]
    cases hp : O.pfFind h pos with
    | none => exact RevSuffix.chained_mono hc (by omega)
    | some sp =>
      obtain ⟨p1, p2⟩ := hpf pos sp hp
      obtain ⟨l1, l2, l3, l4, l5, l6⟩ := line_spec h sp (Nat.le_of_lt p2)
      simp only []
      -- the '\n' that ends the line, if the loop goes on
      have hnext : ¬ lineEndAt h sp + 1 ≥ h.size → 0 < lineEndAt h sp + 1 ∧ h.at (lineEndAt h sp + 1 - 1) = 10 := by
        intro hlt
        refine ⟨by omega, ?_⟩
        rw [show lineEndAt h sp + 1 - 1 = lineEndAt h sp by omega]
        rcases l6 with l6 | l6
        · omega
        · exact l6
      by_cases hge : lineStartBefore h 0 sp ≥ at_
      · rw [if_pos hge, if_pos hge]
        -- the line starts at or after the frontier
        have hfr : F ≤ lineStartBefore h 0 sp := by
          rcases hnl with hnl | ⟨hnl1, hnl2⟩
          · omega
          · by_cases hlt : lineStartBefore h 0 sp < pos
            · exact absurd hnl2 (l4 (pos - 1) (by omega) (by omega))
            · omega
        have hc' : RevSuffix.Chained at_ (t ++ [(lineStartBefore h 0 sp, lineEndAt h sp)]) (lineEndAt h sp) :=
          RevSuffix.chained_snoc hc hfr (by omega)
        cases matchLine O P h (lineStartBefore h 0 sp) (lineEndAt h sp) with
        | some e => exact RevSuffix.chained_mono hc' (by omega)
        | none =>
          simp only []
          split
          · exact RevSuffix.chained_mono hc' (by omega)
          · rename_i hlt
            exact ih (lineEndAt h sp + 1) (lineEndAt h sp) _ (by omega) (by omega) (Or.inr (hnext hlt)) hc'
      · rw [if_neg hge, if_neg hge]
        simp only []
        split
        · exact RevSuffix.chained_mono hc (by omega)
        · rename_i hlt
          exact ih (lineEndAt h sp + 1) F t (by omega) (by omega) (Or.inr (hnext hlt)) hc

/-- **the lines handed to `matchLine` by one `FindIndicesAt` are consecutive and pairwise disjoint** (`RevSuffix.chained_disjoint`)
    and lie in `[at, |h|]` -/
theorem lines_chained (hpf : ∀ st p, O.pfFind h st = some p → st ≤ p ∧ p < h.size) {at_ : Nat} (hat : at_ ≤ h.size) :
    RevSuffix.Chained at_ (findIndicesAtT O P h at_).2 h.size := by
  unfold findIndicesAtT
  split
  · exact hat
  · exact findLoopT_chained hpf _ at_ at_ [] (Nat.le_refl _) (by omega) (Or.inl rfl) (show at_ ≤ at_ from Nat.le_refl _)

/-- **linearity**: the lines verified by one `FindIndicesAt` have at most `|h| - at` bytes together -/
theorem lines_cost_le (hpf : ∀ st p, O.pfFind h st = some p → st ≤ p ∧ p < h.size) {at_ : Nat} (hat : at_ ≤ h.size) :
    RevSuffix.windowsCost (findIndicesAtT O P h at_).2 ≤ h.size - at_ :=
  (RevSuffix.chained_cost (lines_chained (P := P) hpf hat)).2

end

/-! ### the contracts are satisfiable: brute-force oracles (what the fidelity driver runs the model with) -/

theorem brutePf_some {lits : List Bytes} {anch : Nat → Option Nat} {h : Bytes} {st p : Nat}
    (hf : (bruteOracles lits anch).pfFind h st = some p) :
    st ≤ p ∧ (∃ l, l ∈ lits ∧ Occ h l p) ∧ ∀ q, st ≤ q → q < p → ¬ ∃ l, l ∈ lits ∧ Occ h l q := by
  obtain ⟨h1, _, h3, h4⟩ := RevSuffix.findFirst_some hf
  simp only [List.any_eq_true] at h3
  obtain ⟨l, hl, ho⟩ := h3
  refine ⟨h1, ⟨l, hl, (RevSuffix.occursAt_iff h l p).mp ho⟩, ?_⟩
  rintro q hq1 hq2 ⟨l', hl', ho'⟩
  have := h4 q hq1 hq2
  have ht : (lits.any fun l => occursAt h l q) = true := List.any_eq_true.mpr ⟨l', hl', (RevSuffix.occursAt_iff h l' q).mpr ho'⟩
  rw [ht] at this
  cases this

theorem brutePf_none {lits : List Bytes} {anch : Nat → Option Nat} {h : Bytes} {st : Nat}
    (hf : (bruteOracles lits anch).pfFind h st = none) : ∀ q, st ≤ q → ¬ ∃ l, l ∈ lits ∧ Occ h l q := by
  rintro q hq ⟨l, hl, ho⟩
  have := RevSuffix.findFirst_none hf q hq (by have := ho.1; omega)
  have ht : (lits.any fun l => occursAt h l q) = true := List.any_eq_true.mpr ⟨l, hl, (RevSuffix.occursAt_iff h l q).mpr ho⟩
  rw [ht] at this
  cases this

theorem bruteOracles_spec {lits : List Bytes} {mt : Nat → Nat → Bool} {rf : Nat → Option (Nat × Nat)} {anch : Nat → Option Nat}
    {P : Params} {h : Bytes} (hL : ∀ l, l ∈ lits → 0 < l.size) (hsh : P.literalShape = false)
    (R : RefSpec (fun _ s e => mt s e = true) (fun _ a => rf a) h)
    (hls : ∀ s e, s ≤ h.size → mt s e = true → s = 0 ∨ h.at (s - 1) = 10)
    (hnl : ∀ s e, s ≤ h.size → mt s e = true → ∀ i, s ≤ i → i < e → h.at i ≠ 10)
    (hlit : ∀ s e, s ≤ h.size → mt s e = true → ∃ p, s ≤ p ∧ p < e ∧ ∃ l, l ∈ lits ∧ Occ h l p)
    (hpre : ∀ s e, s ≤ h.size → mt s e = true → Occ h P.prefixBytes s)
    (ha1 : ∀ s e, s ≤ h.size → anch s = some e → mt s e = true)
    (ha2 : ∀ s, s ≤ h.size → anch s = none → ∀ e, mt s e = false)
    (ha3 : ∀ a s e, a ≤ h.size → rf a = some (s, e) → anch s = some e) :
    Spec (bruteOracles lits anch) P (fun _ s e => mt s e = true) (fun h' p => ∃ l, l ∈ lits ∧ Occ h' l p) (fun _ a => rf a) h where
  toRefSpec := R
  line_start := hls
  no_nl := hnl
  lit_in := hlit
  lit_lt := by
    rintro p ⟨l, hl, ho⟩
    have := ho.1
    have := hL l hl
    omega
  pf_some := by
    intro st p _ hf
    obtain ⟨f1, ⟨l, hl, ho⟩, f3⟩ := brutePf_some hf
    have := ho.1
    have := hL l hl
    exact ⟨f1, by omega, f3⟩
  pf_none := fun st _ hf => brutePf_none hf
  shape_off := hsh
  pre_nec := hpre
  anch_some := ha1
  anch_none := fun s hs hr e he => by rw [ha2 s hs hr e] at he; cases he
  anch_ref := ha3

/-- non-vacuity: the contracts hold for `(?m)^.*z` on "az" (one match, [0,2)) -/
example : Spec (bruteOracles [#[122]] (fun a => if a = 0 then some 2 else none)) { suffixBytes := #[122] }
    (fun _ s e => (s == 0 && e == 2) = true) (fun h' p => ∃ l, l ∈ [#[122]] ∧ Occ h' l p)
    (fun _ a => if a = 0 then some (0, 2) else none) #[97, 122] := by
  refine bruteOracles_spec (P := { suffixBytes := #[122] }) ?_ rfl ⟨?_, ?_, ?_⟩ ?_ ?_ ?_ ?_ ?_ ?_ ?_
  · intro l hl
    simp only [List.mem_singleton] at hl
    subst hl; decide
  · intro a s e _ hr
    split at hr
    · cases hr; subst_vars; exact ⟨Nat.le_refl _, by decide, by decide⟩
    · cases hr
  · intro a s e _ hr s' e' h1 h2
    split at hr
    · cases hr
      simp only [Bool.and_eq_true, beq_iff_eq] at h2
      omega
    · cases hr
  · intro a _ hr s e h1 _ h3
    split at hr
    · cases hr
    · simp only [Bool.and_eq_true, beq_iff_eq] at h3
      omega
  · intro s e _ hm
    simp only [Bool.and_eq_true, beq_iff_eq] at hm
    exact Or.inl hm.1
  · intro s e _ hm i i1 i2
    simp only [Bool.and_eq_true, beq_iff_eq] at hm
    obtain ⟨rfl, rfl⟩ := hm
    have : i = 0 ∨ i = 1 := by omega
    rcases this with rfl | rfl <;> decide
  · intro s e _ hm
    simp only [Bool.and_eq_true, beq_iff_eq] at hm
    obtain ⟨rfl, rfl⟩ := hm
    exact ⟨1, by decide, by decide, #[122], by simp, (RevSuffix.occursAt_iff _ _ _).mp (by decide)⟩
  · intro s e _ hm
    simp only [Bool.and_eq_true, beq_iff_eq] at hm
    obtain ⟨rfl, rfl⟩ := hm
    exact (RevSuffix.occursAt_iff _ _ _).mp (by decide)
  · intro s e _ ha
    split at ha
    · cases ha; subst_vars; rfl
    · cases ha
  · intro s _ ha e
    split at ha
    · cases ha
    · rename_i hs
      simp only [Bool.and_eq_false_iff, beq_eq_false_iff_ne]
      exact Or.inl hs
  · intro a s e _ hr
    split at hr
    · cases hr; rfl
    · cases hr

/-! ### why the hypotheses are needed: counter-models (brute-force oracles: literal set and anchored-end table)

* `no_nl` (the pattern cannot match '\n'): `(?m)^[^x]+\.t` on "a\nb.t" matches [0,5) across the newline; the per-line search
  reports [2,5) (the comment in `isSafeForMultilineReverseSuffix`).
* `line_start` (the pattern begins with `(?m)^`): `a.*z` on "xaz" matches [1,3); only line starts are tried.
* `pre_nec` / `prefixBytes`: `(?m)^.*z` on "az" told every match starts with "q": the line is rejected.
* `ShapeSpec` / `literalShape`: `(?m)^a[0-9]*z` on "axz" (no match) told to be `(?m)^a.*z`: byte comparisons accept the line.
* `lit_in` (every match contains a prefilter candidate): a match of "ab" without the suffix literal `z` is lost. -/

example :
    findIndicesAt (bruteOracles [#[46, 116]] (fun a => if a = 0 ∨ a = 2 then some 5 else none)) { suffixBytes := #[46, 116] }
      #[97, 10, 98, 46, 116] 0 = some (2, 5) := by decide

example :
    findIndicesAt (bruteOracles [#[122]] (fun a => if a = 1 then some 3 else none)) { suffixBytes := #[122] } #[120, 97, 122] 0 = none := by
  decide

example :
    let O := bruteOracles [#[122]] (fun a => if a = 0 then some 2 else none)
    findIndicesAt O { suffixBytes := #[122], prefixBytes := #[113] } #[97, 122] 0 = none ∧
    findIndicesAt O { suffixBytes := #[122] } #[97, 122] 0 = some (0, 2) := by decide

example :
    let O := bruteOracles [#[122]] (fun _ => none)
    findIndicesAt O { suffixBytes := #[122], prefixBytes := #[97], literalShape := true } #[97, 120, 122] 0 = some (0, 3) ∧
    findIndicesAt O { suffixBytes := #[122], prefixBytes := #[97] } #[97, 120, 122] 0 = none := by decide

example :
    findIndicesAt (bruteOracles [#[122]] (fun a => if a = 0 then some 2 else none)) { suffixBytes := #[122] } #[97, 98] 0 = none := by decide

/-- the literal shape with `minGap = 1` (`.+`): the suffix must not touch the prefix — "/.php" does not match `(?m)^/.+\.php`,
    "/a.php.php" matches up to the LAST suffix; lines before `at` are skipped -/
example :
    let O := bruteOracles [#[46, 112]] (fun _ => none)
    let P : Params := { suffixBytes := #[46, 112], prefixBytes := #[47], literalShape := true, minGap := 1 }
    findIndicesAt O P #[47, 46, 112] 0 = none ∧
    findIndicesAt O P #[47, 97, 46, 112, 46, 112] 0 = some (0, 6) ∧
    findIndicesAt O P #[47, 97, 46, 112, 10, 47, 98, 46, 112] 1 = some (5, 9) ∧
    (findIndicesAtT O P #[47, 46, 112, 10, 47, 98, 46, 112] 0).2 = [(0, 3), (4, 8)] := by decide

end Cx.MultilineRevSuffix
