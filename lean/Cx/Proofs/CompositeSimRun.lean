import Cx.Model.CompositeSim
/-
  Cx.Proofs.CompositeSimRun — the ordered-list simulation (`simLoop`) against the priority semantics of the tables.

  The tables of a `CompositeSim` are read as a priority automaton: a configuration `id` waits for a byte of its class and
  then enters the closure list `nxOf id` (priority order), completing the pattern with the LOWEST priority when
  `nmOf id`.  `futW` / `futL` give the end of the first (highest-priority) complete walk.  Under `TablesOK` (closure
  lists have ids in range and are tail-determined: what follows an id in a closure list, and the `matches` flag, depend
  on the id only) the simulation returns the value of the leftmost start that has a walk (`simLoop_spec`).
-/
namespace Cx.CompSim
open Cx Cx.Fast CompositeSim

/-! ## semantics of the tables -/

/-- first success among the configurations of a closure list, then (lowest priority) the `matches` flag -/
def futL (W : Nat → Option Nat) (m : Bool) (p : Nat) (X : List Nat) : Option Nat :=
  (X.findSome? W).or (if m then some p else none)

/-- the end of the highest-priority complete walk of configuration `id` waiting at position `p` (fuel `≥ n - p`) -/
def futW (s : CompositeSim) (h : Bytes) : Nat → Nat → Nat → Option Nat
  | 0, _, _ => none
  | f+1, id, p =>
    if p < h.size ∧ s.clsOf id (h.at p) = true then futL (fun x => futW s h f x (p + 1)) (s.nmOf id) (p + 1) (s.nxOf id)
    else none

/-- value of an ordered thread list: the span of the first thread that has a complete walk -/
def val (s : CompositeSim) (h : Bytes) (f p : Nat) (l : List Thread) : Option (Nat × Nat) :=
  l.findSome? fun t => (futW s h f t.cfg p).map fun e => (t.start, e)

/-- value of a new attempt at `p` -/
def startVal (s : CompositeSim) (h : Bytes) (p : Nat) : Option Nat :=
  futL (fun x => futW s h (h.size - p) x p) s.startMatches p s.startClosure

/-- leftmost start in `p, p+1, …` (fuel `n + 1 - p`) with a complete walk, with the end of its best walk -/
def later (s : CompositeSim) (h : Bytes) : Nat → Nat → Option (Nat × Nat)
  | 0, _ => none
  | k+1, p =>
    match startVal s h p with
    | some e => some (p, e)
    | none => later s h k (p + 1)

theorem futW_fuel (s : CompositeSim) (h : Bytes) : ∀ (f id p : Nat), h.size - p ≤ f → futW s h f id p = futW s h (h.size - p) id p := by
  intro f
  induction f with
  | zero => intro id p hf; rw [show h.size - p = 0 by omega]
  | succ f ih =>
    intro id p hf
    by_cases hp : p < h.size
    · rw [show h.size - p = (h.size - (p + 1)) + 1 by omega, futW, futW]
      have : (fun x => futW s h f x (p + 1)) = fun x => futW s h (h.size - (p + 1)) x (p + 1) := by
        funext x; exact ih x (p + 1) (by omega)
      rw [this]
    · rw [show h.size - p = 0 by omega, futW, futW, if_neg (fun hc => hp hc.1)]

theorem futW_ge (s : CompositeSim) (h : Bytes) (f id p : Nat) (hp : h.size ≤ p) : futW s h f id p = none := by
  cases f with
  | zero => rfl
  | succ f => rw [futW, if_neg (fun hc => by omega)]

theorem val_fuel (s : CompositeSim) (h : Bytes) (f p : Nat) (l : List Thread) (hf : h.size - p ≤ f) :
    val s h f p l = val s h (h.size - p) p l := by
  unfold val
  congr 1
  funext t
  rw [futW_fuel s h f t.cfg p hf]

theorem val_ge (s : CompositeSim) (h : Bytes) (f p : Nat) (l : List Thread) (hp : h.size ≤ p) : val s h f p l = none := by
  unfold val
  rw [List.findSome?_eq_none_iff]
  intro t _
  rw [futW_ge s h f t.cfg p hp]; rfl

theorem val_nil (s : CompositeSim) (h : Bytes) (f p : Nat) : val s h f p [] = none := rfl

theorem val_append (s : CompositeSim) (h : Bytes) (f p : Nat) (l1 l2 : List Thread) :
    val s h f p (l1 ++ l2) = (val s h f p l1).or (val s h f p l2) := by
  unfold val; rw [List.findSome?_append]

/-- the threads `ids` of one attempt -/
def mkThreads (start : Nat) (ids : List Nat) : List Thread := ids.map fun id => { cfg := id, start := start }

theorem mkThreads_cfg (start : Nat) (ids : List Nat) : (mkThreads start ids).map (·.cfg) = ids := by
  unfold mkThreads; rw [List.map_map]; exact List.map_id ids

theorem val_mkThreads (s : CompositeSim) (h : Bytes) (f p start : Nat) (ids : List Nat) :
    val s h f p (mkThreads start ids) = (ids.findSome? fun x => futW s h f x p).map fun e => (start, e) := by
  unfold val mkThreads
  induction ids with
  | nil => rfl
  | cons a as ih =>
    rw [List.map_cons, List.findSome?_cons, List.findSome?_cons]
    cases futW s h f a p with
    | some e => rfl
    | none => exact ih

/-- threads whose configurations all occur in `l` add nothing to the value of `l` -/
theorem val_none_of_subset (s : CompositeSim) (h : Bytes) (f p : Nat) (l l2 : List Thread)
    (hsub : ∀ t ∈ l2, t.cfg ∈ l.map (·.cfg)) (hn : val s h f p l = none) : val s h f p l2 = none := by
  unfold val at hn ⊢
  rw [List.findSome?_eq_none_iff] at hn ⊢
  intro t ht
  obtain ⟨t', ht', hc⟩ := List.mem_map.mp (hsub t ht)
  have := hn t' ht'
  rw [hc] at this
  cases hw : futW s h f t.cfg p with
  | none => rfl
  | some e => rw [hw] at this; exact nomatch this

theorem futW_none_of_mem (s : CompositeSim) (h : Bytes) (f p : Nat) (l : List Thread) (id : Nat)
    (hmem : id ∈ l.map (·.cfg)) (hn : val s h f p l = none) : futW s h f id p = none := by
  unfold val at hn
  rw [List.findSome?_eq_none_iff] at hn
  obtain ⟨t', ht', hc⟩ := List.mem_map.mp hmem
  have := hn t' ht'
  rw [hc] at this
  cases hw : futW s h f id p with
  | none => rfl
  | some e => rw [hw] at this; exact nomatch this

/-! ## the hypotheses on the tables -/

/-- the closure lists of the tables: the start closure and the `next` closure of every configuration -/
def IsClo (s : CompositeSim) (X : List Nat) (m : Bool) : Prop :=
  (X = s.startClosure ∧ m = s.startMatches) ∨ ∃ id, id < s.configs.size ∧ X = s.nxOf id ∧ m = s.nmOf id

structure TablesOK (s : CompositeSim) : Prop where
  /-- ids in range -/
  range : ∀ X m, IsClo s X m → ∀ x ∈ X, x < s.configs.size
  /-- tail-determinacy: what follows an id in a closure list (and the `matches` flag) depends on the id only -/
  td : ∀ X1 m1 X2 m2, IsClo s X1 m1 → IsClo s X2 m2 → ∀ A1 a B1 A2 B2, X1 = A1 ++ a :: B1 → X2 = A2 ++ a :: B2 →
    B1 = B2 ∧ m1 = m2
  /-- the bytes a non-empty match can begin with -/
  startBytes : ∀ b, s.startBytes.mem b = s.startClosure.any fun id => s.clsOf id b
  startNonempty : s.startClosure ≠ []

theorem nodup_of_tail_det : ∀ (X : List Nat),
    (∀ A a B A' B', X = A ++ a :: B → X = A' ++ a :: B' → B = B') → X.Nodup := by
  intro X
  induction X with
  | nil => intro _; exact List.nodup_nil
  | cons x xs ih =>
    intro hd
    rw [List.nodup_cons]
    constructor
    · intro hx
      obtain ⟨A', B', hs⟩ := List.append_of_mem hx
      have := hd [] x xs (x :: A') B' rfl (by rw [hs]; rfl)
      have hl := congrArg List.length hs
      rw [this, List.length_append, List.length_cons] at hl
      omega
    · apply ih
      intro A a B A' B' h1 h2
      exact hd (x :: A) a B (x :: A') B' (by rw [h1]; rfl) (by rw [h2]; rfl)

theorem TablesOK.nodup {s : CompositeSim} (ok : TablesOK s) (X : List Nat) (m : Bool) (hc : IsClo s X m) : X.Nodup :=
  nodup_of_tail_det X fun A a B A' B' h1 h2 => (ok.td X m X m hc hc A a B A' B' h1 h2).1

/-! ## the mark array -/

theorem getD_set (m : Array Bool) (i j : Nat) (hi : i < m.size) :
    (m.setIfInBounds i true).getD j false = if i = j then true else m.getD j false := by
  rw [Array.getD_eq_getD_getElem?, Array.getElem?_setIfInBounds, Array.getD_eq_getD_getElem?]
  by_cases hij : i = j
  · subst hij; rw [if_pos rfl, if_pos rfl, if_pos hi]; rfl
  · rw [if_neg hij, if_neg hij]

/-- `mark[id] == gen` iff `id` is in the list that is being built; the list has no configuration twice -/
structure Marks (s : CompositeSim) (l : List Thread) (m : Array Bool) : Prop where
  size : m.size = s.configs.size
  iff : ∀ id, m.getD id false = true ↔ id ∈ l.map (·.cfg)
  lt : ∀ id ∈ l.map (·.cfg), id < s.configs.size
  nodup : (l.map (·.cfg)).Nodup

theorem marks_fresh (s : CompositeSim) : Marks s [] s.freshMark := by
  refine ⟨by simp [CompositeSim.freshMark], fun id => ?_, (fun id hid => nomatch hid), List.nodup_nil⟩
  unfold CompositeSim.freshMark
  rw [Array.getD_eq_getD_getElem?]
  by_cases h : id < s.configs.size
  · simp [h]
  · simp [h]

theorem addClosure_spec (s : CompositeSim) (start : Nat) : ∀ (X : List Nat) (l : List Thread) (m : Array Bool),
    Marks s l m → (∀ x ∈ X, x < s.configs.size) →
    ∃ A R, X = A ++ R ∧ (addClosure start X l m).1 = l ++ mkThreads start A ∧
      Marks s (addClosure start X l m).1 (addClosure start X l m).2.1 ∧
      (((addClosure start X l m).2.2 = false ∧ R = []) ∨
       ((addClosure start X l m).2.2 = true ∧ ∃ a B, R = a :: B ∧ a ∈ ((addClosure start X l m).1).map (·.cfg))) := by
  intro X
  induction X with
  | nil =>
    intro l m hm _
    exact ⟨[], [], rfl, by simp [addClosure, mkThreads], hm, Or.inl ⟨rfl, rfl⟩⟩
  | cons x xs ih =>
    intro l m hm hlt
    rw [addClosure]
    by_cases hx : m.getD x false = true
    · rw [if_pos hx]
      exact ⟨[], x :: xs, rfl, by simp [mkThreads], hm, Or.inr ⟨rfl, x, xs, rfl, (hm.iff x).mp hx⟩⟩
    · rw [if_neg hx]
      have hxlt := hlt x List.mem_cons_self
      have hm' : Marks s (l ++ [{ cfg := x, start := start }]) (m.setIfInBounds x true) := by
        refine ⟨by rw [Array.size_setIfInBounds]; exact hm.size, fun id => ?_, fun id hid => ?_, ?_⟩
        · rw [getD_set m x id (by rw [hm.size]; exact hxlt), List.map_append, List.mem_append]
          by_cases hid : x = id
          · subst hid; simp
          · rw [if_neg hid, hm.iff id]
            simp only [List.map_cons, List.map_nil, List.mem_singleton]
            constructor
            · intro h1; exact Or.inl h1
            · rintro (h1 | h1)
              · exact h1
              · exact absurd h1.symm hid
        · rw [List.map_append, List.mem_append] at hid
          rcases hid with hid | hid
          · exact hm.lt id hid
          · simp only [List.map_cons, List.map_nil, List.mem_singleton] at hid
            rw [hid]; exact hxlt
        · rw [List.map_append, List.nodup_append]
          refine ⟨hm.nodup, by simp, fun a ha b hb => ?_⟩
          simp only [List.map_cons, List.map_nil, List.mem_singleton] at hb
          subst hb
          intro hab
          subst hab
          exact hx ((hm.iff a).mpr ha)
      obtain ⟨A, R, hX, h1, h2, h3⟩ := ih (l ++ [{ cfg := x, start := start }]) (m.setIfInBounds x true) hm'
        (fun y hy => hlt y (List.mem_cons_of_mem _ hy))
      refine ⟨x :: A, R, by rw [hX]; rfl, ?_, h2, h3⟩
      rw [h1, List.append_assoc]
      rfl

/-! ## closedness of the list that is being built -/

/-- every closure list that contains a listed configuration has its tail listed too, and does not reach the end of
    the pattern (else the simulation would have recorded a match and stopped adding) -/
def Closed (s : CompositeSim) (l : List Thread) : Prop :=
  ∀ X m, IsClo s X m → ∀ A a B, X = A ++ a :: B → a ∈ l.map (·.cfg) → (∀ b ∈ B, b ∈ l.map (·.cfg)) ∧ m = false

theorem closed_nil (s : CompositeSim) : Closed s [] := fun _ _ _ _ _ _ _ ha => nomatch ha

theorem map_cfg_append (l : List Thread) (start : Nat) (A : List Nat) :
    (l ++ mkThreads start A).map (·.cfg) = l.map (·.cfg) ++ A := by
  rw [List.map_append, mkThreads_cfg]

theorem closed_extend {s : CompositeSim} (ok : TablesOK s) (X : List Nat) (m : Bool) (hc : IsClo s X m)
    (l : List Thread) (hl : Closed s l) (A R : List Nat) (hX : X = A ++ R) (start : Nat)
    (hR : ∀ r ∈ R, r ∈ (l ++ mkThreads start A).map (·.cfg)) (hm : m = false) :
    Closed s (l ++ mkThreads start A) := by
  intro X' m' hc' A' a' B' hX' ha'
  rw [map_cfg_append, List.mem_append] at ha'
  rcases ha' with ha' | ha'
  · obtain ⟨h1, h2⟩ := hl X' m' hc' A' a' B' hX' ha'
    refine ⟨fun b hb => ?_, h2⟩
    rw [map_cfg_append, List.mem_append]
    exact Or.inl (h1 b hb)
  · obtain ⟨A1, A2, hA⟩ := List.append_of_mem ha'
    have hX2 : X = A1 ++ a' :: (A2 ++ R) := by rw [hX, hA]; simp
    obtain ⟨hB, hmm⟩ := ok.td X' m' X m hc' hc A' a' B' A1 (A2 ++ R) hX' hX2
    refine ⟨fun b hb => ?_, by rw [hmm, hm]⟩
    rw [hB, List.mem_append] at hb
    rcases hb with hb | hb
    · rw [map_cfg_append, List.mem_append]
      right; rw [hA]; simp [hb]
    · exact hR b hb

/-- the loop left a closure list at a marked id: the id and everything behind it is listed already, in the OLD list -/
theorem closed_hit {s : CompositeSim} (ok : TablesOK s) (X : List Nat) (m : Bool) (hc : IsClo s X m)
    (l : List Thread) (hl : Closed s l) (A : List Nat) (a : Nat) (B : List Nat) (hX : X = A ++ a :: B) (start : Nat)
    (ha : a ∈ (l ++ mkThreads start A).map (·.cfg)) :
    (∀ b ∈ a :: B, b ∈ l.map (·.cfg)) ∧ m = false := by
  have hnd := ok.nodup X m hc
  have hal : a ∈ l.map (·.cfg) := by
    rw [map_cfg_append, List.mem_append] at ha
    rcases ha with ha | ha
    · exact ha
    · exfalso
      rw [hX, List.nodup_append] at hnd
      exact hnd.2.2 a ha a List.mem_cons_self rfl
  obtain ⟨h1, h2⟩ := hl X m hc A a B hX hal
  refine ⟨fun b hb => ?_, h2⟩
  rcases List.mem_cons.mp hb with rfl | hb
  · exact hal
  · exact h1 b hb

/-! ## one step of the simulation -/

theorem val_cons (s : CompositeSim) (h : Bytes) (f p : Nat) (t : Thread) (ts : List Thread) :
    val s h f p (t :: ts) = ((futW s h f t.cfg p).map fun e => (t.start, e)).or (val s h f p ts) := by
  unfold val
  rw [List.findSome?_cons]
  cases futW s h f t.cfg p <;> rfl

theorem findSome_none_of_subset (s : CompositeSim) (h : Bytes) (f p : Nat) (l : List Thread) (B : List Nat)
    (hsub : ∀ b ∈ B, b ∈ l.map (·.cfg)) (hn : val s h f p l = none) :
    B.findSome? (fun x => futW s h f x p) = none := by
  rw [List.findSome?_eq_none_iff]
  intro b hb
  exact futW_none_of_mem s h f p l b (hsub b hb) hn

theorem stepLoop_spec {s : CompositeSim} (ok : TablesOK s) (h : Bytes) (f p : Nat) (hp : p < h.size) :
    ∀ (ts next : List Thread) (m : Array Bool), Marks s next m → Closed s next → (∀ t ∈ ts, t.cfg < s.configs.size) →
      (val s h f (p + 1) next).or (val s h (f + 1) p ts) =
          (val s h f (p + 1) (stepLoop s (h.at p) (p + 1) ts next m).1).or (stepLoop s (h.at p) (p + 1) ts next m).2.2 ∧
        Marks s (stepLoop s (h.at p) (p + 1) ts next m).1 (stepLoop s (h.at p) (p + 1) ts next m).2.1 ∧
        ((stepLoop s (h.at p) (p + 1) ts next m).2.2 = none → Closed s (stepLoop s (h.at p) (p + 1) ts next m).1) := by
  intro ts
  induction ts with
  | nil =>
    intro next m hm hcl _
    simp only [stepLoop, val_nil, Option.or_none]
    exact ⟨trivial, hm, fun _ => hcl⟩
  | cons t ts ih =>
    intro next m hm hcl hlt
    have hlt' : ∀ t' ∈ ts, t'.cfg < s.configs.size := fun t' ht' => hlt t' (List.mem_cons_of_mem _ ht')
    have htlt := hlt t List.mem_cons_self
    rw [stepLoop, val_cons, futW]
    by_cases hcls : s.clsOf t.cfg (h.at p) = true
    · rw [if_pos ⟨hp, hcls⟩]
      simp only [hcls, Bool.not_true, Bool.false_eq_true, if_false]
      have hclo : IsClo s (s.nxOf t.cfg) (s.nmOf t.cfg) := Or.inr ⟨t.cfg, htlt, rfl, rfl⟩
      obtain ⟨A, R, hX, h1, h2, h3⟩ := addClosure_spec s t.start (s.nxOf t.cfg) next m hm (ok.range _ _ hclo)
      generalize addClosure t.start (s.nxOf t.cfg) next m = r at h1 h2 h3
      obtain ⟨r1, r2, r3⟩ := r
      simp only at h1 h2 h3
      subst h1
      rcases h3 with ⟨h3, hR⟩ | ⟨h3, a, B, hR, ha⟩
      · -- the whole closure was added
        subst hR
        rw [List.append_nil] at hX
        simp only [h3, Bool.false_eq_true, if_false]
        have hval : (futL (fun x => futW s h f x (p + 1)) (s.nmOf t.cfg) (p + 1) (s.nxOf t.cfg)).map (fun e => (t.start, e)) =
            (val s h f (p + 1) (mkThreads t.start A)).or (if s.nmOf t.cfg = true then some (t.start, p + 1) else none) := by
          rw [val_mkThreads, futL, hX]
          cases A.findSome? (fun x => futW s h f x (p + 1)) with
          | some e => rfl
          | none => cases s.nmOf t.cfg <;> rfl
        rw [hval]
        by_cases hnm : s.nmOf t.cfg = true
        · simp only [hnm, if_true]
          refine ⟨?_, h2, fun hc => nomatch hc⟩
          rw [val_append, Option.or_assoc, Option.or_assoc]
          congr 1
        · simp only [hnm, Bool.false_eq_true, if_false, Option.or_none]
          have hcl' : Closed s (next ++ mkThreads t.start A) :=
            closed_extend ok _ _ hclo next hcl A [] (by rw [List.append_nil]; exact hX) t.start
              (fun r hr => nomatch hr) (by simpa using hnm)
          obtain ⟨e1, e2, e3⟩ := ih (next ++ mkThreads t.start A) r2 h2 hcl' hlt'
          refine ⟨?_, e2, e3⟩
          rw [← e1, val_append, Option.or_assoc]
      · -- a marked id: `continue threads`
        subst hR
        simp only [h3, if_true]
        obtain ⟨hsub, hnm⟩ := closed_hit ok _ _ hclo next hcl A a B hX t.start ha
        have hcl' : Closed s (next ++ mkThreads t.start A) :=
          closed_extend ok _ _ hclo next hcl A (a :: B) hX t.start
            (fun r hr => by rw [map_cfg_append, List.mem_append]; exact Or.inl (hsub r hr)) hnm
        obtain ⟨e1, e2, e3⟩ := ih (next ++ mkThreads t.start A) r2 h2 hcl' hlt'
        refine ⟨?_, e2, e3⟩
        rw [← e1, val_append, Option.or_assoc]
        -- the value of `t` given that `next` has none
        cases hvn : val s h f (p + 1) next with
        | some v => rfl
        | none =>
          rw [Option.none_or, Option.none_or]
          congr 1
          rw [val_mkThreads, futL, hX, List.findSome?_append, hnm]
          have : (a :: B).findSome? (fun x => futW s h f x (p + 1)) = none :=
            findSome_none_of_subset s h f (p + 1) next (a :: B) hsub hvn
          rw [this]
          simp
    · rw [if_neg (fun hc => hcls hc.2)]
      simp only [hcls, Bool.not_false, if_true, Option.map_none, Option.none_or]
      exact ih next m hm hcl hlt'

/-! ## a new attempt -/

theorem startVal_map (s : CompositeSim) (h : Bytes) (p : Nat) :
    (startVal s h p).map (fun e => (p, e)) =
      (val s h (h.size - p) p (mkThreads p s.startClosure)).or (if s.startMatches = true then some (p, p) else none) := by
  rw [val_mkThreads, startVal, futL]
  cases s.startClosure.findSome? (fun x => futW s h (h.size - p) x p) with
  | some e => rfl
  | none => cases s.startMatches <;> rfl

theorem newAttempt_spec {s : CompositeSim} (ok : TablesOK s) (h : Bytes) (p : Nat) (cur : List Thread) (m : Array Bool)
    (hm : Marks s cur m) (hcl : Closed s cur) :
    (val s h (h.size - p) p (addClosure p s.startClosure cur m).1).or
        (if (s.startMatches && !(addClosure p s.startClosure cur m).2.2) = true then some (p, p) else none) =
      (val s h (h.size - p) p cur).or ((startVal s h p).map fun e => (p, e)) ∧
    Marks s (addClosure p s.startClosure cur m).1 (addClosure p s.startClosure cur m).2.1 ∧
    ((s.startMatches && !(addClosure p s.startClosure cur m).2.2) = false → Closed s (addClosure p s.startClosure cur m).1) ∧
    (addClosure p s.startClosure cur m).1 ≠ [] := by
  have hclo : IsClo s s.startClosure s.startMatches := Or.inl ⟨rfl, rfl⟩
  obtain ⟨A, R, hX, h1, h2, h3⟩ := addClosure_spec s p s.startClosure cur m hm (ok.range _ _ hclo)
  generalize addClosure p s.startClosure cur m = r at h1 h2 h3
  obtain ⟨r1, r2, r3⟩ := r
  simp only at h1 h2 h3 ⊢
  subst h1
  rw [startVal_map]
  rcases h3 with ⟨h3, hR⟩ | ⟨h3, a, B, hR, ha⟩
  · subst hR
    rw [List.append_nil] at hX
    subst h3
    refine ⟨?_, h2, fun hf => ?_, ?_⟩
    · rw [val_append, Option.or_assoc, hX]
      simp
    · have hsm : s.startMatches = false := by simpa using hf
      exact closed_extend ok _ _ hclo cur hcl A [] (by rw [List.append_nil]; exact hX) p (fun r hr => nomatch hr) hsm
    · have := ok.startNonempty
      rw [hX] at this
      cases A with
      | nil => exact absurd rfl this
      | cons a A => simp [mkThreads]
  · subst hR
    subst h3
    obtain ⟨hsub, hnm⟩ := closed_hit ok _ _ hclo cur hcl A a B hX p ha
    refine ⟨?_, h2, fun _ => ?_, ?_⟩
    · rw [hnm, val_append]
      simp only [Bool.false_and, Bool.false_eq_true, if_false, Option.or_none]
      cases hvn : val s h (h.size - p) p cur with
      | some v => rfl
      | none =>
        rw [Option.none_or, Option.none_or, val_mkThreads, val_mkThreads, hX, List.findSome?_append]
        have : (a :: B).findSome? (fun x => futW s h (h.size - p) x p) = none :=
          findSome_none_of_subset s h (h.size - p) p cur (a :: B) hsub hvn
        rw [this, Option.or_none]
    · exact closed_extend ok _ _ hclo cur hcl A (a :: B) hX p
        (fun r hr => by rw [map_cfg_append, List.mem_append]; exact Or.inl (hsub r hr)) hnm
    · have := hsub a List.mem_cons_self
      cases cur with
      | nil => exact nomatch this
      | cons c cs => simp

/-! ## skipping to a start byte; `later` -/

theorem skip_spec (s : CompositeSim) (h : Bytes) : ∀ (k pos : Nat), pos + k = h.size →
    pos ≤ s.skip h k pos ∧ s.skip h k pos ≤ h.size ∧
    (∀ q, pos ≤ q → q < s.skip h k pos → s.startBytes.mem (h.at q) = false) ∧
    (s.skip h k pos < h.size → s.startBytes.mem (h.at (s.skip h k pos)) = true) := by
  intro k
  induction k with
  | zero => intro pos hk; rw [skip]; exact ⟨Nat.le_refl _, by omega, fun q h1 h2 => by omega, fun h1 => by omega⟩
  | succ k ih =>
    intro pos hk
    rw [skip]
    by_cases hb : s.startBytes.mem (h.at pos) = true
    · simp only [hb, Bool.not_true, Bool.false_eq_true, if_false]
      exact ⟨Nat.le_refl _, by omega, fun q h1 h2 => by omega, fun _ => trivial⟩
    · have hb' : s.startBytes.mem (h.at pos) = false := by simpa using hb
      simp only [hb', Bool.not_false, if_true]
      obtain ⟨i1, i2, i3, i4⟩ := ih (pos + 1) (by omega)
      refine ⟨by omega, i2, fun q h1 h2 => ?_, i4⟩
      by_cases hq : q = pos
      · subst hq; exact hb'
      · exact i3 q (by omega) h2

theorem later_succ (s : CompositeSim) (h : Bytes) (k p : Nat) :
    later s h (k + 1) p = ((startVal s h p).map fun e => (p, e)).or (later s h k (p + 1)) := by
  rw [later]
  cases startVal s h p <;> rfl

theorem startVal_none_of_noStartByte {s : CompositeSim} (ok : TablesOK s) (h : Bytes) (p : Nat)
    (hsm : s.startMatches = false) (hb : h.size ≤ p ∨ s.startBytes.mem (h.at p) = false) : startVal s h p = none := by
  unfold startVal futL
  rw [hsm]
  simp only [Bool.false_eq_true, if_false, Option.or_none]
  rw [List.findSome?_eq_none_iff]
  intro x hx
  rcases hb with hb | hb
  · exact futW_ge s h _ x p hb
  · by_cases hp : p < h.size
    · rw [show h.size - p = (h.size - p - 1) + 1 by omega, futW]
      rw [ok.startBytes, List.any_eq_false] at hb
      rw [if_neg (fun hc => hb x hx hc.2)]
    · exact futW_ge s h _ x p (by omega)

theorem later_skip {s : CompositeSim} (h : Bytes) : ∀ (d p : Nat), p + d ≤ h.size →
    (∀ q, p ≤ q → q < p + d → startVal s h q = none) → later s h (h.size + 1 - p) p = later s h (h.size + 1 - (p + d)) (p + d) := by
  intro d
  induction d with
  | zero => intro p _ _; rfl
  | succ d ih =>
    intro p hp hnone
    rw [show h.size + 1 - p = (h.size + 1 - (p + 1)) + 1 by omega, later_succ, hnone p (Nat.le_refl _) (by omega)]
    rw [Option.map_none, Option.none_or, ih (p + 1) (by omega) (fun q h1 h2 => hnone q (by omega) (by omega))]
    rw [show p + 1 + d = p + (d + 1) by omega]

/-! ## the loop -/

/-- what is still to come behind the listed threads: the recorded match, or (none recorded) the later starts -/
def tailSpec (s : CompositeSim) (h : Bytes) (rec : Option (Nat × Nat)) (k p : Nat) : Option (Nat × Nat) :=
  match rec with
  | some r => some r
  | none => later s h k p

/-- the statement of `simLoop_spec` for one amount of fuel -/
def LoopSpec (s : CompositeSim) (h : Bytes) (f : Nat) : Prop :=
  ∀ (pos : Nat) (cur : List Thread) (mark : Array Bool) (rec : Option (Nat × Nat)),
    pos ≤ h.size → h.size + 1 - pos ≤ f → Marks s cur mark → (rec = none → Closed s cur) →
    simLoop s h false f pos cur mark rec = (val s h (h.size - pos) pos cur).or (tailSpec s h rec (h.size + 1 - pos) pos)

theorem simConsume_spec {s : CompositeSim} (ok : TablesOK s) (h : Bytes) (f : Nat) (ih : LoopSpec s h f)
    (pos : Nat) (cur : List Thread) (rec : Option (Nat × Nat)) (hpos : pos ≤ h.size) (hf : h.size + 1 - pos ≤ f + 1)
    (hlt : ∀ t ∈ cur, t.cfg < s.configs.size) (hne : rec = none → cur ≠ []) :
    simConsume s h false (simLoop s h false f) pos cur rec =
      (val s h (h.size - pos) pos cur).or (tailSpec s h rec (h.size - pos) (pos + 1)) := by
  unfold simConsume
  by_cases hc : cur = []
  · subst hc
    cases rec with
    | none => exact absurd rfl (hne rfl)
    | some r => simp [val_nil, tailSpec]
  · have hce : cur.isEmpty = false := by cases cur with | nil => exact absurd rfl hc | cons _ _ => rfl
    by_cases hn : pos ≥ h.size
    · have : pos = h.size := by omega
      subst this
      simp only [hce, Bool.false_or, ge_iff_le, Nat.le_refl, decide_true, if_true]
      rw [val_ge s h _ _ cur (Nat.le_refl _), Option.none_or, Nat.sub_self]
      cases rec with
      | none => rfl
      | some r => rfl
    · simp only [hce, Bool.false_or, hn, decide_false, Bool.false_eq_true, if_false, Bool.and_false]
      have hp : pos < h.size := by omega
      obtain ⟨e1, e2, e3⟩ := stepLoop_spec ok h (h.size - (pos + 1)) pos hp cur [] s.freshMark (marks_fresh s)
        (closed_nil s) hlt
      generalize stepLoop s (h.at pos) (pos + 1) cur [] s.freshMark = r at e1 e2 e3
      obtain ⟨r1, r2, r3⟩ := r
      simp only at e1 e2 e3 ⊢
      rw [val_nil, Option.none_or, show h.size - (pos + 1) + 1 = h.size - pos by omega] at e1
      rw [e1, Option.or_assoc]
      rw [ih (pos + 1) r1 r2 _ (by omega) (by omega) e2]
      · congr 1
        rw [show h.size + 1 - (pos + 1) = h.size - pos by omega]
        cases r3 with
        | some m => rfl
        | none => rfl
      · intro hnone
        apply e3
        cases r3 with
        | some m => exact nomatch hnone
        | none => rfl

theorem simLoop_spec {s : CompositeSim} (ok : TablesOK s) (h : Bytes) : ∀ f, LoopSpec s h f := by
  intro f
  induction f with
  | zero => intro pos _ _ _ hpos hf _ _; omega
  | succ f ih =>
    intro pos cur mark rec hpos hf hm hcl
    cases rec with
    | some r =>
      rw [simLoop]
      rw [simConsume_spec ok h f ih pos cur (some r) hpos hf (fun t ht => hm.lt _ (List.mem_map_of_mem ht))
        (fun hc => nomatch hc)]
      rfl
    | none =>
      rw [simLoop]
      simp only []
      have hcl := hcl rfl
      -- the position of the new attempt
      have hskip := skip_spec s h (h.size - pos) pos (by omega)
      generalize hidle : (cur.isEmpty && !s.startMatches) = idle
      generalize hpos' : (if idle = true then s.skip h (h.size - pos) pos else pos) = pos'
      have hle : pos ≤ pos' ∧ pos' ≤ h.size := by
        rw [← hpos']; split
        · exact ⟨hskip.1, hskip.2.1⟩
        · exact ⟨Nat.le_refl _, hpos⟩
      -- the skipped positions have no attempt
      have hlater : later s h (h.size + 1 - pos) pos = later s h (h.size + 1 - pos') pos' := by
        cases idle with
        | false => simp only [Bool.false_eq_true, if_false] at hpos'; rw [hpos']
        | true =>
          simp only [if_true] at hpos'
          have hsm : s.startMatches = false := by
            have : (!s.startMatches) = true := (Bool.and_eq_true_iff.mp hidle).2
            simpa using this
          have := later_skip (s := s) h (pos' - pos) pos (by omega) (fun q h1 h2 =>
            startVal_none_of_noStartByte ok h q hsm (Or.inr (hskip.2.2.1 q h1 (by rw [hpos']; omega))))
          rw [this, show pos + (pos' - pos) = pos' by omega]
      have hval : val s h (h.size - pos) pos cur = val s h (h.size - pos') pos' cur := by
        cases idle with
        | false => simp only [Bool.false_eq_true, if_false] at hpos'; rw [hpos']
        | true =>
          have : cur = [] := by
            have : cur.isEmpty = true := (Bool.and_eq_true_iff.mp hidle).1
            exact List.isEmpty_iff.mp this
          rw [this, val_nil, val_nil]
      rw [hval]
      unfold tailSpec
      simp only []
      rw [hlater]
      by_cases hend : (idle && decide (pos' ≥ h.size)) = true
      · rw [if_pos hend]
        obtain ⟨hi, hge⟩ := Bool.and_eq_true_iff.mp hend
        subst hi
        have hpn : pos' = h.size := by have := of_decide_eq_true hge; omega
        have hsm : s.startMatches = false := by
          have : (!s.startMatches) = true := (Bool.and_eq_true_iff.mp hidle).2
          simpa using this
        rw [hpn, val_ge s h _ _ cur (Nat.le_refl _), Option.none_or,
          show h.size + 1 - h.size = 0 + 1 by omega, later_succ,
          startVal_none_of_noStartByte ok h h.size hsm (Or.inl (Nat.le_refl _))]
        rfl
      · rw [if_neg hend]
        obtain ⟨a1, a2, a3, a4⟩ := newAttempt_spec ok h pos' cur mark hm hcl
        generalize addClosure pos' s.startClosure cur mark = a at a1 a2 a3 a4
        have hlt : ∀ t ∈ a.1, t.cfg < s.configs.size := fun t ht => a2.lt _ (List.mem_map_of_mem ht)
        rw [show h.size + 1 - pos' = (h.size - pos') + 1 by omega, later_succ, ← Option.or_assoc, ← a1]
        by_cases hflag : (s.startMatches && !a.2.2) = true
        · rw [if_pos hflag]
          simp only [Bool.false_eq_true, if_false]
          rw [simConsume_spec ok h f ih pos' a.1 (some (pos', pos')) hle.2 (by omega) hlt (fun hc => nomatch hc)]
          rw [if_pos hflag, Option.or_assoc]
          rfl
        · rw [if_neg hflag]
          rw [simConsume_spec ok h f ih pos' a.1 none hle.2 (by omega) hlt (fun _ => a4)]
          rw [if_neg hflag, Option.or_none]
          rfl

/-- **the simulation** (non-earliest mode) started at `at_ ≤ n` returns the leftmost start `≥ at_` that has a complete walk,
    with the end of its highest-priority walk -/
theorem simulate_spec {s : CompositeSim} (ok : TablesOK s) (h : Bytes) (at_ : Nat) (hat : at_ ≤ h.size) :
    s.simulate h at_ false = later s h (h.size + 1 - at_) at_ := by
  unfold simulate
  rw [simLoop_spec ok h _ at_ [] s.freshMark none hat (Nat.le_refl _) (marks_fresh s) (fun _ => closed_nil s), val_nil,
    Option.none_or]
  rfl

/-! ## earliest mode (`IsMatch`): same verdict -/

theorem simConsume_some (s : CompositeSim) (h : Bytes) (e : Bool)
    (k : Nat → List Thread → Array Bool → Option (Nat × Nat) → Option (Nat × Nat))
    (hk : ∀ pos cur mark r, (k pos cur mark (some r)).isSome = true) (pos : Nat) (cur : List Thread) (r : Nat × Nat) :
    (simConsume s h e k pos cur (some r)).isSome = true := by
  unfold simConsume
  split
  · rfl
  · simp only []
    cases (stepLoop s (h.at pos) (pos + 1) cur [] s.freshMark).2.2 with
    | some m =>
      simp only []
      split
      · rfl
      · exact hk _ _ _ _
    | none =>
      simp only []
      split
      · rfl
      · exact hk _ _ _ _

theorem simLoop_some (s : CompositeSim) (h : Bytes) (e : Bool) : ∀ (f pos : Nat) (cur : List Thread) (mark : Array Bool)
    (r : Nat × Nat), (simLoop s h e f pos cur mark (some r)).isSome = true := by
  intro f
  induction f with
  | zero => intro pos cur mark r; rfl
  | succ f ih =>
    intro pos cur mark r
    rw [simLoop]
    exact simConsume_some s h e _ ih pos cur r

theorem simConsume_earliest (s : CompositeSim) (h : Bytes) (f : Nat)
    (ih : ∀ pos cur mark rec, (simLoop s h true f pos cur mark rec).isSome = (simLoop s h false f pos cur mark rec).isSome)
    (pos : Nat) (cur : List Thread) (rec : Option (Nat × Nat)) :
    (simConsume s h true (simLoop s h true f) pos cur rec).isSome =
      (simConsume s h false (simLoop s h false f) pos cur rec).isSome := by
  unfold simConsume
  split
  · rfl
  · simp only []
    generalize stepLoop s (h.at pos) (pos + 1) cur [] s.freshMark = r
    obtain ⟨r1, r2, r3⟩ := r
    have key : ∀ rec' : Option (Nat × Nat),
        (if (rec'.isSome && true) = true then rec' else simLoop s h true f (pos + 1) r1 r2 rec').isSome =
        (if (rec'.isSome && false) = true then rec' else simLoop s h false f (pos + 1) r1 r2 rec').isSome := by
      intro rec'
      cases rec' with
      | some m =>
        simp only [Option.isSome_some, Bool.true_and, if_true, Bool.and_false, Bool.false_eq_true, if_false]
        rw [simLoop_some]
      | none =>
        simp only [Option.isSome_none, Bool.false_and, Bool.false_eq_true, if_false]
        exact ih _ _ _ _
    exact key _

theorem simLoop_earliest (s : CompositeSim) (h : Bytes) : ∀ (f pos : Nat) (cur : List Thread) (mark : Array Bool)
    (rec : Option (Nat × Nat)),
    (simLoop s h true f pos cur mark rec).isSome = (simLoop s h false f pos cur mark rec).isSome := by
  intro f
  induction f with
  | zero => intro pos cur mark rec; rfl
  | succ f ih =>
    intro pos cur mark rec
    cases rec with
    | some r => rw [simLoop_some, simLoop_some]
    | none =>
      rw [simLoop, simLoop]
      simp only []
      generalize (if (cur.isEmpty && !s.startMatches) = true then s.skip h (h.size - pos) pos else pos) = pos'
      by_cases hend : ((cur.isEmpty && !s.startMatches) && decide (pos' ≥ h.size)) = true
      · rw [if_pos hend, if_pos hend]
      · rw [if_neg hend, if_neg hend]
        by_cases hflag : (s.startMatches && !(addClosure pos' s.startClosure cur mark).2.2) = true
        · rw [if_pos hflag, if_pos hflag]
          simp only [if_true, Bool.false_eq_true, if_false]
          rw [simConsume_some s h false _ (simLoop_some s h false f)]
          rfl
        · rw [if_neg hflag, if_neg hflag]
          exact simConsume_earliest s h f ih _ _ _

theorem simulate_earliest (s : CompositeSim) (h : Bytes) (at_ : Nat) :
    (s.simulate h at_ true).isSome = (s.simulate h at_ false).isSome :=
  simLoop_earliest s h _ _ _ _ _

end Cx.CompSim
