import Cx.Model.DfaRev
import Cx.Proofs.DfaCache
/-
  Cx.Proofs.DfaRev — (a) MEMOISATION IS INVISIBLE for the reverse searches of the lazy DFA (`Cx.Model.DfaRev`).

  The cached searches (`searchReverseC`, `searchReverseLimitedC`, `isMatchReverseC`: ids, flat table per byte class, start
  table, capacity, clear-and-reinsert, determinization limit, the 4x unrolled block, the NFA fallbacks) against the
  search without a cache (`reverseWalk` = `searchReverseU` / `searchReverseLimitedU` / `isMatchReverseU`), on ANY cache
  satisfying the invariant `Inv` of `Cx.Proofs.DfaCache`, for every capacity / clear limit / determinization limit, for
  `breakAtMatch` true or false, with or without look-around:

    searchReverseC_eq         (searchReverseC …).1 = searchReverseU …                       and `Inv` holds afterwards
    isMatchReverseC_eq        (isMatchReverseC …).1 = isMatchReverseU …
    searchReverseLimitedC_eq  (searchReverseLimitedC …).1 = searchReverseLimitedU …
                               ∨ ( … = .cutOff ∧ start < minStart ∧ searchReverseLimitedU … = .found (minStart + 1) )

  Unlike the forward searches there is no `gaveUp` alternative: the fallback of the reverse searches is the uncached search
  itself.  The second alternative for `SearchReverseLimited` is real (`limited_cache_dependent` in `Cx.Proofs.DfaRevExamples`): when the thread set dies
  on the last byte the bounded scan may read (`h[minStart]`) and the set before that byte contained a match state, the DFA
  loop is at a dead-end match state when it stops and answers -2, while the fallback has already returned the start.

  Hypotheses: `ClassSound N cfg` (bytes of one class have equivalent transitions) and `BytesOK h`, as for the forward searches.
-/
namespace Cx.Dfa
open Cx Cx.Nfa
open Cx.RevSuffix (RevAnswer)

/-! ### the start state -/

theorem kind_witness (k : StartKind) : ∃ (h : Bytes) (pos : Nat), kindAt h pos = k := by
  cases k with
  | text => exact ⟨#[], 0, rfl⟩
  | lineLF => exact ⟨#[10], 1, by decide⟩
  | lineCR => exact ⟨#[13], 1, by decide⟩
  | word => exact ⟨#[97], 1, by decide⟩
  | nonWord => exact ⟨#[32], 1, by decide⟩

theorem getStartK_spec {N : NFA} {cfg : Config} {c : Cache} (hI : Inv N cfg c) (kind : StartKind) (anch : Bool) :
    ∀ ocur c1, getStartK N cfg c kind anch = (ocur, c1) →
      Inv N cfg c1 ∧
      (∀ cur, ocur = some cur → cur.st = startState N kind anch ∧
         cur.id.inv = false ∧ cur.id.dead = false ∧ c1.list.getD cur.id.off none = some cur) := by
  intro ocur c1 hg
  obtain ⟨h, pos, hk⟩ := kind_witness kind
  have := getStart_spec hI h pos anch ocur c1 (by rw [getStart_eq_K, hk]; exact hg)
  rw [hk] at this
  exact this

/-! ### the uncached loop: canonical fuel, unfolding -/

/-- `reverseWalk`'s loop from `p` (= `at + 1`) in state `S` -/
def wL (N : NFA) (cfg : Config) (h : Bytes) (start lb : Nat) (earliest : Bool) (p : Nat) (S : DState) (last : Option Nat) :
    RevAnswer :=
  revWalkLoop N cfg h start lb earliest (p - lb + 1) p S last

theorem wL_gt {N : NFA} {cfg : Config} {h : Bytes} {start lb : Nat} {earliest : Bool} {p : Nat} (hgt : p > lb) (S : DState)
    (last : Option Nat) :
    wL N cfg h start lb earliest p S last =
      (if (walkStep N cfg S (h.at (p - 1))).1 && earliest then
         ofLast (if (walkStep N cfg S (h.at (p - 1))).1 then some p else last)
       else if (walkStep N cfg S (h.at (p - 1))).2.isEmpty then
         ofLast (if (walkStep N cfg S (h.at (p - 1))).1 then some p else last)
       else wL N cfg h start lb earliest (p - 1)
         (walkState N (h.at (p - 1)) (walkStep N cfg S (h.at (p - 1))).1 (walkStep N cfg S (h.at (p - 1))).2)
         (if (walkStep N cfg S (h.at (p - 1))).1 then some p else last)) := by
  unfold wL
  have : p - lb + 1 = (p - 1 - lb + 1) + 1 := by omega
  rw [this, revWalkLoop]
  simp only [hgt, ↓reduceIte]

theorem wL_le {N : NFA} {cfg : Config} {h : Bytes} {start lb : Nat} {earliest : Bool} {p : Nat} (hle : ¬ p > lb) (S : DState)
    (last : Option Nat) :
    wL N cfg h start lb earliest p S last =
      (if lb > start then .cutOff else ofLast (if containsMatch N S.nfa then some lb else last)) := by
  unfold wL
  have : p - lb + 1 = 0 + 1 := by omega
  rw [this, revWalkLoop]
  simp only [hle, ↓reduceIte]

theorem walkStep_congr {N : NFA} (cfg : Config) {S T : DState} (he : Eqv N S T) (b : Nat) :
    walkStep N cfg S b = walkStep N cfg T b := by
  unfold walkStep
  rw [resolved_congr he b]

theorem wL_congr {N : NFA} {cfg : Config} {h : Bytes} {start lb : Nat} {earliest : Bool} {S T : DState} (he : Eqv N S T)
    (p : Nat) (last : Option Nat) :
    wL N cfg h start lb earliest p S last = wL N cfg h start lb earliest p T last := by
  by_cases hgt : p > lb
  · rw [wL_gt hgt, wL_gt hgt, walkStep_congr cfg he]
  · rw [wL_le hgt, wL_le hgt, he.1]

/-! ### `step` (what the table memoises) against `walkStep` (what the fallback recomputes) -/

theorem step_dead_walk {N : NFA} {cfg : Config} {S : DState} {b : Nat} (hs : step N cfg S b = .dead) :
    (walkStep N cfg S b).1 = false ∧ (walkStep N cfg S b).2.isEmpty = true := by
  unfold step at hs
  unfold walkStep
  simp only at hs ⊢
  split at hs
  · rename_i hc
    exact ⟨hc.2, hc.1⟩
  · split at hs <;> cases hs

theorem step_next_walk {N : NFA} {cfg : Config} {S T : DState} {b : Nat} (hs : step N cfg S b = .next T) :
    T = walkState N b (walkStep N cfg S b).1 (walkStep N cfg S b).2 ∧
    ¬ ((walkStep N cfg S b).2.isEmpty = true ∧ (walkStep N cfg S b).1 = false) := by
  unfold step at hs
  unfold walkStep walkState
  simp only at hs ⊢
  split at hs
  · cases hs
  · rename_i hc
    split at hs
    · cases hs
    · cases hs
      exact ⟨rfl, hc⟩

theorem wL_dead {N : NFA} {cfg : Config} {h : Bytes} {start lb : Nat} {earliest : Bool} {p : Nat} (hgt : p > lb) {S : DState}
    (last : Option Nat) (hs : step N cfg S (h.at (p - 1)) = .dead) :
    wL N cfg h start lb earliest p S last = ofLast last := by
  obtain ⟨h1, h2⟩ := step_dead_walk hs
  rw [wL_gt hgt, h1, h2]
  simp

theorem wL_next {N : NFA} {cfg : Config} {h : Bytes} {start lb : Nat} {earliest : Bool} {p : Nat} (hgt : p > lb) {S T : DState}
    (last : Option Nat) (hs : step N cfg S (h.at (p - 1)) = .next T) :
    wL N cfg h start lb earliest p S last =
      (if T.isMatch && earliest then .found p
       else if T.nfa.isEmpty then .found p
       else wL N cfg h start lb earliest (p - 1) T (if T.isMatch then some p else last)) ∧
    (T.nfa.isEmpty = true → T.isMatch = true) := by
  obtain ⟨hT, hne⟩ := step_next_walk hs
  have e1 : T.isMatch = (walkStep N cfg S (h.at (p - 1))).1 := by rw [hT]; rfl
  have e2 : T.nfa = (walkStep N cfg S (h.at (p - 1))).2 := by rw [hT]; rfl
  have himp : T.nfa.isEmpty = true → T.isMatch = true := by
    intro he
    rw [e2] at he
    rw [e1]
    cases hm : (walkStep N cfg S (h.at (p - 1))).1 with
    | true => rfl
    | false => exact absurd ⟨he, hm⟩ hne
  refine ⟨?_, himp⟩
  have hT' : walkState N (h.at (p - 1)) T.isMatch T.nfa = T := by rw [e1, e2]; exact hT.symm
  rw [wL_gt hgt, ← e1, ← e2, hT']
  cases hm : T.isMatch with
  | true =>
    cases earliest with
    | true => simp [ofLast]
    | false =>
      simp only [Bool.and_false, Bool.false_eq_true, ↓reduceIte]
      split
      · rfl
      · rfl
  | false =>
    simp only [Bool.false_and, Bool.false_eq_true, ↓reduceIte]
    split
    · rename_i he
      have := himp he
      rw [hm] at this
      cases this
    · rfl

/-! ### the cached loop at a dead-end match state -/

theorem step_nil {N : NFA} (cfg : Config) {S : DState} (hn : S.nfa = []) (b : Nat) : step N cfg S b = .dead := by
  have hr : resolved N S b = [] := by
    unfold resolved resolveLookAhead
    split
    · rw [hn]; rfl
    · exact hn
  unfold step
  simp only [hr]
  simp [containsMatch, moveLoop]

section
variable {N : NFA} {cfg : Config} {h : Bytes}

/-- from a state without threads the loop stops at the next byte; if there is no next byte (`p = lb`) it completes -/
theorem revLoopC_deadEnd (hC : ClassSound N cfg) (hb : BytesOK h) (start e minStart lb : Nat) (earliest : Bool) :
    ∀ (fuel : Nat) (c : Cache) (p : Nat) (sid : Sid) (last : Option Nat) (S : DState),
    1 ≤ fuel → Inv N cfg c → AtState N c sid S → S.nfa = [] →
    Inv N cfg (revLoopC N cfg h start e minStart lb earliest fuel c p sid last).2 ∧
    (revLoopC N cfg h start e minStart lb earliest fuel c p sid last).1 =
      (if p > lb then ofLast last else if lb > start then .cutOff else ofLast last) := by
  intro fuel c p sid last S hf hI hat hn
  obtain ⟨cur, hgs, hcur, hcn⟩ := hat.getState
  have hcurn : cur.st.nfa = [] := by rw [hcn.1]; exact hn
  obtain ⟨f, rfl⟩ : ∃ f, fuel = f + 1 := ⟨fuel - 1, by omega⟩
  rw [revLoopC]
  by_cases hgt : p > lb
  · simp only [hgt, ↓reduceIte]
    rw [hat.lookupT]
    have hdead : step N cfg S (h.at (p - 1)) = .dead := step_nil cfg hn _
    by_cases hinv : c.trans sid.off (cfg.cls (h.at (p - 1))) = Sid.invalid
    · rw [if_pos hinv, hgs]
      simp only
      cases hd : determinize N cfg c cur (h.at (p - 1)) with
      | mk r c1 =>
        obtain ⟨hI1, hr⟩ := determinize_spec hI hC hcur (hb (p - 1)) r c1 hd
        cases r with
        | dead => exact ⟨hI1, rfl⟩
        | next cs =>
          simp only at hr
          rw [step_nil cfg hcurn] at hr
          cases hr.1
        | fail =>
          -- impossible: `step` is `dead`, `determinize` does not fail on it
          exfalso
          unfold determinize at hd
          rw [step_nil cfg hcurn] at hd
          simp only [Prod.mk.injEq] at hd
          cases hd.1
    · rw [if_neg hinv]
      rcases follow hI hat (hb (p - 1)) hinv with ⟨hd, _⟩ | ⟨_, T', hs, _⟩
      · rw [if_pos hd]
        exact ⟨hI, rfl⟩
      · rw [hdead] at hs
        cases hs
  · simp only [hgt, ↓reduceIte]
    rw [hgs]
    simp only
    rw [hcurn]
    have : containsMatch N [] = false := rfl
    rw [this]
    simp only [Bool.false_eq_true, ↓reduceIte]
    split
    · exact ⟨hI, rfl⟩
    · exact ⟨hI, rfl⟩

/-- the single-byte loop against the uncached loop: `W` is the value of the whole uncached search (the fallback),
    which the uncached loop still produces from the current point -/
theorem revLoopC_sim (hC : ClassSound N cfg) (hb : BytesOK h) (start e minStart lb : Nat) (earliest : Bool) :
    ∀ (fuel : Nat) (c : Cache) (p : Nat) (sid : Sid) (last : Option Nat) (S : DState),
    p - lb + 1 ≤ fuel → Inv N cfg c → AtState N c sid S →
    wL N cfg h start lb earliest p S last = reverseWalk N cfg h start e minStart earliest →
    Inv N cfg (revLoopC N cfg h start e minStart lb earliest fuel c p sid last).2 ∧
    ((revLoopC N cfg h start e minStart lb earliest fuel c p sid last).1 = reverseWalk N cfg h start e minStart earliest ∨
     ((revLoopC N cfg h start e minStart lb earliest fuel c p sid last).1 = .cutOff ∧ start < lb ∧
        reverseWalk N cfg h start e minStart earliest = .found (lb + 1))) := by
  intro fuel
  induction fuel with
  | zero => intro c p sid last S hf; omega
  | succ fuel ih =>
    intro c p sid last S hf hI hat hW
    generalize hWd : reverseWalk N cfg h start e minStart earliest = W at *
    obtain ⟨cur, hgs, hcur, hcn⟩ := hat.getState
    -- continuing at the successor `T` reached in cache `c'` under id `nid`
    have hcont : ∀ (c' : Cache) (nid : Sid) (T : DState), Inv N cfg c' → AtState N c' nid T → p > lb →
        step N cfg S (h.at (p - 1)) = .next T →
        Inv N cfg (if nid.mtch && earliest then ((RevAnswer.found p, c') : RevAnswer × Cache)
          else revLoopC N cfg h start e minStart lb earliest fuel c' (p - 1) nid (if nid.mtch then some p else last)).2 ∧
        ((if nid.mtch && earliest then ((RevAnswer.found p, c') : RevAnswer × Cache)
          else revLoopC N cfg h start e minStart lb earliest fuel c' (p - 1) nid (if nid.mtch then some p else last)).1 = W ∨
         ((if nid.mtch && earliest then ((RevAnswer.found p, c') : RevAnswer × Cache)
          else revLoopC N cfg h start e minStart lb earliest fuel c' (p - 1) nid (if nid.mtch then some p else last)).1 = .cutOff ∧
            start < lb ∧ W = .found (lb + 1))) := by
      intro c' nid T hI' hat' hgt hs
      obtain ⟨hw, himp⟩ := wL_next (start := start) (earliest := earliest) hgt last hs
      rw [hW] at hw
      have hm : nid.mtch = T.isMatch := hat'.2.2.1
      rw [hm]
      by_cases hme : (T.isMatch && earliest) = true
      · rw [if_pos hme] at hw ⊢
        exact ⟨hI', Or.inl hw.symm⟩
      · rw [if_neg hme] at hw ⊢
        by_cases hemp : T.nfa.isEmpty = true
        · -- dead-end match state: the fallback has returned, the DFA loop goes on for one more round
          rw [if_pos hemp] at hw
          have htm := himp hemp
          have hnil : T.nfa = [] := by simpa using hemp
          have hfuel : 1 ≤ fuel := by omega
          obtain ⟨d1, d2⟩ := revLoopC_deadEnd hC hb start e minStart lb earliest fuel c' (p - 1) nid
            (if T.isMatch then some p else last) T hfuel hI' hat' hnil
          refine ⟨d1, ?_⟩
          rw [d2, htm]
          simp only [↓reduceIte, ofLast]
          by_cases hp1 : p - 1 > lb
          · rw [if_pos hp1]; exact Or.inl hw.symm
          · rw [if_neg hp1]
            by_cases hls : lb > start
            · rw [if_pos hls]
              have : p = lb + 1 := by omega
              rw [this] at hw
              exact Or.inr ⟨rfl, hls, hw⟩
            · rw [if_neg hls]; exact Or.inl hw.symm
        · rw [if_neg hemp] at hw
          exact ih c' (p - 1) nid _ T (by omega) hI' hat' hw.symm
    rw [revLoopC]
    by_cases hgt : p > lb
    · simp only [hgt, ↓reduceIte]
      rw [hat.lookupT]
      by_cases hinv : c.trans sid.off (cfg.cls (h.at (p - 1))) = Sid.invalid
      · rw [if_pos hinv, hgs]
        simp only
        cases hd : determinize N cfg c cur (h.at (p - 1)) with
        | mk r c1 =>
          obtain ⟨hI1, hr⟩ := determinize_spec hI hC hcur (hb (p - 1)) r c1 hd
          cases r with
          | dead =>
            simp only at hr ⊢
            refine ⟨hI1, Or.inl ?_⟩
            rw [← hW, wL_dead hgt last (by rw [← step_congr cfg hcn]; exact hr)]
          | next cs =>
            simp only at hr ⊢
            obtain ⟨hs, hget⟩ := hr
            have hat3 := atState_of_get hI1 hget
            exact hcont c1 cs.id cs.st hI1 hat3 hgt (by rw [← step_congr cfg hcn]; exact hs)
          | fail => exact ⟨hI1, Or.inl hWd⟩
      · rw [if_neg hinv]
        rcases follow hI hat (hb (p - 1)) hinv with ⟨hd, hs⟩ | ⟨hnd, T', hs, hat'⟩
        · rw [if_pos hd]
          refine ⟨hI, Or.inl ?_⟩
          rw [← hW, wL_dead hgt last hs]
        · rw [if_neg hnd]
          exact hcont c _ T' hI hat' hgt hs
    · simp only [hgt, ↓reduceIte]
      rw [hgs]
      simp only
      rw [hcn.1]
      rw [wL_le hgt] at hW
      split
      · rename_i hls
        rw [if_pos hls] at hW
        exact ⟨hI, Or.inl hW⟩
      · rename_i hls
        rw [if_neg hls] at hW
        exact ⟨hI, Or.inl hW⟩

/-- the 4x unrolled block of `SearchReverse` only follows known transitions into untagged (non-match) states -/
theorem revFast_sim (hb : BytesOK h) (start : Nat) (last : Option Nat) (W : RevAnswer) {c : Cache} (hI : Inv N cfg c) :
    ∀ (fuel p : Nat) (sid : Sid) (k : Nat) (S : DState), AtState N c sid S → (k > 0 → p ≥ start + k) →
    wL N cfg h start start false p S last = W →
    ∃ S', AtState N c (revFast cfg c h start fuel p sid k).2 S' ∧
      wL N cfg h start start false (revFast cfg c h start fuel p sid k).1 S' last = W := by
  intro fuel
  induction fuel with
  | zero => intro p sid k S hat _ hW; exact ⟨S, hat, hW⟩
  | succ fuel ih =>
    intro p sid k S hat hk hW
    rw [revFast]
    by_cases hc : k > 0 ∨ p ≥ start + 4
    · rw [if_pos hc]
      simp only
      have hgt : p > start := by
        rcases hc with h1 | h1
        · have := hk h1; omega
        · omega
      cases ht : (c.lookupT sid.off (cfg.cls (h.at (p - 1)))).tagged with
      | true => simp only [↓reduceIte]; exact ⟨S, hat, hW⟩
      | false =>
        simp only [Bool.false_eq_true, ↓reduceIte]
        obtain ⟨t1, t2, _, t4⟩ := tagged_false ht
        rw [hat.lookupT] at t1 t2 t4 ⊢
        have hne : c.trans sid.off (cfg.cls (h.at (p - 1))) ≠ Sid.invalid := by intro he; rw [he] at t1; cases t1
        rcases follow hI hat (hb (p - 1)) hne with ⟨hd, _⟩ | ⟨_, T', hs, hat'⟩
        · rw [hd] at t2; cases t2
        · obtain ⟨hw, himp⟩ := wL_next (start := start) (earliest := false) hgt last hs
          have hm : T'.isMatch = false := by rw [← hat'.2.2.1]; exact t4
          rw [hm] at hw
          simp only [Bool.false_and, Bool.false_eq_true, ↓reduceIte] at hw
          have hne' : ¬ T'.nfa.isEmpty = true := by
            intro he
            have := himp he
            rw [hm] at this
            cases this
          rw [if_neg hne'] at hw
          apply ih (p - 1) _ (nextPhase k) T' hat'
          · intro hk'
            unfold nextPhase at hk' ⊢
            by_cases hk0 : k = 0
            · rw [if_pos hk0]
              rcases hc with h1 | h1
              · omega
              · omega
            · rw [if_neg hk0] at hk' ⊢
              have := hk (by omega)
              omega
          · rw [← hw]; exact hW
    · rw [if_neg hc]
      exact ⟨S, hat, hW⟩

theorem lowerBound_self (start : Nat) : lowerBound start start = start := by
  unfold lowerBound; simp

theorem reverseWalk_unfold {start e minStart : Nat} {earliest : Bool} (hse : ¬ (e ≤ start ∨ e > h.size)) :
    reverseWalk N cfg h start e minStart earliest =
      wL N cfg h start (lowerBound start minStart) earliest e (startState N (kindRev h e) false) none := by
  unfold reverseWalk wL
  rw [if_neg hse]

/-- (a) for `SearchReverse` -/
theorem searchReverseC_eq (hC : ClassSound N cfg) (hb : BytesOK h) {c : Cache} (hI : Inv N cfg c) (start e : Nat) :
    Inv N cfg (searchReverseC N cfg c h start e).2 ∧
    (searchReverseC N cfg c h start e).1 = searchReverseU N cfg h start e := by
  unfold searchReverseC searchReverseU
  by_cases hse : e ≤ start ∨ e > h.size
  · rw [if_pos hse]
    refine ⟨hI, ?_⟩
    unfold reverseWalk
    rw [if_pos hse]
  · rw [if_neg hse]
    cases hg : getStartK N cfg c (kindRev h e) false with
    | mk ocur c1 =>
      obtain ⟨hI1, hcur⟩ := getStartK_spec hI (kindRev h e) false ocur c1 hg
      cases ocur with
      | none => exact ⟨hI1, rfl⟩
      | some cur =>
        simp only
        obtain ⟨hn, _, _, hget⟩ := hcur cur rfl
        have hat := atState_of_get hI1 hget
        rw [hn] at hat
        have hW := reverseWalk_unfold (N := N) (cfg := cfg) (h := h) (minStart := start) (earliest := false) hse
        rw [lowerBound_self] at hW
        obtain ⟨S', hat', hW'⟩ := revFast_sim (cfg := cfg) hb start none _ hI1 e e cur.id 0 _ hat
          (fun hk => absurd hk (by omega)) hW.symm
        have := revLoopC_sim hC hb start e start start false _ c1 _ _ none S' (Nat.le_refl _) hI1 hat' hW'
        refine ⟨this.1, ?_⟩
        rcases this.2 with h1 | ⟨_, h2, _⟩
        · exact h1
        · omega

/-- (a) for `IsMatchReverse` -/
theorem isMatchReverseC_eq (hC : ClassSound N cfg) (hb : BytesOK h) {c : Cache} (hI : Inv N cfg c) (start e : Nat) :
    Inv N cfg (isMatchReverseC N cfg c h start e).2 ∧
    (isMatchReverseC N cfg c h start e).1 = isMatchReverseU N cfg h start e := by
  unfold isMatchReverseC isMatchReverseU
  by_cases hse : e ≤ start ∨ e > h.size
  · rw [if_pos hse]
    refine ⟨hI, ?_⟩
    unfold reverseWalk
    rw [if_pos hse]
    rfl
  · rw [if_neg hse]
    cases hg : getStartK N cfg c (kindRev h e) false with
    | mk ocur c1 =>
      obtain ⟨hI1, hcur⟩ := getStartK_spec hI (kindRev h e) false ocur c1 hg
      cases ocur with
      | none => exact ⟨hI1, rfl⟩
      | some cur =>
        simp only
        obtain ⟨hn, _, _, hget⟩ := hcur cur rfl
        have hat := atState_of_get hI1 hget
        rw [hn] at hat
        have hW := reverseWalk_unfold (N := N) (cfg := cfg) (h := h) (minStart := start) (earliest := true) hse
        rw [lowerBound_self] at hW
        have := revLoopC_sim hC hb start e start start true _ c1 e cur.id none _ (Nat.le_refl _) hI1 hat hW.symm
        refine ⟨this.1, ?_⟩
        rcases this.2 with h1 | ⟨_, h2, _⟩
        · rw [h1]
        · omega

/-- (a) for `SearchReverseLimited`: equal to the uncached search, except that the DFA loop answers -2 where the uncached
    search already knows the start, in the one situation described in the header -/
theorem searchReverseLimitedC_eq (hC : ClassSound N cfg) (hb : BytesOK h) {c : Cache} (hI : Inv N cfg c)
    (start e minStart : Nat) :
    Inv N cfg (searchReverseLimitedC N cfg c h start e minStart).2 ∧
    ((searchReverseLimitedC N cfg c h start e minStart).1 = searchReverseLimitedU N cfg h start e minStart ∨
     ((searchReverseLimitedC N cfg c h start e minStart).1 = .cutOff ∧ start < minStart ∧
        searchReverseLimitedU N cfg h start e minStart = .found (minStart + 1))) := by
  unfold searchReverseLimitedC searchReverseLimitedU
  by_cases hse : e ≤ start ∨ e > h.size
  · rw [if_pos hse]
    refine ⟨hI, Or.inl ?_⟩
    unfold reverseWalk
    rw [if_pos hse]
  · rw [if_neg hse]
    cases hg : getStartK N cfg c (kindRev h e) false with
    | mk ocur c1 =>
      obtain ⟨hI1, hcur⟩ := getStartK_spec hI (kindRev h e) false ocur c1 hg
      cases ocur with
      | none => exact ⟨hI1, Or.inl rfl⟩
      | some cur =>
        simp only
        obtain ⟨hn, _, _, hget⟩ := hcur cur rfl
        have hat := atState_of_get hI1 hget
        rw [hn] at hat
        have hW := reverseWalk_unfold (N := N) (cfg := cfg) (h := h) (minStart := minStart) (earliest := false) hse
        have := revLoopC_sim hC hb start e minStart (lowerBound start minStart) false _ c1 e cur.id none _
          (Nat.le_refl _) hI1 hat hW.symm
        refine ⟨this.1, ?_⟩
        rcases this.2 with h1 | ⟨h1, h2, h3⟩
        · exact Or.inl h1
        · have hlb : lowerBound start minStart = minStart ∧ start < minStart := by
            unfold lowerBound at h2 ⊢
            split
            · rename_i hms; exact ⟨rfl, hms⟩
            · rename_i hms; rw [if_neg hms] at h2; omega
          rw [hlb.1] at h3
          exact Or.inr ⟨h1, hlb.2, h3⟩

end

end Cx.Dfa
