import Cx.Proofs.DfaCache
import Cx.Proofs.DfaClass
import Cx.Proofs.DfaRef
import Cx.Proofs.DfaLimit
/-
  Cx.Proofs.Dfa — the lazy DFA of `dfa/lazy` (model: `Cx.Model.Dfa`): summary of what is proved, the combined
  statements, non-vacuity witnesses and the former deviations, now `_fixed`.

  (a) MEMOISATION IS INVISIBLE (Cx.Proofs.DfaCache).  Invariant `Inv` (every table entry `(S, class) ↦ T` satisfies
      `T ≃ step S b`; ids, start table, fresh ids; a state object with exit bytes loops back to itself on every other
      byte) holds for `Cache.empty` (`inv_empty`), is preserved by
      `setTrans`/`insertNew`/`tagStart`/`clearRebuild`/`tryDetect`/`determinize`/`getStart` and by every search, for
      EVERY capacity and clear limit, and
        searchAtC_eq    : searchAt  with cache = gaveUp ∨ = searchAt  without cache
        earliestC_eq    : searchEarliestMatch (IsMatch/IsMatchAt), same statement
        anchoredC_eq    : SearchAtAnchored, same statement (any clear limit: a clear keeps the thread set in flight)
      under `ClassSound N cfg` and `BytesOK h` ONLY — word boundaries, state acceleration (now exact), clears and any
      history of the cache included.  `ClassSound` follows from the decidable `classStepB` / `classCompatB`
      (`Cx.Proofs.DfaClass.classSound_of_compat`), which now also check that the byte classes separate `\n` (automata
      with `(?m)^`/`(?m)$`) and word bytes (automata with `\b`/`\B`), as `nfa.Builder.addLookBoundaries` makes them.
  (b) UNCACHED DFA = REFERENCE (Cx.Proofs.DfaRef), for EVERY NFA without rune states, with disjoint sparse ranges and
      the compiler's unanchored prefix (decidable: `noRuneB`, `sparseDisjointB`, `prefixOKB`) — look-around of all six
      kinds included, evaluated by the reference with `lookOK` on the whole haystack:
        searchAtU_eq_bt  : searchAt  = gaveUp ∨ = ok ((btSearchAt N h at).map (·.2))     (END of the leftmost-first match)
        anchoredU_eq_bt  : SearchAtAnchored = gaveUp ∨ = ok (btFirst N h at at)           (priority-first end from `at`)
        apiSearchAtU_end : SearchAt at `at = len` = ok ((btSearchAt N h len).map (·.2))   (every NFA)
      `gaveUp` only through the determinization limit, which is never hit when `wfB N` and
      `N.states.size ≤ cfg.detLimit` (Cx.Proofs.DfaLimit; `searchAtU_eq_bt'` etc. are plain equalities).
  (c) earliestU_eq_bt   : searchEarliestMatch = gaveUp ∨ = ok (btSearchAt N h at).isSome, and
      bt_isSome_iff     : that is `∃ i j, at ≤ i ≤ len ∧ Accepts N h i j`.
  (a)+(b)+(c) combined: `searchAt_cached_eq_ref`, `isMatchAt_cached_iff`, `searchAtAnchored_cached_eq_ref`, and for
      whole sessions (ANY sequence of SearchAt/SearchAtAnchored/IsMatch/IsMatchAt calls on one cache, clears and
      acceleration included): `session_searchAt`, `session_isMatchAt`, `session_searchAtAnchored`;
      `session_AB` (look-free) and `session_caretA`, `session_xsWB` (`(?m)^a`, `x*\b` with their real byte classes) are
      closed instances with every hypothesis decided.
  (d) THE FORMER DEVIATIONS ARE GONE: each `decide`-checked witness of the previous tree is restated on the same NFA,
      haystack and cache configuration and now agrees with the reference:
        class_fixed, empty_at_end_fixed, wb_precheck_fixed, wb_precheck_fixed2, anchored_clear_fixed, accel_fixed,
        wb_flags_fixed;  `old_classes_rejected`: the class map of the previous tree is refused by the checker.
-/
namespace Cx.Dfa
open Cx Cx.Nfa

/-! ### the entry points are the core searches when `at < len` -/

theorem apiSearchAt_lt (N : NFA) (cfg : Config) (c : Cache) (h : Bytes) {at_ : Nat} (hat : at_ < h.size) :
    apiSearchAt N cfg c h at_ = searchAtC N cfg c h at_ := by
  unfold apiSearchAt
  rw [if_neg (by omega), if_neg (by omega)]

theorem apiIsMatchAt_lt (N : NFA) (cfg : Config) (c : Cache) (h : Bytes) {at_ : Nat} (hat : at_ < h.size) :
    apiIsMatchAt N cfg c h at_ = earliestC N cfg c h at_ := by
  unfold apiIsMatchAt
  rw [if_neg (by omega)]

theorem apiSearchAtAnchored_lt (N : NFA) (cfg : Config) (c : Cache) (h : Bytes) {at_ : Nat} (hat : at_ < h.size) :
    apiSearchAtAnchored N cfg c h at_ = anchoredC N cfg c h at_ := by
  unfold apiSearchAtAnchored
  rw [if_neg (by omega), if_neg (by omega)]

theorem apiSearchAt_end (N : NFA) (cfg : Config) (c : Cache) (h : Bytes) :
    apiSearchAt N cfg c h h.size = (.ok ((btSearchAt N h h.size).map (·.2)), c) := by
  have := apiSearchAtU_end N cfg h
  unfold apiSearchAtU at this
  rw [if_neg (by omega), if_pos rfl] at this
  unfold apiSearchAt
  rw [if_neg (by omega), if_pos rfl, this]

/-! ### (a) + (b) + (c) -/

/-- (b) for both shapes of compiled automata: unanchored `(?s:.)*?` prefix, or always anchored (`\A…`, no prefix) -/
theorem searchAtU_eq_bt_any {N : NFA} (hnrB : noRuneB N = true) (hsdB : sparseDisjointB N = true)
    (hp : prefixOKB N = true ∨ anchoredHeadB N = true) (cfg : Config) (hbrk : cfg.breakAtMatch = true) {h : Bytes}
    (hb : BytesOK h) {at_ : Nat} (hat : at_ ≤ h.size) :
    searchAtU N cfg h at_ = .gaveUp ∨ searchAtU N cfg h at_ = .ok ((btSearchAt N h at_).map (·.2)) := by
  rcases hp with hp | hp
  · exact searchAtU_eq_bt hnrB hsdB hp cfg hbrk hb hat
  · exact searchAtU_eq_bt_anchored hnrB hsdB hp cfg hbrk hat

theorem earliestU_eq_bt_any {N : NFA} (hnrB : noRuneB N = true) (hsdB : sparseDisjointB N = true)
    (hp : prefixOKB N = true ∨ anchoredHeadB N = true) (cfg : Config) (hbrk : cfg.breakAtMatch = true) {h : Bytes}
    (hb : BytesOK h) {at_ : Nat} (hat : at_ ≤ h.size) :
    earliestU N cfg h at_ = .gaveUp ∨ earliestU N cfg h at_ = .ok (btSearchAt N h at_).isSome := by
  rcases hp with hp | hp
  · exact earliestU_eq_bt hnrB hsdB hp cfg hbrk hb hat
  · exact earliestU_eq_bt_anchored hnrB hsdB hp cfg hbrk hat

/-- `SearchAt` on a cache: NFA fallback, or the end of the reference's leftmost-first match (`at ≤ len`) -/
theorem searchAt_cached_eq_ref {N : NFA} (hnrB : noRuneB N = true) (hsdB : sparseDisjointB N = true)
    (hpB : prefixOKB N = true ∨ anchoredHeadB N = true) {cfg : Config} (hbrk : cfg.breakAtMatch = true)
    (hC : ClassSound N cfg) {h : Bytes} (hb : BytesOK h) {c : Cache} (hI : Inv N cfg c) {at_ : Nat} (hat : at_ ≤ h.size) :
    Inv N cfg (apiSearchAt N cfg c h at_).2 ∧
    ((apiSearchAt N cfg c h at_).1 = .gaveUp ∨ (apiSearchAt N cfg c h at_).1 = .ok ((btSearchAt N h at_).map (·.2))) := by
  by_cases hlt : at_ < h.size
  · rw [apiSearchAt_lt N cfg c h hlt]
    obtain ⟨i1, i2⟩ := searchAtC_eq hC hb hI at_
    refine ⟨i1, ?_⟩
    rcases i2 with hg | he
    · exact Or.inl hg
    · rw [he]
      exact searchAtU_eq_bt_any hnrB hsdB hpB cfg hbrk hb hat
  · have : at_ = h.size := by omega
    subst this
    rw [apiSearchAt_end]
    exact ⟨hI, Or.inr rfl⟩

/-- an accepted span that starts at `len` is empty -/
theorem accepts_end_iff (N : NFA) (h : Bytes) :
    (∃ i j, h.size ≤ i ∧ i ≤ h.size ∧ Accepts N h i j) ↔ Accepts N h h.size h.size := by
  constructor
  · intro ⟨i, j, h1, h2, ha⟩
    have hi : i = h.size := by omega
    subst hi
    have := reaches_pos_le ha (Nat.le_refl _)
    have hj : j = h.size := by omega
    subst hj
    exact ha
  · intro ha
    exact ⟨h.size, h.size, Nat.le_refl _, Nat.le_refl _, ha⟩

/-- `IsMatchAt` on a cache: NFA fallback, or `true` exactly when some span starting at or after `at` is accepted -/
theorem isMatchAt_cached_iff {N : NFA} (hnrB : noRuneB N = true)
    (hsdB : sparseDisjointB N = true) (hpB : prefixOKB N = true ∨ anchoredHeadB N = true) {cfg : Config} (hbrk : cfg.breakAtMatch = true)
    (hC : ClassSound N cfg) {h : Bytes} (hb : BytesOK h) {c : Cache} (hI : Inv N cfg c) {at_ : Nat} (hat : at_ ≤ h.size) :
    (apiIsMatchAt N cfg c h at_).1 = .gaveUp ∨
    ∃ r, (apiIsMatchAt N cfg c h at_).1 = .ok r ∧ (r = true ↔ ∃ i j, at_ ≤ i ∧ i ≤ h.size ∧ Accepts N h i j) := by
  by_cases hlt : at_ < h.size
  · rw [apiIsMatchAt_lt N cfg c h hlt]
    rcases (earliestC_eq hC hb hI at_).2 with hg | he
    · exact Or.inl hg
    · rw [he]
      rcases earliestU_eq_bt_any hnrB hsdB hpB cfg hbrk hb hat with hg | hok
      · exact Or.inl hg
      · exact Or.inr ⟨_, hok, bt_isSome_iff N h hat⟩
  · have : at_ = h.size := by omega
    subst this
    right
    unfold apiIsMatchAt
    rw [if_pos (Nat.le_refl _), if_pos rfl]
    exact ⟨_, rfl, by rw [accepts_end_iff]; exact matchesEmptyAt_iff N h⟩

/-- `SearchAtAnchored` on a cache, ANY clear limit: anchored NFA fallback, or the priority-first end from `at` -/
theorem searchAtAnchored_cached_eq_ref {N : NFA} (hnrB : noRuneB N = true)
    (hsdB : sparseDisjointB N = true) {cfg : Config} (hbrk : cfg.breakAtMatch = true)
    (hC : ClassSound N cfg) {h : Bytes} (hb : BytesOK h) {c : Cache} (hI : Inv N cfg c)
    {at_ : Nat} (hat : at_ < h.size) :
    (apiSearchAtAnchored N cfg c h at_).1 = .gaveUp ∨
    (apiSearchAtAnchored N cfg c h at_).1 = .ok (Pike.btFirst N h at_ at_) := by
  rw [apiSearchAtAnchored_lt N cfg c h hat]
  rcases (anchoredC_eq hC hb hI (Nat.le_of_lt hat)).2 with hg | he
  · exact Or.inl hg
  · rw [he]
    exact anchoredU_eq_bt hnrB hsdB cfg hbrk h (Nat.le_of_lt hat)

/-- the uncached searches with the limit out of the way: plain equalities -/
theorem searchAtU_eq_bt' {N : NFA} (hwf : wfB N = true) (hnrB : noRuneB N = true)
    (hsdB : sparseDisjointB N = true) (hpB : prefixOKB N = true ∨ anchoredHeadB N = true) (cfg : Config) (hbrk : cfg.breakAtMatch = true)
    (hl : N.states.size ≤ cfg.detLimit) {h : Bytes} (hb : BytesOK h) {at_ : Nat} (hat : at_ ≤ h.size) :
    searchAtU N cfg h at_ = .ok ((btSearchAt N h at_).map (·.2)) := by
  rcases searchAtU_eq_bt_any hnrB hsdB hpB cfg hbrk hb hat with hg | he
  · exact absurd hg (searchAtU_ne_gaveUp hwf hl h at_)
  · exact he

theorem anchoredU_eq_bt' {N : NFA} (hwf : wfB N = true) (hnrB : noRuneB N = true)
    (hsdB : sparseDisjointB N = true) (cfg : Config) (hbrk : cfg.breakAtMatch = true)
    (hl : N.states.size ≤ cfg.detLimit) (h : Bytes) {at_ : Nat} (hat : at_ ≤ h.size) :
    anchoredU N cfg h at_ = .ok (Pike.btFirst N h at_ at_) := by
  rcases anchoredU_eq_bt hnrB hsdB cfg hbrk h hat with hg | he
  · exact absurd hg (anchoredU_ne_gaveUp hwf hl h at_)
  · exact he

theorem earliestU_eq_bt' {N : NFA} (hwf : wfB N = true) (hnrB : noRuneB N = true)
    (hsdB : sparseDisjointB N = true) (hpB : prefixOKB N = true ∨ anchoredHeadB N = true) (cfg : Config) (hbrk : cfg.breakAtMatch = true)
    (hl : N.states.size ≤ cfg.detLimit) {h : Bytes} (hb : BytesOK h) {at_ : Nat} (hat : at_ ≤ h.size) :
    earliestU N cfg h at_ = .ok (btSearchAt N h at_).isSome := by
  rcases earliestU_eq_bt_any hnrB hsdB hpB cfg hbrk hb hat with hg | he
  · exact absurd hg (earliestU_ne_gaveUp hwf hl h at_)
  · exact he

/-! ### whole sessions: any sequence of calls on one cache, any capacity, any number of clears -/

/-- a call of an exported entry point -/
inductive Call where
  | searchAt (h : Bytes) (at_ : Nat)
  | searchAtAnchored (h : Bytes) (at_ : Nat)
  | isMatch (h : Bytes)
  | isMatchAt (h : Bytes) (at_ : Nat)

def Call.hay : Call → Bytes
  | .searchAt h _ => h
  | .searchAtAnchored h _ => h
  | .isMatch h => h
  | .isMatchAt h _ => h

/-- the cache after the call -/
def Call.run (N : NFA) (cfg : Config) (c : Cache) : Call → Cache
  | .searchAt h a => (apiSearchAt N cfg c h a).2
  | .searchAtAnchored h a => (apiSearchAtAnchored N cfg c h a).2
  | .isMatch h => (apiIsMatch N cfg c h).2
  | .isMatchAt h a => (apiIsMatchAt N cfg c h a).2

/-- the cache after a sequence of calls, starting from `NewCache()` -/
def runCalls (N : NFA) (cfg : Config) (calls : List Call) : Cache := calls.foldl (Call.run N cfg) Cache.empty

/-- the table invariant survives every call (no hypothesis on the automaton besides sound byte classes) -/
theorem inv_call {N : NFA} {cfg : Config} (hC : ClassSound N cfg) {c : Cache} (hI : Inv N cfg c) (k : Call)
    (hb : BytesOK k.hay) : Inv N cfg (k.run N cfg c) := by
  cases k with
  | searchAt h a =>
    show Inv N cfg (apiSearchAt N cfg c h a).2
    unfold apiSearchAt
    split
    · exact hI
    · split
      · exact hI
      · exact (searchAtC_eq (h := h) hC hb hI a).1
  | searchAtAnchored h a =>
    show Inv N cfg (apiSearchAtAnchored N cfg c h a).2
    unfold apiSearchAtAnchored
    split
    · exact hI
    · split
      · exact hI
      · exact (anchoredC_eq (h := h) hC hb hI (by omega)).1
  | isMatch h =>
    show Inv N cfg (apiIsMatch N cfg c h).2
    unfold apiIsMatch
    split
    · exact hI
    · exact (earliestC_eq (h := h) hC hb hI 0).1
  | isMatchAt h a =>
    show Inv N cfg (apiIsMatchAt N cfg c h a).2
    unfold apiIsMatchAt
    split
    · exact hI
    · exact (earliestC_eq (h := h) hC hb hI a).1

/-- every cache reachable from `NewCache()` by calls of the four entry points satisfies the table invariant -/
theorem inv_runCalls {N : NFA} {cfg : Config} (hC : ClassSound N cfg) (calls : List Call)
    (hb : ∀ k ∈ calls, BytesOK k.hay) : Inv N cfg (runCalls N cfg calls) := by
  unfold runCalls
  suffices ∀ (l : List Call) (c : Cache), Inv N cfg c → (∀ k ∈ l, BytesOK k.hay) → Inv N cfg (l.foldl (Call.run N cfg) c) from
    this calls _ (inv_empty N cfg) hb
  intro l
  induction l with
  | nil => intro c hI _; exact hI
  | cons k ks ih =>
    intro c hI hb
    exact ih _ (inv_call hC hI k (hb k List.mem_cons_self)) (fun k' hk' => hb k' (List.mem_cons_of_mem _ hk'))

/-- (a)+(b) FOR A WHOLE SESSION: after ANY sequence of `SearchAt` / `SearchAtAnchored` / `IsMatch` / `IsMatchAt` calls on
    one cache (any capacity, any clear limit; clears and state acceleration included), `SearchAt` either falls back to
    the NFA or reports the end of the reference's leftmost-first match — look-around included. -/
theorem session_searchAt {N : NFA} (hnrB : noRuneB N = true) (hsdB : sparseDisjointB N = true)
    (hpB : prefixOKB N = true ∨ anchoredHeadB N = true) {cfg : Config} (hbrk : cfg.breakAtMatch = true) (hC : ClassSound N cfg)
    (calls : List Call) (hbs : ∀ k ∈ calls, BytesOK k.hay) {h : Bytes}
    (hb : BytesOK h) {at_ : Nat} (hat : at_ ≤ h.size) :
    (apiSearchAt N cfg (runCalls N cfg calls) h at_).1 = .gaveUp ∨
    (apiSearchAt N cfg (runCalls N cfg calls) h at_).1 = .ok ((btSearchAt N h at_).map (·.2)) :=
  (searchAt_cached_eq_ref hnrB hsdB hpB hbrk hC hb (inv_runCalls hC calls hbs) hat).2

theorem session_isMatchAt {N : NFA} (hnrB : noRuneB N = true) (hsdB : sparseDisjointB N = true)
    (hpB : prefixOKB N = true ∨ anchoredHeadB N = true) {cfg : Config} (hbrk : cfg.breakAtMatch = true) (hC : ClassSound N cfg)
    (calls : List Call) (hbs : ∀ k ∈ calls, BytesOK k.hay) {h : Bytes}
    (hb : BytesOK h) {at_ : Nat} (hat : at_ ≤ h.size) :
    (apiIsMatchAt N cfg (runCalls N cfg calls) h at_).1 = .gaveUp ∨
    ∃ r, (apiIsMatchAt N cfg (runCalls N cfg calls) h at_).1 = .ok r ∧
      (r = true ↔ ∃ i j, at_ ≤ i ∧ i ≤ h.size ∧ Accepts N h i j) :=
  isMatchAt_cached_iff hnrB hsdB hpB hbrk hC hb (inv_runCalls hC calls hbs) hat

theorem session_searchAtAnchored {N : NFA} (hnrB : noRuneB N = true) (hsdB : sparseDisjointB N = true)
    {cfg : Config} (hbrk : cfg.breakAtMatch = true) (hC : ClassSound N cfg)
    (calls : List Call) (hbs : ∀ k ∈ calls, BytesOK k.hay) {h : Bytes}
    (hb : BytesOK h) {at_ : Nat} (hat : at_ < h.size) :
    (apiSearchAtAnchored N cfg (runCalls N cfg calls) h at_).1 = .gaveUp ∨
    (apiSearchAtAnchored N cfg (runCalls N cfg calls) h at_).1 = .ok (Pike.btFirst N h at_ at_) :=
  searchAtAnchored_cached_eq_ref hnrB hsdB hbrk hC hb (inv_runCalls hC calls hbs) hat

/-! ### non-vacuity: the compiled NFA of `a|ab` (dumped from the real compiler) -/

/-- `a|ab`: `0/7/B.97.97.3;E.4;B.98.98.4;P.1.2;E.5;M;B.0.255.7;P.0.6` -/
def nfaAB : NFA :=
  { states := #[.byteRange 97 97 3, .eps 4, .byteRange 98 98 4, .split 1 2, .eps 5, .mtch, .byteRange 0 255 7, .split 0 6],
    startAnchored := 0, startUnanchored := 7 }

example : noRuneB nfaAB = true ∧ sparseDisjointB nfaAB = true ∧ prefixOKB nfaAB = true ∧ wfB nfaAB = true := by decide

theorem bytesOK_bab : BytesOK #[98, 97, 98] := by
  intro i
  match i with
  | 0 => decide
  | 1 => decide
  | 2 => decide
  | n+3 => simp [Bytes.at, Array.getD_eq_getD_getElem?]

/-- leftmost-first: on "bab" the DFA reports end 2 (`a`), not 3 (`ab`) -/
example : searchAtU nfaAB Config.plain #[98, 97, 98] 0 = .ok (some 2) := by decide

example : searchAtU nfaAB Config.plain #[98, 97, 98] 0 = .ok ((btSearchAt nfaAB #[98, 97, 98] 0).map (·.2)) := by
  rcases searchAtU_eq_bt (N := nfaAB) (by decide) (by decide) (by decide) Config.plain rfl bytesOK_bab
    (at_ := 0) (by decide) with h | h
  · exact absurd h (by decide)
  · exact h

/-- small caches: the answer is the uncached one, or `gaveUp` -/
example : (apiSearchAt nfaAB { Config.plain with capacity := 5000 } Cache.empty #[98, 97, 98] 0).1 = .ok (some 2) := by
  decide
example : (apiSearchAt nfaAB { Config.plain with capacity := 1 } Cache.empty #[98, 97, 98] 0).1 = .gaveUp := by decide

/-- the byte classes the compiler computes for `a|ab`: `[00-60]`, `[61]`, `[62]`, `[63-FF]` -/
def clsAB (b : Nat) : Nat := if b < 97 then 0 else if b = 97 then 1 else if b = 98 then 2 else 3

set_option maxRecDepth 100000 in
theorem classStep_AB : classStepB nfaAB clsAB = true := by decide +kernel

/-- A CLOSED INSTANCE: for the compiled NFA of `a|ab` with its real byte classes, ANY capacity and clear limit, after ANY
    sequence of calls of the four entry points on the cache, `SearchAt` is the NFA fallback or the reference's end — all
    hypotheses decided -/
theorem session_AB (capacity maxClears : Nat) (calls : List Call) (hbs : ∀ k ∈ calls, BytesOK k.hay)
    {h : Bytes} (hb : BytesOK h) {at_ : Nat} (hat : at_ ≤ h.size) :
    let cfg : Config := { capacity := capacity, maxClears := maxClears, stride := 4, cls := clsAB }
    (apiSearchAt nfaAB cfg (runCalls nfaAB cfg calls) h at_).1 = .gaveUp ∨
    (apiSearchAt nfaAB cfg (runCalls nfaAB cfg calls) h at_).1 = .ok ((btSearchAt nfaAB h at_).map (·.2)) := by
  intro cfg
  exact session_searchAt (by decide) (by decide) (Or.inl (by decide)) rfl
    (classSound_of_compat cfg (classCompat_of_step classStep_AB)) calls hbs hb hat

/-! ### closed instances WITH look-around -/

/-- `(?m)^a`: `0/4/L.2.1;B.97.97.2;M;B.0.255.4;P.0.3` -/
def nfaCaretA : NFA :=
  { states := #[.look .startLine 1, .byteRange 97 97 2, .mtch, .byteRange 0 255 4, .split 0 3],
    startAnchored := 0, startUnanchored := 4 }

/-- the byte classes the compiler NOW computes for `(?m)^a`: `[00-09]`, `[0A]`, `[0B-60]`, `[61]`, `[62-FF]` -/
def clsCaretA (b : Nat) : Nat := if b < 10 then 0 else if b = 10 then 1 else if b < 97 then 2 else if b = 97 then 3 else 4

def cfgCaretA : Config := { capacity := 2097152, maxClears := 5, stride := 5, cls := clsCaretA }

set_option maxRecDepth 100000 in
theorem classStep_caretA : classStepB nfaCaretA clsCaretA = true := by decide +kernel

/-- `(?m)^a` with its real byte classes: any capacity, any clear limit, any history — `SearchAt` is the NFA fallback or
    the reference's end -/
theorem session_caretA (capacity maxClears : Nat) (calls : List Call) (hbs : ∀ k ∈ calls, BytesOK k.hay)
    {h : Bytes} (hb : BytesOK h) {at_ : Nat} (hat : at_ ≤ h.size) :
    let cfg : Config := { capacity := capacity, maxClears := maxClears, stride := 5, cls := clsCaretA }
    (apiSearchAt nfaCaretA cfg (runCalls nfaCaretA cfg calls) h at_).1 = .gaveUp ∨
    (apiSearchAt nfaCaretA cfg (runCalls nfaCaretA cfg calls) h at_).1 = .ok ((btSearchAt nfaCaretA h at_).map (·.2)) := by
  intro cfg
  exact session_searchAt (by decide) (by decide) (Or.inl (by decide)) rfl
    (classSound_of_compat cfg (classCompat_of_step classStep_caretA)) calls hbs hb hat

/-- `x*\b`: `2/6/B.120.120.2;E.3;P.0.1;L.4.4;M;B.0.255.6;P.2.5` -/
def nfaXsWB : NFA :=
  { states := #[.byteRange 120 120 2, .eps 3, .split 0 1, .look .wordB 4, .mtch, .byteRange 0 255 6, .split 2 5],
    startAnchored := 2, startUnanchored := 6 }

/-- the byte classes the compiler NOW computes for `x*\b`:
    `[00-2F] [30-39] [3A-40] [41-5A] [5B-5E] [5F] [60] [61-77] [78] [79-7A] [7B-FF]` -/
def clsXsWB (b : Nat) : Nat :=
  if b < 48 then 0 else if b < 58 then 1 else if b < 65 then 2 else if b < 91 then 3 else if b < 95 then 4
  else if b = 95 then 5 else if b = 96 then 6 else if b < 120 then 7 else if b = 120 then 8 else if b < 123 then 9 else 10

set_option maxRecDepth 100000 in
theorem classStep_xsWB : classStepB nfaXsWB clsXsWB = true := by decide +kernel

/-- `x*\b` with its real byte classes: any capacity, any clear limit, any history -/
theorem session_xsWB (capacity maxClears : Nat) (calls : List Call) (hbs : ∀ k ∈ calls, BytesOK k.hay)
    {h : Bytes} (hb : BytesOK h) {at_ : Nat} (hat : at_ ≤ h.size) :
    let cfg : Config := { capacity := capacity, maxClears := maxClears, stride := 11, cls := clsXsWB }
    (apiSearchAt nfaXsWB cfg (runCalls nfaXsWB cfg calls) h at_).1 = .gaveUp ∨
    (apiSearchAt nfaXsWB cfg (runCalls nfaXsWB cfg calls) h at_).1 = .ok ((btSearchAt nfaXsWB h at_).map (·.2)) := by
  intro cfg
  exact session_searchAt (by decide) (by decide) (Or.inl (by decide)) rfl
    (classSound_of_compat cfg (classCompat_of_step classStep_xsWB)) calls hbs hb hat

/-! ### (d) the former deviations, on the same automata, haystacks and configurations -/

/-- the class map the previous tree computed for `(?m)^a` (`[00-60]`, `[61]`, `[62-FF]`: `\n` not separated) is refused
    by the checker — and the map of this tree is accepted (`classStep_caretA`) -/
theorem old_classes_rejected :
    classStepB nfaCaretA (fun b => if b < 97 then 0 else if b = 97 then 1 else 2) = false := by decide +kernel

/-- was `class_unsound_visible` (`(?m)^a` "matched" in "\n0a", end 3): with the byte classes of this tree the cached
    search, the uncached search and the reference agree -/
theorem class_fixed :
    (apiSearchAt nfaCaretA cfgCaretA Cache.empty #[10, 48, 97] 0).1 = .ok none ∧
    apiSearchAtU nfaCaretA cfgCaretA #[10, 48, 97] 0 = .ok none ∧
    btSearchAt nfaCaretA #[10, 48, 97] 0 = none := by decide

/-- `^`: `0/0/L.0.1;M` -/
def nfaCaret : NFA := { states := #[.look .startText 1, .mtch], startAnchored := 0, startUnanchored := 0 }

example : anchoredHeadB nfaCaret = true ∧ noRuneB nfaCaret = true ∧ sparseDisjointB nfaCaret = true := by decide

/-- was `empty_at_end_deviates` (`^` "matched" at offset 1 of "a"): `matchesEmptyAt` uses the real context -/
theorem empty_at_end_fixed :
    apiSearchAtU nfaCaret Config.plain #[97] 1 = .ok none ∧ btSearchAt nfaCaret #[97] 1 = none := by decide

/-- was `wb_precheck_deviates` (`x*\b` on "a\nx" at 2 ended at 2): the greedy `x` is consumed first -/
theorem wb_precheck_fixed :
    apiSearchAtU nfaXsWB Config.plain #[97, 10, 120] 2 = .ok (some 3) ∧
    btSearchAt nfaXsWB #[97, 10, 120] 2 = some (2, 3) := by decide

/-- `a|\B`: `2/6/B.97.97.3;L.5.3;P.0.1;E.4;M;B.0.255.6;P.2.5` -/
def nfaAorNotWB : NFA :=
  { states := #[.byteRange 97 97 3, .look .noWordB 3, .split 0 1, .eps 4, .mtch, .byteRange 0 255 6, .split 2 5],
    startAnchored := 2, startUnanchored := 6 }

/-- was `wb_precheck_deviates2` (`a|\B` on "aa" at 1 ended at 1): the higher-priority branch `a` wins -/
theorem wb_precheck_fixed2 :
    apiSearchAtU nfaAorNotWB Config.plain #[97, 97] 1 = .ok (some 2) ∧
    btSearchAt nfaAorNotWB #[97, 97] 1 = some (1, 2) := by decide

/-- `abc`: `0/5/B.97.97.1;B.98.98.2;B.99.99.3;M;B.0.255.5;P.0.4` -/
def nfaABC : NFA :=
  { states := #[.byteRange 97 97 1, .byteRange 98 98 2, .byteRange 99 99 3, .mtch, .byteRange 0 255 5, .split 0 4],
    startAnchored := 0, startUnanchored := 5 }

/-- cache of 200 bytes, 2 clears allowed, 5 byte classes (the real DFA for `abc` has 5) -/
def cfg200 : Config := { capacity := 200, maxClears := 2, stride := 5, cls := id }

/-- was `anchored_clear_visible` (`SearchAtAnchored` lost "abc" after a cache clear): the successor is re-inserted into
    the cleared cache and the search goes on -/
theorem anchored_clear_fixed :
    (apiSearchAtAnchored nfaABC cfg200 Cache.empty #[97, 98, 99] 0).1 = .ok (some 3) ∧
    apiSearchAtAnchoredU nfaABC cfg200 #[97, 98, 99] 0 = .ok (some 3) := by decide

/-- `[ab]*a[ab][ab]`: `2/8/B.97.98.2;E.3;P.0.1;B.97.97.4;B.97.98.5;B.97.98.6;M;B.0.255.8;P.2.7` -/
def nfaABs : NFA :=
  { states := #[.byteRange 97 98 2, .eps 3, .split 0 1, .byteRange 97 97 4, .byteRange 97 98 5, .byteRange 97 98 6, .mtch,
      .byteRange 0 255 8, .split 2 7],
    startAnchored := 2, startUnanchored := 8 }

/-- default capacity, the real byte classes of `[ab]*a[ab][ab]` (same as for `a|ab`) -/
def cfgABs : Config := { capacity := 2097152, maxClears := 5, stride := 4, cls := clsAB }

set_option maxRecDepth 100000 in
/-- was `accel_visible` (after four `SearchAtAnchored` calls had filled a row, `SearchAt` jumped over the `0` in
    "abbab0bb": end 7): the same session now ends at 3, like a fresh cache and the reference -/
theorem accel_fixed :
    (apiSearchAt nfaABs cfgABs (runCalls nfaABs cfgABs
        [.searchAtAnchored #[97, 98, 97] 0, .searchAtAnchored #[97, 98, 98] 0, .searchAtAnchored #[97, 98, 99] 0,
         .searchAtAnchored #[97, 98, 48] 0]) #[97, 98, 98, 97, 98, 48, 98, 98] 0).1 = .ok (some 3) ∧
    (apiSearchAt nfaABs cfgABs Cache.empty #[97, 98, 98, 97, 98, 48, 98, 98] 0).1 = .ok (some 3) ∧
    btSearchAt nfaABs #[97, 98, 98, 97, 98, 48, 98, 98] 0 = some (0, 3) := by decide +kernel

/-- `\B`: `0/3/L.5.1;M;B.0.255.3;P.0.2` -/
def nfaNotWB : NFA :=
  { states := #[.look .noWordB 1, .mtch, .byteRange 0 255 3, .split 0 2], startAnchored := 0, startUnanchored := 3 }

/-- was `wb_flags_visible` (`\B` on "  a": the cached `IsMatch` said false): there are no per-object flags any more -/
theorem wb_flags_fixed :
    (apiIsMatch nfaNotWB Config.plain Cache.empty #[32, 32, 97]).1 = .ok true ∧
    apiIsMatchU nfaNotWB Config.plain #[32, 32, 97] = .ok true := by decide

end Cx.Dfa
