import Cx.Proofs.DfaCache
import Cx.Proofs.DfaRef
import Cx.Proofs.DfaLimit
/-
  Cx.Proofs.Dfa — the lazy DFA of `dfa/lazy` (model: `Cx.Model.Dfa`): summary of what is proved, the combined
  statements, non-vacuity witnesses and the `decide`-checked deviations.

  (a) MEMOISATION IS INVISIBLE (Cx.Proofs.DfaCache).  Invariant `Inv` (every table entry `(S, class) ↦ T` satisfies
      `T ≃ step S b`; ids, start table, fresh ids, row 0) holds for `Cache.empty` (`inv_empty`), is preserved by
      `setTrans`/`insertNew`/`tagStart`/`clearRebuild`/`determinize`/`getStart` and by every search (`inv_call`,
      `inv_runCalls`), for EVERY capacity and clear limit, and
        searchAtC_eq    : searchAt  with cache = gaveUp ∨ = searchAt  without cache
        earliestC_eq    : searchEarliestMatch (IsMatch/IsMatchAt), same statement
        anchoredC_eq    : SearchAtAnchored, same statement, ONLY for `maxClears = 0`
      under `hasWB N = false`, `ClassSound N cfg`, `BytesOK h`, `NoAccel c` (acceleration is off: true for a new cache,
      preserved by SearchAt/IsMatch/IsMatchAt, broken by SearchAtAnchored), and (`c.clearCount = 0` or no `^`/`\A`).
      Each hypothesis is necessary:
        accel_visible            (4 SearchAtAnchored calls, then SearchAt on the same cache: acceleration kicks in and
                                  `[ab]*a[ab][ab]` "ends" at 7 instead of 3 in "abbab0bb")
        anchored_clear_visible   (maxClears > 0: SearchAtAnchored loses the threads in flight after a clear)
        class_unsound_visible    (the byte classes of `(?m)^a` put `\n` and `0` in one class: wrong answer)
        not_classSound_caretA    (… so `ClassSound` is false for the real class map of that NFA)
        wb_flags_visible         (`\B`: the pre-check flags of a state depend on how it was first created)
      `ClassSound` follows from the decidable `classStepB` when there is no look-around (`classSound_of_compat`); the
      harness finds `classStepB` true for the real byte classes of every look-free NFA it compiles.
  (b) UNCACHED DFA = REFERENCE (Cx.Proofs.DfaRef), for NFAs without look-around / rune states, disjoint sparse ranges,
      the compiler's unanchored prefix (all decidable: `lookFreeB`, `noRuneB`, `sparseDisjointB`, `prefixOKB`):
        searchAtU_eq_bt  : searchAt  = gaveUp ∨ = ok ((btSearchAt N h at).map (·.2))     (END of the leftmost-first match)
        anchoredU_eq_bt  : SearchAtAnchored = gaveUp ∨ = ok (btFirst N h at at)           (priority-first end from `at`)
        apiSearchAtU_end : SearchAt at `at = len` = ok ((btSearchAt N h len).map (·.2))
      `gaveUp` only through the determinization limit, which is never hit when `wfB N` and
      `N.states.size ≤ cfg.detLimit` (Cx.Proofs.DfaLimit; `searchAtU_eq_bt'` etc. are plain equalities).
  (c) earliestU_eq_bt   : searchEarliestMatch = gaveUp ∨ = ok (btSearchAt N h at).isSome, and
      bt_isSome_iff     : that is `∃ i j, at ≤ i ≤ len ∧ Accepts N h i j`.
  (a)+(b)+(c) combined: `searchAt_cached_eq_ref`, `isMatchAt_cached_iff`, `searchAtAnchored_cached_eq_ref`, and for
      whole sessions (any sequence of SearchAt/IsMatch/IsMatchAt calls on one cache, clears included):
      `session_searchAt`, `session_isMatchAt` (`inv_runCalls`: the table invariant survives all four entry points);
      `session_AB` is a closed instance (real NFA of `a|ab`, real byte classes, every hypothesis decided).
  (d) LOOK-AROUND: the model follows the code (fidelity harness: 0 mismatches); where the code deviates from the
      reference the deviation is reproduced here on the dumped NFA:
        empty_at_end_deviates    `^`  on "a" at 1: `matchesEmpty` asks the Pike VM about the EMPTY haystack
        wb_precheck_deviates     `x*\b` on "a\nx" at 2: the word-boundary pre-check returns before the greedy `x`
        wb_precheck_deviates2    `a|\B` on "aa" at 1: the pre-check beats the higher-priority branch `a`
      (and `class_unsound_visible` above, which is how most `(?m)^`, `$`, `\b` patterns go wrong in the real DFA).
-/
namespace Cx.Dfa
open Cx Cx.Nfa

/-! ### the entry points are the core searches when `at < len` -/

theorem apiSearchAt_lt (N : NFA) (cfg : Config) (c : Cache) (h : Bytes) {at_ : Nat} (hat : at_ < h.size) :
    apiSearchAt N cfg c h at_ = searchAtC N cfg c h at_ := by
  unfold apiSearchAt
  rw [if_neg (by omega), if_neg (by omega)]

theorem apiIsMatchAt_lt (N : NFA) (cfg : Config) (c : Cache) (h : Bytes) {at_ : Nat} (hat : at_ < h.size) :
    apiIsMatchAt N cfg c h at_ = earliestC N cfg c h at_ := by
  unfold apiIsMatchAt
  rw [if_neg (by omega)]

theorem apiSearchAtAnchored_lt (N : NFA) (cfg : Config) (c : Cache) (h : Bytes) {at_ : Nat} (hat : at_ < h.size) :
    apiSearchAtAnchored N cfg c h at_ = anchoredC N cfg c h at_ := by
  unfold apiSearchAtAnchored
  rw [if_neg (by omega), if_neg (by omega)]

/-! ### (a) + (b) + (c) -/

theorem noStartLook_of_lookFree {N : NFA} (h : lookFreeB N = true) : noStartLookB N = true := by
  unfold noStartLookB
  rw [hasLookWhere_lookFree h]
  rfl

/-- `SearchAt` on a cache: NFA fallback, or the end of the reference's leftmost-first match -/
theorem searchAt_cached_eq_ref {N : NFA} (hlfB : lookFreeB N = true) (hnrB : noRuneB N = true)
    (hsdB : sparseDisjointB N = true) (hpB : prefixOKB N = true) {cfg : Config} (hbrk : cfg.breakAtMatch = true)
    (hC : ClassSound N cfg) {h : Bytes} (hb : BytesOK h) {c : Cache} (hI : Inv N cfg c) (hN : NoAccel c)
    {at_ : Nat} (hat : at_ < h.size) :
    Inv N cfg (apiSearchAt N cfg c h at_).2 ∧ NoAccel (apiSearchAt N cfg c h at_).2 ∧
    ((apiSearchAt N cfg c h at_).1 = .gaveUp ∨ (apiSearchAt N cfg c h at_).1 = .ok ((btSearchAt N h at_).map (·.2))) := by
  rw [apiSearchAt_lt N cfg c h hat]
  obtain ⟨i1, i1', i2⟩ := searchAtC_eq (hasWB_of_lookFree hlfB) hC hb hI hN (Or.inr (noStartLook_of_lookFree hlfB)) hat
  refine ⟨i1, i1', ?_⟩
  rcases i2 with hg | he
  · exact Or.inl hg
  · rw [he]
    exact searchAtU_eq_bt hlfB hnrB hsdB hpB cfg hbrk hb (Nat.le_of_lt hat)

/-- `IsMatchAt` on a cache: NFA fallback, or `true` exactly when some span starting at or after `at` is accepted -/
theorem isMatchAt_cached_iff {N : NFA} (hlfB : lookFreeB N = true) (hnrB : noRuneB N = true)
    (hsdB : sparseDisjointB N = true) (hpB : prefixOKB N = true) {cfg : Config} (hbrk : cfg.breakAtMatch = true)
    (hC : ClassSound N cfg) {h : Bytes} (hb : BytesOK h) {c : Cache} (hI : Inv N cfg c) (hN : NoAccel c)
    {at_ : Nat} (hat : at_ < h.size) :
    (apiIsMatchAt N cfg c h at_).1 = .gaveUp ∨
    ∃ r, (apiIsMatchAt N cfg c h at_).1 = .ok r ∧ (r = true ↔ ∃ i j, at_ ≤ i ∧ i ≤ h.size ∧ Accepts N h i j) := by
  rw [apiIsMatchAt_lt N cfg c h hat]
  rcases (earliestC_eq (hasWB_of_lookFree hlfB) hC hb hI hN (Or.inr (noStartLook_of_lookFree hlfB)) hat).2.2 with hg | he
  · exact Or.inl hg
  · rw [he]
    rcases earliestU_eq_bt hlfB hnrB hsdB hpB cfg hbrk hb (Nat.le_of_lt hat) with hg | hok
    · exact Or.inl hg
    · exact Or.inr ⟨_, hok, bt_isSome_iff N h (Nat.le_of_lt hat)⟩

/-- `SearchAtAnchored` on a cache that is never cleared: NFA fallback, or the priority-first end from `at` -/
theorem searchAtAnchored_cached_eq_ref {N : NFA} (hlfB : lookFreeB N = true) (hnrB : noRuneB N = true)
    (hsdB : sparseDisjointB N = true) {cfg : Config} (hbrk : cfg.breakAtMatch = true) (hm0 : cfg.maxClears = 0)
    (hC : ClassSound N cfg) {h : Bytes} (hb : BytesOK h) {c : Cache} (hI : Inv N cfg c) (h0 : c.clearCount = 0)
    {at_ : Nat} (hat : at_ < h.size) :
    (apiSearchAtAnchored N cfg c h at_).1 = .gaveUp ∨
    (apiSearchAtAnchored N cfg c h at_).1 = .ok (Pike.btFirst N h at_ at_) := by
  rw [apiSearchAtAnchored_lt N cfg c h hat]
  rcases (anchoredC_eq (hasWB_of_lookFree hlfB) hC hb hm0 hI h0 hat).2 with hg | he
  · exact Or.inl hg
  · rw [he]
    exact anchoredU_eq_bt hlfB hnrB hsdB cfg hbrk h (Nat.le_of_lt hat)

/-- `SearchAt` at `at = len` (the cache is only consulted for the state in row 0) -/
theorem searchAt_cached_end {N : NFA} (hlfB : lookFreeB N = true) (hpB : prefixOKB N = true) {cfg : Config} {h : Bytes}
    {c : Cache} (hI : Inv N cfg c) :
    apiSearchAt N cfg c h h.size = (.ok ((btSearchAt N h h.size).map (·.2)), c) := by
  have := apiSearchAtU_end hlfB cfg h
  unfold apiSearchAtU at this
  rw [if_neg (by omega), if_pos rfl] at this
  unfold apiSearchAt
  rw [if_neg (by omega), if_pos rfl, matchesEmptyC_eq hlfB hpB hI, this]

/-- the uncached searches with the limit out of the way: plain equalities -/
theorem searchAtU_eq_bt' {N : NFA} (hwf : wfB N = true) (hlfB : lookFreeB N = true) (hnrB : noRuneB N = true)
    (hsdB : sparseDisjointB N = true) (hpB : prefixOKB N = true) (cfg : Config) (hbrk : cfg.breakAtMatch = true)
    (hl : N.states.size ≤ cfg.detLimit) {h : Bytes} (hb : BytesOK h) {at_ : Nat} (hat : at_ ≤ h.size) :
    searchAtU N cfg h at_ = .ok ((btSearchAt N h at_).map (·.2)) := by
  rcases searchAtU_eq_bt hlfB hnrB hsdB hpB cfg hbrk hb hat with hg | he
  · exact absurd hg (searchAtU_ne_gaveUp hwf hl h at_)
  · exact he

theorem anchoredU_eq_bt' {N : NFA} (hwf : wfB N = true) (hlfB : lookFreeB N = true) (hnrB : noRuneB N = true)
    (hsdB : sparseDisjointB N = true) (cfg : Config) (hbrk : cfg.breakAtMatch = true)
    (hl : N.states.size ≤ cfg.detLimit) (h : Bytes) {at_ : Nat} (hat : at_ ≤ h.size) :
    anchoredU N cfg h at_ = .ok (Pike.btFirst N h at_ at_) := by
  rcases anchoredU_eq_bt hlfB hnrB hsdB cfg hbrk h hat with hg | he
  · exact absurd hg (anchoredU_ne_gaveUp hwf hl h at_)
  · exact he

theorem earliestU_eq_bt' {N : NFA} (hwf : wfB N = true) (hlfB : lookFreeB N = true) (hnrB : noRuneB N = true)
    (hsdB : sparseDisjointB N = true) (hpB : prefixOKB N = true) (cfg : Config) (hbrk : cfg.breakAtMatch = true)
    (hl : N.states.size ≤ cfg.detLimit) {h : Bytes} (hb : BytesOK h) {at_ : Nat} (hat : at_ ≤ h.size) :
    earliestU N cfg h at_ = .ok (btSearchAt N h at_).isSome := by
  rcases earliestU_eq_bt hlfB hnrB hsdB hpB cfg hbrk hb hat with hg | he
  · exact absurd hg (earliestU_ne_gaveUp hwf hl h at_)
  · exact he

/-! ### whole sessions: any sequence of calls on one cache, any capacity, any number of clears -/

/-- a call of an exported entry point -/
inductive Call where
  | searchAt (h : Bytes) (at_ : Nat)
  | searchAtAnchored (h : Bytes) (at_ : Nat)
  | isMatch (h : Bytes)
  | isMatchAt (h : Bytes) (at_ : Nat)

def Call.hay : Call → Bytes
  | .searchAt h _ => h
  | .searchAtAnchored h _ => h
  | .isMatch h => h
  | .isMatchAt h _ => h

def Call.isAnchored : Call → Bool
  | .searchAtAnchored _ _ => true
  | _ => false

/-- the cache after the call -/
def Call.run (N : NFA) (cfg : Config) (c : Cache) : Call → Cache
  | .searchAt h a => (apiSearchAt N cfg c h a).2
  | .searchAtAnchored h a => (apiSearchAtAnchored N cfg c h a).2
  | .isMatch h => (apiIsMatch N cfg c h).2
  | .isMatchAt h a => (apiIsMatchAt N cfg c h a).2

/-- the cache after a sequence of calls, starting from `NewCache()` -/
def runCalls (N : NFA) (cfg : Config) (calls : List Call) : Cache := calls.foldl (Call.run N cfg) Cache.empty

/-- the table invariant survives every call (no hypothesis on the automaton besides sound byte classes) -/
theorem inv_call {N : NFA} {cfg : Config} (hC : ClassSound N cfg) {c : Cache} (hI : Inv N cfg c) (k : Call)
    (hb : BytesOK k.hay) : Inv N cfg (k.run N cfg c) := by
  cases k with
  | searchAt h a =>
    show Inv N cfg (apiSearchAt N cfg c h a).2
    unfold apiSearchAt
    split
    · exact hI
    · split
      · exact hI
      · exact searchAtC_inv (h := h) hC hb hI a
  | searchAtAnchored h a =>
    show Inv N cfg (apiSearchAtAnchored N cfg c h a).2
    unfold apiSearchAtAnchored
    split
    · exact hI
    · split
      · exact hI
      · exact anchoredC_inv (h := h) hC hb hI a
  | isMatch h =>
    show Inv N cfg (apiIsMatch N cfg c h).2
    unfold apiIsMatch
    split
    · exact hI
    · exact earliestC_inv (h := h) hC hb hI 0
  | isMatchAt h a =>
    show Inv N cfg (apiIsMatchAt N cfg c h a).2
    unfold apiIsMatchAt
    split
    · exact hI
    · exact earliestC_inv (h := h) hC hb hI a

/-- acceleration stays off under `SearchAt` / `IsMatch` / `IsMatchAt` calls -/
theorem noAccel_call {N : NFA} {cfg : Config} (hW : hasWB N = false) (hns : noStartLookB N = true) (hC : ClassSound N cfg)
    {c : Cache} (hI : Inv N cfg c) (hN : NoAccel c) (k : Call) (hb : BytesOK k.hay) (hk : k.isAnchored = false) :
    NoAccel (k.run N cfg c) := by
  cases k with
  | searchAt h a =>
    show NoAccel (apiSearchAt N cfg c h a).2
    unfold apiSearchAt
    split
    · exact hN
    · split
      · exact hN
      · exact (searchAtC_eq (h := h) hW hC hb hI hN (Or.inr hns) (by omega)).2.1
  | searchAtAnchored h a => cases hk
  | isMatch h =>
    show NoAccel (apiIsMatch N cfg c h).2
    unfold apiIsMatch
    split
    · exact hN
    · exact (earliestC_eq (h := h) hW hC hb hI hN (Or.inr hns) (by omega)).2.1
  | isMatchAt h a =>
    show NoAccel (apiIsMatchAt N cfg c h a).2
    unfold apiIsMatchAt
    split
    · exact hN
    · exact (earliestC_eq (h := h) hW hC hb hI hN (Or.inr hns) (by omega)).2.1

/-- every cache reachable from `NewCache()` by calls of the four entry points satisfies the table invariant -/
theorem inv_runCalls {N : NFA} {cfg : Config} (hC : ClassSound N cfg) (calls : List Call)
    (hb : ∀ k ∈ calls, BytesOK k.hay) : Inv N cfg (runCalls N cfg calls) := by
  unfold runCalls
  suffices ∀ (l : List Call) (c : Cache), Inv N cfg c → (∀ k ∈ l, BytesOK k.hay) → Inv N cfg (l.foldl (Call.run N cfg) c) from
    this calls _ (inv_empty N cfg) hb
  intro l
  induction l with
  | nil => intro c hI _; exact hI
  | cons k ks ih =>
    intro c hI hb
    exact ih _ (inv_call hC hI k (hb k List.mem_cons_self)) (fun k' hk' => hb k' (List.mem_cons_of_mem _ hk'))

/-- … and acceleration is off in it if `SearchAtAnchored` was never among the calls -/
theorem noAccel_runCalls {N : NFA} {cfg : Config} (hW : hasWB N = false) (hns : noStartLookB N = true)
    (hC : ClassSound N cfg) (calls : List Call) (hb : ∀ k ∈ calls, BytesOK k.hay)
    (hk : ∀ k ∈ calls, k.isAnchored = false) : NoAccel (runCalls N cfg calls) := by
  unfold runCalls
  suffices ∀ (l : List Call) (c : Cache), Inv N cfg c → NoAccel c → (∀ k ∈ l, BytesOK k.hay) →
      (∀ k ∈ l, k.isAnchored = false) → NoAccel (l.foldl (Call.run N cfg) c) from
    this calls _ (inv_empty N cfg) noAccel_empty hb hk
  intro l
  induction l with
  | nil => intro c _ hN _ _; exact hN
  | cons k ks ih =>
    intro c hI hN hb hk
    exact ih _ (inv_call hC hI k (hb k List.mem_cons_self))
      (noAccel_call hW hns hC hI hN k (hb k List.mem_cons_self) (hk k List.mem_cons_self))
      (fun k' hk' => hb k' (List.mem_cons_of_mem _ hk')) (fun k' hk' => hk k' (List.mem_cons_of_mem _ hk'))

/-- (a)+(b) FOR A WHOLE SESSION: after ANY sequence of `SearchAt` / `IsMatch` / `IsMatchAt` calls on one cache (any
    capacity, any clear limit, clears included), `SearchAt` either falls back to the NFA or reports the end of the
    reference's leftmost-first match.  (`SearchAtAnchored` calls on the same cache are excluded: they enable the
    unsound state acceleration, `accel_visible`.) -/
theorem session_searchAt {N : NFA} (hlfB : lookFreeB N = true) (hnrB : noRuneB N = true) (hsdB : sparseDisjointB N = true)
    (hpB : prefixOKB N = true) {cfg : Config} (hbrk : cfg.breakAtMatch = true) (hC : ClassSound N cfg)
    (calls : List Call) (hbs : ∀ k ∈ calls, BytesOK k.hay) (hks : ∀ k ∈ calls, k.isAnchored = false) {h : Bytes}
    (hb : BytesOK h) {at_ : Nat} (hat : at_ ≤ h.size) :
    (apiSearchAt N cfg (runCalls N cfg calls) h at_).1 = .gaveUp ∨
    (apiSearchAt N cfg (runCalls N cfg calls) h at_).1 = .ok ((btSearchAt N h at_).map (·.2)) := by
  have hI := inv_runCalls hC calls hbs
  have hN := noAccel_runCalls (hasWB_of_lookFree hlfB) (noStartLook_of_lookFree hlfB) hC calls hbs hks
  by_cases hlt : at_ < h.size
  · exact (searchAt_cached_eq_ref hlfB hnrB hsdB hpB hbrk hC hb hI hN hlt).2.2
  · have : at_ = h.size := by omega
    subst this
    right
    rw [searchAt_cached_end hlfB hpB hI]

theorem session_isMatchAt {N : NFA} (hlfB : lookFreeB N = true) (hnrB : noRuneB N = true) (hsdB : sparseDisjointB N = true)
    (hpB : prefixOKB N = true) {cfg : Config} (hbrk : cfg.breakAtMatch = true) (hC : ClassSound N cfg)
    (calls : List Call) (hbs : ∀ k ∈ calls, BytesOK k.hay) (hks : ∀ k ∈ calls, k.isAnchored = false) {h : Bytes}
    (hb : BytesOK h) {at_ : Nat} (hat : at_ < h.size) :
    (apiIsMatchAt N cfg (runCalls N cfg calls) h at_).1 = .gaveUp ∨
    ∃ r, (apiIsMatchAt N cfg (runCalls N cfg calls) h at_).1 = .ok r ∧
      (r = true ↔ ∃ i j, at_ ≤ i ∧ i ≤ h.size ∧ Accepts N h i j) :=
  isMatchAt_cached_iff hlfB hnrB hsdB hpB hbrk hC hb (inv_runCalls hC calls hbs)
    (noAccel_runCalls (hasWB_of_lookFree hlfB) (noStartLook_of_lookFree hlfB) hC calls hbs hks) hat

/-! ### non-vacuity: the compiled NFA of `a|ab` (dumped from the real compiler) -/

/-- `a|ab`: `0/7/B.97.97.3;E.4;B.98.98.4;P.1.2;E.5;M;B.0.255.7;P.0.6` -/
def nfaAB : NFA :=
  { states := #[.byteRange 97 97 3, .eps 4, .byteRange 98 98 4, .split 1 2, .eps 5, .mtch, .byteRange 0 255 7, .split 0 6],
    startAnchored := 0, startUnanchored := 7 }

example : lookFreeB nfaAB = true ∧ noRuneB nfaAB = true ∧ sparseDisjointB nfaAB = true ∧ prefixOKB nfaAB = true ∧
    wfB nfaAB = true := by decide

theorem bytesOK_bab : BytesOK #[98, 97, 98] := by
  intro i
  match i with
  | 0 => decide
  | 1 => decide
  | 2 => decide
  | n+3 => simp [Bytes.at, Array.getD_eq_getD_getElem?]

/-- leftmost-first: on "bab" the DFA reports end 2 (`a`), not 3 (`ab`) -/
example : searchAtU nfaAB Config.plain #[98, 97, 98] 0 = .ok (some 2) := by decide

example : searchAtU nfaAB Config.plain #[98, 97, 98] 0 = .ok ((btSearchAt nfaAB #[98, 97, 98] 0).map (·.2)) := by
  rcases searchAtU_eq_bt (N := nfaAB) (by decide) (by decide) (by decide) (by decide) Config.plain rfl bytesOK_bab
    (at_ := 0) (by decide) with h | h
  · exact absurd h (by decide)
  · exact h

/-- small caches: the answer is the uncached one, or `gaveUp` -/
example : (apiSearchAt nfaAB { Config.plain with capacity := 5000 } Cache.empty #[98, 97, 98] 0).1 = .ok (some 2) := by
  decide
example : (apiSearchAt nfaAB { Config.plain with capacity := 1 } Cache.empty #[98, 97, 98] 0).1 = .gaveUp := by decide

/-- the byte classes the compiler computes for `a|ab`: `[00-60]`, `[61]`, `[62]`, `[63-FF]` -/
def clsAB (b : Nat) : Nat := if b < 97 then 0 else if b = 97 then 1 else if b = 98 then 2 else 3

set_option maxRecDepth 100000 in
theorem classStep_AB : classStepB nfaAB clsAB = true := by decide +kernel

/-- A CLOSED INSTANCE: for the compiled NFA of `a|ab` with its real byte classes, ANY capacity and clear limit, after ANY
    sequence of `SearchAt`/`IsMatch`/`IsMatchAt` calls on the cache, `SearchAt` is the NFA fallback or the reference's end — all hypotheses decided -/
theorem session_AB (capacity maxClears : Nat) (calls : List Call) (hbs : ∀ k ∈ calls, BytesOK k.hay)
    (hks : ∀ k ∈ calls, k.isAnchored = false) {h : Bytes} (hb : BytesOK h) {at_ : Nat} (hat : at_ ≤ h.size) :
    let cfg : Config := { capacity := capacity, maxClears := maxClears, stride := 4, cls := clsAB }
    (apiSearchAt nfaAB cfg (runCalls nfaAB cfg calls) h at_).1 = .gaveUp ∨
    (apiSearchAt nfaAB cfg (runCalls nfaAB cfg calls) h at_).1 = .ok ((btSearchAt nfaAB h at_).map (·.2)) := by
  intro cfg
  have hlf : lookFreeB nfaAB = true := by decide
  exact session_searchAt hlf (by decide) (by decide) (by decide) rfl
    (classSound_of_compat hlf cfg rfl (classCompat_of_step classStep_AB)) calls hbs hks hb hat

/-! ### (a) fails without its hypotheses -/

/-- `abc`: `0/5/B.97.97.1;B.98.98.2;B.99.99.3;M;B.0.255.5;P.0.4` -/
def nfaABC : NFA :=
  { states := #[.byteRange 97 97 1, .byteRange 98 98 2, .byteRange 99 99 3, .mtch, .byteRange 0 255 5, .split 0 4],
    startAnchored := 0, startUnanchored := 5 }

/-- cache of 200 bytes, 2 clears allowed, 5 byte classes (the real DFA for `abc` has 5) -/
def cfg200 : Config := { capacity := 200, maxClears := 2, stride := 5, cls := id }

/-- `SearchAtAnchored` after a cache clear restarts from the start state at the current position: "abc" is not found.
    (Real code: `fidelity/witness` prints -1 for this configuration, 3 with the default cache.) -/
theorem anchored_clear_visible :
    (apiSearchAtAnchored nfaABC cfg200 Cache.empty #[97, 98, 99] 0).1 = .ok none ∧
    apiSearchAtAnchoredU nfaABC cfg200 #[97, 98, 99] 0 = .ok (some 3) := by decide

/-- `[ab]*a[ab][ab]`: `2/8/B.97.98.2;E.3;P.0.1;B.97.97.4;B.97.98.5;B.97.98.6;M;B.0.255.8;P.2.7` -/
def nfaABs : NFA :=
  { states := #[.byteRange 97 98 2, .eps 3, .split 0 1, .byteRange 97 97 4, .byteRange 97 98 5, .byteRange 97 98 6, .mtch,
      .byteRange 0 255 8, .split 2 7],
    startAnchored := 2, startUnanchored := 8 }

/-- default capacity, the real byte classes of `[ab]*a[ab][ab]` (same as for `a|ab`) -/
def cfgABs : Config := { capacity := 2097152, maxClears := 5, stride := 4, cls := clsAB }

/-- STATE ACCELERATION IS UNSOUND AND MEMOISATION-VISIBLE.  Four `SearchAtAnchored` calls fill the row of the state
    reached by "ab" without running the acceleration detection; the next `SearchAt` on the same cache then finds the row
    full, declares the state accelerable (exit classes `a`, `b`; the dead class counts as "stay") and jumps over the
    `0` in "abbab0bb": end 7 instead of 3.  (Real code: `fidelity/accel` prints 7; a fresh cache gives 3.) -/
theorem accel_visible :
    (apiSearchAt nfaABs cfgABs (runCalls nfaABs cfgABs
        [.searchAtAnchored #[97, 98, 97] 0, .searchAtAnchored #[97, 98, 98] 0, .searchAtAnchored #[97, 98, 99] 0,
         .searchAtAnchored #[97, 98, 48] 0]) #[97, 98, 98, 97, 98, 48, 98, 98] 0).1 = .ok (some 7) ∧
    (apiSearchAt nfaABs cfgABs Cache.empty #[97, 98, 98, 97, 98, 48, 98, 98] 0).1 = .ok (some 3) ∧
    btSearchAt nfaABs #[97, 98, 98, 97, 98, 48, 98, 98] 0 = some (0, 3) := by decide

/-- `(?m)^a`: `0/4/L.2.1;B.97.97.2;M;B.0.255.4;P.0.3` -/
def nfaCaretA : NFA :=
  { states := #[.look .startLine 1, .byteRange 97 97 2, .mtch, .byteRange 0 255 4, .split 0 3],
    startAnchored := 0, startUnanchored := 4 }

/-- the byte classes the compiler computes for `(?m)^a`: `[00-60]`, `[61]`, `[62-FF]` — `\n` is not separated -/
def cfgCaretA : Config :=
  { capacity := 2097152, maxClears := 5, stride := 3, cls := fun b => if b < 97 then 0 else if b = 97 then 1 else 2 }

/-- the transition computed for `\n` is reused for `0` (same class): `(?m)^a` "matches" in "\n0a".
    (Real code: `fidelity/witness` prints 3.) -/
theorem class_unsound_visible :
    (apiSearchAt nfaCaretA cfgCaretA Cache.empty #[10, 48, 97] 0).1 = .ok (some 3) ∧
    apiSearchAtU nfaCaretA cfgCaretA #[10, 48, 97] 0 = .ok none ∧
    btSearchAt nfaCaretA #[10, 48, 97] 0 = none := by decide

theorem not_classSound_caretA : ¬ ClassSound nfaCaretA cfgCaretA := by
  intro hC
  have h1 : step nfaCaretA cfgCaretA (startState nfaCaretA .text false) 10 =
      .next { nfa := [4, 0, 1, 3], isMatch := false, fromWord := false } := by decide
  have h2 : step nfaCaretA cfgCaretA (startState nfaCaretA .text false) 48 =
      .next { nfa := [4, 0, 3], isMatch := false, fromWord := true } := by decide
  obtain ⟨T', e1, e2, _⟩ := (hC (startState nfaCaretA .text false) 10 48 (by decide) (by decide) rfl).2 _ h1
  rw [h2] at e1
  cases e1
  exact absurd e2 (by decide)

/-- `\B`: `0/3/L.5.1;M;B.0.255.3;P.0.2` -/
def nfaNotWB : NFA :=
  { states := #[.look .noWordB 1, .mtch, .byteRange 0 255 3, .split 0 2], startAnchored := 0, startUnanchored := 3 }

/-- with word boundaries the flags `matchAt(Non)WordBoundary` belong to the state OBJECT: the start state (flags never
    computed) and the equal-keyed state `determinize` would create are the same cache entry.  Identity classes. -/
theorem wb_flags_visible :
    (apiIsMatch nfaNotWB Config.plain Cache.empty #[32, 32, 97]).1 = .ok false ∧
    apiIsMatchU nfaNotWB Config.plain #[32, 32, 97] = .ok true := by decide

/-! ### (d) the code (and the model) against the reference, with look-around -/

/-- `^`: `0/0/L.0.1;M` -/
def nfaCaret : NFA := { states := #[.look .startText 1, .mtch], startAnchored := 0, startUnanchored := 0 }

/-- `SearchAt(h, len(h))` asks the Pike VM whether the EMPTY haystack matches: `^` "matches" at offset 1 of "a" -/
theorem empty_at_end_deviates :
    apiSearchAtU nfaCaret Config.plain #[97] 1 = .ok (some 1) ∧ btSearchAt nfaCaret #[97] 1 = none := by decide

/-- `x*\b`: `2/6/B.120.120.2;E.3;P.0.1;L.4.4;M;B.0.255.6;P.2.5` -/
def nfaXsWB : NFA :=
  { states := #[.byteRange 120 120 2, .eps 3, .split 0 1, .look .wordB 4, .mtch, .byteRange 0 255 6, .split 2 5],
    startAnchored := 2, startUnanchored := 6 }

/-- the word-boundary pre-check returns the current position before the greedy `x*` gets to consume the `x` -/
theorem wb_precheck_deviates :
    apiSearchAtU nfaXsWB Config.plain #[97, 10, 120] 2 = .ok (some 2) ∧
    btSearchAt nfaXsWB #[97, 10, 120] 2 = some (2, 3) := by decide

/-- `a|\B`: `2/6/B.97.97.3;L.5.3;P.0.1;E.4;M;B.0.255.6;P.2.5` -/
def nfaAorNotWB : NFA :=
  { states := #[.byteRange 97 97 3, .look .noWordB 3, .split 0 1, .eps 4, .mtch, .byteRange 0 255 6, .split 2 5],
    startAnchored := 2, startUnanchored := 6 }

theorem wb_precheck_deviates2 :
    apiSearchAtU nfaAorNotWB Config.plain #[97, 97] 1 = .ok (some 1) ∧
    btSearchAt nfaAorNotWB #[97, 97] 1 = some (1, 2) := by decide

end Cx.Dfa
