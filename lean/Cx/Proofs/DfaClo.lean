import Cx.Proofs.DfaCache
import Cx.Proofs.Nfa
/-
  Cx.Proofs.DfaClo — the ordered epsilon closure of `dfa/lazy` (`epsilonClosureInto`: explicit stack, visited check on
  pop, result in insertion order) without fuel, and the RE-CLOSURE LEMMA behind `resolveLookAhead`:

      reclose : lk1 ⊑ lk2 →  epsilonClosure N (seeds.foldl (closeSeed N lk1) []) lk2 = seeds.foldl (closeSeed N lk2) []

  i.e. re-closing, in order, the thread list that was computed with fewer assertions satisfied gives exactly the list the
  original closure would have produced with the larger look set — same states, same (priority) order.  This is what
  makes it sound to close targets with the look-behind assertions only and to resolve `$`, `\b`, `\B`, `\z` when the
  next byte (or the end of input) is known.

  `Clo N lk st res r`: the loop started with stack `st` and result set `res` ends with `r` (relational, deterministic).
  `clo_of_fuel`: `closureInto` with `fuel ≥ |st| + 2·#(unvisited states)` realises it — no well-formedness needed: every
  pop either skips, or adds an in-range state (at most once each, pushing ≤ 2), or adds an out-of-range id (pushes
  nothing), so `2·|states| + 2` is enough for a single seed on any duplicate-free `res`.
-/
namespace Cx.Dfa
open Cx Cx.Nfa

theorem nodup_bounded_length : ∀ (n : Nat) (L : List Nat), L.Nodup → (∀ q ∈ L, q < n) → L.length ≤ n := by
  intro n
  induction n with
  | zero =>
    intro L _ hb
    cases L with
    | nil => simp
    | cons x xs => exact absurd (hb x List.mem_cons_self) (by omega)
  | succ n ih =>
    intro L hn hb
    by_cases hm : n ∈ L
    · have h1 := ih (L.erase n) (hn.erase n) (by
        intro q hq
        have := (hn.mem_erase_iff).mp hq
        have := hb q this.2
        omega)
      have := List.length_erase_of_mem hm
      omega
    · have := ih L hn (by
        intro q hq
        have := hb q hq
        have : q ≠ n := fun h => hm (h ▸ hq)
        omega)
      omega

/-! ### the closure loop as a relation -/

inductive Clo (N : NFA) (lk : LookSet) : List Nat → List Nat → List Nat → Prop where
  | nil (res : List Nat) : Clo N lk [] res res
  | skip {q : Nat} {st res r : List Nat} : res.contains q = true → Clo N lk st res r → Clo N lk (q :: st) res r
  | add {q : Nat} {st res r : List Nat} : res.contains q = false → Clo N lk (succs N lk q ++ st) (res ++ [q]) r →
      Clo N lk (q :: st) res r

theorem Clo.det {N : NFA} {lk : LookSet} {st res r1 r2 : List Nat} (h1 : Clo N lk st res r1) (h2 : Clo N lk st res r2) :
    r1 = r2 := by
  induction h1 generalizing r2 with
  | nil res => cases h2; rfl
  | skip hc _ ih =>
    cases h2 with
    | skip _ h2' => exact ih h2'
    | add hc' _ => rw [hc] at hc'; cases hc'
  | add hc _ ih =>
    cases h2 with
    | skip hc' _ => rw [hc] at hc'; cases hc'
    | add _ h2' => exact ih h2'

theorem Clo.append {N : NFA} {lk : LookSet} {s1 res r1 : List Nat} (h1 : Clo N lk s1 res r1) {s2 r : List Nat}
    (h2 : Clo N lk s2 r1 r) : Clo N lk (s1 ++ s2) res r := by
  induction h1 with
  | nil res => exact h2
  | skip hc _ ih => exact Clo.skip hc (ih h2)
  | add hc _ ih =>
    refine Clo.add hc ?_
    have := ih h2
    rw [List.append_assoc] at this
    exact this

theorem Clo.nodup {N : NFA} {lk : LookSet} {st res r : List Nat} (h : Clo N lk st res r) (hn : res.Nodup) : r.Nodup := by
  induction h with
  | nil res => exact hn
  | skip _ _ ih => exact ih hn
  | add hc _ ih =>
    apply ih
    rw [List.nodup_append]
    refine ⟨hn, by simp, ?_⟩
    intro a ha b hb
    simp at hb
    subst hb
    intro hab
    subst hab
    have hca : List.contains _ a = true := List.contains_iff_mem.mpr ha
    rw [hca] at hc
    cases hc

/-- the result extends `res` -/
theorem Clo.prefix {N : NFA} {lk : LookSet} {st res r : List Nat} (h : Clo N lk st res r) : ∃ new, r = res ++ new := by
  induction h with
  | nil res => exact ⟨[], by simp⟩
  | skip _ _ ih => exact ih
  | @add q st res r _ _ ih =>
    obtain ⟨new, hnew⟩ := ih
    exact ⟨q :: new, by rw [hnew]; simp⟩

/-- closed up to the stack: successors of result members are in the result or still on the stack -/
def CM (N : NFA) (lk : LookSet) (st res : List Nat) : Prop :=
  ∀ q ∈ res, ∀ t ∈ succs N lk q, t ∈ res ∨ t ∈ st

theorem Clo.closed {N : NFA} {lk : LookSet} {st res r : List Nat} (h : Clo N lk st res r) (hc : CM N lk st res) :
    CM N lk [] r ∧ (∀ x ∈ res, x ∈ r) ∧ (∀ x ∈ st, x ∈ r) := by
  induction h with
  | nil res => exact ⟨hc, fun x hx => hx, fun x hx => by cases hx⟩
  | @skip q st res r hq _ ih =>
    have hqm : q ∈ res := by simpa using hq
    have hc' : CM N lk st res := by
      intro q' hq' t ht
      rcases hc q' hq' t ht with h1 | h1
      · exact Or.inl h1
      · rcases List.mem_cons.mp h1 with h2 | h2
        · exact Or.inl (h2 ▸ hqm)
        · exact Or.inr h2
    obtain ⟨i1, i2, i3⟩ := ih hc'
    refine ⟨i1, i2, ?_⟩
    intro x hx
    rcases List.mem_cons.mp hx with h2 | h2
    · exact i2 x (h2 ▸ hqm)
    · exact i3 x h2
  | @add q st res r hq _ ih =>
    have hc' : CM N lk (succs N lk q ++ st) (res ++ [q]) := by
      intro q' hq' t ht
      rcases List.mem_append.mp hq' with h1 | h1
      · rcases hc q' h1 t ht with h2 | h2
        · exact Or.inl (List.mem_append_left _ h2)
        · rcases List.mem_cons.mp h2 with h3 | h3
          · exact Or.inl (by rw [h3]; simp)
          · exact Or.inr (List.mem_append_right _ h3)
      · have : q' = q := by simpa using h1
        subst this
        exact Or.inr (List.mem_append_left _ ht)
    obtain ⟨i1, i2, i3⟩ := ih hc'
    refine ⟨i1, fun x hx => i2 x (List.mem_append_left _ hx), ?_⟩
    intro x hx
    rcases List.mem_cons.mp hx with h2 | h2
    · exact i2 x (by rw [h2]; simp)
    · exact i3 x (List.mem_append_right _ h2)

/-! ### `closureInto` realises the relation -/

/-- members of `res` that are states of the automaton -/
def cnt (N : NFA) (res : List Nat) : Nat := (res.filter (fun q => decide (q < N.states.size))).length

theorem cnt_le {N : NFA} {res : List Nat} (hn : res.Nodup) : cnt N res ≤ N.states.size := by
  unfold cnt
  apply nodup_bounded_length
  · exact List.Nodup.sublist List.filter_sublist hn
  · intro q hq
    have := (List.mem_filter.mp hq).2
    simpa using this

theorem succs_length_le (N : NFA) (lk : LookSet) (q : Nat) : (succs N lk q).length ≤ 2 := by
  unfold succs
  cases N.get q <;> simp
  split <;> simp

theorem succs_oob {N : NFA} (lk : LookSet) {q : Nat} (hq : N.states.size ≤ q) : succs N lk q = [] := by
  unfold succs; rw [get_oob N hq]

theorem clo_of_fuel {N : NFA} {lk : LookSet} : ∀ (fuel : Nat) (st res : List Nat), res.Nodup →
    st.length + 2 * (N.states.size - cnt N res) ≤ fuel → Clo N lk st res (closureInto N lk fuel st res) := by
  intro fuel
  induction fuel with
  | zero =>
    intro st res _ hf
    have : st = [] := List.eq_nil_of_length_eq_zero (by omega)
    subst this
    exact Clo.nil res
  | succ fuel ih =>
    intro st res hn hf
    cases st with
    | nil => exact Clo.nil res
    | cons q st =>
      simp only [closureInto]
      simp only [List.length_cons] at hf
      by_cases hc : res.contains q = true
      · rw [if_pos hc]
        exact Clo.skip hc (ih st res hn (by omega))
      · rw [if_neg hc]
        have hcf : res.contains q = false := by simpa using hc
        refine Clo.add hcf (ih _ _ ?_ ?_)
        · rw [List.nodup_append]
          refine ⟨hn, by simp, ?_⟩
          intro a ha b hb
          simp at hb
          subst hb
          intro hab
          subst hab
          exact hc (by simpa using ha)
        · have hn' : (res ++ [q]).Nodup := by
            rw [List.nodup_append]
            refine ⟨hn, by simp, ?_⟩
            intro a ha b hb
            simp at hb
            subst hb
            intro hab
            subst hab
            exact hc (by simpa using ha)
          by_cases hq : q < N.states.size
          · have hcnt : cnt N (res ++ [q]) = cnt N res + 1 := by
              unfold cnt
              rw [List.filter_append]
              simp [hq]
            have hle := cnt_le (N := N) hn'
            have h2 := succs_length_le N lk q
            rw [List.length_append, hcnt]
            omega
          · have hcnt : cnt N (res ++ [q]) = cnt N res := by
              unfold cnt
              rw [List.filter_append]
              simp [hq]
            rw [hcnt, succs_oob lk (Nat.le_of_not_lt hq)]
            simp only [List.nil_append]
            omega

/-- `epsilonClosureInto(result, seed)` on a duplicate-free result set -/
theorem clo_closeSeed {N : NFA} (lk : LookSet) {res : List Nat} (hn : res.Nodup) (seed : Nat) :
    Clo N lk [seed] res (closeSeed N lk res seed) := by
  unfold closeSeed closureFuel
  apply clo_of_fuel _ _ _ hn
  have := cnt_le (N := N) hn
  simp only [List.length_cons, List.length_nil]
  omega

theorem closeSeed_nodup {N : NFA} (lk : LookSet) {res : List Nat} (hn : res.Nodup) (seed : Nat) :
    (closeSeed N lk res seed).Nodup := (clo_closeSeed lk hn seed).nodup hn

theorem foldl_closeSeed_nodup {N : NFA} (lk : LookSet) : ∀ (L : List Nat) {res : List Nat}, res.Nodup →
    (L.foldl (closeSeed N lk) res).Nodup := by
  intro L
  induction L with
  | nil => intro res hn; exact hn
  | cons q qs ih => intro res hn; exact ih (closeSeed_nodup lk hn q)

/-- `epsilonClosure` / the incremental closure of `step`: the loop run on the seed list as initial stack -/
theorem clo_foldl {N : NFA} (lk : LookSet) : ∀ (L : List Nat) {res : List Nat}, res.Nodup →
    Clo N lk L res (L.foldl (closeSeed N lk) res) := by
  intro L
  induction L with
  | nil => intro res _; exact Clo.nil res
  | cons q qs ih =>
    intro res hn
    have h1 := clo_closeSeed (N := N) lk hn q
    have h2 := ih (closeSeed_nodup (N := N) lk hn q)
    exact Clo.append h1 h2

/-- a seed that is already in the set changes nothing -/
theorem closeSeed_mem {N : NFA} (lk : LookSet) {res : List Nat} {q : Nat} (hq : q ∈ res) : closeSeed N lk res q = res := by
  unfold closeSeed closureFuel
  have : 2 * N.states.size + 2 = (2 * N.states.size + 1) + 1 := by omega
  rw [this, closureInto]
  have hc : res.contains q = true := by simpa using hq
  rw [if_pos hc]
  cases (2 * N.states.size + 1) <;> rfl

theorem foldl_closeSeed_mem {N : NFA} (lk : LookSet) {res : List Nat} : ∀ (L : List Nat), (∀ q ∈ L, q ∈ res) →
    L.foldl (closeSeed N lk) res = res := by
  intro L
  induction L with
  | nil => intro _; rfl
  | cons q qs ih =>
    intro h
    simp only [List.foldl]
    rw [closeSeed_mem lk (h q List.mem_cons_self)]
    exact ih (fun x hx => h x (List.mem_cons_of_mem _ hx))

/-- the set is closed under the successors the look set allows -/
def Closed (N : NFA) (lk : LookSet) (X : List Nat) : Prop := ∀ q ∈ X, ∀ t ∈ succs N lk q, t ∈ X

theorem closeSeed_closed {N : NFA} (lk : LookSet) {X : List Nat} (hn : X.Nodup) (hc : Closed N lk X) (q : Nat) :
    Closed N lk (closeSeed N lk X q) ∧ (∀ x ∈ X, x ∈ closeSeed N lk X q) ∧ q ∈ closeSeed N lk X q := by
  have hclo := clo_closeSeed (N := N) lk hn q
  have hcm : CM N lk [q] X := fun q' hq' t ht => Or.inl (hc q' hq' t ht)
  obtain ⟨i1, i2, i3⟩ := hclo.closed hcm
  refine ⟨?_, i2, i3 q (by simp)⟩
  intro q' hq' t ht
  rcases i1 q' hq' t ht with h | h
  · exact h
  · cases h

/-- every seed is in the closure -/
theorem mem_foldl_closeSeed {N : NFA} (lk : LookSet) {L : List Nat} {q : Nat} (hq : q ∈ L) :
    q ∈ L.foldl (closeSeed N lk) [] := by
  have hclo := clo_foldl (N := N) lk L (res := []) List.nodup_nil
  have hcm : CM N lk L [] := fun q' hq' => by cases hq'
  exact (hclo.closed hcm).2.2 q hq

theorem foldl_closeSeed_eq_nil {N : NFA} (lk : LookSet) (L : List Nat) : L.foldl (closeSeed N lk) [] = [] ↔ L = [] := by
  constructor
  · intro h
    cases L with
    | nil => rfl
    | cons q qs =>
      have := mem_foldl_closeSeed (N := N) lk (L := q :: qs) (q := q) List.mem_cons_self
      rw [h] at this
      cases this
  · intro h; subst h; rfl

/-! ### the re-closure lemma -/

/-- `lk2` satisfies every assertion of the automaton that `lk1` satisfies -/
def LkSub (N : NFA) (lk1 lk2 : LookSet) : Prop := ∀ q, ∀ t ∈ succs N lk1 q, t ∈ succs N lk2 q

theorem lkSub_of_imp {N : NFA} {lk1 lk2 : LookSet}
    (h : ∀ q k nx, N.get q = .look k nx → lk1.contains k = true → lk2.contains k = true) : LkSub N lk1 lk2 := by
  intro q t ht
  unfold succs at ht ⊢
  cases hq : N.get q with
  | look k nx =>
    simp only [hq] at ht ⊢
    split at ht
    · rename_i hk
      rw [if_pos (h q k nx hq hk)]
      exact ht
    · cases ht
  | _ => simp only [hq] at ht ⊢; exact ht

theorem reclose_core {N : NFA} {lk1 lk2 : LookSet} (hsub : LkSub N lk1 lk2) {st res0 r1 : List Nat}
    (h : Clo N lk1 st res0 r1) :
    ∃ new1, r1 = res0 ++ new1 ∧ ∀ X : List Nat, X.Nodup → (∀ x ∈ res0, x ∈ X) → Closed N lk2 X →
      new1.foldl (closeSeed N lk2) X = st.foldl (closeSeed N lk2) X := by
  induction h with
  | nil res => exact ⟨[], by simp, fun X _ _ _ => rfl⟩
  | @skip q st res r hq _ ih =>
    obtain ⟨new1, hnew, hall⟩ := ih
    refine ⟨new1, hnew, ?_⟩
    intro X hn hsubs hcl
    have hqm : q ∈ res := by simpa using hq
    simp only [List.foldl]
    rw [closeSeed_mem lk2 (hsubs q hqm)]
    exact hall X hn hsubs hcl
  | @add q st res r hq _ ih =>
    obtain ⟨new1, hnew, hall⟩ := ih
    refine ⟨q :: new1, by rw [hnew]; simp, ?_⟩
    intro X hn hsubs hcl
    obtain ⟨c1, c2, c3⟩ := closeSeed_closed lk2 hn hcl q
    have hn' := closeSeed_nodup (N := N) lk2 hn q
    have hsubs' : ∀ x ∈ res ++ [q], x ∈ closeSeed N lk2 X q := by
      intro x hx
      rcases List.mem_append.mp hx with h1 | h1
      · exact c2 x (hsubs x h1)
      · have : x = q := by simpa using h1
        rw [this]; exact c3
    have := hall (closeSeed N lk2 X q) hn' hsubs' c1
    simp only [List.foldl]
    rw [this, List.foldl_append]
    have hs : (succs N lk1 q).foldl (closeSeed N lk2) (closeSeed N lk2 X q) = closeSeed N lk2 X q := by
      apply foldl_closeSeed_mem
      intro t ht
      exact c1 q c3 t (hsub q t ht)
    rw [hs]

/-- THE RE-CLOSURE LEMMA: re-closing, in order and with more assertions satisfied, the list an incremental closure
    produced gives the list the incremental closure produces with the larger look set -/
theorem reclose {N : NFA} {lk1 lk2 : LookSet} (hsub : LkSub N lk1 lk2) (seeds : List Nat) :
    epsilonClosure N (seeds.foldl (closeSeed N lk1) []) lk2 = seeds.foldl (closeSeed N lk2) [] := by
  have hclo := clo_foldl (N := N) lk1 seeds (res := []) List.nodup_nil
  obtain ⟨new1, hnew, hall⟩ := reclose_core hsub hclo
  simp only [List.nil_append] at hnew
  unfold epsilonClosure
  rw [hnew]
  exact hall [] List.nodup_nil (fun x hx => by cases hx) (fun q hq => by cases hq)

/-! ### the move as an incremental closure of its targets -/

def sparseTargets (b : Nat) : List (Nat × Nat × Nat) → List Nat
  | [] => []
  | (lo, hi, nx) :: ts => if lo ≤ b ∧ b ≤ hi then nx :: sparseTargets b ts else sparseTargets b ts

/-- the successor states `step` closes, in order -/
def targets (N : NFA) (b : Nat) (brk : Bool) : List Nat → List Nat
  | [] => []
  | q :: qs =>
    match N.get q with
    | .mtch => if brk then [] else targets N b brk qs
    | .byteRange lo hi nx => if lo ≤ b ∧ b ≤ hi then nx :: targets N b brk qs else targets N b brk qs
    | .sparse ts => sparseTargets b ts ++ targets N b brk qs
    | _ => targets N b brk qs

theorem sparseInto_eq_foldl (N : NFA) (lk : LookSet) (b : Nat) : ∀ (ts : List (Nat × Nat × Nat)) (res : List Nat),
    sparseInto N lk b ts res = (sparseTargets b ts).foldl (closeSeed N lk) res := by
  intro ts
  induction ts with
  | nil => intro res; rfl
  | cons t ts ih =>
    intro res
    obtain ⟨lo, hi, nx⟩ := t
    simp only [sparseInto, sparseTargets]
    split
    · simp only [List.foldl]; exact ih _
    · exact ih _

theorem moveLoop_eq_foldl (N : NFA) (lk : LookSet) (b : Nat) (brk : Bool) : ∀ (L res : List Nat),
    moveLoop N lk b brk L res = (targets N b brk L).foldl (closeSeed N lk) res := by
  intro L
  induction L with
  | nil => intro res; rfl
  | cons q qs ih =>
    intro res
    rw [moveLoop, targets]
    cases hq : N.get q with
    | mtch =>
      simp only
      split
      · rfl
      · exact ih res
    | byteRange lo hi nx =>
      simp only
      split
      · simp only [List.foldl]; exact ih _
      · exact ih _
    | sparse ts =>
      simp only
      rw [List.foldl_append, ← sparseInto_eq_foldl]
      exact ih _
    | _ => exact ih res

/-- re-closing the successor list of a move -/
theorem reclose_moveLoop {N : NFA} {lk1 lk2 : LookSet} (hsub : LkSub N lk1 lk2) (b : Nat) (brk : Bool) (L : List Nat) :
    epsilonClosure N (moveLoop N lk1 b brk L []) lk2 = moveLoop N lk2 b brk L [] := by
  rw [moveLoop_eq_foldl, moveLoop_eq_foldl]
  exact reclose hsub _

end Cx.Dfa
