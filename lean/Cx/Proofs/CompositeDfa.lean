import Cx.Proofs.CompositeDfaRun
/-
  Cx.Proofs.CompositeDfa — exactness of the CompositeSequenceDFA (nfa/composite_dfa.go).

  Main results
  * `newCompositeSequenceDFA_ok`: what the constructor establishes (`DfaOK`): the three tables are the subset automata
    of the part list (anchored, unanchored, anchored on the reversed list) over correct byte classes;
  * `searchAt_eq_compFind`: `SearchAt` is the leftmost-first search of the concatenation `c1{m1,} … ck{mk,}`
    (`Spec.compFind`), for every haystack and offset;
  * `compositeSequenceDFA_eq_reference`, `compositeSequenceDFA_isMatch_eq_reference`: for every pattern that
    `IsCompositeCharClassPattern` accepts (that is what makes meta try the DFA) and for which `NewCompositeSequenceDFA`
    returns a DFA: `SearchAt = Ref.refFind`, `IsMatch = (Ref.refFind … 0).isSome`;
  * `compositeSequenceDFA_eq_compositeSearcher`: the DFA and the backtracking CompositeSearcher agree;
  * `newCompositeSequenceDFA_pred`: a non-nil constructor result implies `IsCompositeSequenceDFAPattern`.
-/
namespace Cx.CompDfa
open Cx Cx.Fast Cx.Fast.Spec

/-! ## semantic helpers -/

theorem valid_end_le (h : Bytes) : ∀ (P : List Part) (s : Nat) (ks : List Nat), Valid h P s ks → s ≤ h.size →
    s + ks.sum ≤ h.size := by
  intro P
  induction P with
  | nil =>
    intro s ks hv hs
    cases ks with
    | nil => simpa using hs
    | cons _ _ => exact nomatch hv
  | cons p P ih =>
    intro s ks hv hs
    cases ks with
    | nil => exact nomatch hv
    | cons k ks =>
      obtain ⟨ha, hv'⟩ := hv
      have h1 := ha.2.2
      have h2 := runLen_le p.mem h s
      have := ih (s + k) ks hv' (by omega)
      simp only [List.sum_cons]; omega

/-- a match of a non-empty list of parts with positive minimums is non-empty, inside the haystack, and starts with a
    byte of the first part -/
theorem matchSpan_facts (h : Bytes) (ps : List CharClassPart) (hne : 0 < ps.length) (hm : MinPos ps) (s e : Nat)
    (hM : IsMatchSpan h (ps.map partOf) s e) :
    s < e ∧ e ≤ h.size ∧ s < h.size ∧ (ps.getD 0 default).mem (h.at s) = true := by
  obtain ⟨ks, hv, hs⟩ := hM
  cases ps with
  | nil => exact absurd hne (Nat.lt_irrefl _)
  | cons p ps =>
    cases ks with
    | nil => exact nomatch hv
    | cons k ks =>
      obtain ⟨ha, hv'⟩ := hv
      have hlo : 1 ≤ k := Nat.le_trans (hm p List.mem_cons_self) ha.1
      have hr := (le_runLen_iff (partOf p).mem h s k).mp ha.2.2 0 (by omega)
      rw [Nat.add_zero] at hr
      have hend := valid_end_le h ((p :: ps).map partOf) s (k :: ks) ⟨ha, hv'⟩ (by omega)
      simp only [List.sum_cons] at hs hend
      exact ⟨by omega, by omega, hr.1, hr.2⟩

theorem partOf_greedy (ps : List CharClassPart) : ∀ p ∈ ps.map partOf, p.lazy = false := by
  intro p hp
  rw [List.mem_map] at hp
  obtain ⟨q, _, rfl⟩ := hp
  rfl

/-- the greatest match end from `s` is the end of the leftmost-first (greedy) match -/
theorem greedy_of_max (h : Bytes) (ps : List CharClassPart) (hu : AllUnbounded ps) (s e : Nat)
    (hM : IsMatchSpan h (ps.map partOf) s e) (hmax : ∀ e', IsMatchSpan h (ps.map partOf) s e' → e' ≤ e) :
    ∃ ks, IsGreedyMatch h (ps.map partOf) s ks ∧ e = s + ks.sum := by
  obtain ⟨ks1, hv1, hs1⟩ := hM
  obtain ⟨ks, hr, _⟩ := refMatch_greatest h (ps.map partOf) (partOf_greedy ps) s ks1 hv1
  have hg := (refMatch_some_iff h (ps.map partOf) (partOf_greedy ps) s ks).mp hr
  have h1 := greedy_sum_max h (ps.map partOf) (unb_of_allUnbounded ps hu) s ks ks1 hg hv1
  have h2 := hmax (s + ks.sum) ⟨ks, hg.1, rfl⟩
  exact ⟨ks, hg, by omega⟩

theorem compFind_skip (h : Bytes) (P : List Part) (hgr : ∀ p ∈ P, p.lazy = false) (a b : Nat) (hab : a ≤ b)
    (hno : ∀ j, a ≤ j → j < b → ∀ ks, ¬ Valid h P j ks) : compFind P h a = compFind P h b := by
  cases hb : compFind P h b with
  | none =>
    rw [compFind_none_iff h P hgr] at hb ⊢
    intro j hj1 hj2
    by_cases hjb : j < b
    · exact hno j hj1 hjb
    · exact hb j (by omega) hj2
  | some r =>
    obtain ⟨s, e⟩ := r
    rw [compFind_some_iff h P hgr] at hb ⊢
    obtain ⟨h1, h2, h3, h4⟩ := hb
    refine ⟨by omega, h2, h3, fun j hj1 hj2 => ?_⟩
    by_cases hjb : j < b
    · exact hno j hj1 hjb
    · exact h4 j (by omega) hj2

/-! ## what the constructor establishes -/

structure DfaOK (d : CompositeSequenceDFA) (ps : List CharClassPart) : Prop where
  parts : d.parts = ps
  unb : AllUnbounded ps
  anch : ∃ states, TabStates d.byteToClass d.numClasses ps false d.transitions d.accepting states
  unanch : ∃ states, TabStates d.byteToClass d.numClasses ps true d.unanchored.transitions d.unanchored.accepting states
  rev : ∃ states, TabStates d.byteToClass d.numClasses ps.reverse false d.reverse.transitions d.reverse.accepting states

theorem partsOK_spec : ∀ (ps : List CharClassPart) (n m : Nat), partsOK ps n = some m → MinPos ps ∧ AllUnbounded ps := by
  intro ps
  induction ps with
  | nil => intro n m _; exact ⟨(fun p hp => nomatch hp), (fun p hp => nomatch hp)⟩
  | cons p ps ih =>
    intro n m hok
    rw [partsOK] at hok
    split at hok
    · exact nomatch hok
    · rename_i h0
      split at hok
      · exact nomatch hok
      · rename_i hmax
        obtain ⟨h1, h2⟩ := ih _ _ hok
        constructor
        · intro q hq
          rcases List.mem_cons.mp hq with rfl | hq
          · omega
          · exact h1 q hq
        · intro q hq
          rcases List.mem_cons.mp hq with rfl | hq
          · exact hmax
          · exact h2 q hq

theorem tabStates_of_tableOK (btc : Array Nat) (nc : Nat) (ps : List CharClassPart) (r : Bool) (T : CompositeTable)
    (hne : 0 < ps.length) (hm : MinPos ps)
    (hcm : ∀ b p, p ∈ ps → classMatchesPart btc (btc.getD b 0) p = p.mem b) (hclt : ∀ b, btc.getD b 0 < nc)
    (hT : buildDFASubsetConstruction btc nc ps r = some T) :
    ∃ states, TabStates btc nc ps r T.transitions T.accepting states := by
  obtain ⟨states, hnd, h0, hrows⟩ := buildDFASubsetConstruction_ok btc nc ps r T hT
  exact ⟨states, hne, hm, hcm, hclt, hnd, h0, hrows⟩

/-- **the constructor**: a non-nil result carries correct tables (for ASCII parts) -/
theorem newCompositeSequenceDFA_ok (re : Re) (d : CompositeSequenceDFA) (hd : newCompositeSequenceDFA re = some d) :
    ∃ ps, extractCompositeParts re = some ps ∧ 0 < ps.length ∧ MinPos ps ∧ (AsciiParts ps → DfaOK d ps) := by
  unfold newCompositeSequenceDFA at hd
  split at hd
  · exact nomatch hd
  · rename_i ps hps
    split at hd
    · exact nomatch hd
    · rename_i hlen
      split at hd
      · exact nomatch hd
      · rename_i numConfigs hok
        split at hd
        · exact nomatch hd
        · simp only [] at hd
          split at hd
          · rename_i anchored unanchored reverse h1 h2 h3
            cases hd
            obtain ⟨hm, hu⟩ := partsOK_spec ps 0 numConfigs hok
            have hne : 0 < ps.length := by omega
            refine ⟨ps, hps, hne, hm, fun hA => ?_⟩
            have hcm := fun b p (hp : p ∈ ps) => classMatches_mem ps hA b p hp
            have hclt := class_lt ps hA
            refine ⟨rfl, hu, ?_, ?_, ?_⟩
            · exact tabStates_of_tableOK _ _ ps false anchored hne hm hcm hclt h1
            · exact tabStates_of_tableOK _ _ ps true unanchored hne hm hcm hclt h2
            · exact tabStates_of_tableOK _ _ ps.reverse false reverse (by simpa using hne)
                (fun p hp => hm p (List.mem_reverse.mp hp)) (fun b p hp => hcm b p (List.mem_reverse.mp hp)) hclt h3
          · exact nomatch hd

/-- a non-nil constructor result implies the predicate -/
theorem newCompositeSequenceDFA_pred (re : Re) (d : CompositeSequenceDFA) (hd : newCompositeSequenceDFA re = some d) :
    isCompositeSequenceDFAPattern re = true := by
  unfold newCompositeSequenceDFA at hd
  unfold isCompositeSequenceDFAPattern
  split at hd
  · exact nomatch hd
  · rename_i ps hps
    split at hd
    · exact nomatch hd
    · rename_i hlen
      rw [if_neg hlen]
      split at hd
      · exact nomatch hd
      · rename_i numConfigs hok
        split at hd
        · exact nomatch hd
        · rename_i hle
          simp only [decide_eq_true_eq]
          omega

/-! ## the search -/

section
variable {d : CompositeSequenceDFA} {ps : List CharClassPart} (ok : DfaOK d ps)
include ok

theorem dfaOK_basic : 0 < ps.length ∧ MinPos ps := by
  obtain ⟨_, ts⟩ := ok.anch
  exact ⟨ts.ne, ts.minPos⟩

theorem lang_iff_span (h : Bytes) (s e : Nat) (hse : s ≤ e) (he : e ≤ h.size) :
    Lang ps (slice h s e) ↔ IsMatchSpan h (ps.map partOf) s e :=
  lang_slice_iff h ps ok.unb s e hse he

/-- `matchAt` at a position whose byte belongs to the first part: greatest match end, or `-1` without a match -/
theorem matchAt_max (h : Bytes) (s : Nat) (hs : s < h.size) (hfirst : (ps.getD 0 default).mem (h.at s) = true) :
    (d.matchAt h s = -1 ∧ ∀ e, ¬ IsMatchSpan h (ps.map partOf) s e) ∨
    (∃ e : Nat, d.matchAt h s = (e : Int) ∧ IsMatchSpan h (ps.map partOf) s e ∧
      ∀ e', IsMatchSpan h (ps.map partOf) s e' → e' ≤ e) := by
  obtain ⟨hne, hm⟩ := dfaOK_basic ok
  obtain ⟨states, ts⟩ := ok.anch
  rcases matchAt_spec ts h s hs hfirst with ⟨h1, h2⟩ | ⟨e, h1, h2, h3, h4, h5⟩
  · left
    refine ⟨h1, fun e hM => ?_⟩
    obtain ⟨f1, f2, _, _⟩ := matchSpan_facts h ps hne hm s e hM
    exact h2 e f1 f2 ((lang_iff_span ok h s e (by omega) f2).mpr hM)
  · right
    refine ⟨e, h1, (lang_iff_span ok h s e (by omega) h3).mp h4, fun e' hM => ?_⟩
    obtain ⟨f1, f2, _, _⟩ := matchSpan_facts h ps hne hm s e' hM
    exact h5 e' f1 f2 ((lang_iff_span ok h s e' (by omega) f2).mpr hM)

/-- **`searchAfterFailure`** is the leftmost-first search from `from` -/
theorem searchAfterFailure_eq_compFind (h : Bytes) (from_ : Nat) :
    d.searchAfterFailure h from_ = compFind (ps.map partOf) h from_ := by
  obtain ⟨hne, hm⟩ := dfaOK_basic ok
  have hgr := partOf_greedy ps
  unfold CompositeSequenceDFA.searchAfterFailure
  by_cases hfrom : h.size < from_
  · rw [show h.size - from_ = 0 by omega, CompositeSequenceDFA.pass1]
    simp only []
    symm
    rw [compFind_none_iff h _ hgr]
    intro j hj1 hj2; omega
  · obtain ⟨st1, ts1⟩ := ok.unanch
    have hp1 := pass1_spec ts1 h from_ (h.size - from_) from_ 0 (by omega) (Nat.le_refl _)
      (by rw [slice_self]; exact tracks_init ts1)
      (by
        rintro e he ⟨t, ht1, ht2, _⟩
        omega)
    cases hpass1 : d.pass1 h (h.size - from_) from_ 0 with
    | none =>
      rw [hpass1] at hp1
      simp only [] at hp1 ⊢
      symm
      rw [compFind_none_iff h _ hgr]
      intro j hj1 hj2 ks hv
      have hM : IsMatchSpan h (ps.map partOf) j (j + ks.sum) := ⟨ks, hv, rfl⟩
      obtain ⟨f1, f2, _, _⟩ := matchSpan_facts h ps hne hm j _ hM
      exact hp1 (j + ks.sum) f2 ⟨j, hj1, f1, (lang_iff_span ok h j _ (by omega) f2).mpr hM⟩
    | some E =>
      rw [hpass1] at hp1
      simp only [] at hp1 ⊢
      obtain ⟨hE1, hE2, ⟨t, ht1, ht2, htl⟩, hEmin⟩ := hp1
      obtain ⟨st2, ts2⟩ := ok.rev
      have hp2 := pass2_spec ts2 h from_ E hE2 (E - from_) E 0 none (by omega) (Nat.le_refl _)
        (by rw [slice_self]; exact tracks_init ts2) (Or.inl rfl)
        (Or.inl ⟨rfl, fun t h1 h2 => by omega⟩)
      rcases hp2 with ⟨_, hnone⟩ | ⟨t0, hst, ht01, ht02, ht0l, ht0min⟩
      · exact absurd htl (hnone t ht1 ht2)
      · rw [hst]
        simp only []
        have hM0 := (lang_iff_span ok h t0 E (by omega) hE2).mp ht0l
        obtain ⟨_, _, g3, g4⟩ := matchSpan_facts h ps hne hm t0 E hM0
        rcases matchAt_max ok h t0 g3 g4 with ⟨_, hnoM⟩ | ⟨e, he1, he2, he3⟩
        · exact absurd hM0 (hnoM E)
        · rw [he1, Int.toNat_natCast]
          symm
          rw [compFind_some_iff h _ hgr]
          refine ⟨ht01, by omega, ?_, ?_⟩
          · obtain ⟨ks, hg, hs⟩ := greedy_of_max h ps ok.unb t0 e he2 he3
            exact ⟨ks, hg, hs⟩
          · intro j hj1 hj2 ksj hvj
            have hMj : IsMatchSpan h (ps.map partOf) j (j + ksj.sum) := ⟨ksj, hvj, rfl⟩
            obtain ⟨f1, f2, _, _⟩ := matchSpan_facts h ps hne hm j _ hMj
            have hEle : E ≤ j + ksj.sum := by
              rcases Nat.lt_or_ge (j + ksj.sum) E with hlt | hge
              · exact absurd ⟨j, hj1, f1, (lang_iff_span ok h j _ (by omega) f2).mpr hMj⟩ (hEmin _ hlt)
              · exact hge
            obtain ⟨ks0, hv0, hs0⟩ := hM0
            obtain ⟨ks'', hv'', hs''⟩ := valid_exchange_left h (ps.map partOf) (unb_of_allUnbounded ps ok.unb)
              j t0 ksj ks0 hvj hv0 (by omega) (by omega)
            have : Lang ps (slice h j E) :=
              (lang_iff_span ok h j E (by omega) hE2).mpr ⟨ks'', hv'', by omega⟩
            exact ht0min j hj1 hj2 this

/-- pass 3 of `searchAfterFailure` never sees a failing `matchAt`: the model's `Int.toNat` of its result is the Go value -/
theorem searchAfterFailure_end (h : Bytes) (from_ E start : Nat)
    (h1 : d.pass1 h (h.size - from_) from_ 0 = some E) (h2 : d.pass2 h (E - from_) E 0 none = some start) :
    0 < d.matchAt h start := by
  obtain ⟨hne, hm⟩ := dfaOK_basic ok
  have hfrom : from_ ≤ h.size := by
    rcases Nat.lt_or_ge h.size from_ with hlt | hge
    · rw [show h.size - from_ = 0 by omega, CompositeSequenceDFA.pass1] at h1
      exact nomatch h1
    · exact hge
  obtain ⟨st1, ts1⟩ := ok.unanch
  have hp1 := pass1_spec ts1 h from_ (h.size - from_) from_ 0 (by omega) (Nat.le_refl _)
    (by rw [slice_self]; exact tracks_init ts1)
    (by
      rintro e he ⟨t, ht1, ht2, _⟩
      omega)
  rw [h1] at hp1
  simp only [] at hp1
  obtain ⟨hE1, hE2, _, _⟩ := hp1
  obtain ⟨st2, ts2⟩ := ok.rev
  have hp2 := pass2_spec ts2 h from_ E hE2 (E - from_) E 0 none (by omega) (Nat.le_refl _)
    (by rw [slice_self]; exact tracks_init ts2) (Or.inl rfl)
    (Or.inl ⟨rfl, fun t h1 h2 => by omega⟩)
  rw [h2] at hp2
  rcases hp2 with ⟨hn, _⟩ | ⟨t0, hst, ht01, ht02, ht0l, _⟩
  · exact nomatch hn
  · cases hst
    have hM0 := (lang_iff_span ok h start E (by omega) hE2).mp ht0l
    obtain ⟨_, _, g3, g4⟩ := matchSpan_facts h ps hne hm start E hM0
    rcases matchAt_max ok h start g3 g4 with ⟨_, hnoM⟩ | ⟨e, he1, he2, _⟩
    · exact absurd hM0 (hnoM E)
    · obtain ⟨f1, _, _, _⟩ := matchSpan_facts h ps hne hm start e he2
      rw [he1]; omega

theorem skipLoop_spec (h : Bytes) : ∀ (k pos : Nat), pos + k = h.size →
    pos ≤ d.skipLoop h k pos ∧ d.skipLoop h k pos ≤ h.size ∧
    (∀ j, pos ≤ j → j < d.skipLoop h k pos → (ps.getD 0 default).mem (h.at j) = false) ∧
    (d.skipLoop h k pos < h.size → (ps.getD 0 default).mem (h.at (d.skipLoop h k pos)) = true) := by
  have hfm : ∀ b, d.firstPartMem b = (ps.getD 0 default).mem b := by
    intro b
    unfold CompositeSequenceDFA.firstPartMem
    rw [ok.parts]
    cases ps with
    | nil => exact absurd (dfaOK_basic ok).1 (Nat.lt_irrefl _)
    | cons p ps => rfl
  intro k
  induction k with
  | zero =>
    intro pos hk
    rw [CompositeSequenceDFA.skipLoop]
    exact ⟨Nat.le_refl _, by omega, fun j h1 h2 => by omega, fun hlt => by omega⟩
  | succ k ih =>
    intro pos hk
    rw [CompositeSequenceDFA.skipLoop]
    by_cases hmem : d.firstPartMem (h.at pos) = true
    · rw [if_pos hmem]
      exact ⟨Nat.le_refl _, by omega, fun j h1 h2 => by omega, fun _ => by rw [← hfm]; exact hmem⟩
    · rw [if_neg hmem]
      obtain ⟨h1, h2, h3, h4⟩ := ih (pos + 1) (by omega)
      refine ⟨by omega, h2, fun j hj1 hj2 => ?_, h4⟩
      by_cases hjp : j = pos
      · subst hjp
        rw [← hfm]; simpa using hmem
      · exact h3 j (by omega) hj2

/-- **`SearchAt`** is the leftmost-first search of the concatenation of the parts -/
theorem searchAt_eq_compFind (h : Bytes) (a : Nat) : d.searchAt h a = compFind (ps.map partOf) h a := by
  obtain ⟨hne, hm⟩ := dfaOK_basic ok
  have hgr := partOf_greedy ps
  have hnoStart : ∀ j, (j < h.size → (ps.getD 0 default).mem (h.at j) = false) → ∀ ks, ¬ Valid h (ps.map partOf) j ks := by
    intro j hj ks hv
    obtain ⟨_, _, f3, f4⟩ := matchSpan_facts h ps hne hm j _ ⟨ks, hv, rfl⟩
    rw [hj f3] at f4
    exact Bool.false_ne_true f4
  unfold CompositeSequenceDFA.searchAt
  by_cases h0 : h.size = 0
  · rw [if_pos h0]
    symm
    rw [compFind_none_iff h _ hgr]
    intro j _ _
    exact hnoStart j (fun hlt => by omega)
  · rw [if_neg h0]
    simp only []
    by_cases ha : h.size < a
    · rw [show h.size - a = 0 by omega, CompositeSequenceDFA.skipLoop, if_pos (by omega)]
      symm
      rw [compFind_none_iff h _ hgr]
      intro j hj1 hj2; omega
    · obtain ⟨s1, s2, s3, s4⟩ := skipLoop_spec ok h (h.size - a) a (by omega)
      generalize d.skipLoop h (h.size - a) a = start at s1 s2 s3 s4
      by_cases hend : start ≥ h.size
      · rw [if_pos hend]
        symm
        rw [compFind_none_iff h _ hgr]
        intro j hj1 hj2
        exact hnoStart j (fun hlt => s3 j hj1 (by omega))
      · rw [if_neg hend]
        have hlt : start < h.size := by omega
        rcases matchAt_max ok h start hlt (s4 hlt) with ⟨he1, hnoM⟩ | ⟨e, he1, he2, he3⟩
        · rw [he1, if_neg (by omega), searchAfterFailure_eq_compFind ok]
          symm
          apply compFind_skip h _ hgr a (start + 1) (by omega)
          intro j hj1 hj2 ks hv
          by_cases hjs : j = start
          · subst hjs
            exact hnoM _ ⟨ks, hv, rfl⟩
          · exact hnoStart j (fun _ => s3 j hj1 (by omega)) ks hv
        · obtain ⟨f1, _, _, _⟩ := matchSpan_facts h ps hne hm start e he2
          rw [he1, if_pos (by omega), Int.toNat_natCast]
          symm
          rw [compFind_some_iff h _ hgr]
          refine ⟨s1, s2, ?_, fun j hj1 hj2 => hnoStart j (fun _ => s3 j hj1 hj2)⟩
          obtain ⟨ks, hg, hs⟩ := greedy_of_max h ps ok.unb start e he2 he3
          exact ⟨ks, hg, hs⟩

end

/-! ## AST level -/

theorem mapM_mem {α β : Type} (f : α → Option β) : ∀ (l : List α) (ys : List β), l.mapM f = some ys →
    ∀ y ∈ ys, ∃ x ∈ l, f x = some y := by
  intro l
  induction l with
  | nil =>
    intro ys h y hy
    rw [mapM_option_nil] at h
    cases h
    exact nomatch hy
  | cons a l ih =>
    intro ys h y hy
    rw [mapM_option_cons] at h
    cases ha : f a with
    | none => rw [ha] at h; exact nomatch h
    | some b =>
      rw [ha, Option.bind_some] at h
      cases hl : l.mapM f with
      | none => rw [hl] at h; exact nomatch h
      | some bs =>
        rw [hl, Option.bind_some] at h
        cases h
        rcases List.mem_cons.mp hy with rfl | hy
        · exact ⟨a, List.mem_cons_self, ha⟩
        · obtain ⟨x, hx, hfx⟩ := ih bs hl y hy
          exact ⟨x, List.mem_cons_of_mem _ hx, hfx⟩

section
attribute [local irreducible] tableOfRanges

theorem astPart_mem (x : Re) (p : Part) (hq : QuantClass x) (ha : astPart x = some p) :
    p.mem = (tableOfRanges (pairs (classRunes x))).mem := by
  unfold astPart at ha
  unfold classRunes
  rcases hq with h | ⟨h | h | h | h, c, hc, _⟩
  · simp only [h] at ha ⊢
    cases ha; rfl
  all_goals
    have hne : x.op ≠ .charClass := by rw [h]; decide
    simp only [h, hc] at ha
    rw [if_neg hne, hc]
    cases ha; rfl

theorem extractParts_ascii (re : Re) (ps : List CharClassPart) (hok : isCompositeCharClassPattern re = true)
    (sorted : ClassSorted re) (hps : extractCompositeParts re = some ps) : AsciiParts ps := by
  have greedy := isCompositeCharClassPattern_greedy re hok
  have noZeroMax := isCompositeCharClassPattern_noZeroMax re hok
  have ascii := isCompositeCharClassPattern_ascii re hok sorted
  unfold extractCompositeParts at hps
  split at hps
  · exact nomatch hps
  · split at hps
    · exact nomatch hps
    · rename_i parts hm
      split at hps
      · exact nomatch hps
      · cases hps
        intro p hp b hb
        obtain ⟨x, hx, hxp⟩ := mapM_mem extractSinglePart re.sub _ hm p hp
        obtain ⟨hq, ha⟩ := extractSinglePart_astPart x p hxp (greedy x hx) (noZeroMax x hx)
        have hmem := astPart_mem x (partOf p) hq ha
        have : p.mem b = (partOf p).mem b := rfl
        rw [this, hmem, tableOfRanges_mem]
        cases hany : (pairs (classRunes x)).any fun r => decide (r.1 ≤ b) && decide (b ≤ r.2) with
        | false => simp
        | true =>
          rw [List.any_eq_true] at hany
          obtain ⟨r, hr, hrb⟩ := hany
          have := pairs_snd_mem _ _ (Nat.le_refl _) r hr
          have := ascii x hx r.2 this
          simp only [Bool.and_eq_true, decide_eq_true_eq] at hrb
          omega

end

/-- **CompositeSequenceDFA = CompositeSearcher** on every pattern for which both exist (and meta selects them) -/
theorem compositeSequenceDFA_eq_compositeSearcher (re : Re) (d : CompositeSequenceDFA) (c : CompositeSearcher)
    (hok : isCompositeCharClassPattern re = true) (hd : newCompositeSequenceDFA re = some d)
    (hc : newCompositeSearcher re = some c) (sorted : ClassSorted re) (h : Bytes) (a : Nat) :
    d.searchAt h a = c.searchAt h a := by
  obtain ⟨ps, hps, hne, _, hdfa⟩ := newCompositeSequenceDFA_ok re d hd
  have ok := hdfa (extractParts_ascii re ps hok sorted hps)
  unfold newCompositeSearcher at hc
  rw [hps, Option.map_some] at hc
  cases hc
  rw [searchAt_eq_compFind ok h a, CompositeSearcher.searchAt_eq_spec]
  intro hnil
  have hnil : ps = [] := hnil
  rw [hnil] at hne
  exact Nat.lt_irrefl _ hne

/-- **CompositeSequenceDFA end to end**: for every pattern `IsCompositeCharClassPattern` accepts (the condition under
    which meta tries to build the DFA) and for which `NewCompositeSequenceDFA` returns a DFA (then
    `IsCompositeSequenceDFAPattern` holds as well, `newCompositeSequenceDFA_pred`), `SearchAt` returns what the general
    leftmost-first reference matcher returns, on every haystack and offset.  `repOK`, `sorted`: parser invariants. -/
theorem compositeSequenceDFA_eq_reference (re : Re) (d : CompositeSequenceDFA)
    (hok : isCompositeCharClassPattern re = true) (hd : newCompositeSequenceDFA re = some d)
    (repOK : RepeatOK re) (sorted : ClassSorted re) (h : Bytes) (a : Nat) :
    d.searchAt h a = Ref.refFind re h a := by
  obtain ⟨ps, hps, _, _, _⟩ := newCompositeSequenceDFA_ok re d hd
  have hc : newCompositeSearcher re = some { parts := ps } := by
    unfold newCompositeSearcher; rw [hps]; rfl
  rw [compositeSequenceDFA_eq_compositeSearcher re d _ hok hd hc sorted h a]
  exact compositeSearcher_eq_reference re _ hok hc repOK sorted h a

theorem compositeSequenceDFA_isMatch_eq_reference (re : Re) (d : CompositeSequenceDFA)
    (hok : isCompositeCharClassPattern re = true) (hd : newCompositeSequenceDFA re = some d)
    (repOK : RepeatOK re) (sorted : ClassSorted re) (h : Bytes) :
    d.isMatch h = (Ref.refFind re h 0).isSome := by
  unfold CompositeSequenceDFA.isMatch CompositeSequenceDFA.search
  rw [compositeSequenceDFA_eq_reference re d hok hd repOK sorted h 0]

end Cx.CompDfa
