import Cx.Proofs.ReverseFill
/-
  Cx.Proofs.ReverseBuild — the two passes of `reverseWithOptions` as loops: invariants of pass 1 (`AllocInv`: ids are fresh,
  placeholders are what `allocatePlaceholder` makes for the state's incoming edges), of pass 2 (`FillInv`: a filled state is
  never touched again, an unfilled one still holds its placeholder) and the result `Built`: every mapped forward state owns a
  gadget whose outgoing transitions are exactly its incoming forward edges.
-/
namespace Cx.Rev
open Cx Cx.Nfa

theorem foldl_range_ind {α : Type} (f : α → Nat → α) (P : Nat → α → Prop) (init : α) (n : Nat) (h0 : P 0 init)
    (hs : ∀ k a, k < n → P k a → P (k+1) (f a k)) : P n ((List.range n).foldl f init) := by
  induction n with
  | zero => exact h0
  | succ n ih =>
    rw [List.range_succ, List.foldl_append]
    exact hs n _ (Nat.lt_succ_self n) (ih (fun k a hk hp => hs k a (Nat.lt_succ_of_lt hk) hp))

/-- forward start states that get a proxy -/
def IsStart (sa su : Nat) (a : Bool) (q : Nat) : Prop := q = sa ∨ (a = false ∧ q = su)

instance (sa su : Nat) (a : Bool) (q : Nat) : Decidable (IsStart sa su a q) := by unfold IsStart; exact inferInstance

theorem look_set (rm : RMap) (q q' : Nat) (v : Option Nat) :
    RMap.look (rm.setIfInBounds q v) q' = if q = q' ∧ q < rm.size then v else rm.look q' := by
  unfold RMap.look
  rw [Array.getD_eq_getD_getElem?, Array.getD_eq_getD_getElem?, Array.getElem?_setIfInBounds]
  by_cases h1 : q = q'
  · subst h1
    by_cases h2 : q < rm.size
    · simp [h2]
    · simp only [h2, and_false, if_false, if_true]
      rw [Array.getElem?_eq_none (by omega)]
  · simp [h1]

theorem look_lt_size {rm : RMap} {q r : Nat} (h : rm.look q = some r) : q < rm.size := by
  unfold RMap.look at h
  by_cases hq : q < rm.size
  · exact hq
  · rw [Array.getD_eq_getD_getElem?, Array.getElem?_eq_none (by omega)] at h
    cases h

/-! ### pass 1 -/

structure AllocInv (ei : Nat → List Edge) (S sa su : Nat) (a : Bool) (st : Bld × RMap) : Prop where
  rsize : st.2.size = S
  get0 : gget st.1 0 = .mtch
  pos : 0 < st.1.size
  lt : ∀ q r, st.2.look q = some r → r < st.1.size
  zero : ∀ q r, st.2.look q = some r → (r = 0 ↔ (IsStart sa su a q ∧ ei q = []))
  content : ∀ q r, st.2.look q = some r → r ≠ 0 →
    gget st.1 r = if IsStart sa su a q then .eps 0 else placeholderS (ei q)
  inj : ∀ q q' r, st.2.look q = some r → st.2.look q' = some r → r ≠ 0 → q = q'

theorem isEmpty_iff {α : Type} (l : List α) : l.isEmpty = true ↔ l = [] := by cases l <;> simp

theorem allocInv_mapOne {ei : Nat → List Edge} {S sa su : Nat} {a : Bool} {st : Bld × RMap}
    (inv : AllocInv ei S sa su a st) {q : Nat} (hq : IsStart sa su a q) :
    AllocInv ei S sa su a (mapOne ei st q) := by
  unfold mapOne
  by_cases he : (ei q).isEmpty = true
  · rw [if_pos he]
    have he' := (isEmpty_iff _).mp he
    refine ⟨by simp [inv.rsize], inv.get0, inv.pos, ?_, ?_, ?_, ?_⟩
    · intro q' r h
      simp only [look_set] at h
      split at h
      · cases h; exact inv.pos
      · exact inv.lt q' r h
    · intro q' r h
      simp only [look_set] at h
      split at h
      · rename_i hc
        cases h
        rw [← hc.1]
        simp [hq, he']
      · exact inv.zero q' r h
    · intro q' r h hr
      simp only [look_set] at h
      split at h
      · cases h; exact absurd rfl hr
      · exact inv.content q' r h hr
    · intro q1 q2 r h1 h2 hr
      simp only [look_set] at h1 h2
      split at h1
      · cases h1; exact absurd rfl hr
      · split at h2
        · cases h2; exact absurd rfl hr
        · exact inv.inj q1 q2 r h1 h2 hr
  · rw [if_neg he]
    have he' : ei q ≠ [] := fun h => he ((isEmpty_iff _).mpr h)
    have hpos := inv.pos
    refine ⟨by simp [inv.rsize], ?_, ?_, ?_, ?_, ?_, ?_⟩
    · show gget (st.1.push _) 0 = _
      rw [gget_push_lt _ _ hpos]; exact inv.get0
    · show 0 < (st.1.push _).size
      rw [Array.size_push]; omega
    · intro q' r h
      show r < (st.1.push _).size
      rw [Array.size_push]
      simp only [look_set] at h
      split at h
      · cases h; omega
      · have := inv.lt q' r h; omega
    · intro q' r h
      simp only [look_set] at h
      split at h
      · rename_i hc
        cases h
        rw [← hc.1]
        constructor
        · intro h0; omega
        · intro h0; exact absurd h0.2 he'
      · exact inv.zero q' r h
    · intro q' r h hr
      show gget (st.1.push _) r = _
      simp only [look_set] at h
      split at h
      · rename_i hc
        cases h
        rw [gget_push_eq, ← hc.1, if_pos hq]
      · rw [gget_push_lt _ _ (inv.lt q' r h)]
        exact inv.content q' r h hr
    · intro q1 q2 r h1 h2 hr
      simp only [look_set] at h1 h2
      split at h1
      · rename_i hc1
        cases h1
        split at h2
        · rename_i hc2
          rw [← hc1.1, ← hc2.1]
        · have := inv.lt q2 _ h2; omega
      · split at h2
        · cases h2
          have := inv.lt q1 _ h1; omega
        · exact inv.inj q1 q2 r h1 h2 hr

theorem look_mapOne_other {ei : Nat → List Edge} {st : Bld × RMap} {q q' : Nat} (hne : q ≠ q') :
    (mapOne ei st q).2.look q' = st.2.look q' := by
  unfold mapOne
  split <;> simp [look_set, hne]

theorem look_mapOne_self {ei : Nat → List Edge} {st : Bld × RMap} {q : Nat} (hq : q < st.2.size) :
    ((mapOne ei st q).2.look q).isSome = true := by
  unfold mapOne
  split <;> simp [look_set, hq]

theorem look_replicate (S q : Nat) : RMap.look (Array.replicate S none) q = none := by
  unfold RMap.look
  rw [Array.getD_eq_getD_getElem?]
  by_cases h : q < S
  · simp [h]
  · rw [Array.getElem?_eq_none (by simp; omega)]
    rfl

theorem allocInv_init (ei : Nat → List Edge) (S sa su : Nat) (a : Bool) :
    AllocInv ei S sa su a (#[.mtch], Array.replicate S none) := by
  refine ⟨by simp, rfl, by simp, ?_, ?_, ?_, ?_⟩ <;> intro q <;> simp [look_replicate]

/-- pass 1 up to the start states -/
theorem allocInv_mapStart (ei : Nat → List Edge) (S sa su : Nat) (a : Bool) :
    AllocInv ei S sa su a (mapStart ei (#[.mtch], Array.replicate S none) sa su a) ∧
    (∀ q, IsStart sa su a q → q < S → ((mapStart ei (#[.mtch], Array.replicate S none) sa su a).2.look q).isSome = true) := by
  have i0 := allocInv_init ei S sa su a
  have i1 := allocInv_mapOne i0 (q := sa) (Or.inl rfl)
  unfold mapStart
  by_cases hc : (!a) = true ∧ su ≠ sa
  · rw [if_pos hc]
    have ha : a = false := by simpa using hc.1
    refine ⟨allocInv_mapOne i1 (Or.inr ⟨ha, rfl⟩), ?_⟩
    intro q hq hS
    rcases hq with rfl | ⟨_, rfl⟩
    · rw [look_mapOne_other hc.2]
      exact look_mapOne_self (by rw [i0.rsize]; exact hS)
    · exact look_mapOne_self (by rw [i1.rsize]; exact hS)
  · rw [if_neg hc]
    refine ⟨i1, ?_⟩
    intro q hq hS
    have : q = sa := by
      rcases hq with rfl | ⟨ha, rfl⟩
      · rfl
      · by_cases h : q = sa
        · exact h
        · exact absurd ⟨by simp [ha], h⟩ hc
    subst this
    exact look_mapOne_self (by rw [i0.rsize]; exact hS)

/-- invariant of the loop of `allocatePlaceholders` after the states `< k` -/
structure AllocLoop (ei : Nat → List Edge) (skip : List Nat) (S sa su : Nat) (a : Bool) (k : Nat) (st : Bld × RMap) : Prop where
  inv : AllocInv ei S sa su a st
  starts : ∀ q, IsStart sa su a q → q < S → (st.2.look q).isSome = true
  dom : ∀ q, q < k → skip.contains q = false → (st.2.look q).isSome = true
  sub : ∀ q r, st.2.look q = some r → IsStart sa su a q ∨ skip.contains q = false

theorem allocLoop_step {ei : Nat → List Edge} {skip : List Nat} {S sa su : Nat} {a : Bool} {k : Nat} {st : Bld × RMap}
    (hk : k < S) (h : AllocLoop ei skip S sa su a k st) : AllocLoop ei skip S sa su a (k+1) (allocOne ei skip st k) := by
  unfold allocOne
  by_cases hs : skip.contains k = true
  · rw [if_pos hs]
    refine ⟨h.inv, h.starts, ?_, h.sub⟩
    intro q hq hsk
    by_cases hqk : q = k
    · subst hqk; rw [hs] at hsk; cases hsk
    · exact h.dom q (by omega) hsk
  · rw [if_neg hs]
    have hs' : skip.contains k = false := by simpa using hs
    cases hl : st.2.look k with
    | some r =>
      simp only []
      refine ⟨h.inv, h.starts, ?_, h.sub⟩
      intro q hq hsk
      by_cases hqk : q = k
      · subst hqk; simp [hl]
      · exact h.dom q (by omega) hsk
    | none =>
      simp only []
      have hns : ¬ IsStart sa su a k := by
        intro hst
        have := h.starts k hst hk
        rw [hl] at this
        cases this
      have inv := h.inv
      have hkS : k < st.2.size := by rw [inv.rsize]; exact hk
      have hpos := inv.pos
      refine ⟨⟨by simp [inv.rsize], ?_, ?_, ?_, ?_, ?_, ?_⟩, ?_, ?_, ?_⟩
      · show gget (st.1.push _) 0 = _
        rw [gget_push_lt _ _ hpos]; exact inv.get0
      · show 0 < (st.1.push _).size
        rw [Array.size_push]; omega
      · intro q' r hh
        show r < (st.1.push _).size
        rw [Array.size_push]
        simp only [look_set] at hh
        split at hh
        · cases hh; omega
        · have := inv.lt q' r hh; omega
      · intro q' r hh
        simp only [look_set] at hh
        split at hh
        · rename_i hc
          cases hh
          rw [← hc.1]
          constructor
          · intro h0; omega
          · intro h0; exact absurd h0.1 hns
        · exact inv.zero q' r hh
      · intro q' r hh hr
        show gget (st.1.push _) r = _
        simp only [look_set] at hh
        split at hh
        · rename_i hc
          cases hh
          rw [gget_push_eq, ← hc.1, if_neg hns]
        · rw [gget_push_lt _ _ (inv.lt q' r hh)]
          exact inv.content q' r hh hr
      · intro q1 q2 r h1 h2 hr
        simp only [look_set] at h1 h2
        split at h1
        · rename_i hc1
          cases h1
          split at h2
          · rename_i hc2
            rw [← hc1.1, ← hc2.1]
          · have := inv.lt q2 _ h2; omega
        · split at h2
          · cases h2
            have := inv.lt q1 _ h1; omega
          · exact inv.inj q1 q2 r h1 h2 hr
      · intro q hq hS
        simp only [look_set]
        split
        · rfl
        · exact h.starts q hq hS
      · intro q hq hsk
        simp only [look_set]
        split
        · rfl
        · rename_i hc
          have hqk : q ≠ k := fun e => hc ⟨e.symm, hkS⟩
          exact h.dom q (by omega) hsk
      · intro q r hh
        simp only [look_set] at hh
        split at hh
        · rename_i hc
          rw [← hc.1]
          exact Or.inr hs'
        · exact h.sub q r hh

/-- **pass 1** -/
theorem allocLoop_final (ei : Nat → List Edge) (skip : List Nat) (S sa su : Nat) (a : Bool) :
    AllocLoop ei skip S sa su a S
      ((List.range S).foldl (allocOne ei skip) (mapStart ei (#[.mtch], Array.replicate S none) sa su a)) := by
  apply foldl_range_ind (allocOne ei skip) (AllocLoop ei skip S sa su a)
  · obtain ⟨h1, h2⟩ := allocInv_mapStart ei S sa su a
    refine ⟨h1, h2, fun q hq => by omega, ?_⟩
    intro q r hh
    left
    -- only start states are mapped so far
    unfold mapStart at hh
    by_cases hq : q = sa
    · exact Or.inl hq
    · split at hh
      · rename_i hc
        by_cases hq2 : q = su
        · exact Or.inr ⟨by simpa using hc.1, hq2⟩
        · rw [look_mapOne_other (fun e => hq2 e.symm), look_mapOne_other (fun e => hq e.symm), look_replicate] at hh
          cases hh
      · rw [look_mapOne_other (fun e => hq e.symm), look_replicate] at hh
        cases hh
  · intro k st hk h
    exact allocLoop_step hk h

/-! ### pass 2 -/

/-- `!isPrefix` in `fillAllTransitions` -/
def consumeOf (sa su q : Nat) : Bool := !(decide (q = su) && decide (su ≠ sa))

/-- the transitions the gadget of forward state `q` must offer -/
def EffOut (ei : Nat → List Edge) (rm : RMap) (sa su : Nat) (a : Bool) (q : Nat) (l : Lbl) (y : Nat) : Prop :=
  if IsStart sa su a q then (ei q ≠ [] ∧ StartOut rm (ei q) (consumeOf sa su q) l y) else EdgeOut rm (ei q) l y

/-- forward state `q`, mapped to `r`, owns the auxiliary states `[glo, ghi)` and offers exactly `EffOut q` -/
def Gadget (ei : Nat → List Edge) (rm : RMap) (sa su : Nat) (a : Bool) (base : Nat) (b : Bld) (q r : Nat) : Prop :=
  ∃ glo ghi, base ≤ glo ∧ ghi ≤ b.size ∧
    (∀ z, (z = r ∧ r ≠ 0) ∨ (glo ≤ z ∧ z < ghi) → simpleS (gget b z) = true) ∧
    (∀ get : Nat → NState, (∀ z, z = r ∨ (glo ≤ z ∧ z < ghi) → get z = gget b z) →
      ∀ l y, Out get glo ghi r l y ↔ EffOut ei rm sa su a q l y)

theorem Gadget.mono {ei : Nat → List Edge} {rm : RMap} {sa su : Nat} {a : Bool} {base : Nat} {b b' : Bld} {q r : Nat}
    (g : Gadget ei rm sa su a base b q r) (hs : b.size ≤ b'.size)
    (hf : ∀ z, z = r ∨ (base ≤ z ∧ z < b.size) → gget b' z = gget b z) : Gadget ei rm sa su a base b' q r := by
  obtain ⟨glo, ghi, h1, h2, h3, h4⟩ := g
  refine ⟨glo, ghi, h1, by omega, ?_, ?_⟩
  · intro z hz
    rw [hf z (by rcases hz with h | h; exact Or.inl h.1; exact Or.inr ⟨by omega, by omega⟩)]
    exact h3 z hz
  · intro get hget l y
    apply h4 get
    intro z hz
    rw [hget z hz, hf z (by rcases hz with h | h; exact Or.inl h; exact Or.inr ⟨by omega, by omega⟩)]

structure FillInv (ei : Nat → List Edge) (rm : RMap) (sa su : Nat) (a : Bool) (b0 : Bld) (k : Nat) (b : Bld) : Prop where
  size_le : b0.size ≤ b.size
  get0 : gget b 0 = .mtch
  pending : ∀ q r, rm.look q = some r → r ≠ 0 → k ≤ q → gget b r = gget b0 r
  done : ∀ q r, rm.look q = some r → q < k → Gadget ei rm sa su a b0.size b q r

theorem isStartB_iff (sa su : Nat) (a : Bool) (q : Nat) :
    (decide (q = sa) || (!a && decide (q = su))) = true ↔ IsStart sa su a q := by
  unfold IsStart
  cases a <;> simp

/-- what pass 2 needs from the shape of the automaton -/
structure FillHyp (ei : Nat → List Edge) (skip : List Nat) (rm : RMap) (sa su : Nat) (a : Bool) : Prop where
  noskip : ∀ q r, rm.look q = some r → skip.contains q = false
  mapped : ∀ q r, rm.look q = some r → ¬ IsStart sa su a q → ∀ e ∈ ei q, (rm.look e.from_).isSome = true

theorem fillInv_step {ei : Nat → List Edge} {skip : List Nat} {S sa su : Nat} {a : Bool} {b0 : Bld} {rm : RMap}
    (inv : AllocInv ei S sa su a (b0, rm)) (hyp : FillHyp ei skip rm sa su a) {k : Nat} {b : Bld}
    (h : FillInv ei rm sa su a b0 k b) : FillInv ei rm sa su a b0 (k+1) (fillOne ei skip sa su a rm b k) := by
  -- the round leaves the builder alone
  have same : (∀ r, rm.look k = some r → Gadget ei rm sa su a b0.size b k r) → FillInv ei rm sa su a b0 (k+1) b := by
    intro hk
    refine ⟨h.size_le, h.get0, fun q r h1 h2 h3 => h.pending q r h1 h2 (by omega), ?_⟩
    intro q r h1 h2
    by_cases hq : q = k
    · subst hq; exact hk r h1
    · exact h.done q r h1 (by omega)
  -- the round is a `FillSpec` on the state of `k`
  have filled : ∀ (rid : Nat) (b' : Bld), rm.look k = some rid → rid ≠ 0 →
      FillSpec b b' rid b.size (EffOut ei rm sa su a k) → FillInv ei rm sa su a b0 (k+1) b' := by
    intro rid b' hl hr0 fs
    have hrid := inv.lt k rid hl
    simp only at hrid
    have hsz := h.size_le
    have hfr : ∀ q r, rm.look q = some r → q ≠ k → gget b' r = gget b r := by
      intro q r h1 h2
      apply fs.frame r (by have := inv.lt q r h1; simp only at this; omega)
      intro he
      subst he
      by_cases hr : r = 0
      · exact hr0 hr
      · exact h2 (inv.inj q k r h1 hl hr)
    refine ⟨by have := fs.size_le; omega, ?_, ?_, ?_⟩
    · rw [fs.frame 0 (by have := inv.pos; simp only at this; omega) (fun e => hr0 e.symm)]
      exact h.get0
    · intro q r h1 h2 h3
      rw [hfr q r h1 (by omega)]
      exact h.pending q r h1 h2 (by omega)
    · intro q r h1 h2
      by_cases hq : q = k
      · subst hq
        rw [hl] at h1
        cases h1
        refine ⟨b.size, b'.size, hsz, Nat.le_refl _, ?_, ?_⟩
        · intro z hz
          apply fs.simple
          rcases hz with hz | hz
          · exact Or.inl hz.1
          · exact Or.inr hz
        · intro get hget l y
          exact fs.out get b'.size (Nat.le_refl _) hget l y
      · apply (h.done q r h1 (by omega)).mono fs.size_le
        rintro z (rfl | hz)
        · exact hfr q z h1 hq
        · exact fs.frame z hz.2 (by omega)
  unfold fillOne
  by_cases hs : skip.contains k = true
  · rw [if_pos hs]
    apply same
    intro r hl
    have := hyp.noskip k r hl
    rw [hs] at this
    cases this
  · rw [if_neg hs]
    simp only []
    by_cases hst : IsStart sa su a k
    · have hstB := (isStartB_iff sa su a k).mpr hst
      rw [hstB]
      by_cases he : (ei k).isEmpty = true
      · -- a start state without incoming edges is the match state itself
        simp only [he, Bool.and_self, if_true]
        apply same
        intro r hl
        have hr0 : r = 0 := (inv.zero k r hl).mpr ⟨hst, (isEmpty_iff _).mp he⟩
        subst hr0
        refine ⟨b.size, b.size, h.size_le, Nat.le_refl _, ?_, ?_⟩
        · rintro z (hz | hz) <;> omega
        · intro get hget l y
          have hg0 : get 0 = .mtch := by rw [hget 0 (Or.inl rfl), h.get0]
          unfold EffOut
          rw [if_pos hst]
          constructor
          · intro ho; exact absurd ho (out_mtch hg0 l y)
          · intro hh; exact absurd ((isEmpty_iff _).mp he) hh.1
      · have he' : (ei k).isEmpty = false := by simpa using he
        simp only [he', Bool.and_false, Bool.false_eq_true, if_false]
        cases hl : rm.look k with
        | none =>
          simp only []
          apply same
          intro r hl'
          rw [hl] at hl'
          cases hl'
        | some rid =>
          simp only [if_true]
          have hne : ei k ≠ [] := fun hh => he ((isEmpty_iff _).mpr hh)
          have hr0 : rid ≠ 0 := fun hh => hne ((inv.zero k rid hl).mp hh).2
          have hridlt := inv.lt k rid hl
          simp only at hridlt
          have hsz := h.size_le
          have hp : gget b rid = .eps 0 := by
            rw [h.pending k rid hl hr0 (Nat.le_refl _), inv.content k rid hl hr0, if_pos hst]
          have fs := fillSpec_start (rm := rm) (b := b) (proxy := rid) (glo := b.size) (es := ei k) (consumeOf sa su k)
            (by omega) (Nat.le_refl _) (by have := inv.pos; simp only at this; omega)
            (fun p t hpt => by have := inv.lt p t hpt; simp only at this; omega) hp
          apply filled rid _ hl hr0
          refine { fs with out := ?_ }
          intro get ghi h1 h2 l y
          rw [fs.out get ghi h1 h2]
          unfold EffOut
          rw [if_pos hst]
          simp [hne]
    · have hstB : (decide (k = sa) || (!a && decide (k = su))) = false := by
        cases hx : (decide (k = sa) || (!a && decide (k = su))) with
        | false => rfl
        | true => exact absurd ((isStartB_iff sa su a k).mp hx) hst
      rw [hstB]
      simp only [Bool.false_and, Bool.false_eq_true, if_false]
      cases hl : rm.look k with
      | none =>
        simp only []
        apply same
        intro r hl'
        rw [hl] at hl'
        cases hl'
      | some rid =>
        simp only []
        have hr0 : rid ≠ 0 := fun hh => hst ((inv.zero k rid hl).mp hh).1
        have hridlt := inv.lt k rid hl
        simp only at hridlt
        have hsz := h.size_le
        have hp : gget b rid = placeholderS (ei k) := by
          rw [h.pending k rid hl hr0 (Nat.le_refl _), inv.content k rid hl hr0, if_neg hst]
        have hm : AllMapped rm b.size (ei k) := by
          intro e he
          obtain ⟨t, ht⟩ := Option.isSome_iff_exists.mp (hyp.mapped k rid hl hst e he)
          have := inv.lt _ t ht
          simp only at this
          exact ⟨t, ht, by omega⟩
        have fs := fillSpec_reverse (rm := rm) (b := b) (id := rid) (glo := b.size) (es := ei k) (by omega) (Nat.le_refl _) hm hp
        apply filled rid _ hl hr0
        refine { fs with out := ?_ }
        intro get ghi h1 h2 l y
        rw [fs.out get ghi h1 h2]
        unfold EffOut
        rw [if_neg hst]

/-- **pass 2** -/
theorem fillInv_final {ei : Nat → List Edge} {skip : List Nat} {S sa su : Nat} {a : Bool} {b0 : Bld} {rm : RMap}
    (inv : AllocInv ei S sa su a (b0, rm)) (hyp : FillHyp ei skip rm sa su a) (n : Nat) :
    FillInv ei rm sa su a b0 n ((List.range n).foldl (fillOne ei skip sa su a rm) b0) := by
  apply foldl_range_ind (fillOne ei skip sa su a rm) (FillInv ei rm sa su a b0)
  · refine ⟨Nat.le_refl _, inv.get0, fun _ _ _ _ _ => rfl, fun q r _ hq => by omega⟩
  · intro k b _ h
    exact fillInv_step inv hyp h

/-! ### pass 3 and the result -/

structure Built (ei : Nat → List Edge) (rm : RMap) (sa su : Nat) (a : Bool) (ms : List Nat) (R : NFA) : Prop where
  get0 : R.get 0 = .mtch
  size_pos : 0 < R.states.size
  zero_start : ∀ q, rm.look q = some 0 → IsStart sa su a q
  start_zero : ∀ q r, rm.look q = some r → IsStart sa su a q → ei q = [] → r = 0
  gadget : ∀ q r, rm.look q = some r → ∃ glo ghi, 0 < glo ∧ (∀ p t, rm.look p = some t → t < glo) ∧
      (∀ z, (z = r ∧ r ≠ 0) ∨ (glo ≤ z ∧ z < ghi) → simpleS (R.get z) = true) ∧
      (∀ l y, Out R.get glo ghi r l y ↔ EffOut ei rm sa su a q l y)
  start : ∃ glo ghi, 0 < glo ∧ (∀ p t, rm.look p = some t → t < glo) ∧
      (∀ z, glo ≤ z → z < ghi → simpleS (R.get z) = true) ∧
      (∀ l y, Via R.get glo ghi R.startAnchored l y ↔ l = none ∧ ∃ m ∈ ms, rm.look m = some y)

theorem filterMap_look_nat {rm : RMap} {ms : List Nat} (h : ∀ m ∈ ms, (rm.look m).isSome = true) :
    ms.filterMap (fun m => rm.look m) = ms.map (fun m => rm.look0 m) := by
  induction ms with
  | nil => rfl
  | cons m ms ih =>
    obtain ⟨t, ht⟩ := Option.isSome_iff_exists.mp (h m List.mem_cons_self)
    rw [List.filterMap_cons, ht, List.map_cons, ih (fun m' hm' => h m' (List.mem_cons_of_mem _ hm'))]
    simp [RMap.look0, ht]

theorem mem_map_look0 {rm : RMap} {ms : List Nat} (h : ∀ m ∈ ms, (rm.look m).isSome = true) (y : Nat) :
    y ∈ ms.map (fun m => rm.look0 m) ↔ ∃ m ∈ ms, rm.look m = some y := by
  rw [List.mem_map]
  constructor
  · rintro ⟨m, hm, rfl⟩
    obtain ⟨t, ht⟩ := Option.isSome_iff_exists.mp (h m hm)
    exact ⟨m, hm, by simp [RMap.look0, ht]⟩
  · rintro ⟨m, hm, hy⟩
    exact ⟨m, hm, by simp [RMap.look0, hy]⟩

theorem built_of {ei : Nat → List Edge} {skip : List Nat} {S sa su : Nat} {a : Bool} {b0 : Bld} {rm : RMap}
    (inv : AllocInv ei S sa su a (b0, rm)) (hyp : FillHyp ei skip rm sa su a) (n : Nat) (hn : ∀ q r, rm.look q = some r → q < n)
    (ms : List Nat) (hms : ∀ m ∈ ms, (rm.look m).isSome = true) :
    Built ei rm sa su a ms
      { states := (buildStarts ((List.range n).foldl (fillOne ei skip sa su a rm) b0) ms rm).2,
        startAnchored := (buildStarts ((List.range n).foldl (fillOne ei skip sa su a rm) b0) ms rm).1,
        startUnanchored := (buildStarts ((List.range n).foldl (fillOne ei skip sa su a rm) b0) ms rm).1 } := by
  have fin := fillInv_final inv hyp n
  generalize (List.range n).foldl (fillOne ei skip sa su a rm) b0 = b at fin
  have hpos := inv.pos
  simp only at hpos
  have hlt : ∀ p t, rm.look p = some t → t < b0.size := fun p t h => inv.lt p t h
  have hsz := fin.size_le
  -- pass 3 only appends
  have key : ∀ (st : Nat) (bR : Bld), b.size ≤ bR.size → (∀ z, z < b.size → gget bR z = gget b z) →
      (∃ glo ghi, 0 < glo ∧ (∀ p t, rm.look p = some t → t < glo) ∧
        (∀ z, glo ≤ z → z < ghi → simpleS (gget bR z) = true) ∧
        (∀ l y, Via (gget bR) glo ghi st l y ↔ l = none ∧ ∃ m ∈ ms, rm.look m = some y)) →
      Built ei rm sa su a ms { states := bR, startAnchored := st, startUnanchored := st } := by
    intro st bR h1 h2 h3
    refine ⟨?_, ?_, ?_, ?_, ?_, h3⟩
    · show gget bR 0 = _
      rw [h2 0 (by omega)]; exact fin.get0
    · show 0 < bR.size
      omega
    · intro q hq
      exact ((inv.zero q 0 hq).mp rfl).1
    · intro q r hq h1 h2
      exact (inv.zero q r hq).mpr ⟨h1, h2⟩
    · intro q r hq
      obtain ⟨glo, ghi, g1, g2, g3, g4⟩ := (fin.done q r hq (hn q r hq)).mono h1
        (fun z hz => h2 z (by rcases hz with rfl | hz; have := hlt q _ hq; omega; omega))
      exact ⟨glo, ghi, by omega, fun p t h => by have := hlt p t h; omega, g3, g4 (gget bR) (fun _ _ => rfl)⟩
  match ms, hms with
  | [], _ =>
    simp only [buildStarts]
    apply key _ _ (by rw [Array.size_push]; omega) (fun z hz => gget_push_lt _ _ hz)
    refine ⟨b.size, b.size + 1, by omega, fun p t h => by have := hlt p t h; omega, ?_, ?_⟩
    · intro z h1 h2
      have : z = b.size := by omega
      subst this
      rw [gget_push_eq]; rfl
    · intro l y
      rw [via_aux (Nat.le_refl _) (by omega)]
      constructor
      · intro ho; exact absurd ho (out_fail (gget_push_eq _ _) l y)
      · rintro ⟨_, m, hm, _⟩; cases hm
  | [m], hms =>
    simp only [buildStarts]
    apply key _ _ (Nat.le_refl _) (fun _ _ => rfl)
    obtain ⟨t, ht⟩ := Option.isSome_iff_exists.mp (hms m List.mem_cons_self)
    have h0 : rm.look0 m = t := by simp [RMap.look0, ht]
    refine ⟨b0.size, b0.size, hpos, hlt, fun z h1 h2 => by omega, ?_⟩
    intro l y
    rw [via_lt (by rw [h0]; exact hlt m t ht), h0]
    constructor
    · rintro ⟨rfl, rfl⟩; exact ⟨rfl, m, List.mem_cons_self, ht⟩
    · rintro ⟨rfl, m', hm', hy⟩
      simp only [List.mem_singleton] at hm'
      subst hm'
      rw [ht] at hy
      exact ⟨rfl, (Option.some.inj hy).symm⟩
  | m1 :: m2 :: rest, hms =>
    simp only [buildStarts]
    rw [filterMap_look_nat hms]
    obtain ⟨c1, c2, c3, c4⟩ := chain_spec b ((m1 :: m2 :: rest).map fun m => rm.look0 m) (by simp)
    apply key _ _ c1 c2
    refine ⟨b.size, _, by omega, fun p t h => by have := hlt p t h; omega, c3, ?_⟩
    intro l y
    rw [c4 (gget _) b.size _ (Nat.le_refl _) (Nat.le_refl _) ?_ (fun _ _ _ => rfl), mem_map_look0 hms]
    intro t ht
    obtain ⟨m, hm, hy⟩ := (mem_map_look0 hms t).mp ht
    have := hlt m t hy
    omega

end Cx.Rev
