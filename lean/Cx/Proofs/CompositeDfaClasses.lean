import Cx.Proofs.CompositeDfaAuto
/-
  Cx.Proofs.CompositeDfaClasses — `buildByteClasses` / `classMatchesPart`: for ASCII parts, asking the class of a byte
  is asking the byte (`classMatches_mem`), and class numbers are below `numClasses` (`class_lt`).
-/
namespace Cx.CompDfa
open Cx Cx.Fast Cx.Fast.Spec

/-- the parts have no member above U+007F (what `IsCompositeCharClassPattern` guarantees on parser output) -/
def AsciiParts (parts : List CharClassPart) : Prop := ∀ p ∈ parts, ∀ b, 128 ≤ b → p.mem b = false

/-! ## signatures -/

theorem signatureFrom_testBit (b : Nat) : ∀ (ps : List CharClassPart) (i sig j : Nat),
    (signatureFrom b ps i sig).testBit j =
      (sig.testBit j || (decide (i ≤ j) && ((ps[j - i]?).map (·.mem b)).getD false)) := by
  intro ps
  induction ps with
  | nil => intro i sig j; simp [signatureFrom]
  | cons p ps ih =>
    intro i sig j
    rw [signatureFrom, ih]
    by_cases hij : i = j
    · subst hij
      have h1 : decide (i + 1 ≤ i) = false := by simp
      rw [h1, Bool.false_and, Bool.or_false, Nat.sub_self]
      simp only [Nat.le_refl, decide_true, Bool.true_and, List.getElem?_cons_zero, Option.map_some, Option.getD_some]
      split
      · rename_i hm
        rw [Nat.testBit_or, Nat.one_shiftLeft, Nat.testBit_two_pow_self, hm]
      · rename_i hm
        have : p.mem b = false := by simpa using hm
        rw [this, Bool.or_false]
    · have hsig : (if p.mem b = true then sig ||| 1 <<< i else sig).testBit j = sig.testBit j := by
        split
        · rw [Nat.testBit_or, Nat.one_shiftLeft, Nat.testBit_two_pow]; simp [hij]
        · rfl
      rw [hsig]
      by_cases hlt : i < j
      · have h1 : decide (i + 1 ≤ j) = true := by simp; omega
        have h2 : decide (i ≤ j) = true := by simp; omega
        rw [h1, h2, show j - i = (j - (i + 1)) + 1 by omega, List.getElem?_cons_succ]
      · have h1 : decide (i + 1 ≤ j) = false := by simp; omega
        have h2 : decide (i ≤ j) = false := by simp; omega
        rw [h1, h2, Bool.false_and, Bool.false_and]

theorem signature_testBit (parts : List CharClassPart) (b j : Nat) :
    (signature parts b).testBit j = ((parts[j]?).map (·.mem b)).getD false := by
  unfold signature
  rw [signatureFrom_testBit, Nat.zero_testBit]
  simp

theorem signature_mem (parts : List CharClassPart) (b : Nat) (p : CharClassPart) (hp : p ∈ parts) :
    ∃ j, (signature parts b).testBit j = p.mem b := by
  obtain ⟨j, hj, rfl⟩ := List.getElem_of_mem hp
  refine ⟨j, ?_⟩
  rw [signature_testBit, List.getElem?_eq_getElem hj]; rfl

theorem mem_eq_of_signature_eq (parts : List CharClassPart) (b b' : Nat) (h : signature parts b = signature parts b')
    (p : CharClassPart) (hp : p ∈ parts) : p.mem b = p.mem b' := by
  obtain ⟨j, hj, rfl⟩ := List.getElem_of_mem hp
  have h1 := signature_testBit parts b j
  have h2 := signature_testBit parts b' j
  rw [List.getElem?_eq_getElem hj] at h1 h2
  simp only [Option.map_some, Option.getD_some] at h1 h2
  rw [← h1, ← h2, h]

theorem mem_false_of_signature_zero (parts : List CharClassPart) (b : Nat) (h : signature parts b = 0)
    (p : CharClassPart) (hp : p ∈ parts) : p.mem b = false := by
  obtain ⟨j, hj⟩ := signature_mem parts b p hp
  rw [← hj, h, Nat.zero_testBit]

theorem signature_zero_of_ascii (parts : List CharClassPart) (hA : AsciiParts parts) (b : Nat) (hb : 128 ≤ b) :
    signature parts b = 0 := by
  apply Nat.eq_of_testBit_eq
  intro j
  rw [signature_testBit, Nat.zero_testBit]
  cases hj : parts[j]? with
  | none => rfl
  | some p =>
    have hp : p ∈ parts := List.mem_of_getElem? hj
    simp only [Option.map_some, Option.getD_some]
    exact hA p hp b hb

/-! ## the class loop -/

theorem lookup_some_mem {l : List (Nat × Nat)} {a v : Nat} (h : l.lookup a = some v) : (a, v) ∈ l := by
  induction l with
  | nil => exact nomatch h
  | cons e l ih =>
    obtain ⟨k, x⟩ := e
    rw [List.lookup_cons] at h
    by_cases hk : a = k
    · subst hk
      simp only [beq_self_eq_true] at h
      cases h
      exact List.mem_cons_self
    · have : (a == k) = false := by simpa using hk
      rw [this] at h
      exact List.mem_cons_of_mem _ (ih h)

theorem lookup_none_not_mem {l : List (Nat × Nat)} {a : Nat} (h : l.lookup a = none) : ∀ e ∈ l, e.1 ≠ a := by
  induction l with
  | nil => intro e he; exact nomatch he
  | cons e0 l ih =>
    obtain ⟨k, x⟩ := e0
    rw [List.lookup_cons] at h
    by_cases hk : a = k
    · subst hk
      simp only [beq_self_eq_true] at h
      exact nomatch h
    · have : (a == k) = false := by simpa using hk
      rw [this] at h
      intro e he
      rcases List.mem_cons.mp he with rfl | he
      · exact fun h' => hk h'.symm
      · exact ih h e he

/-- invariant of `for b := 0; b < 256; b++` after `k` bytes -/
structure ClassInv (parts : List CharClassPart) (k : Nat) (st : ClassState) : Prop where
  size : st.table.size = k
  len : st.sigMap.length ≤ min k 128
  count : st.classCount = st.sigMap.length + 1
  vals : ∀ i (hi : i < st.sigMap.length), (st.sigMap[i]).2 = i + 1
  keys : ∀ i j (hi : i < st.sigMap.length) (hj : j < st.sigMap.length), (st.sigMap[i]).1 = (st.sigMap[j]).1 → i = j
  tab : ∀ b, b < k → (signature parts b = 0 ∧ st.table.getD b 0 = 0) ∨
    (signature parts b ≠ 0 ∧ ∃ i, ∃ hi : i < st.sigMap.length, (st.sigMap[i]).1 = signature parts b ∧
      st.table.getD b 0 = i + 1)

theorem getD_push_lt (t : Array Nat) (x b : Nat) (hb : b < t.size) : (t.push x).getD b 0 = t.getD b 0 := by
  rw [Array.getD_eq_getD_getElem?, Array.getD_eq_getD_getElem?, Array.getElem?_push, if_neg (by omega)]

theorem getD_push_eq (t : Array Nat) (x : Nat) : (t.push x).getD t.size 0 = x := by
  rw [Array.getD_eq_getD_getElem?, Array.getElem?_push, if_pos rfl]; rfl

theorem classStep_inv (parts : List CharClassPart) (hA : AsciiParts parts) (k : Nat) (st : ClassState)
    (inv : ClassInv parts k st) : ClassInv parts (k + 1) (classStep parts st k) := by
  unfold classStep
  simp only []
  by_cases hsig : signature parts k = 0
  · rw [if_pos hsig]
    constructor
    · simp [inv.size]
    · have := inv.len; simp only []; omega
    · exact inv.count
    · exact inv.vals
    · exact inv.keys
    · intro b hb
      by_cases hbk : b = k
      · subst hbk
        left
        refine ⟨hsig, ?_⟩
        have := getD_push_eq st.table 0
        rw [inv.size] at this; exact this
      · rw [getD_push_lt _ _ _ (by rw [inv.size]; omega)]
        exact inv.tab b (by omega)
  · rw [if_neg hsig]
    have hk128 : k < 128 := by
      rcases Nat.lt_or_ge k 128 with h | h
      · exact h
      · exact absurd (signature_zero_of_ascii parts hA k h) hsig
    cases hl : st.sigMap.lookup (signature parts k) with
    | some cls =>
      simp only []
      obtain ⟨i, hi, hget⟩ := List.getElem_of_mem (lookup_some_mem hl)
      have hv := inv.vals i hi
      rw [hget] at hv
      simp only [] at hv
      constructor
      · simp [inv.size]
      · have := inv.len; simp only []; omega
      · exact inv.count
      · exact inv.vals
      · exact inv.keys
      · intro b hb
        by_cases hbk : b = k
        · subst hbk
          right
          refine ⟨hsig, i, hi, by rw [hget], ?_⟩
          have := getD_push_eq st.table cls
          rw [inv.size] at this; rw [this, hv]
        · rw [getD_push_lt _ _ _ (by rw [inv.size]; omega)]
          exact inv.tab b (by omega)
    | none =>
      simp only []
      have hnot := lookup_none_not_mem hl
      have hlen := inv.len
      have hlen' : st.sigMap.length ≤ k := by omega
      constructor
      · simp [inv.size]
      · simp only [List.length_append, List.length_singleton]; omega
      · simp only [List.length_append, List.length_singleton]
        rw [inv.count, Nat.mod_eq_of_lt (by omega)]
      · intro i hi
        simp only [List.length_append, List.length_singleton] at hi
        by_cases hold : i < st.sigMap.length
        · rw [List.getElem_append_left hold]; exact inv.vals i hold
        · have : i = st.sigMap.length := by omega
          subst this
          rw [List.getElem_append_right (Nat.le_refl _)]
          simp [inv.count]
      · intro i j hi hj heq
        simp only [List.length_append, List.length_singleton] at hi hj
        by_cases hio : i < st.sigMap.length
        · by_cases hjo : j < st.sigMap.length
          · rw [List.getElem_append_left hio, List.getElem_append_left hjo] at heq
            exact inv.keys i j hio hjo heq
          · have : j = st.sigMap.length := by omega
            subst this
            rw [List.getElem_append_left hio, List.getElem_append_right (Nat.le_refl _)] at heq
            simp only [Nat.sub_self, List.getElem_cons_zero] at heq
            exact absurd heq (hnot _ (List.getElem_mem hio))
        · have : i = st.sigMap.length := by omega
          subst this
          by_cases hjo : j < st.sigMap.length
          · rw [List.getElem_append_left hjo, List.getElem_append_right (Nat.le_refl _)] at heq
            simp only [Nat.sub_self, List.getElem_cons_zero] at heq
            exact absurd heq.symm (hnot _ (List.getElem_mem hjo))
          · omega
      · intro b hb
        by_cases hbk : b = k
        · subst hbk
          right
          refine ⟨hsig, st.sigMap.length, by simp, ?_, ?_⟩
          · rw [List.getElem_append_right (Nat.le_refl _)]; simp
          · have := getD_push_eq st.table st.classCount
            rw [inv.size] at this; rw [this, inv.count]
        · rw [getD_push_lt _ _ _ (by rw [inv.size]; omega)]
          rcases inv.tab b (by omega) with h0 | ⟨h1, i, hi, h2, h3⟩
          · exact Or.inl h0
          · right
            refine ⟨h1, i, by simp; omega, ?_, h3⟩
            rw [List.getElem_append_left hi]; exact h2

theorem classFold_inv (parts : List CharClassPart) (hA : AsciiParts parts) : ∀ n,
    ClassInv parts n ((List.range n).foldl (classStep parts) {}) := by
  intro n
  induction n with
  | zero =>
    exact ⟨rfl, by simp, rfl, (fun i hi => nomatch hi), (fun i j hi _ => nomatch hi), (fun b hb => nomatch hb)⟩
  | succ n ih =>
    rw [List.range_succ, List.foldl_append]
    exact classStep_inv parts hA n _ ih

/-! ## consequences -/

/-- class numbers are smaller than `numClasses` -/
theorem class_lt (parts : List CharClassPart) (hA : AsciiParts parts) (b : Nat) :
    (buildByteClasses parts).1.getD b 0 < (buildByteClasses parts).2 := by
  have inv := classFold_inv parts hA 256
  unfold buildByteClasses
  simp only []
  rw [inv.count]
  by_cases hb : b < 256
  · rcases inv.tab b hb with ⟨_, h0⟩ | ⟨_, i, hi, _, h3⟩
    · rw [h0]; omega
    · rw [h3]; omega
  · rw [Array.getD_eq_getD_getElem?, Array.getElem?_eq_none (by rw [inv.size]; omega)]
    simp

theorem class_eq_sig (parts : List CharClassPart) (hA : AsciiParts parts) (b b' : Nat) (hb : b < 256) (hb' : b' < 256)
    (h : (buildByteClasses parts).1.getD b 0 = (buildByteClasses parts).1.getD b' 0) :
    signature parts b = signature parts b' := by
  have inv := classFold_inv parts hA 256
  unfold buildByteClasses at h
  simp only [] at h
  rcases inv.tab b hb with ⟨h1, h2⟩ | ⟨h1, i, hi, h2, h3⟩ <;>
    rcases inv.tab b' hb' with ⟨h1', h2'⟩ | ⟨h1', i', hi', h2', h3'⟩
  · rw [h1, h1']
  · rw [h2, h3'] at h; omega
  · rw [h3, h2'] at h; omega
  · rw [h3, h3'] at h
    have : i = i' := by omega
    subst this
    rw [← h2, ← h2']

/-- **asking the class is asking the byte** -/
theorem classMatches_mem (parts : List CharClassPart) (hA : AsciiParts parts) (b : Nat) (p : CharClassPart)
    (hp : p ∈ parts) :
    classMatchesPart (buildByteClasses parts).1 ((buildByteClasses parts).1.getD b 0) p = p.mem b := by
  have inv := classFold_inv parts hA 256
  unfold classMatchesPart
  by_cases hb : b < 256
  · cases hf : (List.range 256).find? (fun b' => (buildByteClasses parts).1.getD b' 0 == (buildByteClasses parts).1.getD b 0) with
    | none =>
      rw [List.find?_eq_none] at hf
      exact absurd (by simp) (hf b (List.mem_range.mpr hb))
    | some b' =>
      simp only []
      have h1 := List.find?_some hf
      have h2 := List.mem_range.mp (List.mem_of_find?_eq_some hf)
      have := class_eq_sig parts hA b' b h2 hb (by simpa using h1)
      exact mem_eq_of_signature_eq parts b' b this p hp
  · have hcls : (buildByteClasses parts).1.getD b 0 = 0 := by
      unfold buildByteClasses
      simp only []
      rw [Array.getD_eq_getD_getElem?, Array.getElem?_eq_none (by rw [inv.size]; omega)]
      rfl
    rw [hcls, hA p hp b (by omega)]
    cases hf : (List.range 256).find? (fun b' => (buildByteClasses parts).1.getD b' 0 == 0) with
    | none => rfl
    | some b' =>
      simp only []
      have h1 := List.find?_some hf
      have h2 := List.mem_range.mp (List.mem_of_find?_eq_some hf)
      have h1 : (buildByteClasses parts).1.getD b' 0 = 0 := by simpa using h1
      unfold buildByteClasses at h1
      simp only [] at h1
      rcases inv.tab b' h2 with ⟨h0, _⟩ | ⟨_, i, _, _, h3⟩
      · exact mem_false_of_signature_zero parts b' h0 p hp
      · rw [h3] at h1; omega

end Cx.CompDfa
