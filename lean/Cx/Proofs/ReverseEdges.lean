import Cx.Proofs.ReverseSem
import Cx.Proofs.DfaRef
import Cx.Proofs.DfaLimit
/-
  Cx.Proofs.ReverseEdges — the forward side: `reverseEdges[q]` against the labelled transitions of the forward automaton,
  the hypotheses on the forward automaton (`RevHyp`, checker `revHypB`), which states pass 1 maps, and the instance of
  `Built` for `reverse N a`.
-/
namespace Cx.Rev
open Cx Cx.Nfa

/-! ### `reverseEdges` -/

theorem ein_eq (N : NFA) (q : Nat) :
    ein (edgeTable N) q = if q < N.states.size then edgesTo (allEdges N) q else [] := by
  unfold ein edgeTable
  rw [Array.getD_eq_getD_getElem?]
  simp only [List.getElem?_toArray, List.getElem?_map]
  split
  · rename_i h
    simp [List.getElem?_range h]
  · rename_i h
    rw [List.getElem?_eq_none (by simp; omega)]
    rfl

theorem mem_edgesTo {es : List (Nat × Edge)} {t : Nat} {e : Edge} : e ∈ edgesTo es t ↔ (t, e) ∈ es := by
  unfold edgesTo
  rw [List.mem_filterMap]
  constructor
  · rintro ⟨⟨t', e'⟩, hm, hx⟩
    simp only at hx
    split at hx
    · rename_i ht
      cases hx
      subst ht
      exact hm
    · cases hx
  · intro hm
    exact ⟨(t, e), hm, by simp⟩

theorem mem_ein {N : NFA} {q : Nat} {e : Edge} :
    e ∈ ein (edgeTable N) q ↔ q < N.states.size ∧ ∃ p, p < N.states.size ∧ (q, e) ∈ outEdges p (N.get p) := by
  rw [ein_eq]
  split
  · rename_i hq
    rw [mem_edgesTo]
    unfold allEdges
    rw [List.mem_flatMap]
    simp only [List.mem_range]
    exact ⟨fun h => ⟨hq, h⟩, fun h => h.2⟩
  · rename_i hq
    simp [hq]

theorem outEdges_trans {p : Nat} {s : NState} {q : Nat} {e : Edge} (h : (q, e) ∈ outEdges p s) :
    e.from_ = p ∧ (lbl e, q) ∈ trans s ∧ q ≠ invalid := by
  cases s with
  | byteRange lo hi nx =>
    simp only [outEdges] at h
    split at h
    · cases h
    · rename_i hn
      simp only [List.mem_singleton, Prod.mk.injEq] at h
      obtain ⟨rfl, rfl⟩ := h
      exact ⟨rfl, by simp [lbl, trans], hn⟩
  | sparse ts =>
    simp only [outEdges, List.mem_filterMap] at h
    obtain ⟨t, ht, hx⟩ := h
    split at hx
    · cases hx
    · rename_i hn
      simp only [Option.some.injEq, Prod.mk.injEq] at hx
      obtain ⟨rfl, rfl⟩ := hx
      refine ⟨rfl, ?_, hn⟩
      simp only [lbl, trans, List.mem_map]
      exact ⟨t, ht, by simp⟩
  | split l r =>
    simp only [outEdges, List.mem_append] at h
    rcases h with h | h
    · split at h
      · cases h
      · rename_i hn
        simp only [List.mem_singleton, Prod.mk.injEq] at h
        obtain ⟨rfl, rfl⟩ := h
        exact ⟨rfl, by simp [lbl, trans], hn⟩
    · split at h
      · cases h
      · rename_i hn
        simp only [List.mem_singleton, Prod.mk.injEq] at h
        obtain ⟨rfl, rfl⟩ := h
        exact ⟨rfl, by simp [lbl, trans], hn⟩
  | eps nx =>
    simp only [outEdges] at h
    split at h
    · cases h
    · rename_i hn
      simp only [List.mem_singleton, Prod.mk.injEq] at h
      obtain ⟨rfl, rfl⟩ := h
      exact ⟨rfl, by simp [lbl, trans], hn⟩
  | cap i st nx =>
    simp only [outEdges] at h
    split at h
    · cases h
    · rename_i hn
      simp only [List.mem_singleton, Prod.mk.injEq] at h
      obtain ⟨rfl, rfl⟩ := h
      exact ⟨rfl, by simp [lbl, trans], hn⟩
  | look k nx =>
    simp only [outEdges] at h
    split at h
    · cases h
    · rename_i hn
      simp only [List.mem_singleton, Prod.mk.injEq] at h
      obtain ⟨rfl, rfl⟩ := h
      exact ⟨rfl, by simp [lbl, trans], hn⟩
  | mtch => simp [outEdges] at h
  | fail => simp [outEdges] at h
  | runeAny nx => simp [outEdges] at h
  | runeAnyNotNL nx => simp [outEdges] at h

theorem trans_outEdges (p : Nat) {s : NState} {l : Lbl} {q : Nat} (h : (l, q) ∈ trans s) (hq : q ≠ invalid) :
    ∃ e, (q, e) ∈ outEdges p s ∧ lbl e = l ∧ e.from_ = p := by
  cases s with
  | byteRange lo hi nx =>
    simp only [trans, List.mem_singleton, Prod.mk.injEq] at h
    obtain ⟨rfl, rfl⟩ := h
    exact ⟨⟨p, false, lo, hi⟩, by simp [outEdges, hq], by simp [lbl], rfl⟩
  | sparse ts =>
    simp only [trans, List.mem_map, Prod.mk.injEq] at h
    obtain ⟨t, ht, rfl, rfl⟩ := h
    refine ⟨⟨p, false, t.1, t.2.1⟩, ?_, by simp [lbl], rfl⟩
    simp only [outEdges, List.mem_filterMap]
    exact ⟨t, ht, by simp [hq]⟩
  | split a b =>
    simp only [trans, List.mem_cons, Prod.mk.injEq, List.mem_nil_iff, or_false] at h
    rcases h with ⟨rfl, rfl⟩ | ⟨rfl, rfl⟩
    · exact ⟨⟨p, true, 0, 0⟩, by simp [outEdges, hq], by simp [lbl], rfl⟩
    · exact ⟨⟨p, true, 0, 0⟩, by simp [outEdges, hq], by simp [lbl], rfl⟩
  | eps nx =>
    simp only [trans, List.mem_singleton, Prod.mk.injEq] at h
    obtain ⟨rfl, rfl⟩ := h
    exact ⟨⟨p, true, 0, 0⟩, by simp [outEdges, hq], by simp [lbl], rfl⟩
  | cap i st nx =>
    simp only [trans, List.mem_singleton, Prod.mk.injEq] at h
    obtain ⟨rfl, rfl⟩ := h
    exact ⟨⟨p, true, 0, 0⟩, by simp [outEdges, hq], by simp [lbl], rfl⟩
  | look k nx =>
    simp only [trans, List.mem_singleton, Prod.mk.injEq] at h
    obtain ⟨rfl, rfl⟩ := h
    exact ⟨⟨p, true, 0, 0⟩, by simp [outEdges, hq], by simp [lbl], rfl⟩
  | mtch => simp [trans] at h
  | fail => simp [trans] at h
  | runeAny nx => simp [trans] at h
  | runeAnyNotNL nx => simp [trans] at h

theorem trans_target {s : NState} {l : Lbl} {t : Nat} (h : (l, t) ∈ trans s) : t ∈ Dfa.stateTargets s := by
  cases s with
  | sparse ts =>
    simp only [trans, List.mem_map, Prod.mk.injEq] at h
    obtain ⟨x, hm, _, rfl⟩ := h
    simp only [Dfa.stateTargets, List.mem_map]
    exact ⟨x, hm, rfl⟩
  | split a b =>
    simp only [trans, List.mem_cons, Prod.mk.injEq, List.mem_nil_iff, or_false] at h
    simp only [Dfa.stateTargets, List.mem_cons, List.mem_nil_iff, or_false]
    rcases h with h | h
    · exact Or.inl h.2
    · exact Or.inr h.2
  | _ => simp_all [trans, Dfa.stateTargets]

/-- `reverseEdges[q]` lists exactly the labelled transitions into `q` -/
theorem ein_iff_trans {N : NFA} (hsz : N.states.size ≤ invalid) (hwf : Dfa.wfB N = true) {p q : Nat} {l : Lbl} :
    (∃ e ∈ ein (edgeTable N) q, e.from_ = p ∧ lbl e = l) ↔ p < N.states.size ∧ (l, q) ∈ trans (N.get p) := by
  constructor
  · rintro ⟨e, he, rfl, rfl⟩
    obtain ⟨_, p, hp, hm⟩ := mem_ein.mp he
    obtain ⟨h1, h2, _⟩ := outEdges_trans hm
    rw [h1]
    exact ⟨hp, h2⟩
  · rintro ⟨hp, hm⟩
    have hq : q < N.states.size := Dfa.wf_targets hwf (trans_target hm)
    obtain ⟨e, h1, h2, h3⟩ := trans_outEdges p hm (by omega)
    exact ⟨e, mem_ein.mpr ⟨hq, p, hp, h1⟩, h3, h2⟩

/-! ### hypotheses on the forward automaton -/

/-- the hypotheses of the reversal theorem; decidable form: `revHypB` (`Cx.Model.Reverse`) -/
structure RevHyp (N : NFA) : Prop where
  /-- every id mentioned is a state -/
  wf : Dfa.wfB N = true
  /-- no look-around states -/
  lf : Dfa.lookFreeB N = true
  /-- no rune states (the compiler never emits them; `collectEdgesFromState` ignores them) -/
  nr : Dfa.noRuneB N = true
  /-- state ids fit `StateID`, so `InvalidState` is not a state -/
  sz : N.states.size ≤ invalid
  /-- either there is no unanchored prefix, or it is the `(?s:.)*?` loop the compiler emits -/
  pre : N.startUnanchored = N.startAnchored ∨ Dfa.prefixOKB N = true

theorem revHyp_of_B {N : NFA} (h : revHypB N = true) : RevHyp N := by
  unfold revHypB at h
  simp only [Bool.and_eq_true, Bool.or_eq_true, decide_eq_true_eq] at h
  obtain ⟨⟨⟨⟨h1, h2⟩, h3⟩, h4⟩, h5⟩ := h
  exact ⟨h1, h2, h3, h4, h5⟩

theorem RevHyp.sa_lt {N : NFA} (H : RevHyp N) : N.startAnchored < N.states.size := by
  have := H.wf
  unfold Dfa.wfB at this
  simp only [Bool.and_eq_true, decide_eq_true_eq] at this
  exact this.1.1

theorem RevHyp.su_lt {N : NFA} (H : RevHyp N) : N.startUnanchored < N.states.size := by
  have := H.wf
  unfold Dfa.wfB at this
  simp only [Bool.and_eq_true, decide_eq_true_eq] at this
  exact this.1.2

theorem RevHyp.noRune {N : NFA} (H : RevHyp N) (q : Nat) : noRuneS (N.get q) = true := by
  have := Dfa.noRune_of_B H.nr q
  cases hq : N.get q <;> simp_all [noRuneS]

theorem RevHyp.noLook {N : NFA} (H : RevHyp N) (q : Nat) : noLookS (N.get q) = true := by
  have := Dfa.lookFree_of_B H.lf q
  cases hq : N.get q <;> simp_all [noLookS]

/-- a state of the unanchored prefix loop -/
def InPrefix (N : NFA) (q : Nat) : Prop :=
  N.startUnanchored ≠ N.startAnchored ∧ ∃ x, Dfa.PrefixOK N x ∧ (q = x ∨ q = N.startUnanchored)

theorem RevHyp.prefix {N : NFA} (H : RevHyp N) (hne : N.startUnanchored ≠ N.startAnchored) : ∃ x, Dfa.PrefixOK N x := by
  rcases H.pre with h | h
  · exact absurd h hne
  · exact Dfa.prefixOK_of_B h

theorem prefixOK_unique {N : NFA} {x y : Nat} (hx : Dfa.PrefixOK N x) (hy : Dfa.PrefixOK N y) : x = y := by
  have := hx.su
  rw [hy.su] at this
  cases this
  rfl

theorem inPrefix_ne_sa {N : NFA} {q : Nat} (h : InPrefix N q) : q ≠ N.startAnchored := by
  obtain ⟨hne, x, hp, rfl | rfl⟩ := h
  · exact fun e => hp.ne3 e.symm
  · exact hne

theorem inPrefix_not_mtch {N : NFA} {q : Nat} (h : InPrefix N q) : N.get q ≠ .mtch := by
  obtain ⟨_, x, hp, rfl | rfl⟩ := h
  · obtain ⟨hi, _, hh⟩ := hp.any
    rw [hh]; simp
  · rw [hp.su]; simp

/-- the pattern part is closed under transitions -/
theorem not_inPrefix_closed {N : NFA} {p t : Nat} (hp : ¬ InPrefix N p) (ht : t ∈ Dfa.stateTargets (N.get p)) :
    ¬ InPrefix N t := by
  rintro ⟨hne, x, hx, rfl | rfl⟩
  · exact hp ⟨hne, t, hx, Or.inr ((hx.tgt p t ht).2 rfl)⟩
  · exact hp ⟨hne, x, hx, Or.inl ((hx.tgt p _ ht).1 rfl)⟩

/-- the prefix only leads to the anchored start and to itself -/
theorem inPrefix_targets {N : NFA} {p t : Nat} (hp : InPrefix N p) (ht : t ∈ Dfa.stateTargets (N.get p)) :
    t = N.startAnchored ∨ InPrefix N t := by
  obtain ⟨hne, x, hx, rfl | rfl⟩ := hp
  · obtain ⟨hi, _, hh⟩ := hx.any
    rw [hh] at ht
    simp only [Dfa.stateTargets, List.mem_singleton] at ht
    exact Or.inr ⟨hne, p, hx, Or.inr ht⟩
  · rw [hx.su] at ht
    simp only [Dfa.stateTargets, List.mem_cons, List.mem_nil_iff, or_false] at ht
    rcases ht with rfl | rfl
    · exact Or.inl rfl
    · exact Or.inr ⟨hne, t, hx, Or.inl rfl⟩

/-! ### `skipStates` -/

theorem skipOf_false (N : NFA) : skipOf N false = [] := by simp [skipOf]

theorem skipOf_same {N : NFA} (h : N.startUnanchored = N.startAnchored) (a : Bool) : skipOf N a = [] := by
  simp [skipOf, h]

theorem skipOf_prefix {N : NFA} (H : RevHyp N) {x : Nat} (hx : Dfa.PrefixOK N x) :
    skipOf N true = [x, N.startUnanchored] := by
  have hne : N.startUnanchored ≠ N.startAnchored := fun e => hx.ne2 e.symm
  have hxlt : x < N.states.size := Dfa.wf_targets H.wf (q := N.startUnanchored) (by rw [hx.su]; simp [Dfa.stateTargets])
  have hxi : x ≠ invalid := by have := H.sz; omega
  obtain ⟨hi, _, hh⟩ := hx.any
  unfold skipOf
  rw [if_pos ⟨rfl, hne⟩]
  unfold prefixStates
  rw [hx.su]
  simp only []
  unfold loopStates
  rw [if_neg (by simp [hxi, hx.ne1]), hh]
  simp

theorem skip_contains_iff {N : NFA} (H : RevHyp N) (a : Bool) (q : Nat) :
    (skipOf N a).contains q = true ↔ (a = true ∧ InPrefix N q) := by
  cases a with
  | false => simp [skipOf_false]
  | true =>
    by_cases hne : N.startUnanchored = N.startAnchored
    · rw [skipOf_same hne]
      simp only [List.contains_nil, Bool.false_eq_true, true_and, false_iff]
      exact fun h => h.1 hne
    · obtain ⟨x, hx⟩ := H.prefix hne
      rw [skipOf_prefix H hx]
      simp only [List.contains_eq_mem, List.mem_cons, List.mem_nil_iff, or_false, decide_eq_true_eq, true_and]
      constructor
      · intro h; exact ⟨hne, x, hx, h⟩
      · rintro ⟨_, y, hy, h⟩
        rw [prefixOK_unique hx hy]; exact h

end Cx.Rev
