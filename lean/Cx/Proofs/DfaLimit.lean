import Cx.Model.Dfa
import Cx.Proofs.DfaCache
import Cx.Proofs.DfaClo
import Cx.Proofs.Nfa
/-
  Cx.Proofs.DfaLimit — the uncached searches never give up on a well-formed NFA with at most `detLimit` states:
  every DFA state built by `moveLoop` is a duplicate-free list of state ids of the automaton, so it is no longer than
  the automaton has states and `determinize` never reports `StateLimitExceeded` (default limit: 1000).
-/
namespace Cx.Dfa
open Cx Cx.Nfa

/-- a duplicate-free list of state ids of the automaton -/
def Bounded (N : NFA) (L : List Nat) : Prop := L.Nodup ∧ ∀ q ∈ L, q < N.states.size

theorem Bounded.length_le {N : NFA} {L : List Nat} (h : Bounded N L) : L.length ≤ N.states.size :=
  nodup_bounded_length _ _ h.1 h.2

theorem bounded_nil (N : NFA) : Bounded N [] := ⟨List.nodup_nil, by simp⟩

theorem wf_targets {N : NFA} (hwf : wfB N = true) {q t : Nat} (ht : t ∈ stateTargets (N.get q)) : t < N.states.size := by
  unfold wfB at hwf
  simp only [Bool.and_eq_true, List.all_eq_true, decide_eq_true_eq] at hwf
  by_cases hq : N.get q = .fail
  · rw [hq] at ht; simp [stateTargets] at ht
  · have hlt : q < N.states.size := by
      by_cases hlt : q < N.states.size
      · exact hlt
      · exact absurd (get_oob N (Nat.le_of_not_lt hlt)) hq
    have hmem : N.get q ∈ N.states.toList := by
      unfold NFA.get
      have he : N.states.getD q NState.fail = N.states[q] := by simp [Array.getD_eq_getD_getElem?, hlt]
      rw [he]; simp
    exact hwf.2 _ hmem t ht

theorem succs_targets (N : NFA) (lk : LookSet) (q : Nat) : ∀ t ∈ succs N lk q, t ∈ stateTargets (N.get q) := by
  intro t ht
  unfold succs at ht
  cases hq : N.get q <;> simp only [hq] at ht <;> simp [stateTargets] at ht ⊢
  · exact ht
  · exact ht
  · exact ht
  · exact ht.2

theorem closureInto_bounded {N : NFA} (hwf : wfB N = true) (lk : LookSet) :
    ∀ (fuel : Nat) (st res : List Nat), (∀ q ∈ st, q < N.states.size) → Bounded N res →
      Bounded N (closureInto N lk fuel st res) := by
  intro fuel
  induction fuel with
  | zero => intro st res _ hr; exact hr
  | succ fuel ih =>
    intro st res hst hr
    cases st with
    | nil => exact hr
    | cons q st =>
      simp only [closureInto]
      have hst' : ∀ x ∈ st, x < N.states.size := fun x hx => hst x (List.mem_cons_of_mem _ hx)
      split
      · exact ih st res hst' hr
      · rename_i hc
        apply ih
        · intro x hx
          rcases List.mem_append.mp hx with h1 | h1
          · exact wf_targets hwf (succs_targets N lk q x h1)
          · exact hst' x h1
        · refine ⟨?_, ?_⟩
          · rw [List.nodup_append]
            refine ⟨hr.1, by simp, ?_⟩
            intro a ha b hb
            simp at hb
            subst hb
            intro hab
            subst hab
            exact hc (by simpa using ha)
          · intro x hx
            rcases List.mem_append.mp hx with h1 | h1
            · exact hr.2 x h1
            · have hxq : x = q := by simpa using h1
              rw [hxq]; exact hst q List.mem_cons_self

theorem closeSeed_bounded {N : NFA} (hwf : wfB N = true) (lk : LookSet) {res : List Nat} (hr : Bounded N res) {seed : Nat}
    (hs : seed < N.states.size) : Bounded N (closeSeed N lk res seed) :=
  closureInto_bounded hwf lk _ _ _ (by intro q hq; simp at hq; subst hq; exact hs) hr

theorem sparseInto_bounded {N : NFA} (hwf : wfB N = true) (lk : LookSet) (b : Nat) :
    ∀ (ts : List (Nat × Nat × Nat)) (res : List Nat), (∀ t ∈ ts, t.2.2 < N.states.size) → Bounded N res →
      Bounded N (sparseInto N lk b ts res) := by
  intro ts
  induction ts with
  | nil => intro res _ hr; exact hr
  | cons t ts ih =>
    intro res hts hr
    obtain ⟨lo, hi, nx⟩ := t
    simp only [sparseInto]
    have hts' : ∀ t ∈ ts, t.2.2 < N.states.size := fun t ht => hts t (List.mem_cons_of_mem _ ht)
    split
    · exact ih _ hts' (closeSeed_bounded hwf lk hr (hts (lo, hi, nx) List.mem_cons_self))
    · exact ih _ hts' hr

theorem moveLoop_bounded {N : NFA} (hwf : wfB N = true) (lk : LookSet) (b : Nat) (brk : Bool) :
    ∀ (L res : List Nat), Bounded N res → Bounded N (moveLoop N lk b brk L res) := by
  intro L
  induction L with
  | nil => intro res hr; exact hr
  | cons q qs ih =>
    intro res hr
    rw [moveLoop]
    cases hq : N.get q with
    | mtch => simp only; split
              · exact hr
              · exact ih res hr
    | byteRange lo hi nx =>
      simp only
      split
      · exact ih _ (closeSeed_bounded hwf lk hr (wf_targets hwf (q := q) (by rw [hq]; simp [stateTargets])))
      · exact ih res hr
    | sparse ts =>
      simp only
      apply ih
      apply sparseInto_bounded hwf lk b ts res _ hr
      intro t ht
      exact wf_targets hwf (q := q) (by rw [hq]; simp only [stateTargets, List.mem_map]; exact ⟨t, ht, rfl⟩)
    | _ => exact ih res hr

/-- `determinize` never hits the determinization limit -/
theorem step_ne_limit {N : NFA} (hwf : wfB N = true) {cfg : Config} (hl : N.states.size ≤ cfg.detLimit) (S : DState)
    (b : Nat) : step N cfg S b ≠ .limit := by
  unfold step
  simp only
  generalize resolved N S b = cur
  have hlen := (moveLoop_bounded hwf (lookAfter b) b (containsMatch N cur && cfg.breakAtMatch) cur [] (bounded_nil N)).length_le
  by_cases h1 : (moveLoop N (lookAfter b) b (containsMatch N cur && cfg.breakAtMatch) cur []).isEmpty = true ∧
      containsMatch N cur = false
  · rw [if_pos h1]; intro hh; cases hh
  · rw [if_neg h1, if_neg (by omega)]; intro hh; cases hh

theorem searchLoopU_ne_gaveUp {N : NFA} (hwf : wfB N = true) {cfg : Config} (hl : N.states.size ≤ cfg.detLimit)
    (h : Bytes) : ∀ (fuel pos : Nat) (S : DState) (last : Option Nat), searchLoopU N cfg h fuel pos S last ≠ .gaveUp := by
  intro fuel
  induction fuel with
  | zero => intro pos S last hh; cases hh
  | succ fuel ih =>
    intro pos S last
    rw [searchLoopU]
    split
    · cases hs : step N cfg S (h.at pos) with
      | dead => intro hh; cases hh
      | limit => exact absurd hs (step_ne_limit hwf hl S _)
      | next T => exact ih _ _ _
    · split <;> (intro hh; cases hh)

theorem earliestLoopU_ne_gaveUp {N : NFA} (hwf : wfB N = true) {cfg : Config} (hl : N.states.size ≤ cfg.detLimit)
    (h : Bytes) : ∀ (fuel pos : Nat) (S : DState), earliestLoopU N cfg h fuel pos S ≠ .gaveUp := by
  intro fuel
  induction fuel with
  | zero => intro pos S hh; cases hh
  | succ fuel ih =>
    intro pos S
    rw [earliestLoopU]
    split
    · cases hs : step N cfg S (h.at pos) with
      | dead => intro hh; cases hh
      | limit => exact absurd hs (step_ne_limit hwf hl S _)
      | next T => simp only; split
                  · intro hh; cases hh
                  · exact ih _ _
    · intro hh; cases hh

theorem searchAtU_ne_gaveUp {N : NFA} (hwf : wfB N = true) {cfg : Config} (hl : N.states.size ≤ cfg.detLimit)
    (h : Bytes) (at_ : Nat) : searchAtU N cfg h at_ ≠ .gaveUp := by
  unfold searchAtU
  split
  · intro hh; cases hh
  · split
    · intro hh; cases hh
    · exact searchLoopU_ne_gaveUp hwf hl h _ _ _ _

theorem earliestU_ne_gaveUp {N : NFA} (hwf : wfB N = true) {cfg : Config} (hl : N.states.size ≤ cfg.detLimit)
    (h : Bytes) (at_ : Nat) : earliestU N cfg h at_ ≠ .gaveUp := by
  unfold earliestU
  split
  · intro hh; cases hh
  · split
    · intro hh; cases hh
    · exact earliestLoopU_ne_gaveUp hwf hl h _ _ _

theorem anchoredU_ne_gaveUp {N : NFA} (hwf : wfB N = true) {cfg : Config} (hl : N.states.size ≤ cfg.detLimit)
    (h : Bytes) (at_ : Nat) : anchoredU N cfg h at_ ≠ .gaveUp :=
  searchLoopU_ne_gaveUp hwf hl h _ _ _ _

end Cx.Dfa
