import Cx.Proofs.ReverseEdges
import Cx.Proofs.NfaSpan
/-
  Cx.Proofs.Reverse — THE REVERSE AUTOMATON ACCEPTS THE REVERSED LANGUAGE (`nfa/reverse.go`, model `Cx.Model.Reverse`).

  Hypotheses on the forward automaton `N` (`RevHyp N`, decidable as `revHypB N`; every compiled look-free pattern of the
  fidelity corpus satisfies it): ids in range (`Dfa.wfB`), no look-around states (`Dfa.lookFreeB` — the construction turns
  them into plain epsilons; the meta engine does not build reverse automata for such patterns), no rune states
  (`Dfa.noRuneB` — `collectEdgesFromState` has no case for them; the compiler never emits them), fewer than 2^32-1 states,
  and the unanchored start is either the anchored start or the `(?s:.)*?` loop the compiler emits (`Dfa.prefixOKB`) —
  `findUnanchoredPrefixStates` recognises exactly that shape.

  Path relation: `AcceptsA` (= `Accepts` with a sparse state following EVERY matching transition, as the Pike VM and the
  lazy DFA do).  The reverse automaton needs it: see `overlap_needs_all_transitions` below.

    reverse_accepts            AcceptsA (reverse N a) (revB h) (|h| - e) (|h| - s) ↔ AcceptsA N h s e      (s, e ≤ |h|; a = true: ReverseAnchored,
                                                                                                            a = false: Reverse)
    reverseAnchored_whole      AcceptsA (reverseAnchored N) (revB w) 0 |w| ↔ AcceptsA N w 0 |w|
    reverse_accepts_det        the same with `Accepts` on both sides when both automata are `Pike.SparseDet`
    reverse_starts             the starts of matches ending at `e` are the mirrored ends of reverse matches from `|h| - e`
    leftmost_start_is_longest_reverse
-/
namespace Cx.Rev
open Cx Cx.Nfa

/-- `revStateMap` after pass 1 -/
def rmOf (N : NFA) (a : Bool) : RMap := (alloc N a).2

/-- forward state `q` has a reverse state -/
def Mapped (N : NFA) (a : Bool) (q : Nat) : Prop := ((rmOf N a).look q).isSome = true

theorem alloc_loop (N : NFA) (a : Bool) :
    AllocLoop (ein (edgeTable N)) (skipOf N a) N.states.size N.startAnchored N.startUnanchored a N.states.size (alloc N a) :=
  allocLoop_final _ _ _ _ _ _

theorem mapped_iff {N : NFA} (H : RevHyp N) (a : Bool) (q : Nat) :
    Mapped N a q ↔ q < N.states.size ∧ (IsStart N.startAnchored N.startUnanchored a q ∨ ¬ (a = true ∧ InPrefix N q)) := by
  have L := alloc_loop N a
  unfold Mapped rmOf
  constructor
  · intro hm
    obtain ⟨r, hr⟩ := Option.isSome_iff_exists.mp hm
    refine ⟨by have := look_lt_size hr; rw [L.inv.rsize] at this; exact this, ?_⟩
    rcases L.sub q r hr with h | h
    · exact Or.inl h
    · right
      intro hc
      have := (skip_contains_iff H a q).mpr hc
      rw [h] at this
      cases this
  · rintro ⟨hq, h | h⟩
    · exact L.starts q h hq
    · apply L.dom q hq
      cases hc : (skipOf N a).contains q with
      | false => rfl
      | true => exact absurd ((skip_contains_iff H a q).mp hc) h

theorem core_mapped {N : NFA} (H : RevHyp N) (a : Bool) {q : Nat} (hq : q < N.states.size) (hc : ¬ InPrefix N q) :
    Mapped N a q := (mapped_iff H a q).mpr ⟨hq, Or.inr (fun h => hc h.2)⟩

theorem mem_matchStates {N : NFA} {m : Nat} : m ∈ matchStates N ↔ m < N.states.size ∧ N.get m = .mtch := by
  unfold matchStates
  rw [List.mem_filter, List.mem_range]
  constructor
  · rintro ⟨h1, h2⟩
    refine ⟨h1, ?_⟩
    cases hg : N.get m <;> simp_all
  · rintro ⟨h1, h2⟩
    exact ⟨h1, by simp [h2]⟩

theorem fillHyp {N : NFA} (H : RevHyp N) (a : Bool) :
    FillHyp (ein (edgeTable N)) (skipOf N a) (rmOf N a) N.startAnchored N.startUnanchored a := by
  have noskip : ∀ q r, (rmOf N a).look q = some r → (skipOf N a).contains q = false := by
    intro q r hr
    cases hc : (skipOf N a).contains q with
    | false => rfl
    | true =>
      obtain ⟨ha, hp⟩ := (skip_contains_iff H a q).mp hc
      have hm : Mapped N a q := by unfold Mapped; simp [hr]
      rcases ((mapped_iff H a q).mp hm).2 with h | h
      · rcases h with h | h
        · exact absurd h (inPrefix_ne_sa hp)
        · rw [ha] at h; cases h.1
      · exact absurd ⟨ha, hp⟩ h
  refine ⟨noskip, ?_⟩
  intro q r hr hns e he
  obtain ⟨hq, p, hp, hm⟩ := mem_ein.mp he
  obtain ⟨h1, h2, _⟩ := outEdges_trans hm
  rw [h1]
  apply (mapped_iff H a p).mpr ⟨hp, Or.inr ?_⟩
  rintro ⟨ha, hpre⟩
  rcases inPrefix_targets hpre (trans_target h2) with h | h
  · exact hns (Or.inl h)
  · have := (skip_contains_iff H a q).mpr ⟨ha, h⟩
    rw [noskip q r hr] at this
    cases this

theorem matchStates_mapped {N : NFA} (H : RevHyp N) (a : Bool) : ∀ m ∈ matchStates N, ((rmOf N a).look m).isSome = true := by
  intro m hm
  obtain ⟨h1, h2⟩ := mem_matchStates.mp hm
  exact core_mapped H a h1 (fun hp => inPrefix_not_mtch hp h2)

/-- **the construction theorem**: the result of `reverseWithOptions` is `Built` -/
theorem reverse_built {N : NFA} (H : RevHyp N) (a : Bool) :
    Built (ein (edgeTable N)) (rmOf N a) N.startAnchored N.startUnanchored a (matchStates N) (reverse N a) := by
  have L := alloc_loop N a
  have inv : AllocInv (ein (edgeTable N)) N.states.size N.startAnchored N.startUnanchored a ((alloc N a).1, rmOf N a) := L.inv
  exact built_of inv (fillHyp H a) N.states.size
    (fun q r hr => by have := look_lt_size hr; rw [inv.rsize] at this; exact this) (matchStates N) (matchStates_mapped H a)

/-! ### the effective edges against the forward automaton -/

section
variable {N : NFA}

theorem effLbl_core (H : RevHyp N) (a : Bool) {q : Nat} (hc : ¬ InPrefix N q) (e : Edge) :
    effLbl N.startAnchored N.startUnanchored a q e = lbl e := by
  unfold effLbl
  split
  · have : consumeOf N.startAnchored N.startUnanchored q = true := by
      unfold consumeOf
      by_cases h1 : q = N.startUnanchored
      · by_cases h2 : N.startUnanchored = N.startAnchored
        · simp [h2]
        · obtain ⟨x, hx⟩ := H.prefix h2
          exact absurd ⟨h2, x, hx, Or.inr h1⟩ hc
      · simp [h1]
    rw [this]; rfl
  · rfl

theorem effEdge_core (H : RevHyp N) (a : Bool) {p q : Nat} {l : Lbl} (hp : p < N.states.size) (hc : ¬ InPrefix N p) :
    EffEdge (ein (edgeTable N)) (rmOf N a) N.startAnchored N.startUnanchored a p l q ↔ (l, q) ∈ trans (N.get p) := by
  constructor
  · rintro ⟨e, he, h1, _, h3⟩
    have ht := (ein_iff_trans H.sz H.wf).mp ⟨e, he, h1, rfl⟩
    rw [h3, effLbl_core H a (not_inPrefix_closed hc (trans_target ht.2))]
    exact ht.2
  · intro ht
    obtain ⟨e, he, h1, h2⟩ := (ein_iff_trans H.sz H.wf).mpr ⟨hp, ht⟩
    refine ⟨e, he, h1, core_mapped H a hp hc, ?_⟩
    rw [effLbl_core H a (not_inPrefix_closed hc (trans_target ht)), h2]

theorem fwd_to_eff (H : RevHyp N) (a : Bool) (h : Bytes) {c d : Nat × Nat} (s : StepsA N h c d) :
    c.1 < N.states.size → ¬ InPrefix N c.1 →
      ESteps (EffEdge (ein (edgeTable N)) (rmOf N a) N.startAnchored N.startUnanchored a) h c d := by
  induction s with
  | refl _ => intro _ _; exact .refl _
  | @cons c c' d st _ ih =>
    intro hp hc
    obtain ⟨x, i⟩ := c
    obtain ⟨x', i'⟩ := c'
    obtain ⟨l, hm, hl⟩ := stepA_trans (H.noRune x) st
    have ht := trans_target hm
    exact .cons ⟨l, (effEdge_core H a hp hc).mpr hm, hl⟩ (ih (Dfa.wf_targets H.wf ht) (not_inPrefix_closed hc ht))

theorem eff_to_fwd (H : RevHyp N) (a : Bool) (h : Bytes) {c d : Nat × Nat}
    (s : ESteps (EffEdge (ein (edgeTable N)) (rmOf N a) N.startAnchored N.startUnanchored a) h c d) :
    c.1 < N.states.size → ¬ InPrefix N c.1 → StepsA N h c d := by
  induction s with
  | refl _ => intro _ _; exact .refl _
  | @cons c c' d st _ ih =>
    intro hp hc
    obtain ⟨x, i⟩ := c
    obtain ⟨x', i'⟩ := c'
    obtain ⟨l, he, hl⟩ := st
    have hm := (effEdge_core H a hp hc).mp he
    have ht := trans_target hm
    exact .cons (trans_stepA (H.noLook x) hm hl) (ih (Dfa.wf_targets H.wf ht) (not_inPrefix_closed hc ht))

/-- in `Reverse` (not anchored) the prefix loop is mapped too, but none of its edges consumes: a path that starts inside
    it reaches the anchored start at the same position -/
theorem prefix_walk (H : RevHyp N) (h : Bytes) {c d : Nat × Nat}
    (s : ESteps (EffEdge (ein (edgeTable N)) (rmOf N false) N.startAnchored N.startUnanchored false) h c d) :
    InPrefix N c.1 → N.get d.1 = .mtch →
      ESteps (EffEdge (ein (edgeTable N)) (rmOf N false) N.startAnchored N.startUnanchored false) h (N.startAnchored, c.2) d := by
  induction s with
  | refl c => intro hp hm; exact absurd hm (inPrefix_not_mtch hp)
  | @cons c c' d st tail ih =>
    intro hp hm
    obtain ⟨p, i⟩ := c
    obtain ⟨p', i'⟩ := c'
    obtain ⟨l, ⟨e, he, h1, _, h3⟩, hl⟩ := st
    simp only at he h1 h3 hl hp ⊢
    obtain ⟨_, p0, _, hout⟩ := mem_ein.mp he
    obtain ⟨k1, k2, _⟩ := outEdges_trans hout
    rw [h1] at k1
    subst k1
    have hne := hp.1
    obtain ⟨x, hx⟩ := H.prefix hne
    -- the label is epsilon
    have hlnone : l = none := by
      rw [h3]
      obtain ⟨_, y, hy, hpy⟩ := hp
      have hxy := prefixOK_unique hx hy
      subst hxy
      rcases hpy with rfl | rfl
      · -- from the any-byte state: into the unanchored start, not consumed
        obtain ⟨hi, _, hh⟩ := hx.any
        rw [hh] at k2
        simp only [trans, List.mem_singleton, Prod.mk.injEq] at k2
        obtain ⟨_, rfl⟩ := k2
        unfold effLbl
        have hst : IsStart N.startAnchored N.startUnanchored false N.startUnanchored := Or.inr ⟨rfl, rfl⟩
        rw [if_pos hst]
        simp [consumeOf, hne]
      · -- from the unanchored start: a split
        rw [hx.su] at k2
        simp only [trans, List.mem_cons, Prod.mk.injEq, List.mem_nil_iff, or_false] at k2
        have hle : lbl e = none := by rcases k2 with h | h <;> exact h.1
        unfold effLbl
        split
        · split
          · exact hle
          · rfl
        · exact hle
    subst hlnone
    cases hl
    rcases inPrefix_targets hp (trans_target k2) with h | h
    · subst h; exact tail
    · exact ih h hm

/-- **forward paths are effective-edge paths from a start state** -/
theorem eff_iff_fwd (H : RevHyp N) (a : Bool) (h : Bytes) (s e : Nat) {m : Nat} (hm : m ∈ matchStates N) :
    (∃ s0, IsStart N.startAnchored N.startUnanchored a s0 ∧ ((rmOf N a).look s0).isSome = true ∧
        ESteps (EffEdge (ein (edgeTable N)) (rmOf N a) N.startAnchored N.startUnanchored a) h (s0, s) (m, e)) ↔
      StepsA N h (N.startAnchored, s) (m, e) := by
  have hsa : ¬ InPrefix N N.startAnchored := fun hp => inPrefix_ne_sa hp rfl
  constructor
  · rintro ⟨s0, hst, hmap, hp⟩
    by_cases hs0 : s0 = N.startAnchored
    · subst hs0
      exact eff_to_fwd H a h hp H.sa_lt hsa
    · rcases hst with hst | ⟨ha, hst⟩
      · exact absurd hst hs0
      · subst ha
        subst hst
        obtain ⟨x, hx⟩ := H.prefix hs0
        have := prefix_walk H h hp ⟨hs0, x, hx, Or.inr rfl⟩ (mem_matchStates.mp hm).2
        exact eff_to_fwd H false h this H.sa_lt hsa
  · intro hp
    exact ⟨N.startAnchored, Or.inl rfl, core_mapped H a H.sa_lt hsa, fwd_to_eff H a h hp H.sa_lt hsa⟩

end

/-! ### the theorems -/

/-- **Reverse automaton = reversed language**, in the form the meta engine uses it: `N` matches `h[s:e]` iff the reverse
    automaton, run on the reversed haystack from the mirror image of `e`, accepts up to the mirror image of `s`.
    `a = true` is `nfa.ReverseAnchored`, `a = false` is `nfa.Reverse`. -/
theorem reverse_accepts {N : NFA} (H : RevHyp N) (a : Bool) (h : Bytes) {s e : Nat} (hs : s ≤ h.size) (he : e ≤ h.size) :
    AcceptsA (reverse N a) (revB h) (h.size - e) (h.size - s) ↔ AcceptsA N h s e := by
  rw [built_accepts (reverse_built H a) (matchStates_mapped H a)]
  constructor
  · rintro ⟨m, hm, s0, hst, hmap, hp⟩
    have hp' := esteps_rev_inv hs he hp
    have := (eff_iff_fwd H a h s e hm).mp ⟨s0, hst, hmap, hp'⟩
    obtain ⟨h1, h2⟩ := mem_matchStates.mp hm
    exact ⟨m, this, h2, h1⟩
  · rintro ⟨m, hp, h2, h1⟩
    have hm := mem_matchStates.mpr ⟨h1, h2⟩
    obtain ⟨s0, hst, hmap, hp'⟩ := (eff_iff_fwd H a h s e hm).mpr hp
    exact ⟨m, hm, s0, hst, hmap, esteps_rev hp'⟩

/-- whole strings, anchored start: `ReverseAnchored(N)` accepts `reverse(w)` iff `N` accepts `w` -/
theorem reverseAnchored_whole {N : NFA} (H : RevHyp N) (w : Bytes) :
    AcceptsA (reverseAnchored N) (revB w) 0 w.size ↔ AcceptsA N w 0 w.size := by
  have := reverse_accepts H true w (Nat.zero_le _) (Nat.le_refl w.size)
  rw [Nat.sub_self, Nat.sub_zero] at this
  exact this

theorem reverseUnanchored_whole {N : NFA} (H : RevHyp N) (w : Bytes) :
    AcceptsA (reverseUnanchored N) (revB w) 0 w.size ↔ AcceptsA N w 0 w.size := by
  have := reverse_accepts H false w (Nat.zero_le _) (Nat.le_refl w.size)
  rw [Nat.sub_self, Nat.sub_zero] at this
  exact this

/-- the same with the first-match path relation `Accepts` of `Cx.Model.Nfa`, when the sparse states of both automata are
    first-match deterministic (`Pike.SparseDet`; decidable sufficient condition `Dfa.sparseDisjointB`).  The forward
    automata of the compiler are; the reverse ones need not be (`overlap_needs_all_transitions`). -/
theorem reverse_accepts_det {N : NFA} (H : RevHyp N) (a : Bool) (hS : Pike.SparseDet N) (hR : Pike.SparseDet (reverse N a))
    (h : Bytes) {s e : Nat} (hs : s ≤ h.size) (he : e ≤ h.size) :
    Accepts (reverse N a) (revB h) (h.size - e) (h.size - s) ↔ Accepts N h s e := by
  rw [← acceptsA_iff_accepts hS, ← acceptsA_iff_accepts hR]
  exact reverse_accepts H a h hs he

/-- soundness of a first-match run of the reverse automaton needs nothing about its sparse states -/
theorem reverse_accepts_sound {N : NFA} (H : RevHyp N) (a : Bool) (hS : Pike.SparseDet N)
    (h : Bytes) {s e : Nat} (hs : s ≤ h.size) (he : e ≤ h.size)
    (hr : Accepts (reverse N a) (revB h) (h.size - e) (h.size - s)) : Accepts N h s e :=
  (acceptsA_iff_accepts hS h s e).mp ((reverse_accepts H a h hs he).mp (accepts_acceptsA hr))

/-- **start location**: for a fixed end `e`, the starts of the forward matches are the mirrored ends of the reverse matches
    that begin at the mirror image of `e` -/
theorem reverse_starts {N : NFA} (H : RevHyp N) (a : Bool) (h : Bytes) {e : Nat} (he : e ≤ h.size) (j : Nat) (hj : j ≤ h.size) :
    AcceptsA (reverse N a) (revB h) (h.size - e) j ↔ AcceptsA N h (h.size - j) e := by
  have := reverse_accepts H a h (s := h.size - j) (Nat.sub_le _ _) he
  rw [show h.size - (h.size - j) = j by omega] at this
  exact this

/-- the LEFTMOST start of a match ending at `e` is the mirror image of the LONGEST reverse match from the mirror image of `e` -/
theorem leftmost_start_is_longest_reverse {N : NFA} (H : RevHyp N) (a : Bool) (h : Bytes) {s e : Nat} (hs : s ≤ h.size)
    (he : e ≤ h.size) :
    (AcceptsA N h s e ∧ ∀ s', s' < s → ¬ AcceptsA N h s' e) ↔
      (AcceptsA (reverse N a) (revB h) (h.size - e) (h.size - s) ∧
        ∀ j, h.size - s < j → j ≤ h.size → ¬ AcceptsA (reverse N a) (revB h) (h.size - e) j) := by
  rw [reverse_accepts H a h hs he]
  constructor
  · rintro ⟨h1, h2⟩
    refine ⟨h1, ?_⟩
    intro j hj1 hj2 hacc
    exact h2 (h.size - j) (by omega) ((reverse_starts H a h he j hj2).mp hacc)
  · rintro ⟨h1, h2⟩
    refine ⟨h1, ?_⟩
    intro s' hs' hacc
    have := (reverse_accepts H a h (s := s') (by omega) he).mpr hacc
    exact h2 (h.size - s') (by omega) (Nat.sub_le _ _) this

end Cx.Rev
