import Cx.Proofs.DfaRevRef
import Cx.Proofs.ReverseSimple
/-
  Cx.Proofs.DfaRevExamples — `decide`-checked witnesses for the reverse searches of the lazy DFA (`Cx.Model.DfaRev`).

    limited_cache_dependent   the result of `SearchReverseLimited` depends on the cache: pattern `ab`, reverse automaton
                              `nfa.Reverse`, haystack "xxab", start 0, end 4, minStart 1: -2 from the DFA loop (default
                              cache), 2 from the NFA fallback (1-byte cache).  Reproduced on the real code by
                              `fidelity/revwitness`.  Both answers are within the contract of the callers.
    revAb_*                   the three searches on the same automaton, cached = uncached = the expected starts
    revAb_hyps                the hypotheses of the theorems, decided on this automaton
-/
namespace Cx.Dfa
open Cx Cx.Nfa
open Cx.RevSuffix (RevAnswer)

/-- `ab` as compiled: `0/4/B.97.97.1;B.98.98.2;M;B.0.255.4;P.0.3` -/
def nfaAb : NFA :=
  { states := #[.byteRange 97 97 1, .byteRange 98 98 2, .mtch, .byteRange 0 255 4, .split 0 3],
    startAnchored := 0, startUnanchored := 4 }

/-- `nfa.Reverse` of it, as the real code builds it: `4/4/M;P.2.0;P.5.0;B.97.97.1;B.98.98.3;E.2` -/
def revAb : NFA :=
  { states := #[.mtch, .split 2 0, .split 5 0, .byteRange 97 97 1, .byteRange 98 98 3, .eps 2],
    startAnchored := 4, startUnanchored := 4 }

/-- the model of `nfa/reverse.go` produces exactly this automaton -/
theorem revAb_is_reverse : Rev.reverse nfaAb false = revAb := by rfl

/-- default reverse-DFA configuration (2 MB, 5 clears, no byte classes, `BreakAtMatch = false`) -/
def cfgRev : Config := { capacity := 2097152, maxClears := 5, stride := 256, cls := id, breakAtMatch := false }

/-- a cache that cannot hold a single state: every search is the NFA fallback -/
def cfgRevTiny : Config := { cfgRev with capacity := 1, maxClears := 0 }

theorem revAb_hyps : RevDfaHyp revAb cfgRev := { lf := by decide, nr := by decide, brk := rfl }

/-- "xxab" -/
def hayXXab : Bytes := #[120, 120, 97, 98]

/-- **the answer of `SearchReverseLimited` depends on the cache** (in the one way `searchReverseLimitedC_eq` allows) -/
theorem limited_cache_dependent :
    (searchReverseLimitedC revAb cfgRev Cache.empty hayXXab 0 4 1).1 = .cutOff ∧
    (searchReverseLimitedC revAb cfgRevTiny Cache.empty hayXXab 0 4 1).1 = .found 2 ∧
    searchReverseLimitedU revAb cfgRev hayXXab 0 4 1 = .found 2 := by decide

theorem revAb_searchReverse :
    (searchReverseC revAb cfgRev Cache.empty hayXXab 0 4).1 = .found 2 ∧
    (searchReverseC revAb cfgRevTiny Cache.empty hayXXab 0 4).1 = .found 2 ∧
    searchReverseU revAb cfgRev hayXXab 0 4 = .found 2 ∧
    searchReverseU revAb cfgRev hayXXab 0 3 = .none := by decide

theorem revAb_limited :
    (searchReverseLimitedC revAb cfgRev Cache.empty hayXXab 0 4 0).1 = .found 2 ∧
    (searchReverseLimitedC revAb cfgRev Cache.empty hayXXab 0 4 2).1 = .cutOff ∧
    (searchReverseLimitedC revAb cfgRev Cache.empty hayXXab 0 4 3).1 = .cutOff ∧
    (searchReverseLimitedC revAb cfgRev Cache.empty hayXXab 0 3 1).1 = .none ∧
    (searchReverseLimitedC revAb cfgRev Cache.empty hayXXab 0 4 9).1 = .cutOff := by decide

theorem revAb_isMatch :
    (isMatchReverseC revAb cfgRev Cache.empty hayXXab 0 4).1 = true ∧
    (isMatchReverseC revAb cfgRevTiny Cache.empty hayXXab 0 4).1 = true ∧
    isMatchReverseU revAb cfgRev hayXXab 3 4 = false := by decide

/-- `(?:xa|y[a-c])e` reversed has a sparse state with OVERLAPPING ranges (`Cx.Rev.overlap_needs_all_transitions`); the
    reverse search follows every matching transition -/
def revOverlap : NFA := Rev.reverse
  { states := #[.byteRange 120 120 1, .byteRange 97 97 5, .byteRange 121 121 3, .byteRange 97 99 5, .split 0 2,
      .byteRange 101 101 6, .mtch, .byteRange 0 255 8, .split 4 7], startAnchored := 4, startUnanchored := 8 } false

theorem revOverlap_not_disjoint : sparseDisjointB revOverlap = false := by decide

/-- "xae", "yae", "ybe" are all found although the ranges `a` and `[a-c]` overlap -/
theorem revOverlap_search :
    searchReverseU revOverlap cfgRev #[120, 97, 101] 0 3 = .found 0 ∧
    searchReverseU revOverlap cfgRev #[121, 97, 101] 0 3 = .found 0 ∧
    searchReverseU revOverlap cfgRev #[121, 98, 101] 0 3 = .found 0 ∧
    searchReverseU revOverlap cfgRev #[120, 98, 101] 0 3 = .none := by decide

end Cx.Dfa
