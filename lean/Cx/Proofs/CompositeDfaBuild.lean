import Cx.Proofs.CompositeDfaAuto
/-
  Cx.Proofs.CompositeDfaBuild — the subset construction (`buildDFASubsetConstruction`) is correct: the table it
  returns is a deterministic automaton whose state `id` stands for a configuration set `states[id]`, state 0 for the
  empty set, with `transitions[id*nc+cls]` the id of `delta (states[id]) cls` and `accepting[id]` = "the last part has met
  its minimum in `states[id]`" (`TableOK`, `buildDFASubsetConstruction_ok`).
-/
namespace Cx.CompDfa
open Cx Cx.Fast Cx.Fast.Spec

/-! ## `idOf` -/

theorem idOf_some {states : List Nat} {c i : Nat} (h : idOf states c = some i) : states[i]? = some c := by
  unfold idOf at h
  simp only [] at h
  split at h
  · rename_i hlt
    cases h
    rw [List.getElem?_eq_getElem hlt, List.getElem_idxOf hlt]
  · exact nomatch h

theorem idOf_none {states : List Nat} {c : Nat} (h : idOf states c = none) : c ∉ states := by
  unfold idOf at h
  simp only [] at h
  split at h
  · exact nomatch h
  · rename_i hlt
    intro hmem
    exact hlt (List.idxOf_lt_length_iff.mpr hmem)

theorem idOf_of_nodup {states : List Nat} (hnd : states.Nodup) {c i : Nat} (h : states[i]? = some c) :
    idOf states c = some i := by
  obtain ⟨hi, rfl⟩ := List.getElem?_eq_some_iff.mp h
  unfold idOf
  simp only []
  rw [hnd.idxOf_getElem i hi, if_pos hi]

/-! ## the class loop -/

theorem transLoop_spec (nxt : Nat → Nat) : ∀ (cl : List Nat) (st : Build) (trans : List Nat),
    ∃ (added new : List Nat), (transLoop nxt cl st trans).1.states = st.states ++ added ∧
      (transLoop nxt cl st trans).1.queue = st.queue ++ added ∧
      (st.states.Nodup → (transLoop nxt cl st trans).1.states.Nodup) ∧
      (transLoop nxt cl st trans).2 = trans ++ new ∧ new.length = cl.length ∧
      ∀ (i c : Nat), cl[i]? = some c → ∃ id, new[i]? = some id ∧ (transLoop nxt cl st trans).1.states[id]? = some (nxt c) := by
  intro cl
  induction cl with
  | nil =>
    intro st trans
    exact ⟨[], [], by simp [transLoop], by simp [transLoop], fun h => by simpa [transLoop] using h, by simp [transLoop],
      rfl, fun i c hc => by simp at hc⟩
  | cons c0 rest ih =>
    intro st trans
    cases hid : idOf st.states (nxt c0) with
    | some id =>
      simp only [transLoop, hid]
      obtain ⟨added, new, h1, h2, h3, h4, h5, h6⟩ := ih st (trans ++ [id])
      refine ⟨added, id :: new, h1, h2, h3, by rw [h4]; simp, by simp [h5], ?_⟩
      intro i c hc
      cases i with
      | zero =>
        simp only [List.getElem?_cons_zero, Option.some.injEq] at hc
        subst hc
        refine ⟨id, rfl, ?_⟩
        rw [h1]
        have hs := idOf_some hid
        have hlt : id < st.states.length := (List.getElem?_eq_some_iff.mp hs).1
        rw [List.getElem?_append_left hlt]; exact hs
      | succ i =>
        simp only [List.getElem?_cons_succ] at hc ⊢
        exact h6 i c hc
    | none =>
      simp only [transLoop, hid]
      obtain ⟨added, new, h1, h2, h3, h4, h5, h6⟩ :=
        ih { states := st.states ++ [nxt c0], queue := st.queue ++ [nxt c0] } (trans ++ [st.states.length])
      simp only [] at h1 h2 h3
      refine ⟨nxt c0 :: added, st.states.length :: new, by rw [h1]; simp, by rw [h2]; simp, ?_,
        by rw [h4]; simp, by simp [h5], ?_⟩
      · intro hnd
        apply h3
        rw [List.nodup_append]
        refine ⟨hnd, by simp, ?_⟩
        intro a ha b hb
        have hb : b = nxt c0 := by simpa using hb
        subst hb
        intro hab
        exact idOf_none hid (hab ▸ ha)
      · intro i c hc
        cases i with
        | zero =>
          simp only [List.getElem?_cons_zero, Option.some.injEq] at hc
          subst hc
          refine ⟨st.states.length, rfl, ?_⟩
          rw [h1, List.getElem?_append_left (by simp), List.getElem?_append_right (Nat.le_refl _)]
          simp
        | succ i =>
          simp only [List.getElem?_cons_succ] at hc ⊢
          exact h6 i c hc

/-! ## the worklist loop -/

/-- invariant of `for len(queue) > 0`: `dl S cls` is the configuration set the transition must lead to -/
structure BInv (nc : Nat) (dl : Nat → Nat → Nat) (st : Build) (rows : List (List Nat)) : Prop where
  nodup : st.states.Nodup
  zero : st.states[0]? = some 0
  rowsPos : 1 ≤ rows.length
  rowsLe : rows.length ≤ st.states.length
  queue : st.queue = st.states.drop rows.length
  rowsOK : ∀ id S, id < rows.length → st.states[id]? = some S →
    ∃ row, rows[id]? = some row ∧ row.length = nc ∧
      ∀ cls, cls < nc → ∃ id', row[cls]? = some id' ∧ st.states[id']? = some (dl S cls)

theorem setRow_next (rows : List (List Nat)) (trans : List Nat) : setRow rows rows.length trans = rows ++ [trans] := by
  unfold setRow
  rw [show rows.length + 1 - rows.length = 1 by omega]
  simp only [List.replicate_one]
  rw [List.set_append_right _ _ (Nat.le_refl _), Nat.sub_self]
  rfl

/-- one iteration of the worklist loop: the state taken from the queue is `states[len(rows)]`, its id is `len(rows)`,
    and the invariant holds again with the new row appended -/
theorem buildLoop_step (nc : Nat) (nxt dl : Nat → Nat → Nat) (hnxt : ∀ S cls, S ≠ 0 → nxt S cls = dl S cls)
    (st : Build) (rows : List (List Nat)) (current : Nat) (q : List Nat) (inv : BInv nc dl st rows)
    (hq : st.queue = current :: q) :
    idOf st.states current = some rows.length ∧ rows.length < st.states.length ∧
    BInv nc dl (transLoop (nxt current) (List.range nc) { st with queue := q } []).1
      (rows ++ [(transLoop (nxt current) (List.range nc) { st with queue := q } []).2]) := by
  have hdrop := inv.queue
  rw [hq] at hdrop
  have hlt : rows.length < st.states.length := by
    rcases Nat.lt_or_ge rows.length st.states.length with h1 | h1
    · exact h1
    · rw [List.drop_eq_nil_iff.mpr h1] at hdrop; exact nomatch hdrop
  rw [List.drop_eq_getElem_cons hlt] at hdrop
  obtain ⟨hcur, hq'⟩ := List.cons.inj hdrop
  have hcurget : st.states[rows.length]? = some current := by
    rw [List.getElem?_eq_getElem hlt, hcur]
  have hid : idOf st.states current = some rows.length := idOf_of_nodup inv.nodup hcurget
  have hcur0 : current ≠ 0 := by
    intro h0
    rw [h0] at hcurget
    have := idOf_of_nodup inv.nodup inv.zero
    rw [idOf_of_nodup inv.nodup hcurget] at this
    have := Option.some.inj this
    have := inv.rowsPos
    omega
  refine ⟨hid, hlt, ?_⟩
  obtain ⟨added, new, h1, h2, h3, h4, h5, h6⟩ :=
    transLoop_spec (nxt current) (List.range nc) { st with queue := q } []
  simp only [] at h1 h2 h3
  constructor
  · exact h3 inv.nodup
  · rw [h1, List.getElem?_append_left (by omega)]; exact inv.zero
  · simp
  · rw [h1]; simp; omega
  · rw [h2, h1, hq', List.length_append, List.length_singleton, List.drop_append_of_le_length (by omega)]
  · intro id S hidlt hS
    rw [List.length_append, List.length_singleton] at hidlt
    by_cases hold : id < rows.length
    · have hS' : st.states[id]? = some S := by
        rw [h1, List.getElem?_append_left (by omega)] at hS; exact hS
      obtain ⟨row, hr1, hr2, hr3⟩ := inv.rowsOK id S hold hS'
      refine ⟨row, by rw [List.getElem?_append_left hold]; exact hr1, hr2, fun cls hcls => ?_⟩
      obtain ⟨id', hi1, hi2⟩ := hr3 cls hcls
      refine ⟨id', hi1, ?_⟩
      rw [h1, List.getElem?_append_left (List.getElem?_eq_some_iff.mp hi2).1]; exact hi2
    · have hideq : id = rows.length := by omega
      subst hideq
      have hSc : S = current := by
        rw [h1, List.getElem?_append_left hlt, hcurget] at hS
        exact (Option.some.inj hS).symm
      subst hSc
      rw [List.nil_append] at h4
      refine ⟨new, by rw [List.getElem?_append_right (Nat.le_refl _), Nat.sub_self, h4]; rfl,
        by rw [h5, List.length_range], fun cls hcls => ?_⟩
      obtain ⟨id', hi1, hi2⟩ := h6 cls cls (List.getElem?_range hcls)
      exact ⟨id', hi1, by rw [← hnxt S cls hcur0]; exact hi2⟩

theorem buildLoop_inv (nc : Nat) (nxt dl : Nat → Nat → Nat) (hnxt : ∀ S cls, S ≠ 0 → nxt S cls = dl S cls) :
    ∀ (fuel : Nat) (st : Build) (rows : List (List Nat)) (st' : Build) (rows' : List (List Nat)),
      BInv nc dl st rows → buildLoop nc nxt fuel st rows = some (st', rows') →
      BInv nc dl st' rows' ∧ st'.queue = [] := by
  intro fuel
  induction fuel with
  | zero => intro st rows st' rows' _ h; exact nomatch h
  | succ f ih =>
    intro st rows st' rows' inv h
    rw [buildLoop] at h
    split at h
    · rename_i hq
      cases h
      exact ⟨inv, hq⟩
    · rename_i current q hq
      split at h
      · exact nomatch h
      · simp only [] at h
        obtain ⟨hid, _, inv'⟩ := buildLoop_step nc nxt dl hnxt st rows current q inv hq
        rw [hid] at h
        simp only [Option.getD_some] at h
        rw [setRow_next] at h
        exact ih _ _ st' rows' inv' h

/-- **the fuel of `buildLoop` never runs out**: from a loop head with `len(rows)` rows processed, `maxCompositeStates + 2
    - len(rows)` units are enough — more fuel gives the same result.  (The Go loop gives up as soon as more than
    `maxCompositeStates` states exist, and each iteration finishes one state id.) -/
theorem buildLoop_fuel_irrelevant (nc : Nat) (nxt dl : Nat → Nat → Nat) (hnxt : ∀ S cls, S ≠ 0 → nxt S cls = dl S cls) :
    ∀ (f : Nat) (st : Build) (rows : List (List Nat)), BInv nc dl st rows → rows.length ≤ maxCompositeStates →
      maxCompositeStates + 2 ≤ rows.length + f →
      buildLoop nc nxt (f + 1) st rows = buildLoop nc nxt f st rows := by
  intro f
  induction f with
  | zero => intro st rows _ h1 h2; omega
  | succ f ih =>
    intro st rows inv h1 h2
    conv => lhs; rw [buildLoop]
    conv => rhs; rw [buildLoop]
    split
    · rfl
    · rename_i current q hq
      split
      · rfl
      · rename_i hle
        simp only []
        obtain ⟨hid, hlt, inv'⟩ := buildLoop_step nc nxt dl hnxt st rows current q inv hq
        rw [hid]
        simp only [Option.getD_some]
        rw [setRow_next]
        apply ih _ _ inv'
        · rw [List.length_append, List.length_singleton]; omega
        · rw [List.length_append, List.length_singleton]; omega

theorem buildLoop_fuel_irrelevant' (nc : Nat) (nxt dl : Nat → Nat → Nat) (hnxt : ∀ S cls, S ≠ 0 → nxt S cls = dl S cls)
    (f : Nat) (st : Build) (rows : List (List Nat)) (inv : BInv nc dl st rows) (h1 : rows.length ≤ maxCompositeStates)
    (h2 : maxCompositeStates + 2 ≤ rows.length + f) :
    ∀ k, buildLoop nc nxt (f + k) st rows = buildLoop nc nxt f st rows := by
  intro k
  induction k with
  | zero => rfl
  | succ k ih =>
    rw [← Nat.add_assoc, buildLoop_fuel_irrelevant nc nxt dl hnxt (f + k) st rows inv h1 (by omega), ih]

/-! ## the table -/

/-- what a `compositeTable` must be for the transition function `dl` on configuration sets and the acceptance test `acc` -/
def TableOK (nc : Nat) (dl : Nat → Nat → Nat) (acc : Nat → Bool) (T : CompositeTable) : Prop :=
  ∃ states : List Nat, states.Nodup ∧ states[0]? = some 0 ∧
    ∀ id S, states[id]? = some S →
      T.accepting.getD id false = acc S ∧
      ∀ cls, cls < nc → states[CompositeSequenceDFA.step nc T.transitions id cls]? = some (dl S cls)

theorem flatten_get (nc nstates : Nat) (rows : List (List Nat)) (id cls : Nat) (hid : id < nstates) (hcls : cls < nc) :
    CompositeSequenceDFA.step nc (flatten nc nstates rows) id cls = (rows.getD id []).getD cls 0 := by
  unfold CompositeSequenceDFA.step flatten
  have hk : id * nc + cls < nstates * nc := by
    calc id * nc + cls < id * nc + nc := by omega
      _ = (id + 1) * nc := by rw [Nat.add_mul, Nat.one_mul]
      _ ≤ nstates * nc := Nat.mul_le_mul_right _ hid
  rw [Array.getD_eq_getD_getElem?, List.getElem?_toArray, List.getElem?_map, List.getElem?_range hk]
  simp only [Option.map_some, Option.getD_some]
  have h1 : (id * nc + cls) / nc = id := by
    rw [Nat.mul_comm, Nat.mul_add_div (by omega), Nat.div_eq_of_lt hcls, Nat.add_zero]
  have h2 : (id * nc + cls) % nc = cls := by
    rw [Nat.mul_comm, Nat.mul_add_mod, Nat.mod_eq_of_lt hcls]
  rw [h1, h2]

theorem computeNext_zero (cm : CharClassPart → Bool) (parts : List CharClassPart) : computeNextConfigs cm parts 0 = 0 := by
  apply Nat.eq_of_testBit_eq
  intro j
  rw [Nat.zero_testBit]
  cases hj : (computeNextConfigs cm parts 0).testBit j with
  | false => rfl
  | true =>
    rw [computeNextConfigs_testBit] at hj
    obtain ⟨p, c, _, hcon⟩ := hj
    unfold contrib at hcon
    rw [Nat.zero_testBit, Bool.false_and] at hcon
    exact absurd hcon Bool.false_ne_true

/-- **the subset construction is correct** -/
theorem buildDFASubsetConstruction_ok (btc : Array Nat) (nc : Nat) (parts : List CharClassPart) (restart : Bool)
    (T : CompositeTable) (hT : buildDFASubsetConstruction btc nc parts restart = some T) :
    TableOK nc (fun S cls => delta (classMatchesPart btc cls) parts restart S)
      (fun S => S.testBit (bitIdx parts (parts.length - 1) (mn parts (parts.length - 1)))) T := by
  unfold buildDFASubsetConstruction at hT
  simp only [] at hT
  have hfirst : configBit parts 0 1 = 1 := by rw [configBit_eq, bitIdx, off_zero]
  have hid0 : idOf [0] (configBit parts 0 1) = none := by rw [hfirst]; rfl
  rw [hid0] at hT
  simp only [] at hT
  have hid1 : idOf [0, configBit parts 0 1] (configBit parts 0 1) = some 1 := by rw [hfirst]; rfl
  rw [hid1] at hT
  simp only [Option.getD_some] at hT
  split at hT
  · exact nomatch hT
  · rename_i st rows hloop
    cases hT
    have hinit : BInv nc (fun S cls => delta (classMatchesPart btc cls) parts restart S)
        { states := [0, configBit parts 0 1], queue := [configBit parts 0 1] }
        [(List.range nc).map fun cls => if classMatchesPart btc cls (parts.getD 0 default) = true then 1 else 0] := by
      constructor
      · rw [hfirst]; decide
      · rfl
      · simp
      · simp
      · simp
      · intro id S hid hS
        have hid : id = 0 := by simpa using hid
        subst hid
        have hS : S = 0 := by simpa using hS.symm
        subst hS
        refine ⟨_, rfl, by simp, fun cls hcls => ?_⟩
        rw [List.getElem?_map, List.getElem?_range hcls]
        simp only [Option.map_some]
        unfold delta
        rw [computeNext_zero, Nat.zero_or]
        by_cases hc : classMatchesPart btc cls (parts.getD 0 default) = true
        · refine ⟨1, by rw [if_pos hc], ?_⟩
          have hcond : ((restart || (0 : Nat) == 0) && classMatchesPart btc cls (parts.getD 0 default)) = true := by
            rw [hc]; simp
          rw [if_pos hcond]; rfl
        · refine ⟨0, by rw [if_neg hc], ?_⟩
          have hcond : ¬ ((restart || (0 : Nat) == 0) && classMatchesPart btc cls (parts.getD 0 default)) = true := by
            intro hh; rw [Bool.and_eq_true] at hh; exact hc hh.2
          rw [if_neg hcond]; rfl
    obtain ⟨inv, hq⟩ := buildLoop_inv nc _ (fun S cls => delta (classMatchesPart btc cls) parts restart S)
      (by
        intro S cls hS
        unfold delta
        have : (S == 0) = false := by simpa using hS
        rw [this, Bool.or_false]
        split
        · rfl
        · rw [Nat.or_zero]) _ _ _ st rows hinit hloop
    have hlen : rows.length = st.states.length := by
      have := inv.queue
      rw [hq] at this
      have := List.drop_eq_nil_iff.mp this.symm
      have := inv.rowsLe
      omega
    refine ⟨st.states, inv.nodup, inv.zero, fun id S hS => ⟨?_, fun cls hcls => ?_⟩⟩
    · rw [Array.getD_eq_getD_getElem?, List.getElem?_toArray, List.getElem?_map, hS]
      simp only [Option.map_some, Option.getD_some]
      have hmn : (parts.getD (parts.length - 1) default).minMatch = mn parts (parts.length - 1) := rfl
      rw [hmn, configBit_eq]
      have := and_two_pow_eq_zero S (bitIdx parts (parts.length - 1) (mn parts (parts.length - 1)))
      cases hb : S.testBit (bitIdx parts (parts.length - 1) (mn parts (parts.length - 1))) with
      | false => simpa using this.mpr hb
      | true =>
        have : ¬ (S &&& 2 ^ bitIdx parts (parts.length - 1) (mn parts (parts.length - 1)) = 0) := by
          intro h0; rw [this.mp h0] at hb; exact Bool.false_ne_true hb
        simpa using this
    · have hidlt : id < st.states.length := (List.getElem?_eq_some_iff.mp hS).1
      obtain ⟨row, hr1, hr2, hr3⟩ := inv.rowsOK id S (by omega) hS
      obtain ⟨id', hi1, hi2⟩ := hr3 cls hcls
      rw [flatten_get nc _ rows id cls hidlt hcls]
      simp only [List.getD_eq_getElem?_getD, hr1, hi1, Option.getD_some]
      exact hi2

end Cx.CompDfa
