import Cx.Proofs.PikeOrder
/-
  Cx.Proofs.PikeMulti — from the single-start equivalence to the unanchored search: threads of earlier start
  positions can reach no match ("dead"); they only occupy states that are dead anyway, so the threads of the
  leftmost matching start evolve as in the anchored run, up to dead threads.
-/
namespace Cx.Pike
open Cx Cx.Nfa

/-- no match state is reachable from `(q, pos)` -/
def NM (N : NFA) (h : Bytes) (pos q : Nat) : Prop := ¬ ∃ j, Reaches N h q pos j

theorem NM.step {N : NFA} {h : Bytes} {pos q pos' q' : Nat} (hn : NM N h pos q) (hs : Step N h (q, pos) (q', pos')) :
    NM N h pos' q' := fun ⟨j, hr⟩ => hn ⟨j, reaches_cons hs hr⟩

theorem NM.not_match {N : NFA} {h : Bytes} {pos q : Nat} (hn : NM N h pos q) : isMatchState N q = false := by
  cases hm : isMatchState N q with
  | false => rfl
  | true =>
    exfalso
    have hk := (isMatchState_iff N q).mp hm
    exact hn ⟨pos, q, Steps.refl _, hk, get_lt_of_ne_fail (by rw [hk]; simp)⟩

/-- equal up to threads on dead states -/
inductive Sim (D : Nat → Prop) : List Thread → List Thread → Prop where
  | nil : Sim D [] []
  | both (t : Thread) {a b : List Thread} : Sim D a b → Sim D (t :: a) (t :: b)
  | left (t : Thread) {a b : List Thread} : D t.state → Sim D a b → Sim D (t :: a) b
  | right (t : Thread) {a b : List Thread} : D t.state → Sim D a b → Sim D a (t :: b)

theorem Sim.refl (D : Nat → Prop) : ∀ (a : List Thread), Sim D a a
  | [] => Sim.nil
  | t :: a => Sim.both t (Sim.refl D a)

theorem Sim.left_append {D : Nat → Prop} {L a b : List Thread} (hL : ∀ x ∈ L, D x.state) (hs : Sim D a b) :
    Sim D (L ++ a) b := by
  induction L with
  | nil => exact hs
  | cons x L ih =>
    exact Sim.left x (hL x List.mem_cons_self) (ih fun y hy => hL y (List.mem_cons_of_mem _ hy))

theorem Sim.right_append {D : Nat → Prop} {L a b : List Thread} (hL : ∀ x ∈ L, D x.state) (hs : Sim D a b) :
    Sim D a (L ++ b) := by
  induction L with
  | nil => exact hs
  | cons x L ih =>
    exact Sim.right x (hL x List.mem_cons_self) (ih fun y hy => hL y (List.mem_cons_of_mem _ hy))

theorem Sim.both_append {D : Nat → Prop} (L : List Thread) {a b : List Thread} (hs : Sim D a b) :
    Sim D (L ++ a) (L ++ b) := by
  induction L with
  | nil => exact hs
  | cons x L ih => exact Sim.both x ih

theorem Sim.append {D : Nat → Prop} {a b c d : List Thread} (h1 : Sim D a b) (h2 : Sim D c d) :
    Sim D (a ++ c) (b ++ d) := by
  induction h1 with
  | nil => exact h2
  | both t _ ih => exact Sim.both t ih
  | left t hd _ ih => exact Sim.left t hd ih
  | right t hd _ ih => exact Sim.right t hd ih

theorem Sim.of_dead_left {D : Nat → Prop} {L : List Thread} (hL : ∀ x ∈ L, D x.state) : Sim D L [] := by
  have := Sim.left_append (a := []) (b := []) hL Sim.nil
  simpa using this

theorem Sim.of_dead_right {D : Nat → Prop} {L : List Thread} (hL : ∀ x ∈ L, D x.state) : Sim D [] L := by
  have := Sim.right_append (a := []) (b := []) hL Sim.nil
  simpa using this

/-- visited sets agree outside the dead states -/
def AgreeD (D : Nat → Prop) (W1 W2 : Vis) : Prop := ∀ q, ¬ D q → W1.getD q true = W2.getD q true

theorem AgreeD.set_both {D : Nat → Prop} {W1 W2 : Vis} (ha : AgreeD D W1 W2) (q : Nat)
    (h1 : W1.getD q true = false) (h2 : W2.getD q true = false) :
    AgreeD D (W1.setIfInBounds q true) (W2.setIfInBounds q true) := by
  intro q' hq'
  by_cases he : q' = q
  · subst he; rw [getD_set_self h1, getD_set_self h2]
  · rw [getD_set_other (Ne.symm he), getD_set_other (Ne.symm he)]; exact ha q' hq'

theorem AgreeD.set_left {D : Nat → Prop} {W1 W2 : Vis} (ha : AgreeD D W1 W2) {q : Nat} (hd : D q) :
    AgreeD D (W1.setIfInBounds q true) W2 := by
  intro q' hq'
  have he : q ≠ q' := fun hh => hq' (hh ▸ hd)
  rw [getD_set_other he]; exact ha q' hq'

theorem AgreeD.set_right {D : Nat → Prop} {W1 W2 : Vis} (ha : AgreeD D W1 W2) {q : Nat} (hd : D q) :
    AgreeD D W1 (W2.setIfInBounds q true) := by
  intro q' hq'
  have he : q ≠ q' := fun hh => hq' (hh ▸ hd)
  rw [getD_set_other he]; exact ha q' hq'

theorem sim_out_left {D : Nat → Prop} {o1 o2 : List Thread} (hs : Sim D o1 o2) {t : Thread} (hd : D t.state)
    (b : Bool) : Sim D (if b = true then o1 ++ [t] else o1) o2 := by
  cases b with
  | false => exact hs
  | true =>
    have := Sim.append hs (Sim.of_dead_left (L := [t]) (by simpa using hd))
    simpa using this

theorem sim_out_right {D : Nat → Prop} {o1 o2 : List Thread} (hs : Sim D o1 o2) {t : Thread} (hd : D t.state)
    (b : Bool) : Sim D o1 (if b = true then o2 ++ [t] else o2) := by
  cases b with
  | false => exact hs
  | true =>
    have := Sim.append hs (Sim.of_dead_right (L := [t]) (by simpa using hd))
    simpa using this

theorem sim_out_both {D : Nat → Prop} {o1 o2 : List Thread} (hs : Sim D o1 o2) (t : Thread)
    (b : Bool) : Sim D (if b = true then o1 ++ [t] else o1) (if b = true then o2 ++ [t] else o2) := by
  cases b with
  | false => exact hs
  | true => exact Sim.append hs (Sim.refl D [t])

/-- two closures from stacks / visited sets / queues that agree up to dead states agree up to dead states -/
theorem closure_sim {N : NFA} {h : Bytes} {pos : Nat} {D : Nat → Prop}
    (hD : ∀ q q', D q → Step N h (q, pos) (q', pos) → D q') :
    ∀ (m f1 f2 : Nat) (st1 st2 : List Thread) (W1 W2 : Vis) (o1 o2 : List Thread), f1 + f2 ≤ m →
      2 * W1.count false + st1.length ≤ f1 → 2 * W2.count false + st2.length ≤ f2 →
      Sim D st1 st2 → AgreeD D W1 W2 → Sim D o1 o2 →
      AgreeD D (closure N h pos f1 st1 W1 o1).1 (closure N h pos f2 st2 W2 o2).1 ∧
      Sim D (closure N h pos f1 st1 W1 o1).2 (closure N h pos f2 st2 W2 o2).2 := by
  intro m
  induction m with
  | zero =>
    intro f1 f2 st1 st2 W1 W2 o1 o2 hm h1 h2 hs ha ho
    have e1 : st1 = [] := by
      cases st1 with
      | nil => rfl
      | cons a b => simp at h1; omega
    have e2 : st2 = [] := by
      cases st2 with
      | nil => rfl
      | cons a b => simp at h2; omega
    subst e1; subst e2
    simp only [closure_nil]
    exact ⟨ha, ho⟩
  | succ m ih =>
    intro f1 f2 st1 st2 W1 W2 o1 o2 hm h1 h2 hs ha ho
    have hchild : ∀ t : Thread, D t.state → ∀ x ∈ (expand N h pos t).1, D x.state :=
      fun t hd x hx => hD _ _ hd (expand_push hx).2
    cases hs with
    | nil => simp only [closure_nil]; exact ⟨ha, ho⟩
    | @left t a b hd hrest =>
      obtain ⟨f1, rfl⟩ : ∃ k, f1 = k + 1 := ⟨f1 - 1, by simp at h1; omega⟩
      rw [closure]
      split
      · exact ih f1 f2 a st2 W1 W2 o1 o2 (by omega) (by simp at h1; omega) h2 hrest ha ho
      · rename_i hv
        have hv : W1.getD t.state true = false := by simpa using hv
        have hcnt := count_set_lt hv
        have hlen := expand_len N h pos t
        simp only []
        exact ih f1 f2 _ st2 _ W2 _ o2 (by omega)
          (by simp only [List.length_append, List.length_cons] at h1 ⊢; omega) h2
          (Sim.left_append (hchild t hd) hrest) (ha.set_left hd) (sim_out_left ho hd _)
    | @right t a b hd hrest =>
      obtain ⟨f2, rfl⟩ : ∃ k, f2 = k + 1 := ⟨f2 - 1, by simp at h2; omega⟩
      rw [closure]
      split
      · exact ih f1 f2 st1 b W1 W2 o1 o2 (by omega) h1 (by simp at h2; omega) hrest ha ho
      · rename_i hv
        have hv : W2.getD t.state true = false := by simpa using hv
        have hcnt := count_set_lt hv
        have hlen := expand_len N h pos t
        simp only []
        exact ih f1 f2 st1 _ W1 _ o1 _ (by omega) h1
          (by simp only [List.length_append, List.length_cons] at h2 ⊢; omega)
          (Sim.right_append (hchild t hd) hrest) (ha.set_right hd) (sim_out_right ho hd _)
    | @both t a b hrest =>
      obtain ⟨f1, rfl⟩ : ∃ k, f1 = k + 1 := ⟨f1 - 1, by simp at h1; omega⟩
      obtain ⟨f2, rfl⟩ : ∃ k, f2 = k + 1 := ⟨f2 - 1, by simp at h2; omega⟩
      have hlen := expand_len N h pos t
      rw [closure, closure]
      by_cases hv1 : W1.getD t.state true = true
      · rw [if_pos hv1]
        by_cases hv2 : W2.getD t.state true = true
        · rw [if_pos hv2]
          exact ih f1 f2 a b W1 W2 o1 o2 (by omega) (by simp at h1; omega) (by simp at h2; omega) hrest ha ho
        · rw [if_neg hv2]
          have hv2' : W2.getD t.state true = false := by simpa using hv2
          have hd : D t.state := by
            apply Classical.byContradiction
            intro hnd
            have := ha t.state hnd
            rw [hv1, hv2'] at this; cases this
          have hcnt := count_set_lt hv2'
          simp only []
          exact ih f1 f2 a _ W1 _ o1 _ (by omega) (by simp at h1; omega)
            (by simp only [List.length_append, List.length_cons] at h2 ⊢; omega)
            (Sim.right_append (hchild t hd) hrest) (ha.set_right hd) (sim_out_right ho hd _)
      · rw [if_neg hv1]
        have hv1' : W1.getD t.state true = false := by simpa using hv1
        have hcnt1 := count_set_lt hv1'
        by_cases hv2 : W2.getD t.state true = true
        · rw [if_pos hv2]
          have hd : D t.state := by
            apply Classical.byContradiction
            intro hnd
            have := ha t.state hnd
            rw [hv1', hv2] at this; cases this
          simp only []
          exact ih f1 f2 _ b _ W2 _ o2 (by omega)
            (by simp only [List.length_append, List.length_cons] at h1 ⊢; omega) (by simp at h2; omega)
            (Sim.left_append (hchild t hd) hrest) (ha.set_left hd) (sim_out_left ho hd _)
        · rw [if_neg hv2]
          have hv2' : W2.getD t.state true = false := by simpa using hv2
          have hcnt2 := count_set_lt hv2'
          simp only []
          exact ih f1 f2 _ _ _ _ _ _ (by omega)
            (by simp only [List.length_append, List.length_cons] at h1 ⊢; omega)
            (by simp only [List.length_append, List.length_cons] at h2 ⊢; omega)
            (Sim.both_append _ hrest) (ha.set_both _ hv1' hv2') (sim_out_both ho t _)

theorem closure_size (N : NFA) (h : Bytes) (pos : Nat) : ∀ (fuel : Nat) (stack : List Thread) (vis : Vis)
    (out : List Thread), (closure N h pos fuel stack vis out).1.size = vis.size := by
  intro fuel
  induction fuel with
  | zero => intro stack vis out; simp [closure]
  | succ fuel ih =>
    intro stack vis out
    cases stack with
    | nil => simp [closure]
    | cons fr st =>
      rw [closure]
      split
      · exact ih ..
      · simp only []; rw [ih]; simp

theorem addThread_size (N : NFA) (h : Bytes) (pos : Nat) (t : Thread) (vq : Vis × List Thread) :
    (addThread N h pos t vq).1.size = vq.1.size := closure_size ..

theorem count_le_of_size {N : NFA} {W : Vis} (hs : W.size = N.states.size) : W.count false ≤ N.states.size := by
  have := Array.count_le_size (a := false) (xs := W)
  rw [hs] at this; exact this

section
variable {N : NFA} {h : Bytes}

theorem nm_eps {pos : Nat} : ∀ q q', NM N h pos q → Step N h (q, pos) (q', pos) → NM N h pos q' :=
  fun _ _ hn hs => hn.step hs

theorem addThread_sim_both {pos : Nat} (t : Thread) {vq1 vq2 : Vis × List Thread}
    (ha : AgreeD (NM N h pos) vq1.1 vq2.1) (ho : Sim (NM N h pos) vq1.2 vq2.2)
    (s1 : vq1.1.size = N.states.size) (s2 : vq2.1.size = N.states.size) :
    AgreeD (NM N h pos) (addThread N h pos t vq1).1 (addThread N h pos t vq2).1 ∧
    Sim (NM N h pos) (addThread N h pos t vq1).2 (addThread N h pos t vq2).2 := by
  have c1 := count_le_of_size s1
  have c2 := count_le_of_size s2
  exact closure_sim nm_eps _ _ _ _ _ _ _ _ _ (Nat.le_refl _)
    (by simp only [closureFuel, List.length_cons, List.length_nil]; omega)
    (by simp only [closureFuel, List.length_cons, List.length_nil]; omega)
    (Sim.refl _ [t]) ha ho

theorem addThread_sim_left {pos : Nat} {t : Thread} (hd : NM N h pos t.state) {vq1 vq2 : Vis × List Thread}
    (ha : AgreeD (NM N h pos) vq1.1 vq2.1) (ho : Sim (NM N h pos) vq1.2 vq2.2) (s1 : vq1.1.size = N.states.size) :
    AgreeD (NM N h pos) (addThread N h pos t vq1).1 vq2.1 ∧
    Sim (NM N h pos) (addThread N h pos t vq1).2 vq2.2 := by
  have c1 := count_le_of_size s1
  have := closure_sim (N := N) (h := h) (pos := pos) nm_eps _ (closureFuel N) (2 * vq2.1.count false) [t] []
    vq1.1 vq2.1 vq1.2 vq2.2
    (Nat.le_refl _) (by simp only [closureFuel, List.length_cons, List.length_nil]; omega) (by simp)
    (Sim.left t hd Sim.nil) ha ho
  rw [closure_nil] at this
  exact this

theorem addThread_sim_right {pos : Nat} {t : Thread} (hd : NM N h pos t.state) {vq1 vq2 : Vis × List Thread}
    (ha : AgreeD (NM N h pos) vq1.1 vq2.1) (ho : Sim (NM N h pos) vq1.2 vq2.2) (s2 : vq2.1.size = N.states.size) :
    AgreeD (NM N h pos) vq1.1 (addThread N h pos t vq2).1 ∧
    Sim (NM N h pos) vq1.2 (addThread N h pos t vq2).2 := by
  have c2 := count_le_of_size s2
  have := closure_sim (N := N) (h := h) (pos := pos) nm_eps _ (2 * vq1.1.count false) (closureFuel N) [] [t]
    vq1.1 vq2.1 vq1.2 vq2.2
    (Nat.le_refl _) (by simp) (by simp only [closureFuel, List.length_cons, List.length_nil]; omega)
    (Sim.right t hd Sim.nil) ha ho
  rw [closure_nil] at this
  exact this

theorem addAll_size (pos s : Nat) (L : List Nat) : ∀ (vq : Vis × List Thread),
    (addAll N h pos s L vq).1.size = vq.1.size := by
  induction L with
  | nil => intro vq; rfl
  | cons x L ih =>
    intro vq
    have hunf : addAll N h pos s (x :: L) vq = addAll N h pos s L (addThread N h pos ⟨x, s⟩ vq) := rfl
    rw [hunf, ih, addThread_size]

theorem addAll_sim_both {pos : Nat} (s : Nat) (L : List Nat) : ∀ {vq1 vq2 : Vis × List Thread},
    AgreeD (NM N h pos) vq1.1 vq2.1 → Sim (NM N h pos) vq1.2 vq2.2 → vq1.1.size = N.states.size →
    vq2.1.size = N.states.size →
    AgreeD (NM N h pos) (addAll N h pos s L vq1).1 (addAll N h pos s L vq2).1 ∧
    Sim (NM N h pos) (addAll N h pos s L vq1).2 (addAll N h pos s L vq2).2 := by
  induction L with
  | nil => intro vq1 vq2 ha ho _ _; exact ⟨ha, ho⟩
  | cons x L ih =>
    intro vq1 vq2 ha ho s1 s2
    have hunf : ∀ vq, addAll N h pos s (x :: L) vq = addAll N h pos s L (addThread N h pos ⟨x, s⟩ vq) := fun _ => rfl
    rw [hunf, hunf]
    obtain ⟨a1, a2⟩ := addThread_sim_both (N := N) (h := h) (pos := pos) ⟨x, s⟩ ha ho s1 s2
    exact ih a1 a2 ((addThread_size ..).trans s1) ((addThread_size ..).trans s2)

theorem addAll_sim_left {pos : Nat} (s : Nat) (L : List Nat) (hL : ∀ x ∈ L, NM N h pos x) :
    ∀ {vq1 vq2 : Vis × List Thread},
    AgreeD (NM N h pos) vq1.1 vq2.1 → Sim (NM N h pos) vq1.2 vq2.2 → vq1.1.size = N.states.size →
    AgreeD (NM N h pos) (addAll N h pos s L vq1).1 vq2.1 ∧
    Sim (NM N h pos) (addAll N h pos s L vq1).2 vq2.2 := by
  induction L with
  | nil => intro vq1 vq2 ha ho _; exact ⟨ha, ho⟩
  | cons x L ih =>
    intro vq1 vq2 ha ho s1
    have hunf : ∀ vq, addAll N h pos s (x :: L) vq = addAll N h pos s L (addThread N h pos ⟨x, s⟩ vq) := fun _ => rfl
    rw [hunf]
    obtain ⟨a1, a2⟩ := addThread_sim_left (N := N) (h := h) (pos := pos) (t := ⟨x, s⟩)
      (hL x List.mem_cons_self) ha ho s1
    exact ih (fun y hy => hL y (List.mem_cons_of_mem _ hy)) a1 a2 ((addThread_size ..).trans s1)

theorem addAll_sim_right {pos : Nat} (s : Nat) (L : List Nat) (hL : ∀ x ∈ L, NM N h pos x) :
    ∀ {vq1 vq2 : Vis × List Thread},
    AgreeD (NM N h pos) vq1.1 vq2.1 → Sim (NM N h pos) vq1.2 vq2.2 → vq2.1.size = N.states.size →
    AgreeD (NM N h pos) vq1.1 (addAll N h pos s L vq2).1 ∧
    Sim (NM N h pos) vq1.2 (addAll N h pos s L vq2).2 := by
  induction L with
  | nil => intro vq1 vq2 ha ho _; exact ⟨ha, ho⟩
  | cons x L ih =>
    intro vq1 vq2 ha ho s2
    have hunf : ∀ vq, addAll N h pos s (x :: L) vq = addAll N h pos s L (addThread N h pos ⟨x, s⟩ vq) := fun _ => rfl
    rw [hunf]
    obtain ⟨a1, a2⟩ := addThread_sim_right (N := N) (h := h) (pos := pos) (t := ⟨x, s⟩)
      (hL x List.mem_cons_self) ha ho s2
    exact ih (fun y hy => hL y (List.mem_cons_of_mem _ hy)) a1 a2 ((addThread_size ..).trans s2)

theorem succs_dead (hS : SparseDet N) (hR : RuneOK N h) {pos : Nat} (hp : pos < h.size) {q : Nat}
    (hd : NM N h pos q) : ∀ x ∈ succs N h pos q, NM N h (pos+1) x :=
  fun x hx => hd.step ((mem_succs_iff hS hR hp q x).mp hx)

theorem stepAll_size (hR : RuneOK N h) {pos : Nat} (hp : pos < h.size) (Q : List Thread) :
    ∀ (vq : Vis × List Thread), (stepAll N h pos Q vq).1.size = vq.1.size := by
  induction Q with
  | nil => intro vq; rfl
  | cons t Q ih =>
    intro vq
    simp only [stepAll]
    rw [ih, stepThread_eq hR hp, addAll_size]

/-- stepping two queues that agree up to dead threads -/
theorem stepAll_sim (hS : SparseDet N) (hR : RuneOK N h) {pos : Nat} (hp : pos < h.size) {Q1 Q2 : List Thread}
    (hq : Sim (NM N h pos) Q1 Q2) : ∀ {vq1 vq2 : Vis × List Thread},
    AgreeD (NM N h (pos+1)) vq1.1 vq2.1 → Sim (NM N h (pos+1)) vq1.2 vq2.2 → vq1.1.size = N.states.size →
    vq2.1.size = N.states.size →
    AgreeD (NM N h (pos+1)) (stepAll N h pos Q1 vq1).1 (stepAll N h pos Q2 vq2).1 ∧
    Sim (NM N h (pos+1)) (stepAll N h pos Q1 vq1).2 (stepAll N h pos Q2 vq2).2 := by
  induction hq with
  | nil => intro vq1 vq2 ha ho _ _; exact ⟨ha, ho⟩
  | both t _ ih =>
    intro vq1 vq2 ha ho s1 s2
    simp only [stepAll]
    rw [stepThread_eq hR hp, stepThread_eq hR hp]
    obtain ⟨a1, a2⟩ := addAll_sim_both (N := N) (h := h) (pos := pos+1) t.start (succs N h pos t.state) ha ho s1 s2
    exact ih a1 a2 ((addAll_size ..).trans s1) ((addAll_size ..).trans s2)
  | left t hd _ ih =>
    intro vq1 vq2 ha ho s1 s2
    simp only [stepAll]
    rw [stepThread_eq hR hp]
    obtain ⟨a1, a2⟩ := addAll_sim_left (N := N) (h := h) (pos := pos+1) t.start (succs N h pos t.state)
      (succs_dead hS hR hp hd) ha ho s1
    exact ih a1 a2 ((addAll_size ..).trans s1) s2
  | right t hd _ ih =>
    intro vq1 vq2 ha ho s1 s2
    simp only [stepAll]
    rw [stepThread_eq hR hp]
    obtain ⟨a1, a2⟩ := addAll_sim_right (N := N) (h := h) (pos := pos+1) t.start (succs N h pos t.state)
      (succs_dead hS hR hp hd) ha ho s2
    exact ih a1 a2 s1 ((addAll_size ..).trans s2)

theorem sim_match {pos : Nat} {Q1 Q2 : List Thread} (hq : Sim (NM N h pos) Q1 Q2) :
    anyMatch N Q1 = anyMatch N Q2 ∧ Sim (NM N h pos) (beforeMatch N Q1) (beforeMatch N Q2) := by
  induction hq with
  | nil => exact ⟨rfl, Sim.nil⟩
  | both t _ ih =>
    by_cases hm : isMatchState N t.state = true
    · simp [anyMatch, hm, beforeMatch_cons_of_match hm, Sim.nil]
    · have hm' : isMatchState N t.state = false := by simpa using hm
      rw [beforeMatch_cons_of_not hm', beforeMatch_cons_of_not hm']
      refine ⟨?_, Sim.both t ih.2⟩
      have := ih.1
      simp only [anyMatch] at this ⊢
      simp [hm', this]
  | left t hd _ ih =>
    have hm' := hd.not_match
    rw [beforeMatch_cons_of_not hm']
    refine ⟨?_, Sim.left t hd ih.2⟩
    have := ih.1
    simp only [anyMatch] at this ⊢
    simp [hm', this]
  | right t hd _ ih =>
    have hm' := hd.not_match
    rw [beforeMatch_cons_of_not hm']
    refine ⟨?_, Sim.right t hd ih.2⟩
    have := ih.1
    simp only [anyMatch] at this ⊢
    simp [hm', this]

/-- the generation-wise search does not see dead threads or dead marks -/
theorem R_sim (hS : SparseDet N) (hR : RuneOK N h) : ∀ (Ms1 Ms2 : List Vis) (p : Nat) (Q1 Q2 : List Thread),
    p + Ms1.length = h.size → Ms1.length = Ms2.length →
    (∀ k W1 W2, Ms1[k]? = some W1 → Ms2[k]? = some W2 →
      W1.size = N.states.size ∧ W2.size = N.states.size ∧ AgreeD (NM N h (p+1+k)) W1 W2) →
    Sim (NM N h p) Q1 Q2 → (R N h Ms1 p Q1).1 = (R N h Ms2 p Q2).1 := by
  intro Ms1
  induction Ms1 with
  | nil =>
    intro Ms2 p Q1 Q2 _ hl _ hq
    have : Ms2 = [] := List.eq_nil_of_length_eq_zero (by simpa using hl.symm)
    subst this
    simp only [R, matchAt, (sim_match hq).1]
  | cons W1 Ms1 ih =>
    intro Ms2 p Q1 Q2 hp hl hag hq
    cases Ms2 with
    | nil => simp at hl
    | cons W2 Ms2 =>
      obtain ⟨m1, m2⟩ := sim_match hq
      obtain ⟨s1, s2, a0⟩ := hag 0 W1 W2 (by simp) (by simp)
      have hplt : p < h.size := by simp at hp; omega
      obtain ⟨b1, b2⟩ := stepAll_sim hS hR hplt m2 (vq1 := (W1, [])) (vq2 := (W2, [])) (by simpa using a0) (Sim.nil) s1 s2
      simp only [R, matchAt, m1]
      rw [ih Ms2 (p+1) _ _ (by simp at hp ⊢; omega) (by simpa using hl) ?_ b2]
      intro k V1 V2 h1 h2
      have := hag (k+1) V1 V2 (by simpa using h1) (by simpa using h2)
      have he : p + 1 + (k + 1) = p + 1 + 1 + k := by omega
      rw [he] at this
      exact this

end

/-! ### small facts used by the multi-start argument -/

theorem Sim.dead_of_nil {D : Nat → Prop} {a b : List Thread} (hs : Sim D a b) (hb : b = []) :
    ∀ x ∈ a, D x.state := by
  induction hs with
  | nil => intro x hx; simp at hx
  | both t _ _ => simp at hb
  | left t hd _ ih =>
    intro x hx
    rcases List.mem_cons.mp hx with rfl | h2
    · exact hd
    · exact ih hb x h2
  | right t _ _ _ => simp at hb

theorem closure_starts (N : NFA) (h : Bytes) (pos : Nat) (P : Nat → Prop) (fuel : Nat) (stack : List Thread)
    (vis : Vis) (out : List Thread) (hs : ∀ fr ∈ stack, P fr.start) (ho : ∀ x ∈ out, P x.start) :
    ∀ x ∈ (closure N h pos fuel stack vis out).2, P x.start :=
  closure_pres N h pos (fun fr => P fr.start) (fun x => P x.start) (fun _ _ hfr _ => hfr) (fun _ hfr _ => hfr)
    fuel stack vis out hs ho

theorem stepSparse_starts (N : NFA) (h : Bytes) (pos b start : Nat) (P : Nat → Prop) (hst : P start)
    (ts : List (Nat × Nat × Nat)) : ∀ (vq : Vis × List Thread), (∀ x ∈ vq.2, P x.start) →
    ∀ x ∈ (stepSparse N h pos b start ts vq).2, P x.start := by
  induction ts with
  | nil => intro vq ho; exact ho
  | cons a ts ih =>
    intro vq ho
    obtain ⟨lo, hi, nx⟩ := a
    simp only [stepSparse]
    split
    · apply ih
      exact closure_starts N h (pos+1) P _ _ _ _ (by intro fr hfr; simp at hfr; subst hfr; exact hst) ho
    · exact ih vq ho

theorem stepThread_starts (N : NFA) (h : Bytes) (pos : Nat) (P : Nat → Prop) (t : Thread) (ht : P t.start)
    (vq : Vis × List Thread) (ho : ∀ x ∈ vq.2, P x.start) : ∀ x ∈ (stepThread N h pos t vq).2, P x.start := by
  have hadd : ∀ (p' nx : Nat), ∀ x ∈ (addThread N h p' ⟨nx, t.start⟩ vq).2, P x.start := by
    intro p' nx
    exact closure_starts N h p' P _ _ _ _ (by intro fr hfr; simp at hfr; subst hfr; exact ht) ho
  have hhold : ∀ x ∈ vq.2 ++ [t], P x.start := by
    intro x hx
    rcases List.mem_append.mp hx with h1 | h1
    · exact ho x h1
    · simp at h1; subst h1; exact ht
  unfold stepThread
  cases hk : N.get t.state <;> simp only []
  all_goals first | exact ho | skip
  · split
    · exact hadd _ _
    · exact ho
  · exact stepSparse_starts N h pos _ _ P ht _ vq ho
  · split
    · exact hhold
    · split
      · split
        · exact hadd _ _
        · exact ho
      · exact ho
  · split
    · exact hhold
    · split
      · split
        · exact hadd _ _
        · exact ho
      · exact ho

theorem stepAll_starts (N : NFA) (h : Bytes) (pos : Nat) (P : Nat → Prop) (Q : List Thread) :
    ∀ (vq : Vis × List Thread), (∀ t ∈ Q, P t.start) → (∀ x ∈ vq.2, P x.start) →
    ∀ x ∈ (stepAll N h pos Q vq).2, P x.start := by
  induction Q with
  | nil => intro vq _ ho; exact ho
  | cons t Q ih =>
    intro vq hq ho
    simp only [stepAll]
    exact ih _ (fun x hx => hq x (List.mem_cons_of_mem _ hx))
      (stepThread_starts N h pos P t (hq t List.mem_cons_self) vq ho)

def findM (N : NFA) (Q : List Thread) : Option Thread := Q.find? (fun t => isMatchState N t.state)

theorem findM_append_none {N : NFA} {A : List Thread} (hA : anyMatch N A = false) (B : List Thread) :
    findM N (A ++ B) = findM N B := by
  induction A with
  | nil => rfl
  | cons a A ih =>
    have hm' : isMatchState N a.state = false := by
      cases hm : isMatchState N a.state with
      | false => rfl
      | true => simp [anyMatch, hm] at hA
    have hA' : anyMatch N A = false := by simpa [anyMatch, hm'] using hA
    simp only [findM, List.cons_append, List.find?, hm']
    exact ih hA'

theorem findM_append_some {N : NFA} {A : List Thread} (hA : anyMatch N A = true) (B : List Thread) :
    ∃ M ∈ A, findM N (A ++ B) = some M := by
  induction A with
  | nil => simp [anyMatch] at hA
  | cons a A ih =>
    by_cases hm : isMatchState N a.state = true
    · exact ⟨a, List.mem_cons_self, by simp [findM, hm]⟩
    · have hm' : isMatchState N a.state = false := by simpa using hm
      have hA' : anyMatch N A = true := by simpa [anyMatch, hm'] using hA
      obtain ⟨M, h1, h2⟩ := ih hA'
      refine ⟨M, List.mem_cons_of_mem _ h1, ?_⟩
      simp only [findM, List.cons_append, List.find?, hm']
      exact h2

theorem findM_none {N : NFA} {A : List Thread} (hA : anyMatch N A = false) : findM N A = none := by
  have := findM_append_none hA []
  simpa [findM] using this

theorem findM_mem {N : NFA} {A : List Thread} {M : Thread} (hf : findM N A = some M) : M ∈ A :=
  List.mem_of_find?_eq_some hf

theorem recordFirst_eq (N : NFA) (pos : Nat) (Q : List Thread) (best : Option (Nat × Nat)) :
    recordFirst N pos Q best = match findM N Q with
      | some M => record best M.start pos
      | none => best := rfl

theorem anyMatch_dead {N : NFA} {h : Bytes} {pos : Nat} {A : List Thread} (hA : ∀ t ∈ A, NM N h pos t.state) :
    anyMatch N A = false := by
  induction A with
  | nil => rfl
  | cons a A ih =>
    have := (hA a List.mem_cons_self).not_match
    have := ih (fun t ht => hA t (List.mem_cons_of_mem _ ht))
    simp_all [anyMatch]

def bestEnd (s0 : Nat) : Option (Nat × Nat) → Option Nat
  | some (s, e) => if s = s0 then some e else none
  | none => none

/-- how the recorded span can look once position `s0` has been injected -/
def Shape (s0 pos : Nat) (Post : List Thread) (best : Option (Nat × Nat)) : Prop :=
  best = none ∨ (∃ e0, best = some (s0, e0) ∧ e0 < pos ∧ Post = []) ∨ (∃ s' e', best = some (s', e') ∧ s0 < s')

theorem record_s0 {s0 pos : Nat} {Post : List Thread} {best : Option (Nat × Nat)} (hsh : Shape s0 pos Post best) :
    record best s0 pos = some (s0, pos) := by
  unfold record
  rcases hsh with rfl | ⟨e0, rfl, h1, _⟩ | ⟨s', e', rfl, h1⟩
  · simp [isBetter]
  · rw [if_pos ((isBetter_some ..).mpr (Or.inr ⟨rfl, h1⟩))]
  · rw [if_pos ((isBetter_some ..).mpr (Or.inl h1))]

theorem record_later {s0 pos sM : Nat} {best : Option (Nat × Nat)} (hM : s0 < sM)
    (hsh : best = none ∨ (∃ s' e', best = some (s', e') ∧ s0 < s')) :
    bestEnd s0 (record best sM pos) = none ∧ ∃ s' e', record best sM pos = some (s', e') ∧ s0 < s' := by
  rcases record_cases best sM pos with h1 | h1
  · rcases hsh with rfl | ⟨s', e', rfl, h2⟩
    · simp [record, isBetter] at h1
    · rw [h1]
      exact ⟨by simp [bestEnd]; omega, s', e', rfl, h2⟩
  · rw [h1]
    exact ⟨by simp [bestEnd]; omega, sM, pos, rfl, hM⟩

/-! ### the unanchored loop, once the leftmost matching start `s0` has been injected -/

/-- the loop body after the start thread has been added -/
def bodyU (N : NFA) (h : Bytes) (fuel pos : Nat) (queue : List Thread) (best : Option (Nat × Nat)) :
    Option (Nat × Nat) :=
  if pos < h.size then
    match recordFirst N pos queue best with
    | some (bs, be) =>
      if hasLeftmost (stepAll N h pos (beforeMatch N queue) (clearVis N, [])).2 bs then
        loopU N h false fuel (pos+1) (stepAll N h pos (beforeMatch N queue) (clearVis N, [])).2 (some (bs, be))
      else some (bs, be)
    | none => loopU N h false fuel (pos+1) (stepAll N h pos (beforeMatch N queue) (clearVis N, [])).2 none
  else recordFirst N pos queue best

theorem loopU_succ (N : NFA) (h : Bytes) (fuel pos : Nat) (Q : List Thread) (best : Option (Nat × Nat)) :
    loopU N h false (fuel+1) pos Q best =
      bodyU N h fuel pos (if best.isNone = true then (addThread N h pos ⟨N.startAnchored, pos⟩ (clearVis N, Q)).2 else Q)
        best := by
  rw [loopU]
  unfold bodyU
  simp only []
  split
  · rw [stepQueue_first]
    simp only []
    cases recordFirst N pos (if best.isNone = true then
        (addThread N h pos ⟨N.startAnchored, pos⟩ (clearVis N, Q)).2 else Q) best with
    | none => rfl
    | some b => rfl
  · rw [endQueue_eq]

def Tgt (N : NFA) (h : Bytes) (s0 pos : Nat) (MidA : List Thread) (best : Option (Nat × Nat)) : Option Nat :=
  (R N h (List.replicate (h.size - pos) (clearVis N)) pos MidA).1.or (bestEnd s0 best)

theorem Tgt_step {N : NFA} {h : Bytes} {s0 pos : Nat} (hp : pos < h.size) (MidA : List Thread)
    (best : Option (Nat × Nat)) :
    Tgt N h s0 pos MidA best =
      ((R N h (List.replicate (h.size - (pos+1)) (clearVis N)) (pos+1)
        (stepAll N h pos (beforeMatch N MidA) (clearVis N, [])).2).1.or (matchAt N pos MidA)).or (bestEnd s0 best) := by
  unfold Tgt
  have hrep : List.replicate (h.size - pos) (clearVis N) =
      clearVis N :: List.replicate (h.size - (pos+1)) (clearVis N) := by
    have : h.size - pos = (h.size - (pos+1)) + 1 := by omega
    rw [this, List.replicate_succ]
  rw [hrep]
  simp only [R]

theorem Tgt_end {N : NFA} {h : Bytes} {s0 pos : Nat} (hp : ¬ pos < h.size) (MidA : List Thread)
    (best : Option (Nat × Nat)) : Tgt N h s0 pos MidA best = (matchAt N pos MidA).or (bestEnd s0 best) := by
  unfold Tgt
  have : h.size - pos = 0 := by omega
  rw [this]
  simp only [List.replicate_zero, R]

/-- the queue splits into dead threads of earlier starts, the threads of `s0` (equal to the anchored run's queue
    up to dead threads) and threads of later starts -/
def Split (N : NFA) (h : Bytes) (s0 pos : Nat) (Q MidA : List Thread) (best : Option (Nat × Nat)) : Prop :=
  ∃ Pre Mid Post, Q = Pre ++ (Mid ++ Post) ∧ (∀ t ∈ Pre, NM N h pos t.state ∧ t.start ≤ s0) ∧
    (∀ t ∈ Mid, t.start = s0) ∧ (∀ t ∈ Post, s0 < t.start) ∧ Sim (NM N h pos) Mid MidA ∧ Shape s0 pos Post best

theorem beforeMatch_of_none {N : NFA} {A : List Thread} (hA : anyMatch N A = false) : beforeMatch N A = A := by
  have := beforeMatch_append_of_none hA []
  simpa [beforeMatch] using this

theorem beforeMatch_sub {N : NFA} {A : List Thread} : ∀ t ∈ beforeMatch N A, t ∈ A :=
  fun _ ht => (List.takeWhile_sublist _).subset ht

theorem R_dead_none {N : NFA} {h : Bytes} (hS : SparseDet N) (hR : RuneOK N h) {p : Nat} (hp : p ≤ h.size)
    {Q : List Thread} (hq : Sim (NM N h p) [] Q) :
    (R N h (List.replicate (h.size - p) (clearVis N)) p Q).1 = none := by
  have := R_sim hS hR (List.replicate (h.size - p) (clearVis N)) (List.replicate (h.size - p) (clearVis N)) p [] Q
    (by simp; omega) rfl ?_ hq
  · rw [← this, R_nil]
  · intro k W1 W2 h1 h2
    have e1 : W1 = clearVis N := by
      have := List.getElem?_replicate (n := h.size - p) (a := clearVis N) (i := k)
      rw [this] at h1; split at h1 <;> simp_all
    have e2 : W2 = clearVis N := by
      have := List.getElem?_replicate (n := h.size - p) (a := clearVis N) (i := k)
      rw [this] at h2; split at h2 <;> simp_all
    subst e1; subst e2
    exact ⟨clearVis_size N, clearVis_size N, fun _ _ => rfl⟩

theorem or_some_or (x : Option Nat) (p : Nat) (y : Option Nat) : (x.or (some p)).or y = x.or (some p) := by
  cases x <;> simp

/-- one pass of the loop body preserves the invariant and the target -/
theorem body_spec {N : NFA} {h : Bytes} (hS : SparseDet N) (hR : RuneOK N h) {s0 pos fuel : Nat} (_hle : pos ≤ h.size)
    (IH : pos < h.size → ∀ Q best MidA, Split N h s0 (pos+1) Q MidA best → ∀ s e,
      loopU N h false fuel (pos+1) Q best = some (s, e) → s = s0 → some e = Tgt N h s0 (pos+1) MidA best)
    {Q MidA : List Thread} {best : Option (Nat × Nat)} (hsp : Split N h s0 pos Q MidA best) :
    ∀ s e, bodyU N h fuel pos Q best = some (s, e) → s = s0 → some e = Tgt N h s0 pos MidA best := by
  obtain ⟨Pre, Mid, Post, rfl, hPre, hMid, hPost, hsim, hshape⟩ := hsp
  have hPreM : anyMatch N Pre = false := anyMatch_dead fun t ht => (hPre t ht).1
  obtain ⟨m1, m2⟩ := sim_match hsim
  intro s e hres hs
  subst hs
  unfold bodyU at hres
  by_cases hp : pos < h.size
  · rw [if_pos hp] at hres
    rw [Tgt_step hp]
    -- what stepping the dead prefix leaves behind
    obtain ⟨agPre, simPre⟩ := stepAll_sim hS hR hp (Sim.of_dead_left (D := NM N h pos) (L := Pre)
      fun t ht => (hPre t ht).1) (vq1 := (clearVis N, [])) (vq2 := (clearVis N, []))
      (fun _ _ => rfl) Sim.nil (clearVis_size N) (clearVis_size N)
    simp only [stepAll] at agPre simPre
    have hPre'dead := Sim.dead_of_nil simPre rfl
    have hPre'start : ∀ x ∈ (stepAll N h pos Pre (clearVis N, [])).2, x.start ≤ s ∧ True :=
      fun x hx => ⟨stepAll_starts N h pos (· ≤ s) Pre _ (fun t ht => (hPre t ht).2) (by simp) x hx, trivial⟩
    have hszPre : (stepAll N h pos Pre (clearVis N, [])).1.size = N.states.size :=
      (stepAll_size hR hp Pre _).trans (clearVis_size N)
    by_cases hM : anyMatch N Mid = true
    · -- the threads of `s0` contain a match state: it is recorded, everything after it is cut
      have hb : beforeMatch N (Pre ++ (Mid ++ Post)) = Pre ++ beforeMatch N Mid := by
        rw [beforeMatch_append_of_none hPreM, beforeMatch_append_of_match hM]
      obtain ⟨M, hMmem, hfind⟩ := findM_append_some hM Post
      have hrec : recordFirst N pos (Pre ++ (Mid ++ Post)) best = some (s, pos) := by
        rw [recordFirst_eq, findM_append_none hPreM, hfind]
        simp only []
        rw [hMid M hMmem]
        exact record_s0 hshape
      rw [hrec, hb, stepAll_split] at hres
      simp only [] at hres
      obtain ⟨_, simMid⟩ := stepAll_sim hS hR hp m2
        (vq1 := ((stepAll N h pos Pre (clearVis N, [])).1, [])) (vq2 := (clearVis N, []))
        agPre Sim.nil hszPre (clearVis_size N)
      have hMid'start : ∀ x ∈ (stepAll N h pos (beforeMatch N Mid) ((stepAll N h pos Pre (clearVis N, [])).1, [])).2,
          x.start = s :=
        stepAll_starts N h pos (· = s) _ _ (fun t ht => hMid t (beforeMatch_sub t ht)) (by simp)
      have hmA : matchAt N pos MidA = some pos := by simp [matchAt, ← m1, hM]
      rw [hmA, or_some_or]
      have hT : Tgt N h s (pos+1) (stepAll N h pos (beforeMatch N MidA) (clearVis N, [])).2 (some (s, pos)) =
          (R N h (List.replicate (h.size - (pos+1)) (clearVis N)) (pos+1)
            (stepAll N h pos (beforeMatch N MidA) (clearVis N, [])).2).1.or (some pos) := by
        simp [Tgt, bestEnd]
      split at hres
      · rw [← hT]
        refine IH hp _ _ _ ⟨(stepAll N h pos Pre (clearVis N, [])).2,
          (stepAll N h pos (beforeMatch N Mid) ((stepAll N h pos Pre (clearVis N, [])).1, [])).2, [], by simp,
          fun x hx => ⟨hPre'dead x hx, (hPre'start x hx).1⟩, hMid'start, by simp, simMid,
          Or.inr (Or.inl ⟨pos, rfl, by omega, rfl⟩)⟩ s e hres rfl
      · rename_i hnl
        simp only [Option.some.injEq, Prod.mk.injEq] at hres
        obtain ⟨_, rfl⟩ := hres
        -- no thread of `s0` or earlier is left: the anchored run has only dead threads left
        have hempty : ∀ x ∈ (stepAll N h pos Pre (clearVis N, [])).2 ++
            (stepAll N h pos (beforeMatch N Mid) ((stepAll N h pos Pre (clearVis N, [])).1, [])).2, False := by
          intro x hx
          apply hnl
          unfold hasLeftmost
          rw [List.any_eq_true]
          refine ⟨x, hx, ?_⟩
          rcases List.mem_append.mp hx with h1 | h1
          · simpa using (hPre'start x h1).1
          · simp [hMid'start x h1]
        have hMid'nil : (stepAll N h pos (beforeMatch N Mid) ((stepAll N h pos Pre (clearVis N, [])).1, [])).2 = [] := by
          cases hl : (stepAll N h pos (beforeMatch N Mid) ((stepAll N h pos Pre (clearVis N, [])).1, [])).2 with
          | nil => rfl
          | cons a l => exact (hempty a (List.mem_append_right _ (by rw [hl]; exact List.mem_cons_self))).elim
        rw [hMid'nil] at simMid
        rw [R_dead_none hS hR (by omega) simMid]
        rfl
    · -- no match state among the threads of `s0` at this position
      have hM' : anyMatch N Mid = false := by simpa using hM
      have hMA' : anyMatch N MidA = false := by rw [← m1]; exact hM'
      have hb : beforeMatch N (Pre ++ (Mid ++ Post)) = Pre ++ (Mid ++ beforeMatch N Post) := by
        rw [beforeMatch_append_of_none hPreM, beforeMatch_append_of_none hM']
      rw [beforeMatch_of_none hM', beforeMatch_of_none hMA'] at m2
      obtain ⟨agMid, simMid⟩ := stepAll_sim hS hR hp m2
        (vq1 := ((stepAll N h pos Pre (clearVis N, [])).1, [])) (vq2 := (clearVis N, []))
        agPre Sim.nil hszPre (clearVis_size N)
      have hMid'start : ∀ x ∈ (stepAll N h pos Mid ((stepAll N h pos Pre (clearVis N, [])).1, [])).2, x.start = s :=
        stepAll_starts N h pos (· = s) _ _ hMid (by simp)
      have hPost'start : ∀ x ∈ (stepAll N h pos (beforeMatch N Post)
          ((stepAll N h pos Mid ((stepAll N h pos Pre (clearVis N, [])).1, [])).1, [])).2, s < x.start :=
        stepAll_starts N h pos (s < ·) _ _ (fun t ht => hPost t (beforeMatch_sub t ht)) (by simp)
      have hmA : matchAt N pos MidA = none := by simp [matchAt, hMA']
      rw [hmA, Option.or_none]
      -- the recorded span keeps its `s0` component
      have hbest' : bestEnd s (recordFirst N pos (Pre ++ (Mid ++ Post)) best) = bestEnd s best ∧
          Shape s (pos+1) (stepAll N h pos (beforeMatch N Post)
            ((stepAll N h pos Mid ((stepAll N h pos Pre (clearVis N, [])).1, [])).1, [])).2
            (recordFirst N pos (Pre ++ (Mid ++ Post)) best) := by
        rw [recordFirst_eq, findM_append_none hPreM, findM_append_none hM']
        cases hf : findM N Post with
        | none =>
          simp only []
          refine ⟨by first | rfl | trivial, ?_⟩
          rcases hshape with h1 | ⟨e0, h1, h2, h3⟩ | h1
          · exact Or.inl h1
          · subst h3
            exact Or.inr (Or.inl ⟨e0, h1, by omega, by simp [beforeMatch, stepAll]⟩)
          · exact Or.inr (Or.inr h1)
        | some M =>
          simp only []
          have hMP := findM_mem hf
          have hlt := hPost M hMP
          have hsh2 : best = none ∨ (∃ s' e', best = some (s', e') ∧ s < s') := by
            rcases hshape with h1 | ⟨e0, h1, h2, h3⟩ | h1
            · exact Or.inl h1
            · subst h3; simp at hMP
            · exact Or.inr h1
          obtain ⟨r1, r2⟩ := record_later (pos := pos) hlt hsh2
          refine ⟨?_, Or.inr (Or.inr r2)⟩
          rw [r1]
          rcases hsh2 with rfl | ⟨s', e', rfl, h2⟩
          · rfl
          · simp [bestEnd]; omega
      obtain ⟨hbe, hsh'⟩ := hbest'
      rw [hb, stepAll_split, stepAll_split] at hres
      simp only [] at hres
      rw [beforeMatch_of_none hMA']
      have hsplit' : Split N h s (pos+1)
          ((stepAll N h pos Pre (clearVis N, [])).2 ++
            ((stepAll N h pos Mid ((stepAll N h pos Pre (clearVis N, [])).1, [])).2 ++
              (stepAll N h pos (beforeMatch N Post)
                ((stepAll N h pos Mid ((stepAll N h pos Pre (clearVis N, [])).1, [])).1, [])).2))
          (stepAll N h pos MidA (clearVis N, [])).2 (recordFirst N pos (Pre ++ (Mid ++ Post)) best) :=
        ⟨_, _, _, rfl, fun x hx => ⟨hPre'dead x hx, (hPre'start x hx).1⟩, hMid'start, hPost'start, simMid, hsh'⟩
      have hT : Tgt N h s (pos+1) (stepAll N h pos MidA (clearVis N, [])).2
          (recordFirst N pos (Pre ++ (Mid ++ Post)) best) =
          (R N h (List.replicate (h.size - (pos+1)) (clearVis N)) (pos+1)
            (stepAll N h pos MidA (clearVis N, [])).2).1.or (bestEnd s best) := by
        simp only [Tgt, hbe]
      rw [← hT]
      cases hrf : recordFirst N pos (Pre ++ (Mid ++ Post)) best with
      | none =>
        rw [hrf] at hres hsplit'
        simp only [] at hres
        exact IH hp _ _ _ hsplit' s e hres rfl
      | some b =>
        obtain ⟨bs, be⟩ := b
        rw [hrf] at hres hsplit'
        simp only [] at hres
        split at hres
        · exact IH hp _ _ _ hsplit' s e hres rfl
        · rename_i hnl
          simp only [Option.some.injEq, Prod.mk.injEq] at hres
          obtain ⟨rfl, rfl⟩ := hres
          have hempty : ∀ x ∈ (stepAll N h pos Pre (clearVis N, [])).2 ++
              (stepAll N h pos Mid ((stepAll N h pos Pre (clearVis N, [])).1, [])).2, False := by
            intro x hx
            apply hnl
            unfold hasLeftmost
            rw [List.any_eq_true]
            refine ⟨x, by
              rcases List.mem_append.mp hx with h1 | h1
              · exact List.mem_append_left _ h1
              · exact List.mem_append_right _ (List.mem_append_left _ h1), ?_⟩
            rcases List.mem_append.mp hx with h1 | h1
            · simpa using (hPre'start x h1).1
            · simp [hMid'start x h1]
          have hMid'nil : (stepAll N h pos Mid ((stepAll N h pos Pre (clearVis N, [])).1, [])).2 = [] := by
            cases hl : (stepAll N h pos Mid ((stepAll N h pos Pre (clearVis N, [])).1, [])).2 with
            | nil => rfl
            | cons a l => exact (hempty a (List.mem_append_right _ (by rw [hl]; exact List.mem_cons_self))).elim
          rw [hMid'nil] at simMid
          rw [← hrf, hT, ← hbe, hrf, R_dead_none hS hR (by omega : pos + 1 ≤ h.size) simMid]
          simp [bestEnd]
  · -- end of the input: first match state in the queue
    rw [if_neg hp] at hres
    rw [Tgt_end hp]
    by_cases hM : anyMatch N Mid = true
    · obtain ⟨M, hMmem, hfind⟩ := findM_append_some hM Post
      have hrec : recordFirst N pos (Pre ++ (Mid ++ Post)) best = some (s, pos) := by
        rw [recordFirst_eq, findM_append_none hPreM, hfind]
        simp only []
        rw [hMid M hMmem]
        exact record_s0 hshape
      rw [hrec] at hres
      simp only [Option.some.injEq, Prod.mk.injEq] at hres
      obtain ⟨_, rfl⟩ := hres
      simp [matchAt, ← m1, hM]
    · have hM' : anyMatch N Mid = false := by simpa using hM
      have hMA' : anyMatch N MidA = false := by rw [← m1]; exact hM'
      rw [recordFirst_eq, findM_append_none hPreM, findM_append_none hM'] at hres
      have hmA : matchAt N pos MidA = none := by simp [matchAt, hMA']
      rw [hmA]
      cases hf : findM N Post with
      | none =>
        rw [hf] at hres
        simp only [] at hres
        rw [hres]
        simp [bestEnd]
      | some M =>
        rw [hf] at hres
        simp only [] at hres
        exfalso
        have hMP := findM_mem hf
        have hlt := hPost M hMP
        have hsh2 : best = none ∨ (∃ s' e', best = some (s', e') ∧ s < s') := by
          rcases hshape with h1 | ⟨e0, h1, h2, h3⟩ | h1
          · exact Or.inl h1
          · subst h3; simp at hMP
          · exact Or.inr h1
        obtain ⟨_, s', e', r2, r3⟩ := record_later (pos := pos) hlt hsh2
        rw [hres] at r2
        simp only [Option.some.injEq, Prod.mk.injEq] at r2
        omega

/-- the queue the start thread of position `pos` contributes (what the anchored search starts from) -/
def startQueue (N : NFA) (h : Bytes) (pos : Nat) : List Thread :=
  (addThread N h pos ⟨N.startAnchored, pos⟩ (clearVis N, [])).2

theorem inject_eq (N : NFA) (h : Bytes) (pos : Nat) (Q : List Thread) :
    (addThread N h pos ⟨N.startAnchored, pos⟩ (clearVis N, Q)).2 = Q ++ startQueue N h pos := by
  have := addThread_out N h pos ⟨N.startAnchored, pos⟩ (clearVis N) Q []
  simp only [List.append_nil] at this
  rw [this]
  rfl

theorem startQueue_start (N : NFA) (h : Bytes) (pos : Nat) : ∀ x ∈ startQueue N h pos, x.start = pos :=
  closure_starts N h pos (· = pos) _ _ _ _ (by intro fr hfr; simp at hfr; subst hfr; rfl) (by simp)

theorem startQueue_reach (N : NFA) (h : Bytes) (pos : Nat) :
    ∀ x ∈ startQueue N h pos, EpsReach N h pos N.startAnchored x.state :=
  closure_pres N h pos (fun fr => EpsReach N h pos N.startAnchored fr.state)
    (fun x => EpsReach N h pos N.startAnchored x.state)
    (fun fr q' hfr hs => hfr.trans (EpsReach.cons hs (EpsReach.refl _))) (fun _ hfr _ => hfr) _ _ _ _
    (by intro fr hfr; simp at hfr; subst hfr; exact EpsReach.refl _) (by simp)

/-- phase 2: positions after `s0` -/
theorem loopU_after {N : NFA} {h : Bytes} (hS : SparseDet N) (hR : RuneOK N h) {s0 : Nat} :
    ∀ (fuel pos : Nat) (Q : List Thread) (best : Option (Nat × Nat)) (MidA : List Thread),
      fuel = h.size + 1 - pos → s0 < pos → pos ≤ h.size → Split N h s0 pos Q MidA best →
      ∀ s e, loopU N h false fuel pos Q best = some (s, e) → s = s0 → some e = Tgt N h s0 pos MidA best := by
  intro fuel
  induction fuel with
  | zero => intro pos Q best MidA hf _ hle; omega
  | succ fuel ih =>
    intro pos Q best MidA hf hlt hle hsp s e hres hs
    rw [loopU_succ] at hres
    refine body_spec hS hR hle (fun hp Q' b' M' hsp' => ih (pos+1) Q' b' M' (by omega) (by omega) (by omega) hsp')
      ?_ s e hres hs
    obtain ⟨Pre, Mid, Post, rfl, hPre, hMid, hPost, hsim, hshape⟩ := hsp
    cases best with
    | some b => simpa using ⟨Pre, Mid, Post, rfl, hPre, hMid, hPost, hsim, hshape⟩
    | none =>
      simp only [Option.isNone_none, ↓reduceIte]
      rw [inject_eq]
      refine ⟨Pre, Mid, Post ++ startQueue N h pos, by simp, hPre, hMid, ?_, hsim, Or.inl rfl⟩
      intro t ht
      rcases List.mem_append.mp ht with h1 | h1
      · exact hPost t h1
      · rw [startQueue_start N h pos t h1]; exact hlt

/-- phase 1: positions up to `s0`; every thread is dead until the start thread of `s0` is added -/
theorem loopU_before {N : NFA} {h : Bytes} (hS : SparseDet N) (hR : RuneOK N h) {at_ s0 : Nat} (hs0 : s0 ≤ h.size)
    (hleft : ∀ i j, at_ ≤ i → i < s0 → ¬ Accepts N h i j) :
    ∀ (fuel pos : Nat) (Q : List Thread), fuel = h.size + 1 - pos → at_ ≤ pos → pos ≤ s0 →
      (∀ t ∈ Q, NM N h pos t.state ∧ t.start ≤ s0) →
      ∀ s e, loopU N h false fuel pos Q none = some (s, e) → s = s0 →
        some e = (R N h (List.replicate (h.size - s0) (clearVis N)) s0 (startQueue N h s0)).1 := by
  intro fuel
  induction fuel with
  | zero => intro pos Q hf _ hle; omega
  | succ fuel ih =>
    intro pos Q hf hat hle hQ s e hres hs
    rw [loopU_succ] at hres
    simp only [Option.isNone_none, ↓reduceIte] at hres
    rw [inject_eq] at hres
    by_cases hlt : pos < s0
    · -- still before `s0`: the new start thread is dead as well
      have hdeadI : ∀ t ∈ startQueue N h pos, NM N h pos t.state ∧ t.start ≤ s0 := by
        intro t ht
        refine ⟨?_, by rw [startQueue_start N h pos t ht]; omega⟩
        intro ⟨j, m, hst, hm, hml⟩
        exact hleft pos j hat hlt ⟨m, steps_trans (startQueue_reach N h pos t ht).steps hst, hm, hml⟩
      have hall : ∀ t ∈ Q ++ startQueue N h pos, NM N h pos t.state ∧ t.start ≤ s0 := by
        intro t ht
        rcases List.mem_append.mp ht with h1 | h1
        · exact hQ t h1
        · exact hdeadI t h1
      have hp : pos < h.size := by omega
      have hnoM : anyMatch N (Q ++ startQueue N h pos) = false := anyMatch_dead fun t ht => (hall t ht).1
      unfold bodyU at hres
      rw [if_pos hp, recordFirst_eq, findM_none hnoM, beforeMatch_of_none hnoM] at hres
      simp only [] at hres
      obtain ⟨_, simNext⟩ := stepAll_sim hS hR hp (Sim.of_dead_left (D := NM N h pos)
        (L := Q ++ startQueue N h pos) fun t ht => (hall t ht).1) (vq1 := (clearVis N, [])) (vq2 := (clearVis N, []))
        (fun _ _ => rfl) Sim.nil (clearVis_size N) (clearVis_size N)
      simp only [stepAll] at simNext
      refine ih (pos+1) _ (by omega) (by omega) (by omega) ?_ s e hres hs
      intro t ht
      exact ⟨Sim.dead_of_nil simNext rfl t ht,
        stepAll_starts N h pos (· ≤ s0) _ _ (fun t ht => (hall t ht).2) (by simp) t ht⟩
    · -- position `s0`: its start thread is exactly the anchored search's initial queue
      have hpe : pos = s0 := by omega
      subst hpe
      have hsp : Split N h pos pos (Q ++ startQueue N h pos) (startQueue N h pos) none :=
        ⟨Q, startQueue N h pos, [], by simp, hQ, startQueue_start N h pos, by simp, Sim.refl _ _, Or.inl rfl⟩
      have := body_spec hS hR hs0
        (fun hp Q' b' M' hsp' => loopU_after hS hR fuel (pos+1) Q' b' M' (by omega) (by omega) (by omega) hsp')
        hsp s e hres hs
      rw [this]
      simp [Tgt, bestEnd]

/-! ### (c) the unanchored search is the backtracker's search -/

theorem btSearchFrom_first (N : NFA) (h : Bytes) (at_ : Nat) : ∀ (fuel start s e : Nat),
    btSearchFrom N h at_ fuel start = some (s, e) → btFirst N h at_ s = some e := by
  intro fuel
  induction fuel with
  | zero => intro start s e hr; simp [btSearchFrom] at hr
  | succ fuel ih =>
    intro start s e hr
    rw [btSearchFrom] at hr
    split at hr
    · simp at hr
    · simp only [] at hr
      split at hr
      · rename_i e1 h1
        simp only [Option.some.injEq, Prod.mk.injEq] at hr
        obtain ⟨rfl, rfl⟩ := hr
        exact h1
      · exact ih _ s e hr

/-- (c) THE ORDERED-THREAD SIMULATION IS THE PRIORITY DFS: on an unanchored automaton whose sparse states have
    pairwise disjoint ranges and whose rune states (if any) only see ASCII input, the span search of the Pike VM in
    leftmost-first mode returns exactly what the bounded backtracker returns — same start, same end, same `none`. -/
theorem pike_search_eq_bt {N : NFA} {h : Bytes} (hna : anchored N = false) (hd : SparseDisjoint N) (hR : RuneOK N h)
    {at_ : Nat} (hat : at_ ≤ h.size) : searchAt N h at_ false = btSearchAt N h at_ := by
  have hS := sparseDet_of_disjoint hd
  cases hbt : btSearchAt N h at_ with
  | none =>
    rw [pike_search_none_iff hna hS hR]
    exact (btSearchAt_leftmost N h at_ hat).2 hbt
  | some b =>
    obtain ⟨s0, eb⟩ := b
    obtain ⟨b1, b2, b3, b4⟩ := btSearchAt_sound N h at_ s0 eb hbt
    have bleft := (btSearchAt_leftmost N h at_ hat).1 s0 eb hbt
    have bfirst : btFirst N h at_ s0 = some eb := btSearchFrom_first N h at_ _ _ s0 eb hbt
    cases hpk : searchAt N h at_ false with
    | none =>
      exact absurd b4 ((pike_search_none_iff hna hS hR at_ false).mp hpk s0 eb b1 (by omega))
    | some p =>
      obtain ⟨s, e⟩ := p
      obtain ⟨p1, p2, p3, p4⟩ := pike_search_sound hna hS hR hpk
      have pleft := (pike_search_leftmost hna hS hR at_ false).1 s e hpk
      have hs : s = s0 := by
        have h1 : ¬ s0 < s := fun hh => pleft s0 eb b1 hh b4
        have h2 : ¬ s < s0 := fun hh => bleft s e p1 hh p4
        omega
      subst hs
      congr 2
      -- the end offsets
      unfold searchAt at hpk
      rw [if_neg (by omega)] at hpk
      by_cases hae : at_ = h.size
      · rw [if_pos hae] at hpk
        split at hpk
        · simp only [Option.some.injEq, Prod.mk.injEq] at hpk
          omega
        · cases hpk
      · rw [if_neg hae, hna] at hpk
        simp only [Bool.false_eq_true, ↓reduceIte] at hpk
        unfold searchUnanchored at hpk
        have := loopU_before hS hR (by omega : s ≤ h.size) bleft (h.size + 1 - at_) at_ [] rfl (Nat.le_refl _) p1
          (by simp) s e hpk rfl
        rw [show (R N h (List.replicate (h.size - s) (clearVis N)) s (startQueue N h s)).1 = btFirst N h at_ s from
          R_eq_bt hd hR p1 (by omega), bfirst] at this
        exact Option.some.inj this

/-! ### anchored automata: only the start position `at` is tried -/

theorem btFirst_sound {N : NFA} {h : Bytes} {at_ s e : Nat} (hb : btFirst N h at_ s = some e) : Accepts N h s e :=
  btFind_sound { N := N, h := h, spanStart := at_ } _ _ _ _ _ _ (Prod.ext hb rfl)

theorem btFirst_complete {N : NFA} {h : Bytes} {at_ s : Nat} (has : at_ ≤ s) (hs : s ≤ h.size)
    (hb : btFirst N h at_ s = none) : ¬ ∃ j, Accepts N h s j :=
  btFind_complete N h at_ s has hs hb

/-- on an anchored automaton `searchAt` is the backtracker's answer for the single start position `at` -/
theorem pike_search_anchored {N : NFA} {h : Bytes} (ha : anchored N = true) (hd : SparseDisjoint N) (hR : RuneOK N h)
    {at_ : Nat} (hat : at_ ≤ h.size) :
    searchAt N h at_ false = (btFirst N h at_ at_).map (fun e => (at_, e)) := by
  unfold searchAt
  rw [if_neg (by omega)]
  by_cases hae : at_ = h.size
  · rw [if_pos hae]
    subst hae
    cases hb : btFirst N h h.size h.size with
    | none =>
      have hno := btFirst_complete (Nat.le_refl _) (Nat.le_refl _) hb
      rw [if_neg]
      · rfl
      · intro hm; exact hno ⟨_, accepts_of_empty hm⟩
    | some e =>
      have hacc := btFirst_sound hb
      obtain ⟨h1, h2⟩ := empty_of_accepts hacc
      rw [if_pos h2, h1]
      rfl
  · rw [if_neg hae, ha]
    simp only [↓reduceIte]
    exact searchAnchored_eq_bt hd hR (Nat.le_refl _) hat

/-- (c) for anchored automata, when no match starts after `at` (a pattern that begins with `\A`) -/
theorem pike_search_eq_bt_anchored {N : NFA} {h : Bytes} (ha : anchored N = true) (hd : SparseDisjoint N)
    (hR : RuneOK N h) {at_ : Nat} (hat : at_ ≤ h.size)
    (honly : ∀ i j, at_ < i → i ≤ h.size → ¬ Accepts N h i j) :
    searchAt N h at_ false = btSearchAt N h at_ := by
  rw [pike_search_anchored ha hd hR hat]
  unfold btSearchAt
  obtain ⟨fuel, hf⟩ : ∃ k, h.size + 2 - at_ = k + 1 := ⟨h.size + 1 - at_, by omega⟩
  rw [hf, btSearchFrom, if_neg (by omega)]
  simp only []
  cases hb : btFirst N h at_ at_ with
  | some e =>
    unfold btFirst at hb
    rw [hb]
    rfl
  | none =>
    unfold btFirst at hb
    rw [hb]
    simp only [Option.map_none]
    cases hrest : btSearchFrom N h at_ fuel (at_ + 1) with
    | none => rfl
    | some p =>
      obtain ⟨s, e⟩ := p
      obtain ⟨h1, h2, h3⟩ := btSearchFrom_sound N h at_ fuel (at_+1) s e hrest
      exact absurd h3 (honly s e (by omega) h2)

end Cx.Pike
