import Cx.Model.RevInner
import Cx.Proofs.RevSuffix
/-
  Cx.Proofs.RevInner — the reverse-inner strategy (`meta/reverse_inner.go`, model `Cx.Model.RevInner`) returns exactly what
  the reference search returns, RELATIVE to the contracts of its components.

  Abstract relations (instantiated in `Cx.Proofs.RevInnerInst`):
    Mt  h s e    the WHOLE pattern matches h[s:e)          Pre h s p   the PREFIX portion matches h[s:p)
    Suf h p e    the SUFFIX portion (inner literal and everything after it) matches h[p:e)
    IsLit h p    an inner literal the prefilter looks for occurs at p
    ref h at     the reference search (leftmost-first span from `at`)

  Hypotheses about the split (`Spec`, all for the haystack at hand):
    split / join   Mt h s e ↔ ∃ p, Pre h s p ∧ Suf h p e          (the pattern is the concatenation PREFIX · SUFFIX)
    suf_lit        Suf h p e → IsLit h p                           (the suffix portion starts with an inner literal)
    null_no        if `prefixNullable && (at == 0 || !startAnchored)` is false, PREFIX does not match the empty span at `at`
    exact_hull     only if `exactStart`: Pre h s p, Pre h s' p', s ≤ s', p' ≤ p → Pre h s p'   (true of `[class]+`)
    lb_nl          only if `lineBounded`: no match contains '\n'
  Component contracts:
    RefSpec        ref is sound, its start is the leftmost start of any match from `at`, `none` means no match
    pf_*           `pfFind h st` = a position ≥ st, < |h|, with no inner literal in between; none: no inner literal from st on
    revL_*         reverse DFA of PREFIX: found s = the least start ≥ lo with Pre h s e; none = there is none; cutOff = no information
    isMatchAt      `fwdIsMatchAt h a` = the reference finds a match from a
    anch_*         `fwdAnchoredStopAt h s` = the end of the leftmost-first match that starts EXACTLY at s (none: there is none);
                   nothing is required of `stop` (it only triggers the give-up path)
    fwd / revF_some / pike / lb_restart   as for the reverse-suffix strategy

  Theorems:
    findIndicesAt_eq_ref   findIndicesAt O P h at = ref h at        (dotStarLiteral = none, at ≤ |h|)
    isMatch_eq_ref         isMatch O P h = (ref h 0).isSome         (dotStarLiteral = none)
    shape_find_eq_ref / shape_isMatch_eq_ref   the byte-search shortcut for `.*literal.*`, under `ShapeSpec`
    findIndicesAtT_fst / isMatchT_fst          the instrumented functions compute the same answers
    cost_le                all reverse scans of one FindIndicesAt read ≤ 2·(|h| - at) bytes, all anchored forward scans
                           ≤ 2·(|h| - at) bytes, ≤ |h| + 1 - at prefilter calls, at most one unanchored forward scan
    isMatch_cost_le        IsMatch: reverse scans ≤ |h| bytes, at most two (unanchored, earliest) forward scans
-/
namespace Cx.RevInner
open Cx
open Cx.RevSuffix (RevAnswer findFirst findLast occursAt lineStartBefore lineEndAt RefSpec Occ)

/-! ### component contracts -/

structure Spec (O : Oracles) (P : Params) (Mt Pre Suf : Bytes → Nat → Nat → Prop) (IsLit : Bytes → Nat → Prop)
    (ref : Bytes → Nat → Option (Nat × Nat)) (h : Bytes) : Prop extends RefSpec Mt ref h where
  mt_le : ∀ s e, s ≤ h.size → Mt h s e → s ≤ e ∧ e ≤ h.size
  /-- the pattern is PREFIX · SUFFIX -/
  split : ∀ s e, s ≤ h.size → Mt h s e → ∃ p, Pre h s p ∧ Suf h p e
  join : ∀ s p e, Pre h s p → Suf h p e → Mt h s e
  pre_le : ∀ s p, Pre h s p → s ≤ p
  suf_le : ∀ p e, Suf h p e → p ≤ e
  /-- literal necessity: the suffix portion starts with an inner literal -/
  suf_lit : ∀ p e, Suf h p e → IsLit h p
  lit_lt : ∀ p, IsLit h p → p < h.size
  pf_some : ∀ st p, st ≤ h.size → O.pfFind h st = some p → st ≤ p ∧ p < h.size ∧ ∀ q, st ≤ q → q < p → ¬ IsLit h q
  pf_none : ∀ st, st ≤ h.size → O.pfFind h st = none → ∀ q, st ≤ q → ¬ IsLit h q
  revL_found : ∀ lo e m s, lo < e → e ≤ h.size → O.revLimited h lo e m = .found s →
    lo ≤ s ∧ s ≤ e ∧ Pre h s e ∧ ∀ s', lo ≤ s' → Pre h s' e → s ≤ s'
  revL_none : ∀ lo e m, lo < e → e ≤ h.size → O.revLimited h lo e m = .none → ∀ s', lo ≤ s' → ¬ Pre h s' e
  /-- what `prefixNullable` / `startAnchored` must guarantee -/
  null_no : ∀ a, a ≤ h.size → (P.prefixNullable && (a == 0 || !P.startAnchored)) = false → ¬ Pre h a a
  isMatchAt : ∀ a, a ≤ h.size → O.fwdIsMatchAt h a = (ref h a).isSome
  anch_some : ∀ s e, s ≤ h.size → (O.fwdAnchoredStopAt h s).1 = some e → Mt h s e
  anch_none : ∀ s, s ≤ h.size → (O.fwdAnchoredStopAt h s).1 = none → ∀ e, ¬ Mt h s e
  /-- the anchored search finds the END the reference reports for that start -/
  anch_ref : ∀ a s e, a ≤ h.size → ref h a = some (s, e) → (O.fwdAnchoredStopAt h s).1 = some e
  revF_some : ∀ lo e s, lo ≤ e → e ≤ h.size → O.revFull h lo e = some s →
    lo ≤ s ∧ Mt h s e ∧ ∀ s', lo ≤ s' → s' ≤ h.size → Mt h s' e → s ≤ s'
  fwd : ∀ a, a ≤ h.size → O.fwdEnd h a = (ref h a).map (·.2)
  pike : ∀ a, a ≤ h.size → O.pike h a = ref h a
  /-- what `exactStart` must guarantee (`isASCIIClassLoop`): the prefix language is closed under this "hull" operation -/
  exact_hull : P.exactStart = true → ∀ s p s' p', Pre h s p → Pre h s' p' → s ≤ s' → p' ≤ p → Pre h s p'
  /-- `SetLineBounded(true)`: no match contains '\n' -/
  lb_nl : P.lineBounded = true → ∀ s e, s ≤ h.size → Mt h s e → ∀ i, s ≤ i → i < e → h.at i ≠ 10
  lb_restart : P.lineBounded = true → ∀ a a' s e, a ≤ h.size → ref h a = some (s, e) → a ≤ a' → a' ≤ s → ref h a' = some (s, e)

section
variable {O : Oracles} {P : Params} {Mt Pre Suf : Bytes → Nat → Nat → Prop} {IsLit : Bytes → Nat → Prop}
  {ref : Bytes → Nat → Option (Nat × Nat)} {h : Bytes}

/-- `searchSpan` is the reference search from `from` -/
theorem searchSpan_eq (S : Spec O P Mt Pre Suf IsLit ref h) {from_ : Nat} (hf : from_ ≤ h.size) :
    searchSpan O h from_ = ref h from_ := by
  unfold searchSpan
  rw [S.fwd from_ hf]
  cases hr : ref h from_ with
  | none => rfl
  | some se =>
    obtain ⟨s, e⟩ := se
    obtain ⟨h1, h2, h3⟩ := S.ref_sound from_ s e hf hr
    obtain ⟨m1, m2⟩ := S.mt_le s e h2 h3
    simp only [Option.map_some]
    split
    · rename_i heq
      have : s = from_ := by omega
      rw [this, heq]
    · split
      · rw [S.pike from_ hf, hr]
      · rename_i s' hrev
        obtain ⟨g1, g2, g3⟩ := S.revF_some from_ e s' (by omega) m2 hrev
        have a1 := g3 s h1 h2 h3
        have a2 := S.ref_leftmost from_ s e hf hr s' e g1 g2
        have : s' = s := by omega
        rw [this]

/-- the candidate at `p` is the inner literal of no match that starts at or after `at` -/
def Dead (Pre Suf : Bytes → Nat → Nat → Prop) (h : Bytes) (at_ p : Nat) : Prop := ∀ s e, at_ ≤ s → Pre h s p → ¬ Suf h p e

/-- the loop invariant: every position before `ss` is dead -/
def Inv (Pre Suf : Bytes → Nat → Nat → Prop) (h : Bytes) (at_ ss : Nat) : Prop := ∀ p, p < ss → Dead Pre Suf h at_ p

theorem inv_init (S : Spec O P Mt Pre Suf IsLit ref h) (at_ : Nat) : Inv Pre Suf h at_ at_ := by
  intro p hp s e h1 h2 _
  have := S.pre_le s p h2
  omega

/-- the positions the prefilter skips are dead -/
theorem inv_skip (S : Spec O P Mt Pre Suf IsLit ref h) {at_ ss pos : Nat} (hss : ss ≤ h.size)
    (hinv : Inv Pre Suf h at_ ss) (hpf : O.pfFind h ss = some pos) : Inv Pre Suf h at_ pos := by
  intro p hp
  by_cases hlt : p < ss
  · exact hinv p hlt
  · intro s e _ _ h3
    exact (S.pf_some ss pos hss hpf).2.2 p (by omega) hp (S.suf_lit p e h3)

theorem inv_step {at_ pos : Nat} (hinv : Inv Pre Suf h at_ pos) (hd : Dead Pre Suf h at_ pos) : Inv Pre Suf h at_ (pos + 1) := by
  intro p hp
  by_cases hlt : p < pos
  · exact hinv p hlt
  · have : p = pos := by omega
    rw [this]; exact hd

/-- every split point of a match from `at` lies at or after `ss` -/
theorem split_ge {at_ ss : Nat} (hinv : Inv Pre Suf h at_ ss) {s p e : Nat}
    (has : at_ ≤ s) (hp : Pre h s p) (hs : Suf h p e) : ss ≤ p := by
  apply Classical.byContradiction
  intro hlt
  exact hinv p (by omega) s e has hp hs

/-- no inner literal left: no match -/
theorem no_match (S : Spec O P Mt Pre Suf IsLit ref h) {at_ ss : Nat} (hinv : Inv Pre Suf h at_ ss)
    (hno : ∀ q, ss ≤ q → ¬ IsLit h q) : ∀ s e, at_ ≤ s → s ≤ h.size → ¬ Mt h s e := by
  intro s e h1 h2 h3
  obtain ⟨p, hp, hs⟩ := S.split s e h2 h3
  exact hno p (split_ge hinv h1 hp hs) (S.suf_lit p e hs)

/-- step 1 -/
theorem prefixStart_spec (S : Spec O P Mt Pre Suf IsLit ref h) {at_ pos mms : Nat} (hap : at_ ≤ pos) (hp : pos ≤ h.size) :
    (∀ s, prefixStart O P h at_ pos mms = .found s →
      at_ ≤ s ∧ s ≤ pos ∧ (pos = at_ ∨ (Pre h s pos ∧ ∀ s', at_ ≤ s' → Pre h s' pos → s ≤ s'))) ∧
    (prefixStart O P h at_ pos mms = .none → ∀ s', at_ ≤ s' → ¬ Pre h s' pos) := by
  unfold prefixStart
  by_cases hgt : pos > at_
  · rw [if_pos hgt]
    constructor
    · intro s hr
      obtain ⟨f1, f2, f3, f4⟩ := S.revL_found at_ pos mms s hgt hp hr
      exact ⟨f1, f2, Or.inr ⟨f3, f4⟩⟩
    · intro hr
      exact S.revL_none at_ pos mms hgt hp hr
  · rw [if_neg hgt]
    have hpe : pos = at_ := by omega
    subst hpe
    split
    · constructor
      · intro s hr
        cases hr
        exact ⟨Nat.le_refl _, Nat.le_refl _, Or.inl rfl⟩
      · intro hr; cases hr
    · rename_i hc
      constructor
      · intro s hr; cases hr
      · intro _ s' h1 h2
        have := S.pre_le s' pos h2
        have hs : s' = pos := by omega
        subst hs
        exact S.null_no s' hp (by simpa using hc) h2

/-- what a returned candidate guarantees -/
def Good (O : Oracles) (Pre : Bytes → Nat → Nat → Prop) (ref : Bytes → Nat → Option (Nat × Nat)) (h : Bytes)
    (at_ : Nat) (earliest : Bool) (pos : Nat) (c : Cand) : Prop :=
  c = .giveUp ∨ ∃ ms me, c = .found pos ms me false ∧ at_ ≤ ms ∧ ms ≤ pos ∧
    if earliest then (ref h at_).isSome = true
    else (∃ e, me = some e ∧ (O.fwdAnchoredStopAt h ms).1 = some e) ∧
      (pos = at_ ∨ (Pre h ms pos ∧ ∀ s', at_ ≤ s' → Pre h s' pos → ms ≤ s'))

/-- step 2 -/
theorem verify_spec (S : Spec O P Mt Pre Suf IsLit ref h) {at_ pos mms mps : Nat} (earliest : Bool) (hat : at_ ≤ h.size)
    (hap : at_ ≤ pos) (hp : pos ≤ h.size) :
    (∀ c, verify O h earliest pos mps (prefixStart O P h at_ pos mms) = .inl c → Good O Pre ref h at_ earliest pos c) ∧
    (∀ m, verify O h earliest pos mps (prefixStart O P h at_ pos mms) = .inr m → Dead Pre Suf h at_ pos) := by
  obtain ⟨ps1, ps2⟩ := prefixStart_spec S (mms := mms) hap hp
  cases hr : prefixStart O P h at_ pos mms with
  | cutOff =>
    refine ⟨?_, ?_⟩
    · intro c hc; simp only [verify] at hc; cases hc; exact Or.inl rfl
    · intro m hc; simp only [verify] at hc; cases hc
  | none =>
    refine ⟨?_, ?_⟩
    · intro c hc; simp only [verify] at hc; cases hc
    · intro m _ s e h1 h2 _
      exact ps2 hr s h1 h2
  | found ms =>
    obtain ⟨a1, a2, a3⟩ := ps1 ms hr
    have hms : ms ≤ h.size := by omega
    cases earliest with
    | true =>
      refine ⟨?_, ?_⟩
      · intro c hc
        simp only [verify, if_true] at hc
        split at hc
        · rename_i him
          cases hc
          refine Or.inr ⟨ms, none, rfl, a1, a2, ?_⟩
          simp only [if_true]
          rw [S.isMatchAt ms hms] at him
          obtain ⟨se, hse⟩ := Option.isSome_iff_exists.mp him
          obtain ⟨r1, r2, r3⟩ := S.ref_sound ms se.1 se.2 hms hse
          obtain ⟨s', e', hr'⟩ := S.toRefSpec.some_of (a := at_) hat (by omega) r2 r3
          rw [hr']; rfl
        · cases hc; exact Or.inl rfl
      · intro m hc
        simp only [verify, if_true] at hc
        split at hc <;> cases hc
    | false =>
      refine ⟨?_, ?_⟩
      · intro c hc
        simp only [verify, Bool.false_eq_true, if_false] at hc
        split at hc
        · rename_i e st hfa
          cases hc
          refine Or.inr ⟨ms, some e, rfl, a1, a2, ?_⟩
          simp only [Bool.false_eq_true, if_false]
          exact ⟨⟨e, rfl, by rw [hfa]⟩, a3⟩
        · cases hc
      · intro m hc
        simp only [verify, Bool.false_eq_true, if_false] at hc
        split at hc
        · cases hc
        · rename_i st hfa
          have hnone : (O.fwdAnchoredStopAt h ms).1 = none := by rw [hfa]
          intro s e h1 h2 h3
          rcases a3 with a3 | ⟨a3, _⟩
          · have := S.pre_le s pos h2
            have hs : s = ms := by omega
            subst hs
            exact S.anch_none s hms hnone e (S.join s pos e h2 h3)
          · exact S.anch_none ms hms hnone e (S.join ms pos e a3 h3)

/-- what `findCandidate` guarantees (no `dotStarLiteral`) -/
def CandOK (O : Oracles) (Mt Pre Suf : Bytes → Nat → Nat → Prop) (ref : Bytes → Nat → Option (Nat × Nat)) (h : Bytes)
    (at_ : Nat) (earliest : Bool) : Cand → Prop
  | .none => ∀ s e, at_ ≤ s → s ≤ h.size → ¬ Mt h s e
  | .giveUp => True
  | .found pos ms me shape => Good O Pre ref h at_ earliest pos (.found pos ms me shape) ∧ pos < h.size ∧ Inv Pre Suf h at_ pos

theorem candLoop_spec (S : Spec O P Mt Pre Suf IsLit ref h) (hd : P.dotStarLiteral = none) {at_ : Nat} (earliest : Bool)
    (hat : at_ ≤ h.size) :
    ∀ (fuel ss mms mps : Nat), at_ ≤ ss → ss ≤ h.size → h.size - ss < fuel → Inv Pre Suf h at_ ss →
      CandOK O Mt Pre Suf ref h at_ earliest (candLoop O P h at_ earliest fuel ss mms mps) := by
  intro fuel
  induction fuel with
  | zero => intro ss mms mps _ _ h3; omega
  | succ fuel ih =>
    intro ss mms mps h1 h2 h3 hinv
    rw [candLoop]
    cases hpf : O.pfFind h ss with
    | none =>
      simp only []
      exact no_match S hinv (S.pf_none ss h2 hpf)
    | some pos =>
      simp only [hd]
      obtain ⟨p1, p2, p3⟩ := S.pf_some ss pos h2 hpf
      have hinv' := inv_skip S h2 hinv hpf
      split
      · trivial
      · obtain ⟨v1, v2⟩ := verify_spec S (mms := mms) (mps := mps) earliest hat (show at_ ≤ pos by omega) (Nat.le_of_lt p2)
        cases hv : verify O h earliest pos mps (prefixStart O P h at_ pos mms) with
        | inl c =>
          simp only []
          have hg := v1 c hv
          rcases hg with hg | ⟨ms, me, hc, hrest⟩
          · rw [hg]; trivial
          · rw [hc]
            exact ⟨Or.inr ⟨ms, me, rfl, hrest⟩, p2, hinv'⟩
        | inr m =>
          simp only []
          have hdead := v2 m hv
          have hinv'' := inv_step hinv' hdead
          split
          · refine no_match S hinv'' ?_
            intro q hq hl
            have := S.lit_lt q hl
            omega
          · exact ih (pos + 1) _ m (by omega) (by omega) (by omega) hinv''

theorem findCandidate_spec (S : Spec O P Mt Pre Suf IsLit ref h) (hd : P.dotStarLiteral = none) {at_ : Nat} (earliest : Bool)
    (hat : at_ ≤ h.size) : CandOK O Mt Pre Suf ref h at_ earliest (findCandidate O P h at_ earliest) := by
  unfold findCandidate
  split
  · refine no_match S (inv_init S at_) ?_
    intro q hq hl
    have := S.lit_lt q hl
    omega
  · exact candLoop_spec S hd earliest hat _ _ _ _ (Nat.le_refl _) hat (by omega) (inv_init S at_)

/-- **the strategy is exact**: `FindIndicesAt` returns the reference's leftmost-first span, `none` iff there is no match -/
theorem findIndicesAt_eq_ref (S : Spec O P Mt Pre Suf IsLit ref h) (hd : P.dotStarLiteral = none) {at_ : Nat}
    (hat : at_ ≤ h.size) : findIndicesAt O P h at_ = ref h at_ := by
  have hc := findCandidate_spec S hd false hat
  unfold findIndicesAt
  cases hfc : findCandidate O P h at_ false with
  | none =>
    rw [hfc] at hc
    simp only []
    exact (S.toRefSpec.none_of hat hc).symm
  | giveUp =>
    simp only []
    exact searchSpan_eq S hat
  | found pos ms me shape =>
    rw [hfc] at hc
    obtain ⟨hg, hpos, hinv⟩ := hc
    rcases hg with hg | ⟨ms', me', hceq, g1, g2, g3⟩
    · cases hg
    · simp only [Cand.found.injEq] at hceq
      obtain ⟨-, rfl, rfl, rfl⟩ := hceq
      simp only [Bool.false_eq_true, if_false] at g3 ⊢
      obtain ⟨⟨e, rfl, hanch⟩, hpre⟩ := g3
      have hms : ms ≤ h.size := by omega
      have hmt : Mt h ms e := S.anch_some ms e hms hanch
      obtain ⟨s0, e0, hr0⟩ := S.toRefSpec.some_of (a := at_) hat g1 hms hmt
      obtain ⟨r1, r2, r3⟩ := S.ref_sound at_ s0 e0 hat hr0
      have hle : s0 ≤ ms := S.ref_leftmost at_ s0 e0 hat hr0 ms e g1 hmt
      -- the split point of the reference's match lies at or after the candidate
      obtain ⟨p0, hp0, hs0⟩ := S.split s0 e0 r2 r3
      have hp0ge : pos ≤ p0 := split_ge hinv r1 hp0 hs0
      have hpe0 : p0 ≤ e0 := S.suf_le p0 e0 hs0
      have hanch0 := S.anch_ref at_ s0 e0 hat hr0
      -- the answer when the start is known
      have hknown : s0 = ms → (some e).map (fun e => (ms, e)) = ref h at_ := by
        intro heq
        subst heq
        rw [hanch0] at hanch
        cases hanch
        rw [hr0]; rfl
      -- the forward search may start at `from`
      have hfrom : ∃ from_, (if P.lineBounded = true then lineStartBefore h at_ pos else at_) = from_ ∧ from_ ≤ s0 ∧
          at_ ≤ from_ ∧ ref h from_ = ref h at_ := by
        by_cases hlb : P.lineBounded = true
        · rw [if_pos hlb]
          obtain ⟨l1, l2, l3, l4⟩ := RevSuffix.lineStartBefore_spec h (show at_ ≤ pos by omega)
          have hls : lineStartBefore h at_ pos ≤ s0 := by
            rcases l4 with l4 | ⟨l4, l5⟩
            · omega
            · apply Classical.byContradiction
              intro hlt
              exact S.lb_nl hlb s0 e0 r2 r3 (lineStartBefore h at_ pos - 1) (by omega) (by omega) l5
          exact ⟨_, rfl, hls, l1, by rw [hr0]; exact S.lb_restart hlb at_ _ s0 e0 hat hr0 l1 hls⟩
        · rw [if_neg hlb]
          exact ⟨_, rfl, r1, Nat.le_refl _, rfl⟩
      obtain ⟨from_, hfe, f1, f2, f3⟩ := hfrom
      rw [hfe]
      by_cases hcond : (P.exactStart || from_ == ms) = true
      · rw [if_pos hcond]
        apply hknown
        simp only [Bool.or_eq_true, beq_iff_eq] at hcond
        rcases hcond with hex | hfe'
        · rcases hpre with hpre | ⟨hpre, hleast⟩
          · omega
          · have := hleast s0 r1 (S.exact_hull hex s0 p0 ms pos hp0 hpre hle hp0ge)
            omega
        · omega
      · rw [if_neg hcond, searchSpan_eq S (by omega), f3]

/-- **`IsMatch` is exact**: true iff the reference finds a match -/
theorem isMatch_eq_ref (S : Spec O P Mt Pre Suf IsLit ref h) (hd : P.dotStarLiteral = none) :
    isMatch O P h = (ref h 0).isSome := by
  have hc := findCandidate_spec S hd true (Nat.zero_le _)
  unfold isMatch
  split
  · rename_i h0
    rw [S.toRefSpec.none_of (Nat.zero_le _) ?_]
    · rfl
    · refine no_match S (inv_init S 0) ?_
      intro q _ hl
      have := S.lit_lt q hl
      omega
  · cases hfc : findCandidate O P h 0 true with
    | none =>
      rw [hfc] at hc
      simp only []
      rw [S.toRefSpec.none_of (Nat.zero_le _) hc]
      rfl
    | giveUp =>
      simp only []
      exact S.isMatchAt 0 (Nat.zero_le _)
    | found pos ms me shape =>
      rw [hfc] at hc
      obtain ⟨hg, _, _⟩ := hc
      rcases hg with hg | ⟨ms', me', _, _, _, g3⟩
      · cases hg
      · simp only [if_true] at g3
        simp only []
        exact g3.symm

end

/-! ### `dotStarLiteral`: the byte-search shortcut for `.*literal.*` -/

/-- what `dotStarLiteralDotStar` must guarantee: the pattern is a greedy `.*` (no '\n'), the literal, a greedy `.*` — its
    matches are the '\n'-free spans that contain the literal; the literal has no '\n'; and, both `.*` being greedy, the
    reference's match is the LONGEST one at its start.  The prefilter may report false candidates (the code re-checks). -/
structure ShapeSpec (O : Oracles) (P : Params) (lit : Bytes) (Mt : Bytes → Nat → Nat → Prop)
    (ref : Bytes → Nat → Option (Nat × Nat)) (h : Bytes) : Prop extends RefSpec Mt ref h where
  dsl : P.dotStarLiteral = some lit
  lit_pos : 0 < lit.size
  lit_nonl : ∀ k, k < lit.size → lit.at k ≠ 10
  mt_iff : ∀ s e, s ≤ h.size → (Mt h s e ↔
    e ≤ h.size ∧ (∃ p, s ≤ p ∧ p + lit.size ≤ e ∧ Occ h lit p) ∧ ∀ i, s ≤ i → i < e → h.at i ≠ 10)
  ref_longest : ∀ a s e, a ≤ h.size → ref h a = some (s, e) → ∀ e', Mt h s e' → e' ≤ e
  pf_some : ∀ st p, st ≤ h.size → O.pfFind h st = some p → st ≤ p ∧ p < h.size ∧ ∀ q, st ≤ q → q < p → ¬ Occ h lit q
  pf_none : ∀ st, st ≤ h.size → O.pfFind h st = none → ∀ q, st ≤ q → ¬ Occ h lit q

section
variable {O : Oracles} {P : Params} {lit : Bytes} {Mt : Bytes → Nat → Nat → Prop} {ref : Bytes → Nat → Option (Nat × Nat)}
  {h : Bytes}

/-- what `findCandidate` guarantees for the shape -/
def ShapeOK (lit h : Bytes) (at_ : Nat) : Cand → Prop
  | .none => ∀ q, at_ ≤ q → ¬ Occ h lit q
  | .giveUp => False
  | .found pos ms _ shape => shape = true ∧ ms = lineStartBefore h at_ pos ∧ at_ ≤ pos ∧ Occ h lit pos ∧
      ∀ q, at_ ≤ q → q < pos → ¬ Occ h lit q

theorem shape_candLoop (D : ShapeSpec O P lit Mt ref h) {at_ : Nat} (earliest : Bool) :
    ∀ (fuel ss mms mps : Nat), at_ ≤ ss → ss ≤ h.size → h.size - ss < fuel → (∀ q, at_ ≤ q → q < ss → ¬ Occ h lit q) →
      ShapeOK lit h at_ (candLoop O P h at_ earliest fuel ss mms mps) := by
  intro fuel
  induction fuel with
  | zero => intro ss mms mps _ _ h3; omega
  | succ fuel ih =>
    intro ss mms mps h1 h2 h3 hno
    rw [candLoop]
    cases hpf : O.pfFind h ss with
    | none =>
      simp only []
      intro q hq ho
      by_cases hlt : q < ss
      · exact hno q hq hlt ho
      · exact D.pf_none ss h2 hpf q (by omega) ho
    | some pos =>
      simp only [D.dsl]
      obtain ⟨p1, p2, p3⟩ := D.pf_some ss pos h2 hpf
      have hno' : ∀ q, at_ ≤ q → q < pos → ¬ Occ h lit q := by
        intro q hq hlt
        by_cases hl : q < ss
        · exact hno q hq hl
        · exact p3 q (by omega) hlt
      split
      · rename_i hocc
        exact ⟨rfl, rfl, by omega, (RevSuffix.occursAt_iff h lit pos).mp hocc, hno'⟩
      · rename_i hocc
        refine ih (pos + 1) mms mps (by omega) (by omega) (by omega) ?_
        intro q hq hlt
        by_cases hqe : q = pos
        · subst hqe
          intro ho
          exact hocc ((RevSuffix.occursAt_iff h lit q).mpr ho)
        · exact hno' q hq (by omega)

theorem shape_findCandidate (D : ShapeSpec O P lit Mt ref h) {at_ : Nat} (earliest : Bool) (hat : at_ ≤ h.size) :
    ShapeOK lit h at_ (findCandidate O P h at_ earliest) := by
  unfold findCandidate
  split
  · intro q hq ho
    have := ho.1
    have := D.lit_pos
    omega
  · exact shape_candLoop D earliest _ _ _ _ (Nat.le_refl _) hat (by omega) (fun q h1 h2 => by omega)

theorem lineEndAt_spec (h : Bytes) (pos : Nat) (hp : pos ≤ h.size) :
    pos ≤ lineEndAt h pos ∧ lineEndAt h pos ≤ h.size ∧ (∀ j, pos ≤ j → j < lineEndAt h pos → h.at j ≠ 10) ∧
      (lineEndAt h pos = h.size ∨ h.at (lineEndAt h pos) = 10) := by
  unfold lineEndAt
  cases hnl : RevSuffix.nlFrom h pos with
  | none => exact ⟨hp, Nat.le_refl _, RevSuffix.nlFrom_none hnl, Or.inl rfl⟩
  | some nl =>
    obtain ⟨h1, h2, h3, h4⟩ := RevSuffix.nlFrom_some hnl
    simp only []
    exact ⟨h1, by omega, h4, Or.inr h3⟩

/-- a match lives on one line: the span from the start of the literal's line (or `at`) to the end of the line -/
theorem shape_span (D : ShapeSpec O P lit Mt ref h) {at_ pos : Nat} (hat : at_ ≤ h.size) (hap : at_ ≤ pos)
    (hocc : Occ h lit pos) (hfirst : ∀ q, at_ ≤ q → q < pos → ¬ Occ h lit q) :
    ref h at_ = some (lineStartBefore h at_ pos, lineEndAt h pos) := by
  have hL := D.lit_pos
  have hps : pos ≤ h.size := by have := hocc.1; omega
  obtain ⟨l1, l2, l3, l4⟩ := RevSuffix.lineStartBefore_spec h hap
  obtain ⟨e1, e2, e3, e4⟩ := lineEndAt_spec h pos hps
  -- the literal lies on the line
  have hle : pos + lit.size ≤ lineEndAt h pos := by
    rcases e4 with e4 | e4
    · rw [e4]; exact hocc.1
    · apply Classical.byContradiction
      intro hlt
      have := hocc.2 (lineEndAt h pos - pos) (by omega)
      rw [show pos + (lineEndAt h pos - pos) = lineEndAt h pos by omega, e4] at this
      exact D.lit_nonl _ (by omega) this.symm
  have hls : lineStartBefore h at_ pos ≤ h.size := by omega
  have hmatch : Mt h (lineStartBefore h at_ pos) (lineEndAt h pos) := by
    refine (D.mt_iff _ _ hls).mpr ⟨e2, ⟨pos, l2, hle, hocc⟩, ?_⟩
    intro i i1 i2
    by_cases hi : i < pos
    · exact l3 i i1 hi
    · exact e3 i (by omega) i2
  obtain ⟨s0, e0, hr0⟩ := D.toRefSpec.some_of (a := at_) hat l1 hls hmatch
  obtain ⟨r1, r2, r3⟩ := D.ref_sound at_ s0 e0 hat hr0
  have a1 := D.ref_leftmost at_ s0 e0 hat hr0 _ _ l1 hmatch
  obtain ⟨m1, ⟨p0, m2, m3, m4⟩, m5⟩ := (D.mt_iff s0 e0 r2).mp r3
  have hp0 : pos ≤ p0 := by
    apply Classical.byContradiction
    intro hlt
    exact hfirst p0 (by omega) (by omega) m4
  have a2 : lineStartBefore h at_ pos ≤ s0 := by
    rcases l4 with l4 | ⟨l4, l5⟩
    · omega
    · apply Classical.byContradiction
      intro hlt
      exact m5 (lineStartBefore h at_ pos - 1) (by omega) (by omega) l5
  have hs : s0 = lineStartBefore h at_ pos := by omega
  subst hs
  have b1 : e0 ≤ lineEndAt h pos := by
    rcases e4 with e4 | e4
    · omega
    · apply Classical.byContradiction
      intro hgt
      exact m5 (lineEndAt h pos) (by omega) (by omega) e4
  have b2 := D.ref_longest at_ _ e0 hat hr0 _ hmatch
  have he : e0 = lineEndAt h pos := by omega
  rw [hr0, he]

/-- **the shortcut is exact** for the shape it is meant for -/
theorem shape_find_eq_ref (D : ShapeSpec O P lit Mt ref h) {at_ : Nat} (hat : at_ ≤ h.size) :
    findIndicesAt O P h at_ = ref h at_ := by
  have hc := shape_findCandidate D false hat
  have hnone : (∀ q, at_ ≤ q → ¬ Occ h lit q) → ref h at_ = none := by
    intro hno
    refine D.toRefSpec.none_of hat ?_
    intro s e g1 g2 g3
    obtain ⟨_, ⟨p, m2, _, m4⟩, _⟩ := (D.mt_iff s e g2).mp g3
    exact hno p (by omega) m4
  unfold findIndicesAt
  cases hfc : findCandidate O P h at_ false with
  | none =>
    rw [hfc] at hc
    simp only []
    exact (hnone hc).symm
  | giveUp => rw [hfc] at hc; exact absurd hc id
  | found pos ms me shape =>
    rw [hfc] at hc
    obtain ⟨rfl, rfl, c3, c4, c5⟩ := hc
    simp only [if_true]
    exact (shape_span D hat c3 c4 c5).symm

theorem shape_isMatch_eq_ref (D : ShapeSpec O P lit Mt ref h) : isMatch O P h = (ref h 0).isSome := by
  have hc := shape_findCandidate D true (Nat.zero_le _)
  have hnone : (∀ q, 0 ≤ q → ¬ Occ h lit q) → ref h 0 = none := by
    intro hno
    refine D.toRefSpec.none_of (Nat.zero_le _) ?_
    intro s e g1 g2 g3
    obtain ⟨_, ⟨p, m2, _, m4⟩, _⟩ := (D.mt_iff s e g2).mp g3
    exact hno p (by omega) m4
  unfold isMatch
  split
  · rename_i h0
    rw [hnone ?_]
    · rfl
    · intro q _ ho
      have := ho.1
      have := D.lit_pos
      omega
  · cases hfc : findCandidate O P h 0 true with
    | none =>
      rw [hfc] at hc
      simp only []
      rw [hnone hc]; rfl
    | giveUp => rw [hfc] at hc; exact absurd hc id
    | found pos ms me shape =>
      rw [hfc] at hc
      obtain ⟨_, _, c3, c4, c5⟩ := hc
      simp only []
      rw [shape_span D (Nat.zero_le _) c3 c4 c5]
      rfl

end

/-! ### the instrumented functions compute the same answers -/

section
variable (O : Oracles) (P : Params) (h : Bytes)

theorem searchSpanT_fst (from_ : Nat) (t : Trace) : (searchSpanT O h from_ t).1 = searchSpan O h from_ := by
  unfold searchSpanT searchSpan
  cases O.fwdEnd h from_ with
  | none => rfl
  | some e =>
    simp only []
    split
    · rfl
    · cases O.revFull h from_ e <;> rfl

theorem prefixStartT_fst (at_ pos mms : Nat) (t : Trace) :
    (prefixStartT O P h at_ pos mms t).1 = prefixStart O P h at_ pos mms := by
  unfold prefixStartT prefixStart
  split
  · rfl
  · split <;> rfl

theorem verifyT_fst (earliest : Bool) (pos mps : Nat) (t : Trace) (r : RevAnswer) :
    (verifyT O h earliest pos mps t r).1 = verify O h earliest pos mps r := by
  cases r with
  | none => rfl
  | cutOff => rfl
  | found ms =>
    cases earliest with
    | true =>
      simp only [verifyT, verify, if_true]
      split <;> rfl
    | false =>
      simp only [verifyT, verify, Bool.false_eq_true, if_false]
      split <;> rfl

theorem candLoopT_fst (at_ : Nat) (earliest : Bool) : ∀ (fuel ss mms mps : Nat) (t : Trace),
    (candLoopT O P h at_ earliest fuel ss mms mps t).1 = candLoop O P h at_ earliest fuel ss mms mps := by
  intro fuel
  induction fuel with
  | zero => intro ss mms mps t; rfl
  | succ fuel ih =>
    intro ss mms mps t
    rw [candLoopT, candLoop]
    cases O.pfFind h ss with
    | none => rfl
    | some pos =>
      simp only []
      cases P.dotStarLiteral with
      | some lit =>
        simp only []
        split
        · rfl
        · exact ih _ _ _ _
      | none =>
        simp only []
        split
        · rfl
        · have hps := prefixStartT_fst O P h at_ pos mms { t with pfCalls := t.pfCalls + 1 }
          generalize prefixStartT O P h at_ pos mms { t with pfCalls := t.pfCalls + 1 } = ps at hps ⊢
          obtain ⟨r, t1⟩ := ps
          simp only [] at hps ⊢
          rw [← hps]
          have hv := verifyT_fst O h earliest pos mps t1 r
          generalize verifyT O h earliest pos mps t1 r = v at hv ⊢
          obtain ⟨v, t'⟩ := v
          simp only [] at hv ⊢
          rw [← hv]
          cases v with
          | inl c => rfl
          | inr m =>
            simp only []
            split
            · rfl
            · exact ih _ _ _ _

theorem findCandidateT_fst (at_ : Nat) (earliest : Bool) :
    (findCandidateT O P h at_ earliest).1 = findCandidate O P h at_ earliest := by
  unfold findCandidateT findCandidate
  split
  · rfl
  · exact candLoopT_fst O P h at_ earliest _ _ _ _ _

theorem findIndicesAtT_fst (at_ : Nat) : (findIndicesAtT O P h at_).1 = findIndicesAt O P h at_ := by
  unfold findIndicesAtT findIndicesAt
  rw [← findCandidateT_fst O P h at_ false]
  cases findCandidateT O P h at_ false with
  | mk c t =>
    cases c with
    | none => rfl
    | giveUp => exact searchSpanT_fst O h _ _
    | found pos ms me shape =>
      simp only []
      by_cases hs : shape = true
      · rw [if_pos hs, if_pos hs]
      · rw [if_neg hs, if_neg hs]
        generalize (if P.lineBounded = true then lineStartBefore h at_ pos else at_) = from_
        by_cases hc : (P.exactStart || from_ == ms) = true
        · rw [if_pos hc, if_pos hc]
        · rw [if_neg hc, if_neg hc]
          exact searchSpanT_fst O h _ _

theorem isMatchT_fst : (isMatchT O P h).1 = isMatch O P h := by
  unfold isMatchT isMatch
  split
  · rfl
  · rw [← findCandidateT_fst O P h 0 true]
    cases findCandidateT O P h 0 true with
    | mk c t => cases c <;> rfl

end

/-! ### the anti-quadratic guards: `minMatchStart` (reverse scans) and `minPreStart` (stop-at, forward scans) -/

theorem windowsCost_snoc (ws : List (Nat × Nat)) (w : Nat × Nat) :
    RevSuffix.windowsCost (ws ++ [w]) = RevSuffix.windowsCost ws + (w.2 - w.1) := by
  simp [RevSuffix.windowsCost, List.map_append, List.sum_append]

/-- what the cost bounds need from the components (nothing about languages): the prefilter answers at or after `start` and
    inside the haystack; a reverse scan that was not cut off ends at or after `minStart`; `stop` lies between the start of
    the anchored scan and the end of the haystack; match ends lie inside the haystack -/
structure CostSpec (O : Oracles) (h : Bytes) : Prop where
  pf_ge : ∀ st p, O.pfFind h st = some p → st ≤ p ∧ p < h.size
  rev_ge : ∀ lo e m s, O.revLimited h lo e m = .found s → lo ≤ s ∧ m ≤ s ∧ s ≤ e
  stop_in : ∀ s, s ≤ h.size → s ≤ (O.fwdAnchoredStopAt h s).2 ∧ (O.fwdAnchoredStopAt h s).2 ≤ h.size
  fwd_le : ∀ a e, O.fwdEnd h a = some e → e ≤ h.size

/-- the cost invariant of the candidate loop: `A = min (max at minMatchStart) |h|` is the frontier of the reverse scans -/
structure CostInv (h : Bytes) (at_ mms mps : Nat) (t : Trace) : Prop where
  mps_ge : at_ ≤ mps
  mps_le : mps ≤ h.size
  lim : RevSuffix.windowsCost t.limited ≤ min (max at_ mms) h.size - at_
  anch : RevSuffix.windowsCost t.anch ≤ (min (max at_ mms) h.size - at_) + (mps - at_)

/-- what holds of the trace when the loop returns -/
structure CostOut (h : Bytes) (at_ : Nat) (earliest : Bool) (t0 t : Trace) (fuel : Nat) : Prop where
  lim : RevSuffix.windowsCost t.limited ≤ h.size - at_
  anch : RevSuffix.windowsCost t.anch ≤ 2 * (h.size - at_)
  pf : t.pfCalls ≤ t0.pfCalls + fuel
  full : t.full = t0.full
  fwd : t.fwd = t0.fwd
  ima : t.isMatchAts.length ≤ t0.isMatchAts.length + 1
  /-- `IsMatch` makes no anchored scan -/
  anch_e : earliest = true → t.anch = t0.anch

section
variable {O : Oracles} {P : Params} {h : Bytes}

theorem costOut_zero {at_ mms mps : Nat} {t : Trace} (earliest : Bool) (hat : at_ ≤ h.size) (I : CostInv h at_ mms mps t) :
    CostOut h at_ earliest t t 0 := by
  have := I.lim
  have := I.anch
  have := I.mps_ge
  have := I.mps_le
  exact ⟨by omega, by omega, Nat.le_refl _, rfl, rfl, Nat.le_succ _, fun _ => rfl⟩

theorem costOut_leaf {at_ mms mps : Nat} {t t1 : Trace} {earliest : Bool} (fuel : Nat) (hat : at_ ≤ h.size)
    (I : CostInv h at_ mms mps t1)
    (hpf : t1.pfCalls = t.pfCalls + 1) (hfull : t1.full = t.full) (hfwd : t1.fwd = t.fwd)
    (hima : t1.isMatchAts.length ≤ t.isMatchAts.length + 1) (hae : earliest = true → t1.anch = t.anch) :
    CostOut h at_ earliest t t1 (fuel + 1) := by
  have := I.lim
  have := I.anch
  have := I.mps_ge
  have := I.mps_le
  exact ⟨by omega, by omega, by omega, hfull, hfwd, hima, hae⟩

theorem costOut_step {at_ : Nat} {t t1 t' : Trace} {fuel : Nat} {earliest : Bool} (H : CostOut h at_ earliest t1 t' fuel)
    (hpf : t1.pfCalls = t.pfCalls + 1) (hfull : t1.full = t.full) (hfwd : t1.fwd = t.fwd)
    (hima : t1.isMatchAts = t.isMatchAts) (hae : earliest = true → t1.anch = t.anch) : CostOut h at_ earliest t t' (fuel + 1) :=
  ⟨H.lim, H.anch, by have := H.pf; omega, by rw [H.full, hfull], by rw [H.fwd, hfwd], by have := H.ima; rw [hima] at this; exact this,
    fun he => by rw [H.anch_e he, hae he]⟩

/-- step 1 on the trace -/
theorem prefixStartT_cost (C : CostSpec O h) {at_ ss pos mms mps : Nat} {t : Trace} (h1 : at_ ≤ ss) (p1 : ss ≤ pos)
    (p2 : pos < h.size) (hJ : ss = at_ → mms ≤ at_) (I : CostInv h at_ mms mps t) :
    ∃ r t1, prefixStartT O P h at_ pos mms t = (r, t1) ∧
      t1.pfCalls = t.pfCalls ∧ t1.full = t.full ∧ t1.fwd = t.fwd ∧ t1.isMatchAts = t.isMatchAts ∧ t1.anch = t.anch ∧
      RevSuffix.windowsCost t1.limited ≤ min (max at_ (max mms pos)) h.size - at_ ∧
      (∀ ms, r = .found ms → min (max at_ mms) h.size ≤ ms ∧ ms ≤ pos) := by
  have hIl := I.lim
  unfold prefixStartT
  split
  · rename_i hgt
    refine ⟨_, _, rfl, rfl, rfl, rfl, rfl, rfl, ?_, ?_⟩
    · simp only [windowsCost_snoc]; omega
    · intro ms hr
      obtain ⟨r1, r2, r3⟩ := C.rev_ge at_ pos mms ms hr
      omega
  · rename_i hngt
    have hm := hJ (by omega)
    split
    · refine ⟨_, _, rfl, rfl, rfl, rfl, rfl, rfl, by omega, ?_⟩
      intro ms hr
      cases hr
      omega
    · refine ⟨_, _, rfl, rfl, rfl, rfl, rfl, rfl, by omega, ?_⟩
      intro ms hr; cases hr

theorem candLoopT_cost (C : CostSpec O h) {at_ : Nat} (earliest : Bool) (hat : at_ < h.size) :
    ∀ (fuel ss mms mps : Nat) (t : Trace), at_ ≤ ss → (ss = at_ → mms ≤ at_) → CostInv h at_ mms mps t →
      CostOut h at_ earliest t (candLoopT O P h at_ earliest fuel ss mms mps t).2 fuel := by
  have hat' : at_ ≤ h.size := Nat.le_of_lt hat
  intro fuel
  induction fuel with
  | zero =>
    intro ss mms mps t _ _ I
    rw [candLoopT]
    exact costOut_zero earliest hat' I
  | succ fuel ih =>
    intro ss mms mps t h1 hJ I
    rw [candLoopT]
    have I1 : CostInv h at_ mms mps { t with pfCalls := t.pfCalls + 1 } := ⟨I.mps_ge, I.mps_le, I.lim, I.anch⟩
    cases hp : O.pfFind h ss with
    | none => exact costOut_leaf (t1 := { t with pfCalls := t.pfCalls + 1 }) fuel hat' I1 rfl rfl rfl (Nat.le_succ _) (fun _ => rfl)
    | some pos =>
      obtain ⟨p1, p2⟩ := C.pf_ge ss pos hp
      simp only []
      cases hdsl : P.dotStarLiteral with
      | some lit =>
        simp only []
        split
        · exact costOut_leaf (t1 := { t with pfCalls := t.pfCalls + 1 }) fuel hat' I1 rfl rfl rfl (Nat.le_succ _) (fun _ => rfl)
        · exact costOut_step (ih (pos + 1) mms mps { t with pfCalls := t.pfCalls + 1 } (by omega) (by omega) I1) rfl rfl rfl rfl (fun _ => rfl)
      | none =>
        simp only []
        split
        · exact costOut_leaf (t1 := { t with pfCalls := t.pfCalls + 1 }) fuel hat' I1 rfl rfl rfl (Nat.le_succ _) (fun _ => rfl)
        · rename_i hge
          have hmp : mps ≤ pos := by omega
          have hIa := I.anch
          have hg := I.mps_ge
          have hl := I.mps_le
          obtain ⟨r, t1, hpse, q1, q2, q3, q4, q5, q6', q7⟩ :=
            prefixStartT_cost (P := P) C h1 p1 p2 hJ I1
          rw [hpse]
          simp only [] at q1 q2 q3 q4 q5 ⊢
          -- the new `minMatchStart`
          have hmm' : max mms pos ≤ (if pos + P.innerLen > mms then pos + P.innerLen else mms) := by split <;> omega
          cases r with
          | cutOff =>
            simp only [verifyT]
            have I2 : CostInv h at_ (max mms pos) mps t1 := ⟨hg, hl, q6', by rw [q5]; omega⟩
            exact costOut_leaf (t1 := t1) fuel hat' I2 q1 q2 q3 (by rw [q4]; omega) (fun _ => q5)
          | none =>
            simp only [verifyT]
            have I2 : CostInv h at_ (if pos + P.innerLen > mms then pos + P.innerLen else mms) mps t1 :=
              ⟨hg, hl, by omega, by rw [q5]; omega⟩
            split
            · exact costOut_leaf (t1 := t1) fuel hat' I2 q1 q2 q3 (by rw [q4]; omega) (fun _ => q5)
            · exact costOut_step (ih (pos + 1) _ mps t1 (by omega) (by omega) I2) q1 q2 q3 q4 (fun _ => q5)
          | found ms =>
            obtain ⟨m1, m2⟩ := q7 ms rfl
            cases earliest with
            | true =>
              simp only [verifyT, if_true]
              have I2 : CostInv h at_ (max mms pos) mps { t1 with isMatchAts := t1.isMatchAts ++ [ms] } :=
                ⟨hg, hl, q6', by simp only []; rw [q5]; omega⟩
              have hima : ({ t1 with isMatchAts := t1.isMatchAts ++ [ms] } : Trace).isMatchAts.length ≤ t.isMatchAts.length + 1 := by
                simp only [List.length_append, q4, List.length_cons, List.length_nil]; omega
              cases hm : O.fwdIsMatchAt h ms with
              | true =>
                simp only [if_true]
                exact costOut_leaf (t1 := { t1 with isMatchAts := t1.isMatchAts ++ [ms] }) fuel hat' I2 q1 q2 q3 hima (fun _ => q5)
              | false =>
                simp only [Bool.false_eq_true, if_false]
                exact costOut_leaf (t1 := { t1 with isMatchAts := t1.isMatchAts ++ [ms] }) fuel hat' I2 q1 q2 q3 hima (fun _ => q5)
            | false =>
              simp only [verifyT, Bool.false_eq_true, if_false]
              obtain ⟨s1, s2⟩ := C.stop_in ms (by omega)
              have hcost : RevSuffix.windowsCost (t1.anch ++ [(ms, (O.fwdAnchoredStopAt h ms).2)]) ≤
                  ((O.fwdAnchoredStopAt h ms).2 - at_) + (mps - at_) := by
                rw [windowsCost_snoc, q5]
                simp only []
                omega
              cases hfa : O.fwdAnchoredStopAt h ms with
              | mk me stop =>
                rw [hfa] at hcost s1 s2
                simp only [] at hcost s1 s2
                cases me with
                | some e =>
                  simp only []
                  have I2 : CostInv h at_ (max mms pos) stop { t1 with anch := t1.anch ++ [(ms, stop)] } :=
                    ⟨by omega, s2, q6', by simp only []; omega⟩
                  exact costOut_leaf (t1 := { t1 with anch := t1.anch ++ [(ms, stop)] }) fuel hat' I2 q1 q2 q3 (by simp only []; rw [q4]; omega) (fun he => by cases he)
                | none =>
                  simp only []
                  have I2 : CostInv h at_ (if pos + P.innerLen > mms then pos + P.innerLen else mms) stop
                      { t1 with anch := t1.anch ++ [(ms, stop)] } :=
                    ⟨by omega, s2, by simp only []; omega, by simp only []; omega⟩
                  split
                  · exact costOut_leaf (t1 := { t1 with anch := t1.anch ++ [(ms, stop)] }) fuel hat' I2 q1 q2 q3 (by simp only []; rw [q4]; omega) (fun he => by cases he)
                  · exact costOut_step (ih (pos + 1) _ stop { t1 with anch := t1.anch ++ [(ms, stop)] } (by omega) (by omega) I2) q1 q2 q3 q4 (fun he => by cases he)

theorem lineStartBefore_ge (h : Bytes) (at_ pos : Nat) : at_ ≤ lineStartBefore h at_ pos := by
  unfold lineStartBefore
  split
  · exact Nat.le_refl _
  · split
    · rename_i i hf
      have := (RevSuffix.findLast_some hf).1
      omega
    · exact Nat.le_refl _

theorem findCandidateT_cost (C : CostSpec O h) {at_ : Nat} (earliest : Bool) (hat : at_ ≤ h.size) :
    CostOut h at_ earliest {} (findCandidateT O P h at_ earliest).2 (h.size + 1 - at_) := by
  unfold findCandidateT
  split
  · exact ⟨Nat.zero_le _, Nat.zero_le _, Nat.zero_le _, rfl, rfl, Nat.zero_le _, fun _ => rfl⟩
  · refine candLoopT_cost C earliest (by omega) _ at_ at_ at_ {} (Nat.le_refl _) (fun _ => Nat.le_refl _) ?_
    exact ⟨Nat.le_refl _, hat, Nat.zero_le _, Nat.zero_le _⟩

theorem searchSpanT_cost (C : CostSpec O h) {from_ : Nat} (t : Trace) :
    (searchSpanT O h from_ t).2.limited = t.limited ∧ (searchSpanT O h from_ t).2.anch = t.anch ∧
    (searchSpanT O h from_ t).2.pfCalls = t.pfCalls ∧ (searchSpanT O h from_ t).2.isMatchAts = t.isMatchAts ∧
    (searchSpanT O h from_ t).2.fwd = some from_ ∧
    ((searchSpanT O h from_ t).2.full = t.full ∨ ∃ e, (searchSpanT O h from_ t).2.full = some (from_, e) ∧ e ≤ h.size) := by
  unfold searchSpanT
  cases hfe : O.fwdEnd h from_ with
  | none => exact ⟨rfl, rfl, rfl, rfl, rfl, Or.inl rfl⟩
  | some e =>
    have he := C.fwd_le from_ e hfe
    simp only []
    split
    · exact ⟨rfl, rfl, rfl, rfl, rfl, Or.inl rfl⟩
    · cases O.revFull h from_ e with
      | none => exact ⟨rfl, rfl, rfl, rfl, rfl, Or.inr ⟨e, rfl, he⟩⟩
      | some s => exact ⟨rfl, rfl, rfl, rfl, rfl, Or.inr ⟨e, rfl, he⟩⟩

/-- **anti-quadratic bound** for one `FindIndicesAt`: all reverse scans together read at most `2·(|h| - at)` bytes (the limited
    scans of the prefix DFA at most `|h| - at`: `minMatchStart` keeps their windows apart; the one full scan of `searchSpan`
    at most `|h| - at`), all ANCHORED forward scans together at most `2·(|h| - at)` bytes (`minPreStart`: a scan that ran
    past the next candidate ends the loop), the prefilter is called at most `|h| + 1 - at` times, and there is at most one
    unanchored forward scan (`Trace.fwd` is an `Option`), which starts at or after `at` -/
theorem cost_le (C : CostSpec O h) {at_ : Nat} (hat : at_ ≤ h.size) :
    (findIndicesAtT O P h at_).2.revCost ≤ 2 * (h.size - at_) ∧ (findIndicesAtT O P h at_).2.anchCost ≤ 2 * (h.size - at_) ∧
    (findIndicesAtT O P h at_).2.pfCalls ≤ h.size + 1 - at_ ∧ (∀ a, (findIndicesAtT O P h at_).2.fwd = some a → at_ ≤ a) := by
  have H := findCandidateT_cost (P := P) C false hat
  have hspan : ∀ from_, at_ ≤ from_ → ∀ t, CostOut h at_ false {} t (h.size + 1 - at_) →
      (searchSpanT O h from_ t).2.revCost ≤ 2 * (h.size - at_) ∧ (searchSpanT O h from_ t).2.anchCost ≤ 2 * (h.size - at_) ∧
      (searchSpanT O h from_ t).2.pfCalls ≤ h.size + 1 - at_ ∧ (∀ a, (searchSpanT O h from_ t).2.fwd = some a → at_ ≤ a) := by
    intro from_ hf t Ht
    obtain ⟨s1, s2, s3, s4, s5, s6⟩ := searchSpanT_cost C (from_ := from_) t
    have h1 := Ht.lim
    have h2 := Ht.anch
    have h3 := Ht.pf
    have h4 := Ht.full
    refine ⟨?_, by unfold Trace.anchCost; rw [s2]; exact h2, by rw [s3]; simpa using h3, ?_⟩
    · unfold Trace.revCost
      rw [s1]
      rcases s6 with hw | ⟨e, hw1, hw2⟩
      · rw [hw, h4]
        simp only []
        omega
      · rw [hw1]
        simp only []
        omega
    · intro a ha
      rw [s5] at ha
      cases ha
      exact hf
  have hplain : ∀ t, CostOut h at_ false {} t (h.size + 1 - at_) →
      t.revCost ≤ 2 * (h.size - at_) ∧ t.anchCost ≤ 2 * (h.size - at_) ∧ t.pfCalls ≤ h.size + 1 - at_ ∧
      (∀ a, t.fwd = some a → at_ ≤ a) := by
    intro t Ht
    have h1 := Ht.lim
    have h2 := Ht.anch
    have h3 := Ht.pf
    refine ⟨?_, h2, by simpa using h3, ?_⟩
    · unfold Trace.revCost
      rw [Ht.full]
      simp only []
      omega
    · intro a ha
      rw [Ht.fwd] at ha
      cases ha
  unfold findIndicesAtT
  cases hfc : findCandidateT O P h at_ false with
  | mk c t =>
    rw [hfc] at H
    simp only [] at H
    cases c with
    | none => exact hplain t H
    | giveUp => exact hspan at_ (Nat.le_refl _) t H
    | found pos ms me shape =>
      simp only []
      by_cases hs : shape = true
      · rw [if_pos hs]; exact hplain t H
      · rw [if_neg hs]
        have hfrom : at_ ≤ (if P.lineBounded = true then lineStartBefore h at_ pos else at_) := by
          split
          · exact lineStartBefore_ge h at_ pos
          · exact Nat.le_refl _
        generalize (if P.lineBounded = true then lineStartBefore h at_ pos else at_) = from_ at hfrom
        by_cases hc : (P.exactStart || from_ == ms) = true
        · rw [if_pos hc]; exact hplain t H
        · rw [if_neg hc]; exact hspan from_ hfrom t H

/-- one `IsMatch`: the reverse scans together read at most `|h|` bytes, there is no anchored forward scan, at most two
    unanchored (earliest) forward scans, at most `|h| + 1` prefilter calls -/
theorem isMatch_cost_le (C : CostSpec O h) :
    (isMatchT O P h).2.revCost ≤ h.size ∧ (isMatchT O P h).2.anch = [] ∧ (isMatchT O P h).2.isMatchAts.length ≤ 2 ∧
    (isMatchT O P h).2.pfCalls ≤ h.size + 1 := by
  unfold isMatchT
  split
  · exact ⟨Nat.zero_le _, rfl, Nat.zero_le _, Nat.zero_le _⟩
  · have H := findCandidateT_cost (P := P) C true (Nat.zero_le h.size)
    have hrc : ∀ t : Trace, t.full = none → RevSuffix.windowsCost t.limited ≤ h.size - 0 → t.revCost ≤ h.size := by
      intro t hf hl
      unfold Trace.revCost
      rw [hf]
      simp only []
      omega
    cases hfc : findCandidateT O P h 0 true with
    | mk c t =>
      rw [hfc] at H
      simp only [] at H
      have h1 := H.lim
      have h3 := H.pf
      have h4 := H.full
      have h5 := H.ima
      have h6 := H.anch_e rfl
      cases c with
      | none =>
        simp only []
        exact ⟨hrc t h4 h1, h6, by simp only [List.length_nil] at h5; omega, by simpa using h3⟩
      | found _ _ _ _ =>
        simp only []
        exact ⟨hrc t h4 h1, h6, by simp only [List.length_nil] at h5; omega, by simpa using h3⟩
      | giveUp =>
        simp only []
        exact ⟨hrc _ h4 h1, h6, by simp only [List.length_append, List.length_cons, List.length_nil] at h5 ⊢; omega, by simpa using h3⟩

end

/-- `findCandidate` (hence `IsMatch`) reads neither `exactStart` nor `lineBounded` -/
theorem candLoop_congr (O : Oracles) {P P' : Params} (h1 : P.innerLen = P'.innerLen) (h2 : P.dotStarLiteral = P'.dotStarLiteral)
    (h3 : P.prefixNullable = P'.prefixNullable) (h4 : P.startAnchored = P'.startAnchored) (h : Bytes) (at_ : Nat)
    (earliest : Bool) : ∀ (fuel ss mms mps : Nat),
      candLoop O P h at_ earliest fuel ss mms mps = candLoop O P' h at_ earliest fuel ss mms mps := by
  have hps : ∀ pos mms, prefixStart O P h at_ pos mms = prefixStart O P' h at_ pos mms := by
    intro pos mms
    unfold prefixStart
    rw [h3, h4]
  intro fuel
  induction fuel with
  | zero => intro ss mms mps; rfl
  | succ fuel ih =>
    intro ss mms mps
    rw [candLoop, candLoop]
    simp only [h1, h2, hps, ih]

theorem isMatch_congr (O : Oracles) {P P' : Params} (h1 : P.innerLen = P'.innerLen) (h2 : P.dotStarLiteral = P'.dotStarLiteral)
    (h3 : P.prefixNullable = P'.prefixNullable) (h4 : P.startAnchored = P'.startAnchored) (h : Bytes) :
    isMatch O P h = isMatch O P' h := by
  unfold isMatch findCandidate
  rw [candLoop_congr O h1 h2 h3 h4]

/-! ### the contracts are satisfiable: brute-force oracles (what the fidelity driver runs the model with) -/

theorem refPfFindSet_some {lits : List Bytes} {h : Bytes} {st p : Nat} (hf : refPfFindSet lits h st = some p) :
    st ≤ p ∧ (∃ l, l ∈ lits ∧ Occ h l p) ∧ ∀ q, st ≤ q → q < p → ¬ ∃ l, l ∈ lits ∧ Occ h l q := by
  obtain ⟨h1, _, h3, h4⟩ := RevSuffix.findFirst_some hf
  simp only [List.any_eq_true] at h3
  obtain ⟨l, hl, ho⟩ := h3
  refine ⟨h1, ⟨l, hl, (RevSuffix.occursAt_iff h l p).mp ho⟩, ?_⟩
  rintro q hq1 hq2 ⟨l', hl', ho'⟩
  have := h4 q hq1 hq2
  have ht : (lits.any fun l => occursAt h l q) = true := List.any_eq_true.mpr ⟨l', hl', (RevSuffix.occursAt_iff h l' q).mpr ho'⟩
  rw [ht] at this
  cases this

theorem refPfFindSet_none {lits : List Bytes} {h : Bytes} {st : Nat} (hf : refPfFindSet lits h st = none) :
    ∀ q, st ≤ q → ¬ ∃ l, l ∈ lits ∧ Occ h l q := by
  rintro q hq ⟨l, hl, ho⟩
  have := RevSuffix.findFirst_none hf q hq (by have := ho.1; omega)
  have ht : (lits.any fun l => occursAt h l q) = true := List.any_eq_true.mpr ⟨l, hl, (RevSuffix.occursAt_iff h l q).mpr ho⟩
  rw [ht] at this
  cases this

theorem bruteOracles_spec {lits : List Bytes} {mt pre : Nat → Nat → Bool} {rf : Nat → Option (Nat × Nat)} {anch : Nat → Option Nat}
    (cutMode : Nat) (giveUp : Bool) (stopMode : Nat) {P : Params} {h : Bytes} {Suf : Nat → Nat → Prop}
    (R : RefSpec (fun _ s e => mt s e = true) (fun _ a => rf a) h)
    (hle : ∀ s e, s ≤ h.size → mt s e = true → s ≤ e ∧ e ≤ h.size)
    (hsplit : ∀ s e, s ≤ h.size → mt s e = true → ∃ p, pre s p = true ∧ Suf p e)
    (hjoin : ∀ s p e, pre s p = true → Suf p e → mt s e = true)
    (hprele : ∀ s p, pre s p = true → s ≤ p) (hsufle : ∀ p e, Suf p e → p ≤ e)
    (hlit : ∀ p e, Suf p e → ∃ l, l ∈ lits ∧ Occ h l p) (hlitpos : ∀ l, l ∈ lits → 0 < l.size)
    (hnull : ∀ a, a ≤ h.size → (P.prefixNullable && (a == 0 || !P.startAnchored)) = false → pre a a = false)
    (hanch1 : ∀ s e, s ≤ h.size → anch s = some e → mt s e = true)
    (hanch2 : ∀ s, s ≤ h.size → anch s = none → ∀ e, mt s e = false)
    (hanch3 : ∀ a s e, a ≤ h.size → rf a = some (s, e) → anch s = some e)
    (hex : P.exactStart = true → ∀ s p s' p', pre s p = true → pre s' p' = true → s ≤ s' → p' ≤ p → pre s p' = true)
    (hlb1 : P.lineBounded = true → ∀ s e, s ≤ h.size → mt s e = true → ∀ i, s ≤ i → i < e → h.at i ≠ 10)
    (hlb2 : P.lineBounded = true → ∀ a a' s e, a ≤ h.size → rf a = some (s, e) → a ≤ a' → a' ≤ s → rf a' = some (s, e)) :
    Spec (bruteOracles lits mt pre rf anch cutMode giveUp stopMode h.size) P (fun _ s e => mt s e = true)
      (fun _ s p => pre s p = true) (fun _ => Suf) (fun h' p => ∃ l, l ∈ lits ∧ Occ h' l p) (fun _ a => rf a) h where
  toRefSpec := R
  mt_le := hle
  split := hsplit
  join := hjoin
  pre_le := hprele
  suf_le := hsufle
  suf_lit := hlit
  lit_lt := by
    rintro p ⟨l, hl, ho⟩
    have := ho.1
    have := hlitpos l hl
    omega
  pf_some := by
    intro st p _ hf
    obtain ⟨f1, ⟨l, hl, ho⟩, f3⟩ := refPfFindSet_some hf
    have := ho.1
    have := hlitpos l hl
    exact ⟨f1, by omega, f3⟩
  pf_none := fun st _ hf => refPfFindSet_none hf
  revL_found := by
    intro lo e m s hlo he hr
    simp only [bruteOracles] at hr
    split at hr
    · cases hr
    · split at hr
      · rename_i s1 hf
        split at hr
        · cases hr
        · cases hr
          obtain ⟨f1, f2, f3, f4⟩ := RevSuffix.findFirst_some hf
          refine ⟨f1, by omega, f3, ?_⟩
          intro s' g1 g2
          apply Classical.byContradiction
          intro hlt
          have := f4 s' g1 (by omega)
          rw [g2] at this
          cases this
      · cases hr
  revL_none := by
    intro lo e m hlo he hr s' g1 g3
    simp only [bruteOracles] at hr
    split at hr
    · cases hr
    · split at hr
      · split at hr <;> cases hr
      · rename_i hf
        have := hprele s' e g3
        have := RevSuffix.findFirst_none hf s' g1 (by omega)
        rw [g3] at this
        cases this
  null_no := fun a ha hc hp => by rw [hnull a ha hc] at hp; cases hp
  isMatchAt := fun _ _ => rfl
  anch_some := by
    intro s e hs hr
    simp only [bruteOracles] at hr
    split at hr
    · rename_i e' ha
      cases hr
      exact hanch1 s e hs ha
    · cases hr
  anch_none := by
    intro s hs hr e he
    simp only [bruteOracles] at hr
    split at hr
    · cases hr
    · rename_i ha
      rw [hanch2 s hs ha e] at he
      cases he
  anch_ref := by
    intro a s e ha hr
    simp only [bruteOracles]
    rw [hanch3 a s e ha hr]
  revF_some := by
    intro lo e s hlo he hr
    simp only [bruteOracles] at hr
    split at hr
    · cases hr
    · obtain ⟨f1, f2, f3, f4⟩ := RevSuffix.findFirst_some hr
      refine ⟨f1, f3, ?_⟩
      intro s' g1 _ g3
      apply Classical.byContradiction
      intro hlt
      have := f4 s' g1 (by omega)
      rw [g3] at this
      cases this
  fwd := fun _ _ => rfl
  pike := fun _ _ => rfl
  exact_hull := hex
  lb_nl := hlb1
  lb_restart := hlb2

/-- the brute-force oracles meet the cost contracts for every policy -/
theorem bruteOracles_cost {lits : List Bytes} {mt pre : Nat → Nat → Bool} {rf : Nat → Option (Nat × Nat)} {anch : Nat → Option Nat}
    (cutMode : Nat) (giveUp : Bool) (stopMode : Nat) {h : Bytes} (hlitpos : ∀ l, l ∈ lits → 0 < l.size)
    (hrf : ∀ a s e, rf a = some (s, e) → e ≤ h.size) :
    CostSpec (bruteOracles lits mt pre rf anch cutMode giveUp stopMode h.size) h where
  pf_ge := by
    intro st p hf
    obtain ⟨f1, ⟨l, hl, ho⟩, _⟩ := refPfFindSet_some hf
    have := ho.1
    have := hlitpos l hl
    exact ⟨f1, by omega⟩
  rev_ge := by
    intro lo e m s hr
    simp only [bruteOracles] at hr
    split at hr
    · cases hr
    · split at hr
      · rename_i s1 hf
        split at hr
        · cases hr
        · cases hr
          obtain ⟨f1, f2, _, _⟩ := RevSuffix.findFirst_some hf
          exact ⟨f1, by omega, by omega⟩
      · cases hr
  stop_in := by
    intro s hs
    simp only [bruteOracles]
    split
    · exact ⟨hs, Nat.le_refl _⟩
    · simp only []
      split
      · exact ⟨hs, Nat.le_refl _⟩
      · split
        · exact ⟨Nat.le_refl _, hs⟩
        · omega
  fwd_le := by
    intro a e hf
    simp only [bruteOracles] at hf
    cases hr : rf a with
    | none => rw [hr] at hf; cases hf
    | some se =>
      rw [hr] at hf
      simp only [Option.map_some, Option.some.injEq] at hf
      subst hf
      exact hrf a se.1 se.2 hr

/-! ### why the flags and the split need their hypotheses: counter-models (brute-force oracles over explicit tables)

Each example runs the MODEL on tables that violate exactly one hypothesis of `Spec` and shows the wrong answer next to the
answer with the flag set right.  (`x` = 120, `a` = 97, `b` = 98, `f o o` = 102 111 111.)

* `suf_lit` (every match contains the inner literal at its split point): a match of "ab" without the literal `x` is lost.
* `null_no` / `prefixNullable`: `.*foo.*` on "foo" told the prefix is NOT nullable: the candidate at `at` is dropped.
* `null_no` / `startAnchored`: a prefix that matches the empty span at 1 (e.g. `(?:)` / `a*`) told to be start-anchored: the
  candidate at `at = 1` is dropped.
* `exact_hull` / `exactStart`: prefix matches `h[1:1)` and `h[0:3)` but not `h[0:1)` (not hull-closed); the first confirmed
  candidate (1) has leftmost prefix start 1, but the leftmost match is [0,4) through the later candidate 3.
* `lb_nl` / `lineBounded`: a match [0,3) of "\nax" that contains '\n': the forward search starts after the '\n'.
* `ShapeSpec` / `dotStarLiteral`: `[a-z]+foo.*` on "foo" (no match) told to be `.*foo.*`: the shortcut reports the line. -/

example :
    findIndicesAt (bruteOracles [#[120]] (fun s e => s == 0 && e == 2) (fun s p => s == 0 && p == 1)
        (fun a => if a = 0 then some (0, 2) else none) (fun a => if a = 0 then some 2 else none) 0 false 0 2)
      { innerLen := 1 } #[97, 98] 0 = none := by decide

example :
    let O := bruteOracles [#[102, 111, 111]] (fun s e => s == 0 && e == 3) (fun s p => s == p)
        (fun a => if a = 0 then some (0, 3) else none) (fun a => if a = 0 then some 3 else none) 0 false 0 3
    findIndicesAt O { innerLen := 3, prefixNullable := false } #[102, 111, 111] 0 = none ∧
    findIndicesAt O { innerLen := 3, prefixNullable := true } #[102, 111, 111] 0 = some (0, 3) := by decide

example :
    let O := bruteOracles [#[120]] (fun s e => s ≤ 1 && e == 2) (fun s p => s == p || (s == 0 && p == 1))
        (fun a => if a ≤ 1 then some (a, 2) else none) (fun a => if a ≤ 1 then some 2 else none) 0 false 0 2
    findIndicesAt O { innerLen := 1, prefixNullable := true, startAnchored := true } #[97, 120] 1 = none ∧
    findIndicesAt O { innerLen := 1, prefixNullable := true, startAnchored := false } #[97, 120] 1 = some (1, 2) := by decide

example :
    let mt : Nat → Nat → Bool := fun s e => (s == 0 && e == 4) || (s == 1 && e == 2) || (s == 3 && e == 4)
    let pre : Nat → Nat → Bool := fun s p => (s == 0 && p == 3) || (s == 1 && p == 1) || (s == 3 && p == 3)
    let rf : Nat → Option (Nat × Nat) := fun a => if a = 0 then some (0, 4) else if a = 1 then some (1, 2) else if a ≤ 3 then some (3, 4) else none
    let an : Nat → Option Nat := fun a => if a = 0 then some 4 else if a = 1 then some 2 else if a = 3 then some 4 else none
    let O := bruteOracles [#[120]] mt pre rf an 0 false 0 4
    findIndicesAt O { innerLen := 1, prefixNullable := true, exactStart := true } #[97, 120, 98, 120] 0 = some (1, 2) ∧
    findIndicesAt O { innerLen := 1, prefixNullable := true, exactStart := false } #[97, 120, 98, 120] 0 = some (0, 4) := by decide

example :
    let O := bruteOracles [#[120]] (fun s e => s == 0 && e == 3) (fun s p => s == 0 && p == 2)
        (fun a => if a = 0 then some (0, 3) else none) (fun a => if a = 0 then some 3 else none) 0 false 0 3
    findIndicesAt O { innerLen := 1, lineBounded := true } #[10, 97, 120] 0 = none ∧
    findIndicesAt O { innerLen := 1, lineBounded := false } #[10, 97, 120] 0 = some (0, 3) := by decide

example :
    let O := bruteOracles [#[102, 111, 111]] (fun _ _ => false) (fun _ _ => false) (fun _ => none) (fun _ => none) 0 false 0 3
    findIndicesAt O { innerLen := 3, dotStarLiteral := some #[102, 111, 111] } #[102, 111, 111] 0 = some (0, 3) ∧
    isMatch O { innerLen := 3, dotStarLiteral := some #[102, 111, 111] } #[102, 111, 111] = true ∧
    findIndicesAt O { innerLen := 3 } #[102, 111, 111] 0 = none ∧ isMatch O { innerLen := 3 } #[102, 111, 111] = false := by decide

/-- the answers of the components that the contracts leave open (cut-off or not, give up or not, where a failed anchored
    scan stopped) lead to the same result — `[a-z]+x[0-9]` on "axbx1x" (matches [2,5)): exact answers; every limited scan
    cut off; reverse DFA giving up; failed scans stopping at once / at the end; with the traces of two of the runs -/
example :
    let mt : Nat → Nat → Bool := fun s e => s == 2 && e == 5
    let pre : Nat → Nat → Bool := fun s p => (s == 0 && p == 1) || (s == 2 && p == 3) || (s == 0 && p == 2) ||
      (s == 1 && p == 2) || (s == 0 && p == 3) || (s == 1 && p == 3) || (s == 0 && p == 4) || (s == 1 && p == 4) || (s == 2 && p == 4) || (s == 3 && p == 4)
    let rf : Nat → Option (Nat × Nat) := fun a => if a ≤ 2 then some (2, 5) else none
    let an : Nat → Option Nat := fun a => if a = 2 then some 5 else none
    let h : Bytes := #[97, 120, 98, 120, 49, 120]
    let P : Params := { innerLen := 1 }
    (findIndicesAt (bruteOracles [#[120]] mt pre rf an 0 false 1 6) P h 0 = some (2, 5)) ∧
    (findIndicesAt (bruteOracles [#[120]] mt pre rf an 1 false 0 6) P h 0 = some (2, 5)) ∧
    (findIndicesAt (bruteOracles [#[120]] mt pre rf an 1 true 0 6) P h 0 = some (2, 5)) ∧
    (findIndicesAt (bruteOracles [#[120]] mt pre rf an 0 false 0 6) P h 0 = some (2, 5)) ∧
    (findIndicesAt (bruteOracles [#[120]] mt pre rf an 2 true 2 6) P h 0 = some (2, 5)) ∧
    ((findIndicesAtT (bruteOracles [#[120]] mt pre rf an 0 false 1 6) P h 0).2.limited = [(0, 1), (2, 3)]) ∧
    ((findIndicesAtT (bruteOracles [#[120]] mt pre rf an 0 false 1 6) P h 0).2.anch = [(0, 0)]) ∧
    ((findIndicesAtT (bruteOracles [#[120]] mt pre rf an 0 false 0 6) P h 0).2.fwd = some 0) := by decide

end Cx.RevInner
