import Cx.Proofs.CompositeDfaSem
/-
  Cx.Proofs.CompositeDfaAuto — the configuration automaton of nfa/composite_dfa.go at the level of configuration SETS
  (bitmasks), before any table is built:

  * index arithmetic of `configBit` (`bitIdx`, injective on valid configurations);
  * `computeNextConfigs_testBit`: which bits `computeNextConfigs` sets;
  * the word-level meaning of a configuration (`Cfg`) and of a configuration set (`Sem`), and the step theorem
    `delta_sem`: one `computeNextConfigs` step (with or without restart) follows the meaning along one more byte.
-/
namespace Cx.CompDfa
open Cx Cx.Fast Cx.Fast.Spec

/-! ## index arithmetic -/

/-- `parts[p].minMatch` -/
def mn (parts : List CharClassPart) (p : Nat) : Nat := (parts.getD p default).minMatch

/-- `offset` of `configBit` -/
def off (parts : List CharClassPart) (p : Nat) : Nat := ((parts.take p).map (·.minMatch)).sum

/-- bit position of the configuration `(p, c)` -/
def bitIdx (parts : List CharClassPart) (p c : Nat) : Nat := off parts p + c - 1

theorem configBit_eq (parts : List CharClassPart) (p c : Nat) : configBit parts p c = 2 ^ bitIdx parts p c := by
  unfold configBit bitIdx off
  rw [Nat.one_shiftLeft]

/-- minimums are positive -/
def MinPos (parts : List CharClassPart) : Prop := ∀ p ∈ parts, 1 ≤ p.minMatch

theorem mn_pos (parts : List CharClassPart) (hm : MinPos parts) (p : Nat) (hp : p < parts.length) : 1 ≤ mn parts p := by
  unfold mn
  rw [List.getD_eq_getElem?_getD, List.getElem?_eq_getElem hp]
  exact hm _ (List.getElem_mem hp)

theorem off_zero (parts : List CharClassPart) : off parts 0 = 0 := by simp [off]

theorem off_succ (parts : List CharClassPart) (p : Nat) (hp : p < parts.length) :
    off parts (p + 1) = off parts p + mn parts p := by
  unfold off mn
  rw [← List.take_append_getElem hp, List.map_append, List.sum_append, List.getD_eq_getElem?_getD,
    List.getElem?_eq_getElem hp]
  simp

theorem off_mono (parts : List CharClassPart) (p q : Nat) (hpq : p ≤ q) (hq : q ≤ parts.length) :
    off parts p ≤ off parts q := by
  induction q with
  | zero => have : p = 0 := by omega
            subst this; exact Nat.le_refl _
  | succ q ih =>
    by_cases h : p = q + 1
    · subst h; exact Nat.le_refl _
    · have := ih (by omega) (by omega)
      rw [off_succ parts q (by omega)]
      omega

theorem off_lt (parts : List CharClassPart) (p q : Nat) (hpq : p < q) (hq : q ≤ parts.length) :
    off parts p + mn parts p ≤ off parts q := by
  rw [← off_succ parts p (by omega)]
  exact off_mono parts (p + 1) q hpq hq

/-- a configuration the automaton uses: part `p`, `1 ≤ c ≤ minMatch` characters seen (capped) -/
def ValidCfg (parts : List CharClassPart) (p c : Nat) : Prop := p < parts.length ∧ 1 ≤ c ∧ c ≤ mn parts p

theorem bitIdx_inj (parts : List CharClassPart) (p c p' c' : Nat) (h1 : ValidCfg parts p c) (h2 : ValidCfg parts p' c')
    (he : bitIdx parts p c = bitIdx parts p' c') : p = p' ∧ c = c' := by
  obtain ⟨hp, hc1, hc2⟩ := h1
  obtain ⟨hp', hc1', hc2'⟩ := h2
  unfold bitIdx at he
  rcases Nat.lt_trichotomy p p' with hlt | heq | hgt
  · have := off_lt parts p p' hlt (by omega); omega
  · subst heq; exact ⟨rfl, by omega⟩
  · have := off_lt parts p' p hgt (by omega); omega

theorem bitIdx_lt (parts : List CharClassPart) (p c : Nat) (h1 : ValidCfg parts p c) :
    bitIdx parts p c < off parts parts.length := by
  obtain ⟨hp, hc1, hc2⟩ := h1
  have := off_lt parts p parts.length hp (Nat.le_refl _)
  unfold bitIdx; omega

/-! ## bits of a fold of `|||` -/

theorem foldl_testBit {α : Type} (stp : Nat → α → Nat) (q : α → Bool) (j : Nat)
    (hstp : ∀ acc x, (stp acc x).testBit j = (acc.testBit j || q x)) (l : List α) (init : Nat) :
    (l.foldl stp init).testBit j = (init.testBit j || l.any q) := by
  induction l generalizing init with
  | nil => simp
  | cons x l ih => rw [List.foldl_cons, ih, hstp, List.any_cons, Bool.or_assoc]

theorem and_two_pow_eq_zero (S k : Nat) : S &&& 2 ^ k = 0 ↔ S.testBit k = false := by
  constructor
  · intro h
    have := congrArg (·.testBit k) h
    simpa [Nat.testBit_and, Nat.testBit_two_pow] using this
  · intro h
    apply Nat.eq_of_testBit_eq
    intro i
    rw [Nat.testBit_and, Nat.testBit_two_pow, Nat.zero_testBit]
    by_cases hk : k = i
    · subst hk; simp [h]
    · simp [hk]

/-- what one `(part, seen)` iteration adds -/
def contrib (cm : CharClassPart → Bool) (parts : List CharClassPart) (S p c : Nat) (j : Nat) : Bool :=
  S.testBit (bitIdx parts p c) &&
    ((cm (parts.getD p default) && decide (j = bitIdx parts p (min (c + 1) (mn parts p)))) ||
     (decide (c = mn parts p) && decide (p + 1 < parts.length) && cm (parts.getD (p + 1) default) &&
        decide (j = bitIdx parts (p + 1) 1)))

theorem nextStep_testBit (cm : CharClassPart → Bool) (parts : List CharClassPart) (S p : Nat) (next c j : Nat)
    (hc : c ≤ mn parts p) :
    (nextStep cm parts S p next c).testBit j = (next.testBit j || contrib cm parts S p c j) := by
  unfold nextStep contrib
  simp only [configBit_eq, and_two_pow_eq_zero]
  have hmn : (parts.getD p default).minMatch = mn parts p := rfl
  rw [hmn]
  by_cases hS : S.testBit (bitIdx parts p c) = true
  · have hS' : ¬ (S.testBit (bitIdx parts p c) = false) := by simp [hS]
    rw [if_neg hS', hS, Bool.true_and]
    have hmin : bitIdx parts p (min (c + 1) (mn parts p)) =
        if c < mn parts p then bitIdx parts p (c + 1) else bitIdx parts p (mn parts p) := by
      split
      · rw [Nat.min_eq_left (by omega)]
      · rw [Nat.min_eq_right (by omega)]
    by_cases h1 : cm (parts.getD p default) = true
    · by_cases h2 : c = mn parts p ∧ p + 1 < parts.length ∧ cm (parts.getD (p + 1) default) = true
      · rw [if_pos h2, if_pos h1]
        obtain ⟨h2a, h2b, h2c⟩ := h2
        simp only [h1, h2a, h2b, h2c, Bool.true_and, decide_true, Nat.lt_irrefl, if_false] at hmin ⊢
        rw [Nat.testBit_or, Nat.testBit_or, Nat.testBit_two_pow, Nat.testBit_two_pow, hmin]
        simp [eq_comm, Bool.or_assoc]
      · rw [if_neg h2, if_pos h1]
        have h2' : (decide (c = mn parts p) && decide (p + 1 < parts.length) && cm (parts.getD (p + 1) default)) = false := by
          rw [Bool.eq_false_iff]
          intro hh
          simp only [Bool.and_eq_true, decide_eq_true_eq] at hh
          exact h2 ⟨hh.1.1, hh.1.2, hh.2⟩
        rw [h2', Bool.false_and, Bool.or_false, h1, Bool.true_and, hmin]
        split <;> rw [Nat.testBit_or, Nat.testBit_two_pow] <;> simp [eq_comm]
    · have h1' : cm (parts.getD p default) = false := by simpa using h1
      rw [if_neg h1, h1', Bool.false_and, Bool.false_or]
      by_cases h2 : c = mn parts p ∧ p + 1 < parts.length ∧ cm (parts.getD (p + 1) default) = true
      · rw [if_pos h2]
        obtain ⟨h2a, h2b, h2c⟩ := h2
        simp only [h2a, h2b, h2c, decide_true, Bool.true_and]
        rw [Nat.testBit_or, Nat.testBit_two_pow]
        simp [eq_comm]
      · rw [if_neg h2]
        have h2' : (decide (c = mn parts p) && decide (p + 1 < parts.length) && cm (parts.getD (p + 1) default)) = false := by
          rw [Bool.eq_false_iff]
          intro hh
          simp only [Bool.and_eq_true, decide_eq_true_eq] at hh
          exact h2 ⟨hh.1.1, hh.1.2, hh.2⟩
        rw [h2', Bool.false_and, Bool.or_false]
  · have hS' : S.testBit (bitIdx parts p c) = false := by simpa using hS
    rw [if_pos hS', hS', Bool.false_and, Bool.or_false]

/-- **the bits `computeNextConfigs` sets** -/
theorem computeNextConfigs_testBit (cm : CharClassPart → Bool) (parts : List CharClassPart) (S j : Nat) :
    (computeNextConfigs cm parts S).testBit j = true ↔
      ∃ p c, ValidCfg parts p c ∧ contrib cm parts S p c j = true := by
  unfold computeNextConfigs
  rw [foldl_testBit (q := fun p => (List.range' 1 (mn parts p)).any fun c => contrib cm parts S p c j)]
  · rw [Nat.zero_testBit, Bool.false_or, List.any_eq_true]
    constructor
    · rintro ⟨p, hp, hany⟩
      rw [List.any_eq_true] at hany
      obtain ⟨c, hc, hcon⟩ := hany
      rw [List.mem_range'_1] at hc
      exact ⟨p, c, ⟨List.mem_range.mp hp, hc.1, by omega⟩, hcon⟩
    · rintro ⟨p, c, ⟨hp, hc1, hc2⟩, hcon⟩
      refine ⟨p, List.mem_range.mpr hp, ?_⟩
      rw [List.any_eq_true]
      exact ⟨c, List.mem_range'_1.mpr ⟨hc1, by omega⟩, hcon⟩
  · intro acc p
    have hmn : (parts.getD p default).minMatch = mn parts p := rfl
    rw [hmn]
    -- inner loop: only `c ≤ mn` occur
    have : ∀ (l : List Nat) (init : Nat), (∀ c ∈ l, c ≤ mn parts p) →
        (l.foldl (nextStep cm parts S p) init).testBit j = (init.testBit j || l.any fun c => contrib cm parts S p c j) := by
      intro l
      induction l with
      | nil => intro init _; simp
      | cons x l ih =>
        intro init hl
        rw [List.foldl_cons, ih _ (fun c hc => hl c (List.mem_cons_of_mem _ hc)),
          nextStep_testBit cm parts S p init x j (hl x List.mem_cons_self), List.any_cons, Bool.or_assoc]
    apply this
    intro c hc
    rw [List.mem_range'_1] at hc
    omega

/-! ## the meaning of configurations -/

/-- the word `w` brings the automaton to configuration `(p, c)`: `w = u ++ v` with `u` a match of the parts before
    `p` and `v` a non-empty run of class-`p` bytes, of which `c = min |v| minMatch` are counted -/
def Cfg (parts : List CharClassPart) (p c : Nat) (w : List Nat) : Prop :=
  p < parts.length ∧ ∃ u v, w = u ++ v ∧ Lang (parts.take p) u ∧ v ≠ [] ∧
    (∀ b ∈ v, (parts.getD p default).mem b = true) ∧ min v.length (mn parts p) = c

theorem Cfg.valid {parts : List CharClassPart} (hm : MinPos parts) {p c : Nat} {w : List Nat} (h : Cfg parts p c w) :
    ValidCfg parts p c := by
  obtain ⟨hp, u, v, _, _, hv, _, hc⟩ := h
  have := mn_pos parts hm p hp
  have : 1 ≤ v.length := by
    cases v with
    | nil => exact absurd rfl hv
    | cons _ _ => simp
  exact ⟨hp, by omega, by omega⟩

theorem Cfg.ne_nil {parts : List CharClassPart} {p c : Nat} {w : List Nat} (h : Cfg parts p c w) : w ≠ [] := by
  obtain ⟨_, u, v, rfl, _, hv, _, _⟩ := h
  intro hnil
  exact hv (List.append_eq_nil_iff.mp hnil).2

theorem lang_take_zero (parts : List CharClassPart) (w : List Nat) : Lang (parts.take 0) w ↔ w = [] := by
  rw [List.take_zero]; rfl

theorem lang_take_succ (parts : List CharClassPart) (hm : MinPos parts) (p : Nat) (hp : p < parts.length) (w : List Nat) :
    Lang (parts.take (p + 1)) w ↔ Cfg parts p (mn parts p) w := by
  have hget : parts.getD p default = parts[p] := by
    rw [List.getD_eq_getElem?_getD, List.getElem?_eq_getElem hp]; rfl
  have hpos := mn_pos parts hm p hp
  rw [← List.take_append_getElem hp, Lang_append]
  constructor
  · rintro ⟨u, v, rfl, hu, hv⟩
    rw [Lang_single] at hv
    obtain ⟨hv1, hv2⟩ := hv
    have hv1 : mn parts p ≤ v.length := by unfold mn; rw [hget]; exact hv1
    refine ⟨hp, u, v, rfl, hu, ?_, ?_, by omega⟩
    · intro hnil; rw [hnil] at hv1; simp at hv1; omega
    · rw [hget]; exact hv2
  · rintro ⟨_, u, v, rfl, hu, _, hv2, hc⟩
    refine ⟨u, v, rfl, hu, ?_⟩
    rw [Lang_single]
    refine ⟨?_, ?_⟩
    · have : mn parts p ≤ v.length := by omega
      unfold mn at this; rw [hget] at this; exact this
    · rw [hget] at hv2; exact hv2

/-- one more byte -/
theorem cfg_snoc (parts : List CharClassPart) (hm : MinPos parts) (p c : Nat) (w : List Nat) (b : Nat)
    (hp : p < parts.length) :
    Cfg parts p c (w ++ [b]) ↔
      (parts.getD p default).mem b = true ∧
        ((c = 1 ∧ Lang (parts.take p) w) ∨ ∃ c', Cfg parts p c' w ∧ c = min (c' + 1) (mn parts p)) := by
  have hpos := mn_pos parts hm p hp
  constructor
  · rintro ⟨_, u, v, huv, hu, hv, hmem, hc⟩
    rcases List.eq_nil_or_concat v with hnil | ⟨v', b', hv'⟩
    · exact absurd hnil hv
    · rw [List.concat_eq_append] at hv'
      subst hv'
      rw [← List.append_assoc] at huv
      obtain ⟨h1, h2⟩ := List.append_inj' huv rfl
      have hb : b = b' := by simpa using h2
      subst hb
      refine ⟨hmem b (by simp), ?_⟩
      by_cases hv'nil : v' = []
      · subst hv'nil
        left
        simp only [List.nil_append, List.length_singleton] at hc
        rw [List.append_nil] at h1
        exact ⟨by omega, h1 ▸ hu⟩
      · right
        refine ⟨min v'.length (mn parts p), ⟨hp, u, v', h1, hu, hv'nil, fun x hx => hmem x (by simp [hx]), rfl⟩, ?_⟩
        simp only [List.length_append, List.length_singleton] at hc
        omega
  · rintro ⟨hb, ⟨rfl, hl⟩ | ⟨c', ⟨_, u, v, rfl, hu, hv, hmem, hc'⟩, rfl⟩⟩
    · refine ⟨hp, w, [b], rfl, hl, by simp, ?_, ?_⟩
      · intro x hx
        have : x = b := by simpa using hx
        subst this; exact hb
      · simp only [List.length_singleton]; omega
    · refine ⟨hp, u, v ++ [b], by simp, hu, by simp, ?_, ?_⟩
      · intro x hx
        rcases List.mem_append.mp hx with hx | hx
        · exact hmem x hx
        · have : x = b := by simpa using hx
          subst this; exact hb
      · simp only [List.length_append, List.length_singleton]
        omega

/-- `S` is the set of the configurations with property `W`, and has no other bits -/
def Sem (parts : List CharClassPart) (S : Nat) (W : Nat → Nat → Prop) : Prop :=
  (∀ p c, ValidCfg parts p c → (S.testBit (bitIdx parts p c) = true ↔ W p c)) ∧
  (∀ j, S.testBit j = true → ∃ p c, ValidCfg parts p c ∧ j = bitIdx parts p c)

theorem sem_zero_iff {parts : List CharClassPart} {S : Nat} {W : Nat → Nat → Prop} (h : Sem parts S W) :
    S = 0 ↔ ∀ p c, ValidCfg parts p c → ¬ W p c := by
  constructor
  · intro h0 p c hv hw
    have := (h.1 p c hv).mpr hw
    rw [h0, Nat.zero_testBit] at this
    exact Bool.false_ne_true this
  · intro hall
    apply Nat.eq_of_testBit_eq
    intro j
    rw [Nat.zero_testBit]
    cases hj : S.testBit j with
    | false => rfl
    | true =>
      obtain ⟨p, c, hv, rfl⟩ := h.2 j hj
      exact absurd ((h.1 p c hv).mp hj) (hall p c hv)

/-- meaning of a configuration set after reading `w`: anchored (`r = false`: the attempt that started at the beginning
    of `w`) or unanchored (`r = true`: the attempts that started anywhere in `w`) -/
def Wr (parts : List CharClassPart) (r : Bool) (w : List Nat) (p c : Nat) : Prop :=
  ∃ x y, w = x ++ y ∧ (r = true ∨ x = []) ∧ Cfg parts p c y

theorem Wr_nil (parts : List CharClassPart) (r : Bool) (p c : Nat) : ¬ Wr parts r [] p c := by
  rintro ⟨x, y, hxy, _, hc⟩
  have := List.append_eq_nil_iff.mp hxy.symm
  exact hc.ne_nil this.2

theorem sem_nil_zero {parts : List CharClassPart} {r : Bool} {S : Nat} (h : Sem parts S (Wr parts r [])) : S = 0 :=
  (sem_zero_iff h).mpr fun p c _ => Wr_nil parts r p c

/-- one transition of the subset automaton on configuration sets: `computeNextConfigs`, plus the first configuration
    when the automaton restarts (`r`) or is entered (`S = 0`: the row of the dead state) -/
def delta (cm : CharClassPart → Bool) (parts : List CharClassPart) (r : Bool) (S : Nat) : Nat :=
  computeNextConfigs cm parts S |||
    (if (r || S == 0) && cm (parts.getD 0 default) then configBit parts 0 1 else 0)

theorem delta_testBit (cm : CharClassPart → Bool) (parts : List CharClassPart) (r : Bool) (S j : Nat) :
    (delta cm parts r S).testBit j = true ↔
      (∃ p c, ValidCfg parts p c ∧ contrib cm parts S p c j = true) ∨
      ((r = true ∨ S = 0) ∧ cm (parts.getD 0 default) = true ∧ j = bitIdx parts 0 1) := by
  unfold delta
  rw [Nat.testBit_or, Bool.or_eq_true, computeNextConfigs_testBit]
  apply or_congr Iff.rfl
  split
  · rename_i hc
    simp only [Bool.and_eq_true, Bool.or_eq_true, beq_iff_eq] at hc
    rw [configBit_eq, Nat.testBit_two_pow]
    simp only [decide_eq_true_eq]
    constructor
    · intro hj; exact ⟨hc.1, hc.2, hj.symm⟩
    · intro hj; exact hj.2.2.symm
  · rename_i hc
    simp only [Bool.and_eq_true, Bool.or_eq_true, beq_iff_eq] at hc
    rw [Nat.zero_testBit]
    constructor
    · intro hf; exact absurd hf Bool.false_ne_true
    · intro hj; exact absurd ⟨hj.1, hj.2.1⟩ hc

/-- **step theorem**: `delta` follows the meaning along one more byte `b`, provided the class predicate `cm` agrees with
    membership of `b` and (anchored case) the automaton has not died -/
theorem delta_sem (parts : List CharClassPart) (hm : MinPos parts) (hne : 0 < parts.length) (cm : CharClassPart → Bool)
    (b : Nat) (hcm : ∀ p, p < parts.length → cm (parts.getD p default) = (parts.getD p default).mem b)
    (r : Bool) (S : Nat) (w : List Nat) (hS : Sem parts S (Wr parts r w)) (hlive : r = true ∨ w = [] ∨ S ≠ 0) :
    Sem parts (delta cm parts r S) (Wr parts r (w ++ [b])) := by
  have hv01 : ValidCfg parts 0 1 := ⟨hne, Nat.le_refl _, mn_pos parts hm 0 hne⟩
  constructor
  · intro p' c' hv'
    rw [delta_testBit]
    constructor
    · rintro (⟨p, c, hv, hcon⟩ | ⟨hr, hc0, hj⟩)
      · unfold contrib at hcon
        rw [Bool.and_eq_true] at hcon
        obtain ⟨hbit, halt⟩ := hcon
        obtain ⟨x, y, hxy, hx, hcfg⟩ := (hS.1 p c hv).mp hbit
        rw [Bool.or_eq_true] at halt
        rcases halt with halt | halt
        · rw [Bool.and_eq_true, decide_eq_true_eq] at halt
          obtain ⟨hcmp, hj⟩ := halt
          have hvt : ValidCfg parts p (min (c + 1) (mn parts p)) := ⟨hv.1, by have := hv.2.1; have := hv.2.2; omega, by omega⟩
          obtain ⟨rfl, rfl⟩ := bitIdx_inj parts _ _ _ _ hv' hvt hj
          refine ⟨x, y ++ [b], by rw [hxy, List.append_assoc], hx, ?_⟩
          rw [cfg_snoc parts hm _ _ _ _ hv.1]
          exact ⟨by rw [← hcm p' hv.1]; exact hcmp, Or.inr ⟨c, hcfg, rfl⟩⟩
        · simp only [Bool.and_eq_true, decide_eq_true_eq] at halt
          obtain ⟨⟨⟨hcm1, hp1⟩, hcmp⟩, hj⟩ := halt
          have hvt : ValidCfg parts (p + 1) 1 := ⟨hp1, Nat.le_refl _, mn_pos parts hm _ hp1⟩
          obtain ⟨rfl, rfl⟩ := bitIdx_inj parts _ _ _ _ hv' hvt hj
          refine ⟨x, y ++ [b], by rw [hxy, List.append_assoc], hx, ?_⟩
          rw [cfg_snoc parts hm _ _ _ _ hp1]
          refine ⟨by rw [← hcm _ hp1]; exact hcmp, Or.inl ⟨rfl, ?_⟩⟩
          rw [lang_take_succ parts hm p hv.1, ← hcm1]
          exact hcfg
      · obtain ⟨rfl, rfl⟩ := bitIdx_inj parts _ _ _ _ hv' hv01 hj
        refine ⟨w, [b], rfl, ?_, ?_⟩
        · rcases hr with hr | hS0
          · exact Or.inl hr
          · rcases hlive with hr | hw | hS1
            · exact Or.inl hr
            · exact Or.inr hw
            · exact absurd hS0 hS1
        · have := (cfg_snoc parts hm 0 1 [] b hne).mpr
            ⟨by rw [← hcm 0 hne]; exact hc0, Or.inl ⟨rfl, (lang_take_zero parts []).mpr rfl⟩⟩
          simpa using this
    · rintro ⟨x, y, hxy, hx, hcfg⟩
      rcases List.eq_nil_or_concat y with hnil | ⟨y', b', hy'⟩
      · exact absurd hnil hcfg.ne_nil
      · rw [List.concat_eq_append] at hy'
        subst hy'
        rw [← List.append_assoc] at hxy
        obtain ⟨h1, h2⟩ := List.append_inj' hxy rfl
        have hb : b = b' := by simpa using h2
        subst hb
        obtain ⟨hmem, hcase⟩ := (cfg_snoc parts hm p' c' y' b hv'.1).mp hcfg
        rcases hcase with ⟨rfl, hl⟩ | ⟨c, hc, rfl⟩
        · cases p' with
          | zero =>
            right
            rw [lang_take_zero] at hl
            subst hl
            rw [List.append_nil] at h1
            refine ⟨?_, by rw [hcm 0 hne]; exact hmem, rfl⟩
            rcases hx with hr | hxnil
            · exact Or.inl hr
            · right
              rw [h1, hxnil] at hS
              exact sem_nil_zero hS
          | succ q =>
            left
            have hq : q < parts.length := by have := hv'.1; omega
            rw [lang_take_succ parts hm q hq] at hl
            have hvq := hl.valid hm
            refine ⟨q, mn parts q, hvq, ?_⟩
            unfold contrib
            rw [Bool.and_eq_true]
            refine ⟨(hS.1 q _ hvq).mpr ⟨x, y', h1, hx, hl⟩, ?_⟩
            rw [Bool.or_eq_true]
            right
            rw [Bool.and_eq_true, Bool.and_eq_true, Bool.and_eq_true, decide_eq_true_eq, decide_eq_true_eq,
              decide_eq_true_eq]
            exact ⟨⟨⟨rfl, hv'.1⟩, by rw [hcm _ hv'.1]; exact hmem⟩, rfl⟩
        · left
          have hvc := hc.valid hm
          refine ⟨p', c, hvc, ?_⟩
          unfold contrib
          rw [Bool.and_eq_true]
          refine ⟨(hS.1 p' c hvc).mpr ⟨x, y', h1, hx, hc⟩, ?_⟩
          rw [Bool.or_eq_true]
          left
          rw [Bool.and_eq_true, decide_eq_true_eq]
          exact ⟨by rw [hcm _ hv'.1]; exact hmem, rfl⟩
  · intro j hj
    rw [delta_testBit] at hj
    rcases hj with ⟨p, c, hv, hcon⟩ | ⟨_, _, hj⟩
    · unfold contrib at hcon
      rw [Bool.and_eq_true, Bool.or_eq_true] at hcon
      rcases hcon.2 with halt | halt
      · rw [Bool.and_eq_true, decide_eq_true_eq] at halt
        exact ⟨p, _, ⟨hv.1, by have := hv.2.1; have := hv.2.2; omega, by omega⟩, halt.2⟩
      · simp only [Bool.and_eq_true, decide_eq_true_eq] at halt
        exact ⟨p + 1, 1, ⟨halt.1.1.2, Nat.le_refl _, mn_pos parts hm _ halt.1.1.2⟩, halt.2⟩
    · exact ⟨0, 1, hv01, hj⟩

/-- anchored automaton: once no configuration is alive (after a non-empty word), none ever is again -/
theorem cfg_dead_step (parts : List CharClassPart) (hm : MinPos parts) (w : List Nat) (hw : w ≠ [])
    (hdead : ∀ p c, ¬ Cfg parts p c w) (b : Nat) : ∀ p c, ¬ Cfg parts p c (w ++ [b]) := by
  intro p c hc
  have hp := hc.1
  rw [cfg_snoc parts hm p c _ b hp] at hc
  rcases hc.2 with ⟨_, hl⟩ | ⟨c', hc', _⟩
  · cases p with
    | zero =>
      rw [lang_take_zero] at hl
      exact hw hl
    | succ q =>
      rw [lang_take_succ parts hm q (by omega)] at hl
      exact hdead _ _ hl
  · exact hdead _ _ hc'

theorem cfg_dead_forever (parts : List CharClassPart) (hm : MinPos parts) : ∀ (v w : List Nat), w ≠ [] →
    (∀ p c, ¬ Cfg parts p c w) → ∀ p c, ¬ Cfg parts p c (w ++ v) := by
  intro v
  induction v with
  | nil => intro w _ hdead p c; rw [List.append_nil]; exact hdead p c
  | cons b v ih =>
    intro w hw hdead p c
    rw [show w ++ b :: v = (w ++ [b]) ++ v by simp]
    exact ih (w ++ [b]) (by simp) (cfg_dead_step parts hm w hw hdead b) p c

/-- acceptance: the last part has met its minimum -/
theorem lang_iff_cfg_last (parts : List CharClassPart) (hm : MinPos parts) (hne : 0 < parts.length) (w : List Nat) :
    Lang parts w ↔ Cfg parts (parts.length - 1) (mn parts (parts.length - 1)) w := by
  rw [← lang_take_succ parts hm (parts.length - 1) (by omega), show parts.length - 1 + 1 = parts.length by omega,
    List.take_length]

end Cx.CompDfa
