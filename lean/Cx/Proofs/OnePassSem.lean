import Cx.Proofs.OnePassLook
/-
  Cx.Proofs.OnePassSem — the one-pass DFA against the reference.
   * `scan_sim`     the reference DFS from the root of a closure, at offset `p`, is a left-to-right scan of the closure
                    list (which is the DFS preorder): an entry behind an end look is skipped unless `p = len`, a match
                    entry answers, a byte entry hands over to the reference at `p+1`;
   * `scan_formula` on a closure whose transition map exists (one `(target, slots, matchWins)` per byte class), the
                    scan collapses to: the transition's target first when it has priority over the match, else the match;
   * `orun_eq_ref`  the run over NFA roots computes exactly that;
   * `onepass_eq_btCaps`  `search T h n = btCapsAnchored N h 0 n` for every table that `buildFor` produces.
-/
namespace Cx.Caps.OnePass
open Cx Cx.Nfa
open Cx.Pike (isMatchState)

abbrev ctx (N : NFA) (h : Bytes) : BTCtx := { N := N, h := h, spanStart := 0 }

/-! ### `refTry` -/

theorem refTry_nil (c : BTCtx) : refTry c [] = none := rfl

theorem refTry_cons (c : BTCtx) (x : Nat × Nat × Slots) (L : List (Nat × Nat × Slots)) :
    refTry c (x :: L) = (refFind c x.1 x.2.1 x.2.2).or (refTry c L) := by
  unfold refTry
  rw [List.findSome?_cons]
  cases refFind c x.1 x.2.1 x.2.2 <;> rfl

theorem refTry_append (c : BTCtx) (L1 L2 : List (Nat × Nat × Slots)) :
    refTry c (L1 ++ L2) = (refTry c L1).or (refTry c L2) := by
  induction L1 with
  | nil => simp [refTry_nil]
  | cons x L1 ih => rw [List.cons_append, refTry_cons, refTry_cons, ih, Option.or_assoc]

theorem findSome?_cons_or {α β : Type} (f : α → Option β) (a : α) (l : List α) :
    (a :: l).findSome? f = (f a).or (l.findSome? f) := by
  rw [List.findSome?_cons]
  cases f a <;> rfl

/-! ### the scan of a closure at offset `p` -/

/-- the entry can be on a path of the reference at offset `p`: it is not behind an end look, or the input is consumed -/
def actE (h : Bytes) (p : Nat) (e : Entry) : Bool := !e.atEnd || decide (p = h.size)

/-- the configuration of the reference that a closure entry stands for -/
def cfgOf (p : Nat) (slroot : Slots) (e : Entry) : Nat × Nat × Slots := (p, e.nfaID, applyMask e.slots p slroot)

/-- what the scan gets from one closure entry -/
def entryRes (N : NFA) (h : Bytes) (p : Nat) (slroot : Slots) (e : Entry) : Option (Nat × Slots) :=
  if actE h p e then
    if isMatchState N e.nfaID then some (p, applyMask e.slots p slroot)
    else if consuming (N.get e.nfaID) then refTry (ctx N h) (nexts (ctx N h) p e.nfaID (applyMask e.slots p slroot))
    else none
  else none

/-- the looks the guard lets through, at the offsets where they can be met -/
def LookC (p : Nat) (k : Look) : Prop := k = .endText ∨ ((k = .startText ∨ k = .startLine) ∧ p = 0)

structure GoodE (N : NFA) (h : Bytes) (p : Nat) (q : Nat) : Prop where
  lt : q < N.states.size
  acyc : ∀ sl, ∀ x ∈ nexts (ctx N h) p q sl, ¬ Steps N h (x.2.1, x.1) (q, p)
  look : ∀ k nx, N.get q = .look k nx → LookC p k

theorem actE_same (h : Bytes) (p : Nat) (e : Entry) (q m : Nat) : actE h p ⟨q, m, e.atEnd⟩ = actE h p e := rfl

theorem children_inactive {N : NFA} {h : Bytes} {p : Nat} {e : Entry} (ha : actE h p e = false) :
    ∀ x ∈ children N e, actE h p x = false := by
  have hat : e.atEnd = true ∧ decide (p = h.size) = false := by
    unfold actE at ha
    cases h1 : e.atEnd <;> cases h2 : decide (p = h.size) <;> simp [h1, h2] at ha ⊢
  intro x hx
  unfold children at hx
  cases hk : N.get e.nfaID <;> simp only [hk] at hx
  case split =>
    simp only [List.mem_cons, List.not_mem_nil, or_false] at hx
    rcases hx with rfl | rfl <;> exact ha
  case eps =>
    simp only [List.mem_cons, List.not_mem_nil, or_false] at hx
    subst hx; exact ha
  case cap =>
    simp only [List.mem_cons, List.not_mem_nil, or_false] at hx
    subst hx; exact ha
  case look =>
    split at hx
    · simp at hx
    · simp only [List.mem_cons, List.not_mem_nil, or_false] at hx
      subst hx
      simp [actE, hat.1, hat.2]
  all_goals simp at hx

theorem filter_all_false {α : Type} (f : α → Bool) (l : List α) (hl : ∀ x ∈ l, f x = false) : l.filter f = [] := by
  induction l with
  | nil => rfl
  | cons a l ih =>
    rw [List.filter_cons, hl a List.mem_cons_self]
    exact ih (fun x hx => hl x (List.mem_cons_of_mem _ hx))

theorem isMatchState_mtch {N : NFA} {q : Nat} (hk : N.get q = .mtch) : isMatchState N q = true :=
  (Pike.isMatchState_iff N q).mpr hk

/-- the successors of a non-terminal closure entry in the reference are its active children -/
theorem nexts_children {N : NFA} {h : Bytes} {p : Nat} {slroot : Slots} (hsz : N.states.size ≤ invalidState)
    (hlen : slroot.length ≤ 32) (e : Entry) (hact : actE h p e = true) (hnm : isMatchState N e.nfaID = false)
    (hnc : consuming (N.get e.nfaID) = false) (hlook : ∀ k nx, N.get e.nfaID = .look k nx → LookC p k) :
    refTry (ctx N h) (nexts (ctx N h) p e.nfaID (applyMask e.slots p slroot)) =
      refTry (ctx N h) (((children N e).filter (actE h p)).map (cfgOf p slroot)) := by
  unfold nexts children
  cases hk : N.get e.nfaID <;> simp only [hk]
  case mtch => rw [isMatchState_mtch hk] at hnm; cases hnm
  case byteRange => rw [hk] at hnc; cases hnc
  case sparse => rw [hk] at hnc; cases hnc
  case runeAny => rw [hk] at hnc; cases hnc
  case runeAnyNotNL => rw [hk] at hnc; cases hnc
  case fail => rfl
  case split l r =>
    simp only [List.filter_cons, actE_same, hact, ↓reduceIte, List.filter_nil, List.map_cons, List.map_nil, cfgOf]
  case eps nx =>
    simp only [List.filter_cons, actE_same, hact, ↓reduceIte, List.filter_nil, List.map_cons, List.map_nil, cfgOf]
  case cap idx st nx =>
    simp only [List.filter_cons, actE_same, hact, ↓reduceIte, List.filter_nil, List.map_cons, List.map_nil, cfgOf]
    rw [applyMask_setBit _ _ _ _ hlen]
  case look k nx =>
    have hc := hlook k nx hk
    by_cases hi : nx = invalidState
    · simp only [hi, ↓reduceIte, List.filter_nil, List.map_nil]
      split
      · rw [refTry_cons, refTry_nil, refFind_oob _ _ _ _ (by simpa using hsz)]
        rfl
      · rfl
    · simp only [hi, ↓reduceIte, List.filter_cons]
      have hae : (!e.atEnd || decide (p = h.size)) = true := hact
      rcases hc with rfl | ⟨hk', rfl⟩
      · -- `\z`
        simp only [lookOK, actE, isEndLook, Bool.or_true, Bool.not_true, Bool.false_or]
        by_cases hpe : p = h.size
        · simp [hpe, cfgOf]
        · simp [hpe]
      · have hl : lookOK k h 0 = true := by rcases hk' with rfl | rfl <;> simp [lookOK]
        have hne : isEndLook k = false := by rcases hk' with rfl | rfl <;> rfl
        simp only [hl, ↓reduceIte, actE, hne, Bool.or_false]
        rw [show (!e.atEnd || decide (0 = h.size)) = true from hae]
        simp [cfgOf]

theorem scan_sim {N : NFA} {h : Bytes} {p : Nat} {slroot : Slots} (hsz : N.states.size ≤ invalidState)
    (hlen : slroot.length ≤ 32) (hp : p ≤ h.size) :
    ∀ (fuel : Nat) (s s' : ClS), closureLoop N fuel s = some s' → CInv N (fun _ => True) s →
      (∀ e ∈ s'.closure, GoodE N h p e.nfaID) →
      ∃ t, s'.closure = s.closure ++ t ∧
        refTry (ctx N h) ((s.stack.filter (actE h p)).map (cfgOf p slroot)) =
          t.findSome? (fun ce => entryRes N h p slroot ce.base) := by
  have hS : ∀ q, q < N.states.size → (fun _ : Nat => True) q → ∀ x ∈ succStates (N.get q), (fun _ : Nat => True) x :=
    fun _ _ _ _ _ => trivial
  intro fuel
  induction fuel with
  | zero =>
    intro s s' hl inv hgood
    cases hst : s.stack with
    | nil =>
      rw [closureLoop_nil N 0 s hst] at hl
      simp only [Option.some.injEq] at hl
      subst hl
      exact ⟨[], by simp, by simp [refTry_nil]⟩
    | cons e st => rw [closureLoop_zero_cons N s e st hst] at hl; cases hl
  | succ fuel ih =>
    intro s s' hl inv hgood
    cases hst : s.stack with
    | nil =>
      rw [closureLoop_nil N _ s hst] at hl
      simp only [Option.some.injEq] at hl
      subst hl
      exact ⟨[], by simp, by simp [refTry_nil]⟩
    | cons e st =>
      rw [closureLoop_succ N fuel s e st hst] at hl
      cases h1 : stepCl N s e st with
      | none => rw [h1] at hl; cases hl
      | some s1 =>
        rw [h1] at hl
        simp only [Option.bind_some] at hl
        have helt : e.nfaID < N.states.size := inv.rngS e (by rw [hst]; exact List.mem_cons_self)
        obtain ⟨t1, ht1, hr1⟩ := ih s1 s' hl (cinv_step hS hst inv h1) hgood
        obtain ⟨hcl, hnr, hcase⟩ := stepCl_spec h1 helt
        rw [hcl, List.append_assoc] at ht1
        refine ⟨[mkC s e] ++ t1, ht1, ?_⟩
        have hg : GoodE N h p e.nfaID := hgood (mkC s e) (by rw [ht1]; simp)
        rw [List.singleton_append, findSome?_cons_or]
        have hbase : (mkC s e).base = e := rfl
        rw [hbase, ← hr1]
        by_cases hact : actE h p e = true
        · -- the entry is explored by the reference
          rw [List.filter_cons, if_pos hact, List.map_cons, refTry_cons]
          have hU := refFind_unfold (ctx N h) (applyMask e.slots p slroot) hg.lt (Nat.zero_le _) hp (hg.acyc _)
          simp only [cfgOf]
          rw [hU]
          rcases hcase with ⟨hk, _, hs1, _⟩ | ⟨hk, r⟩
          · have hm := isMatchState_mtch hk
            simp only [entryRes, hact, hm, ↓reduceIte, Option.some_or]
          · have hnm : isMatchState N e.nfaID = false := by
              cases hh : isMatchState N e.nfaID with
              | false => rfl
              | true => exact absurd ((Pike.isMatchState_iff N e.nfaID).mp hh) hk
            have hstk : s1.stack = children N e ++ st := by
              have := r.stack
              simp only [List.reverse_reverse, popped] at this
              exact this
            simp only [entryRes, hact, hnm, ↓reduceIte, Bool.false_eq_true]
            by_cases hc : consuming (N.get e.nfaID) = true
            · have hch : children N e = [] := by
                unfold children
                cases hk' : N.get e.nfaID <;> simp only [hk'] at hc ⊢ <;> first | rfl | cases hc
              rw [hstk, hch, List.nil_append]
              simp only [hc, ↓reduceIte]
            · have hc' : consuming (N.get e.nfaID) = false := by simpa using hc
              rw [nexts_children hsz hlen e hact hnm hc' hg.look, hstk, List.filter_append, List.map_append,
                refTry_append]
              simp only [hc', Bool.false_eq_true, ↓reduceIte, Option.none_or]
        · -- the entry lies behind an end look and the input is not consumed
          have hact' : actE h p e = false := by simpa using hact
          rw [List.filter_cons, if_neg hact]
          have hres : entryRes N h p slroot e = none := by simp only [entryRes, hact', Bool.false_eq_true, ↓reduceIte]
          rw [hres, Option.none_or]
          rcases hcase with ⟨_, _, hs1, _⟩ | ⟨_, r⟩
          · rw [hs1]
          · have hstk : s1.stack = children N e ++ st := by
              have := r.stack
              simp only [List.reverse_reverse, popped] at this
              exact this
            rw [hstk, List.filter_append, filter_all_false _ _ (children_inactive hact'), List.nil_append]

/-! ### no closure entry is its own epsilon-descendant -/

theorem step_same {N : NFA} {h : Bytes} {q q' p : Nat} (hs : Step N h (q, p) (q', p)) :
    q' ∈ childIds N q ∨ q' = invalidState := by
  have hi := step_inv hs
  unfold childIds
  cases hk : N.get q <;> simp only [hk] at hi ⊢
  case byteRange => omega
  case sparse => omega
  case split => rcases hi.1 with rfl | rfl <;> simp
  case eps => simp [hi.1]
  case cap => simp [hi.1]
  case look k nx =>
    by_cases hn : nx = invalidState
    · right; rw [hi.2.1, hn]
    · left; simp [hn, hi.2.1]
  case runeAny => omega
  case runeAnyNotNL => omega
  all_goals exact hi.elim

theorem no_steps_from_oob {N : NFA} {h : Bytes} {q p : Nat} {b : Nat × Nat} (hq : N.states.size ≤ q)
    (hs : Steps N h (q, p) b) : b = (q, p) := by
  rcases Pike.steps_cases hs with h1 | ⟨⟨q', p'⟩, st, _⟩
  · exact h1.symm
  · have := step_inv st
    simp only [get_oob N hq] at this

theorem rank_chain {N : NFA} {h : Bytes} {p : Nat} (hsz : N.states.size ≤ invalidState) (hp : p ≤ h.size)
    {ids : List Nat} (hord : ∀ q ∈ ids, ∀ x ∈ childIds N q, x ∈ ids ∧ rank q ids < rank x ids) :
    ∀ a b : Nat × Nat, Steps N h a b → a.2 = p → b.2 = p → a.1 ∈ ids → b.1 < N.states.size →
      rank a.1 ids ≤ rank b.1 ids := by
  intro a b hs
  induction hs with
  | refl x => intro _ _ _ _; exact Nat.le_refl _
  | @cons x y z st rest ih =>
    intro hx hz hmem hzl
    obtain ⟨qa, pa⟩ := x
    obtain ⟨qy, py⟩ := y
    simp only at hx hmem
    subst hx
    have h1 := step_pos_le st hp
    have h2 := steps_pos_le rest h1.2
    simp only at h2
    have hpy : py = pa := by omega
    subst hpy
    rcases step_same st with hc | hc
    · obtain ⟨m1, m2⟩ := hord qa hmem qy hc
      have := ih rfl hz m1 hzl
      simp only at this ⊢
      omega
    · exfalso
      have := no_steps_from_oob (by omega : N.states.size ≤ qy) rest
      rw [this] at hzl
      simp only at hzl
      omega

theorem goodE_of_closure {N : NFA} {h : Bytes} {p : Nat} {S : Nat → Prop} {root : Nat} {c : Closure}
    (hsz : N.states.size ≤ invalidState) (hp : p ≤ h.size) (ok : ClosureOK N S root c)
    (hlk : ∀ e ∈ c.entries, ∀ k nx, N.get e.nfaID = .look k nx → LookC p k) :
    ∀ e ∈ c.entries, GoodE N h p e.nfaID := by
  intro e he
  have hids : e.nfaID ∈ c.entries.map (·.nfaID) := List.mem_map.mpr ⟨e, he, rfl⟩
  have hord : ∀ q ∈ c.entries.map (·.nfaID), ∀ x ∈ childIds N q,
      x ∈ c.entries.map (·.nfaID) ∧ rank q (c.entries.map (·.nfaID)) < rank x (c.entries.map (·.nfaID)) := by
    intro q hq x hx
    obtain ⟨e', he', rfl⟩ := List.mem_map.mp hq
    exact ok.ord e' he' x hx
  refine ⟨ok.rng e he, ?_, hlk e he⟩
  intro sl x hx hs
  have hst : Step N h (e.nfaID, p) (x.2.1, x.1) := (nexts_step hx).1
  have h1 := step_pos_le hst hp
  have h2 := steps_pos_le hs h1.2
  simp only at h2
  have hxp : x.1 = p := by omega
  rw [hxp] at hst hs
  rcases step_same hst with hc | hc
  · obtain ⟨m1, m2⟩ := ok.ord e he _ hc
    have := rank_chain hsz hp hord _ _ hs rfl rfl m1 (ok.rng e he)
    simp only at this
    omega
  · have := no_steps_from_oob (by omega : N.states.size ≤ x.2.1) hs
    have hq : e.nfaID = x.2.1 := by
      have := congrArg Prod.fst this
      simpa using this
    have := ok.rng e he
    omega

/-! ### the per-class transition map -/

/-- entries are only ever added -/
def BtMono (a b : BT) : Prop := ∀ cl v, a.getD cl none = some v → b.getD cl none = some v

theorem BtMono.refl (a : BT) : BtMono a a := fun _ _ h => h
theorem BtMono.trans {a b c : BT} (h1 : BtMono a b) (h2 : BtMono b c) : BtMono a c :=
  fun cl v h => h2 cl v (h1 cl v h)

/-- a fold that only adds entries: every element leaves its mark `Q`, every entry has an origin `Orig` -/
theorem fold_spec {α : Type} (f : Option BT → α → Option BT) (Q : α → BT → Prop) (Orig : α → Nat → Info → Prop)
    (hnone : ∀ x, f none x = none)
    (hup : ∀ x b b', Q x b → BtMono b b' → Q x b')
    (hstep : ∀ bt x bt', bt.size = 256 → f (some bt) x = some bt' →
      BtMono bt bt' ∧ bt'.size = 256 ∧ Q x bt' ∧
        ∀ cl info, bt'.getD cl none = some info → bt.getD cl none = some info ∨ Orig x cl info) :
    ∀ (L : List α) (bt bt' : BT), bt.size = 256 → L.foldl f (some bt) = some bt' →
      BtMono bt bt' ∧ bt'.size = 256 ∧ (∀ x ∈ L, Q x bt') ∧
        ∀ cl info, bt'.getD cl none = some info → bt.getD cl none = some info ∨ ∃ x ∈ L, Orig x cl info := by
  intro L
  induction L with
  | nil =>
    intro bt bt' hsz h
    simp only [List.foldl_nil, Option.some.injEq] at h
    subst h
    exact ⟨BtMono.refl _, hsz, fun x hx => by simp at hx, fun cl info hi => Or.inl hi⟩
  | cons x L ih =>
    intro bt bt' hsz h
    simp only [List.foldl_cons] at h
    cases h1 : f (some bt) x with
    | none =>
      rw [h1] at h
      have : ∀ (L : List α), L.foldl f none = none := by
        intro L; induction L with
        | nil => rfl
        | cons y L ih2 => simp only [List.foldl_cons, hnone]; exact ih2
      rw [this] at h; cases h
    | some b1 =>
      rw [h1] at h
      obtain ⟨a1, a2, a3, a4⟩ := hstep bt x b1 hsz h1
      obtain ⟨c1, c2, c3, c4⟩ := ih b1 bt' a2 h
      refine ⟨a1.trans c1, c2, ?_, ?_⟩
      · intro y hy
        rcases List.mem_cons.mp hy with rfl | h2
        · exact hup _ _ _ a3 c1
        · exact c3 y h2
      · intro cl info hi
        rcases c4 cl info hi with h2 | ⟨y, hy, ho⟩
        · rcases a4 cl info h2 with h3 | h3
          · exact Or.inl h3
          · exact Or.inr ⟨x, List.mem_cons_self, h3⟩
        · exact Or.inr ⟨y, List.mem_cons_of_mem _ hy, ho⟩

def ClsLt (cls : Array Nat) : Prop := ∀ b, cls.getD b 0 < 256

theorem addByte_spec {cls : Array Nat} {info : Info} {byte : Nat} {bt bt' : BT} (hsz : bt.size = 256)
    (hcl : cls.getD byte 0 < 256) (h : addByte cls info (some bt) byte = some bt') :
    BtMono bt bt' ∧ bt'.size = 256 ∧ bt'.getD (cls.getD byte 0) none = some info ∧
      ∀ cl i, bt'.getD cl none = some i → bt.getD cl none = some i ∨ (cl = cls.getD byte 0 ∧ i = info) := by
  unfold addByte at h
  simp only at h
  generalize cls.getD byte 0 = k at hcl h ⊢
  have hset : ∀ (hh : bt.setIfInBounds k (some info) = bt'),
      (∀ cl v, bt.getD cl none = some v → cl ≠ k ∨ v = info) →
      BtMono bt bt' ∧ bt'.size = 256 ∧ bt'.getD k none = some info ∧
      ∀ cl i, bt'.getD cl none = some i → bt.getD cl none = some i ∨ (cl = k ∧ i = info) := by
    intro hh hold
    subst hh
    refine ⟨?_, by simpa using hsz, getD_set_self' _ _ _ _ (by omega), ?_⟩
    · intro cl v hv
      by_cases hck : k = cl
      · subst hck
        rcases hold k v hv with h1 | h1
        · exact absurd rfl h1
        · rw [getD_set_self' _ _ _ _ (by omega), h1]
      · rw [getD_set_other' _ _ _ _ _ hck]; exact hv
    · intro cl i hi
      by_cases hck : k = cl
      · subst hck
        rw [getD_set_self' _ _ _ _ (by omega)] at hi
        simp only [Option.some.injEq] at hi
        exact Or.inr ⟨rfl, hi.symm⟩
      · rw [getD_set_other' _ _ _ _ _ hck] at hi
        exact Or.inl hi
  cases hg : bt.getD k none with
  | some ex =>
    rw [hg] at h
    simp only at h
    split at h
    · cases h
    · rename_i hne
      have hex : ex = info := by
        apply Classical.byContradiction; intro hc; exact hne hc
      simp only [Option.some.injEq] at h
      apply hset h
      intro cl v hv
      by_cases hck : cl = k
      · subst hck
        rw [hg] at hv
        simp only [Option.some.injEq] at hv
        exact Or.inr (hv ▸ hex)
      · exact Or.inl hck
  | none =>
    rw [hg] at h
    simp only [Option.some.injEq] at h
    apply hset h
    intro cl v hv
    by_cases hck : cl = k
    · subst hck; rw [hg] at hv; cases hv
    · exact Or.inl hck

theorem addByte_none (cls : Array Nat) (info : Info) (b : Nat) : addByte cls info none b = none := rfl

theorem addRange_none (cls : Array Nat) (lo hi : Nat) (info : Info) : addRange cls lo hi info none = none := by
  unfold addRange
  have : ∀ (L : List Nat), L.foldl (addByte cls info) none = none := by
    intro L; induction L with
    | nil => rfl
    | cons y L ih => simp only [List.foldl_cons, addByte_none]; exact ih
  exact this _

theorem addRange_spec {cls : Array Nat} (hc : ClsLt cls) (lo hi : Nat) (info : Info) (bt bt' : BT)
    (hsz : bt.size = 256) (h : addRange cls lo hi info (some bt) = some bt') :
    BtMono bt bt' ∧ bt'.size = 256 ∧
    (∀ b, lo ≤ b → b ≤ hi → b < 256 → bt'.getD (cls.getD b 0) none = some info) ∧
    ∀ cl i, bt'.getD cl none = some i → bt.getD cl none = some i ∨
      (i = info ∧ ∃ b, lo ≤ b ∧ b ≤ hi ∧ b < 256 ∧ cls.getD b 0 = cl) := by
  unfold addRange at h
  obtain ⟨a1, a2, a3, a4⟩ := fold_spec (addByte cls info)
    (fun b t => t.getD (cls.getD b 0) none = some info) (fun b cl i => cl = cls.getD b 0 ∧ i = info)
    (fun x => rfl) (fun x b b' hq hm => hm _ _ hq)
    (fun t x t' hs hh => addByte_spec hs (hc x) hh) _ bt bt' hsz h
  refine ⟨a1, a2, ?_, ?_⟩
  · intro b h1 h2 h3
    apply a3
    simp only [List.mem_filter, List.mem_map, List.mem_range, decide_eq_true_eq]
    exact ⟨⟨b - lo, by omega, by omega⟩, h3⟩
  · intro cl i hi
    rcases a4 cl i hi with h1 | ⟨b, hb, h2, h3⟩
    · exact Or.inl h1
    · simp only [List.mem_filter, List.mem_map, List.mem_range, decide_eq_true_eq] at hb
      obtain ⟨⟨k, hk, rfl⟩, hb2⟩ := hb
      exact Or.inr ⟨h3, k + lo, by omega, by omega, hb2, h2.symm⟩

/-- byte `b` leaves state `q` towards `nx` -/
def Contrib (N : NFA) (q b nx : Nat) : Prop :=
  (∃ lo hi, N.get q = .byteRange lo hi nx ∧ lo ≤ b ∧ b ≤ hi) ∨
  (∃ ts lo hi, N.get q = .sparse ts ∧ (lo, hi, nx) ∈ ts ∧ lo ≤ b ∧ b ≤ hi)

theorem stepEntry_none (N : NFA) (cls : Array Nat) (e : CEntry) : stepEntry N cls none e = none := by
  unfold stepEntry
  split
  · rfl
  · split
    · exact addRange_none ..
    · rename_i ts _
      have : ∀ (L : List (Nat × Nat × Nat)),
          L.foldl (fun bt t => addRange cls t.1 t.2.1 (t.2.2, e.slots, e.matchWins) bt) none = none := by
        intro L; induction L with
        | nil => rfl
        | cons y L ih => simp only [List.foldl_cons, addRange_none]; exact ih
      exact this ts
    · rfl

theorem stepEntry_spec {N : NFA} {cls : Array Nat} (hc : ClsLt cls) (bt : BT) (e : CEntry) (b1 : BT) (hsz : bt.size = 256)
    (hh : stepEntry N cls (some bt) e = some b1) :
    BtMono bt b1 ∧ b1.size = 256 ∧
    (e.atEnd = false → ∀ b nx, b < 256 → Contrib N e.nfaID b nx →
      b1.getD (cls.getD b 0) none = some (nx, e.slots, e.matchWins)) ∧
    ∀ cl i, b1.getD cl none = some i → bt.getD cl none = some i ∨
      (e.atEnd = false ∧ ∃ b nx, b < 256 ∧ cls.getD b 0 = cl ∧ Contrib N e.nfaID b nx ∧ i = (nx, e.slots, e.matchWins)) := by
  unfold stepEntry at hh
  have hsame : b1 = bt → BtMono bt b1 ∧ b1.size = 256 ∧
      ((e.atEnd = false ∧ ∀ b nx, ¬ Contrib N e.nfaID b nx) ∨ e.atEnd = true →
        (e.atEnd = false → ∀ b nx, b < 256 → Contrib N e.nfaID b nx →
          b1.getD (cls.getD b 0) none = some (nx, e.slots, e.matchWins))) ∧
      ∀ cl i, b1.getD cl none = some i → bt.getD cl none = some i ∨
        (e.atEnd = false ∧ ∃ b nx, b < 256 ∧ cls.getD b 0 = cl ∧ Contrib N e.nfaID b nx ∧ i = (nx, e.slots, e.matchWins)) := by
    intro he
    subst he
    refine ⟨BtMono.refl _, hsz, ?_, fun cl i hi => Or.inl hi⟩
    intro hcase hae b nx _ hcn
    rcases hcase with ⟨_, h2⟩ | h2
    · exact absurd hcn (h2 b nx)
    · rw [hae] at h2; cases h2
  split at hh
  · rename_i hae
    simp only [Option.some.injEq] at hh
    obtain ⟨a1, a2, a3, a4⟩ := hsame hh.symm
    exact ⟨a1, a2, a3 (Or.inr hae), a4⟩
  · rename_i hae
    have hae' : e.atEnd = false := by simpa using hae
    cases hk : N.get e.nfaID <;> simp only [hk] at hh
    case byteRange lo hi nx =>
      obtain ⟨b1', b2, b3, b4⟩ := addRange_spec hc lo hi _ bt b1 hsz hh
      refine ⟨b1', b2, ?_, ?_⟩
      · intro _ b nx' hb hcn
        rcases hcn with ⟨lo', hi', h1, h2, h3⟩ | ⟨ts, lo', hi', h1, _⟩
        · rw [hk] at h1
          simp only [NState.byteRange.injEq] at h1
          obtain ⟨rfl, rfl, rfl⟩ := h1
          exact b3 b h2 h3 hb
        · rw [hk] at h1; cases h1
      · intro cl i hi'
        rcases b4 cl i hi' with h1 | ⟨h1, b, h2, h3, h4, h5⟩
        · exact Or.inl h1
        · exact Or.inr ⟨hae', b, nx, h4, h5, Or.inl ⟨lo, hi, hk, h2, h3⟩, h1⟩
    case sparse ts =>
      obtain ⟨b1', b2, b3, b4⟩ := fold_spec
        (fun bt (t : Nat × Nat × Nat) => addRange cls t.1 t.2.1 (t.2.2, e.slots, e.matchWins) bt)
        (fun t b => ∀ bb, t.1 ≤ bb → bb ≤ t.2.1 → bb < 256 → b.getD (cls.getD bb 0) none = some (t.2.2, e.slots, e.matchWins))
        (fun t cl i => i = (t.2.2, e.slots, e.matchWins) ∧ ∃ b, t.1 ≤ b ∧ b ≤ t.2.1 ∧ b < 256 ∧ cls.getD b 0 = cl)
        (fun t => addRange_none ..)
        (fun x b b' hq hm bb h1 h2 h3 => hm _ _ (hq bb h1 h2 h3))
        (fun b t b' hs hh' => addRange_spec hc t.1 t.2.1 _ b b' hs hh') ts bt b1 hsz hh
      refine ⟨b1', b2, ?_, ?_⟩
      · intro _ b nx' hb hcn
        rcases hcn with ⟨lo', hi', h1, _⟩ | ⟨ts', lo', hi', h1, h2, h3, h4⟩
        · rw [hk] at h1; cases h1
        · rw [hk] at h1
          simp only [NState.sparse.injEq] at h1
          subst h1
          exact b3 (lo', hi', nx') h2 b h3 h4 hb
      · intro cl i hi'
        rcases b4 cl i hi' with h1 | ⟨t, ht, h1, b, h2, h3, h4, h5⟩
        · exact Or.inl h1
        · exact Or.inr ⟨hae', b, t.2.2, h4, h5, Or.inr ⟨ts, t.1, t.2.1, hk, ht, h2, h3⟩, h1⟩
    all_goals
      simp only [Option.some.injEq] at hh
      obtain ⟨a1, a2, a3, a4⟩ := hsame hh.symm
      refine ⟨a1, a2, a3 (Or.inl ⟨hae', ?_⟩), a4⟩
      intro b nx hcn
      rcases hcn with ⟨lo', hi', h1, _⟩ | ⟨ts', lo', hi', h1, _⟩
      · rw [hk] at h1; cases h1
      · rw [hk] at h1; cases h1

theorem byteTrans_spec {N : NFA} {cls : Array Nat} (hc : ClsLt cls) (c : List CEntry) (bt' : BT)
    (h : byteTrans N cls c = some bt') :
    (∀ e ∈ c, e.atEnd = false → ∀ b nx, b < 256 → Contrib N e.nfaID b nx →
      bt'.getD (cls.getD b 0) none = some (nx, e.slots, e.matchWins)) ∧
    ∀ cl i, bt'.getD cl none = some i →
      ∃ e ∈ c, e.atEnd = false ∧ ∃ b nx, b < 256 ∧ cls.getD b 0 = cl ∧ Contrib N e.nfaID b nx ∧
        i = (nx, e.slots, e.matchWins) := by
  unfold byteTrans at h
  obtain ⟨_, _, a3, a4⟩ := fold_spec (stepEntry N cls)
    (fun e b => e.atEnd = false → ∀ bb nx, bb < 256 → Contrib N e.nfaID bb nx →
      b.getD (cls.getD bb 0) none = some (nx, e.slots, e.matchWins))
    (fun e cl i => e.atEnd = false ∧ ∃ b nx, b < 256 ∧ cls.getD b 0 = cl ∧ Contrib N e.nfaID b nx ∧
      i = (nx, e.slots, e.matchWins))
    (stepEntry_none N cls) (fun x b b' hq hm hae bb nx hb hcn => hm _ _ (hq hae bb nx hb hcn))
    (fun bt e b1 hs hh => stepEntry_spec hc bt e b1 hs hh) c (Array.replicate 256 none) bt' (by simp) h
  refine ⟨a3, ?_⟩
  intro cl i hi
  rcases a4 cl i hi with h1 | ⟨e, he, h2⟩
  · simp only [Array.getD_eq_getD_getElem?, Array.getElem?_replicate] at h1
    split at h1 <;> cases h1
  · exact ⟨e, he, h2⟩

/-! ### bytes of one class are not told apart by any range of the automaton -/

theorem no_boundary_between (N : NFA) {a x b : Nat} (h1 : a ≤ x) (h2 : x < b) (hc : classOf N a = classOf N b) :
    isBoundary N x = false := by
  cases hb : isBoundary N x with
  | false => rfl
  | true =>
    have e1 := classOf_mono N h1
    have e2 := classOf_succ N x
    rw [hb] at e2
    simp only [↓reduceIte] at e2
    have e3 := classOf_mono N (show x + 1 ≤ b by omega)
    omega

theorem same_class_range {N : NFA} {b1 b2 lo hi : Nat} (hbd : ∀ b, rangeBoundary lo hi b = true → isBoundary N b = true)
    (hc : classOf N b1 = classOf N b2) (h1 : lo ≤ b1) (h2 : b1 ≤ hi) : lo ≤ b2 ∧ b2 ≤ hi := by
  by_cases hle : b1 ≤ b2
  · refine ⟨by omega, ?_⟩
    apply Classical.byContradiction
    intro hn
    have hnb := no_boundary_between N (show b1 ≤ hi by omega) (show hi < b2 by omega) hc
    have := hbd hi (by simp [rangeBoundary])
    rw [this] at hnb; cases hnb
  · refine ⟨?_, by omega⟩
    apply Classical.byContradiction
    intro hn
    have hnb := no_boundary_between N (show b2 ≤ lo - 1 by omega) (show lo - 1 < b1 by omega) hc.symm
    have := hbd (lo - 1) (by simp [rangeBoundary]; omega)
    rw [this] at hnb; cases hnb

theorem state_mem {N : NFA} {q : Nat} (hq : q < N.states.size) : N.get q ∈ N.states.toList := by
  have : N.get q = N.states[q] := by
    simp [NFA.get, Array.getD_eq_getD_getElem?, Array.getElem?_eq_getElem hq]
  rw [this]
  simp

theorem contrib_class {N : NFA} {q b1 b2 nx : Nat} (hc : Contrib N q b1 nx) (hcl : classOf N b1 = classOf N b2) :
    Contrib N q b2 nx := by
  rcases hc with ⟨lo, hi, hk, h1, h2⟩ | ⟨ts, lo, hi, hk, hm, h1, h2⟩
  · have hq : q < N.states.size := Pike.get_lt_of_ne_fail (by rw [hk]; simp)
    have hbd : ∀ b, rangeBoundary lo hi b = true → isBoundary N b = true := by
      intro b hb
      unfold isBoundary
      rw [List.any_eq_true]
      exact ⟨N.get q, state_mem hq, by rw [hk]; exact hb⟩
    obtain ⟨a1, a2⟩ := same_class_range hbd hcl h1 h2
    exact Or.inl ⟨lo, hi, hk, a1, a2⟩
  · have hq : q < N.states.size := Pike.get_lt_of_ne_fail (by rw [hk]; simp)
    have hbd : ∀ b, rangeBoundary lo hi b = true → isBoundary N b = true := by
      intro b hb
      unfold isBoundary
      rw [List.any_eq_true]
      refine ⟨N.get q, state_mem hq, ?_⟩
      rw [hk]
      simp only [List.any_eq_true]
      exact ⟨(lo, hi, nx), hm, hb⟩
    obtain ⟨a1, a2⟩ := same_class_range hbd hcl h1 h2
    exact Or.inr ⟨ts, lo, hi, hk, hm, a1, a2⟩

theorem clsLt_classTable (N : NFA) : ClsLt (classTable N) := by
  intro b
  have := clsOK_classTable N b
  have := nextPow2_le (alphabetLen N)
  omega

/-! ### the scan on a closure with a transition map -/

/-- the target of the byte move out of state `q` on byte `b` (as the reference takes it) -/
def stepTarget (N : NFA) (q b : Nat) : Option Nat :=
  match N.get q with
  | .byteRange lo hi nx => if lo ≤ b ∧ b ≤ hi then some nx else none
  | .sparse ts => firstTrans b ts
  | _ => none

theorem firstTrans_none {b : Nat} {ts : List (Nat × Nat × Nat)} (hf : firstTrans b ts = none) :
    ∀ lo hi nx, (lo, hi, nx) ∈ ts → ¬ (lo ≤ b ∧ b ≤ hi) := by
  induction ts with
  | nil => intro lo hi nx hm; simp at hm
  | cons a ts ih =>
    obtain ⟨l, hh, n2⟩ := a
    simp only [firstTrans] at hf
    split at hf
    · cases hf
    · rename_i hc
      intro lo hi nx hm
      rcases List.mem_cons.mp hm with h1 | h1
      · simp only [Prod.mk.injEq] at h1
        obtain ⟨rfl, rfl, rfl⟩ := h1
        exact hc
      · exact ih hf lo hi nx h1

theorem stepTarget_some {N : NFA} {q b nx : Nat} (h : stepTarget N q b = some nx) : Contrib N q b nx := by
  unfold stepTarget at h
  cases hk : N.get q <;> simp only [hk] at h
  case byteRange lo hi n2 =>
    split at h
    · rename_i hc
      simp only [Option.some.injEq] at h
      subst h
      exact Or.inl ⟨lo, hi, hk, hc.1, hc.2⟩
    · cases h
  case sparse ts =>
    obtain ⟨lo, hi, h1, h2, h3⟩ := Pike.firstTrans_mem h
    exact Or.inr ⟨ts, lo, hi, hk, h1, h2, h3⟩
  all_goals cases h

theorem stepTarget_none {N : NFA} {q b : Nat} (h : stepTarget N q b = none) : ∀ nx, ¬ Contrib N q b nx := by
  intro nx hc
  unfold stepTarget at h
  rcases hc with ⟨lo, hi, hk, h1, h2⟩ | ⟨ts, lo, hi, hk, hm, h1, h2⟩
  · simp only [hk] at h
    rw [if_pos ⟨h1, h2⟩] at h; cases h
  · simp only [hk] at h
    exact firstTrans_none h lo hi nx hm ⟨h1, h2⟩

/-- the successors of a byte-consuming, non-rune state strictly inside the input -/
theorem nexts_consuming {N : NFA} {h : Bytes} {p : Nat} (hp : p < h.size) {q : Nat}
    (hc : consuming (N.get q) = true) (hnr : isRune (N.get q) = false) (sl : Slots) :
    nexts (ctx N h) p q sl = (match stepTarget N q (h.at p) with | some nx => [(p+1, nx, sl)] | none => []) := by
  unfold nexts stepTarget
  cases hk : N.get q <;> simp only [hk] at hc hnr ⊢
  case byteRange lo hi nx =>
    by_cases hcond : lo ≤ h.at p ∧ h.at p ≤ hi
    · rw [if_pos ⟨hp, hcond⟩, if_pos hcond]
    · rw [if_neg (fun hh => hcond hh.2), if_neg hcond]
  case sparse ts =>
    rw [if_neg (by omega)]
    cases firstTrans (h.at p) ts <;> rfl
  case runeAny => exact absurd hnr (by simp [isRune])
  case runeAnyNotNL => exact absurd hnr (by simp [isRune])
  all_goals cases hc

section ScanList
variable {N : NFA} {h : Bytes} {p : Nat} {slroot : Slots} {bt : BT} {mm : Nat}

def liveE (N : NFA) (e : CEntry) : Bool := isMatchState N e.nfaID && !e.atEnd
def byteE (N : NFA) (b : Nat) (e : CEntry) : Bool := !e.atEnd && (stepTarget N e.nfaID b).isSome

/-- the value of the scan in terms of the transition of the byte's class -/
def scanVal (N : NFA) (h : Bytes) (p : Nat) (slroot : Slots) (mm : Nat) (tr : Option Info) (live hasB : Bool) :
    Option (Nat × Slots) :=
  let M : Option (Nat × Slots) := if live then some (p, applyMask mm p slroot) else none
  match tr with
  | none => M
  | some (tgt, sl, mw) =>
    if mw then M
    else (if hasB then refFind (ctx N h) (p+1) tgt (applyMask sl p slroot) else none).or M

theorem flagsOK_true {N : NFA} : ∀ (t : List CEntry), flagsOK N true t → ∀ e ∈ t, e.matchWins = true := by
  intro t
  induction t with
  | nil => intro _ e he; simp at he
  | cons a t ih =>
    intro hf e he
    simp only [flagsOK, Bool.true_or] at hf
    rcases List.mem_cons.mp he with rfl | h1
    · exact hf.1
    · exact ih hf.2 e h1

theorem flagsOK_mw {N : NFA} : ∀ (t : List CEntry), flagsOK N false t → ∀ e ∈ t, e.matchWins = true →
    t.any (liveE N) = true := by
  intro t
  induction t with
  | nil => intro _ e he; simp at he
  | cons a t ih =>
    intro hf e he hmw
    simp only [flagsOK, Bool.false_or] at hf
    simp only [List.any_cons, Bool.or_eq_true]
    rcases List.mem_cons.mp he with rfl | h1
    · rw [hf.1] at hmw; cases hmw
    · cases hl : liveE N a with
      | true => exact Or.inl rfl
      | false =>
        right
        have : (isMatchState N a.nfaID && !a.atEnd) = false := hl
        rw [this] at hf
        exact ih hf.2 e h1 hmw

theorem entryRes_inside (hp : p < h.size) (e : CEntry) (hnr : isRune (N.get e.nfaID) = false) :
    entryRes N h p slroot e.base =
      if e.atEnd then none
      else if isMatchState N e.nfaID then some (p, applyMask e.slots p slroot)
      else match stepTarget N e.nfaID (h.at p) with
        | some nx => refFind (ctx N h) (p+1) nx (applyMask e.slots p slroot)
        | none => none := by
  have hne : decide (p = h.size) = false := by simp; omega
  unfold entryRes actE CEntry.base
  simp only [hne, Bool.or_false]
  cases hae : e.atEnd
  · simp only [Bool.not_false, ↓reduceIte, Bool.false_eq_true]
    cases hm : isMatchState N e.nfaID
    · simp only [Bool.false_eq_true, ↓reduceIte]
      by_cases hc : consuming (N.get e.nfaID) = true
      · rw [if_pos hc, nexts_consuming hp hc hnr]
        cases stepTarget N e.nfaID (h.at p) with
        | none => rfl
        | some nx => simp only [refTry_cons, refTry_nil, Option.or_none]
      · rw [if_neg hc]
        have : stepTarget N e.nfaID (h.at p) = none := by
          unfold stepTarget
          cases hk : N.get e.nfaID <;> simp only [hk] at hc ⊢ <;> exact absurd rfl hc
        rw [this]
    · simp only [↓reduceIte]
  · simp only [Bool.not_true, Bool.false_eq_true, ↓reduceIte]

theorem or_absorb {α : Type} (R L : Option α) (c : Bool) : R.or ((if c then R else none).or L) = R.or L := by
  cases R with
  | none => cases c <;> simp
  | some r => simp

theorem scan_list (hp : p < h.size) :
    ∀ (t : List CEntry),
      (∀ e ∈ t, e.atEnd = false → ∀ nx, stepTarget N e.nfaID (h.at p) = some nx →
        bt.getD ((classTable N).getD (h.at p) 0) none = some (nx, e.slots, e.matchWins)) →
      flagsOK N false t → (∀ e ∈ t, liveE N e = true → e.slots = mm) →
      (∀ e ∈ t, isRune (N.get e.nfaID) = false) →
      t.findSome? (fun ce => entryRes N h p slroot ce.base) =
        scanVal N h p slroot mm (bt.getD ((classTable N).getD (h.at p) 0) none) (t.any (liveE N))
          (t.any (byteE N (h.at p))) := by
  intro t
  induction t with
  | nil =>
    intro _ _ _ _
    simp only [List.findSome?_nil, List.any_nil, scanVal, Bool.false_eq_true, ↓reduceIte]
    cases bt.getD ((classTable N).getD (h.at p) 0) none with
    | none => rfl
    | some i => obtain ⟨tgt, sl, mw⟩ := i; cases mw <;> rfl
  | cons e t ih =>
    intro hbt hf hmm hnr
    simp only [flagsOK, Bool.false_or] at hf
    obtain ⟨hemw, hft⟩ := hf
    have hnre := hnr e List.mem_cons_self
    rw [findSome?_cons_or, entryRes_inside hp e hnre, List.any_cons, List.any_cons]
    cases hlive : liveE N e with
    | true =>
      -- a match state that counts now: the scan stops here
      have hl2 : isMatchState N e.nfaID = true ∧ e.atEnd = false := by
        unfold liveE at hlive
        simpa using hlive
      have hslots := hmm e List.mem_cons_self hlive
      have hmt : (isMatchState N e.nfaID && !e.atEnd) = true := hlive
      rw [hmt] at hft
      simp only [hl2.1, hl2.2, Bool.false_eq_true, ↓reduceIte, Option.some_or, Bool.true_or, hslots]
      have hst : stepTarget N e.nfaID (h.at p) = none := by
        unfold stepTarget
        rw [(Pike.isMatchState_iff N e.nfaID).mp hl2.1]
      unfold scanVal
      simp only [↓reduceIte]
      cases htr : bt.getD ((classTable N).getD (h.at p) 0) none with
      | none => rfl
      | some i =>
        obtain ⟨tgt, sl, mw⟩ := i
        cases mw with
        | true => rfl
        | false =>
          simp only [Bool.false_eq_true, ↓reduceIte]
          have hnb : (byteE N (h.at p) e || t.any (byteE N (h.at p))) = false := by
            have h1 : byteE N (h.at p) e = false := by simp [byteE, hst]
            rw [h1, Bool.false_or]
            cases hany : t.any (byteE N (h.at p)) with
            | false => rfl
            | true =>
              exfalso
              obtain ⟨e', he', hb'⟩ := List.any_eq_true.mp hany
              have hmw' := flagsOK_true t hft e' he'
              simp only [byteE, Bool.and_eq_true, Bool.not_eq_true', Option.isSome_iff_exists] at hb'
              obtain ⟨ha', nx, hnx⟩ := hb'
              have := hbt e' (List.mem_cons_of_mem _ he') ha' nx hnx
              rw [htr, hmw'] at this
              simp at this
          rw [hnb]
          rfl
    | false =>
      have hmt : (isMatchState N e.nfaID && !e.atEnd) = false := hlive
      rw [hmt] at hft
      have ih' := ih (fun e' he' => hbt e' (List.mem_cons_of_mem _ he')) hft
        (fun e' he' => hmm e' (List.mem_cons_of_mem _ he'))
        (fun e' he' => hnr e' (List.mem_cons_of_mem _ he'))
      rw [ih', Bool.false_or]
      cases hae : e.atEnd with
      | true =>
        have h1 : byteE N (h.at p) e = false := by simp [byteE, hae]
        simp only [↓reduceIte, Option.none_or, h1, Bool.false_or]
      | false =>
        have hnm : isMatchState N e.nfaID = false := by
          rw [hae] at hmt
          simpa using hmt
        simp only [Bool.false_eq_true, ↓reduceIte, hnm]
        cases hst : stepTarget N e.nfaID (h.at p) with
        | none =>
          have h1 : byteE N (h.at p) e = false := by simp [byteE, hst]
          simp only [Option.none_or, h1, Bool.false_or]
        | some nx =>
          have h1 : byteE N (h.at p) e = true := by simp [byteE, hst, hae]
          have htr := hbt e List.mem_cons_self hae nx hst
          rw [hemw] at htr
          simp only [h1, Bool.true_or]
          unfold scanVal
          rw [htr]
          simp only [Bool.false_eq_true, ↓reduceIte]
          exact or_absorb _ _ _

end ScanList

/-! ### the reference at the root of a built closure -/

theorem ref_eq_scan {N : NFA} {h : Bytes} {p : Nat} {slroot : Slots} (hsz : N.states.size ≤ invalidState)
    (hlen : slroot.length ≤ 32) (hp : p ≤ h.size) {root : Nat} {cl : Closure} (hc : epsClosure N root = some cl)
    (hgood : ∀ e ∈ cl.entries, GoodE N h p e.nfaID) :
    refFind (ctx N h) p root slroot = cl.entries.findSome? (fun ce => entryRes N h p slroot ce.base) := by
  obtain ⟨s0, s', hpush, hloop, rfl⟩ := epsClosure_run hc
  obtain ⟨inv0, _, hstk, hclo⟩ := cinv_init (S := fun _ => True) trivial hpush
  obtain ⟨t, ht, hr⟩ := scan_sim (slroot := slroot) hsz hlen hp _ s0 s' hloop inv0 hgood
  rw [hclo, List.nil_append] at ht
  rw [hstk] at hr
  have hact : actE h p ⟨root, 0, false⟩ = true := rfl
  simp only [List.filter_cons, hact, ↓reduceIte, List.filter_nil, List.map_cons, List.map_nil, cfgOf, refTry_cons,
    refTry_nil, Option.or_none, applyMask_zero] at hr
  simp only
  rw [ht, hr]

theorem entryRes_end {N : NFA} {h : Bytes} {slroot : Slots} (e : Entry) :
    entryRes N h h.size slroot e =
      if isMatchState N e.nfaID then some (h.size, applyMask e.slots h.size slroot) else none := by
  unfold entryRes actE
  simp only [decide_true, Bool.or_true, ↓reduceIte]
  split
  · rfl
  · have : nexts (ctx N h) h.size e.nfaID (applyMask e.slots h.size slroot) = [] ∨
        consuming (N.get e.nfaID) = false := by
      unfold nexts
      cases hk : N.get e.nfaID <;> simp [consuming]
    rcases this with h1 | h1
    · rw [h1, refTry_nil]; simp
    · rw [h1]; rfl

theorem scan_end {N : NFA} {h : Bytes} {slroot : Slots} {mm : Nat} : ∀ (t : List CEntry),
    (∀ e ∈ t, isMatchState N e.nfaID = true → e.slots = mm) →
    t.findSome? (fun ce => entryRes N h h.size slroot ce.base) =
      if t.any (fun e => isMatchState N e.nfaID) then some (h.size, applyMask mm h.size slroot) else none := by
  intro t
  induction t with
  | nil => intro _; rfl
  | cons e t ih =>
    intro hmm
    rw [findSome?_cons_or, entryRes_end, List.any_cons]
    cases hm : isMatchState N e.nfaID with
    | true =>
      have := hmm e List.mem_cons_self hm
      simp only [CEntry.base, hm, ↓reduceIte, Option.some_or, Bool.true_or, this]
    | false =>
      simp only [CEntry.base, hm, Bool.false_eq_true, ↓reduceIte, Option.none_or, Bool.false_or]
      exact ih (fun e' he' => hmm e' (List.mem_cons_of_mem _ he'))

/-- at the end of the input the reference answers iff the closure holds a match state -/
theorem ref_end {N : NFA} {h : Bytes} {slroot : Slots} {S : Nat → Prop} (hsz : N.states.size ≤ invalidState)
    (hlen : slroot.length ≤ 32) {root : Nat} {cl : Closure} (hc : epsClosure N root = some cl)
    (ok : ClosureOK N S root cl) (hgood : ∀ e ∈ cl.entries, GoodE N h h.size e.nfaID) :
    refFind (ctx N h) h.size root slroot =
      if cl.matched then some (h.size, applyMask cl.matchMask h.size slroot) else none := by
  rw [ref_eq_scan hsz hlen (Nat.le_refl _) hc hgood, scan_end (mm := cl.matchMask) _ (fun e he hm => (ok.mt2 e he hm).2.1.symm)]
  cases hm : cl.matched with
  | true =>
    obtain ⟨e, he, hem⟩ := ok.mt3 hm
    have : cl.entries.any (fun e => isMatchState N e.nfaID) = true := List.any_eq_true.mpr ⟨e, he, hem⟩
    rw [this]
  | false =>
    have : cl.entries.any (fun e => isMatchState N e.nfaID) = false := by
      cases ha : cl.entries.any (fun e => isMatchState N e.nfaID) with
      | false => rfl
      | true =>
        obtain ⟨e, he, hem⟩ := List.any_eq_true.mp ha
        have := (ok.mt2 e he hem).1
        rw [hm] at this; cases this
    rw [this]

/-- strictly inside the input: the transition of the byte's class first when it has priority over the match, else
    the match -/
theorem ref_step {N : NFA} {h : Bytes} {p : Nat} {slroot : Slots} {S : Nat → Prop} (hsz : N.states.size ≤ invalidState)
    (hbytes : ∀ i, h.at i < 256) (hlen : slroot.length ≤ 32) (hp : p < h.size) {root : Nat} {cl : Closure}
    (hc : epsClosure N root = some cl) (ok : ClosureOK N S root cl) (hgood : ∀ e ∈ cl.entries, GoodE N h p e.nfaID)
    {bt : BT} (hbt : byteTrans N (classTable N) cl.entries = some bt) :
    refFind (ctx N h) p root slroot =
      scanVal N h p slroot cl.matchMask (bt.getD ((classTable N).getD (h.at p) 0) none) (cl.matched && !cl.matchEnd)
        (bt.getD ((classTable N).getD (h.at p) 0) none).isSome ∧
    (∀ tgt sl, bt.getD ((classTable N).getD (h.at p) 0) none = some (tgt, sl, true) →
      (cl.matched && !cl.matchEnd) = true) ∧
    (∀ tgt sl mw, bt.getD ((classTable N).getD (h.at p) 0) none = some (tgt, sl, mw) →
      ∃ e ∈ cl.entries, consuming (N.get e.nfaID) = true ∧ tgt ∈ succStates (N.get e.nfaID)) := by
  obtain ⟨bs1, bs2⟩ := byteTrans_spec (clsLt_classTable N) cl.entries bt hbt
  have hb := hbytes p
  -- entries that move on the byte own the transition of its class
  have hown : ∀ e ∈ cl.entries, e.atEnd = false → ∀ nx, stepTarget N e.nfaID (h.at p) = some nx →
      bt.getD ((classTable N).getD (h.at p) 0) none = some (nx, e.slots, e.matchWins) :=
    fun e he hae nx hst => bs1 e he hae (h.at p) nx hb (stepTarget_some hst)
  -- and a transition of the class comes from an entry that moves on the byte
  have hsrc : ∀ i, bt.getD ((classTable N).getD (h.at p) 0) none = some i →
      ∃ e ∈ cl.entries, e.atEnd = false ∧ Contrib N e.nfaID (h.at p) i.1 ∧ i = (i.1, e.slots, e.matchWins) := by
    intro i hi
    obtain ⟨e, he, hae, b', nx, hb', hcl', hcn, rfl⟩ := bs2 _ i hi
    rw [classTable_getD, classTable_getD, if_pos hb', if_pos hb] at hcl'
    exact ⟨e, he, hae, contrib_class hcn hcl', rfl⟩
  have hlive : cl.entries.any (liveE N) = (cl.matched && !cl.matchEnd) := by
    cases hm : (cl.matched && !cl.matchEnd) with
    | true =>
      obtain ⟨e, he, h1, h2⟩ := ok.live.mpr hm
      exact List.any_eq_true.mpr ⟨e, he, by simp [liveE, h1, h2]⟩
    | false =>
      cases ha : cl.entries.any (liveE N) with
      | false => rfl
      | true =>
        obtain ⟨e, he, hl⟩ := List.any_eq_true.mp ha
        simp only [liveE, Bool.and_eq_true, Bool.not_eq_true'] at hl
        have := ok.live.mp ⟨e, he, hl.1, hl.2⟩
        rw [hm] at this; cases this
  have hstep_of_contrib : ∀ e ∈ cl.entries, ∀ nx, Contrib N e.nfaID (h.at p) nx →
      (stepTarget N e.nfaID (h.at p)).isSome = true := by
    intro e he nx hcn
    cases hst : stepTarget N e.nfaID (h.at p) with
    | some _ => rfl
    | none => exact absurd hcn (stepTarget_none hst nx)
  have hhasB : cl.entries.any (byteE N (h.at p)) = (bt.getD ((classTable N).getD (h.at p) 0) none).isSome := by
    cases htr : bt.getD ((classTable N).getD (h.at p) 0) none with
    | some i =>
      obtain ⟨e, he, hae, hcn, _⟩ := hsrc i htr
      exact List.any_eq_true.mpr ⟨e, he, by simp [byteE, hae, hstep_of_contrib e he _ hcn]⟩
    | none =>
      cases ha : cl.entries.any (byteE N (h.at p)) with
      | false => rfl
      | true =>
        obtain ⟨e, he, hl⟩ := List.any_eq_true.mp ha
        simp only [byteE, Bool.and_eq_true, Bool.not_eq_true', Option.isSome_iff_exists] at hl
        obtain ⟨hae, nx, hnx⟩ := hl
        have := hown e he hae nx hnx
        rw [htr] at this; cases this
  refine ⟨?_, ?_, ?_⟩
  · rw [ref_eq_scan hsz hlen (Nat.le_of_lt hp) hc hgood]
    rw [scan_list (N := N) (h := h) (p := p) (slroot := slroot) (bt := bt) (mm := cl.matchMask) hp cl.entries hown
      ok.flags ?_ ok.nr, hlive, hhasB]
    intro e he hl
    simp only [liveE, Bool.and_eq_true, Bool.not_eq_true'] at hl
    exact (ok.mt2 e he hl.1).2.1.symm
  · intro tgt sl htr
    obtain ⟨e, he, _, _, hi⟩ := hsrc _ htr
    simp only [Prod.mk.injEq] at hi
    have hmw : e.matchWins = true := hi.2.2.symm
    rw [← hlive]
    exact flagsOK_mw _ ok.flags e he hmw
  · intro tgt sl mw htr
    obtain ⟨e, he, _, hcn, _⟩ := hsrc _ htr
    refine ⟨e, he, ?_, ?_⟩
    · rcases hcn with ⟨lo, hi, hk, _⟩ | ⟨ts, lo, hi, hk, _⟩ <;> rw [hk] <;> rfl
    · rcases hcn with ⟨lo, hi, hk, _⟩ | ⟨ts, lo, hi, hk, hm, _⟩
      · rw [hk]; simp [succStates]
      · rw [hk]; simp only [succStates, List.mem_map]
        exact ⟨(lo, hi, tgt), hm, rfl⟩

/-! ### the run over NFA roots computes the reference -/

/-- how `recordMatch` formats an answer of the reference -/
def fmt (r : Nat × Slots) : Slots := spanSlots r.1 r.2

theorem good_of_root {N : NFA} {h : Bytes} {p : Nat} {R C : Nat → Prop} (hsz : N.states.size ≤ invalidState)
    (lk : LookOK N R C) (hp : p ≤ h.size) {root : Nat} (hrl : root < N.states.size) (hR : R root)
    (hC : 0 < p → C root) {cl : Closure} (hc : epsClosure N root = some cl) :
    ClosureOK N (fun q => (q < N.states.size → R q) ∧ (0 < p → q < N.states.size → C q)) root cl ∧
    ∀ e ∈ cl.entries, GoodE N h p e.nfaID := by
  have hS : ∀ q, q < N.states.size → ((q < N.states.size → R q) ∧ (0 < p → q < N.states.size → C q)) →
      ∀ x ∈ succStates (N.get q), (x < N.states.size → R x) ∧ (0 < p → x < N.states.size → C x) := by
    intro q hq hs x hx
    exact ⟨fun hxl => lk.closedR q hq (hs.1 hq) x hx hxl, fun hp0 hxl => lk.closedC q hq (hs.2 hp0 hq) x hx hxl⟩
  have ok := epsClosure_spec hS ⟨fun _ => hR, fun hp0 _ => hC hp0⟩ hc
  refine ⟨ok, goodE_of_closure hsz hp ok ?_⟩
  intro e he k nx hk
  have hel := ok.rng e he
  obtain ⟨s1, s2⟩ := ok.sub e he
  rcases lk.looks e.nfaID k nx hel (s1 hel) hk with h1 | ⟨h1, h2⟩
  · exact Or.inl h1
  · refine Or.inr ⟨h1, ?_⟩
    cases Nat.eq_zero_or_pos p with
    | inl h0 => exact h0
    | inr hpos => exact absurd (s2 hpos hel) h2

theorem orun_eq_ref {N : NFA} {h : Bytes} {n : Nat} {R C : Nat → Prop} (hsz : N.states.size ≤ invalidState)
    (hbytes : ∀ i, h.at i < 256) (hn : n ≤ 32) (lk : LookOK N R C) (Built : Nat → Prop)
    (hB : ∀ r, Built r → ∃ c bt, epsClosure N r = some c ∧ byteTrans N (classTable N) c.entries = some bt ∧
        ∀ cl tgt sl mw, bt.getD cl none = some (tgt, sl, mw) → Built tgt) :
    ∀ (fuel p root : Nat) (scratch : Slots) (best : Option Slots), h.size + 1 - p ≤ fuel → p ≤ h.size → Built root →
      R root → (0 < p → C root) → scratch.length = n →
      orun N (classTable N) h false fuel p root scratch best =
        ((refFind (ctx N h) p root scratch).map fmt).or best := by
  intro fuel
  induction fuel with
  | zero => intro p root scratch best hf hp; omega
  | succ fuel ih =>
    intro p root scratch best hf hp hb hR hC hlen
    obtain ⟨cl, bt, hc, hbt, hnext⟩ := hB root hb
    have hrl : root < N.states.size := by
      obtain ⟨s0, _, hpush, _, _⟩ := epsClosure_run hc
      have := (push_spec hpush).2.1
      simpa [initClS] using this
    obtain ⟨ok, hgood⟩ := good_of_root (h := h) hsz lk hp hrl hR hC hc
    have hl32 : scratch.length ≤ 32 := by omega
    rw [orun, hc]
    simp only []
    by_cases hpl : p < h.size
    · rw [if_pos hpl, hbt]
      simp only []
      obtain ⟨hstep, hmw, hsrc⟩ := ref_step (slroot := scratch) hsz hbytes hl32 hpl hc ok hgood hbt
      rw [hstep]
      have hisM : (cl.matched && !(cl.matched && cl.matchEnd)) = (cl.matched && !cl.matchEnd) := by
        cases cl.matched <;> cases cl.matchEnd <;> rfl
      rw [hisM]
      cases htr : bt.getD ((classTable N).getD (h.at p) 0) none with
      | none =>
        simp only [scanVal]
        cases hm : (cl.matched && !cl.matchEnd) with
        | false => simp
        | true =>
          have : cl.matched = true := by
            cases hmm : cl.matched with
            | true => rfl
            | false => rw [hmm] at hm; cases hm
          simp [this, fmt]
      | some i =>
        obtain ⟨tgt, sl, mw⟩ := i
        simp only [scanVal, Option.isSome_some, ↓reduceIte]
        cases hmwv : mw with
        | true =>
          subst hmwv
          have hm := hmw tgt sl htr
          have hmat : cl.matched = true ∧ cl.matchEnd = false := by
            cases hmm : cl.matched <;> cases hme : cl.matchEnd <;> simp [hmm, hme] at hm ⊢
          simp [hmat.1, hmat.2, fmt]
        | false =>
          subst hmwv
          simp only [Bool.and_false, Bool.false_and, Bool.false_eq_true, ↓reduceIte]
          -- the target of the transition
          obtain ⟨e, he, hcons, htgt⟩ := hsrc tgt sl false htr
          have hbt' : Built tgt := hnext _ tgt sl false htr
          have hel := ok.rng e he
          have htl : tgt < N.states.size := by
            obtain ⟨c2, _, hc2, _, _⟩ := hB tgt hbt'
            obtain ⟨s0, _, hpush, _, _⟩ := epsClosure_run hc2
            have := (push_spec hpush).2.1
            simpa [initClS] using this
          have hRe : R e.nfaID := (ok.sub e he).1 hel
          have hRt : R tgt := lk.closedR e.nfaID hel hRe tgt htgt htl
          have hCt : C tgt := lk.after e.nfaID hel hRe hcons tgt htgt htl
          rw [ih (p+1) tgt _ _ (by omega) (by omega) hbt' hRt (fun _ => hCt) (by rw [applyMask_length]; exact hlen)]
          cases hm : (cl.matched && !cl.matchEnd) with
          | false => simp
          | true =>
            have hmat : cl.matched = true := by
              cases hmm : cl.matched with
              | true => rfl
              | false => rw [hmm] at hm; cases hm
            simp only [hmat, ↓reduceIte]
            cases refFind (ctx N h) (p+1) tgt (applyMask sl p scratch) <;> simp [fmt]
    · have hpe : p = h.size := by omega
      subst hpe
      rw [if_neg hpl, ref_end hsz hl32 hc ok hgood]
      cases hm : cl.matched <;> simp [fmt]

theorem withSpan_eq_spanSlots (e : Nat) (sl : Slots) (hl : 2 ≤ sl.length) : withSpan 0 e sl = spanSlots e sl := by
  unfold spanSlots
  rw [if_pos hl]
  match sl, hl with
  | a :: b :: rest, _ => rfl

/-- The one-pass DFA is the anchored reference.  For every table that `buildFor` produces (so: at most 16 groups, an
    automaton whose two start states coincide, `hasUnsupportedLook` false, and the closure / transition checks of the
    builder passed), every haystack of bytes and `n = 2 * CaptureCount ≥ 2` slots, `Search` returns exactly the slots of
    the first accepting path of the priority DFS from offset 0 — `nil` iff there is none.  No condition on where the
    match ends; `\z` / `$` (through `atEnd` / `endMatches`) and `\A` / `^` / `(?m)^` at offset 0 are covered. -/
theorem onepass_eq_btCaps {N : NFA} {T : Table} {n : Nat} (hb : buildFor N n = some T) (hn2 : 2 ≤ n) {h : Bytes}
    (hbytes : ∀ i, h.at i < 256) : search T h n = btCapsAnchored N h 0 n := by
  unfold buildFor at hb
  split at hb
  · cases hb
  · rename_i hn
    rw [search_eq_orun hb]
    obtain ⟨hop, hsz, _⟩ := build_inv hb
    obtain ⟨Built, hB0, hB⟩ := build_closed hb
    have hnl : hasUnsupportedLook N = false := by
      unfold isOnePass at hop
      simp only [Bool.and_eq_true, Bool.not_eq_true'] at hop
      exact hop.2
    obtain ⟨R, C, lk⟩ := guard_spec hsz hnl
    have hstart : N.startAnchored < N.states.size := by
      obtain ⟨c2, _, hc2, _, _⟩ := hB _ hB0
      obtain ⟨s0, _, hpush, _, _⟩ := epsClosure_run hc2
      have := (push_spec hpush).2.1
      simpa [initClS] using this
    unfold orunSearch
    rw [orun_eq_ref (n := n) hsz hbytes (by omega) lk Built hB (h.size + 1) 0 N.startAnchored (unset n) none (by omega)
      (Nat.zero_le _) hB0 (lk.start hstart) (fun h0 => absurd h0 (Nat.lt_irrefl 0)) (by simp [unset])]
    unfold btCapsAnchored refFind
    rw [if_neg (by omega)]
    simp only [Option.or_none]
    cases hf : (btCapsFind (ctx N h) (btFuel N h) 0 N.startAnchored (unset n) (freshVis N h)).1 with
    | none => rfl
    | some r =>
      obtain ⟨e, sl⟩ := r
      obtain ⟨_, _, b3, _⟩ := btCapsFind_bounds _ _ _ _ _ _ e sl _ (Prod.ext hf rfl) (Nat.zero_le _)
      have hlen : sl.length = n := by rw [b3]; simp [unset]
      simp only [Option.map_some, fmt]
      rw [withSpan_eq_spanSlots _ _ (by omega)]

end Cx.Caps.OnePass
