import Cx.Proofs.OnePassBuild
import Cx.Proofs.CapsBase
/-
  Cx.Proofs.OnePassSem — what the one-pass DFA computes, against the reference.
   * `applyMask` pointwise; the builder's epsilon closure is closed under the (look-free) epsilon moves, holds the
     root, and records the unique match entry (`epsClosure_spec`);
   * the per-class transition map holds, for every byte that leaves a closure entry, the entry's target and — when no
     two entries with different slot masks are merged (`strictRows`) — the entry's slots (`byteTransStrict_spec`);
   * `LPathS`: paths of the automaton that ignore look-around assertions, with the slot array they produce;
     the reference's winning path is one (`btCapsFind_lpath`);
   * `arun_of_path`: the numbering-free run follows any such path that consumes the whole input, and returns its slots;
   * `onepass_eq_btCaps`.
-/
namespace Cx.Caps.OnePass
open Cx Cx.Nfa
open Cx.Pike (NoRune isMatchState)

/-! ### `applyMask` pointwise -/

theorem applyL_get (m : Nat) (p : Nat) : ∀ (L : List Nat) (sl : Slots) (j : Nat), L.Nodup →
    (L.foldl (fun sl' i => if m.testBit i then sl'.set i (p : Int) else sl') sl)[j]? =
      if j ∈ L ∧ m.testBit j = true then sl[j]?.map (fun _ => (p : Int)) else sl[j]? := by
  intro L
  induction L with
  | nil => intro sl j _; simp
  | cons x L ih =>
    intro sl j hnd
    have hnd' := List.nodup_cons.mp hnd
    simp only [List.foldl_cons]
    rw [ih _ j hnd'.2]
    by_cases hx : m.testBit x = true
    · simp only [hx, ↓reduceIte, List.mem_cons]
      by_cases hjx : j = x
      · subst hjx
        have hnl : ¬ (j ∈ L) := hnd'.1
        simp only [hnl, false_and, ↓reduceIte, true_or, hx, and_self, List.getElem?_set_self']
        cases hlt : sl[j]? with
        | none => 
          have : sl.length ≤ j := by simpa using hlt
          simp [List.getElem?_set, this]
        | some v =>
          have : j < sl.length := by
            cases Nat.lt_or_ge j sl.length with
            | inl h => exact h
            | inr h => simp [List.getElem?_eq_none h] at hlt
          simp [List.getElem?_set, this]
      · have hne : x ≠ j := fun h => hjx h.symm
        simp only [List.getElem?_set_ne hne, hjx, false_or]
    · have hx' : m.testBit x = false := by simpa using hx
      simp only [hx', Bool.false_eq_true, ↓reduceIte, List.mem_cons]
      by_cases hjx : j = x
      · subst hjx
        have hnl : ¬ (j ∈ L) := hnd'.1
        simp [hnl, hx']
      · simp only [hjx, false_or]

theorem applyMask_get (m p : Nat) (sl : Slots) (j : Nat) :
    (applyMask m p sl)[j]? = if j < 32 ∧ m.testBit j = true then sl[j]?.map (fun _ => (p : Int)) else sl[j]? := by
  unfold applyMask
  rw [applyL_get m p (List.range 32) sl j List.nodup_range]
  simp only [List.mem_range]

theorem applyMask_length (m p : Nat) (sl : Slots) : (applyMask m p sl).length = sl.length := by
  unfold applyMask
  have : ∀ (L : List Nat) (acc : Slots),
      (L.foldl (fun sl' i => if m.testBit i then sl'.set i (p : Int) else sl') acc).length = acc.length := by
    intro L
    induction L with
    | nil => intro acc; rfl
    | cons x L ih =>
      intro acc
      simp only [List.foldl_cons]
      rw [ih]
      split <;> simp
  exact this _ _

theorem applyMask_zero (p : Nat) (sl : Slots) : applyMask 0 p sl = sl := by
  apply List.ext_getElem?
  intro j
  rw [applyMask_get]
  simp

theorem testBit_setBit (m k j : Nat) (hk : k < 32) : (setBit m k).testBit j = (m.testBit j || decide (j = k)) := by
  unfold setBit
  rw [if_pos hk, Nat.testBit_or, Nat.testBit_shiftLeft]
  by_cases hjk : j = k
  · subst hjk; simp
  · simp only [hjk, decide_false, Bool.or_false]
    by_cases hge : j ≥ k
    · have : j - k ≠ 0 := by omega
      simp [hge, Nat.testBit_one_eq_true_iff_self_eq_zero, this]
    · simp [hge]

/-- recording one more slot at the same offset -/
theorem applyMask_setBit (m k p : Nat) (sl : Slots) (hlen : sl.length ≤ 32) :
    applyMask (setBit m k) p sl = (applyMask m p sl).set k (p : Int) := by
  apply List.ext_getElem?
  intro j
  rw [applyMask_get, List.getElem?_set, applyMask_get]
  by_cases hk : k < 32
  · rw [testBit_setBit m k j hk]
    by_cases hjk : k = j
    · subst hjk
      simp only [hk, decide_true, Bool.or_true, and_self, ↓reduceIte]
      rw [applyMask_length]
      by_cases hlt : k < sl.length
      · simp [hlt, List.getElem?_eq_getElem hlt]
      · simp [hlt, List.getElem?_eq_none (by omega : sl.length ≤ k)]
    · have hjk' : ¬ (j = k) := fun h => hjk h.symm
      simp only [hjk, ↓reduceIte, hjk', decide_false, Bool.or_false]
  · have : setBit m k = m := by unfold setBit; rw [if_neg hk]
    rw [this]
    by_cases hjk : k = j
    · subst hjk
      simp only [hk, false_and, ↓reduceIte]
      have hle : sl.length ≤ k := by omega
      rw [applyMask_length, if_neg (by omega)]
      simp [List.getElem?_eq_none hle]
    · simp only [hjk, ↓reduceIte]


/-! ### the epsilon closure of the builder -/

/-- the entries pushed when `e` is popped -/
def succEntries (N : NFA) (e : Entry) : List Entry :=
  match N.get e.nfaID with
  | .split l r => [⟨l, e.slots⟩, ⟨r, e.slots⟩]
  | .eps nx => [⟨nx, e.slots⟩]
  | .cap idx st nx => [⟨nx, setBit e.slots (slotIdx idx st)⟩]
  | .look _ nx => [⟨nx, e.slots⟩]
  | _ => []

def pushAll (s : ClS) (L : List Entry) : Option ClS :=
  L.foldl (fun acc x => acc.bind (fun s => push s x.nfaID x.slots)) (some s)

theorem pushAll_none (L : List Entry) :
    L.foldl (fun acc x => acc.bind (fun s => push s x.nfaID x.slots)) none = none := by
  induction L with
  | nil => rfl
  | cons x L ih => simp only [List.foldl_cons, Option.bind_none]; exact ih

theorem push_spec {s s' : ClS} {q m : Nat} (h : push s q m = some s') :
    s'.stack = ⟨q, m⟩ :: s.stack ∧ s'.closure = s.closure ∧ s'.matched = s.matched ∧ s'.matchMask = s.matchMask := by
  unfold push at h
  split at h
  · cases h
  · simp only [Option.some.injEq] at h
    subst h
    exact ⟨rfl, rfl, rfl, rfl⟩

theorem pushAll_spec : ∀ (L : List Entry) (s s' : ClS), pushAll s L = some s' →
    s'.stack = L.reverse ++ s.stack ∧ s'.closure = s.closure ∧ s'.matched = s.matched ∧ s'.matchMask = s.matchMask := by
  intro L
  induction L with
  | nil =>
    intro s s' h
    simp only [pushAll, List.foldl_nil, Option.some.injEq] at h
    subst h
    simp
  | cons x L ih =>
    intro s s' h
    simp only [pushAll, List.foldl_cons, Option.bind_some] at h
    cases hp : push s x.nfaID x.slots with
    | none => rw [hp, pushAll_none] at h; cases h
    | some s1 =>
      rw [hp] at h
      obtain ⟨a1, a2, a3, a4⟩ := push_spec hp
      obtain ⟨b1, b2, b3, b4⟩ := ih s1 s' h
      refine ⟨?_, b2.trans a2, b3.trans a3, b4.trans a4⟩
      rw [b1, a1]
      simp

/-- one iteration of the closure loop for a popped state that is not a match state -/
theorem closureLoop_step (N : NFA) (fuel : Nat) (s : ClS) (e : Entry) (st : List Entry) (hs : s.stack = e :: st)
    (hlt : e.nfaID < N.states.size) (hm : N.get e.nfaID ≠ .mtch) :
    closureLoop N (fuel+1) s =
      (pushAll { s with stack := st, closure := s.closure ++ [e] } (succEntries N e)).bind (closureLoop N fuel) := by
  rw [closureLoop]
  simp only [hs]
  rw [if_neg (by omega)]
  unfold succEntries pushAll
  cases hk : N.get e.nfaID <;> simp only [List.foldl_cons, List.foldl_nil, Option.bind_some]
  · exact absurd hk hm
  · rename_i l r
    cases h1 : push { s with stack := st, closure := s.closure ++ [e] } l e.slots with
    | none => rfl
    | some s1 =>
      simp only [Option.bind_some]
      cases h2 : push s1 r e.slots with
      | none => rfl
      | some s2 => rfl
  · rename_i nx
    cases h1 : push { s with stack := st, closure := s.closure ++ [e] } nx e.slots with
    | none => rfl
    | some s1 => rfl
  · rename_i idx isS nx
    cases h1 : push { s with stack := st, closure := s.closure ++ [e] } nx (setBit e.slots (slotIdx idx isS)) with
    | none => rfl
    | some s1 => rfl
  · rename_i k nx
    cases h1 : push { s with stack := st, closure := s.closure ++ [e] } nx e.slots with
    | none => rfl
    | some s1 => rfl

structure CInv (N : NFA) (s : ClS) : Prop where
  closed : ∀ e ∈ s.closure, e.nfaID < N.states.size → ∀ x ∈ succEntries N e, x ∈ s.closure ∨ x ∈ s.stack
  mt : ∀ e ∈ s.closure, e.nfaID < N.states.size → N.get e.nfaID = .mtch → s.matched = true ∧ s.matchMask = e.slots

theorem closureLoop_spec (N : NFA) : ∀ (fuel : Nat) (s s' : ClS), closureLoop N fuel s = some s' → CInv N s →
    CInv N s' ∧ s'.stack = [] ∧ (∀ e, e ∈ s.closure ∨ e ∈ s.stack → e ∈ s'.closure) := by
  intro fuel
  induction fuel with
  | zero =>
    intro s s' h inv
    rw [closureLoop] at h
    split at h
    · rename_i hst
      simp only [Option.some.injEq] at h
      subst h
      exact ⟨inv, hst, fun e he => he.elim id (fun h2 => by rw [hst] at h2; simp at h2)⟩
    · cases h
  | succ fuel ih =>
    intro s s' h inv
    cases hst : s.stack with
    | nil =>
      rw [closureLoop] at h
      simp only [hst, Option.some.injEq] at h
      subst h
      exact ⟨inv, hst, fun e he => he.elim id (fun h2 => by simp at h2)⟩
    | cons e st =>
      -- invariant after popping `e`, for any stack that extends `st`
      have hclosed1 : ∀ (stk : List Entry), (∀ x ∈ st, x ∈ stk) →
          ∀ e' ∈ s.closure, e'.nfaID < N.states.size → ∀ x ∈ succEntries N e', x ∈ s.closure ++ [e] ∨ x ∈ stk := by
        intro stk hsub e' he' hlt x hx
        rcases inv.closed e' he' hlt x hx with h1 | h1
        · exact Or.inl (List.mem_append_left _ h1)
        · rw [hst] at h1
          rcases List.mem_cons.mp h1 with rfl | h2
          · exact Or.inl (List.mem_append_right _ List.mem_cons_self)
          · exact Or.inr (hsub x h2)
      by_cases hlt : e.nfaID < N.states.size
      · by_cases hm : N.get e.nfaID = .mtch
        · -- match state
          rw [closureLoop] at h
          simp only [hst] at h
          rw [if_neg (by omega)] at h
          simp only [hm] at h
          split at h
          · cases h
          · rename_i hnm
            have hnm' : s.matched = false := by simpa using hnm
            have inv1 : CInv N { s with stack := st, closure := s.closure ++ [e], matched := true, matchMask := e.slots } := by
              refine ⟨?_, ?_⟩
              · intro e' he' hlt' x hx
                rcases List.mem_append.mp he' with h1 | h1
                · exact hclosed1 st (fun _ h => h) e' h1 hlt' x hx
                · simp only [List.mem_cons, List.not_mem_nil, or_false] at h1
                  subst h1
                  simp [succEntries, hm] at hx
              · intro e' he' hlt' hm'
                rcases List.mem_append.mp he' with h1 | h1
                · have := (inv.mt e' h1 hlt' hm').1
                  rw [hnm'] at this; cases this
                · simp only [List.mem_cons, List.not_mem_nil, or_false] at h1
                  subst h1
                  exact ⟨rfl, rfl⟩
            obtain ⟨r1, r2, r3⟩ := ih _ s' h inv1
            refine ⟨r1, r2, ?_⟩
            intro x hx
            apply r3
            rcases hx with h1 | h1
            · exact Or.inl (List.mem_append_left _ h1)
            · rcases List.mem_cons.mp h1 with rfl | h2
              · exact Or.inl (List.mem_append_right _ List.mem_cons_self)
              · exact Or.inr h2
        · rw [closureLoop_step N fuel s e st hst hlt hm] at h
          cases hp : pushAll { s with stack := st, closure := s.closure ++ [e] } (succEntries N e) with
          | none => rw [hp] at h; cases h
          | some s1 =>
            rw [hp] at h
            simp only [Option.bind_some] at h
            obtain ⟨p1, p2, p3, p4⟩ := pushAll_spec _ _ _ hp
            simp only at p1 p2 p3 p4
            have inv1 : CInv N s1 := by
              refine ⟨?_, ?_⟩
              · intro e' he' hlt' x hx
                rw [p2] at he' ⊢
                rw [p1]
                rcases List.mem_append.mp he' with h1 | h1
                · exact hclosed1 _ (fun y hy => List.mem_append_right _ hy) e' h1 hlt' x hx
                · simp only [List.mem_cons, List.not_mem_nil, or_false] at h1
                  subst h1
                  exact Or.inr (List.mem_append_left _ (List.mem_reverse.mpr hx))
              · intro e' he' hlt' hm'
                rw [p2] at he'
                rw [p3, p4]
                rcases List.mem_append.mp he' with h1 | h1
                · exact inv.mt e' h1 hlt' hm'
                · simp only [List.mem_cons, List.not_mem_nil, or_false] at h1
                  subst h1
                  exact absurd hm' hm
            obtain ⟨r1, r2, r3⟩ := ih s1 s' h inv1
            refine ⟨r1, r2, ?_⟩
            intro x hx
            apply r3
            rw [p2, p1]
            rcases hx with h1 | h1
            · exact Or.inl (List.mem_append_left _ h1)
            · rcases List.mem_cons.mp h1 with rfl | h2
              · exact Or.inl (List.mem_append_right _ List.mem_cons_self)
              · exact Or.inr (List.mem_append_right _ h2)
      · -- state id out of range: popped and skipped
        rw [closureLoop] at h
        simp only [hst] at h
        rw [if_pos (by omega)] at h
        have inv1 : CInv N { s with stack := st, closure := s.closure ++ [e] } := by
          refine ⟨?_, ?_⟩
          · intro e' he' hlt' x hx
            rcases List.mem_append.mp he' with h1 | h1
            · exact hclosed1 st (fun _ h => h) e' h1 hlt' x hx
            · simp only [List.mem_cons, List.not_mem_nil, or_false] at h1
              subst h1
              exact absurd hlt' hlt
          · intro e' he' hlt' hm'
            rcases List.mem_append.mp he' with h1 | h1
            · exact inv.mt e' h1 hlt' hm'
            · simp only [List.mem_cons, List.not_mem_nil, or_false] at h1
              subst h1
              exact absurd hlt' hlt
        obtain ⟨r1, r2, r3⟩ := ih _ s' h inv1
        refine ⟨r1, r2, ?_⟩
        intro x hx
        apply r3
        rcases hx with h1 | h1
        · exact Or.inl (List.mem_append_left _ h1)
        · rcases List.mem_cons.mp h1 with rfl | h2
          · exact Or.inl (List.mem_append_right _ List.mem_cons_self)
          · exact Or.inr h2


theorem epsClosure_spec {N : NFA} {root : Nat} {c : List Entry} {m : Bool} {mm : Nat}
    (h : epsClosure N root = some (c, m, mm)) :
    (⟨root, 0⟩ : Entry) ∈ c ∧
    (∀ e ∈ c, e.nfaID < N.states.size → ∀ x ∈ succEntries N e, x ∈ c) ∧
    (∀ e ∈ c, e.nfaID < N.states.size → N.get e.nfaID = .mtch → m = true ∧ mm = e.slots) := by
  unfold epsClosure at h
  split at h
  · cases h
  · rename_i s0 hp
    obtain ⟨p1, p2, p3, p4⟩ := push_spec hp
    simp only at p1 p2 p3 p4
    split at h
    · cases h
    · rename_i s' hl
      simp only [Option.some.injEq, Prod.mk.injEq] at h
      obtain ⟨rfl, rfl, rfl⟩ := h
      have inv0 : CInv N s0 :=
        ⟨fun e he => by rw [p2] at he; simp at he, fun e he => by rw [p2] at he; simp at he⟩
      obtain ⟨r1, r2, r3⟩ := closureLoop_spec N _ s0 s' hl inv0
      refine ⟨r3 _ (Or.inr (by rw [p1]; exact List.mem_cons_self)), ?_, r1.mt⟩
      intro e he hlt x hx
      rcases r1.closed e he hlt x hx with h1 | h1
      · exact h1
      · rw [r2] at h1; simp at h1

/-! ### the per-class transition map -/

/-- entries are only ever added -/
def BtMono (a b : BT) : Prop := ∀ cl v, a.getD cl none = some v → b.getD cl none = some v

theorem BtMono.refl (a : BT) : BtMono a a := fun _ _ h => h
theorem BtMono.trans {a b c : BT} (h1 : BtMono a b) (h2 : BtMono b c) : BtMono a c :=
  fun cl v h => h2 cl v (h1 cl v h)

theorem addByteStrict_spec {cls : Array Nat} {next slots byte : Nat} {bt bt' : BT} (hsz : bt.size = 256)
    (hcl : cls.getD byte 0 < 256)
    (h : addByteStrict cls next slots (some bt) byte = some bt') :
    addByte cls next slots (some bt) byte = some bt' ∧ BtMono bt bt' ∧ bt'.size = 256 ∧
    bt'.getD (cls.getD byte 0) none = some (next, slots) := by
  unfold addByteStrict at h
  unfold addByte
  simp only at h ⊢
  generalize cls.getD byte 0 = k at hcl h ⊢
  cases hg : bt.getD k none with
  | some ts =>
    obtain ⟨tgt, sl⟩ := ts
    rw [hg] at h
    simp only at h ⊢
    split at h
    · cases h
    · rename_i hne
      simp only [Option.some.injEq] at h
      subst h
      have h1 : tgt = next := by
        apply Classical.byContradiction; intro hc; exact hne (Or.inl hc)
      have h2 : sl = slots := by
        apply Classical.byContradiction; intro hc; exact hne (Or.inr hc)
      subst h1; subst h2
      rw [if_neg (by simp), Nat.or_self]
      refine ⟨?_, BtMono.refl _, hsz, hg⟩
      congr 1
      apply Array.ext
      · simp
      · intro j h1 h2
        by_cases hj : k = j
        · subst hj
          simp only [Array.getElem_setIfInBounds_self]
          simp only [Array.getD_eq_getD_getElem?, Array.getElem?_eq_getElem h2, Option.getD_some] at hg
          exact hg.symm
        · exact Array.getElem_setIfInBounds_ne h2 hj
  | none =>
    rw [hg] at h
    simp only [Option.some.injEq] at h ⊢
    subst h
    refine ⟨rfl, ?_, by simpa using hsz, getD_set_self' _ _ _ _ (by omega)⟩
    intro cl v hv
    have hne : k ≠ cl := by
      intro he; subst he; rw [hg] at hv; cases hv
    rw [getD_set_other' _ _ _ _ _ hne]
    exact hv


/-- strict and plain folds in lockstep -/
theorem foldPair {α : Type} (fS fN : Option BT → α → Option BT) (Q : α → BT → Prop)
    (hnone : ∀ x, fS none x = none)
    (hup : ∀ x b b', Q x b → BtMono b b' → Q x b')
    (hstep : ∀ bt x bt', bt.size = 256 → fS (some bt) x = some bt' →
      fN (some bt) x = some bt' ∧ BtMono bt bt' ∧ bt'.size = 256 ∧ Q x bt') :
    ∀ (L : List α) (bt bt' : BT), bt.size = 256 → L.foldl fS (some bt) = some bt' →
      L.foldl fN (some bt) = some bt' ∧ BtMono bt bt' ∧ bt'.size = 256 ∧ ∀ x ∈ L, Q x bt' := by
  intro L
  induction L with
  | nil =>
    intro bt bt' hsz h
    simp only [List.foldl_nil, Option.some.injEq] at h
    subst h
    exact ⟨rfl, BtMono.refl _, hsz, fun x hx => by simp at hx⟩
  | cons x L ih =>
    intro bt bt' hsz h
    simp only [List.foldl_cons] at h ⊢
    cases h1 : fS (some bt) x with
    | none =>
      rw [h1] at h
      have : ∀ (L : List α), L.foldl fS none = none := by
        intro L; induction L with
        | nil => rfl
        | cons y L ih2 => simp only [List.foldl_cons, hnone]; exact ih2
      rw [this] at h; cases h
    | some b1 =>
      rw [h1] at h
      obtain ⟨a1, a2, a3, a4⟩ := hstep bt x b1 hsz h1
      obtain ⟨c1, c2, c3, c4⟩ := ih b1 bt' a3 h
      rw [a1]
      refine ⟨c1, a2.trans c2, c3, ?_⟩
      intro y hy
      rcases List.mem_cons.mp hy with rfl | h2
      · exact hup _ _ _ a4 c2
      · exact c4 y h2

def ClsLt (cls : Array Nat) : Prop := ∀ b, cls.getD b 0 < 256

theorem addRangeStrict_spec {cls : Array Nat} (hc : ClsLt cls) (lo hi next slots : Nat) (bt bt' : BT)
    (hsz : bt.size = 256) (h : addRangeStrict cls lo hi next slots (some bt) = some bt') :
    addRange cls lo hi next slots (some bt) = some bt' ∧ BtMono bt bt' ∧ bt'.size = 256 ∧
    ∀ bb, lo ≤ bb → bb ≤ hi → bt'.getD (cls.getD bb 0) none = some (next, slots) := by
  unfold addRangeStrict at h
  unfold addRange
  obtain ⟨a1, a2, a3, a4⟩ := foldPair (addByteStrict cls next slots) (addByte cls next slots)
    (fun bb b => b.getD (cls.getD bb 0) none = some (next, slots))
    (fun x => rfl) (fun x b b' hq hm => hm _ _ hq)
    (fun b x b' hs hh => addByteStrict_spec hs (hc x) hh) _ bt bt' hsz h
  refine ⟨a1, a2, a3, ?_⟩
  intro bb h1 h2
  apply a4
  simp only [List.mem_map, List.mem_range]
  exact ⟨bb - lo, by omega, by omega⟩

/-- byte `by` leaves closure entry `e` towards `nx` -/
def Contrib (N : NFA) (e : Entry) (bb nx : Nat) : Prop :=
  (∃ lo hi, N.get e.nfaID = .byteRange lo hi nx ∧ lo ≤ bb ∧ bb ≤ hi) ∨
  (∃ ts lo hi, N.get e.nfaID = .sparse ts ∧ (lo, hi, nx) ∈ ts ∧ lo ≤ bb ∧ bb ≤ hi)

theorem addRangeStrict_none (cls : Array Nat) (lo hi nx sl : Nat) : addRangeStrict cls lo hi nx sl none = none := by
  unfold addRangeStrict
  have : ∀ (L : List Nat), L.foldl (addByteStrict cls nx sl) none = none := by
    intro L; induction L with
    | nil => rfl
    | cons y L ih => simp only [List.foldl_cons, addByteStrict]; exact ih
  exact this _

def stepS (N : NFA) (cls : Array Nat) (bt : Option BT) (e : Entry) : Option BT :=
  match N.get e.nfaID with
  | .byteRange lo hi nx => addRangeStrict cls lo hi nx e.slots bt
  | .sparse ts => ts.foldl (fun bt t => addRangeStrict cls t.1 t.2.1 t.2.2 e.slots bt) bt
  | _ => bt

def stepN (N : NFA) (cls : Array Nat) (bt : Option BT) (e : Entry) : Option BT :=
  match N.get e.nfaID with
  | .byteRange lo hi nx => addRange cls lo hi nx e.slots bt
  | .sparse ts => ts.foldl (fun bt t => addRange cls t.1 t.2.1 t.2.2 e.slots bt) bt
  | _ => bt

theorem byteTransStrict_eq (N : NFA) (cls : Array Nat) (c : List Entry) :
    byteTransStrict N cls c = c.foldl (stepS N cls) (some (Array.replicate 256 none)) := rfl

theorem byteTrans_eq (N : NFA) (cls : Array Nat) (c : List Entry) :
    byteTrans N cls c = c.foldl (stepN N cls) (some (Array.replicate 256 none)) := rfl

theorem stepS_none (N : NFA) (cls : Array Nat) (e : Entry) : stepS N cls none e = none := by
  unfold stepS
  split
  · exact addRangeStrict_none ..
  · rename_i ts _
    have : ∀ (L : List (Nat × Nat × Nat)),
        L.foldl (fun bt t => addRangeStrict cls t.1 t.2.1 t.2.2 e.slots bt) none = none := by
      intro L; induction L with
      | nil => rfl
      | cons y L ih => simp only [List.foldl_cons, addRangeStrict_none]; exact ih
    exact this ts
  · rfl

theorem stepS_spec {N : NFA} {cls : Array Nat} (hc : ClsLt cls) (bt : BT) (e : Entry) (b1 : BT) (hsz : bt.size = 256)
    (hh : stepS N cls (some bt) e = some b1) :
    stepN N cls (some bt) e = some b1 ∧ BtMono bt b1 ∧ b1.size = 256 ∧
    ∀ bb nx, Contrib N e bb nx → b1.getD (cls.getD bb 0) none = some (nx, e.slots) := by
  unfold stepS at hh
  unfold stepN
  cases hk : N.get e.nfaID <;> simp only [hk] at hh ⊢
  case byteRange lo hi nx =>
    obtain ⟨b1', b2, b3, b4⟩ := addRangeStrict_spec hc lo hi nx e.slots bt b1 hsz hh
    refine ⟨b1', b2, b3, ?_⟩
    intro bb nx' hcn
    rcases hcn with ⟨lo', hi', h1, h2, h3⟩ | ⟨ts, lo', hi', h1, _⟩
    · rw [hk] at h1
      simp only [NState.byteRange.injEq] at h1
      obtain ⟨rfl, rfl, rfl⟩ := h1
      exact b4 bb h2 h3
    · rw [hk] at h1; cases h1
  case sparse ts =>
    obtain ⟨b1', b2, b3, b4⟩ := foldPair
      (fun bt (t : Nat × Nat × Nat) => addRangeStrict cls t.1 t.2.1 t.2.2 e.slots bt)
      (fun bt (t : Nat × Nat × Nat) => addRange cls t.1 t.2.1 t.2.2 e.slots bt)
      (fun t b => ∀ bb, t.1 ≤ bb → bb ≤ t.2.1 → b.getD (cls.getD bb 0) none = some (t.2.2, e.slots))
      (fun t => addRangeStrict_none ..)
      (fun x b b' hq hm bb h1 h2 => hm _ _ (hq bb h1 h2))
      (fun b t b' hs hh' => addRangeStrict_spec hc t.1 t.2.1 t.2.2 e.slots b b' hs hh') ts bt b1 hsz hh
    refine ⟨b1', b2, b3, ?_⟩
    intro bb nx' hcn
    rcases hcn with ⟨lo', hi', h1, _⟩ | ⟨ts', lo', hi', h1, h2, h3, h4⟩
    · rw [hk] at h1; cases h1
    · rw [hk] at h1
      simp only [NState.sparse.injEq] at h1
      subst h1
      exact b4 (lo', hi', nx') h2 bb h3 h4
  all_goals
    simp only [Option.some.injEq] at hh
    subst hh
    refine ⟨rfl, BtMono.refl _, hsz, ?_⟩
    intro bb nx' hcn
    rcases hcn with ⟨lo', hi', h1, _⟩ | ⟨ts', lo', hi', h1, _⟩
    · rw [hk] at h1; cases h1
    · rw [hk] at h1; cases h1

theorem byteTransStrict_spec {N : NFA} {cls : Array Nat} (hc : ClsLt cls) (c : List Entry) (bt' : BT)
    (h : byteTransStrict N cls c = some bt') :
    byteTrans N cls c = some bt' ∧
    ∀ e ∈ c, ∀ bb nx, Contrib N e bb nx → bt'.getD (cls.getD bb 0) none = some (nx, e.slots) := by
  rw [byteTransStrict_eq] at h
  rw [byteTrans_eq]
  obtain ⟨a1, _, _, a4⟩ := foldPair (stepS N cls) (stepN N cls)
    (fun e b => ∀ bb nx, Contrib N e bb nx → b.getD (cls.getD bb 0) none = some (nx, e.slots))
    (stepS_none N cls) (fun x b b' hq hm bb nx hcn => hm _ _ (hq bb nx hcn))
    (fun bt e b1 hs hh => stepS_spec hc bt e b1 hs hh) c (Array.replicate 256 none) bt' (by simp) h
  exact ⟨a1, a4⟩

/-! ### paths that ignore look-around assertions, with their slots -/

inductive LStepS (N : NFA) (h : Bytes) : Nat → Nat → Slots → Nat → Nat → Slots → Prop where
  | byteRange {q i sl lo hi nx} : N.get q = .byteRange lo hi nx → i < h.size → lo ≤ h.at i → h.at i ≤ hi →
      LStepS N h q i sl nx (i+1) sl
  | sparse {q i sl ts lo hi nx} : N.get q = .sparse ts → i < h.size → (lo, hi, nx) ∈ ts → lo ≤ h.at i → h.at i ≤ hi →
      LStepS N h q i sl nx (i+1) sl
  | splitL {q i sl l r} : N.get q = .split l r → LStepS N h q i sl l i sl
  | splitR {q i sl l r} : N.get q = .split l r → LStepS N h q i sl r i sl
  | eps {q i sl nx} : N.get q = .eps nx → LStepS N h q i sl nx i sl
  | cap {q i sl idx st nx} : N.get q = .cap idx st nx → LStepS N h q i sl nx i (sl.set (slotIdx idx st) (i : Int))
  | look {q i sl k nx} : N.get q = .look k nx → LStepS N h q i sl nx i sl

inductive LPathS (N : NFA) (h : Bytes) : Nat → Nat → Slots → Nat → Nat → Slots → Prop where
  | refl (q i sl) : LPathS N h q i sl q i sl
  | cons {q i sl q1 i1 sl1 q2 i2 sl2} : LStepS N h q i sl q1 i1 sl1 → LPathS N h q1 i1 sl1 q2 i2 sl2 →
      LPathS N h q i sl q2 i2 sl2

theorem nexts_lstep {c : BTCtx} (hnr : NoRune c.N) {pos q : Nat} {sl : Slots} {x : Nat × Nat × Slots}
    (hx : x ∈ nexts c pos q sl) : LStepS c.N c.h q pos sl x.2.1 x.1 x.2.2 := by
  unfold nexts at hx
  cases hk : c.N.get q <;> simp only [hk] at hx
  · simp at hx
  · split at hx
    · rename_i hc
      simp only [List.mem_cons, List.not_mem_nil, or_false] at hx
      subst hx
      exact LStepS.byteRange hk hc.1 hc.2.1 hc.2.2
    · simp at hx
  · split at hx
    · simp at hx
    · rename_i hp
      split at hx
      · rename_i nx hf
        simp only [List.mem_cons, List.not_mem_nil, or_false] at hx
        subst hx
        obtain ⟨lo, hi, h1, h2, h3⟩ := Pike.firstTrans_mem hf
        exact LStepS.sparse hk (by omega) h1 h2 h3
      · simp at hx
  · simp only [List.mem_cons, List.not_mem_nil, or_false] at hx
    rcases hx with rfl | rfl
    · exact LStepS.splitL hk
    · exact LStepS.splitR hk
  · simp only [List.mem_cons, List.not_mem_nil, or_false] at hx
    subst hx
    exact LStepS.eps hk
  · simp only [List.mem_cons, List.not_mem_nil, or_false] at hx
    subst hx
    exact LStepS.cap hk
  · simp at hx
  · split at hx
    · simp only [List.mem_cons, List.not_mem_nil, or_false] at hx
      subst hx
      exact LStepS.look hk
    · simp at hx
  · exact absurd hk (hnr _ _).1
  · exact absurd hk (hnr _ _).2

/-- the reference's winning path is a look-free path producing the reference's slots -/
theorem btCapsFind_lpath (c : BTCtx) (hnr : NoRune c.N) : ∀ (fuel pos q : Nat) (sl : Slots) (vis : Array Bool) (e : Nat)
    (sl' : Slots) (v' : Array Bool), btCapsFind c fuel pos q sl vis = (some (e, sl'), v') →
    ∃ mt, LPathS c.N c.h q pos sl mt e sl' ∧ c.N.get mt = .mtch := by
  intro fuel
  induction fuel with
  | zero => intro pos q sl vis e sl' v' hr; simp [btCapsFind] at hr
  | succ fuel ih =>
    intro pos q sl vis e sl' v' hr
    rw [btCapsFind_unfold] at hr
    split at hr
    · simp at hr
    · split at hr
      · simp at hr
      · split at hr
        · rename_i hm
          simp only [Prod.mk.injEq, Option.some.injEq] at hr
          obtain ⟨⟨rfl, rfl⟩, _⟩ := hr
          exact ⟨q, LPathS.refl _ _ _, (Pike.isMatchState_iff c.N q).mp hm⟩
        · obtain ⟨x, hx, v0, v1, hf⟩ := tryCfg_some hr
          obtain ⟨mt, hp, hm⟩ := ih x.1 x.2.1 x.2.2 v0 e sl' v1 hf
          exact ⟨mt, LPathS.cons (nexts_lstep hnr hx) hp, hm⟩

/-- without a capture state for group 0, slot 0 is carried along unchanged -/
theorem lstep_set0 {N : NFA} {h : Bytes} (hc0 : ∀ q idx st nx, N.get q = .cap idx st nx → idx ≠ 0) (v : Int)
    {q i sl q' i' sl'} (hs : LStepS N h q i sl q' i' sl') : LStepS N h q i (sl.set 0 v) q' i' (sl'.set 0 v) := by
  cases hs with
  | byteRange a b c d => exact LStepS.byteRange a b c d
  | sparse a b c d e => exact LStepS.sparse a b c d e
  | splitL a => exact LStepS.splitL a
  | splitR a => exact LStepS.splitR a
  | eps a => exact LStepS.eps a
  | look a => exact LStepS.look a
  | cap a =>
    rename_i idx st
    have hne : slotIdx idx st ≠ 0 := by
      have := hc0 _ _ _ _ a
      unfold slotIdx; omega
    have hcomm : (sl.set (slotIdx idx st) (i : Int)).set 0 v = (sl.set 0 v).set (slotIdx idx st) (i : Int) :=
      List.set_comm _ _ hne
    rw [hcomm]
    exact LStepS.cap a

theorem lpath_set0 {N : NFA} {h : Bytes} (hc0 : ∀ q idx st nx, N.get q = .cap idx st nx → idx ≠ 0) (v : Int)
    {q i sl q' i' sl'} (hp : LPathS N h q i sl q' i' sl') : LPathS N h q i (sl.set 0 v) q' i' (sl'.set 0 v) := by
  induction hp with
  | refl => exact LPathS.refl _ _ _
  | cons st _ ih => exact LPathS.cons (lstep_set0 hc0 v st) ih


/-! ### what a successful `build` guarantees about the roots it visited -/

theorem build_closed {N : NFA} {T : Table} (hb : build N = some T) :
    ∃ Built : Nat → Prop, Built N.startAnchored ∧
      ∀ r, Built r → ∃ c m mm bt, epsClosure N r = some (c, m, mm) ∧ byteTrans N (classTable N) c = some bt ∧
        ∀ cl tgt sl, bt.getD cl none = some (tgt, sl) → Built tgt := by
  unfold build at hb
  split at hb
  · cases hb
  · simp only at hb
    split at hb
    · cases hb
    · rename_i b start hbs
      have hcls := clsOK_classTable N
      have hspec := spec_all N (classTable N) (nextPow2 (alphabetLen N)) hcls (List.range 256)
        (by intro cl hcl; have := nextPow2_le (alphabetLen N); simp; omega) (N.states.size + 2)
        _ N.startAnchored (fun _ => False) b start hbs (wf_init _) (fun r s hrs => by simp at hrs)
        (fun r hr => hr.elim)
      obtain ⟨w, _, l, d⟩ := hspec
      refine ⟨fun r => ∃ id, lookup b.nfaToDFA r = some id, ⟨start, l⟩, ?_⟩
      rintro r ⟨id, hl⟩
      obtain ⟨c, m, mm, bt, q1, q2, _, _, q5⟩ := d r id (lookup_mem hl) (fun hf => hf)
      refine ⟨c, m, mm, bt, q1, q2, ?_⟩
      intro cl tgt sl hbt
      have hlt : cl < nextPow2 (alphabetLen N) := by
        cases Nat.lt_or_ge cl (nextPow2 (alphabetLen N)) with
        | inl h => exact h
        | inr h => have := byteTrans_btOK hcls c bt q2 cl h; rw [hbt] at this; cases this
      obtain ⟨id', u1, _⟩ := (q5 cl hlt).2 tgt sl hbt
      exact ⟨id', u1⟩

theorem all_states {N : NFA} {p : NState → Bool} (h : N.states.toList.all p = true) {q : Nat} (hq : q < N.states.size) :
    p (N.get q) = true := by
  rw [List.all_eq_true] at h
  have hmem : N.states[q] ∈ N.states.toList := by simp
  have := h _ hmem
  simpa [NFA.get, Array.getD_eq_getD_getElem?, Array.getElem?_eq_getElem hq] using this

theorem strictRows_spec {N : NFA} (hs : strictRows N = true) {r : Nat} (hr : r < N.states.size) {c : List Entry}
    {m : Bool} {mm : Nat} (hc : epsClosure N r = some (c, m, mm)) {bt : BT}
    (hbt : byteTrans N (classTable N) c = some bt) : byteTransStrict N (classTable N) c = some bt := by
  unfold strictRows at hs
  rw [List.all_eq_true] at hs
  have := hs r (List.mem_range.mpr hr)
  rw [hc] at this
  simp only [hbt, Option.isNone_some, Bool.or_false] at this
  cases hst : byteTransStrict N (classTable N) c with
  | none => rw [hst] at this; cases this
  | some bt' =>
    have := (byteTransStrict_spec (fun b => by
      have := clsOK_classTable N b; have := nextPow2_le (alphabetLen N); omega) c bt' hst).1
    rw [hbt] at this
    simp only [Option.some.injEq] at this
    rw [this]

/-- the run over NFA roots follows every look-free path that consumes the whole input, and returns its slots -/
theorem arun_of_path {N : NFA} {h : Bytes} (Built : Nat → Prop)
    (hB : ∀ r, Built r → ∃ c m mm bt, epsClosure N r = some (c, m, mm) ∧ byteTrans N (classTable N) c = some bt ∧
        ∀ cl tgt sl, bt.getD cl none = some (tgt, sl) → Built tgt)
    (hs : strictRows N = true)
    (hnb : ∀ q lo hi nx, N.get q = .byteRange lo hi nx → nx ≠ N.startAnchored)
    (hnbs : ∀ q ts lo hi nx, N.get q = .sparse ts → (lo, hi, nx) ∈ ts → nx ≠ N.startAnchored)
    {q i : Nat} {sl : Slots} {mt E : Nat} {slf : Slots} (hp : LPathS N h q i sl mt E slf) (hm : N.get mt = .mtch)
    (hE : E = h.size) :
    ∀ (root mask : Nat) (sl_root : Slots) (c : List Entry) (m : Bool) (mm : Nat), Built root → root < N.states.size →
      epsClosure N root = some (c, m, mm) → (⟨q, mask⟩ : Entry) ∈ c → sl = applyMask mask i sl_root →
      sl_root.length ≤ 32 → ∀ fuel, h.size + 1 - i ≤ fuel →
      arun N (classTable N) h fuel i root sl_root = some (slf.set 1 (E : Int)) := by
  induction hp with
  | refl q i sl =>
    intro root mask sl_root c m mm hbr hrlt hc hmem hsl hlen fuel hfuel
    obtain ⟨fuel, rfl⟩ : ∃ f, fuel = f + 1 := ⟨fuel - 1, by omega⟩
    have hqlt : q < N.states.size := Pike.get_lt_of_ne_fail (by rw [hm]; simp)
    obtain ⟨_, _, c3⟩ := epsClosure_spec hc
    obtain ⟨rfl, rfl⟩ := c3 ⟨q, mask⟩ hmem hqlt hm
    rw [arun, hc]
    simp only []
    rw [if_neg (by omega)]
    simp only [↓reduceIte, hsl, hE]
  | @cons q i sl q1 i1 sl1 q2 i2 sl2 st rest ih =>
    intro root mask sl_root c m mm hbr hrlt hc hmem hsl hlen fuel hfuel
    obtain ⟨c1, c2, c3⟩ := epsClosure_spec hc
    have hclosed : ∀ x ∈ succEntries N ⟨q, mask⟩, x ∈ c := fun x hx =>
      c2 ⟨q, mask⟩ hmem (Pike.get_lt_of_ne_fail (by
        intro hf; simp only [succEntries, hf] at hx; simp at hx)) x hx
    -- a byte step out of closure entry `⟨q, mask⟩`
    have hbyte : ∀ nx, Contrib N ⟨q, mask⟩ (h.at i) nx → nx ≠ N.startAnchored → i < h.size →
        LPathS N h nx (i+1) sl q2 i2 sl2 →
        (∀ (root mask : Nat) (sl_root : Slots) (c : List Entry) (m : Bool) (mm : Nat), Built root →
          root < N.states.size → epsClosure N root = some (c, m, mm) → (⟨nx, mask⟩ : Entry) ∈ c →
          sl = applyMask mask (i+1) sl_root → sl_root.length ≤ 32 → ∀ fuel, h.size + 1 - (i+1) ≤ fuel →
          arun N (classTable N) h fuel (i+1) root sl_root = some (sl2.set 1 (i2 : Int))) →
        arun N (classTable N) h fuel i root sl_root = some (sl2.set 1 (i2 : Int)) := by
      intro nx hcn hne hilt hrest ih'
      obtain ⟨fuel, rfl⟩ : ∃ f, fuel = f + 1 := ⟨fuel - 1, by omega⟩
      obtain ⟨c', m', mm', bt, e1, e2, e3⟩ := hB root hbr
      rw [hc] at e1
      simp only [Option.some.injEq, Prod.mk.injEq] at e1
      obtain ⟨rfl, rfl, rfl⟩ := e1
      have hstrict := strictRows_spec hs hrlt hc e2
      have hent := (byteTransStrict_spec (fun b => by
        have := clsOK_classTable N b; have := nextPow2_le (alphabetLen N); omega) c bt hstrict).2
        ⟨q, mask⟩ hmem (h.at i) nx hcn
      simp only at hent
      rw [arun, hc]
      simp only []
      rw [if_pos hilt, e2]
      simp only [hent]
      rw [if_neg hne]
      have hbn := e3 _ _ _ hent
      obtain ⟨cn, mn, mmn, btn, f1, _, _⟩ := hB nx hbn
      have hnxlt : nx < N.states.size := by
        cases hrest with
        | refl => exact Pike.get_lt_of_ne_fail (by rw [hm]; simp)
        | cons st2 _ =>
          apply Pike.get_lt_of_ne_fail
          intro hf
          cases st2 <;> simp_all
      have := ih' nx 0 sl cn mn mmn hbn hnxlt f1 (epsClosure_spec f1).1 (applyMask_zero _ _).symm
        (by rw [hsl, applyMask_length]; exact hlen) fuel (by omega)
      rw [← hsl]
      exact this
    have hilen : (applyMask mask i sl_root).length ≤ 32 := by rw [applyMask_length]; exact hlen
    cases st with
    | byteRange hk hlt h1 h2 =>
      exact hbyte _ (Or.inl ⟨_, _, hk, h1, h2⟩) (hnb _ _ _ _ hk) hlt rest (fun a b c d e f g g2 g3 g4 g5 g6 g7 g8 =>
        ih hm hE a b c d e f g g2 g3 g4 g5 g6 g7 (by omega))
    | sparse hk hlt hmem' h1 h2 =>
      exact hbyte _ (Or.inr ⟨_, _, _, hk, hmem', h1, h2⟩) (hnbs _ _ _ _ _ hk hmem') hlt rest
        (fun a b c d e f g g2 g3 g4 g5 g6 g7 g8 => ih hm hE a b c d e f g g2 g3 g4 g5 g6 g7 (by omega))
    | splitL hk =>
      exact ih hm hE root mask sl_root c m mm hbr hrlt hc (hclosed _ (by simp [succEntries, hk])) hsl hlen fuel hfuel
    | splitR hk =>
      exact ih hm hE root mask sl_root c m mm hbr hrlt hc (hclosed _ (by simp [succEntries, hk])) hsl hlen fuel hfuel
    | eps hk =>
      exact ih hm hE root mask sl_root c m mm hbr hrlt hc (hclosed _ (by simp [succEntries, hk])) hsl hlen fuel hfuel
    | look hk =>
      exact ih hm hE root mask sl_root c m mm hbr hrlt hc (hclosed _ (by simp [succEntries, hk])) hsl hlen fuel hfuel
    | cap hk =>
      rename_i idx isS
      refine ih hm hE root (setBit mask (slotIdx idx isS)) sl_root c m mm hbr hrlt hc
        (hclosed _ (by simp [succEntries, hk])) ?_ hlen fuel hfuel
      rw [applyMask_setBit _ _ _ _ hlen, hsl]


theorem lpath_first_lt {N : NFA} {h : Bytes} {q i : Nat} {sl : Slots} {mt e : Nat} {sl' : Slots}
    (hp : LPathS N h q i sl mt e sl') (hm : N.get mt = .mtch) : q < N.states.size := by
  cases hp with
  | refl => exact Pike.get_lt_of_ne_fail (by rw [hm]; simp)
  | cons st2 _ =>
    apply Pike.get_lt_of_ne_fail
    intro hf'
    cases st2 <;> simp_all

theorem noRune_of_b {N : NFA} (h : noRuneB N = true) : NoRune N := by
  intro q nx
  by_cases hq : q < N.states.size
  · have := all_states (p := fun s => match s with | .runeAny _ => false | .runeAnyNotNL _ => false | _ => true)
      h hq
    constructor <;> (intro hk; rw [hk] at this; cases this)
  · have := get_oob N (by omega : N.states.size ≤ q)
    constructor <;> (intro hk; rw [hk] at this; cases this)

theorem withSpan_eq_set (e : Nat) (sl : Slots) (hl : 2 ≤ sl.length) :
    withSpan 0 e sl = (sl.set 0 0).set 1 (e : Int) := by
  match sl, hl with
  | a :: b :: rest, _ => rfl

/-- (d) The one-pass DFA is anchored at offset 0 and only answers when the whole input is consumed (its match-wins
    flag is never set).  Whenever the anchored reference matches the WHOLE input, the one-pass DFA returns exactly
    the reference's slots — provided no transition merges two closure entries with different slot masks
    (`strictRows`), no byte transition re-enters the anchored start state (whose DFA state is `DeadState`), there is
    no capture state for group 0 and no rune state.  (All four are decidable on the automaton; the harness checks
    them for every compiled pattern.) -/
theorem onepass_eq_btCaps {N : NFA} {T : Table} (hb : build N = some T) (hs : strictRows N = true)
    (hnb : noBackToStart N = true) (hc0 : noCap0 N = true) (hnr : noRuneB N = true) {n : Nat} (hn2 : 2 ≤ n)
    (hn : n ≤ 32) {h : Bytes} {sl : Slots} (href : btCapsAnchored N h 0 n = some sl)
    (hend : sl.getD 1 0 = (h.size : Int)) : search T h n = some sl := by
  rw [search_eq_arun hb]
  obtain ⟨Built, hB0, hB⟩ := build_closed hb
  -- the reference's path
  unfold btCapsAnchored at href
  rw [if_neg (by omega)] at href
  split at href
  · rename_i e sl' hf
    simp only [Option.some.injEq] at href
    subst href
    have he : e = h.size := by
      simp only [withSpan, List.getD_cons_succ, List.getD_cons_zero] at hend
      exact_mod_cast hend
    subst he
    obtain ⟨b1, b2, b3, _⟩ := btCapsFind_bounds _ _ _ _ _ _ _ sl' _ (Prod.ext hf rfl) (by simp)
    have hlen : sl'.length = n := by rw [b3]; simp [unset]
    obtain ⟨mt, hp, hm⟩ := btCapsFind_lpath { N := N, h := h, spanStart := 0 } (noRune_of_b hnr) _ _ _ _ _ _ sl' _
      (Prod.ext hf rfl)
    simp only at hp hm
    have hc0' : ∀ q idx st nx, N.get q = .cap idx st nx → idx ≠ 0 := by
      intro q idx st nx hk he
      have hq : q < N.states.size := Pike.get_lt_of_ne_fail (by rw [hk]; simp)
      have := all_states (p := fun s => match s with | .cap idx _ _ => idx != 0 | _ => true) hc0 hq
      rw [hk] at this
      simp [he] at this
    have hp0 := lpath_set0 hc0' 0 hp
    have hnb1 : ∀ q lo hi nx, N.get q = .byteRange lo hi nx → nx ≠ N.startAnchored := by
      intro q lo hi nx hk he
      have hq : q < N.states.size := Pike.get_lt_of_ne_fail (by rw [hk]; simp)
      have := all_states (p := fun s => match s with
        | .byteRange _ _ nx => nx != N.startAnchored
        | .sparse ts => ts.all fun t => t.2.2 != N.startAnchored
        | _ => true) hnb hq
      rw [hk] at this
      simp [he] at this
    have hnb2 : ∀ q ts lo hi nx, N.get q = .sparse ts → (lo, hi, nx) ∈ ts → nx ≠ N.startAnchored := by
      intro q ts lo hi nx hk hmem he
      have hq : q < N.states.size := Pike.get_lt_of_ne_fail (by rw [hk]; simp)
      have := all_states (p := fun s => match s with
        | .byteRange _ _ nx => nx != N.startAnchored
        | .sparse ts => ts.all fun t => t.2.2 != N.startAnchored
        | _ => true) hnb hq
      rw [hk] at this
      simp only [List.all_eq_true] at this
      have := this (lo, hi, nx) hmem
      simp [he] at this
    obtain ⟨c, m, mm, bt, e1, _, _⟩ := hB _ hB0
    have hstart_lt : N.startAnchored < N.states.size := lpath_first_lt hp hm
    have := arun_of_path Built hB hs hnb1 hnb2 hp0 hm rfl N.startAnchored 0 ((unset n).set 0 0) c m mm hB0 hstart_lt e1
      (epsClosure_spec e1).1 (applyMask_zero _ _).symm (by simp [unset]; omega) (h.size + 1) (by omega)
    unfold arunSearch
    rw [this, withSpan_eq_set _ _ (by omega)]
  · cases href

end Cx.Caps.OnePass
