import Cx.Model.Reverse
import Cx.Proofs.PikeBase
/-
  Cx.Proofs.ReverseBase — vocabulary for the reverse-automaton theorem.

   * `StepA` / `AcceptsA`: the path relation of `Cx.Model.Nfa` with a sparse state following EVERY transition whose range
     contains the byte (what the Pike VM and the lazy DFA do); equal to `Step` / `Accepts` when `Pike.SparseDet` holds.
     The reverse automaton needs it: the incoming byte edges of a state may overlap (`(?:xa|y[a-c])e`), and the sparse
     state built from them is not first-match deterministic.
   * labelled transitions (`trans`, `lab`) and paths over an abstract edge relation (`ESteps`), with the path reversal
     theorem `esteps_rev`.
   * `Out` / `Via`: the transitions of a builder state seen through the auxiliary states `[glo, ghi)` of its gadget.
   * frame lemmas for the builder primitives and the gadget lemma of `buildSplitChain`.
-/
namespace Cx.Rev
open Cx Cx.Nfa

/-! ### all-matching path relation -/

inductive StepA (N : NFA) (h : Bytes) : Nat × Nat → Nat × Nat → Prop where
  | byteRange {q i lo hi nx} : N.get q = .byteRange lo hi nx → i < h.size → lo ≤ h.at i → h.at i ≤ hi → StepA N h (q, i) (nx, i+1)
  | sparse {q i ts lo hi nx} : N.get q = .sparse ts → i < h.size → (lo, hi, nx) ∈ ts → lo ≤ h.at i → h.at i ≤ hi →
      StepA N h (q, i) (nx, i+1)
  | splitL {q i l r} : N.get q = .split l r → StepA N h (q, i) (l, i)
  | splitR {q i l r} : N.get q = .split l r → StepA N h (q, i) (r, i)
  | eps {q i nx} : N.get q = .eps nx → StepA N h (q, i) (nx, i)
  | cap {q i idx st nx} : N.get q = .cap idx st nx → StepA N h (q, i) (nx, i)
  | look {q i k nx} : N.get q = .look k nx → lookOK k h i = true → StepA N h (q, i) (nx, i)
  | runeAny {q i nx} : N.get q = .runeAny nx → i < h.size → 0 < runeWidth h i → StepA N h (q, i) (nx, i + runeWidth h i)
  | runeAnyNotNL {q i nx} : N.get q = .runeAnyNotNL nx → i < h.size → h.at i ≠ 10 → 0 < runeWidth h i →
      StepA N h (q, i) (nx, i + runeWidth h i)

/-- reflexive-transitive closure of a relation on configurations -/
inductive Star {α : Type} (R : α → α → Prop) : α → α → Prop where
  | refl (a) : Star R a a
  | cons {a b c} : R a b → Star R b c → Star R a c

theorem Star.trans {α : Type} {R : α → α → Prop} {a b c : α} (h1 : Star R a b) (h2 : Star R b c) : Star R a c := by
  induction h1 with
  | refl _ => exact h2
  | cons s _ ih => exact .cons s (ih h2)

theorem Star.single {α : Type} {R : α → α → Prop} {a b : α} (s : R a b) : Star R a b := .cons s (.refl _)

theorem Star.snoc {α : Type} {R : α → α → Prop} {a b c : α} (h1 : Star R a b) (s : R b c) : Star R a c :=
  h1.trans (.single s)

theorem Star.mono {α : Type} {R R' : α → α → Prop} (hm : ∀ a b, R a b → R' a b) {a b : α} (h : Star R a b) :
    Star R' a b := by
  induction h with
  | refl _ => exact .refl _
  | cons s _ ih => exact .cons (hm _ _ s) ih

/-- `Star` of the flipped relation is the flipped `Star` -/
theorem Star.flip {α : Type} {R : α → α → Prop} {a b : α} (h : Star R a b) : Star (fun x y => R y x) b a := by
  induction h with
  | refl _ => exact .refl _
  | cons s _ ih => exact ih.snoc s

abbrev StepsA (N : NFA) (h : Bytes) := Star (StepA N h)

def ReachesA (N : NFA) (h : Bytes) (q i j : Nat) : Prop :=
  ∃ m, StepsA N h (q, i) (m, j) ∧ N.get m = .mtch ∧ m < N.states.size

/-- `h[i:j]` is matched from the anchored start state, every matching sparse transition followed -/
def AcceptsA (N : NFA) (h : Bytes) (i j : Nat) : Prop := ReachesA N h N.startAnchored i j

theorem firstTrans_mem {c nx : Nat} {ts : List (Nat × Nat × Nat)} (hf : firstTrans c ts = some nx) :
    ∃ lo hi, (lo, hi, nx) ∈ ts ∧ lo ≤ c ∧ c ≤ hi := by
  induction ts with
  | nil => simp [firstTrans] at hf
  | cons a ts ih =>
    obtain ⟨lo, hi, n⟩ := a
    simp only [firstTrans] at hf
    split at hf
    · rename_i hc
      cases hf
      exact ⟨lo, hi, List.mem_cons_self, hc.1, hc.2⟩
    · obtain ⟨lo', hi', hm, h1, h2⟩ := ih hf
      exact ⟨lo', hi', List.mem_cons_of_mem _ hm, h1, h2⟩

theorem step_stepA {N : NFA} {h : Bytes} {a b : Nat × Nat} (s : Step N h a b) : StepA N h a b := by
  cases s with
  | byteRange hk h1 h2 h3 => exact .byteRange hk h1 h2 h3
  | sparse hk h1 hf =>
    obtain ⟨lo, hi, hm, h2, h3⟩ := firstTrans_mem hf
    exact .sparse hk h1 hm h2 h3
  | splitL hk => exact .splitL hk
  | splitR hk => exact .splitR hk
  | eps hk => exact .eps hk
  | cap hk => exact .cap hk
  | look hk hl => exact .look hk hl
  | runeAny hk h1 h2 => exact .runeAny hk h1 h2
  | runeAnyNotNL hk h1 h2 h3 => exact .runeAnyNotNL hk h1 h2 h3

theorem stepA_step {N : NFA} (hS : Pike.SparseDet N) {h : Bytes} {a b : Nat × Nat} (s : StepA N h a b) : Step N h a b := by
  cases s with
  | byteRange hk h1 h2 h3 => exact .byteRange hk h1 h2 h3
  | sparse hk h1 hm h2 h3 => exact .sparse hk h1 (hS _ _ hk _ _ _ _ hm h2 h3)
  | splitL hk => exact .splitL hk
  | splitR hk => exact .splitR hk
  | eps hk => exact .eps hk
  | cap hk => exact .cap hk
  | look hk hl => exact .look hk hl
  | runeAny hk h1 h2 => exact .runeAny hk h1 h2
  | runeAnyNotNL hk h1 h2 h3 => exact .runeAnyNotNL hk h1 h2 h3

theorem steps_stepsA {N : NFA} {h : Bytes} {a b : Nat × Nat} (s : Steps N h a b) : StepsA N h a b := by
  induction s with
  | refl _ => exact .refl _
  | cons s _ ih => exact .cons (step_stepA s) ih

theorem stepsA_steps {N : NFA} (hS : Pike.SparseDet N) {h : Bytes} {a b : Nat × Nat} (s : StepsA N h a b) :
    Steps N h a b := by
  induction s with
  | refl _ => exact .refl _
  | cons s _ ih => exact .cons (stepA_step hS s) ih

/-- on automata whose sparse states are first-match deterministic the two path relations coincide -/
theorem acceptsA_iff_accepts {N : NFA} (hS : Pike.SparseDet N) (h : Bytes) (i j : Nat) :
    AcceptsA N h i j ↔ Accepts N h i j := by
  constructor
  · rintro ⟨m, hs, hm⟩
    exact ⟨m, stepsA_steps hS hs, hm⟩
  · rintro ⟨m, hs, hm⟩
    exact ⟨m, steps_stepsA hs, hm⟩

theorem accepts_acceptsA {N : NFA} {h : Bytes} {i j : Nat} (ha : Accepts N h i j) : AcceptsA N h i j := by
  obtain ⟨m, hs, hm⟩ := ha
  exact ⟨m, steps_stepsA hs, hm⟩

/-! ### labelled transitions -/

/-- `none` = epsilon, `some (lo, hi)` = one byte in `[lo, hi]` -/
abbrev Lbl := Option (Nat × Nat)

def lab (l : Lbl) (h : Bytes) (i j : Nat) : Prop :=
  match l with
  | none => j = i
  | some (lo, hi) => i < h.size ∧ j = i + 1 ∧ lo ≤ h.at i ∧ h.at i ≤ hi

def trans : NState → List (Lbl × Nat)
  | .byteRange lo hi nx => [(some (lo, hi), nx)]
  | .sparse ts => ts.map fun t => (some (t.1, t.2.1), t.2.2)
  | .split l r => [(none, l), (none, r)]
  | .eps nx => [(none, nx)]
  | .cap _ _ nx => [(none, nx)]
  | .look _ nx => [(none, nx)]
  | _ => []

def noRuneS : NState → Bool
  | .runeAny _ => false
  | .runeAnyNotNL _ => false
  | _ => true

def noLookS : NState → Bool
  | .look _ _ => false
  | _ => true

/-- fail, byte range, sparse, split or epsilon: the kinds the construction writes (apart from the match state 0) -/
def simpleS : NState → Bool
  | .fail => true
  | .byteRange _ _ _ => true
  | .sparse _ => true
  | .split _ _ => true
  | .eps _ => true
  | _ => false

theorem simpleS_noRune {s : NState} (h : simpleS s = true) : noRuneS s = true := by cases s <;> simp_all [simpleS, noRuneS]
theorem simpleS_noLook {s : NState} (h : simpleS s = true) : noLookS s = true := by cases s <;> simp_all [simpleS, noLookS]
theorem simpleS_ne_mtch {s : NState} (h : simpleS s = true) : s ≠ .mtch := by cases s <;> simp_all [simpleS]

theorem stepA_trans {N : NFA} {h : Bytes} {x i y j : Nat} (hr : noRuneS (N.get x) = true) (s : StepA N h (x, i) (y, j)) :
    ∃ l, (l, y) ∈ trans (N.get x) ∧ lab l h i j := by
  cases s with
  | byteRange hk h1 h2 h3 => exact ⟨some (_, _), by simp [hk, trans], h1, rfl, h2, h3⟩
  | sparse hk h1 hm h2 h3 =>
    rename_i ts lo hi
    refine ⟨some (lo, hi), ?_, h1, rfl, h2, h3⟩
    rw [hk]
    exact List.mem_map.mpr ⟨_, hm, rfl⟩
  | splitL hk => exact ⟨none, by simp [hk, trans], rfl⟩
  | splitR hk => exact ⟨none, by simp [hk, trans], rfl⟩
  | eps hk => exact ⟨none, by simp [hk, trans], rfl⟩
  | cap hk => exact ⟨none, by simp [hk, trans], rfl⟩
  | look hk _ => exact ⟨none, by simp [hk, trans], rfl⟩
  | runeAny hk _ _ => simp [hk, noRuneS] at hr
  | runeAnyNotNL hk _ _ _ => simp [hk, noRuneS] at hr

theorem trans_stepA {N : NFA} {h : Bytes} {x i y j : Nat} (hl : noLookS (N.get x) = true) {l : Lbl}
    (hm : (l, y) ∈ trans (N.get x)) (hlab : lab l h i j) : StepA N h (x, i) (y, j) := by
  cases hk : N.get x with
  | byteRange lo hi nx =>
    rw [hk] at hm
    simp only [trans, List.mem_singleton, Prod.mk.injEq] at hm
    obtain ⟨rfl, rfl⟩ := hm
    obtain ⟨h1, rfl, h2, h3⟩ := hlab
    exact .byteRange hk h1 h2 h3
  | sparse ts =>
    rw [hk] at hm
    obtain ⟨t, ht, he⟩ := List.mem_map.mp hm
    simp only [Prod.mk.injEq] at he
    obtain ⟨rfl, rfl⟩ := he
    obtain ⟨h1, rfl, h2, h3⟩ := hlab
    exact .sparse hk h1 (lo := t.1) (hi := t.2.1) ht h2 h3
  | split a b =>
    rw [hk] at hm
    simp only [trans, List.mem_cons, Prod.mk.injEq, List.mem_nil_iff, or_false] at hm
    rcases hm with ⟨rfl, rfl⟩ | ⟨rfl, rfl⟩
    · cases hlab; exact .splitL hk
    · cases hlab; exact .splitR hk
  | eps nx =>
    rw [hk] at hm
    simp only [trans, List.mem_singleton, Prod.mk.injEq] at hm
    obtain ⟨rfl, rfl⟩ := hm
    cases hlab; exact .eps hk
  | cap a b nx =>
    rw [hk] at hm
    simp only [trans, List.mem_singleton, Prod.mk.injEq] at hm
    obtain ⟨rfl, rfl⟩ := hm
    cases hlab; exact .cap hk
  | look k nx => simp [hk, noLookS] at hl
  | mtch => simp [hk, trans] at hm
  | fail => simp [hk, trans] at hm
  | runeAny nx => simp [hk, trans] at hm
  | runeAnyNotNL nx => simp [hk, trans] at hm

/-! ### paths over an abstract edge relation, and their reversal -/

/-- one step along an edge `p --l--> q` of `E` -/
def EStep (E : Nat → Lbl → Nat → Prop) (h : Bytes) (a b : Nat × Nat) : Prop :=
  ∃ l, E a.1 l b.1 ∧ lab l h a.2 b.2

abbrev ESteps (E : Nat → Lbl → Nat → Prop) (h : Bytes) := Star (EStep E h)

/-- the edges of `E` reversed -/
def RevEdges (E : Nat → Lbl → Nat → Prop) : Nat → Lbl → Nat → Prop := fun q l p => E p l q

/-- the reversed byte string -/
def revB (h : Bytes) : Bytes := h.reverse

@[simp] theorem size_revB (h : Bytes) : (revB h).size = h.size := Array.size_reverse
@[simp] theorem revB_revB (h : Bytes) : revB (revB h) = h := Array.reverse_reverse h

theorem at_reverse (h : Bytes) {i : Nat} (hi : i < h.size) : (revB h).at i = h.at (h.size - 1 - i) := by
  unfold Bytes.at revB
  rw [Array.getD_eq_getD_getElem?, Array.getD_eq_getD_getElem?, Array.getElem?_reverse hi]

theorem lab_le {l : Lbl} {h : Bytes} {i j : Nat} (hl : lab l h i j) (hi : i ≤ h.size) : i ≤ j ∧ j ≤ h.size := by
  cases l with
  | none => cases hl; omega
  | some p => obtain ⟨h1, rfl, _⟩ := hl; omega

theorem lab_rev {l : Lbl} {h : Bytes} {i j : Nat} (hl : lab l h i j) :
    lab l (revB h) (h.size - j) (h.size - i) := by
  cases l with
  | none => cases hl; rfl
  | some p =>
    obtain ⟨lo, hi⟩ := p
    obtain ⟨h1, rfl, h2, h3⟩ := hl
    have hr : (revB h).at (h.size - (i + 1)) = h.at i := by
      rw [at_reverse h (by omega)]
      congr 1
      omega
    refine ⟨by rw [size_revB]; omega, by omega, ?_, ?_⟩
    · rw [hr]; exact h2
    · rw [hr]; exact h3

theorem estep_le {E : Nat → Lbl → Nat → Prop} {h : Bytes} {a b : Nat × Nat} (s : EStep E h a b) (hi : a.2 ≤ h.size) :
    a.2 ≤ b.2 ∧ b.2 ≤ h.size := by
  obtain ⟨l, _, hl⟩ := s
  exact lab_le hl hi

theorem esteps_le {E : Nat → Lbl → Nat → Prop} {h : Bytes} {a b : Nat × Nat} (s : ESteps E h a b) (hi : a.2 ≤ h.size) :
    a.2 ≤ b.2 ∧ b.2 ≤ h.size := by
  induction s with
  | refl _ => exact ⟨Nat.le_refl _, hi⟩
  | cons s _ ih =>
    have := estep_le s hi
    have := ih this.2
    omega

/-- **path reversal**: a path of `E` on `h` read backwards is a path of the reversed edges on the reversed input -/
theorem esteps_rev {E : Nat → Lbl → Nat → Prop} {h : Bytes} {p i q j : Nat} (s : ESteps E h (p, i) (q, j)) :
    ESteps (RevEdges E) (revB h) (q, h.size - j) (p, h.size - i) := by
  have key : ∀ a b : Nat × Nat, ESteps E h a b → ESteps (RevEdges E) (revB h) (b.1, h.size - b.2) (a.1, h.size - a.2) := by
    intro a b s
    induction s with
    | refl _ => exact .refl _
    | cons s _ ih =>
      obtain ⟨l, he, hl⟩ := s
      exact ih.snoc ⟨l, he, lab_rev hl⟩
  exact key _ _ s

/-- the converse, for spans inside the input -/
theorem esteps_rev_inv {E : Nat → Lbl → Nat → Prop} {h : Bytes} {p i q j : Nat} (hi : i ≤ h.size) (hj : j ≤ h.size)
    (s : ESteps (RevEdges E) (revB h) (q, h.size - j) (p, h.size - i)) : ESteps E h (p, i) (q, j) := by
  have := esteps_rev s
  rw [revB_revB, size_revB] at this
  have e1 : h.size - (h.size - i) = i := by omega
  have e2 : h.size - (h.size - j) = j := by omega
  rw [e1, e2] at this
  exact this

/-! ### a builder state's transitions seen through the auxiliary states `[glo, ghi)` of its gadget -/

/-- read a builder state -/
def gget (b : Bld) (z : Nat) : NState := b.getD z .fail

inductive Out (get : Nat → NState) (glo ghi : Nat) : Nat → Lbl → Nat → Prop where
  | direct {x l y} : (l, y) ∈ trans (get x) → ¬ (l = none ∧ glo ≤ y ∧ y < ghi) → Out get glo ghi x l y
  | through {x z l y} : (none, z) ∈ trans (get x) → glo ≤ z → z < ghi → Out get glo ghi z l y → Out get glo ghi x l y

/-- what an epsilon transition to `c` contributes -/
def Via (get : Nat → NState) (glo ghi c : Nat) (l : Lbl) (y : Nat) : Prop :=
  if glo ≤ c ∧ c < ghi then Out get glo ghi c l y else (l = none ∧ y = c)

def Contrib (get : Nat → NState) (glo ghi : Nat) (p : Lbl × Nat) (l : Lbl) (y : Nat) : Prop :=
  match p.1 with
  | none => Via get glo ghi p.2 l y
  | some r => l = some r ∧ y = p.2

theorem out_iff {get : Nat → NState} {glo ghi x : Nat} {l : Lbl} {y : Nat} :
    Out get glo ghi x l y ↔ ∃ p ∈ trans (get x), Contrib get glo ghi p l y := by
  constructor
  · intro h
    cases h with
    | direct hm hn =>
      refine ⟨_, hm, ?_⟩
      cases l with
      | none =>
        simp only [Contrib, Via]
        rw [if_neg (fun hc => hn ⟨rfl, hc.1, hc.2⟩)]
        simp
      | some r => simp [Contrib]
    | through hm h1 h2 ho =>
      refine ⟨_, hm, ?_⟩
      simp only [Contrib, Via]
      rw [if_pos ⟨h1, h2⟩]
      exact ho
  · rintro ⟨⟨l0, c⟩, hm, hc⟩
    cases l0 with
    | none =>
      simp only [Contrib, Via] at hc
      split at hc
      · rename_i ha
        exact .through hm ha.1 ha.2 hc
      · rename_i ha
        obtain ⟨rfl, rfl⟩ := hc
        exact .direct hm (fun hx => ha ⟨hx.2.1, hx.2.2⟩)
    | some r =>
      obtain ⟨rfl, rfl⟩ := hc
      exact .direct hm (by simp)

theorem via_lt {get : Nat → NState} {glo ghi c : Nat} (hc : c < glo) (l : Lbl) (y : Nat) :
    Via get glo ghi c l y ↔ l = none ∧ y = c := by
  unfold Via
  rw [if_neg (by omega)]

theorem via_aux {get : Nat → NState} {glo ghi c : Nat} (h1 : glo ≤ c) (h2 : c < ghi) (l : Lbl) (y : Nat) :
    Via get glo ghi c l y ↔ Out get glo ghi c l y := by
  unfold Via
  rw [if_pos ⟨h1, h2⟩]

theorem out_eps {get : Nat → NState} {glo ghi x c : Nat} (hg : get x = .eps c) (l : Lbl) (y : Nat) :
    Out get glo ghi x l y ↔ Via get glo ghi c l y := by
  rw [out_iff, hg]
  simp [trans, Contrib]

theorem out_split {get : Nat → NState} {glo ghi x a b : Nat} (hg : get x = .split a b) (l : Lbl) (y : Nat) :
    Out get glo ghi x l y ↔ Via get glo ghi a l y ∨ Via get glo ghi b l y := by
  rw [out_iff, hg]
  simp [trans, Contrib]

theorem out_byteRange {get : Nat → NState} {glo ghi x lo hi nx : Nat} (hg : get x = .byteRange lo hi nx) (l : Lbl) (y : Nat) :
    Out get glo ghi x l y ↔ l = some (lo, hi) ∧ y = nx := by
  rw [out_iff, hg]
  simp [trans, Contrib]

theorem out_sparse {get : Nat → NState} {glo ghi x : Nat} {ts : List (Nat × Nat × Nat)} (hg : get x = .sparse ts)
    (l : Lbl) (y : Nat) :
    Out get glo ghi x l y ↔ ∃ t ∈ ts, l = some (t.1, t.2.1) ∧ y = t.2.2 := by
  rw [out_iff, hg]
  constructor
  · rintro ⟨p, hm, hc⟩
    obtain ⟨t, ht, rfl⟩ := List.mem_map.mp hm
    exact ⟨t, ht, hc⟩
  · rintro ⟨t, ht, hc⟩
    exact ⟨_, List.mem_map.mpr ⟨t, ht, rfl⟩, hc⟩

theorem out_fail {get : Nat → NState} {glo ghi x : Nat} (hg : get x = .fail) (l : Lbl) (y : Nat) :
    ¬ Out get glo ghi x l y := by
  rw [out_iff, hg]
  simp [trans]

theorem out_mtch {get : Nat → NState} {glo ghi x : Nat} (hg : get x = .mtch) (l : Lbl) (y : Nat) :
    ¬ Out get glo ghi x l y := by
  rw [out_iff, hg]
  simp [trans]

/-- `Out` only looks at the state itself and at the auxiliary states -/
theorem out_congr {get get' : Nat → NState} {glo ghi x : Nat} {l : Lbl} {y : Nat}
    (hx : get' x = get x) (ha : ∀ z, glo ≤ z → z < ghi → get' z = get z) (h : Out get glo ghi x l y) :
    Out get' glo ghi x l y := by
  induction h with
  | direct hm hn => exact .direct (by rw [hx]; exact hm) hn
  | through hm h1 h2 _ ih => exact .through (by rw [hx]; exact hm) h1 h2 (ih (ha _ h1 h2))

/-! ### builder primitives -/

theorem gget_push_lt (b : Bld) (s : NState) {z : Nat} (h : z < b.size) : gget (b.push s) z = gget b z := by
  unfold gget
  rw [Array.getD_eq_getD_getElem?, Array.getD_eq_getD_getElem?, Array.getElem?_push, if_neg (by omega)]

theorem gget_push_eq (b : Bld) (s : NState) : gget (b.push s) b.size = s := by
  unfold gget
  rw [Array.getD_eq_getD_getElem?, Array.getElem?_push, if_pos rfl]
  rfl

@[simp] theorem size_upd (b : Bld) (id : Nat) (f : NState → NState) : (upd b id f).size = b.size := by
  unfold upd
  rw [Array.size_setIfInBounds]

theorem gget_upd_eq (b : Bld) {id : Nat} (f : NState → NState) (h : id < b.size) : gget (upd b id f) id = f (gget b id) := by
  unfold gget upd
  rw [Array.getD_eq_getD_getElem?, Array.getElem?_setIfInBounds, if_pos rfl, if_pos h]
  rfl

theorem gget_upd_ne (b : Bld) {id z : Nat} (f : NState → NState) (h : z ≠ id) : gget (upd b id f) z = gget b z := by
  have h' : ¬ id = z := fun e => h e.symm
  simp only [gget, upd, Array.getD_eq_getD_getElem?, Array.getElem?_setIfInBounds, if_neg h']

/-! ### `buildSplitChain` -/

theorem chain_spec (b : Bld) (ts : List Nat) (hne : ts ≠ []) :
    b.size ≤ (buildSplitChain b ts).2.size ∧
    (∀ z, z < b.size → gget (buildSplitChain b ts).2 z = gget b z) ∧
    (∀ z, b.size ≤ z → z < (buildSplitChain b ts).2.size → simpleS (gget (buildSplitChain b ts).2 z) = true) ∧
    (∀ (get : Nat → NState) (glo ghi : Nat), glo ≤ b.size → (buildSplitChain b ts).2.size ≤ ghi → (∀ t ∈ ts, t < glo) →
      (∀ z, b.size ≤ z → z < (buildSplitChain b ts).2.size → get z = gget (buildSplitChain b ts).2 z) →
      ∀ l y, Via get glo ghi (buildSplitChain b ts).1 l y ↔ l = none ∧ y ∈ ts) := by
  induction ts with
  | nil => exact absurd rfl hne
  | cons t0 tl ih =>
    cases tl with
    | nil =>
      simp only [buildSplitChain]
      refine ⟨Nat.le_refl _, fun _ _ => trivial, fun z h1 h2 => by omega, ?_⟩
      intro get glo ghi _ _ ht _ l y
      rw [via_lt (ht t0 List.mem_cons_self)]
      simp
    | cons t1 ts =>
      obtain ⟨i1, i2, i3, i4⟩ := ih (by simp)
      simp only [buildSplitChain]
      generalize hr : buildSplitChain b (t1 :: ts) = r at i1 i2 i3 i4
      refine ⟨?_, ?_, ?_, ?_⟩
      · rw [Array.size_push]; omega
      · intro z hz
        rw [gget_push_lt _ _ (by omega)]
        exact i2 z hz
      · intro z h1 h2
        rw [Array.size_push] at h2
        by_cases hz : z = r.2.size
        · subst hz
          rw [gget_push_eq]
          rfl
        · rw [gget_push_lt _ _ (by omega)]
          exact i3 z h1 (by omega)
      · intro get glo ghi hg hh ht hget l y
        rw [Array.size_push] at hh hget
        have hroot : get r.2.size = .split t0 r.1 := by
          rw [hget _ i1 (by omega), gget_push_eq]
        rw [via_aux (by omega) (by omega), out_split hroot, via_lt (ht t0 List.mem_cons_self)]
        rw [i4 get glo ghi hg (by omega) (fun t hm => ht t (List.mem_cons_of_mem _ hm))
          (fun z h1 h2 => by rw [hget z h1 (by omega), gget_push_lt _ _ h2])]
        simp only [List.mem_cons]
        constructor
        · rintro (⟨rfl, rfl⟩ | ⟨rfl, h⟩)
          · exact ⟨rfl, Or.inl rfl⟩
          · exact ⟨rfl, Or.inr h⟩
        · rintro ⟨rfl, rfl | h⟩
          · exact Or.inl ⟨rfl, rfl⟩
          · exact Or.inr ⟨rfl, h⟩

end Cx.Rev
