import Cx.Proofs.CompositeSim
/-
  Cx.Proofs.CompositeSimCost — the rewritten CompositeSearcher is linear in the haystack (C05).

  * erasure: the cost-instrumented copies of Cx.Model.CompositeSim §3 return the plain results (`searchC_erase`);
  * `searchC_steps`: for the tables of ANY non-empty part list, any haystack, offset and mode,
        steps ≤ 5 · (nConfigs + 1) · (|h| − at + 1)
    (steps: bytes skipped, loop-condition evaluations of `matchGreedy`, closure elements examined, threads visited);
    per position the simulation visits each listed thread once (≤ nConfigs, the list has no configuration twice) and
    every closure loop stops at the first marked id, so the elements examined are bounded by the growth of the list
    plus one per thread;
  * the OLD backtracking model is not linear: `old_steps_table` (a `decide`-checked TEST, not a theorem about all n):
    on `[a-c]+[a-c]+[0-9]` and `a^n` its step count is 90, 498, 3298 for n = 4, 8, 16 (24002, 183170 for n = 32, 64: cubic), where the
    new search takes 44, 96, 200 steps (13 n − 8).
-/
namespace Cx.CompSim
open Cx Cx.Fast CompositeSim

/-! ## erasure -/

theorem ite_fst {α β : Type} (c : Prop) [Decidable c] (a b : α × β) :
    (if c then a else b).1 = if c then a.1 else b.1 := by split <;> rfl

theorem ite_snd {α β : Type} (c : Prop) [Decidable c] (a b : α × β) :
    (if c then a else b).2 = if c then a.2 else b.2 := by split <;> rfl

theorem skipC_erase (s : CompositeSim) (h : Bytes) : ∀ k pos, (s.skipC h k pos).1 = s.skip h k pos := by
  intro k
  induction k with
  | zero => intro pos; rfl
  | succ k ih =>
    intro pos
    rw [skipC, skip, ite_fst]
    simp only [ih]

theorem greedyLoopC_erase (h : Bytes) : ∀ ps pos, (greedyLoopC h ps pos).1 = greedyLoop h ps pos := by
  intro ps
  induction ps with
  | nil => intro pos; rfl
  | cons q qs ih =>
    intro pos
    rw [greedyLoopC, greedyLoop]
    simp only [ite_fst, ih]

theorem addClosureC_erase (start : Nat) : ∀ X l m, (addClosureC start X l m).1 = addClosure start X l m := by
  intro X
  induction X with
  | nil => intro l m; rfl
  | cons x xs ih =>
    intro l m
    rw [addClosureC, addClosure]
    simp only [ite_fst, ih]

theorem stepLoopC_erase (s : CompositeSim) (b pos1 : Nat) : ∀ ts next m,
    (stepLoopC s b pos1 ts next m).1 = stepLoop s b pos1 ts next m := by
  intro ts
  induction ts with
  | nil => intro next m; rfl
  | cons t ts ih =>
    intro next m
    rw [stepLoopC, stepLoop]
    simp only [ite_fst, ih, addClosureC_erase]

theorem simConsumeC_erase (s : CompositeSim) (h : Bytes) (e : Bool)
    (kC : Nat → List Thread → Array Bool → Option (Nat × Nat) → Option (Nat × Nat) × Nat)
    (k : Nat → List Thread → Array Bool → Option (Nat × Nat) → Option (Nat × Nat))
    (hk : ∀ a b c d, (kC a b c d).1 = k a b c d) (pos : Nat) (cur : List Thread) (rec : Option (Nat × Nat)) :
    (simConsumeC s h e kC pos cur rec).1 = simConsume s h e k pos cur rec := by
  unfold simConsumeC simConsume
  simp only [ite_fst, stepLoopC_erase, hk]

theorem simLoopC_erase (s : CompositeSim) (h : Bytes) (e : Bool) : ∀ f pos cur mark rec,
    (simLoopC s h e f pos cur mark rec).1 = simLoop s h e f pos cur mark rec := by
  intro f
  induction f with
  | zero => intro pos cur mark rec; rfl
  | succ f ih =>
    intro pos cur mark rec
    cases rec with
    | some r =>
      rw [simLoopC, simLoop]
      exact simConsumeC_erase s h e _ _ ih pos cur (some r)
    | none =>
      rw [simLoopC, simLoop]
      simp only [ite_fst, skipC_erase, addClosureC_erase, simConsumeC_erase s h e _ _ ih]

theorem searchC_erase (s : CompositeSim) (h : Bytes) (a : Nat) (e : Bool) : (s.searchC h a e).1 = s.search h a e := by
  unfold searchC search matchGreedy simulateC simulate
  simp only [ite_fst, skipC_erase, greedyLoopC_erase]
  split
  · rfl
  · split
    · rfl
    · split <;> split <;> first
        | rfl
        | (split
           · rfl
           · simp only [simLoopC_erase])

/-! ## step counts of the pieces -/

theorem nodup_lt_length : ∀ (n : Nat) (l : List Nat), l.Nodup → (∀ x ∈ l, x < n) → l.length ≤ n := by
  intro n
  induction n with
  | zero =>
    intro l _ hlt
    cases l with
    | nil => exact Nat.le_refl _
    | cons a l => exact absurd (hlt a List.mem_cons_self) (by omega)
  | succ n ih =>
    intro l hnd hlt
    have h1 := ih (l.erase n) (hnd.erase n) (fun x hx => by
      have := (List.Nodup.mem_erase_iff hnd).mp hx
      have := hlt x this.2
      omega)
    by_cases hn : n ∈ l
    · rw [List.length_erase_of_mem hn] at h1; omega
    · rw [List.erase_of_not_mem hn] at h1; omega

theorem Marks.length_le {s : CompositeSim} {l : List Thread} {m : Array Bool} (hm : Marks s l m) :
    l.length ≤ s.configs.size := by
  have := nodup_lt_length s.configs.size (l.map (·.cfg)) hm.nodup hm.lt
  simpa using this

theorem skipC_steps (s : CompositeSim) (h : Bytes) : ∀ k pos, (s.skipC h k pos).1 = pos + (s.skipC h k pos).2 := by
  intro k
  induction k with
  | zero => intro pos; rfl
  | succ k ih =>
    intro pos
    rw [skipC]
    split
    · simp only []
      rw [ih (pos + 1)]; omega
    · rfl

theorem scanRun_bounds (mem : Nat → Bool) (h : Bytes) : ∀ k pos, pos ≤ scanRun mem h k pos ∧ scanRun mem h k pos ≤ pos + k := by
  intro k
  induction k with
  | zero => intro pos; exact ⟨Nat.le_refl _, Nat.le_refl _⟩
  | succ k ih =>
    intro pos
    rw [scanRun]
    split
    · have := ih (pos + 1); omega
    · omega

theorem greedyLoopC_steps (h : Bytes) : ∀ ps pos, pos ≤ h.size → (greedyLoopC h ps pos).2 ≤ (h.size - pos) + ps.length := by
  intro ps
  induction ps with
  | nil => intro pos _; exact Nat.zero_le _
  | cons q qs ih =>
    intro pos hpos
    rw [greedyLoopC]
    simp only []
    have hlim : (if bounded q = true ∧ q.maxMatch < ((h.size - pos : Nat) : Int) then pos + q.maxMatch.toNat else h.size) - pos
        ≤ h.size - pos := by
      rw [greedy_limit]; exact maxLen_le q h.size pos
    generalize (if bounded q = true ∧ q.maxMatch < ((h.size - pos : Nat) : Int) then pos + q.maxMatch.toNat else h.size) - pos = k at hlim
    have hb := scanRun_bounds q.mem h k pos
    generalize scanRun q.mem h k pos = pos' at hb
    rw [ite_snd]
    simp only [List.length_cons]
    split
    · omega
    · have := ih pos' (by omega); omega

theorem addClosureC_steps (start : Nat) : ∀ X l m,
    l.length ≤ (addClosureC start X l m).1.1.length ∧
    (addClosureC start X l m).2 ≤ ((addClosureC start X l m).1.1.length - l.length) + 1 := by
  intro X
  induction X with
  | nil => intro l m; exact ⟨Nat.le_refl _, Nat.zero_le _⟩
  | cons x xs ih =>
    intro l m
    rw [addClosureC]
    split
    · exact ⟨Nat.le_refl _, by simp⟩
    · simp only []
      have := ih (l ++ [{ cfg := x, start := start }]) (m.setIfInBounds x true)
      rw [List.length_append, List.length_singleton] at this
      omega

theorem stepLoopC_steps (s : CompositeSim) (b pos1 : Nat) : ∀ ts next m,
    next.length ≤ (stepLoopC s b pos1 ts next m).1.1.length ∧
    (stepLoopC s b pos1 ts next m).2 ≤ 2 * ts.length + ((stepLoopC s b pos1 ts next m).1.1.length - next.length) := by
  intro ts
  induction ts with
  | nil => intro next m; exact ⟨Nat.le_refl _, Nat.zero_le _⟩
  | cons t ts ih =>
    intro next m
    rw [stepLoopC]
    simp only [List.length_cons]
    split
    · simp only []
      have := ih next m; omega
    · have ha := addClosureC_steps t.start (s.nxOf t.cfg) next m
      generalize addClosureC t.start (s.nxOf t.cfg) next m = r at ha
      split
      · simp only []
        have := ih r.1.1 r.1.2.1; omega
      · split
        · simp only []; omega
        · simp only []
          have := ih r.1.1 r.1.2.1; omega

/-! ## the loop -/

theorem cost_arith (nC n pos pos' : Nat) (h1 : pos ≤ pos') (h2 : pos' ≤ n) :
    (pos' - pos) + (nC + 1) + (3 * nC + (4 * nC + 2) * (n - pos')) ≤ (4 * nC + 2) * (n + 1 - pos) := by
  rw [show n + 1 - pos = (n - pos') + ((pos' - pos) + 1) by omega, Nat.mul_add, Nat.mul_add, Nat.mul_one]
  have : pos' - pos ≤ (4 * nC + 2) * (pos' - pos) := Nat.le_mul_of_pos_left _ (by omega)
  omega

/-- the statement of `simLoopC_steps` for one amount of fuel -/
def CostSpec (s : CompositeSim) (h : Bytes) (e : Bool) (f : Nat) : Prop :=
  ∀ (pos : Nat) (cur : List Thread) (mark : Array Bool) (rec : Option (Nat × Nat)),
    pos ≤ h.size → h.size + 1 - pos ≤ f → Marks s cur mark → (rec = none → Closed s cur) →
    (simLoopC s h e f pos cur mark rec).2 ≤ (4 * s.configs.size + 2) * (h.size + 1 - pos)

theorem simConsumeC_steps {s : CompositeSim} (ok : TablesOK s) (h : Bytes) (e : Bool) (f : Nat) (ih : CostSpec s h e f)
    (pos : Nat) (cur : List Thread) (rec : Option (Nat × Nat)) (_hpos : pos ≤ h.size) (hf : h.size + 1 - pos ≤ f + 1)
    (hlt : ∀ t ∈ cur, t.cfg < s.configs.size) (hlen : cur.length ≤ s.configs.size) :
    (simConsumeC s h e (simLoopC s h e f) pos cur rec).2 ≤
      3 * s.configs.size + (4 * s.configs.size + 2) * (h.size - pos) := by
  unfold simConsumeC
  split
  · exact Nat.zero_le _
  · rename_i hbrk
    have hp : pos < h.size := by
      rcases Nat.lt_or_ge pos h.size with hlt' | hge
      · exact hlt'
      · exfalso; apply hbrk; simp [hge]
    have hE := stepLoopC_erase s (h.at pos) (pos + 1) cur [] s.freshMark
    have hS := stepLoopC_steps s (h.at pos) (pos + 1) cur [] s.freshMark
    obtain ⟨_, e2, e3⟩ := stepLoop_spec ok h (h.size - (pos + 1)) pos hp cur [] s.freshMark (marks_fresh s)
      (closed_nil s) hlt
    rw [← hE] at e2 e3
    generalize stepLoopC s (h.at pos) (pos + 1) cur [] s.freshMark = R at hS e2 e3 ⊢
    have hnl := e2.length_le
    simp only [List.length_nil, Nat.sub_zero] at hS
    obtain ⟨⟨R1, R2, R3⟩, Rc⟩ := R
    simp only [] at hS e2 e3 hnl ⊢
    have key : ∀ rec' : Option (Nat × Nat), (rec' = none → R3 = none) →
        (if (rec'.isSome && e) = true then (rec', Rc)
          else ((simLoopC s h e f (pos + 1) R1 R2 rec').1, (simLoopC s h e f (pos + 1) R1 R2 rec').2 + Rc)).2 ≤
        3 * s.configs.size + (4 * s.configs.size + 2) * (h.size - pos) := by
      intro rec' hrec
      rw [ite_snd]
      split
      · simp only []; omega
      · simp only []
        have := ih (pos + 1) R1 R2 rec' (by omega) (by omega) e2 (fun hnone => e3 (hrec hnone))
        rw [show h.size + 1 - (pos + 1) = h.size - pos by omega] at this
        omega
    cases R3 with
    | some m => exact key (some m) (fun hc => nomatch hc)
    | none => exact key rec (fun _ => rfl)

theorem simLoopC_steps {s : CompositeSim} (ok : TablesOK s) (h : Bytes) (e : Bool) : ∀ f, CostSpec s h e f := by
  intro f
  induction f with
  | zero => intro pos _ _ _ hpos hf _ _; omega
  | succ f ih =>
    intro pos cur mark rec hpos hf hm hcl
    cases rec with
    | some r =>
      rw [simLoopC]
      have := simConsumeC_steps ok h e f ih pos cur (some r) hpos hf (fun t ht => hm.lt _ (List.mem_map_of_mem ht))
        hm.length_le
      have := cost_arith s.configs.size h.size pos pos (Nat.le_refl _) hpos
      omega
    | none =>
      rw [simLoopC]
      simp only []
      have hcl := hcl rfl
      have hskip := skip_spec s h (h.size - pos) pos (by omega)
      have hsk1 := skipC_erase s h (h.size - pos) pos
      have hsk2 := skipC_steps s h (h.size - pos) pos
      generalize hidle : (cur.isEmpty && !s.startMatches) = idle
      generalize hSK : (if idle = true then s.skipC h (h.size - pos) pos else (pos, 0)) = sk
      have hle : pos ≤ sk.1 ∧ sk.1 ≤ h.size ∧ sk.1 = pos + sk.2 := by
        rw [← hSK]; split
        · rw [hsk1] at hsk2 ⊢; exact ⟨hskip.1, hskip.2.1, hsk2⟩
        · exact ⟨Nat.le_refl _, hpos, rfl⟩
      have harith := cost_arith s.configs.size h.size pos sk.1 hle.1 hle.2.1
      split
      · simp only []; omega
      · obtain ⟨_, a2, a3, _⟩ := newAttempt_spec ok h sk.1 cur mark hm hcl
        have hE := addClosureC_erase sk.1 s.startClosure cur mark
        have hS := addClosureC_steps sk.1 s.startClosure cur mark
        rw [← hE] at a2 a3
        generalize addClosureC sk.1 s.startClosure cur mark = A at hS a2 a3 ⊢
        have hal := a2.length_le
        have hlt : ∀ t ∈ A.1.1, t.cfg < s.configs.size := fun t ht => a2.lt _ (List.mem_map_of_mem ht)
        split
        · split
          · simp only []; omega
          · simp only []
            have := simConsumeC_steps ok h e f ih sk.1 A.1.1 (some (sk.1, sk.1)) hle.2.1 (by omega) hlt hal
            omega
        · simp only []
          have := simConsumeC_steps ok h e f ih sk.1 A.1.1 none hle.2.1 (by omega) hlt hal
          omega

theorem numParts_le (parts : List CharClassPart) : parts.length ≤ numConfigs parts := by
  induction parts with
  | nil => exact Nat.le_refl _
  | cons p ps ih => rw [numConfigs, List.length_cons]; omega

/-- **linear time**: the instrumented `search` of the tables of ANY non-empty part list takes at most
    `5 · (nConfigs + 1) · (|h| − at + 1)` steps, in both modes (`SearchAt`: `e = false`, `IsMatch`: `e = true`) -/
theorem searchC_steps (parts : List CharClassPart) (hne : parts ≠ []) (hsz : ∀ q ∈ parts, q.membership.size ≤ 256)
    (h : Bytes) (a : Nat) (e : Bool) :
    ((buildTables parts).searchC h a e).2 ≤ 5 * ((buildTables parts).configs.size + 1) * (h.size - a + 1) := by
  have ok := tablesOK parts hne hsz
  have hp : (buildTables parts).parts = parts := rfl
  have hnp : parts.length ≤ (buildTables parts).configs.size := by rw [buildTables_size]; exact numParts_le parts
  unfold searchC
  rw [hp]
  split
  · exact Nat.zero_le _
  · simp only []
    split
    · exact Nat.zero_le _
    · rename_i ha
      have hskip := skip_spec (buildTables parts) h (h.size - a) a (by omega)
      have hsk1 := skipC_erase (buildTables parts) h (h.size - a) a
      have hsk2 := skipC_steps (buildTables parts) h (h.size - a) a
      generalize hSK : (if (!(buildTables parts).startMatches) = true then (buildTables parts).skipC h (h.size - a) a else (a, 0)) = sk
      have hle : a ≤ sk.1 ∧ sk.1 ≤ h.size ∧ sk.1 = a + sk.2 := by
        rw [← hSK]; split
        · rw [hsk1] at hsk2 ⊢; exact ⟨hskip.1, hskip.2.1, hsk2⟩
        · exact ⟨Nat.le_refl _, by omega, rfl⟩
      generalize hnC : (buildTables parts).configs.size = nC at hnp
      -- 5 (nC + 1) (n - a + 1) dominates everything below
      have hbig : (sk.1 - a) + ((h.size - sk.1) + nC) + (4 * nC + 2) * (h.size + 1 - sk.1) ≤ 5 * (nC + 1) * (h.size - a + 1) := by
        have h1 : (4 * nC + 2) * (h.size + 1 - sk.1) ≤ (4 * nC + 2) * (h.size - a + 1) :=
          Nat.mul_le_mul_left _ (by omega)
        have h2 : 5 * (nC + 1) * (h.size - a + 1) = (4 * nC + 2) * (h.size - a + 1) + (nC + 3) * (h.size - a + 1) := by
          rw [← Nat.add_mul]; congr 1; omega
        have h3 : (nC + 3) * (h.size - a + 1) = nC * (h.size - a + 1) + 3 * (h.size - a + 1) := by rw [Nat.add_mul]
        have h4 : nC ≤ nC * (h.size - a + 1) := Nat.le_mul_of_pos_right _ (by omega)
        omega
      split
      · simp only []; omega
      · have hg := greedyLoopC_steps h parts sk.1 hle.2.1
        generalize greedyLoopC h parts sk.1 = g at hg ⊢
        split
        · simp only []; omega
        · simp only []
          unfold simulateC
          have := simLoopC_steps ok h e (h.size + 1 - sk.1) sk.1 [] (buildTables parts).freshMark none hle.2.1
            (Nat.le_refl _) (marks_fresh _) (fun _ => closed_nil _)
          rw [hnC] at this
          omega

/-- **C05 for the CompositeSearcher**: for every pattern from which `NewCompositeSearcher` builds a searcher, every
    haystack, offset and mode (`e = false`: `SearchAt`, `e = true`: `IsMatch`), the instrumented search returns the plain
    result and takes at most `5 · (nConfigs + 1) · (|h| − at + 1)` steps -/
theorem compSim_linear (re : Re) (s : CompositeSim) (hs : newCompositeSim re = some s) (h : Bytes) (a : Nat) (e : Bool) :
    (s.searchC h a e).1 = s.search h a e ∧ (s.searchC h a e).2 ≤ 5 * (s.configs.size + 1) * (h.size - a + 1) := by
  refine ⟨searchC_erase s h a e, ?_⟩
  unfold newCompositeSim at hs
  cases hx : extractCompositeParts re with
  | none => rw [hx] at hs; exact nomatch hs
  | some ps =>
    rw [hx] at hs
    cases hs
    obtain ⟨hne, hsz⟩ := extractCompositeParts_props re ps hx
    exact searchC_steps ps hne hsz h a e

/-- the number of configurations is a constant of the pattern: `Σ (countCap part + 1)` -/
theorem compSim_nConfigs (re : Re) (s : CompositeSim) (hs : newCompositeSim re = some s) :
    s.configs.size = numConfigs s.parts := by
  unfold newCompositeSim at hs
  cases hx : extractCompositeParts re with
  | none => rw [hx] at hs; exact nomatch hs
  | some ps =>
    rw [hx] at hs
    cases hs
    exact buildTables_size ps

/-! ## the old backtracking model is not linear (a TEST by kernel evaluation, not a theorem about every n) -/

/-- `[a-c]+[a-c]+[0-9]` with the bytes renamed (`a` ↦ 0, a digit ↦ 1) so that the tables are two entries long and the
    kernel evaluates the step counts quickly; the counts do not depend on the naming (`re-csim steps` of the driver
    gives the same numbers for `[a-c]+[a-c]+[0-9]` on `a^n`) -/
def cubicParts : List CharClassPart :=
  [{ membership := #[true, false], minMatch := 1, maxMatch := 0 },
   { membership := #[true, false], minMatch := 1, maxMatch := 0 },
   { membership := #[false, true], minMatch := 1, maxMatch := 0 }]

/-- `a^n` (with `a` ↦ 0) -/
def aHay (n : Nat) : Bytes := Array.replicate n 0

/-- TEST (evaluation, `decide +kernel`): steps of the OLD `SearchAt` on `a^n`, n = 4, 8, 16: 90, 498, 3298 — each
    doubling multiplies the count by more than 4 (the growth is cubic: 24002 at n = 32, 183170 at n = 64 by `#eval`) -/
theorem old_steps_table :
    (oldSearchAtC cubicParts (aHay 4) 0).2 = 90 ∧ (oldSearchAtC cubicParts (aHay 8) 0).2 = 498 ∧
    (oldSearchAtC cubicParts (aHay 16) 0).2 = 3298 := by decide +kernel

/-- TEST: the new search on the same input (n = 16): 200 steps, 6 configurations (`#eval`: 44, 96, 200, 408, 824 for
    n = 4 … 64, i.e. 13 n − 8) -/
theorem new_steps_16 :
    ((buildTables cubicParts).searchC (aHay 16) 0 false).2 = 200 ∧ (buildTables cubicParts).configs.size = 6 := by
  decide +kernel

/-- the old count at n = 16 exceeds the proved linear bound `5 · (nConfigs + 1) · (|h| − at + 1)` of the new search on
    that input (`nConfigs = 6` by `new_steps_16`, `|h| = 16`, `at = 0`) -/
theorem old_exceeds_linear_bound :
    5 * (6 + 1) * (16 - 0 + 1) < (oldSearchAtC cubicParts (aHay 16) 0).2 := by
  rw [old_steps_table.2.2]; decide

end Cx.CompSim
