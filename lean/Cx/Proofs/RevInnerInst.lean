import Cx.Proofs.RevInner
import Cx.Proofs.RevSuffixInst
import Cx.Proofs.Compile
/-
  Cx.Proofs.RevInnerInst — the reverse-inner strategy theorem with the REAL component models plugged in:

    Mt   := Accepts N          N    = the automaton of the WHOLE pattern
    Pre  := Accepts Npre       Npre = the automaton compiled from the PREFIX AST alone (`NewReverseInnerSearcher` l.291-306)
    Suf  := abstract           (the code builds no automaton for the suffix portion; `SplitHyp` says what it is)
    ref  := btSearchAt N
    fwdIsMatchAt / fwdAnchoredStopAt / fwdEnd := the lazy DFA model's uncached `IsMatchAt` / `SearchAtAnchored` / `SearchAt`
              on N (`Dfa.earliestU_eq_bt'`, `Dfa.anchoredU_eq_bt'`, `Dfa.searchAtU_eq_bt'`); `stop` is any function
    pike := `Pike.searchAt N · · false`,  pfFind := the naive multi-literal search `refPfFindSet lits`
    revLimited : reverse DFA of `Rev.reverse Npre false` — contract `RevSuffix.RevDfaContract Npre revL · h`
    revFull    : reverse DFA of `Rev.reverse N false`    — contract `RevSuffix.RevDfaContract N · revF h`
  (the reverse DFA search loops are not modelled; the contract is stated on the reverse AUTOMATON, as for reverse suffix).

  `split_of_cat`: if N is compiled from `cat (pre ++ suf)` and Npre from `cat pre` (what `buildPrefixAST` / the compiler do),
  `SplitHyp` holds with `Suf := MCat suf` — by the compiler's language theorem `compile_lang`.
  `hull_plus_cls`: the hull closure `exactStart` needs holds for `[class]+` (what `isASCIIClassLoop` accepts).
-/
namespace Cx.RevInner
open Cx Cx.Nfa
open Cx.RevSuffix (RevAnswer Occ RevDfaContract NfaHyp revAcc_iff)

/-! ### the component oracles -/

/-- `forwardDFA.IsMatchAt`: the lazy DFA's earliest search; the Pike VM when the DFA gives up -/
def isMatchOracle (N : NFA) (cfg : Dfa.Config) (h : Bytes) (a : Nat) : Bool :=
  match Dfa.apiIsMatchAtU N cfg h a with
  | .ok r => r
  | .gaveUp => (Pike.searchAt N h a false).isSome

/-- `forwardDFA.SearchAtAnchored`: the lazy DFA's anchored search (when it gives up: the priority search from `a`) -/
def anchOracle (N : NFA) (cfg : Dfa.Config) (h : Bytes) (a : Nat) : Option Nat :=
  match Dfa.apiSearchAtAnchoredU N cfg h a with
  | .ok r => r
  | .gaveUp => Pike.btFirst N h a a

/-- the searcher over the component models; the two reverse DFAs and `stop` are parameters -/
def realOracles (N : NFA) (cfg : Dfa.Config) (lits : List Bytes) (revL : Bytes → Nat → Nat → Nat → RevAnswer)
    (revF : Bytes → Nat → Nat → Option Nat) (stop : Bytes → Nat → Nat) : Oracles where
  pfFind := refPfFindSet lits
  revLimited := revL
  fwdIsMatchAt := isMatchOracle N cfg
  fwdAnchoredStopAt := fun h a => (anchOracle N cfg h a, stop h a)
  fwdEnd := RevSuffix.fwdOracle N cfg
  revFull := revF
  pike := fun h a => Pike.searchAt N h a false

/-- the pattern is PREFIX · SUFFIX, and SUFFIX starts with one of the inner literals -/
structure SplitHyp (N Npre : NFA) (Suf : Bytes → Nat → Nat → Prop) (lits : List Bytes) : Prop where
  split : ∀ (h : Bytes) s e, s ≤ h.size → (Accepts N h s e ↔ ∃ p, Accepts Npre h s p ∧ Suf h p e)
  suf_le : ∀ (h : Bytes) p e, Suf h p e → p ≤ e
  suf_lit : ∀ (h : Bytes) p e, Suf h p e → ∃ l, l ∈ lits ∧ Occ h l p
  lit_pos : ∀ l, l ∈ lits → 0 < l.size

theorem isMatchOracle_eq {N : NFA} {cfg : Dfa.Config} (H : NfaHyp N cfg) {h : Bytes} (hb : Dfa.BytesOK h) {a : Nat}
    (ha : a ≤ h.size) : isMatchOracle N cfg h a = (btSearchAt N h a).isSome := by
  unfold isMatchOracle Dfa.apiIsMatchAtU
  by_cases hlt : a < h.size
  · rw [if_neg (by omega), Dfa.earliestU_eq_bt' H.rev.wf H.rev.nr H.sd H.pre cfg H.brk H.lim hb ha]
  · have : a = h.size := by omega
    subst this
    rw [if_pos (Nat.le_refl _), if_pos rfl]
    simp only []
    rw [Bool.eq_iff_iff, Dfa.bt_isSome_iff N h (Nat.le_refl _), Dfa.accepts_end_iff, Dfa.matchesEmptyAt_iff]

theorem anchOracle_lt {N : NFA} {cfg : Dfa.Config} (H : NfaHyp N cfg) (h : Bytes) {a : Nat} (ha : a < h.size) :
    anchOracle N cfg h a = Pike.btFirst N h a a := by
  unfold anchOracle Dfa.apiSearchAtAnchoredU
  rw [if_neg (by omega), if_neg (by omega), Dfa.anchoredU_eq_bt' H.rev.wf H.rev.nr H.sd cfg H.brk H.lim h (Nat.le_of_lt ha)]

theorem anchOracle_end (N : NFA) (cfg : Dfa.Config) (h : Bytes) :
    anchOracle N cfg h h.size = if Dfa.matchesEmptyAt N h h.size then some h.size else none := by
  unfold anchOracle Dfa.apiSearchAtAnchoredU
  rw [if_neg (by omega), if_pos rfl]

/-- the anchored search: sound, complete, and it finds the end the reference reports -/
theorem anchOracle_spec {N : NFA} {cfg : Dfa.Config} (H : NfaHyp N cfg) {h : Bytes} {a : Nat} (ha : a ≤ h.size) :
    (∀ e, anchOracle N cfg h a = some e → Accepts N h a e) ∧ (anchOracle N cfg h a = none → ∀ e, ¬ Accepts N h a e) ∧
    (∀ a0 e, a0 ≤ a → btSearchAt N h a0 = some (a, e) → anchOracle N cfg h a = some e) := by
  have hd := Dfa.sparseDisjoint_of_B H.sd
  have hR : Pike.RuneOK N h := Or.inl (Dfa.noRune_of_B H.rev.nr)
  by_cases hlt : a < h.size
  · rw [anchOracle_lt H h hlt]
    refine ⟨fun e he => Pike.btFirst_sound he, fun hn e hacc => Pike.btFirst_complete (Nat.le_refl _) ha hn ⟨e, hacc⟩, ?_⟩
    intro a0 e h0 hr
    have bfirst : Pike.btFirst N h a0 a = some e := Pike.btSearchFrom_first N h a0 _ _ a e hr
    have r1 := Pike.R_eq_bt hd hR (at_ := a0) (s := a) h0 ha
    have r2 := Pike.R_eq_bt hd hR (at_ := a) (s := a) (Nat.le_refl _) ha
    rw [r1, bfirst] at r2
    exact r2.symm
  · have hae : a = h.size := by omega
    subst hae
    rw [anchOracle_end]
    refine ⟨?_, ?_, ?_⟩
    · intro e he
      split at he
      · rename_i hm
        cases he
        exact (Dfa.matchesEmptyAt_iff N h).mp hm
      · cases he
    · intro hn e hacc
      split at hn
      · cases hn
      · rename_i hm
        have := reaches_pos_le hacc (Nat.le_refl _)
        have he : e = h.size := by omega
        subst he
        exact hm ((Dfa.matchesEmptyAt_iff N h).mpr hacc)
    · intro a0 e _ hr
      obtain ⟨b1, b2, b3, b4⟩ := btSearchAt_sound N h a0 h.size e hr
      have he : e = h.size := by omega
      subst he
      rw [if_pos ((Dfa.matchesEmptyAt_iff N h).mpr b4)]

/-- **all component contracts hold for the real models** (reverse DFAs: relative to `RevDfaContract`) -/
theorem realOracles_spec {N Npre : NFA} {cfg cfgp : Dfa.Config} (H : NfaHyp N cfg) (Hp : NfaHyp Npre cfgp)
    {Suf : Bytes → Nat → Nat → Prop} {lits : List Bytes} (SH : SplitHyp N Npre Suf lits) {P : Params}
    (hnull : (P.prefixNullable = false → ∀ (h : Bytes) a, ¬ Accepts Npre h a a) ∧
      (P.startAnchored = true → ∀ (h : Bytes) a, 0 < a → ¬ Accepts Npre h a a))
    (hex : P.exactStart = true → ∀ (h : Bytes) s p s' p', s ≤ h.size → Accepts Npre h s p → Accepts Npre h s' p' → s ≤ s' →
      p' ≤ p → Accepts Npre h s p')
    (hlb : P.lineBounded = true → ∀ (h : Bytes) s e, s ≤ h.size → Accepts N h s e → ∀ i, s ≤ i → i < e → h.at i ≠ 10)
    {revL : Bytes → Nat → Nat → Nat → RevAnswer} {revF : Bytes → Nat → Nat → Option Nat} {stop : Bytes → Nat → Nat}
    {revF' : Bytes → Nat → Nat → Option Nat} {revL' : Bytes → Nat → Nat → Nat → RevAnswer}
    {h : Bytes} (hb : Dfa.BytesOK h) (Cp : RevDfaContract Npre revL revF' h) (C : RevDfaContract N revL' revF h) :
    Spec (realOracles N cfg lits revL revF stop) P (Accepts N) (fun h s p => s ≤ h.size ∧ Accepts Npre h s p) Suf
      (fun h p => ∃ l, l ∈ lits ∧ Occ h l p) (btSearchAt N) h := by
  have hd := Dfa.sparseDisjoint_of_B H.sd
  have hR : Pike.RuneOK N h := Or.inl (Dfa.noRune_of_B H.rev.nr)
  have hpos : ∀ {s e : Nat}, s ≤ h.size → Accepts N h s e → s ≤ e ∧ e ≤ h.size := fun hs ha => reaches_pos_le ha hs
  have hposp : ∀ {s e : Nat}, s ≤ h.size → Accepts Npre h s e → s ≤ e ∧ e ≤ h.size := fun hs ha => reaches_pos_le ha hs
  exact {
    ref_sound := by
      intro a s e _ hr
      obtain ⟨b1, b2, b3, b4⟩ := btSearchAt_sound N h a s e hr
      exact ⟨b1, by omega, b4⟩
    ref_leftmost := by
      intro a s e ha hr s' e' g1 g2
      apply Classical.byContradiction
      intro hlt
      exact (btSearchAt_leftmost N h a ha).1 s e hr s' e' g1 (by omega) g2
    ref_none := fun a ha hr s e g1 g2 => (btSearchAt_leftmost N h a ha).2 hr s e g1 g2
    mt_le := fun s e hs ha => hpos hs ha
    split := by
      intro s e hs ha
      obtain ⟨p, hp, hsf⟩ := (SH.split h s e hs).mp ha
      exact ⟨p, ⟨hs, hp⟩, hsf⟩
    join := fun s p e hp hsf => (SH.split h s e hp.1).mpr ⟨p, hp.2, hsf⟩
    pre_le := fun s p hp => (hposp hp.1 hp.2).1
    suf_le := SH.suf_le h
    suf_lit := SH.suf_lit h
    lit_lt := by
      rintro p ⟨l, hl, ho⟩
      have := ho.1
      have := SH.lit_pos l hl
      omega
    pf_some := by
      intro st p _ hf
      obtain ⟨f1, ⟨l, hl, ho⟩, f3⟩ := refPfFindSet_some hf
      have := ho.1
      have := SH.lit_pos l hl
      exact ⟨f1, by omega, f3⟩
    pf_none := fun st _ hf => refPfFindSet_none hf
    revL_found := by
      intro lo e m s hlo he hr
      obtain ⟨c1, c2, c3, c4⟩ := Cp.lim_found lo e m s hlo he hr
      refine ⟨c1, c2, ⟨by omega, (revAcc_iff Hp h (by omega) he).mp c3⟩, ?_⟩
      intro s' g1 g2
      apply Classical.byContradiction
      intro hlt
      exact c4 s' g1 (by omega) ((revAcc_iff Hp h g2.1 he).mpr g2.2)
    revL_none := by
      intro lo e m hlo he hr s' g1 g3
      have := (hposp g3.1 g3.2).1
      exact Cp.lim_none lo e m hlo he hr s' g1 this ((revAcc_iff Hp h g3.1 he).mpr g3.2)
    null_no := by
      intro a ha hc hp
      simp only [Bool.and_eq_false_iff, Bool.or_eq_false_iff, beq_eq_false_iff_ne, Bool.not_eq_false'] at hc
      rcases hc with hc | ⟨hc1, hc2⟩
      · exact hnull.1 hc h a hp.2
      · exact hnull.2 hc2 h a (by omega) hp.2
    isMatchAt := fun a ha => isMatchOracle_eq H hb ha
    anch_some := fun s e hs hr => (anchOracle_spec H hs).1 e hr
    anch_none := fun s hs hr => (anchOracle_spec H hs).2.1 hr
    anch_ref := by
      intro a s e ha hr
      obtain ⟨b1, b2, b3, b4⟩ := btSearchAt_sound N h a s e hr
      exact (anchOracle_spec H (show s ≤ h.size by omega)).2.2 a e b1 hr
    revF_some := by
      intro lo e s hlo he hr
      obtain ⟨c1, c2, c3, c4⟩ := C.full_some lo e s hlo he hr
      refine ⟨c1, (revAcc_iff H h (by omega) he).mp c3, ?_⟩
      intro s' g1 g2 g3
      apply Classical.byContradiction
      intro hlt
      exact c4 s' g1 (by omega) ((revAcc_iff H h g2 he).mpr g3)
    fwd := by
      intro a ha
      show RevSuffix.fwdOracle N cfg h a = _
      unfold RevSuffix.fwdOracle
      have hok : Dfa.apiSearchAtU N cfg h a = .ok ((btSearchAt N h a).map (·.2)) := by
        by_cases hlt : a < h.size
        · unfold Dfa.apiSearchAtU
          rw [if_neg (by omega), if_neg (by omega)]
          exact Dfa.searchAtU_eq_bt' H.rev.wf H.rev.nr H.sd H.pre cfg H.brk H.lim hb ha
        · have : a = h.size := by omega
          subst this
          exact Dfa.apiSearchAtU_end N cfg h
      rw [hok]
    pike := fun a ha => Pike.search_eq_bt H.una hd hR ha
    exact_hull := fun he s p s' p' g1 g2 g3 g4 => ⟨g1.1, hex he h s p s' p' g1.1 g1.2 g2.2 g3 g4⟩
    lb_nl := fun hl s e hs ha => hlb hl h s e hs ha
    lb_restart := fun _ a a' s e ha hr g1 g2 => RevSuffix.btSearchAt_restart hd hR ha hr g1 g2 }

/-- **the strategy over the real component models is the reference search** (no `dotStarLiteral`): for automata satisfying the
    decidable hypotheses, split as `SplitHyp` says, every haystack of bytes and every `at ≤ |h|`, with any reverse-DFA searches
    that meet `RevDfaContract` (limited search: on the PREFIX automaton; full search: on the whole automaton) -/
theorem C14_revInner_find_eq_reference {N Npre : NFA} {cfg cfgp : Dfa.Config} (H : NfaHyp N cfg) (Hp : NfaHyp Npre cfgp)
    {Suf : Bytes → Nat → Nat → Prop} {lits : List Bytes} (SH : SplitHyp N Npre Suf lits) {P : Params}
    (hd : P.dotStarLiteral = none)
    (hnull : (P.prefixNullable = false → ∀ (h : Bytes) a, ¬ Accepts Npre h a a) ∧
      (P.startAnchored = true → ∀ (h : Bytes) a, 0 < a → ¬ Accepts Npre h a a))
    (hex : P.exactStart = true → ∀ (h : Bytes) s p s' p', s ≤ h.size → Accepts Npre h s p → Accepts Npre h s' p' → s ≤ s' →
      p' ≤ p → Accepts Npre h s p')
    (hlb : P.lineBounded = true → ∀ (h : Bytes) s e, s ≤ h.size → Accepts N h s e → ∀ i, s ≤ i → i < e → h.at i ≠ 10)
    {revL : Bytes → Nat → Nat → Nat → RevAnswer} {revF : Bytes → Nat → Nat → Option Nat} {stop : Bytes → Nat → Nat}
    {revF' : Bytes → Nat → Nat → Option Nat} {revL' : Bytes → Nat → Nat → Nat → RevAnswer}
    {h : Bytes} (hb : Dfa.BytesOK h) (Cp : RevDfaContract Npre revL revF' h) (C : RevDfaContract N revL' revF h)
    {at_ : Nat} (hat : at_ ≤ h.size) :
    findIndicesAt (realOracles N cfg lits revL revF stop) P h at_ = btSearchAt N h at_ :=
  findIndicesAt_eq_ref (realOracles_spec H Hp SH hnull hex hlb hb Cp C) hd hat

theorem C14_revInner_isMatch_iff {N Npre : NFA} {cfg cfgp : Dfa.Config} (H : NfaHyp N cfg) (Hp : NfaHyp Npre cfgp)
    {Suf : Bytes → Nat → Nat → Prop} {lits : List Bytes} (SH : SplitHyp N Npre Suf lits) {P : Params}
    (hd : P.dotStarLiteral = none)
    (hnull : (P.prefixNullable = false → ∀ (h : Bytes) a, ¬ Accepts Npre h a a) ∧
      (P.startAnchored = true → ∀ (h : Bytes) a, 0 < a → ¬ Accepts Npre h a a))
    {revL : Bytes → Nat → Nat → Nat → RevAnswer} {revF : Bytes → Nat → Nat → Option Nat} {stop : Bytes → Nat → Nat}
    {revF' : Bytes → Nat → Nat → Option Nat} {revL' : Bytes → Nat → Nat → Nat → RevAnswer}
    {h : Bytes} (hb : Dfa.BytesOK h) (Cp : RevDfaContract Npre revL revF' h) (C : RevDfaContract N revL' revF h) :
    isMatch (realOracles N cfg lits revL revF stop) P h = true ↔ ∃ i j, i ≤ h.size ∧ Accepts N h i j := by
  -- `IsMatch` reads neither `exactStart` nor `lineBounded`
  have S := realOracles_spec (P := { P with exactStart := false, lineBounded := false }) (stop := stop) H Hp SH hnull
    (fun hc => by cases hc) (fun hc => by cases hc) hb Cp C
  have he : isMatch (realOracles N cfg lits revL revF stop) P h =
      isMatch (realOracles N cfg lits revL revF stop) { P with exactStart := false, lineBounded := false } h :=
    isMatch_congr _ (P := P) (P' := { P with exactStart := false, lineBounded := false }) rfl rfl rfl rfl h
  rw [he, isMatch_eq_ref S hd, Dfa.bt_isSome_iff N h (Nat.zero_le _)]
  constructor
  · rintro ⟨i, j, _, h2, h3⟩; exact ⟨i, j, h2, h3⟩
  · rintro ⟨i, j, h2, h3⟩; exact ⟨i, j, Nat.zero_le _, h2, h3⟩

/-! ### the split hypothesis from the compiler's language theorem -/

open Cx.Regex Cx.Compile in
theorem MCat_append (h : Bytes) : ∀ (xs ys : List Regex) (i j : Nat),
    MCat (xs ++ ys) h i j ↔ ∃ k, MCat xs h i k ∧ MCat ys h k j := by
  intro xs
  induction xs with
  | nil =>
    intro ys i j
    simp only [List.nil_append]
    constructor
    · intro hm; exact ⟨i, (MCat_nil h i i).mpr rfl, hm⟩
    · rintro ⟨k, h1, h2⟩
      have : i = k := (MCat_nil h i k).mp h1
      rw [this]; exact h2
  | cons x xs ih =>
    intro ys i j
    rw [List.cons_append]
    constructor
    · intro hm
      obtain ⟨k, h1, h2⟩ := (MCat_cons x (xs ++ ys) h i j).mp hm
      obtain ⟨k', h3, h4⟩ := (ih ys k j).mp h2
      exact ⟨k', (MCat_cons x xs h i k').mpr ⟨k, h1, h3⟩, h4⟩
    · rintro ⟨k', hm, h4⟩
      obtain ⟨k, h1, h3⟩ := (MCat_cons x xs h i k').mp hm
      exact (MCat_cons x (xs ++ ys) h i j).mpr ⟨k, h1, (ih ys k j).mpr ⟨k', h3, h4⟩⟩

/-- a suffix portion that starts with the literal `bs` starts with an occurrence of `bs` -/
theorem lit_head_occ {bs : List Nat} {rest : List Regex} {h : Bytes} {p e : Nat} (hp : p ≤ h.size)
    (hm : Regex.MCat (.lit bs :: rest) h p e) : Occ h bs.toArray p := by
  rw [Compile.MCat_cons] at hm
  obtain ⟨k, h1, _⟩ := hm
  rw [Regex.M] at h1
  obtain ⟨_, h2⟩ := h1
  have hsz : bs.toArray.size = bs.length := by simp
  refine ⟨?_, ?_⟩
  · rw [hsz]
    cases hl : bs.length with
    | zero => exact hp
    | succ n =>
      have := (h2 n (by omega)).1
      omega
  · intro k hk
    rw [hsz] at hk
    rw [(h2 k hk).2]
    unfold Bytes.at
    simp [Array.getD_eq_getD_getElem?, List.getD_eq_getElem?_getD]

/-- **`SplitHyp` for a compiled concatenation**: N compiled from `cat (pre ++ suf)`, Npre from a regex `rpre` equivalent to
    `cat pre` (`buildPrefixAST`: the single element, or the concatenation), and — for the proof only — an automaton of the
    suffix portion (it bounds the span).  The inner literals: whatever `suf` is known to start with. -/
theorem split_of_cat {cfg cfgp cfgs : Compile.Config} {pre suf : List Regex} {rpre : Regex} {N Npre Nsuf : NFA} {lits : List Bytes}
    (hc : Compile.compileTop cfg (.cat (pre ++ suf)) = some N) (hw : Regex.AltOK (.cat (pre ++ suf))) (hsz : N.states.size ≤ Compile.invalid)
    (hcp : Compile.compileTop cfgp rpre = some Npre) (hwp : Regex.AltOK rpre) (hszp : Npre.states.size ≤ Compile.invalid)
    (hcs : Compile.compileTop cfgs (.cat suf) = some Nsuf) (hws : Regex.AltOK (.cat suf)) (hszs : Nsuf.states.size ≤ Compile.invalid)
    (hpre : ∀ (h : Bytes) i j, Regex.M rpre h i j ↔ Regex.MCat pre h i j)
    (hlit : ∀ (h : Bytes) p e, p ≤ h.size → Regex.MCat suf h p e → ∃ l, l ∈ lits ∧ Occ h l p)
    (hpos : ∀ l, l ∈ lits → 0 < l.size) :
    SplitHyp N Npre (fun h p e => p ≤ h.size ∧ Regex.MCat suf h p e) lits where
  split := by
    intro h s e hs
    rw [Compile.compile_lang hc hw hsz h s e, Regex.M, MCat_append]
    constructor
    · rintro ⟨k, h1, h2⟩
      have hk : Accepts Npre h s k := (Compile.compile_lang hcp hwp hszp h s k).mpr ((hpre h s k).mpr h1)
      exact ⟨k, hk, (reaches_pos_le hk hs).2, h2⟩
    · rintro ⟨k, h1, _, h2⟩
      exact ⟨k, (hpre h s k).mp ((Compile.compile_lang hcp hwp hszp h s k).mp h1), h2⟩
  suf_le := by
    rintro h p e ⟨hp, hm⟩
    have : Accepts Nsuf h p e := (Compile.compile_lang hcs hws hszs h p e).mpr (by rw [Regex.M]; exact hm)
    exact (reaches_pos_le this hp).1
  suf_lit := fun h p e hs => hlit h p e hs.1 hs.2
  lit_pos := hpos

/-! ### `exactStart`: the hull closure holds for `[class]+` -/

theorem iter_cls (rs : List (Nat × Nat)) (h : Bytes) : ∀ (n i j : Nat),
    Regex.iter (Regex.M (.cls rs) h) n i j ↔
      j = i + n ∧ ∀ k, i ≤ k → k < j → k < h.size ∧ ∃ p, p ∈ rs ∧ p.1 ≤ h.at k ∧ h.at k ≤ p.2 := by
  intro n
  induction n with
  | zero =>
    intro i j
    simp only [Regex.iter, Nat.add_zero]
    constructor
    · intro he; exact ⟨he.symm, fun k h1 h2 => by omega⟩
    · intro he; exact he.1.symm
  | succ n ih =>
    intro i j
    simp only [Regex.iter]
    constructor
    · rintro ⟨k, h1, h2⟩
      rw [Regex.M] at h1
      obtain ⟨c1, c2, c3⟩ := h1
      obtain ⟨d1, d2⟩ := (ih k j).mp h2
      refine ⟨by omega, ?_⟩
      intro x x1 x2
      by_cases hx : x = i
      · subst hx; exact ⟨c1, c3⟩
      · exact d2 x (by omega) x2
    · rintro ⟨h1, h2⟩
      refine ⟨i + 1, ?_, (ih (i + 1) j).mpr ⟨by omega, fun k k1 k2 => h2 k (by omega) k2⟩⟩
      rw [Regex.M]
      obtain ⟨a1, a2⟩ := h2 i (Nat.le_refl _) (by omega)
      exact ⟨a1, rfl, a2⟩

theorem M_plus_cls (rs : List (Nat × Nat)) (g : Bool) (h : Bytes) (i j : Nat) :
    Regex.M (.plus (.cls rs) g) h i j ↔
      i < j ∧ ∀ k, i ≤ k → k < j → k < h.size ∧ ∃ p, p ∈ rs ∧ p.1 ≤ h.at k ∧ h.at k ≤ p.2 := by
  rw [Compile.M_plus]
  constructor
  · rintro ⟨n, h1, h2⟩
    obtain ⟨a1, a2⟩ := (iter_cls rs h n i j).mp h2
    exact ⟨by omega, a2⟩
  · rintro ⟨h1, h2⟩
    exact ⟨j - i, by omega, (iter_cls rs h (j - i) i j).mpr ⟨by omega, h2⟩⟩

/-- the language of `[class]+` is closed under the hull operation, and does not contain the empty span -/
theorem hull_plus_cls {cfg : Compile.Config} {rs : List (Nat × Nat)} {g : Bool} {Npre : NFA}
    (hcp : Compile.compileTop cfg (.plus (.cls rs) g) = some Npre) (hszp : Npre.states.size ≤ Compile.invalid) :
    (∀ (h : Bytes) s p s' p', s ≤ h.size → Accepts Npre h s p → Accepts Npre h s' p' → s ≤ s' → p' ≤ p → Accepts Npre h s p') ∧
    (∀ (h : Bytes) a, ¬ Accepts Npre h a a) := by
  have hl := fun (h : Bytes) i j => Compile.compile_lang hcp (by simp [Regex.AltOK]) hszp h i j
  constructor
  · intro h s p s' p' _ h1 h2 h3 h4
    rw [hl, M_plus_cls] at h1 h2 ⊢
    exact ⟨by omega, fun k k1 k2 => h1.2 k k1 (by omega)⟩
  · intro h a ha
    rw [hl, M_plus_cls] at ha
    omega

/-! ### closed instance: `[a-z]+@[a-z]+`, every hypothesis decided -/

deriving instance DecidableEq for Cx.Nfa.NState, Cx.Nfa.NFA

def exRe : List Regex := [.plus (.cls [(97, 122)]) true]
def exSuf : List Regex := [.lit [64], .plus (.cls [(97, 122)]) true]

/-- `[a-z]+@[a-z]+` as the compiler model emits it -/
def exN : NFA :=
  { states := #[.byteRange 97 122 2, .eps 3, .split 0 1, .byteRange 64 64 4, .byteRange 97 122 6, .eps 7, .split 4 5, .mtch,
                .byteRange 0 255 9, .split 0 8],
    startAnchored := 0, startUnanchored := 9 }

/-- the prefix portion `[a-z]+` -/
def exNpre : NFA :=
  { states := #[.byteRange 97 122 2, .eps 3, .split 0 1, .mtch, .byteRange 0 255 5, .split 0 4], startAnchored := 0, startUnanchored := 5 }

theorem exN_compiled : Compile.compileTop {} (.cat (exRe ++ exSuf)) = some exN := by decide +kernel
theorem exNpre_compiled : Compile.compileTop {} (.plus (.cls [(97, 122)]) true) = some exNpre := by decide +kernel

theorem exN_hyp : NfaHyp exN Dfa.Config.plain :=
  { rev := Rev.revHyp_of_B (by decide), sd := by decide, pre := Or.inl (by decide), una := by decide, brk := rfl, lim := by decide }

theorem exNpre_hyp : NfaHyp exNpre Dfa.Config.plain :=
  { rev := Rev.revHyp_of_B (by decide), sd := by decide, pre := Or.inl (by decide), una := by decide, brk := rfl, lim := by decide }

theorem exSplit : ∃ Suf, SplitHyp exN exNpre Suf [#[64]] := by
  have hsuf : ∃ Nsuf, Compile.compileTop {} (.cat exSuf) = some Nsuf ∧ Nsuf.states.size ≤ Compile.invalid := by
    cases hc : Compile.compileTop {} (.cat exSuf) with
    | none => exact absurd hc (by decide +kernel)
    | some Nsuf =>
      refine ⟨Nsuf, rfl, ?_⟩
      have : (Compile.compileTop {} (.cat exSuf)).all (fun N => decide (N.states.size ≤ Compile.invalid)) = true := by decide +kernel
      rw [hc] at this
      simpa using this
  obtain ⟨Nsuf, hcs, hszs⟩ := hsuf
  refine ⟨_, split_of_cat (pre := exRe) (suf := exSuf) (rpre := .plus (.cls [(97, 122)]) true) exN_compiled
    (by simp [exRe, exSuf, Regex.AltOK, Regex.AltOKs]) (by decide) exNpre_compiled (by simp [Regex.AltOK]) (by decide)
    hcs (by simp [exSuf, Regex.AltOK, Regex.AltOKs]) hszs ?_ ?_ ?_⟩
  · intro h i j
    rw [show exRe = [.plus (.cls [(97, 122)]) true] from rfl, Compile.MCat_cons]
    constructor
    · intro hm; exact ⟨j, hm, (Compile.MCat_nil h j j).mpr rfl⟩
    · rintro ⟨k, h1, h2⟩
      have : k = j := (Compile.MCat_nil h k j).mp h2
      rw [← this]; exact h1
  · intro h p e hp hm
    exact ⟨#[64], by simp, lit_head_occ (bs := [64]) hp hm⟩
  · intro l hl
    simp only [List.mem_singleton] at hl
    subst hl
    decide

theorem exN_noNL : RevSuffix.checkNoByte exN 10 = true := by decide +kernel

/-- **`[a-z]+@[a-z]+`, closed**: the strategy with `exactStart = true` and `lineBounded = true` (as the real engine sets them
    for this pattern), the compiled automata of the whole pattern and of the prefix portion, the lazy-DFA model as forward
    oracle (unanchored, anchored, earliest), the Pike model as fallback, specification-level reverse searches and an
    arbitrary `stop`, returns the reference's span on every haystack of bytes, from every offset — a concrete instance
    satisfying every hypothesis of `findIndicesAt_eq_ref` -/
theorem C14_revInner_closed_instance (stop : Bytes → Nat → Nat) {h : Bytes} (hb : Dfa.BytesOK h) {at_ : Nat} (hat : at_ ≤ h.size) :
    findIndicesAt (realOracles exN Dfa.Config.plain [#[64]] (RevSuffix.specRevLimited exNpre) (RevSuffix.specRevFull exN) stop)
      { innerLen := 1, exactStart := true, lineBounded := true } h at_ = btSearchAt exN h at_ := by
  obtain ⟨Suf, SH⟩ := exSplit
  have hh := hull_plus_cls exNpre_compiled (by decide)
  exact C14_revInner_find_eq_reference (P := { innerLen := 1, exactStart := true, lineBounded := true }) exN_hyp exNpre_hyp SH rfl
    ⟨fun _ => hh.2, fun hc => by cases hc⟩ (fun _ => hh.1)
    (fun _ h s e hs ha => RevSuffix.checkNoByte_sound exN_noNL h s e hs ha) hb
    (RevSuffix.specRev_contract exNpre_hyp h) (RevSuffix.specRev_contract exN_hyp h) hat

end Cx.RevInner
