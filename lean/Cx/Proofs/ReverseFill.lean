import Cx.Proofs.ReverseBase
/-
  Cx.Proofs.ReverseFill — what `fillReverseState` and `fillStartStateWithIncoming` write: the state `id` gets, through the
  auxiliary states appended by the call, exactly one transition per incoming edge (`FillSpec`), and nothing else in the
  builder changes.
-/
namespace Cx.Rev
open Cx Cx.Nfa

/-- the label of an edge -/
def lbl (e : Edge) : Lbl := if e.eps then none else some (e.lo, e.hi)

structure FillSpec (b b' : Bld) (id glo : Nat) (P : Lbl → Nat → Prop) : Prop where
  size_le : b.size ≤ b'.size
  frame : ∀ z, z < b.size → z ≠ id → gget b' z = gget b z
  simple : ∀ z, z = id ∨ (b.size ≤ z ∧ z < b'.size) → simpleS (gget b' z) = true
  out : ∀ (get : Nat → NState) (ghi : Nat), b'.size ≤ ghi →
      (∀ z, z = id ∨ (b.size ≤ z ∧ z < b'.size) → get z = gget b' z) →
      ∀ l y, Out get glo ghi id l y ↔ P l y

/-- the transitions `es` asks for -/
def EdgeOut (rm : RMap) (es : List Edge) (l : Lbl) (y : Nat) : Prop := ∃ e ∈ es, rm.look e.from_ = some y ∧ lbl e = l

/-- every edge comes from a mapped state, whose id is below the gadget -/
def AllMapped (rm : RMap) (glo : Nat) (es : List Edge) : Prop := ∀ e ∈ es, ∃ t, rm.look e.from_ = some t ∧ t < glo

theorem AllMapped.look0 {rm : RMap} {glo : Nat} {es : List Edge} (h : AllMapped rm glo es) {e : Edge} (he : e ∈ es) :
    rm.look e.from_ = some (rm.look0 e.from_) ∧ rm.look0 e.from_ < glo := by
  obtain ⟨t, h1, h2⟩ := h e he
  simp [RMap.look0, h1, h2]

theorem AllMapped.filter {rm : RMap} {glo : Nat} {es : List Edge} (h : AllMapped rm glo es) (p : Edge → Bool) :
    AllMapped rm glo (es.filter p) := fun e he => h e (List.mem_filter.mp he).1

theorem filterMap_look {rm : RMap} {glo : Nat} {es : List Edge} (h : AllMapped rm glo es) :
    es.filterMap (fun e => rm.look e.from_) = es.map (fun e => rm.look0 e.from_) := by
  induction es with
  | nil => rfl
  | cons e es ih =>
    have h1 := (h.look0 (e := e) List.mem_cons_self).1
    rw [List.filterMap_cons, h1, List.map_cons, ih (fun e he => h e (List.mem_cons_of_mem _ he))]

theorem mem_split_eps (es : List Edge) (e : Edge) :
    e ∈ es ↔ e ∈ es.filter (fun e => !e.eps) ∨ e ∈ es.filter (fun e => e.eps) := by
  simp only [List.mem_filter]
  cases e.eps <;> simp

theorem lbl_of_eps {e : Edge} (h : e.eps = true) : lbl e = none := by simp [lbl, h]
theorem lbl_of_byte {e : Edge} (h : e.eps = false) : lbl e = some (e.lo, e.hi) := by simp [lbl, h]

theorem edgeOut_split (rm : RMap) (es : List Edge) (l : Lbl) (y : Nat) :
    EdgeOut rm es l y ↔ EdgeOut rm (es.filter fun e => !e.eps) l y ∨ EdgeOut rm (es.filter fun e => e.eps) l y := by
  unfold EdgeOut
  constructor
  · rintro ⟨e, he, h⟩
    rcases (mem_split_eps es e).mp he with h1 | h1
    · exact Or.inl ⟨e, h1, h⟩
    · exact Or.inr ⟨e, h1, h⟩
  · rintro (⟨e, he, h⟩ | ⟨e, he, h⟩)
    · exact ⟨e, (List.mem_filter.mp he).1, h⟩
    · exact ⟨e, (List.mem_filter.mp he).1, h⟩

/-- epsilon edges: the targets -/
theorem edgeOut_eps {rm : RMap} {glo : Nat} {ees : List Edge} (hm : AllMapped rm glo ees) (he : ∀ e ∈ ees, e.eps = true)
    (l : Lbl) (y : Nat) :
    EdgeOut rm ees l y ↔ l = none ∧ y ∈ ees.map (fun e => rm.look0 e.from_) := by
  unfold EdgeOut
  constructor
  · rintro ⟨e, hmem, h1, h2⟩
    rw [lbl_of_eps (he e hmem)] at h2
    refine ⟨h2.symm, List.mem_map.mpr ⟨e, hmem, ?_⟩⟩
    have := (hm.look0 hmem).1
    rw [h1] at this
    exact (Option.some.inj this).symm
  · rintro ⟨rfl, hy⟩
    obtain ⟨e, hmem, rfl⟩ := List.mem_map.mp hy
    exact ⟨e, hmem, (hm.look0 hmem).1, lbl_of_eps (he e hmem)⟩

/-- byte edges: the transitions of the sparse state -/
theorem edgeOut_byte {rm : RMap} {glo : Nat} {bes : List Edge} (hm : AllMapped rm glo bes) (hb : ∀ e ∈ bes, e.eps = false)
    (l : Lbl) (y : Nat) :
    EdgeOut rm bes l y ↔ ∃ t ∈ sparseOf rm bes, l = some (t.1, t.2.1) ∧ y = t.2.2 := by
  unfold EdgeOut sparseOf
  constructor
  · rintro ⟨e, hmem, h1, h2⟩
    rw [lbl_of_byte (hb e hmem)] at h2
    refine ⟨_, List.mem_map.mpr ⟨e, hmem, rfl⟩, h2.symm, ?_⟩
    have := (hm.look0 hmem).1
    rw [h1] at this
    exact Option.some.inj this
  · rintro ⟨t, ht, rfl, rfl⟩
    obtain ⟨e, hmem, rfl⟩ := List.mem_map.mp ht
    exact ⟨e, hmem, (hm.look0 hmem).1, lbl_of_byte (hb e hmem)⟩

/-! ### the four shapes -/

/-- nothing to do -/
theorem fillSpec_nil {b : Bld} {id glo : Nat} (hp : gget b id = .fail) : FillSpec b b id glo (fun _ _ => False) where
  size_le := Nat.le_refl _
  frame := fun _ _ _ => rfl
  simple := by
    rintro z (rfl | h)
    · rw [hp]; rfl
    · omega
  out := by
    intro get ghi _ hget l y
    have : get id = .fail := by rw [hget id (Or.inl rfl), hp]
    simp [out_fail this]

/-- a state rewritten in place, nothing appended -/
theorem fillSpec_upd {b : Bld} {id glo : Nat} (hid : id < b.size) (f : NState → NState) {P : Lbl → Nat → Prop}
    (hs : simpleS (f (gget b id)) = true)
    (ho : ∀ (get : Nat → NState) (ghi : Nat), get id = f (gget b id) → ∀ l y, Out get glo ghi id l y ↔ P l y) :
    FillSpec b (upd b id f) id glo P where
  size_le := by simp
  frame := fun z _ hz => gget_upd_ne b f hz
  simple := by
    rintro z (rfl | h)
    · rw [gget_upd_eq b f hid]; exact hs
    · rw [size_upd] at h; omega
  out := by
    intro get ghi _ hget l y
    exact ho get ghi (by rw [hget id (Or.inl rfl), gget_upd_eq b f hid]) l y

/-- `fillSparseState` on a sparse placeholder -/
theorem fillSpec_sparse {rm : RMap} {b : Bld} {id glo : Nat} {bes : List Edge} (hid : id < b.size)
    (hm : AllMapped rm glo bes) (hb : ∀ e ∈ bes, e.eps = false) {ts0 : List (Nat × Nat × Nat)} (hp : gget b id = .sparse ts0) :
    FillSpec b (fillSparseState b id bes rm) id glo (EdgeOut rm bes) := by
  unfold fillSparseState
  apply fillSpec_upd hid
  · rw [hp]; rfl
  · intro get ghi hg l y
    rw [hp] at hg
    simp only [updSparseS] at hg
    rw [out_sparse hg, edgeOut_byte hm hb]

/-- append states with `g`, then rewrite `id` -/
theorem fillSpec_ext {b b1 : Bld} {id glo : Nat} (hid : id < b.size) (f : NState → NState) {P : Lbl → Nat → Prop}
    (h1 : b.size ≤ b1.size) (h2 : ∀ z, z < b.size → gget b1 z = gget b z)
    (h3 : ∀ z, b.size ≤ z → z < b1.size → simpleS (gget b1 z) = true)
    (hs : simpleS (f (gget b id)) = true)
    (ho : ∀ (get : Nat → NState) (ghi : Nat), b1.size ≤ ghi → get id = f (gget b id) →
      (∀ z, b.size ≤ z → z < b1.size → get z = gget b1 z) → ∀ l y, Out get glo ghi id l y ↔ P l y) :
    FillSpec b (upd b1 id f) id glo P where
  size_le := by simp; exact h1
  frame := fun z hz hne => by rw [gget_upd_ne b1 f hne, h2 z hz]
  simple := by
    rintro z (rfl | h)
    · rw [gget_upd_eq b1 f (by omega), h2 _ hid]; exact hs
    · rw [size_upd] at h
      rw [gget_upd_ne b1 f (by omega)]
      exact h3 z h.1 h.2
  out := by
    intro get ghi hh hget l y
    rw [size_upd] at hh hget
    refine ho get ghi hh ?_ ?_ l y
    · rw [hget id (Or.inl rfl), gget_upd_eq b1 f (by omega), h2 _ hid]
    · intro z hz1 hz2
      rw [hget z (Or.inr ⟨hz1, hz2⟩), gget_upd_ne b1 f (by omega)]

theorem map_look0_lt {rm : RMap} {glo : Nat} {es : List Edge} (hm : AllMapped rm glo es) :
    ∀ t ∈ es.map (fun e => rm.look0 e.from_), t < glo := by
  intro t ht
  obtain ⟨e, he, rfl⟩ := List.mem_map.mp ht
  exact (hm.look0 he).2

/-- `fillEpsilonState` -/
theorem fillSpec_epsilon {rm : RMap} {b : Bld} {id glo : Nat} {ees : List Edge} (hid : id < b.size) (hg : glo ≤ b.size)
    (hm : AllMapped rm glo ees) (he : ∀ e ∈ ees, e.eps = true) (hne : ees ≠ [])
    (hp : gget b id = if ees.length = 1 then .eps invalid else .split invalid invalid) :
    FillSpec b (fillEpsilonState b id ees rm) id glo (EdgeOut rm ees) := by
  match ees, hne with
  | [e], _ =>
    simp only [fillEpsilonState]
    simp only [List.length_singleton, if_true] at hp
    apply fillSpec_upd hid
    · rw [hp]; rfl
    · intro get ghi hget l y
      rw [hp] at hget
      simp only [patchS] at hget
      rw [out_eps hget, via_lt (hm.look0 List.mem_cons_self).2, edgeOut_eps hm he]
      simp
  | e1 :: e2 :: rest, _ =>
    have hfm := filterMap_look hm
    simp only [List.map_cons] at hfm
    simp only [fillEpsilonState, hfm]
    have hp' : gget b id = .split invalid invalid := by
      rw [hp, if_neg (by simp)]
    have hlt := map_look0_lt hm
    simp only [List.map_cons] at hlt
    obtain ⟨c1, c2, c3, c4⟩ := chain_spec b (rm.look0 e2.from_ :: rest.map (fun e => rm.look0 e.from_)) (by simp)
    apply fillSpec_ext hid _ c1 c2 c3
    · rw [hp']; rfl
    · intro get ghi hh hget hnew l y
      rw [hp'] at hget
      simp only [patchSplitS] at hget
      rw [out_split hget, via_lt (hlt _ List.mem_cons_self),
        c4 get glo ghi hg hh (fun t ht => hlt t (List.mem_cons_of_mem _ ht)) hnew, edgeOut_eps hm he]
      simp only [List.map_cons, List.mem_cons]
      constructor
      · rintro (⟨rfl, rfl⟩ | ⟨rfl, h⟩)
        · exact ⟨rfl, Or.inl rfl⟩
        · exact ⟨rfl, Or.inr h⟩
      · rintro ⟨rfl, rfl | h⟩
        · exact Or.inl ⟨rfl, rfl⟩
        · exact Or.inr ⟨rfl, h⟩

/-- `fillMixedState` -/
theorem fillSpec_mixed {rm : RMap} {b : Bld} {id glo : Nat} {bes ees : List Edge} (hid : id < b.size) (hg : glo ≤ b.size)
    (hmb : AllMapped rm glo bes) (hb : ∀ e ∈ bes, e.eps = false)
    (hme : AllMapped rm glo ees) (he : ∀ e ∈ ees, e.eps = true) (hne : ees ≠ [])
    (hp : gget b id = .split invalid invalid) :
    FillSpec b (fillMixedState b id bes ees rm) id glo (fun l y => EdgeOut rm bes l y ∨ EdgeOut rm ees l y) := by
  obtain ⟨e0, erest, rfl⟩ := List.exists_cons_of_ne_nil hne
  have hfm := filterMap_look hme
  simp only [List.map_cons] at hfm
  have hlt := map_look0_lt hme
  simp only [List.map_cons] at hlt
  simp only [fillMixedState, hfm, fillSparseState]
  generalize hb1 : b.push (.sparse [(0, 0, invalid)]) = b1
  generalize hb2 : upd b1 b.size (updSparseS (sparseOf rm bes)) = b2
  have hs1 : b1.size = b.size + 1 := by rw [← hb1, Array.size_push]
  have hs2 : b2.size = b.size + 1 := by rw [← hb2, size_upd, hs1]
  have hsp : gget b2 b.size = .sparse (sparseOf rm bes) := by
    rw [← hb2, gget_upd_eq b1 _ (by omega), ← hb1, gget_push_eq]
    rfl
  have hold : ∀ z, z < b.size → gget b2 z = gget b z := by
    intro z hz
    rw [← hb2, gget_upd_ne b1 _ (by omega), ← hb1, gget_push_lt _ _ hz]
  obtain ⟨c1, c2, c3, c4⟩ := chain_spec b2 (rm.look0 e0.from_ :: erest.map (fun e => rm.look0 e.from_)) (by simp)
  apply fillSpec_ext hid _ (by omega) (fun z hz => by rw [c2 z (by omega), hold z hz])
  · intro z h1 h2
    by_cases hz : z = b.size
    · subst hz
      rw [c2 _ (by omega), hsp]
      rfl
    · exact c3 z (by omega) h2
  · rw [hp]; rfl
  · intro get ghi hh hget hnew l y
    rw [hp] at hget
    simp only [patchSplitS] at hget
    have hgs : get b.size = .sparse (sparseOf rm bes) := by
      rw [hnew _ (Nat.le_refl _) (by omega), c2 _ (by omega), hsp]
    rw [out_split hget, via_aux hg (by omega), out_sparse hgs,
      c4 get glo ghi (by omega) hh hlt (fun z h1 h2 => hnew z (by omega) h2), edgeOut_byte hmb hb, edgeOut_eps hme he]
    simp only [List.map_cons]

theorem filter_eps_eq_self {es : List Edge} (h : es.filter (fun e => !e.eps) = []) : es.filter (fun e => e.eps) = es := by
  apply List.filter_eq_self.mpr
  intro e he
  cases hx : e.eps with
  | true => rfl
  | false =>
    have : e ∈ es.filter (fun e => !e.eps) := List.mem_filter.mpr ⟨he, by simp [hx]⟩
    rw [h] at this
    cases this

theorem filter_byte_eq_self {es : List Edge} (h : es.filter (fun e => e.eps) = []) : es.filter (fun e => !e.eps) = es := by
  apply List.filter_eq_self.mpr
  intro e he
  cases hx : e.eps with
  | false => rfl
  | true =>
    have : e ∈ es.filter (fun e => e.eps) := List.mem_filter.mpr ⟨he, hx⟩
    rw [h] at this
    cases this

/-- **`fillReverseState`** on the placeholder `allocatePlaceholder` made for the same edges -/
theorem fillSpec_reverse {rm : RMap} {b : Bld} {id glo : Nat} {es : List Edge} (hid : id < b.size) (hg : glo ≤ b.size)
    (hm : AllMapped rm glo es) (hp : gget b id = placeholderS es) :
    FillSpec b (fillReverseState b id es rm) id glo (EdgeOut rm es) := by
  by_cases hnil : es = []
  · subst hnil
    have := fillSpec_nil (b := b) (id := id) (glo := glo) (by rw [hp]; rfl)
    simp only [fillReverseState, List.isEmpty_nil, if_true]
    refine { this with out := ?_ }
    intro get ghi h1 h2 l y
    rw [this.out get ghi h1 h2]
    simp [EdgeOut]
  · have hemp : es.isEmpty = false := by cases es <;> simp_all
    have hbe : ∀ e ∈ es.filter (fun e => !e.eps), e.eps = false := by
      intro e he
      have := (List.mem_filter.mp he).2
      simpa using this
    have hee : ∀ e ∈ es.filter (fun e => e.eps), e.eps = true := fun e he => (List.mem_filter.mp he).2
    have hconv : ∀ {b' : Bld}, FillSpec b b' id glo
        (fun l y => EdgeOut rm (es.filter fun e => !e.eps) l y ∨ EdgeOut rm (es.filter fun e => e.eps) l y) →
        FillSpec b b' id glo (EdgeOut rm es) := by
      intro b' h
      refine { h with out := ?_ }
      intro get ghi h1 h2 l y
      rw [h.out get ghi h1 h2, ← edgeOut_split]
    unfold fillReverseState
    rw [hemp]
    simp only [Bool.false_eq_true, if_false]
    unfold placeholderS at hp
    rw [hemp] at hp
    simp only [Bool.false_eq_true, if_false] at hp
    generalize hbs : es.filter (fun e => !e.eps) = bes at hp hbe hconv
    generalize hes : es.filter (fun e => e.eps) = ees at hp hee hconv
    have hmb : AllMapped rm glo bes := hbs ▸ hm.filter _
    have hme : AllMapped rm glo ees := hes ▸ hm.filter _
    match bes, hbs with
    | [], hbs =>
      have hall : ees = es := by rw [← hes]; exact filter_eps_eq_self hbs
      have hne : ees ≠ [] := by rw [hall]; exact hnil
      have hlen : ees.length > 0 := List.length_pos_iff.mpr hne
      simp only [List.length_nil, true_and] at hp
      rw [if_pos hlen] at hp
      have := fillSpec_epsilon hid hg hme hee hne hp
      rw [hall] at this ⊢
      exact this
    | [e], hbs =>
      by_cases hen : ees = []
      · subst hen
        have hall : es = [e] := by rw [← hbs]; exact (filter_byte_eq_self hes).symm
        simp only [List.isEmpty_nil, and_self, if_true]
        simp at hp
        apply hconv
        apply fillSpec_upd hid
        · rw [hp]; rfl
        · intro get ghi hget l y
          rw [hp] at hget
          simp only [updByteRangeS] at hget
          rw [out_byteRange hget]
          have hbl := edgeOut_byte hmb hbe l y
          simp only [sparseOf, List.map_cons, List.map_nil, List.mem_singleton] at hbl
          simp only [EdgeOut, List.not_mem_nil, false_and, exists_false, or_false]
          rw [show (∃ e_1, e_1 ∈ [e] ∧ rm.look e_1.from_ = some y ∧ lbl e_1 = l) = EdgeOut rm [e] l y from rfl, hbl]
          simp
      · have hemp2 : ees.isEmpty = false := by cases ees <;> simp_all
        have hlen : ees.length > 0 := List.length_pos_iff.mpr hen
        simp only [List.isEmpty_nil, hemp2, Bool.false_eq_true, and_false, if_false, Bool.not_false, if_true]
        have h0 : ¬ ees.length = 0 := by omega
        simp [h0, hlen] at hp
        exact hconv (fillSpec_mixed hid hg hmb hbe hme hee hen hp)
    | e :: e' :: rest, hbs =>
      by_cases hen : ees = []
      · subst hen
        simp only [List.isEmpty_cons, Bool.false_eq_true, false_and, if_false, List.isEmpty_nil, Bool.not_true]
        simp at hp
        apply hconv
        have := fillSpec_sparse (rm := rm) (glo := glo) hid hmb hbe hp
        refine { this with out := ?_ }
        intro get ghi h1 h2 l y
        rw [this.out get ghi h1 h2]
        simp [EdgeOut]
      · have hemp2 : ees.isEmpty = false := by cases ees <;> simp_all
        have hlen : ees.length > 0 := List.length_pos_iff.mpr hen
        simp only [List.isEmpty_cons, hemp2, Bool.false_eq_true, and_false, if_false, Bool.not_false, if_true]
        have h0 : ¬ ees.length = 0 := by omega
        simp [h0, hlen] at hp
        exact hconv (fillSpec_mixed hid hg hmb hbe hme hee hen hp)

/-! ### `fillStartStateWithIncoming` -/

/-- the transitions the proxy of a forward start state gets: one per incoming edge from a mapped state (followed as
    epsilon when `consume = false`), and the epsilon to the match state 0 -/
def StartOut (rm : RMap) (es : List Edge) (consume : Bool) (l : Lbl) (y : Nat) : Prop :=
  (∃ e ∈ es, rm.look e.from_ = some y ∧ (if consume then lbl e else none) = l) ∨ (l = none ∧ y = 0)

theorem fillSpec_start {rm : RMap} {b : Bld} {proxy glo : Nat} {es : List Edge} (consume : Bool) (hid : proxy < b.size)
    (hg : glo ≤ b.size) (h0 : 0 < glo) (hrm : ∀ p t, rm.look p = some t → t < glo) (hp : gget b proxy = .eps 0) :
    FillSpec b (fillStart b proxy es rm consume) proxy glo (StartOut rm es consume) := by
  generalize hle : es.filter (fun e => (rm.look e.from_).isSome) = loopEdges
  have hml : AllMapped rm glo loopEdges := by
    intro e he
    rw [← hle] at he
    have := (List.mem_filter.mp he).2
    obtain ⟨t, ht⟩ := Option.isSome_iff_exists.mp this
    exact ⟨t, ht, hrm _ _ ht⟩
  have hmem : ∀ e y, (e ∈ es ∧ rm.look e.from_ = some y) ↔ (e ∈ loopEdges ∧ rm.look e.from_ = some y) := by
    intro e y
    rw [← hle, List.mem_filter]
    constructor
    · rintro ⟨h1, h2⟩; exact ⟨⟨h1, by simp [h2]⟩, h2⟩
    · rintro ⟨⟨h1, _⟩, h2⟩; exact ⟨h1, h2⟩
  have hfm := filterMap_look hml
  have hlt := map_look0_lt hml
  unfold fillStart
  simp only [hle, hfm]
  by_cases hnil : loopEdges = []
  · -- no mapped source: the proxy stays `epsilon → match`
    subst hnil
    simp only [List.map_nil, List.isEmpty_nil, if_true]
    refine { size_le := Nat.le_refl _, frame := fun _ _ _ => rfl, simple := ?_, out := ?_ }
    · rintro z (rfl | h)
      · rw [hp]; rfl
      · omega
    · intro get ghi _ hget l y
      have hget' : get proxy = .eps 0 := by rw [hget proxy (Or.inl rfl), hp]
      rw [out_eps hget', via_lt h0]
      unfold StartOut
      constructor
      · exact Or.inr
      · rintro (⟨e, he, h1, _⟩ | h)
        · have := ((hmem e y).mp ⟨he, h1⟩).1
          cases this
        · exact h
  · have hemp : (loopEdges.map fun e => rm.look0 e.from_).isEmpty = false := by
      cases loopEdges <;> simp_all
    rw [hemp]
    simp only [Bool.false_eq_true, if_false]
    by_cases hc : (consume && loopEdges.any fun e => !e.eps) = true
    · -- the loop entry is built like any other reverse state
      rw [if_pos hc]
      simp only [buildSplitChain]
      have hcons : consume = true := by
        cases consume <;> simp_all
      generalize hb1 : b.push (placeholderS loopEdges) = b1
      have hs1 : b1.size = b.size + 1 := by rw [← hb1, Array.size_push]
      have hp1 : gget b1 b.size = placeholderS loopEdges := by rw [← hb1, gget_push_eq]
      have inner := fillSpec_reverse (rm := rm) (b := b1) (id := b.size) (glo := glo) (es := loopEdges) (by omega) (by omega)
        hml hp1
      generalize fillReverseState b1 b.size loopEdges rm = b2 at inner
      apply fillSpec_ext hid _ (by have := inner.size_le; omega)
      · intro z hz
        rw [inner.frame z (by omega) (by omega), ← hb1, gget_push_lt _ _ hz]
      · intro z h1 h2
        apply inner.simple
        by_cases hz : z = b.size
        · exact Or.inl hz
        · exact Or.inr ⟨by omega, h2⟩
      · rfl
      · intro get ghi hh hget hnew l y
        have hsz := inner.size_le
        rw [out_split hget, via_lt h0, via_aux hg (by omega),
          inner.out get ghi hh (by
            rintro z (rfl | ⟨h1, h2⟩)
            · exact hnew _ (Nat.le_refl _) (by omega)
            · exact hnew z (by omega) h2)]
        unfold StartOut EdgeOut
        rw [hcons]
        simp only [if_true]
        constructor
        · rintro (⟨e, he, h1, h2⟩ | h)
          · exact Or.inl ⟨e, ((hmem e y).mpr ⟨he, h1⟩).1, h1, h2⟩
          · exact Or.inr h
        · rintro (⟨e, he, h1, h2⟩ | h)
          · exact Or.inl ⟨e, ((hmem e y).mp ⟨he, h1⟩).1, h1, h2⟩
          · exact Or.inr h
    · -- every incoming edge is followed as an epsilon
      rw [if_neg hc]
      simp only []
      have hne : (loopEdges.map fun e => rm.look0 e.from_) ≠ [] := by
        cases loopEdges <;> simp_all
      obtain ⟨c1, c2, c3, c4⟩ := chain_spec b (loopEdges.map fun e => rm.look0 e.from_) hne
      apply fillSpec_ext hid _ c1 c2 c3
      · rfl
      · intro get ghi hh hget hnew l y
        rw [out_split hget, via_lt h0, c4 get glo ghi hg hh hlt hnew]
        unfold StartOut
        have hlab : ∀ e ∈ loopEdges, (if consume then lbl e else none) = none := by
          intro e he
          cases hcs : consume with
          | false => rfl
          | true =>
            simp only [if_true]
            apply lbl_of_eps
            rw [hcs] at hc
            simp only [Bool.true_and, List.any_eq_true, not_exists, not_and] at hc
            have := hc e he
            simpa using this
        constructor
        · rintro (⟨rfl, hy⟩ | h)
          · obtain ⟨e, he, rfl⟩ := List.mem_map.mp hy
            have h1 := (hml.look0 he).1
            exact Or.inl ⟨e, ((hmem e _).mpr ⟨he, h1⟩).1, h1, hlab e he⟩
          · exact Or.inr h
        · rintro (⟨e, he, h1, h2⟩ | h)
          · have he' := ((hmem e y).mp ⟨he, h1⟩).1
            refine Or.inl ⟨by rw [← h2, hlab e he'], List.mem_map.mpr ⟨e, he', ?_⟩⟩
            have := (hml.look0 he').1
            rw [h1] at this
            exact (Option.some.inj this).symm
          · exact Or.inr h

end Cx.Rev
