import Cx.Model.ClassCheck
import Cx.Proofs.NfaSpan
import Cx.Proofs.Utf8
/-
  Cx.Proofs.ClassCheck — what the answers of the C15 class checker (`cxdrv classcheck`, `Cx/Model/ClassCheck.lean`) mean,
  in terms of the path relation `Nfa.Accepts` of the dumped automaton and of the specifications `Utf8.encode`,
  `Utf8.decodeAt`, `GoRef.inRanges` — not of the executable search functions.

    classCheck_ok_iff   the answer is `ok`  ⇔  RunesOK (every scalar value of [lo, hi]) ∧ (128 ≤ hi → StringsOK)
    classCheck_ok       the (→) direction, spelled out
    classCheckV_failRune / classCheckV_failBytes   a `fail:` answer exhibits a genuine difference (and the first one)
-/
namespace Cx.ClassCheck
open Cx Cx.Nfa Cx.Utf8

/-! ### the properties decided -/

/-- the automaton accepts exactly the whole encoding of `r` ⇔ `r` is in the class -/
def RuneOK (N : NFA) (ranges : List (Nat × Nat)) (r : Nat) : Prop :=
  Accepts N (ofList (encode r)) 0 (encode r).length ↔ GoRef.inRanges r ranges = true

/-- … for EVERY scalar value of `[lo, hi]` -/
def RunesOK (N : NFA) (ranges : List (Nat × Nat)) (lo hi : Nat) : Prop :=
  ∀ r, lo ≤ r → r ≤ hi → isScalar r → RuneOK N ranges r

/-- the automaton accepts the whole byte string ⇔ Go decodes it as ONE rune, of full width, that is in the class -/
def AgreesGo (N : NFA) (ranges : List (Nat × Nat)) (bs : Bytes) : Prop :=
  Accepts N bs 0 bs.size ↔ ((decodeAt bs 0).2 = bs.size ∧ GoRef.inRanges (decodeAt bs 0).1 ranges = true)

/-- … for all 256 strings of length 1, all 65536 of length 2 and all 21³ of length 3 over `boundaryBytes` -/
def StringsOK (N : NFA) (ranges : List (Nat × Nat)) : Prop :=
  (∀ a, a < 256 → AgreesGo N ranges #[a]) ∧
  (∀ a b, a < 256 → b < 256 → AgreesGo N ranges #[a, b]) ∧
  (∀ a b c, a ∈ boundaryBytes → b ∈ boundaryBytes → c ∈ boundaryBytes → AgreesGo N ranges #[a, b, c])

/-! ### the rune sweep -/

theorem accWhole_encode_iff (N : NFA) (ranges : List (Nat × Nat)) (r : Nat) :
    accWhole N (encode r).toArray = GoRef.inRanges r ranges ↔ RuneOK N ranges r := by
  unfold RuneOK
  rw [Bool.eq_iff_iff, accWhole_iff]
  simp [ofList]

theorem sweepRunes_none_iff (N : NFA) (ranges : List (Nat × Nat)) (fuel r : Nat) :
    sweepRunes N ranges fuel r = none ↔ ∀ x, r ≤ x → x < r + fuel → isScalar x → RuneOK N ranges x := by
  induction fuel generalizing r with
  | zero =>
    simp only [sweepRunes, true_iff]
    intro x h1 h2
    omega
  | succ fuel ih =>
    rw [sweepRunes]
    by_cases hsc : isScalar r
    · simp only [hsc, ↓reduceIte]
      by_cases hne : accWhole N (encode r).toArray = GoRef.inRanges r ranges
      · simp only [hne, bne_self_eq_false, Bool.false_eq_true, ↓reduceIte]
        rw [ih]
        constructor
        · intro hall x h1 h2 h3
          by_cases hx : x = r
          · subst hx
            exact (accWhole_encode_iff N ranges x).mp hne
          · exact hall x (by omega) (by omega) h3
        · intro hall x h1 h2 h3
          exact hall x (by omega) (by omega) h3
      · have hb : (accWhole N (encode r).toArray != GoRef.inRanges r ranges) = true := by
          simpa using hne
        simp only [hb, ↓reduceIte]
        constructor
        · intro hc; cases hc
        · intro hall
          exact absurd ((accWhole_encode_iff N ranges r).mpr (hall r (Nat.le_refl _) (by omega) hsc)) hne
    · simp only [hsc, ↓reduceIte]
      rw [ih]
      constructor
      · intro hall x h1 h2 h3
        by_cases hx : x = r
        · subst hx
          exact absurd h3 hsc
        · exact hall x (by omega) (by omega) h3
      · intro hall x h1 h2 h3
        exact hall x (by omega) (by omega) h3

/-- the reported rune is the FIRST scalar value of the interval on which automaton and class differ, `acc` is what the
    automaton says about its encoding -/
theorem sweepRunes_some (N : NFA) (ranges : List (Nat × Nat)) (fuel r x : Nat) (acc : Bool)
    (hr : sweepRunes N ranges fuel r = some (x, acc)) :
    r ≤ x ∧ x < r + fuel ∧ isScalar x ∧ (acc = true ↔ Accepts N (ofList (encode x)) 0 (encode x).length) ∧
    ¬ RuneOK N ranges x ∧ ∀ y, r ≤ y → y < x → isScalar y → RuneOK N ranges y := by
  induction fuel generalizing r with
  | zero => simp [sweepRunes] at hr
  | succ fuel ih =>
    rw [sweepRunes] at hr
    by_cases hsc : isScalar r
    · simp only [hsc, ↓reduceIte] at hr
      by_cases hne : accWhole N (encode r).toArray = GoRef.inRanges r ranges
      · simp only [hne, bne_self_eq_false, Bool.false_eq_true, ↓reduceIte] at hr
        obtain ⟨h1, h2, h3, h4, h5, h6⟩ := ih _ hr
        refine ⟨by omega, by omega, h3, h4, h5, ?_⟩
        intro y hy1 hy2 hy3
        by_cases hy : y = r
        · subst hy
          exact (accWhole_encode_iff N ranges y).mp hne
        · exact h6 y (by omega) hy2 hy3
      · have hb : (accWhole N (encode r).toArray != GoRef.inRanges r ranges) = true := by
          simpa using hne
        simp only [hb, ↓reduceIte, Option.some.injEq, Prod.mk.injEq] at hr
        obtain ⟨rfl, rfl⟩ := hr
        refine ⟨Nat.le_refl _, by omega, hsc, ?_, ?_, ?_⟩
        · rw [accWhole_iff]
          simp [ofList]
        · exact fun hok => hne ((accWhole_encode_iff N ranges r).mpr hok)
        · intro y hy1 hy2
          omega
    · simp only [hsc, ↓reduceIte] at hr
      obtain ⟨h1, h2, h3, h4, h5, h6⟩ := ih _ hr
      refine ⟨by omega, by omega, h3, h4, h5, ?_⟩
      intro y hy1 hy2 hy3
      by_cases hy : y = r
      · subst hy
        exact absurd hy3 hsc
      · exact h6 y (by omega) hy2 hy3

/-! ### the byte strings -/

theorem expect_iff (ranges : List (Nat × Nat)) (bs : Bytes) :
    expect ranges bs = true ↔ ((decodeAt bs 0).2 = bs.size ∧ GoRef.inRanges (decodeAt bs 0).1 ranges = true) := by
  simp [expect]

theorem accWhole_eq_expect_iff (N : NFA) (ranges : List (Nat × Nat)) (bs : Bytes) :
    accWhole N bs = expect ranges bs ↔ AgreesGo N ranges bs := by
  unfold AgreesGo
  rw [Bool.eq_iff_iff, accWhole_iff, expect_iff]

theorem badString_none_iff (N : NFA) (ranges : List (Nat × Nat)) (bs : Bytes) :
    badString N ranges bs = none ↔ AgreesGo N ranges bs := by
  rw [← accWhole_eq_expect_iff]
  unfold badString
  by_cases h : accWhole N bs = expect ranges bs
  · simp [h]
  · simp [h]

theorem badString_some (N : NFA) (ranges : List (Nat × Nat)) (bs x : Bytes) (h : badString N ranges bs = some x) :
    x = bs ∧ ¬ AgreesGo N ranges bs := by
  have hn : badString N ranges bs ≠ none := by rw [h]; exact fun hc => nomatch hc
  rw [Ne, badString_none_iff] at hn
  refine ⟨?_, hn⟩
  unfold badString at h
  split at h
  · exact (Option.some.inj h).symm
  · cases h

theorem check1_none_iff (N : NFA) (ranges : List (Nat × Nat)) :
    check1 N ranges = none ↔ ∀ a, a < 256 → AgreesGo N ranges #[a] := by
  simp only [check1, List.findSome?_eq_none_iff, List.mem_range, badString_none_iff]

theorem check2_none_iff (N : NFA) (ranges : List (Nat × Nat)) :
    check2 N ranges = none ↔ ∀ a b, a < 256 → b < 256 → AgreesGo N ranges #[a, b] := by
  simp only [check2, List.findSome?_eq_none_iff, List.mem_range, badString_none_iff]
  constructor
  · intro h a b ha hb; exact h a ha b hb
  · intro h a ha b hb; exact h a b ha hb

theorem check3_none_iff (N : NFA) (ranges : List (Nat × Nat)) :
    check3 N ranges = none ↔
      ∀ a b c, a ∈ boundaryBytes → b ∈ boundaryBytes → c ∈ boundaryBytes → AgreesGo N ranges #[a, b, c] := by
  simp only [check3, List.findSome?_eq_none_iff, badString_none_iff]
  constructor
  · intro h a b c ha hb hc; exact h a ha b hb c hc
  · intro h a ha b hb c hc; exact h a b c ha hb hc

theorem checkStrings_none_iff (N : NFA) (ranges : List (Nat × Nat)) :
    checkStrings N ranges = none ↔ StringsOK N ranges := by
  unfold StringsOK
  rw [← check1_none_iff, ← check2_none_iff, ← check3_none_iff]
  unfold checkStrings
  cases check1 N ranges with
  | some x => simp
  | none =>
    cases check2 N ranges with
    | some y => simp
    | none => simp

/-- a reported byte string is one of those enumerated, and automaton and Go's rule really differ on it -/
theorem checkStrings_some (N : NFA) (ranges : List (Nat × Nat)) (bs : Bytes) (h : checkStrings N ranges = some bs) :
    ¬ AgreesGo N ranges bs ∧
    ((∃ a, a < 256 ∧ bs = #[a]) ∨ (∃ a b, a < 256 ∧ b < 256 ∧ bs = #[a, b]) ∨
     (∃ a b c, a ∈ boundaryBytes ∧ b ∈ boundaryBytes ∧ c ∈ boundaryBytes ∧ bs = #[a, b, c])) := by
  have h1 : check1 N ranges = some bs ∨ check2 N ranges = some bs ∨ check3 N ranges = some bs := by
    unfold checkStrings at h
    split at h
    · rename_i x hx; exact Or.inl (hx.trans h)
    · split at h
      · rename_i y hy; exact Or.inr (Or.inl (hy.trans h))
      · exact Or.inr (Or.inr h)
  rcases h1 with h1 | h1 | h1
  · obtain ⟨a, ha, hb⟩ := List.exists_of_findSome?_eq_some h1
    obtain ⟨rfl, hd⟩ := badString_some N ranges _ _ hb
    exact ⟨hd, Or.inl ⟨a, List.mem_range.mp ha, rfl⟩⟩
  · obtain ⟨a, ha, h2⟩ := List.exists_of_findSome?_eq_some h1
    obtain ⟨b, hb, h3⟩ := List.exists_of_findSome?_eq_some h2
    obtain ⟨rfl, hd⟩ := badString_some N ranges _ _ h3
    exact ⟨hd, Or.inr (Or.inl ⟨a, b, List.mem_range.mp ha, List.mem_range.mp hb, rfl⟩)⟩
  · obtain ⟨a, ha, h2⟩ := List.exists_of_findSome?_eq_some h1
    obtain ⟨b, hb, h3⟩ := List.exists_of_findSome?_eq_some h2
    obtain ⟨c, hc, h4⟩ := List.exists_of_findSome?_eq_some h3
    obtain ⟨rfl, hd⟩ := badString_some N ranges _ _ h4
    exact ⟨hd, Or.inr (Or.inr ⟨a, b, c, ha, hb, hc, rfl⟩)⟩

/-! ### the verdict -/

theorem sweep_interval_iff (N : NFA) (ranges : List (Nat × Nat)) (lo hi : Nat) :
    sweepRunes N ranges (hi + 1 - lo) lo = none ↔ RunesOK N ranges lo hi := by
  rw [sweepRunes_none_iff]
  unfold RunesOK
  constructor
  · intro h r h1 h2 h3; exact h r h1 (by omega) h3
  · intro h r h1 h2 h3; exact h r h1 (by omega) h3

/-- the checker is a decision procedure for the conjunction of the two properties -/
theorem classCheckV_ok_iff (N : NFA) (ranges : List (Nat × Nat)) (lo hi : Nat) :
    classCheckV N ranges lo hi = .ok ↔ (RunesOK N ranges lo hi ∧ (128 ≤ hi → StringsOK N ranges)) := by
  rw [← sweep_interval_iff, ← checkStrings_none_iff]
  unfold classCheckV
  cases sweepRunes N ranges (hi + 1 - lo) lo with
  | some p => simp
  | none =>
    by_cases hh : hi < 128
    · simp only [hh, ↓reduceIte, true_and, true_iff]
      intro h; omega
    · simp only [hh, ↓reduceIte, true_and]
      cases checkStrings N ranges with
      | some bs => simp; omega
      | none => simp

theorem classCheckV_failRune (N : NFA) (ranges : List (Nat × Nat)) (lo hi r : Nat) (acc : Bool)
    (h : classCheckV N ranges lo hi = .failRune r acc) :
    lo ≤ r ∧ r ≤ hi ∧ isScalar r ∧ (acc = true ↔ Accepts N (ofList (encode r)) 0 (encode r).length) ∧
    ¬ RuneOK N ranges r ∧ ∀ y, lo ≤ y → y < r → isScalar y → RuneOK N ranges y := by
  unfold classCheckV at h
  split at h
  · rename_i x a hs
    simp only [Verdict.failRune.injEq] at h
    obtain ⟨rfl, rfl⟩ := h
    obtain ⟨h1, h2, h3, h4, h5, h6⟩ := sweepRunes_some N ranges _ _ _ _ hs
    exact ⟨h1, by omega, h3, h4, h5, h6⟩
  · split at h
    · cases h
    · split at h <;> cases h

theorem classCheckV_failBytes (N : NFA) (ranges : List (Nat × Nat)) (lo hi : Nat) (bs : Bytes)
    (h : classCheckV N ranges lo hi = .failBytes bs) :
    128 ≤ hi ∧ RunesOK N ranges lo hi ∧ ¬ AgreesGo N ranges bs ∧
    ((∃ a, a < 256 ∧ bs = #[a]) ∨ (∃ a b, a < 256 ∧ b < 256 ∧ bs = #[a, b]) ∨
     (∃ a b c, a ∈ boundaryBytes ∧ b ∈ boundaryBytes ∧ c ∈ boundaryBytes ∧ bs = #[a, b, c])) := by
  unfold classCheckV at h
  split at h
  · cases h
  · rename_i hs
    split at h
    · cases h
    · rename_i hh
      split at h
      · rename_i x hx
        simp only [Verdict.failBytes.injEq] at h
        subst h
        obtain ⟨h1, h2⟩ := checkStrings_some N ranges _ hx
        exact ⟨by omega, (sweep_interval_iff N ranges lo hi).mp hs, h1, h2⟩
      · cases h

/-! ### the rendered answer -/

theorem render_eq_ok_iff (v : Verdict) : v.render = "ok" ↔ v = .ok := by
  constructor
  · intro h
    cases v with
    | ok => rfl
    | failRune r acc =>
      have := congrArg String.toList h
      simp [Verdict.render, String.toList_append] at this
    | failBytes bs =>
      have := congrArg String.toList h
      simp [Verdict.render, String.toList_append] at this
  · intro h; subst h; rfl

/-- the rendering is the answer format the harness parses (what the `s!` interpolations of the former `do`-block produced) -/
theorem render_format (r : Nat) (acc : Bool) (bs : Bytes) :
    Verdict.ok.render = "ok" ∧ (Verdict.failRune r acc).render = s!"fail:rune:{r}:{acc}" ∧
    (Verdict.failBytes bs).render = s!"fail:bytes:{toHex bs}" := ⟨rfl, rfl, rfl⟩

theorem classCheck_ok_iff (N : NFA) (ranges : List (Nat × Nat)) (lo hi : Nat) :
    classCheck N ranges lo hi = "ok" ↔ (RunesOK N ranges lo hi ∧ (128 ≤ hi → StringsOK N ranges)) := by
  unfold classCheck
  rw [render_eq_ok_iff, classCheckV_ok_iff]

/-- **Soundness of the class checker.**  If `cxdrv classcheck lo hi ranges nfa` answers `ok`, then for EVERY scalar value
    `r` of `[lo, hi]` the dumped automaton, started in its anchored start state at offset 0 of `encode r`, reaches a match
    state exactly at the end of the string iff `r` is in `ranges`; and when `128 ≤ hi`, for every byte string of length 1
    and 2 and every length-3 string over `boundaryBytes` it does so iff Go's `utf8.DecodeRune` consumes the whole string
    as one rune and that rune is in `ranges`.  No hypothesis on the automaton, the ranges or the bounds. -/
theorem classCheck_ok (N : NFA) (ranges : List (Nat × Nat)) (lo hi : Nat) (h : classCheck N ranges lo hi = "ok") :
    (∀ r, lo ≤ r → r ≤ hi → isScalar r →
      (Accepts N (ofList (encode r)) 0 (encode r).length ↔ GoRef.inRanges r ranges = true)) ∧
    (128 ≤ hi →
      (∀ a, a < 256 → (Accepts N #[a] 0 1 ↔
        ((decodeAt #[a] 0).2 = 1 ∧ GoRef.inRanges (decodeAt #[a] 0).1 ranges = true))) ∧
      (∀ a b, a < 256 → b < 256 → (Accepts N #[a, b] 0 2 ↔
        ((decodeAt #[a, b] 0).2 = 2 ∧ GoRef.inRanges (decodeAt #[a, b] 0).1 ranges = true))) ∧
      (∀ a b c, a ∈ boundaryBytes → b ∈ boundaryBytes → c ∈ boundaryBytes → (Accepts N #[a, b, c] 0 3 ↔
        ((decodeAt #[a, b, c] 0).2 = 3 ∧ GoRef.inRanges (decodeAt #[a, b, c] 0).1 ranges = true)))) :=
  (classCheck_ok_iff N ranges lo hi).mp h

/-- a `fail:` answer is the rendering of a verdict that exhibits a genuine difference -/
theorem classCheck_fail (N : NFA) (ranges : List (Nat × Nat)) (lo hi : Nat) (h : classCheck N ranges lo hi ≠ "ok") :
    (∃ r acc, classCheck N ranges lo hi = s!"fail:rune:{r}:{acc}" ∧ lo ≤ r ∧ r ≤ hi ∧ isScalar r ∧
      (acc = true ↔ Accepts N (ofList (encode r)) 0 (encode r).length) ∧ ¬ RuneOK N ranges r ∧
      ∀ y, lo ≤ y → y < r → isScalar y → RuneOK N ranges y) ∨
    (∃ bs, classCheck N ranges lo hi = s!"fail:bytes:{toHex bs}" ∧ 128 ≤ hi ∧ RunesOK N ranges lo hi ∧
      ¬ AgreesGo N ranges bs) := by
  unfold classCheck at h ⊢
  cases hv : classCheckV N ranges lo hi with
  | ok => rw [hv] at h; exact absurd rfl h
  | failRune r acc =>
    exact Or.inl ⟨r, acc, rfl, classCheckV_failRune N ranges lo hi r acc hv⟩
  | failBytes bs =>
    obtain ⟨h1, h2, h3, _⟩ := classCheckV_failBytes N ranges lo hi bs hv
    exact Or.inr ⟨bs, rfl, h1, h2, h3⟩

end Cx.ClassCheck
