import Cx.Proofs.OnePassClosure
/-
  Cx.Proofs.OnePassLook — what the guard `hasUnsupportedLook` (dfa/onepass/look.go) guarantees when it lets an
  automaton through: `reachableStates` computes a successor-closed set that holds its roots (`reach_spec`), hence
  (`guard_spec`) there are successor-closed sets `R` (reachable from the anchored start) and `C` (reachable after a
  byte was consumed) such that every look state in `R` is `\z`, or is a start look outside `C`.
-/
namespace Cx.Caps.OnePass
open Cx Cx.Nfa

def Marked (a : Array Bool) (q : Nat) : Prop := a.getD q false = true

/-- successor-closed on the states of the automaton -/
def SuccClosed (N : NFA) (P : Nat → Prop) : Prop :=
  ∀ q, q < N.states.size → P q → ∀ x ∈ succStates (N.get q), x < N.states.size → P x

/-- every marked state has its successors marked or on the stack -/
def RInv (N : NFA) (stack : List Nat) (seen : Array Bool) : Prop :=
  ∀ q, q < N.states.size → Marked seen q → ∀ x ∈ succStates (N.get q), x < N.states.size → Marked seen x ∨ x ∈ stack

theorem reachLoop_spec (N : NFA) (hsz : N.states.size ≤ invalidState) : ∀ (fuel : Nat) (stack : List Nat)
    (seen out : Array Bool), reachLoop N fuel stack seen = some out → seen.size = N.states.size → RInv N stack seen →
    SuccClosed N (Marked out) ∧ (∀ q, Marked seen q → Marked out q) ∧
      (∀ q ∈ stack, q < N.states.size → Marked out q) := by
  intro fuel
  induction fuel with
  | zero => intro stack seen out h; simp [reachLoop] at h
  | succ fuel ih =>
    intro stack seen out h hs inv
    cases stack with
    | nil =>
      simp only [reachLoop, Option.some.injEq] at h
      subst h
      refine ⟨?_, fun _ h => h, fun q hq => by simp at hq⟩
      intro q hq hm x hx hxl
      rcases inv q hq hm x hx hxl with h1 | h1
      · exact h1
      · simp at h1
    | cons id st =>
      rw [reachLoop] at h
      split at h
      · rename_i hc
        have inv' : RInv N st seen := by
          intro q hq hm x hx hxl
          rcases inv q hq hm x hx hxl with h1 | h1
          · exact Or.inl h1
          · rcases List.mem_cons.mp h1 with rfl | h2
            · rcases hc with hc | hc
              · omega
              · exact Or.inl hc
            · exact Or.inr h2
        obtain ⟨a1, a2, a3⟩ := ih st seen out h hs inv'
        refine ⟨a1, a2, ?_⟩
        intro q hq hql
        rcases List.mem_cons.mp hq with rfl | h2
        · rcases hc with hc | hc
          · omega
          · exact a2 _ hc
        · exact a3 q h2 hql
      · rename_i hc
        split at h
        · rename_i hge
          have inv' : RInv N st seen := by
            intro q hq hm x hx hxl
            rcases inv q hq hm x hx hxl with h1 | h1
            · exact Or.inl h1
            · rcases List.mem_cons.mp h1 with rfl | h2
              · omega
              · exact Or.inr h2
          obtain ⟨a1, a2, a3⟩ := ih st seen out h hs inv'
          refine ⟨a1, a2, ?_⟩
          intro q hq hql
          rcases List.mem_cons.mp hq with rfl | h2
          · omega
          · exact a3 q h2 hql
        · rename_i hlt
          have hidlt : id < seen.size := by omega
          have hmark : ∀ q, Marked (seen.setIfInBounds id true) q ↔ (Marked seen q ∨ q = id) :=
            fun q => getD_setTrue seen id q hidlt
          have inv' : RInv N ((succStates (N.get id)).reverse ++ st) (seen.setIfInBounds id true) := by
            intro q hq hm x hx hxl
            rcases (hmark q).mp hm with h1 | rfl
            · rcases inv q hq h1 x hx hxl with h2 | h2
              · exact Or.inl ((hmark x).mpr (Or.inl h2))
              · rcases List.mem_cons.mp h2 with rfl | h3
                · exact Or.inl ((hmark _).mpr (Or.inr rfl))
                · exact Or.inr (List.mem_append_right _ h3)
            · exact Or.inr (List.mem_append_left _ (List.mem_reverse.mpr hx))
          obtain ⟨a1, a2, a3⟩ := ih _ _ out h (by simpa using hs) inv'
          refine ⟨a1, fun q hq => a2 q ((hmark q).mpr (Or.inl hq)), ?_⟩
          intro q hq hql
          rcases List.mem_cons.mp hq with rfl | h2
          · exact a2 _ ((hmark _).mpr (Or.inr rfl))
          · exact a3 q (List.mem_append_right _ h2) hql

theorem reach_spec {N : NFA} (hsz : N.states.size ≤ invalidState) {roots : List Nat} {out : Array Bool}
    (h : reach N roots = some out) :
    SuccClosed N (Marked out) ∧ ∀ q ∈ roots, q < N.states.size → Marked out q := by
  unfold reach at h
  obtain ⟨a1, _, a3⟩ := reachLoop_spec N hsz _ _ _ out h (by simp) (by
    intro q hq hm
    simp [Marked, Array.getD_eq_getD_getElem?, Array.getElem?_replicate, hq] at hm)
  exact ⟨a1, fun q hq hql => a3 q (List.mem_reverse.mpr hq) hql⟩

/-- the guarantee of the guard -/
structure LookOK (N : NFA) (R C : Nat → Prop) : Prop where
  start : N.startAnchored < N.states.size → R N.startAnchored
  closedR : SuccClosed N R
  closedC : SuccClosed N C
  after : ∀ q, q < N.states.size → R q → consuming (N.get q) = true →
    ∀ x ∈ succStates (N.get q), x < N.states.size → C x
  looks : ∀ q k nx, q < N.states.size → R q → N.get q = .look k nx →
    k = .endText ∨ ((k = .startText ∨ k = .startLine) ∧ ¬ C q)

theorem guard_spec {N : NFA} (hsz : N.states.size ≤ invalidState) (h : hasUnsupportedLook N = false) :
    ∃ R C, LookOK N R C := by
  unfold hasUnsupportedLook at h
  split at h
  · cases h
  · rename_i Rr hR
    obtain ⟨r1, r2⟩ := reach_spec hsz hR
    simp only at h
    split at h
    · -- no look state is reachable
      rename_i hempty
      refine ⟨Marked Rr, fun _ => True, ?_, r1, fun _ _ _ _ _ _ => trivial, fun _ _ _ _ _ _ _ => trivial, ?_⟩
      · intro hs; exact r2 _ (by simp) hs
      · intro q k nx hq hm hk
        exfalso
        have hmem : q ∈ ((List.range N.states.size).filter fun q => Rr.getD q false).filter fun q => isLook (N.get q) := by
          simp only [List.mem_filter, List.mem_range]
          exact ⟨⟨hq, hm⟩, by rw [hk]; rfl⟩
        rw [List.isEmpty_iff] at hempty
        rw [hempty] at hmem
        simp at hmem
    · split at h
      · cases h
      · rename_i Cc hC
        obtain ⟨c1, c2⟩ := reach_spec hsz hC
        refine ⟨Marked Rr, Marked Cc, ?_, r1, c1, ?_, ?_⟩
        · intro hs; exact r2 _ (by simp) hs
        · intro q hq hm hcons x hx hxl
          apply c2 x _ hxl
          simp only [List.mem_flatMap, List.mem_filter, List.mem_range]
          exact ⟨q, ⟨hq, hm⟩, by rw [if_pos hcons]; exact hx⟩
        · intro q k nx hq hm hk
          have hmem : q ∈ ((List.range N.states.size).filter fun q => Rr.getD q false).filter fun q => isLook (N.get q) := by
            simp only [List.mem_filter, List.mem_range]
            exact ⟨⟨hq, hm⟩, by rw [hk]; rfl⟩
          have hb : badLook N Cc q = false := by
            cases hbb : badLook N Cc q with
            | false => rfl
            | true =>
              have : (List.any (((List.range N.states.size).filter fun q => Rr.getD q false).filter fun q => isLook (N.get q))
                  (badLook N Cc)) = true := List.any_eq_true.mpr ⟨q, hmem, hbb⟩
              rw [this] at h; cases h
          unfold badLook at hb
          rw [hk] at hb
          cases k <;> simp only at hb
          · exact Or.inr ⟨Or.inl rfl, by intro hc; rw [hc] at hb; cases hb⟩
          · exact Or.inl rfl
          · exact Or.inr ⟨Or.inr rfl, by intro hc; rw [hc] at hb; cases hb⟩
          all_goals cases hb

end Cx.Caps.OnePass
