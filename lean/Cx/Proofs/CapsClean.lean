import Cx.Proofs.CapsBase
/-
  Cx.Proofs.CapsClean — the capture search of the Pike VM with the bookkeeping removed:
  threads that carry their own slot array (`CT`), no slot tables, no restore frames.
   * generic epsilon closure over an abstract frame type (`closureG`) with the fuel / stack / queue algebra;
   * the clean model (`closureK`, `stepThreadK`, `loopKU`);
   * `closureC_sim` … `loopCU_eq`: the transliterated code (`Cx.Model.Caps`: `currSlots`, RestoreCapture frames,
     per-state rows in two swapped tables) computes exactly what the clean model computes (hypothesis: `RuneOK`, so
     that no thread is re-queued without its row being written).
-/
namespace Cx.Caps
open Cx Cx.Nfa
open Cx.Pike (Thread Vis clearVis anchored isMatchState closureFuel isBetter hasLeftmost matchesEmptyAt RuneOK succs
  sparseSuccs)

/-! ### generic closure -/

section Gen
variable {α : Type} (sid : α → Nat) (exp : α → List α × Bool)

/-- `Pike.closure` over an abstract frame type: `sid` is the state of a frame, `exp` the closure switch -/
def closureG : Nat → List α → Vis → List α → Vis × List α
  | 0, _, vis, out => (vis, out)
  | _+1, [], vis, out => (vis, out)
  | fuel+1, fr :: st, vis, out =>
    if vis.getD (sid fr) true then closureG fuel st vis out else
    closureG fuel ((exp fr).1 ++ st) (vis.setIfInBounds (sid fr) true) (if (exp fr).2 then out ++ [fr] else out)

theorem closureG_nil (fuel : Nat) (vis : Vis) (out : List α) : closureG sid exp fuel [] vis out = (vis, out) := by
  cases fuel <;> simp [closureG]

variable (hlen : ∀ fr, (exp fr).1.length ≤ 2)
include hlen

theorem closureG_fuel_irrel : ∀ (f1 f2 : Nat) (stack : List α) (vis : Vis) (out : List α),
    2 * vis.count false + stack.length ≤ f1 → 2 * vis.count false + stack.length ≤ f2 →
    closureG sid exp f1 stack vis out = closureG sid exp f2 stack vis out := by
  intro f1
  induction f1 with
  | zero =>
    intro f2 stack vis out h1 _
    have : stack = [] := by
      cases stack with
      | nil => rfl
      | cons a b => simp at h1
    subst this
    rw [closureG_nil, closureG_nil]
  | succ f1 ih =>
    intro f2 stack vis out h1 h2
    cases stack with
    | nil => rw [closureG_nil, closureG_nil]
    | cons fr st =>
      cases f2 with
      | zero => simp at h2
      | succ f2 =>
        rw [closureG, closureG]
        split
        · apply ih <;> (simp at h1 h2; omega)
        · rename_i hv
          have hv : vis.getD (sid fr) true = false := by simpa using hv
          have hcnt := count_set_lt hv
          have hl := hlen fr
          apply ih <;> (simp only [List.length_append, List.length_cons] at h1 h2 ⊢; omega)

omit hlen in
theorem closureG_count_le : ∀ (fuel : Nat) (stack : List α) (vis : Vis) (out : List α),
    (closureG sid exp fuel stack vis out).1.count false ≤ vis.count false := by
  intro fuel
  induction fuel with
  | zero => intro stack vis out; simp [closureG]
  | succ fuel ih =>
    intro stack vis out
    cases stack with
    | nil => simp [closureG]
    | cons fr st =>
      rw [closureG]
      split
      · exact ih ..
      · rename_i hv
        have hv : vis.getD (sid fr) true = false := by simpa using hv
        have hcnt := count_set_lt hv
        have := ih ((exp fr).1 ++ st) (vis.setIfInBounds (sid fr) true)
          (if (exp fr).2 = true then out ++ [fr] else out)
        omega

omit hlen in
theorem closureG_size : ∀ (fuel : Nat) (stack : List α) (vis : Vis) (out : List α),
    (closureG sid exp fuel stack vis out).1.size = vis.size := by
  intro fuel
  induction fuel with
  | zero => intro stack vis out; simp [closureG]
  | succ fuel ih =>
    intro stack vis out
    cases stack with
    | nil => simp [closureG]
    | cons fr st =>
      rw [closureG]
      split
      · exact ih ..
      · rw [ih]; simp

theorem closureG_stack_append : ∀ (fuel : Nat) (s1 s2 : List α) (vis : Vis) (out : List α),
    2 * vis.count false + (s1 ++ s2).length ≤ fuel →
    closureG sid exp fuel (s1 ++ s2) vis out =
      closureG sid exp fuel s2 (closureG sid exp fuel s1 vis out).1 (closureG sid exp fuel s1 vis out).2 := by
  intro fuel
  induction fuel with
  | zero =>
    intro s1 s2 vis out hf
    have : s1 = [] := by
      cases s1 with
      | nil => rfl
      | cons a b => simp at hf
    subst this
    simp [closureG]
  | succ fuel ih =>
    intro s1 s2 vis out hf
    cases s1 with
    | nil => simp [closureG_nil]
    | cons fr st =>
      simp only [List.cons_append]
      rw [closureG, closureG]
      split
      · rw [ih st s2 vis out (by simp at hf ⊢; omega)]
        apply closureG_fuel_irrel sid exp hlen
        · have := closureG_count_le sid exp fuel st vis out
          simp at hf; omega
        · have := closureG_count_le sid exp fuel st vis out
          simp at hf; omega
      · rename_i hv
        have hv : vis.getD (sid fr) true = false := by simpa using hv
        have hcnt := count_set_lt hv
        have hl := hlen fr
        rw [← List.append_assoc, ih _ s2 _ _ (by simp only [List.length_append, List.length_cons] at hf ⊢; omega)]
        apply closureG_fuel_irrel sid exp hlen
        · have := closureG_count_le sid exp fuel ((exp fr).1 ++ st) (vis.setIfInBounds (sid fr) true)
            (if (exp fr).2 = true then out ++ [fr] else out)
          simp only [List.length_append, List.length_cons] at hf; omega
        · have := closureG_count_le sid exp fuel ((exp fr).1 ++ st) (vis.setIfInBounds (sid fr) true)
            (if (exp fr).2 = true then out ++ [fr] else out)
          simp only [List.length_append, List.length_cons] at hf; omega

omit hlen in
theorem closureG_append : ∀ (fuel : Nat) (stack : List α) (vis : Vis) (o1 o2 : List α),
    closureG sid exp fuel stack vis (o1 ++ o2) =
      ((closureG sid exp fuel stack vis o2).1, o1 ++ (closureG sid exp fuel stack vis o2).2) := by
  intro fuel
  induction fuel with
  | zero => intro stack vis o1 o2; simp [closureG]
  | succ fuel ih =>
    intro stack vis o1 o2
    cases stack with
    | nil => simp [closureG]
    | cons fr st =>
      rw [closureG, closureG]
      split
      · exact ih ..
      · by_cases he : (exp fr).2 = true
        · simp only [he, ↓reduceIte, List.append_assoc]
          exact ih ..
        · simp only [he, Bool.false_eq_true, ↓reduceIte]
          exact ih ..

end Gen


/-! ### the clean model: threads carry their slots -/

structure CT where
  state : Nat
  start : Nat
  slots : Slots
  deriving Repr, Inhabited

def CT.er (t : CT) : Thread := ⟨t.state, t.start⟩

/-- the closure switch: as `Pike.expand`, a capture state updates the slots of the frame it pushes -/
def expandK (N : NFA) (h : Bytes) (pos : Nat) (fr : CT) : List CT × Bool :=
  match N.get fr.state with
  | .mtch => ([], true)
  | .byteRange _ _ _ => ([], true)
  | .sparse _ => ([], true)
  | .runeAny _ => ([], true)
  | .runeAnyNotNL _ => ([], true)
  | .eps nx => ([⟨nx, fr.start, fr.slots⟩], false)
  | .split l r => ([⟨l, fr.start, fr.slots⟩, ⟨r, fr.start, fr.slots⟩], false)
  | .cap idx st nx => ([⟨nx, fr.start, fr.slots.set (slotIdx idx st) (pos : Int)⟩], false)
  | .look k nx => (if lookOK k h pos then [⟨nx, fr.start, fr.slots⟩] else [], false)
  | .fail => ([], false)

theorem expandK_len (N : NFA) (h : Bytes) (pos : Nat) (fr : CT) : (expandK N h pos fr).1.length ≤ 2 := by
  unfold expandK
  split <;> simp
  split <;> simp

def closureK (N : NFA) (h : Bytes) (pos : Nat) : Nat → List CT → Vis → List CT → Vis × List CT :=
  closureG CT.state (expandK N h pos)

def addThreadK (N : NFA) (h : Bytes) (pos : Nat) (t : CT) (vq : Vis × List CT) : Vis × List CT :=
  closureK N h pos (closureFuel N) [t] vq.1 vq.2

def addAllK (N : NFA) (h : Bytes) (pos' : Nat) (L : List CT) (vq : Vis × List CT) : Vis × List CT :=
  L.foldl (fun vq t => addThreadK N h pos' t vq) vq

/-- one byte step of a thread: the closures of its successors, in the order the code adds them -/
def stepThreadK (N : NFA) (h : Bytes) (pos : Nat) (t : CT) (vq : Vis × List CT) : Vis × List CT :=
  addAllK N h (pos+1) ((succs N h pos t.state).map fun x => (⟨x, t.start, t.slots⟩ : CT)) vq

def recordK (best : Best) (t : CT) (pos : Nat) : Best :=
  if isBetter (bestSpan best) t.start pos then some ((t.start, pos), t.slots) else best

/-- leftmost-first: stop at the first match state -/
def stepQueueK (N : NFA) (h : Bytes) (pos : Nat) : List CT → Best → Vis × List CT → Best × (Vis × List CT)
  | [], best, vq => (best, vq)
  | t :: ts, best, vq =>
    if isMatchState N t.state then (recordK best t pos, vq)
    else stepQueueK N h pos ts best (stepThreadK N h pos t vq)

def endQueueK (N : NFA) (pos : Nat) : List CT → Best → Best
  | [], best => best
  | t :: ts, best => if isMatchState N t.state then recordK best t pos else endQueueK N pos ts best

def hasLeftmostK (next : List CT) (bs : Nat) : Bool := next.any fun t => decide (t.start ≤ bs)

def loopKU (N : NFA) (h : Bytes) (nslots : Nat) : Nat → Nat → List CT → Vis → Best → Best
  | 0, _, _, _, best => best
  | fuel+1, pos, Q, vis, best =>
    let sd := if best.isNone then addThreadK N h pos ⟨N.startAnchored, pos, unset nslots⟩ (vis, Q) else (vis, Q)
    if pos < h.size then
      let r := stepQueueK N h pos sd.2 best (clearVis N, [])
      match r.1 with
      | some ((bs, _), _) => if hasLeftmostK r.2.2 bs then loopKU N h nslots fuel (pos+1) r.2.2 r.2.1 r.1 else r.1
      | none => loopKU N h nslots fuel (pos+1) r.2.2 r.2.1 r.1
    else endQueueK N pos sd.2 best

/-! ### the transliterated code against the clean model -/

/-- frames of the code's stack against frames of the clean stack, given the current `currSlots` -/
inductive RelStack : Slots → List Frame → List CT → Prop where
  | nil (sl : Slots) : RelStack sl [] []
  | explore {sl : Slots} {q st : Nat} {rest : List Frame} {restK : List CT} :
      RelStack sl rest restK → RelStack sl (.explore q st :: rest) (⟨q, st, sl⟩ :: restK)
  | restore {sl : Slots} {k : Nat} {v : Int} {rest : List Frame} {restK : List CT} :
      RelStack (sl.set k v) rest restK → RelStack sl (.restore k v :: rest) restK

theorem RelStack.length_le {sl : Slots} {a : List Frame} {b : List CT} (h : RelStack sl a b) : b.length ≤ a.length := by
  induction h with
  | nil => simp
  | explore _ ih => simp; omega
  | restore _ ih => simp; omega

/-- the queue under construction: same threads; every queued state is marked and its row holds the thread's slots -/
def OutRel (n : Nat) (vis : Vis) (tab : Array Slots) (out : List Thread) (outK : List CT) : Prop :=
  out = outK.map CT.er ∧ ∀ t ∈ outK, vis.getD t.state true = true ∧ tab.getD t.state (unset n) = t.slots

theorem OutRel.mark {n : Nat} {vis : Vis} {tab : Array Slots} {out : List Thread} {outK : List CT}
    (h : OutRel n vis tab out outK) (q : Nat) : OutRel n (vis.setIfInBounds q true) tab out outK :=
  ⟨h.1, fun t ht => ⟨getD_set_mono (h.2 t ht).1, (h.2 t ht).2⟩⟩

theorem closureC_explore (N : NFA) (h : Bytes) (pos fuel q start : Nat) (st : List Frame) (s : CS) :
    closureC N h pos (fuel+1) (.explore q start :: st) s =
      if s.vis.getD q true then closureC N h pos fuel st s else
      match N.get q with
      | .eps nx => closureC N h pos fuel (.explore nx start :: st) { s with vis := s.vis.setIfInBounds q true }
      | .split l r => closureC N h pos fuel (.explore l start :: .explore r start :: st) { s with vis := s.vis.setIfInBounds q true }
      | .cap idx isStart nx =>
        if slotIdx idx isStart < s.slots.length then
          closureC N h pos fuel (.explore nx start :: .restore (slotIdx idx isStart) (s.slots.getD (slotIdx idx isStart) (-1)) :: st)
            { s with vis := s.vis.setIfInBounds q true, slots := s.slots.set (slotIdx idx isStart) (pos : Int) }
        else closureC N h pos fuel (.explore nx start :: st) { s with vis := s.vis.setIfInBounds q true }
      | .look k nx => if lookOK k h pos then closureC N h pos fuel (.explore nx start :: st) { s with vis := s.vis.setIfInBounds q true }
          else closureC N h pos fuel st { s with vis := s.vis.setIfInBounds q true }
      | .fail => closureC N h pos fuel st { s with vis := s.vis.setIfInBounds q true }
      | _ => closureC N h pos fuel st
          { s with vis := s.vis.setIfInBounds q true, tab := s.tab.setIfInBounds q s.slots, out := s.out ++ [⟨q, start⟩] } := by
  rw [closureC]
  split
  · rfl
  · cases hk : N.get q <;> rfl

theorem closureK_cons (N : NFA) (h : Bytes) (pos fuel : Nat) (fr : CT) (st : List CT) (vis : Vis) (out : List CT) :
    closureK N h pos (fuel+1) (fr :: st) vis out =
      if vis.getD fr.state true then closureK N h pos fuel st vis out else
      closureK N h pos fuel ((expandK N h pos fr).1 ++ st) (vis.setIfInBounds fr.state true)
        (if (expandK N h pos fr).2 then out ++ [fr] else out) := by
  unfold closureK
  rw [closureG]

theorem closureK_nil (N : NFA) (h : Bytes) (pos fuel : Nat) (vis : Vis) (out : List CT) :
    closureK N h pos fuel [] vis out = (vis, out) := closureG_nil ..

theorem set_restore (sl : Slots) (k : Nat) (v : Int) (hk : k < sl.length) :
    (sl.set k v).set k (sl.getD k (-1)) = sl := by
  rw [List.set_set]
  have : sl.getD k (-1) = sl[k] := by simp [List.getD_eq_getElem?_getD, List.getElem?_eq_getElem hk]
  rw [this, List.set_getElem_self]

theorem tab_getD_set_self {tab : Array Slots} {q : Nat} (hq : q < tab.size) (sl d : Slots) :
    (tab.setIfInBounds q sl).getD q d = sl := by
  simp [Array.getD_eq_getD_getElem?, Array.getElem?_setIfInBounds, hq]

theorem tab_getD_set_other {tab : Array Slots} {q q' : Nat} (hne : q ≠ q') (sl d : Slots) :
    (tab.setIfInBounds q sl).getD q' d = tab.getD q' d := by
  simp [Array.getD_eq_getD_getElem?, Array.getElem?_setIfInBounds, hne]

/-- the transliterated closure (working buffer, restore frames, rows) against the clean closure -/
theorem closureC_sim (N : NFA) (h : Bytes) (pos n : Nat) : ∀ (fuel : Nat) (stackC : List Frame) (s : CS)
    (stackK : List CT) (outK : List CT) (fuelK : Nat),
    RelStack s.slots stackC stackK → OutRel n s.vis s.tab s.out outK → s.tab.size = s.vis.size →
    2 * s.vis.count false + stackC.length ≤ fuel → 2 * s.vis.count false + stackK.length ≤ fuelK →
    (closureC N h pos fuel stackC s).vis = (closureK N h pos fuelK stackK s.vis outK).1 ∧
    OutRel n (closureC N h pos fuel stackC s).vis (closureC N h pos fuel stackC s).tab
      (closureC N h pos fuel stackC s).out (closureK N h pos fuelK stackK s.vis outK).2 ∧
    (closureC N h pos fuel stackC s).tab.size = s.tab.size := by
  intro fuel
  induction fuel with
  | zero =>
    intro stackC s stackK outK fuelK hrel hout hsz hf hfk
    have : stackC = [] := by
      cases stackC with
      | nil => rfl
      | cons a b => simp at hf
    subst this
    cases hrel
    simp only [closureC, closureK_nil]
    exact ⟨trivial, hout, trivial⟩
  | succ fuel ih =>
    intro stackC s stackK outK fuelK hrel hout hsz hf hfk
    cases hrel with
    | nil =>
      simp only [closureC, closureK_nil]
      exact ⟨trivial, hout, trivial⟩
    | @restore _ k v rest restK hrest =>
      rw [closureC]
      exact ih rest { s with slots := s.slots.set k v } stackK outK fuelK hrest hout hsz
        (by simp at hf ⊢; omega) hfk
    | @explore _ q st rest restK hrest =>
      obtain ⟨fk, rfl⟩ : ∃ k, fuelK = k + 1 := ⟨fuelK - 1, by simp at hfk; omega⟩
      rw [closureC_explore, closureK_cons]
      by_cases hv : s.vis.getD q true = true
      · rw [if_pos hv, if_pos hv]
        exact ih rest s restK outK fk hrest hout hsz (by simp at hf ⊢; omega) (by simp at hfk ⊢; omega)
      · rw [if_neg hv, if_neg hv]
        have hv' : s.vis.getD q true = false := by simpa using hv
        have hcnt := count_set_lt hv'
        have hqlt : q < s.vis.size := getD_false_lt hv'
        have hout' := hout.mark q
        simp only [List.length_cons] at hf hfk
        cases hk : N.get q <;> simp only [expandK, hk, Bool.false_eq_true, ↓reduceIte, List.nil_append, List.cons_append]
        case eps nx =>
          exact ih _ { s with vis := s.vis.setIfInBounds q true } _ outK fk (RelStack.explore hrest) hout'
            (by simpa using hsz) (by simp only [List.length_cons]; omega) (by simp only [List.length_cons]; omega)
        case split l r =>
          exact ih _ { s with vis := s.vis.setIfInBounds q true } _ outK fk
            (RelStack.explore (RelStack.explore hrest)) hout'
            (by simpa using hsz) (by simp only [List.length_cons]; omega) (by simp only [List.length_cons]; omega)
        case fail =>
          exact ih _ { s with vis := s.vis.setIfInBounds q true } _ outK fk hrest hout'
            (by simpa using hsz) (by simp only []; omega) (by simp only []; omega)
        case look kd nx =>
          split
          · simp only [List.cons_append, List.nil_append]
            exact ih _ { s with vis := s.vis.setIfInBounds q true } _ outK fk (RelStack.explore hrest) hout'
              (by simpa using hsz) (by simp only [List.length_cons]; omega) (by simp only [List.length_cons]; omega)
          · simp only [List.nil_append]
            exact ih _ { s with vis := s.vis.setIfInBounds q true } _ outK fk hrest hout'
              (by simpa using hsz) (by simp only []; omega) (by simp only []; omega)
        case cap idx isS nx =>
          split
          · rename_i hlt
            refine ih _ { s with vis := s.vis.setIfInBounds q true, slots := s.slots.set (slotIdx idx isS) (pos : Int) }
              _ outK fk (RelStack.explore (RelStack.restore ?_)) hout'
              (by simpa using hsz) (by simp only [List.length_cons]; omega) (by simp only [List.length_cons]; omega)
            simp only []
            rw [set_restore _ _ _ hlt]
            exact hrest
          · rename_i hge
            have hset : s.slots.set (slotIdx idx isS) (pos : Int) = s.slots :=
              List.set_eq_of_length_le (by omega)
            rw [hset]
            exact ih _ { s with vis := s.vis.setIfInBounds q true } _ outK fk (RelStack.explore hrest) hout'
              (by simpa using hsz) (by simp only [List.length_cons]; omega) (by simp only [List.length_cons]; omega)
        all_goals
          -- terminal states: the row is written, the thread appended
          have hnew : OutRel n (s.vis.setIfInBounds q true) (s.tab.setIfInBounds q s.slots) (s.out ++ [⟨q, st⟩])
              (outK ++ [⟨q, st, s.slots⟩]) := by
            refine ⟨by simp [hout.1, CT.er], ?_⟩
            intro t ht
            rcases List.mem_append.mp ht with h1 | h1
            · obtain ⟨m1, m2⟩ := hout.2 t h1
              have hne : q ≠ t.state := fun he => by rw [he, m1] at hv'; cases hv'
              exact ⟨getD_set_mono m1, by rw [tab_getD_set_other hne]; exact m2⟩
            · simp only [List.mem_cons, List.not_mem_nil, or_false] at h1
              subst h1
              exact ⟨getD_set_self hv', tab_getD_set_self (by omega) _ _⟩
          obtain ⟨a1, a2, a3⟩ := ih rest
            { s with vis := s.vis.setIfInBounds q true, tab := s.tab.setIfInBounds q s.slots, out := s.out ++ [⟨q, st⟩] }
            restK (outK ++ [⟨q, st, s.slots⟩]) fk hrest hnew (by simpa using hsz)
            (by simp only []; omega) (by simp only []; omega)
          exact ⟨a1, a2, by rw [a3]; simp⟩

theorem count_le_size' {W : Vis} {k : Nat} (hs : W.size = k) : W.count false ≤ k := by
  have := Array.count_le_size (a := false) (xs := W)
  omega

/-- `addSearchThread` with `currSlots = sl` against the clean closure of the thread carrying `sl` -/
theorem addThreadC_sim (N : NFA) (h : Bytes) (pos n : Nat) (t : Thread) (s : CS) (outK : List CT)
    (hout : OutRel n s.vis s.tab s.out outK) (hsz : s.tab.size = s.vis.size) (hvs : s.vis.size = N.states.size) :
    (addThreadC N h pos t s).vis = (addThreadK N h pos ⟨t.state, t.start, s.slots⟩ (s.vis, outK)).1 ∧
    OutRel n (addThreadC N h pos t s).vis (addThreadC N h pos t s).tab (addThreadC N h pos t s).out
      (addThreadK N h pos ⟨t.state, t.start, s.slots⟩ (s.vis, outK)).2 ∧
    (addThreadC N h pos t s).tab.size = s.tab.size := by
  have hc := count_le_size' hvs
  exact closureC_sim N h pos n _ _ s _ outK _ (RelStack.explore (RelStack.nil _)) hout hsz
    (by simp only [closureFuelC, List.length_cons, List.length_nil]; omega)
    (by simp only [closureFuel, List.length_cons, List.length_nil]; omega)

theorem addThreadK_size (N : NFA) (h : Bytes) (pos : Nat) (t : CT) (vq : Vis × List CT) :
    (addThreadK N h pos t vq).1.size = vq.1.size := closureG_size ..

/-- what a simulation step hands on: same marks, related queues, table size kept -/
def SimR (n : Nat) (r : CS) (k : Vis × List CT) (tsz : Nat) : Prop :=
  r.vis = k.1 ∧ OutRel n r.vis r.tab r.out k.2 ∧ r.tab.size = tsz

theorem addNextC_sim (N : NFA) (h : Bytes) (pos n : Nat) (cur : Array Slots) (t : Thread) (src : Nat) (s : CS)
    (k : Vis × List CT) (hs : SimR n s k N.states.size) (hvs : s.vis.size = N.states.size) :
    SimR n (addNextC N h n cur pos t src s) (addThreadK N h pos ⟨t.state, t.start, cur.getD src (unset n)⟩ k)
      N.states.size ∧ (addNextC N h n cur pos t src s).vis.size = N.states.size := by
  obtain ⟨h1, h2, h3⟩ := hs
  unfold addNextC
  have := addThreadC_sim N h pos n t { s with slots := cur.getD src (unset n) } k.2 h2 (by simp only; omega) hvs
  simp only [] at this
  have hk : (s.vis, k.2) = k := by rw [h1]
  rw [hk] at this
  refine ⟨⟨this.1, this.2.1, this.2.2.trans h3⟩, ?_⟩
  rw [this.1, addThreadK_size, ← h1]; exact hvs

theorem addAllK_cons (N : NFA) (h : Bytes) (pos : Nat) (t : CT) (L : List CT) (vq : Vis × List CT) :
    addAllK N h pos (t :: L) vq = addAllK N h pos L (addThreadK N h pos t vq) := rfl

theorem stepSparseC_sim (N : NFA) (h : Bytes) (pos n : Nat) (cur : Array Slots) (b : Nat) (t : Thread) :
    ∀ (ts : List (Nat × Nat × Nat)) (s : CS) (k : Vis × List CT), SimR n s k N.states.size →
    s.vis.size = N.states.size →
    SimR n (stepSparseC N h n cur pos b t ts s)
      (addAllK N h (pos+1) ((sparseSuccs b ts).map fun x => (⟨x, t.start, cur.getD t.state (unset n)⟩ : CT)) k)
      N.states.size ∧ (stepSparseC N h n cur pos b t ts s).vis.size = N.states.size := by
  intro ts
  induction ts with
  | nil => intro s k hs hvs; exact ⟨hs, hvs⟩
  | cons a ts ih =>
    intro s k hs hvs
    obtain ⟨lo, hi, nx⟩ := a
    simp only [stepSparseC, sparseSuccs]
    split
    · obtain ⟨a1, a2⟩ := addNextC_sim N h (pos+1) n cur ⟨nx, t.start⟩ t.state s k hs hvs
      simp only [List.map_cons, addAllK_cons]
      exact ih _ _ a1 a2
    · exact ih s k hs hvs

/-- one byte step of a thread whose row in the current table holds its slots -/
theorem stepThreadC_sim {N : NFA} {h : Bytes} (hR : RuneOK N h) {pos : Nat} (hp : pos < h.size) (n : Nat)
    (cur : Array Slots) (t : CT) (hrow : cur.getD t.state (unset n) = t.slots) (s : CS) (k : Vis × List CT)
    (hs : SimR n s k N.states.size) (hvs : s.vis.size = N.states.size) :
    SimR n (stepThreadC N h n cur pos t.er s) (stepThreadK N h pos t k) N.states.size ∧
    (stepThreadC N h n cur pos t.er s).vis.size = N.states.size := by
  unfold stepThreadC stepThreadK succs
  simp only [CT.er]
  cases hk : N.get t.state <;> simp only [List.map_nil, List.map_cons]
  case byteRange lo hi nx =>
    split
    · have := addNextC_sim N h (pos+1) n cur ⟨nx, t.start⟩ t.state s k hs hvs
      rw [hrow] at this
      exact this
    · exact ⟨hs, hvs⟩
  case sparse ts =>
    have := stepSparseC_sim N h pos n cur (h.at pos) ⟨t.state, t.start⟩ ts s k hs hvs
    rw [hrow] at this
    exact this
  case runeAny nx =>
    rcases hR with hn | ha
    · exact absurd hk (hn _ _).1
    · have hb := ha pos hp
      rw [if_neg (by omega), if_pos hp, Utf8.decodeAt, Utf8.decode1_fwd h h.size pos (by omega) hb]
      simp only [ne_eq, or_true, ↓reduceIte]
      have := addNextC_sim N h (pos+1) n cur ⟨nx, t.start⟩ t.state s k hs hvs
      rw [hrow] at this
      exact this
  case runeAnyNotNL nx =>
    rcases hR with hn | ha
    · exact absurd hk (hn _ _).2
    · have hb := ha pos hp
      rw [if_neg (by omega), if_pos hp, Utf8.decodeAt, Utf8.decode1_fwd h h.size pos (by omega) hb]
      by_cases h10 : h.at pos = 10
      · simp only [h10, ne_eq, not_true_eq_false, and_false, ↓reduceIte, List.map_nil]
        exact ⟨hs, hvs⟩
      · simp only [ne_eq, or_true, h10, not_false_eq_true, and_self, ↓reduceIte, List.map_cons, List.map_nil]
        have := addNextC_sim N h (pos+1) n cur ⟨nx, t.start⟩ t.state s k hs hvs
        rw [hrow] at this
        exact this
  all_goals exact ⟨hs, hvs⟩

theorem recordC_eq (n : Nat) (cur : Array Slots) (best : Best) (t : CT) (pos : Nat)
    (hrow : cur.getD t.state (unset n) = t.slots) : recordC n cur best t.er pos = recordK best t pos := by
  unfold recordC recordK
  simp only [CT.er, hrow]

theorem stepQueueC_sim {N : NFA} {h : Bytes} (hR : RuneOK N h) {pos : Nat} (hp : pos < h.size) (n : Nat)
    (cur : Array Slots) : ∀ (QK : List CT), (∀ t ∈ QK, cur.getD t.state (unset n) = t.slots) →
    ∀ (best : Best) (s : CS) (k : Vis × List CT), SimR n s k N.states.size → s.vis.size = N.states.size →
    (stepQueueC N h n false cur pos (QK.map CT.er) best s).1 = (stepQueueK N h pos QK best k).1 ∧
    SimR n (stepQueueC N h n false cur pos (QK.map CT.er) best s).2 (stepQueueK N h pos QK best k).2 N.states.size ∧
    (stepQueueC N h n false cur pos (QK.map CT.er) best s).2.vis.size = N.states.size := by
  intro QK
  induction QK with
  | nil => intro _ best s k hs hvs; exact ⟨rfl, hs, hvs⟩
  | cons t QK ih =>
    intro hrows best s k hs hvs
    simp only [List.map_cons, stepQueueC, stepQueueK]
    have hst : t.er.state = t.state := rfl
    rw [hst]
    split
    · simp only [Bool.not_false, ↓reduceIte]
      exact ⟨recordC_eq n cur best t pos (hrows t List.mem_cons_self), hs, hvs⟩
    · obtain ⟨a1, a2⟩ := stepThreadC_sim hR hp n cur t (hrows t List.mem_cons_self) s k hs hvs
      exact ih (fun x hx => hrows x (List.mem_cons_of_mem _ hx)) best _ _ a1 a2

theorem endQueueC_eq (N : NFA) (n : Nat) (cur : Array Slots) (pos : Nat) : ∀ (QK : List CT),
    (∀ t ∈ QK, cur.getD t.state (unset n) = t.slots) → ∀ (best : Best),
    endQueueC N n cur pos (QK.map CT.er) best = endQueueK N pos QK best := by
  intro QK
  induction QK with
  | nil => intro _ best; rfl
  | cons t QK ih =>
    intro hrows best
    simp only [List.map_cons, endQueueC, endQueueK]
    have hst : t.er.state = t.state := rfl
    rw [hst]
    split
    · exact recordC_eq n cur best t pos (hrows t List.mem_cons_self)
    · exact ih (fun x hx => hrows x (List.mem_cons_of_mem _ hx)) best

theorem hasLeftmost_er (QK : List CT) (bs : Nat) : hasLeftmost (QK.map CT.er) bs = hasLeftmostK QK bs := by
  simp only [hasLeftmost, hasLeftmostK, List.any_map]; rfl

/-- the unanchored loop of the code against the clean loop -/
theorem loopCU_eq {N : NFA} {h : Bytes} (hR : RuneOK N h) (n : Nat) : ∀ (fuel pos : Nat) (ls : LS) (QK : List CT)
    (best : Best), OutRel n ls.vis ls.cur ls.queue QK → ls.vis.size = N.states.size → ls.cur.size = N.states.size →
    ls.nxt.size = N.states.size →
    loopCU N h n false fuel pos ls best = loopKU N h n fuel pos QK ls.vis best := by
  intro fuel
  induction fuel with
  | zero => intro pos ls QK best _ _ _ _; rfl
  | succ fuel ih =>
    intro pos ls QK best hout hvs hcs hns
    rw [loopCU, loopKU]
    -- the seed
    have hseed : ∃ (sd : CS) (sk : Vis × List CT),
        (if best.isNone = true then
          addThreadC N h pos ⟨N.startAnchored, pos⟩ { vis := ls.vis, slots := unset n, tab := ls.cur, out := ls.queue }
         else { vis := ls.vis, slots := unset n, tab := ls.cur, out := ls.queue }) = sd ∧
        (if best.isNone = true then addThreadK N h pos ⟨N.startAnchored, pos, unset n⟩ (ls.vis, QK) else (ls.vis, QK)) = sk ∧
        SimR n sd sk N.states.size ∧ sd.vis.size = N.states.size := by
      by_cases hb : best.isNone = true
      · simp only [hb, ↓reduceIte]
        refine ⟨_, _, rfl, rfl, ?_⟩
        have := addThreadC_sim N h pos n ⟨N.startAnchored, pos⟩
          { vis := ls.vis, slots := unset n, tab := ls.cur, out := ls.queue } QK hout (by simp only; omega) hvs
        simp only [] at this
        refine ⟨⟨this.1, this.2.1, this.2.2.trans hcs⟩, ?_⟩
        rw [this.1, addThreadK_size]; exact hvs
      · simp only [hb, Bool.false_eq_true, ↓reduceIte]
        exact ⟨_, _, rfl, rfl, ⟨rfl, hout, hcs⟩, hvs⟩
    obtain ⟨sd, sk, e1, e2, ⟨s1, s2, s3⟩, s4⟩ := hseed
    simp only [e1, e2]
    have hq : sd.out = sk.2.map CT.er := s2.1
    have hrows : ∀ t ∈ sk.2, sd.tab.getD t.state (unset n) = t.slots := fun t ht => (s2.2 t ht).2
    rw [hq]
    split
    · rename_i hp
      obtain ⟨b1, ⟨c1, c2, c3⟩, b3⟩ := stepQueueC_sim hR hp n sd.tab sk.2 hrows best
        { vis := clearVis N, slots := sd.slots, tab := ls.nxt, out := [] } (clearVis N, [])
        ⟨rfl, ⟨rfl, fun _ ht => by simp at ht⟩, hns⟩ (by simp [clearVis])
      generalize stepQueueC N h n false sd.tab pos (sk.2.map CT.er) best
        { vis := clearVis N, slots := sd.slots, tab := ls.nxt, out := [] } = RC at b1 c1 c2 c3 b3 ⊢
      generalize stepQueueK N h pos sk.2 best (clearVis N, []) = RK at b1 c1 c2 c3 ⊢
      obtain ⟨rb, rs⟩ := RC
      obtain ⟨kb, kv, kq⟩ := RK
      simp only at b1 c1 c2 c3 b3 ⊢
      subst b1
      have hrec := ih (pos+1) { queue := rs.out, vis := rs.vis, cur := rs.tab, nxt := sd.tab } kq rb c2 b3 c3 s3
      simp only [] at hrec
      subst c1
      rw [c2.1] at hrec ⊢
      cases rb with
      | none => exact hrec
      | some b =>
        obtain ⟨⟨bs, be⟩, bsl⟩ := b
        simp only []
        rw [hasLeftmost_er]
        split
        · exact hrec
        · rfl
    · exact endQueueC_eq N n sd.tab pos sk.2 hrows best
end Cx.Caps
