import Cx.Model.MetaFind2
import Cx.Proofs.MetaFind
import Cx.Proofs.MetaFind2Lits
/-
  Cx.Proofs.MetaFind2 — the strategy loops UseDigitPrefilter / UseTeddy / UseAhoCorasick and `isMatchBoundedBacktracker`
  (model `Cx.Model.MetaFind2`) return exactly what the reference search returns, RELATIVE to the contracts of their components;
  the digit-prefilter loop does linear work.

  `Mt`, `ref`, `RefOK`, `PfOK`, `PikeOK`, `IsMatchOK`, `BtOK`, `PfMatchOK`, `PfCompleteOK`, `FirstByteOK`, `IsMatchEnginesOK`
  are those of `Cx.Proofs.MetaFind`.

  Contracts (all for the haystack at hand):
    DigitScanOK   `digitPrefilter.Find(h, p)` = the LEAST position `≥ p` holding an ASCII digit            (`memchrDigit_ok`)
    DigitLeadOK   every match starts with a digit                                                         (isDigitLeadPattern)
    AnchStopOK    `SearchAtAnchoredStopAt(h, c).end` = end of the reference match that starts exactly at `c` (`refAnch`)
    StopOK        `SearchAtAnchoredStopAt(h, c).stop ≤ len(h)`                                             (cost only)
    IsMatchOK / IsMatchExactOK   `IsMatchAt` has no false negatives (find) / is exact (isMatch returns it)
    RunSkipOK     with `digitRunSkipSafe`: a failed scan at a digit rules out every later start in the same run of digits
    DigitOK       the bundle, each field guarded by the flag under which the code uses the component; CostOK for the cost
    NfaOK         the contracts of `findIndicesNFA(At)` (`Cx.Proofs.MetaFind`), for the fallbacks
    TeddyOK       `FindMatch` IS the reference search (`PfMatchOK`); without it `PfOK` + `PfCompleteOK`
    AhoEndsFirstOK   `ahoCorasick.Find` reports the occurrence of a literal that ENDS first (`EndsFirstOK`, `Cx.Proofs.MetaFind2Lits`):
                  what github.com/coregx/ahocorasick v0.3.0 does.  (It replaces `AhoOK` = "`Find` IS the reference search", which the
                  dependency does not meet.)
    AhoLitOK      the bundle for `ahoCorasickSpan`: `RefOK`, the matches are the occurrences of the literals (`mt_iff`), `AcSetOK`
                  (`ahoCorasickNested` / `ahoCorasickMaxLen` describe the literal list: decidable), `AhoEndsFirstOK`, and — nested
                  sets only — `PikeOK`
    FatOK         the Fat Teddy fallback automaton: ends-first, and built only for a set without nesting (compile.go)
    AhoIsMatchOK  `ahoCorasick.IsMatch` answers iff some literal occurs
    SuffixOK, AsciiIsOK, FirstByteOK, IsMatchEnginesOK   for `isMatchBoundedBacktracker`

  Theorems:
    digitLoop_eq_ref, findIndicesDigitPrefilter_eq_ref, findIndicesDigitPrefilterAt_eq_ref, …AtWithState_eq_ref      = ref h at
    isMatchDigitLoop_eq_ref, isMatchDigitPrefilter_eq_ref                                                     = (ref h 0).isSome
    findFromFirstDigit_eq_ref, findDigitPrefilter_eq_ref, findDigitPrefilterAt_eq_ref                        (find.go twins)
    digitLoopT_fst / findIndicesDigitPrefilterAtT_fst / …T_fst / isMatchDigitPrefilterT_fst                   (erasure)
    digitLoopT_cost, findIndicesDigitPrefilterAtT_cost, findIndicesDigitPrefilterT_cost, isMatchDigitPrefilterT_cost
        cost ≤ (candidateBudgetFactor + 3)·(len(h) − at) + candidateBudgetAllowance = 35·(len − at) + 4096; digit scans ≤ len − at
    skipDigits_ge / _le / _digits / _max                                                     (the run skip, incl. maximality)
    isMatchBoundedBacktracker_eq_ref
    teddyFrom_eq_ref, findIndicesTeddy_eq_ref, findIndicesTeddyAt_eq_ref, isMatchTeddy_eq_ref, findTeddy_eq_ref, findTeddyAt_eq_ref
    ahoCorasickSpan_eq_ref, findIndicesAhoCorasick_eq_ref, findIndicesAhoCorasickAt_eq_ref, isMatchAhoCorasick_eq_ref,
    findAhoCorasick(At)_eq_ref          (under `AhoEndsFirstOK`; literal-set theory: `endsFirst_eq_ref`, `endsFirst_lo`)
    FatOK.find_eq_ref                   (the fallback automaton is exact: ends-first on a set without nesting)
    findIndices_eq_ref, findIndicesAt_eq_ref, findIndicesAtWithState_eq_ref, engineFindAt_eq_ref   (dispatch, incl. the
        always-anchored exit and the leftmost-longest routing to the NFA functions)
  followed by one counter-model per hypothesis (`cex_*`, `by decide`), the DESIGN counter-models `cex_stop_restart` (fallback
  restarted at `stop`) and `test_per_scan_quadratic` (budget charged per scan), and the non-vacuity instances
  `digOracles_instance` (`[0-9]`), `wholeOracles_instance` (`^lit$`), `litOracles2_instance` (a literal),
  `acOracles_instance` (ANY literal list over the brute-force ends-first automaton: a closed theorem).

  Findings of the transliteration (confirmed on the real code by `fidelity/metafind2.go`):
    * FIXED (after a92eaaa; the model follows HEAD 21d622b, the counter-models became `_fixed` witnesses):
      `ahoCorasick.Find` (github.com/coregx/ahocorasick v0.3.0) reports the occurrence that ENDS first, not the leftmost-first
      one, and UseAhoCorasick returned it as it is (`rdqs1b|dqs|…65+ literals` on "rdqs1b": [1 4], regexp [0 6]): now
      `ahoCorasickSpan` returns it only for sets without nesting and otherwise asks the Pike VM from `max(at, end − maxLen)`
      (`cex_aho_ends_first_fixed`; both the flag and the bound are necessary: `cex_aho_nested_flag_needed`,
      `cex_aho_maxLen_needed`); the same automaton as `prefilter.AhoCorasickPrefilter.Find` SKIPPED a match start ("xrdqs1b":
      [2 5], regexp [1 7]): now it probes `[end − maxLen, start)` with the anchored `FindAt` (`ahoPrefilterFind`,
      `cex_acpf_direct_skips`; `PfOK` is DISCHARGED for this prefilter: `Cx.C16.C16_ahoCorasick_prefilter_never_skips`);
    * FIXED: `findTeddyAt` (find.go, `Engine.FindAt`) called `fatTeddyFallback.FindAt`, an ANCHORED match, as if it were a search
      (`25[0-5]|2[0-4][0-9]` on "x 255" from 1: nil): now `Find(h, at)` (`cex_fat_findAt_anchored(_fixed)`); `findTeddy`
      inherited the ends-first answer of the fallback automaton (`xbcd|…|xbc|…` on "xbcd": [0 3]): the fallback is now built
      only for sets without nesting, where ends-first = leftmost-first (`FatOK.find_eq_ref`);
    * the `else` branches "dfa == nil" of the digit loops and the `digitPrefilter == nil` fallbacks are dead code
      (compile.go l.160-176: UseDigitPrefilter survives only with a DFA and always gets its prefilter);
    * `findIndicesDigitPrefilter`, `…At`, `…AtWithState` are three copies of one text (one model function).
-/
namespace Cx.MetaFind2
open Cx
open Cx.MetaFind (Span RefOK PfOK PikeOK IsMatchOK BtOK PfMatchOK PfCompleteOK FirstByteOK IsMatchEnginesOK useBT)
open Cx.RevSuffix (RefSpec findFirst findFirst_some findFirst_none occursAt)

/-! ### UseDigitPrefilter: contracts -/

/-- `digitPrefilter.Find(h, p)` = the least position `≥ p` holding an ASCII digit -/
structure DigitScanOK (O : Oracles2) (h : Bytes) : Prop where
  dig_some : ∀ p d, O.digitFind h p = some d →
    p ≤ d ∧ d < h.size ∧ isDigit (h.at d) = true ∧ ∀ q, p ≤ q → q < d → isDigit (h.at q) = false
  dig_none : ∀ p, O.digitFind h p = none → ∀ q, p ≤ q → q < h.size → isDigit (h.at q) = false

/-- every match starts with a digit — what `isDigitLeadPattern` (meta/strategy.go) must guarantee -/
def DigitLeadOK (Mt : Bytes → Nat → Nat → Prop) (h : Bytes) : Prop :=
  ∀ s e, s ≤ h.size → Mt h s e → s < h.size ∧ isDigit (h.at s) = true

/-- the end of the reference match that starts EXACTLY at `c` -/
def refAnch (ref : Bytes → Nat → Option Span) (h : Bytes) (c : Nat) : Option Nat :=
  match ref h c with
  | some (s, e) => if s = c then some e else none
  | none => none

/-- `dfa.SearchAtAnchoredStopAt(h, c)`: its first component is the end of the reference match starting exactly at `c` -/
def AnchStopOK (O : Oracles2) (ref : Bytes → Nat → Option Span) (h : Bytes) : Prop :=
  ∀ c, c ≤ h.size → (O.anchStop h c).1 = refAnch ref h c

/-- … its second component, how far the scan read, lies in the haystack (only the cost theorem needs it) -/
def StopOK (O : Oracles2) (h : Bytes) : Prop := ∀ c, (O.anchStop h c).2 ≤ h.size

/-- `dfa.IsMatchAt` is EXACT (`isMatchDigitPrefilter` returns its answer; `findIndicesAfterBudget` only needs `IsMatchOK`) -/
def IsMatchExactOK (O : Oracles2) (ref : Bytes → Nat → Option Span) (h : Bytes) : Prop :=
  ∀ a, a ≤ h.size → O.fwdIsMatchAt h a = (ref h a).isSome

/-- what `isDigitRunSkipSafe` must guarantee: when the anchored scan at a digit fails, no match starts later in the same
    run of digits -/
def RunSkipOK (O : Oracles2) (Mt : Bytes → Nat → Nat → Prop) (h : Bytes) : Prop :=
  ∀ d q, d < q → q < h.size → (O.anchStop h d).1 = none → (∀ i, d ≤ i → i ≤ q → isDigit (h.at i) = true) → ∀ e, ¬ Mt h q e

/-- all component contracts of the digit-prefilter loop (each guarded by the flag under which the code uses the component) -/
structure DigitOK (O : Oracles2) (P : Params2) (Mt : Bytes → Nat → Nat → Prop) (ref : Bytes → Nat → Option Span) (h : Bytes) :
    Prop extends RefOK Mt ref h where
  scan : DigitScanOK O h
  lead : DigitLeadOK Mt h
  anch : P.hasDFA = true → AnchStopOK O ref h
  im : P.hasDFA = true → IsMatchOK O.toOracles ref h
  pike : PikeOK O.toOracles ref h
  skip : P.digitRunSkipSafe = true → RunSkipOK O Mt h

section
variable {O : Oracles2} {P : Params2} {Mt : Bytes → Nat → Nat → Prop} {ref : Bytes → Nat → Option Span} {h : Bytes}

/-! ### the run skip -/

theorem skipDigits_ge : ∀ (fuel pos : Nat), pos ≤ skipDigits h fuel pos := by
  intro fuel
  induction fuel with
  | zero => intro pos; exact Nat.le_refl _
  | succ fuel ih =>
    intro pos
    unfold skipDigits
    split
    · exact Nat.le_trans (Nat.le_succ pos) (ih (pos + 1))
    · exact Nat.le_refl _

theorem skipDigits_le : ∀ (fuel pos : Nat), pos ≤ h.size → skipDigits h fuel pos ≤ h.size := by
  intro fuel
  induction fuel with
  | zero => intro pos hp; exact hp
  | succ fuel ih =>
    intro pos hp
    unfold skipDigits
    split
    · rename_i hc
      simp only [Bool.and_eq_true, decide_eq_true_eq] at hc
      exact ih (pos + 1) hc.1
    · exact hp

theorem skipDigits_digits : ∀ (fuel pos i : Nat), pos ≤ i → i < skipDigits h fuel pos → isDigit (h.at i) = true := by
  intro fuel
  induction fuel with
  | zero => intro pos i h1 h2; simp only [skipDigits] at h2; omega
  | succ fuel ih =>
    intro pos i h1 h2
    unfold skipDigits at h2
    split at h2
    · rename_i hc
      simp only [Bool.and_eq_true, decide_eq_true_eq] at hc
      by_cases hi : i = pos
      · rw [hi]; exact hc.2
      · exact ih (pos + 1) i (by omega) h2
    · omega

/-- with the fuel the model gives it, the skip stops where the Go loop stops: at the end of the haystack or at a non-digit -/
theorem skipDigits_max : ∀ (fuel pos : Nat), h.size - pos ≤ fuel →
    skipDigits h fuel pos ≥ h.size ∨ isDigit (h.at (skipDigits h fuel pos)) = false := by
  intro fuel
  induction fuel with
  | zero => intro pos hf; left; simp only [skipDigits]; omega
  | succ fuel ih =>
    intro pos hf
    unfold skipDigits
    split
    · exact ih (pos + 1) (by omega)
    · rename_i hc
      simp only [Bool.and_eq_true, decide_eq_true_eq, not_and] at hc
      by_cases hp : pos < h.size
      · right; simpa using hc hp
      · left; omega

theorem nextPos_bounds (d : Nat) (hd : d < h.size) : d + 1 ≤ nextPos P h d ∧ nextPos P h d ≤ h.size := by
  unfold nextPos
  split
  · exact ⟨skipDigits_ge _ _, skipDigits_le _ _ (by omega)⟩
  · omega

/-! ### the steps of the loop -/

theorem end_none (R : RefOK Mt ref h) (L : DigitLeadOK Mt h) : ref h h.size = none :=
  R.toRefSpec.none_of (Nat.le_refl _) (fun s e h1 h2 hm => by have := (L s e h2 hm).1; omega)

/-- no digit at or after `pos`: no match -/
theorem digit_none_ref (R : RefOK Mt ref h) (D : DigitScanOK O h) (L : DigitLeadOK Mt h) {pos : Nat} (hp : pos ≤ h.size)
    (hf : O.digitFind h pos = none) : ref h pos = none := by
  apply R.toRefSpec.none_of hp
  intro s e h1 h2 hm
  obtain ⟨h3, h4⟩ := L s e h2 hm
  have := D.dig_none pos hf s h1 h3
  rw [this] at h4
  cases h4

/-- the first digit at or after `pos` is `d`: the search from `d` is the search from `pos` -/
theorem digit_some_ref (R : RefOK Mt ref h) (D : DigitScanOK O h) (L : DigitLeadOK Mt h) {pos d : Nat}
    (hf : O.digitFind h pos = some d) : pos ≤ d ∧ d < h.size ∧ ref h d = ref h pos := by
  obtain ⟨h1, h2, _, h4⟩ := D.dig_some pos d hf
  refine ⟨h1, h2, R.skip h1 (by omega) ?_⟩
  intro s e g1 g2 hm
  have := (L s e (by omega) hm).2
  rw [h4 s g1 g2] at this
  cases this

theorem refAnch_some {c e : Nat} (hr : refAnch ref h c = some e) : ref h c = some (c, e) := by
  unfold refAnch at hr
  cases hc : ref h c with
  | none => rw [hc] at hr; cases hr
  | some se =>
    obtain ⟨s, e'⟩ := se
    rw [hc] at hr
    simp only at hr
    by_cases hs : s = c
    · rw [if_pos hs] at hr
      cases hr
      rw [hs]
    · rw [if_neg hs] at hr; cases hr

theorem refAnch_none (R : RefOK Mt ref h) {c : Nat} (hc : c ≤ h.size) (hr : refAnch ref h c = none) : ∀ e, ¬ Mt h c e := by
  intro e hm
  unfold refAnch at hr
  cases hrc : ref h c with
  | none => exact R.ref_none c hc hrc c e (Nat.le_refl _) hc hm
  | some se =>
    obtain ⟨s, e'⟩ := se
    rw [hrc] at hr
    simp only at hr
    have h1 := (R.ref_sound c s e' hc hrc).1
    have h2 := R.ref_leftmost c s e' hc hrc c e (Nat.le_refl _) hm
    have : s = c := by omega
    rw [if_pos this] at hr
    cases hr

/-- a failed anchored scan at `d`: the search may go on at `d + 1` … -/
theorem anch_none_succ (R : RefOK Mt ref h) (A : AnchStopOK O ref h) {d : Nat} (hd : d < h.size)
    (ha : (O.anchStop h d).1 = none) : ref h (d + 1) = ref h d := by
  apply R.skip (Nat.le_succ d) (by omega)
  intro s e g1 g2 hm
  have : s = d := by omega
  subst this
  rw [A s (by omega)] at ha
  exact refAnch_none R (by omega) ha e hm

/-- … or, when `digitRunSkipSafe`, behind the run of digits -/
theorem anch_none_next (R : RefOK Mt ref h) (D : DigitScanOK O h) (A : AnchStopOK O ref h)
    (S : P.digitRunSkipSafe = true → RunSkipOK O Mt h) {pos d : Nat} (hf : O.digitFind h pos = some d)
    (ha : (O.anchStop h d).1 = none) : ref h (nextPos P h d) = ref h d := by
  obtain ⟨_, hd, hdig, _⟩ := D.dig_some pos d hf
  obtain ⟨b1, b2⟩ := nextPos_bounds (P := P) d hd
  apply R.skip (by omega) b2
  intro s e g1 g2 hm
  by_cases hs : s = d
  · subst hs
    rw [A s (by omega)] at ha
    exact refAnch_none R (by omega) ha e hm
  · have hsk : P.digitRunSkipSafe = true := by
      apply Classical.byContradiction
      intro hn
      unfold nextPos at g2
      rw [if_neg hn] at g2
      omega
    have hnp : nextPos P h d = skipDigits h (h.size - (d + 1)) (d + 1) := by
      unfold nextPos; rw [if_pos hsk]
    rw [hnp] at g2 b2
    refine S hsk d s (by omega) (by omega) ha ?_ e hm
    intro i i1 i2
    by_cases hi : i = d
    · rw [hi]; exact hdig
    · exact skipDigits_digits (h.size - (d + 1)) (d + 1) i (by omega) (by omega)

/-- `findIndicesAfterBudget` is the reference search from `at` -/
theorem afterBudget_eq_ref (K : PikeOK O.toOracles ref h) (I : P.hasDFA = true → IsMatchOK O.toOracles ref h) {a : Nat}
    (ha : a ≤ h.size) : afterBudget O P h a = ref h a := by
  unfold afterBudget
  rw [if_neg (by omega)]
  by_cases hc : (P.hasDFA && !O.fwdIsMatchAt h a) = true
  · rw [if_pos hc]
    simp only [Bool.and_eq_true, Bool.not_eq_true'] at hc
    cases hr : ref h a with
    | none => rfl
    | some se =>
      have := I hc.1 a ha (by rw [hr]; rfl)
      rw [hc.2] at this
      cases this
  · rw [if_neg hc]; exact K a ha

/-! ### the loop returns the reference's span -/

theorem digitLoop_eq_ref (S : DigitOK O P Mt ref h) (origin : Nat) :
    ∀ (fuel pos spent : Nat), pos ≤ h.size → h.size - pos ≤ fuel → digitLoop O P h origin fuel pos spent = ref h pos := by
  have R := S.toRefOK
  intro fuel
  induction fuel with
  | zero =>
    intro pos spent hp hf
    have : pos = h.size := by omega
    subst this
    exact (end_none R S.lead).symm
  | succ fuel ih =>
    intro pos spent hp hf
    unfold digitLoop
    by_cases hlt : pos < h.size
    · rw [if_pos hlt]
      cases hd : O.digitFind h pos with
      | none => exact (digit_none_ref R S.scan S.lead hp hd).symm
      | some d =>
        obtain ⟨h1, h2, h3⟩ := digit_some_ref R S.scan S.lead hd
        simp only
        by_cases hD : P.hasDFA = true
        · rw [if_pos hD]
          have A := S.anch hD
          cases ha : (O.anchStop h d).1 with
          | some e =>
            simp only
            rw [← h3]
            rw [A d (by omega)] at ha
            exact (refAnch_some ha).symm
          | none =>
            simp only
            obtain ⟨b1, b2⟩ := nextPos_bounds (P := P) d h2
            split
            · rw [ih _ _ b2 (by omega), anch_none_next R S.scan A S.skip hd ha, h3]
            · rw [afterBudget_eq_ref S.pike S.im (by omega), anch_none_succ R A h2 ha, h3]
        · rw [if_neg hD, S.pike d (by omega), h3]
    · rw [if_neg hlt]
      have : pos = h.size := by omega
      subst this
      exact (end_none R S.lead).symm

/-- the contracts of the NFA functions the three strategies fall back to (`Cx.Proofs.MetaFind`) -/
structure NfaOK (O : Oracles2) (P : Params2) (Mt : Bytes → Nat → Nat → Prop) (ref : Bytes → Nat → Option Span) (h : Bytes) :
    Prop extends RefOK Mt ref h where
  pikeN : PikeOK O.toOracles ref h
  btN : useBT P.toParams = true → BtOK O.toOracles ref h
  pfN : P.hasPrefilter = true → P.prefilterPartialCoverage = false → PfOK O.toOracles Mt h

theorem NfaOK.find (N : NfaOK O P Mt ref h) : MetaFind.findIndicesNFA O.toOracles P.toParams h = ref h 0 :=
  MetaFind.findIndicesNFA_eq_ref N.toRefOK N.pikeN N.btN N.pfN

theorem NfaOK.findAt (N : NfaOK O P Mt ref h) {at_ : Nat} (hat : at_ ≤ h.size) :
    MetaFind.findIndicesNFAAt O.toOracles P.toParams h at_ = ref h at_ :=
  MetaFind.findIndicesNFAAt_eq_ref N.toRefOK N.pikeN N.btN N.pfN hat

/-- **`findIndicesDigitPrefilter` returns the reference's span.**  `hn`: without a digit prefilter the function is
    `findIndicesNFA` (unreachable: `digitPrefilter` is built whenever the strategy is UseDigitPrefilter, compile.go l.174). -/
theorem findIndicesDigitPrefilter_eq_ref (hd : P.hasDigitPrefilter = true → DigitOK O P Mt ref h)
    (hn : P.hasDigitPrefilter = false → NfaOK O P Mt ref h) : findIndicesDigitPrefilter O P h = ref h 0 := by
  unfold findIndicesDigitPrefilter
  cases hp : P.hasDigitPrefilter with
  | false => simp only [Bool.not_false, ↓reduceIte]; exact (hn hp).find
  | true =>
    simp only [Bool.not_true, Bool.false_eq_true, ↓reduceIte]
    exact digitLoop_eq_ref (hd hp) 0 _ 0 0 (Nat.zero_le _) (by omega)

/-- **`findIndicesDigitPrefilterAt(h, at)` returns the reference's span from `at`.**  `hn`: for `at = len(h)` (and without a
    digit prefilter) the function is `findIndicesNFAAt`. -/
theorem findIndicesDigitPrefilterAt_eq_ref {at_ : Nat} (hd : P.hasDigitPrefilter = true → DigitOK O P Mt ref h)
    (hn : P.hasDigitPrefilter = false ∨ at_ = h.size → NfaOK O P Mt ref h) (hat : at_ ≤ h.size) :
    findIndicesDigitPrefilterAt O P h at_ = ref h at_ := by
  unfold findIndicesDigitPrefilterAt
  by_cases hc : (!P.hasDigitPrefilter || decide (at_ ≥ h.size)) = true
  · rw [if_pos hc]
    simp only [Bool.or_eq_true, Bool.not_eq_true', decide_eq_true_eq] at hc
    exact (hn (hc.imp id (fun g => by omega))).findAt hat
  · rw [if_neg hc]
    simp only [Bool.or_eq_true, Bool.not_eq_true', decide_eq_true_eq, not_or, Bool.not_eq_false] at hc
    exact digitLoop_eq_ref (hd hc.1) at_ _ at_ 0 hat (Nat.le_refl _)

theorem findIndicesDigitPrefilterAtWithState_eq_ref {at_ : Nat} (hd : P.hasDigitPrefilter = true → DigitOK O P Mt ref h)
    (hn : P.hasDigitPrefilter = false ∨ at_ = h.size → NfaOK O P Mt ref h) (hat : at_ ≤ h.size) :
    findIndicesDigitPrefilterAtWithState O P h at_ = ref h at_ :=
  findIndicesDigitPrefilterAt_eq_ref hd hn hat

/-! ### `isMatchDigitPrefilter` -/

theorem isMatchDigitLoop_eq_ref (S : DigitOK O P Mt ref h) (E : P.hasDFA = true → IsMatchExactOK O ref h) (origin : Nat) :
    ∀ (fuel pos spent : Nat), pos ≤ h.size → h.size - pos ≤ fuel →
      isMatchDigitLoop O P h origin fuel pos spent = (ref h pos).isSome := by
  have R := S.toRefOK
  intro fuel
  induction fuel with
  | zero =>
    intro pos spent hp hf
    have : pos = h.size := by omega
    subst this
    rw [end_none R S.lead]; rfl
  | succ fuel ih =>
    intro pos spent hp hf
    unfold isMatchDigitLoop
    by_cases hlt : pos < h.size
    · rw [if_pos hlt]
      cases hd : O.digitFind h pos with
      | none => rw [digit_none_ref R S.scan S.lead hp hd]; rfl
      | some d =>
        obtain ⟨h1, h2, h3⟩ := digit_some_ref R S.scan S.lead hd
        simp only
        by_cases hD : P.hasDFA = true
        · rw [if_pos hD]
          have A := S.anch hD
          cases ha : (O.anchStop h d).1 with
          | some e =>
            simp only
            rw [← h3]
            rw [A d (by omega)] at ha
            rw [refAnch_some ha]; rfl
          | none =>
            simp only
            obtain ⟨b1, b2⟩ := nextPos_bounds (P := P) d h2
            split
            · rw [ih _ _ b2 (by omega), anch_none_next R S.scan A S.skip hd ha, h3]
            · rw [E hD (d + 1) (by omega), anch_none_succ R A h2 ha, h3]
        · rw [if_neg hD, S.pike d (by omega), h3]
    · rw [if_neg hlt]
      have : pos = h.size := by omega
      subst this
      rw [end_none R S.lead]; rfl

/-- **`isMatchDigitPrefilter` says whether the reference finds a match.**  `E`: here the fallback RETURNS `IsMatchAt`'s
    answer, which therefore must be exact. -/
theorem isMatchDigitPrefilter_eq_ref (hd : P.hasDigitPrefilter = true → DigitOK O P Mt ref h)
    (E : P.hasDigitPrefilter = true → P.hasDFA = true → IsMatchExactOK O ref h)
    (hn : P.hasDigitPrefilter = false → MetaFind.isMatchNFA O.toOracles P.toParams h = (ref h 0).isSome) :
    isMatchDigitPrefilter O P h = (ref h 0).isSome := by
  unfold isMatchDigitPrefilter
  cases hp : P.hasDigitPrefilter with
  | false => simp only [Bool.not_false, ↓reduceIte]; exact hn hp
  | true =>
    simp only [Bool.not_true, Bool.false_eq_true, ↓reduceIte]
    exact isMatchDigitLoop_eq_ref (hd hp) (E hp) 0 _ 0 0 (Nat.zero_le _) (by omega)

/-! ### `findFromFirstDigit` (find.go): one unanchored search from the first digit -/

theorem findFromFirstDigit_eq_ref (S : DigitOK O P Mt ref h)
    (hfa : P.hasDFA = true → ∀ a, a ≤ h.size → (ref h a).isSome = true → (O.fwdFindAt h a).isSome = true) {at_ : Nat}
    (hat : at_ ≤ h.size) : findFromFirstDigit O P h at_ = ref h at_ := by
  have R := S.toRefOK
  unfold findFromFirstDigit
  cases hd : O.digitFind h at_ with
  | none => exact (digit_none_ref R S.scan S.lead hat hd).symm
  | some d =>
    obtain ⟨h1, h2, h3⟩ := digit_some_ref R S.scan S.lead hd
    simp only
    by_cases hc : (P.hasDFA && (O.fwdFindAt h d).isNone) = true
    · rw [if_pos hc]
      simp only [Bool.and_eq_true] at hc
      rw [← h3]
      cases hr : ref h d with
      | none => rfl
      | some se =>
        have := hfa hc.1 d (by omega) (by rw [hr]; rfl)
        cases hx : O.fwdFindAt h d with
        | none => rw [hx] at this; cases this
        | some _ => rw [hx] at hc; cases hc.2
    · rw [if_neg hc, S.pike d (by omega), h3]

/-! ### the loop does linear work -/

theorem afterBudgetT_fst (a : Nat) (t : Trace) : (afterBudgetT O P h a t).1 = afterBudget O P h a := by
  unfold afterBudgetT afterBudget
  by_cases h1 : a > h.size
  · rw [if_pos h1, if_pos h1]
  · rw [if_neg h1, if_neg h1]
    cases hD : P.hasDFA with
    | false => simp
    | true =>
      simp only [↓reduceIte, Bool.true_and]
      cases O.fwdIsMatchAt h a <;> simp

/-- erasure: the instrumented loop computes the loop -/
theorem digitLoopT_fst (origin : Nat) : ∀ (fuel pos spent : Nat) (t : Trace),
    (digitLoopT O P h origin fuel pos spent t).1 = digitLoop O P h origin fuel pos spent := by
  intro fuel
  induction fuel with
  | zero => intro pos spent t; rfl
  | succ fuel ih =>
    intro pos spent t
    unfold digitLoopT digitLoop
    by_cases hlt : pos < h.size
    · rw [if_pos hlt, if_pos hlt]
      cases hd : O.digitFind h pos with
      | none => rfl
      | some d =>
        simp only
        by_cases hD : P.hasDFA = true
        · rw [if_pos hD, if_pos hD]
          cases ha : (O.anchStop h d).1 with
          | some e => rfl
          | none =>
            simp only
            split
            · exact ih _ _ _
            · exact afterBudgetT_fst _ _
        · rw [if_neg hD, if_neg hD]
    · rw [if_neg hlt, if_neg hlt]

theorem findIndicesDigitPrefilterAtT_fst (at_ : Nat) :
    (findIndicesDigitPrefilterAtT O P h at_).1 = findIndicesDigitPrefilterAt O P h at_ := by
  unfold findIndicesDigitPrefilterAtT findIndicesDigitPrefilterAt
  split
  · rfl
  · exact digitLoopT_fst _ _ _ _ _

theorem findIndicesDigitPrefilterT_fst : (findIndicesDigitPrefilterT O P h).1 = findIndicesDigitPrefilter O P h := by
  unfold findIndicesDigitPrefilterT findIndicesDigitPrefilter
  split
  · rfl
  · exact digitLoopT_fst _ _ _ _ _

theorem isMatchDigitLoopT_fst (origin : Nat) : ∀ (fuel pos spent : Nat) (t : Trace),
    (isMatchDigitLoopT O P h origin fuel pos spent t).1 = isMatchDigitLoop O P h origin fuel pos spent := by
  intro fuel
  induction fuel with
  | zero => intro pos spent t; rfl
  | succ fuel ih =>
    intro pos spent t
    unfold isMatchDigitLoopT isMatchDigitLoop
    by_cases hlt : pos < h.size
    · rw [if_pos hlt, if_pos hlt]
      cases hd : O.digitFind h pos with
      | none => rfl
      | some d =>
        simp only
        by_cases hD : P.hasDFA = true
        · rw [if_pos hD, if_pos hD]
          cases ha : (O.anchStop h d).1 with
          | some e => rfl
          | none =>
            simp only
            split
            · exact ih _ _ _
            · rfl
        · rw [if_neg hD, if_neg hD]
    · rw [if_neg hlt, if_neg hlt]

theorem isMatchDigitPrefilterT_fst : (isMatchDigitPrefilterT O P h).1 = isMatchDigitPrefilter O P h := by
  unfold isMatchDigitPrefilterT isMatchDigitPrefilter
  split
  · rfl
  · exact isMatchDigitLoopT_fst _ _ _ _ _

theorem scanCost_append (l : List (Nat × Nat)) (d s : Nat) : scanCost (l ++ [(d, s)]) = scanCost l + (s - d) := by
  simp [scanCost, List.map_append, List.sum_append]

/-- what the cost bound needs from the components: the digit scan answers a position in `[p, len)`, the anchored scan stops
    inside the haystack -/
structure CostOK (O : Oracles2) (h : Bytes) : Prop where
  dig : ∀ p d, O.digitFind h p = some d → p ≤ d ∧ d < h.size
  stop : StopOK O h

/-- the invariant of the loop: every scan so far failed and was charged (`scanCost = spent`), the budget held at the last
    charge, no fallback search has run -/
structure Inv (P : Params2) (h : Bytes) (origin spent : Nat) (t : Trace) : Prop where
  noIm : t.fbIsMatch = none
  noPike : t.fbPike = none
  charged : scanCost t.scans = spent
  within : spent ≤ P.budgetFactor * (h.size - origin) + P.budgetAllowance

theorem afterBudgetT_calls (a : Nat) (t : Trace) : (afterBudgetT O P h a t).2.digitCalls = t.digitCalls := by
  unfold afterBudgetT
  split
  · rfl
  · split
    · dsimp only
      split <;> rfl
    · rfl

theorem afterBudgetT_cost {origin spent a : Nat} {t : Trace} (ha : origin < a) (hno1 : t.fbIsMatch = none)
    (hno2 : t.fbPike = none) (hc : scanCost t.scans = spent) :
    (afterBudgetT O P h a t).2.cost h ≤ spent + 2 * (h.size - origin - 1) := by
  unfold afterBudgetT
  by_cases h1 : a > h.size
  · rw [if_pos h1]
    simp only [Trace.cost, hno1, hno2, hc]; omega
  · rw [if_neg h1]
    cases hD : P.hasDFA with
    | false =>
      simp only [Bool.false_eq_true, ↓reduceIte, Trace.cost, hno1, hc]; omega
    | true =>
      simp only [↓reduceIte]
      cases O.fwdIsMatchAt h a with
      | false => simp only [Bool.not_false, ↓reduceIte, Trace.cost, hno2, hc]; omega
      | true => simp only [Bool.not_true, Bool.false_eq_true, ↓reduceIte, Trace.cost, hc]; omega

theorem digitLoopT_cost (C : CostOK O h) (origin : Nat) : ∀ (fuel pos spent : Nat) (t : Trace), origin ≤ pos →
    Inv P h origin spent t →
    (digitLoopT O P h origin fuel pos spent t).2.cost h ≤ (P.budgetFactor + 3) * (h.size - origin) + P.budgetAllowance ∧
    (digitLoopT O P h origin fuel pos spent t).2.digitCalls ≤ t.digitCalls + fuel := by
  intro fuel
  induction fuel with
  | zero =>
    intro pos spent t hop I
    simp only [digitLoopT, Trace.cost, I.noIm, I.noPike, I.charged, Nat.add_zero, Nat.le_refl, and_true]
    have := I.within
    rw [Nat.add_mul]; omega
  | succ fuel ih =>
    intro pos spent t hop I
    have hw := I.within
    have hexp : (P.budgetFactor + 3) * (h.size - origin) = P.budgetFactor * (h.size - origin) + 3 * (h.size - origin) :=
      Nat.add_mul _ _ _
    unfold digitLoopT
    by_cases hlt : pos < h.size
    · rw [if_pos hlt]
      cases hd : O.digitFind h pos with
      | none =>
        simp only [Trace.cost, I.noIm, I.noPike, I.charged, Nat.add_zero]
        omega
      | some d =>
        obtain ⟨d1, d2⟩ := C.dig pos d hd
        have hs := C.stop d
        simp only
        by_cases hD : P.hasDFA = true
        · rw [if_pos hD]
          cases ha : (O.anchStop h d).1 with
          | some e =>
            simp only [Trace.cost, I.noIm, I.noPike, scanCost_append, I.charged, Nat.add_zero]
            omega
          | none =>
            simp only
            split
            · rename_i hb
              have hb' : spent + ((O.anchStop h d).2 - d) ≤ P.budgetFactor * (d - origin) + P.budgetAllowance := by
                simpa [budgetOK] using hb
              have hmono : P.budgetFactor * (d - origin) ≤ P.budgetFactor * (h.size - origin) :=
                Nat.mul_le_mul_left _ (by omega)
              have hnp := (nextPos_bounds (P := P) d d2).1
              have := ih (nextPos P h d) (spent + ((O.anchStop h d).2 - d))
                { t with digitCalls := t.digitCalls + 1, scans := t.scans ++ [(d, (O.anchStop h d).2)] } (by omega)
                ⟨I.noIm, I.noPike, by rw [scanCost_append, I.charged], by omega⟩
              refine ⟨this.1, ?_⟩
              have h2 := this.2
              simp only at h2
              omega
            · have := afterBudgetT_cost (O := O) (P := P) (h := h) (origin := origin) (a := d + 1)
                (t := { t with digitCalls := t.digitCalls + 1, scans := t.scans ++ [(d, (O.anchStop h d).2)] })
                (spent := spent + ((O.anchStop h d).2 - d)) (by omega) I.noIm I.noPike (by rw [scanCost_append, I.charged])
              refine ⟨by omega, ?_⟩
              have hdc := afterBudgetT_calls (O := O) (P := P) (h := h) (d + 1)
                { t with digitCalls := t.digitCalls + 1, scans := t.scans ++ [(d, (O.anchStop h d).2)] }
              simp only at hdc
              rw [hdc]; omega
        · rw [if_neg hD]
          simp only [Trace.cost, I.noIm, I.charged, Nat.add_zero]
          omega
    · rw [if_neg hlt]
      simp only [Trace.cost, I.noIm, I.noPike, I.charged, Nat.add_zero]
      omega

/-- **linear work**: the anchored verification scans and the fallback searches of one `findIndicesDigitPrefilterAt` call read
    at most `(candidateBudgetFactor + 3)·(len(h) − at) + candidateBudgetAllowance` = `35·(len(h) − at) + 4096` bytes, and the
    digit scan is called at most `len(h) − at` times -/
theorem findIndicesDigitPrefilterAtT_cost (C : CostOK O h) (at_ : Nat) :
    (findIndicesDigitPrefilterAtT O P h at_).2.cost h ≤ (P.budgetFactor + 3) * (h.size - at_) + P.budgetAllowance ∧
    (findIndicesDigitPrefilterAtT O P h at_).2.digitCalls ≤ h.size - at_ := by
  unfold findIndicesDigitPrefilterAtT
  split
  · simp [Trace.cost, scanCost]
  · have := digitLoopT_cost (P := P) C at_ (h.size - at_) at_ 0 {} (Nat.le_refl _)
      ⟨rfl, rfl, rfl, Nat.zero_le _⟩
    simpa using this

theorem findIndicesDigitPrefilterT_cost (C : CostOK O h) :
    (findIndicesDigitPrefilterT O P h).2.cost h ≤ (P.budgetFactor + 3) * h.size + P.budgetAllowance ∧
    (findIndicesDigitPrefilterT O P h).2.digitCalls ≤ h.size := by
  unfold findIndicesDigitPrefilterT
  split
  · simp [Trace.cost, scanCost]
  · have := digitLoopT_cost (P := P) C 0 h.size 0 0 {} (Nat.le_refl _) ⟨rfl, rfl, rfl, Nat.zero_le _⟩
    simpa using this

theorem isMatchDigitLoopT_cost (C : CostOK O h) (origin : Nat) : ∀ (fuel pos spent : Nat) (t : Trace), origin ≤ pos →
    Inv P h origin spent t →
    (isMatchDigitLoopT O P h origin fuel pos spent t).2.cost h ≤ (P.budgetFactor + 3) * (h.size - origin) + P.budgetAllowance := by
  intro fuel
  induction fuel with
  | zero =>
    intro pos spent t hop I
    simp only [isMatchDigitLoopT, Trace.cost, I.noIm, I.noPike, I.charged, Nat.add_zero]
    have := I.within
    rw [Nat.add_mul]; omega
  | succ fuel ih =>
    intro pos spent t hop I
    have hw := I.within
    have hexp : (P.budgetFactor + 3) * (h.size - origin) = P.budgetFactor * (h.size - origin) + 3 * (h.size - origin) :=
      Nat.add_mul _ _ _
    unfold isMatchDigitLoopT
    by_cases hlt : pos < h.size
    · rw [if_pos hlt]
      cases hd : O.digitFind h pos with
      | none =>
        simp only [Trace.cost, I.noIm, I.noPike, I.charged, Nat.add_zero]
        omega
      | some d =>
        obtain ⟨d1, d2⟩ := C.dig pos d hd
        have hs := C.stop d
        simp only
        by_cases hD : P.hasDFA = true
        · rw [if_pos hD]
          cases ha : (O.anchStop h d).1 with
          | some e =>
            simp only [Trace.cost, I.noIm, I.noPike, scanCost_append, I.charged, Nat.add_zero]
            omega
          | none =>
            simp only
            split
            · rename_i hb
              have hb' : spent + ((O.anchStop h d).2 - d) ≤ P.budgetFactor * (d - origin) + P.budgetAllowance := by
                simpa [budgetOK] using hb
              have hmono : P.budgetFactor * (d - origin) ≤ P.budgetFactor * (h.size - origin) :=
                Nat.mul_le_mul_left _ (by omega)
              have hnp := (nextPos_bounds (P := P) d d2).1
              exact ih (nextPos P h d) (spent + ((O.anchStop h d).2 - d))
                { t with digitCalls := t.digitCalls + 1, scans := t.scans ++ [(d, (O.anchStop h d).2)] } (by omega)
                ⟨I.noIm, I.noPike, by rw [scanCost_append, I.charged], by omega⟩
            · simp only [Trace.cost, I.noPike, scanCost_append, I.charged, Nat.add_zero]
              omega
        · rw [if_neg hD]
          simp only [Trace.cost, I.noIm, I.charged, Nat.add_zero]
          omega
    · rw [if_neg hlt]
      simp only [Trace.cost, I.noIm, I.noPike, I.charged, Nat.add_zero]
      omega

theorem isMatchDigitPrefilterT_cost (C : CostOK O h) :
    (isMatchDigitPrefilterT O P h).2.cost h ≤ (P.budgetFactor + 3) * h.size + P.budgetAllowance := by
  unfold isMatchDigitPrefilterT
  split
  · simp [Trace.cost, scanCost]
  · have := isMatchDigitLoopT_cost (P := P) C 0 h.size 0 0 {} (Nat.le_refl _) ⟨rfl, rfl, rfl, Nat.zero_le _⟩
    simpa using this

end

/-! ### UseDigitPrefilter — why the hypotheses are needed: counter-models (brute-force oracles over explicit tables)

Each example runs the MODEL on tables that violate exactly one hypothesis and shows the wrong answer next to the reference's
(the `pike` table).  (`1` = 49, `2` = 50, `5` = 53, `6` = 54, `9` = 57, `a` = 97, `c` = 99, `x` = 120.)

* `cex_digit_scan_skips` (`DigitScanOK.dig_some`, minimality): `[0-9]` on "12" with a scan that answers 1 from 0: [1,2), reference [0,1).
* `cex_not_digit_lead` (`DigitLeadOK`): `x|[0-9]` on "x1": the loop only looks at the digit: [1,2), reference [0,1).
* `cex_anch_false_negative`, `cex_anch_wrong_end` (`AnchStopOK`): an anchored scan that misses the match at `digitPos`; one that
  reports the leftmost-LONGEST end of `[0-9]+?` on "12".
* `cex_isMatchAt_false_negative` (`IsMatchOK`, the fallback): `1a2b|2c` on "1a2c" with an exhausted budget and an `IsMatchAt` that
  answers false from 1: no match, reference [2,4).
* `cex_isMatchAt_false_positive` (`IsMatchExactOK`): `isMatchDigitPrefilter` RETURNS `IsMatchAt`'s answer once the budget is
  exhausted: true although there is no match (`findIndicesDigitPrefilter`, which asks the Pike VM afterwards: none).
* `cex_pike` (`PikeOK`).
* `cex_run_skip` (`RunSkipOK`): `[0-5]+x` on "695x" with `digitRunSkipSafe`: the attempt at '6' fails at once, the run "695" is
  skipped: no match; without the flag [2,4).  (`isDigitRunSkipSafe` rejects this pattern: the class is not the full [0-9].)
* `cex_stop_restart`: the DESIGN counter-model — the fallback restarted at `stop` (where the failed scan ended) instead of
  `digitPos + 1`:  `1a2b|2c` on "1a2c", budget exhausted by the first scan

      offset                       0        1        2        3     4
      byte                         1        a        2        c
      digit scan from offset       0        2        2        -     -
      anchored scan (end, stop)    -, 4              4, 4
      reference from offset        [2,4)    [2,4)    [2,4)    -     -

  the scan from 0 reads "1a2c" and dies on 'c' (stop = 4); restarting at 4 finds nothing, restarting at 1 finds [2,4).
* `cex_stop_lies` (`StopOK`), `cex_digit_before_pos` (`CostOK.dig`): the cost bound fails when the anchored scan claims to have
  stopped outside the haystack / the digit scan answers a position before its start. -/

theorem cex_digit_scan_skips :
    let T : Tables2 := { mt := fun _ _ => false, pike := fun a => if a < 2 then some (a, a + 1) else none, fwd := fun _ => none,
                         dig := fun p => if p ≤ 1 then some 1 else none,
                         anchS := fun d => if d < 2 then (some (d + 1), d + 1) else (none, 2) }
    findIndicesDigitPrefilter (bruteOracles2 T) { hasDigitPrefilter := true, hasDFA := true } #[49, 50] = some (1, 2) ∧
    T.pike 0 = some (0, 1) := by decide

theorem cex_not_digit_lead :
    let T : Tables2 := { mt := fun _ _ => false, pike := fun a => if a < 2 then some (a, a + 1) else none, fwd := fun _ => none,
                         dig := fun p => if p ≤ 1 then some 1 else none,
                         anchS := fun d => if d < 2 then (some (d + 1), d + 1) else (none, 2) }
    findIndicesDigitPrefilter (bruteOracles2 T) { hasDigitPrefilter := true, hasDFA := true } #[120, 49] = some (1, 2) ∧
    T.pike 0 = some (0, 1) := by decide

theorem cex_anch_false_negative :
    let T : Tables2 := { mt := fun _ _ => false, pike := fun a => if a = 0 then some (0, 1) else none, fwd := fun _ => none,
                         dig := fun p => if p = 0 then some 0 else none, anchS := fun _ => (none, 1) }
    findIndicesDigitPrefilter (bruteOracles2 T) { hasDigitPrefilter := true, hasDFA := true } #[49] = none ∧
    isMatchDigitPrefilter (bruteOracles2 T) { hasDigitPrefilter := true, hasDFA := true } #[49] = false ∧
    T.pike 0 = some (0, 1) := by decide

theorem cex_anch_wrong_end :
    let T : Tables2 := { mt := fun _ _ => false, pike := fun a => if a < 2 then some (a, a + 1) else none, fwd := fun _ => none,
                         dig := fun p => if p < 2 then some p else none, anchS := fun d => if d < 2 then (some 2, 2) else (none, 2) }
    findIndicesDigitPrefilter (bruteOracles2 T) { hasDigitPrefilter := true, hasDFA := true } #[49, 50] = some (0, 2) ∧
    T.pike 0 = some (0, 1) := by decide

/-- the tables of `1a2b|2c` on "1a2c"; `budgetAllowance := 0`, `budgetFactor := 0`: the first failed scan exhausts the budget -/
def stopTables : Tables2 :=
  { mt := fun _ _ => false, pike := fun a => if a ≤ 2 then some (2, 4) else none, fwd := fun _ => none,
    dig := fun p => if p = 0 then some 0 else if p ≤ 2 then some 2 else none,
    anchS := fun d => if d = 2 then (some 4, 4) else (none, 4) }

def stopParams : Params2 := { hasDigitPrefilter := true, hasDFA := true, budgetFactor := 0, budgetAllowance := 0 }

theorem cex_isMatchAt_false_negative :
    findIndicesDigitPrefilter (bruteOracles2 { stopTables with im := fun _ => false }) stopParams #[49, 97, 50, 99] = none ∧
    findIndicesDigitPrefilter (bruteOracles2 stopTables) stopParams #[49, 97, 50, 99] = some (2, 4) := by decide

theorem cex_isMatchAt_false_positive :
    let T : Tables2 := { mt := fun _ _ => false, pike := fun _ => none, fwd := fun _ => none, im := fun _ => true,
                         dig := fun p => if p = 0 then some 0 else none, anchS := fun _ => (none, 2) }
    isMatchDigitPrefilter (bruteOracles2 T) stopParams #[49, 97] = true ∧
    findIndicesDigitPrefilter (bruteOracles2 T) stopParams #[49, 97] = none := by decide

theorem cex_pike :
    findIndicesDigitPrefilter (bruteOracles2 { stopTables with pike := fun _ => none }) stopParams #[49, 97, 50, 99] = none ∧
    findIndicesDigitPrefilter (bruteOracles2 { stopTables with pike := fun _ => none })
      { stopParams with budgetAllowance := 4096 } #[49, 97, 50, 99] = some (2, 4) := by decide

theorem cex_run_skip :
    let T : Tables2 := { mt := fun _ _ => false, pike := fun a => if a ≤ 2 then some (2, 4) else none, fwd := fun _ => none,
                         dig := fun p => if p ≤ 2 then some p else none,
                         anchS := fun d => if d = 2 then (some 4, 4) else (none, d + 1) }
    findIndicesDigitPrefilter (bruteOracles2 T) { hasDigitPrefilter := true, hasDFA := true, digitRunSkipSafe := true }
      #[54, 57, 53, 120] = none ∧
    findIndicesDigitPrefilter (bruteOracles2 T) { hasDigitPrefilter := true, hasDFA := true, digitRunSkipSafe := false }
      #[54, 57, 53, 120] = some (2, 4) := by decide

/-- **restarting the fallback at `stop` loses a match**; restarting at `digitPos + 1` (the code) does not -/
theorem cex_stop_restart :
    digitLoopStopRestart (bruteOracles2 stopTables) stopParams #[49, 97, 50, 99] 0 4 0 0 = none ∧
    digitLoop (bruteOracles2 stopTables) stopParams #[49, 97, 50, 99] 0 4 0 0 = some (2, 4) ∧
    findIndicesDigitPrefilter (bruteOracles2 stopTables) stopParams #[49, 97, 50, 99] = some (2, 4) ∧
    stopTables.pike 0 = some (2, 4) := by decide

theorem cex_stop_lies :
    let T : Tables2 := { mt := fun _ _ => false, pike := fun _ => none, fwd := fun _ => none, im := fun _ => false,
                         dig := fun p => if p = 0 then some 0 else none, anchS := fun _ => (none, 100) }
    ((findIndicesDigitPrefilterAtT (bruteOracles2 T) stopParams #[49] 0).2.cost #[49] = 100) ∧
    (stopParams.budgetFactor + 3) * (1 - 0) + stopParams.budgetAllowance = 3 := by decide

theorem cex_digit_before_pos :
    let T : Tables2 := { mt := fun _ _ => false, pike := fun _ => none, fwd := fun _ => none, im := fun _ => true,
                         dig := fun _ => some 0, anchS := fun _ => (none, 10) }
    ((findIndicesDigitPrefilterAtT (bruteOracles2 T) stopParams (Array.replicate 10 49) 5).2.cost (Array.replicate 10 49) = 28) ∧
    (stopParams.budgetFactor + 3) * (10 - 5) + stopParams.budgetAllowance = 15 := by decide

/-! ### TEST (not a theorem about the code): a budget charged per scan is quadratic

`n` digits; the anchored scan from `d` fails after reading `min(n − d, d + 2)` bytes — as much as ONE scan may read without
exceeding `candidateBudgetFactor·(d − origin) + candidateBudgetAllowance` for factor 1, allowance 2.  The loop that compares
each scan with the allowance on its own (`digitLoopPerScanT`) never leaves the candidate loop: 24, 80, 288 bytes for
n = 8, 16, 32 (×3.3, ×3.6: about n²/4).  The accumulated budget (`digitLoopT`, the code) gives up at the second candidate:
11, 19, 35 bytes (5 for the two scans + n − 2 for `IsMatchAt`, which answers false), below the bound 4n + 2 of `findIndicesDigitPrefilterAtT_cost`. -/

/-- the rule oracles of the test -/
def quadTables (n : Nat) : Tables2 :=
  { mt := fun _ _ => false, pike := fun _ => none, fwd := fun _ => none, im := fun _ => false,
    dig := fun p => if p < n then some p else none, anchS := fun d => (none, min n (2 * d + 2)) }

def quadParams : Params2 := { hasDigitPrefilter := true, hasDFA := true, budgetFactor := 1, budgetAllowance := 2 }

def perScanCost (n : Nat) : Nat :=
  ((digitLoopPerScanT (bruteOracles2 (quadTables n)) quadParams (Array.replicate n 49) 0 n 0 {}).2.cost (Array.replicate n 49))

def accumulatedCost (n : Nat) : Nat :=
  ((findIndicesDigitPrefilterT (bruteOracles2 (quadTables n)) quadParams (Array.replicate n 49)).2.cost (Array.replicate n 49))

theorem test_per_scan_quadratic :
    perScanCost 8 = 24 ∧ perScanCost 16 = 80 ∧ perScanCost 32 = 288 ∧
    accumulatedCost 8 = 11 ∧ accumulatedCost 16 = 19 ∧ accumulatedCost 32 = 35 := by decide

/-! ### UseDigitPrefilter — non-vacuity: the contracts are satisfiable.  The pattern `[0-9]`, every component computed by
naive search; the digit scan is `memchrDigit` (the model of `simd.MemchrDigitAt`), which meets `DigitScanOK` on every haystack. -/

theorem memchrDigit_ok (h : Bytes) : ∀ (O : Oracles2), O.digitFind = memchrDigit → DigitScanOK O h := by
  intro O hO
  constructor
  · intro p d hf
    rw [hO] at hf
    obtain ⟨h1, h2, h3, h4⟩ := findFirst_some hf
    refine ⟨h1, ?_, h3, h4⟩
    by_cases hp : p ≤ h.size
    · omega
    · have : h.size - p = 0 := by omega
      unfold memchrDigit at hf
      rw [this] at hf
      simp [findFirst] at hf
  · intro p hf q h1 h2
    rw [hO] at hf
    exact findFirst_none hf q h1 (by omega)

/-- `[0-9]` matches `h[s:e)` -/
def DigMt (h : Bytes) (s e : Nat) : Prop := s < h.size ∧ isDigit (h.at s) = true ∧ e = s + 1

/-- the reference search for `[0-9]` -/
def digRef (h : Bytes) (a : Nat) : Option Span := (memchrDigit h a).map fun d => (d, d + 1)

/-- the components, by naive search -/
def digOracles : Oracles2 where
  toOracles := { MetaFind.bruteOracles { mt := fun _ _ => false, pike := fun _ => none, fwd := fun _ => none } with
                 pike := digRef, fwdIsMatchAt := fun h a => (digRef h a).isSome,
                 fwdFindAt := fun h a => (digRef h a).map (·.2) }
  digitFind := memchrDigit
  anchStop := fun h c => if decide (c < h.size) && isDigit (h.at c) then (some (c + 1), c + 1) else (none, min (c + 1) h.size)
  ahoFind := fun _ _ => none
  ahoIsMatch := fun _ => false
  fatFind := fun _ _ => none
  fatFindAt := fun _ _ => none
  fatIsMatch := fun _ => false
  asciiIsMatch := fun _ => false

theorem memchrDigit_some {h : Bytes} {a d : Nat} (hf : memchrDigit h a = some d) :
    a ≤ d ∧ d < h.size ∧ isDigit (h.at d) = true ∧ ∀ q, a ≤ q → q < d → isDigit (h.at q) = false :=
  (memchrDigit_ok h digOracles rfl).dig_some a d hf

theorem memchrDigit_none {h : Bytes} {a : Nat} (hf : memchrDigit h a = none) :
    ∀ q, a ≤ q → q < h.size → isDigit (h.at q) = false :=
  (memchrDigit_ok h digOracles rfl).dig_none a hf

theorem digRef_some {h : Bytes} {a s e : Nat} (hr : digRef h a = some (s, e)) : memchrDigit h a = some s ∧ e = s + 1 := by
  unfold digRef at hr
  cases hm : memchrDigit h a with
  | none => rw [hm] at hr; cases hr
  | some d =>
    rw [hm] at hr
    simp only [Option.map_some, Option.some.injEq, Prod.mk.injEq] at hr
    obtain ⟨h1, h2⟩ := hr
    subst h1
    exact ⟨rfl, h2.symm⟩

theorem digRef_refOK (h : Bytes) : RefOK DigMt digRef h := by
  refine { ref_sound := ?_, ref_leftmost := ?_, ref_none := ?_, mt_le := ?_, restart := ?_ }
  · intro a s e _ hr
    obtain ⟨h1, h2⟩ := digRef_some hr
    obtain ⟨g1, g2, g3, _⟩ := memchrDigit_some h1
    exact ⟨g1, by omega, g2, g3, h2⟩
  · intro a s e _ hr s' e' h1 hm
    obtain ⟨h2, _⟩ := digRef_some hr
    obtain ⟨_, _, _, g4⟩ := memchrDigit_some h2
    apply Classical.byContradiction
    intro hlt
    have := g4 s' h1 (by omega)
    rw [hm.2.1] at this
    cases this
  · intro a _ hr s e h1 _ hm
    unfold digRef at hr
    cases hmm : memchrDigit h a with
    | some d => rw [hmm] at hr; cases hr
    | none =>
      have := memchrDigit_none hmm s h1 hm.1
      rw [hm.2.1] at this
      cases this
  · intro s e _ hm
    obtain ⟨h1, _, h3⟩ := hm
    omega
  · intro a a' s e _ hr h1 h2
    obtain ⟨g1, g2⟩ := digRef_some hr
    obtain ⟨k1, k2, k3, k4⟩ := memchrDigit_some g1
    unfold digRef
    cases hmm : memchrDigit h a' with
    | none =>
      have := memchrDigit_none hmm s h2 k2
      rw [k3] at this
      cases this
    | some d =>
      obtain ⟨m1, m2, m3, m4⟩ := memchrDigit_some hmm
      have hds : d = s := by
        apply Classical.byContradiction
        intro hne
        by_cases hlt : d < s
        · have := k4 d (by omega) hlt
          rw [m3] at this
          cases this
        · have := m4 s h2 (by omega)
          rw [k3] at this
          cases this
      subst hds
      simp only [Option.map_some, g2]

theorem digOracles_ok (h : Bytes) (P : Params2) : DigitOK digOracles P DigMt digRef h where
  toRefOK := digRef_refOK h
  scan := memchrDigit_ok h digOracles rfl
  lead := fun _ _ _ hm => ⟨hm.1, hm.2.1⟩
  anch := by
    intro _ c _
    show (if (decide (c < h.size) && isDigit (h.at c)) = true then (some (c + 1), c + 1) else (none, min (c + 1) h.size)).1 = _
    unfold refAnch
    by_cases hc : (decide (c < h.size) && isDigit (h.at c)) = true
    · rw [if_pos hc]
      simp only [Bool.and_eq_true, decide_eq_true_eq] at hc
      have hm : memchrDigit h c = some c := by
        cases hmm : memchrDigit h c with
        | none =>
          have := memchrDigit_none hmm c (Nat.le_refl _) hc.1
          rw [hc.2] at this
          cases this
        | some d =>
          obtain ⟨m1, _, _, m4⟩ := memchrDigit_some hmm
          by_cases hd : d = c
          · rw [hd]
          · have := m4 c (Nat.le_refl _) (by omega)
            rw [hc.2] at this
            cases this
      simp only [digRef, hm, Option.map_some, ↓reduceIte]
    · rw [if_neg hc]
      cases hr : digRef h c with
      | none => rfl
      | some se =>
        obtain ⟨s, e⟩ := se
        obtain ⟨g1, _⟩ := digRef_some hr
        obtain ⟨k1, k2, k3, _⟩ := memchrDigit_some g1
        simp only
        by_cases hs : s = c
        · subst hs
          exact absurd (by simp [k2, k3]) hc
        · rw [if_neg hs]
  im := fun _ _ _ hs => hs
  pike := fun _ _ => rfl
  skip := by
    intro _ d q _ _ ha hdig _ _
    have hd := hdig d (Nat.le_refl _) (by omega)
    have : (if (decide (d < h.size) && isDigit (h.at d)) = true then (some (d + 1), d + 1) else (none, min (d + 1) h.size)).1
        = none := ha
    rw [if_pos (by simp [hd]; omega)] at this
    cases this

theorem digOracles_costOK (h : Bytes) : CostOK digOracles h where
  dig := fun p d hf => ⟨(memchrDigit_some hf).1, (memchrDigit_some hf).2.1⟩
  stop := by
    intro c
    show (if (decide (c < h.size) && isDigit (h.at c)) = true then (some (c + 1), c + 1) else (none, min (c + 1) h.size)).2 ≤ _
    split
    · rename_i hc
      simp only [Bool.and_eq_true, decide_eq_true_eq] at hc
      exact hc.1
    · exact Nat.min_le_right _ _

/-- **non-vacuity**: for the pattern `[0-9]` the hypotheses of the theorems hold on EVERY haystack (with and without the run
    skip), hence so do their conclusions -/
theorem digOracles_instance (h : Bytes) (skip : Bool) {at_ : Nat} (hat : at_ < h.size) :
    let P : Params2 := { hasDigitPrefilter := true, hasDFA := true, digitRunSkipSafe := skip }
    findIndicesDigitPrefilterAt digOracles P h at_ = digRef h at_ ∧
    findIndicesDigitPrefilter digOracles P h = digRef h 0 ∧
    isMatchDigitPrefilter digOracles P h = (digRef h 0).isSome ∧
    (findIndicesDigitPrefilterAtT digOracles P h at_).2.cost h ≤ 35 * (h.size - at_) + 4096 := by
  intro P
  refine ⟨?_, ?_, ?_, ?_⟩
  · exact findIndicesDigitPrefilterAt_eq_ref (fun _ => digOracles_ok h P) (fun hc => by cases hc with
      | inl hc => cases hc
      | inr hc => omega) (by omega)
  · exact findIndicesDigitPrefilter_eq_ref (fun _ => digOracles_ok h P) (fun hc => by cases hc)
  · exact isMatchDigitPrefilter_eq_ref (fun _ => digOracles_ok h P) (fun _ _ _ _ => rfl) (fun hc => by cases hc)
  · exact (findIndicesDigitPrefilterAtT_cost (P := P) (digOracles_costOK h) at_).1

/-! ## `isMatchBoundedBacktracker` (meta/ismatch.go) -/

section
variable {O : Oracles2} {P : Params2} {Mt : Bytes → Nat → Nat → Prop} {ref : Bytes → Nat → Option Span} {h : Bytes}

/-- `h[0:e)` ends with `suf` -/
def EndsWith (h : Bytes) (e : Nat) (suf : Bytes) : Prop := suf.size ≤ e ∧ occursAt h suf (e - suf.size) = true

/-- what `anchoredSuffix` must guarantee (compile.go l.581-597: only set for patterns anchored at BOTH ends): every match ends at
    the end of the haystack, with the suffix -/
def SuffixOK (P : Params2) (Mt : Bytes → Nat → Nat → Prop) (h : Bytes) : Prop :=
  P.anchoredSuffix.size > 0 → ∀ s e, s ≤ h.size → Mt h s e → e = h.size ∧ EndsWith h e P.anchoredSuffix

/-- `asciiBoundedBacktracker.IsMatch` is exact on the ASCII haystacks it can handle -/
def AsciiIsOK (O : Oracles2) (P : Params2) (ref : Bytes → Nat → Option Span) (h : Bytes) : Prop :=
  P.hasAsciiBT = true → MetaFind.isASCIIIn h 0 h.size = true → O.asciiCanHandle h.size = true →
    O.asciiIsMatch h = (ref h 0).isSome

theorem suffixRejects_sound (R : RefOK Mt ref h) (hs : SuffixOK P Mt h) (hr : suffixRejects P h = true) : ref h 0 = none := by
  unfold suffixRejects at hr
  simp only [Bool.and_eq_true, decide_eq_true_eq, Bool.not_eq_true'] at hr
  apply R.toRefSpec.none_of (Nat.zero_le _)
  intro s e _ h2 hm
  obtain ⟨g1, g2, g3⟩ := hs hr.1 s e h2 hm
  have : hasSuffix h P.anchoredSuffix = true := by
    unfold hasSuffix
    subst g1
    simp only [Bool.and_eq_true, decide_eq_true_eq]
    exact ⟨g2, g3⟩
  rw [this] at hr
  cases hr.2

/-- **`isMatchBoundedBacktracker` says whether the reference finds a match.**
    `E`: the boolean entry points `pikevm.IsMatch` / `boundedBacktracker.IsMatchWithState` (the latter on inputs it can handle);
    `hfb`: the first-byte rejection is sound; `hs`: the suffix rejection is sound; `ha`: the ASCII backtracker;
    `hn`: without a backtracker the function is `isMatchNFA`. -/
theorem isMatchBoundedBacktracker_eq_ref (R : RefOK Mt ref h) (E : IsMatchEnginesOK O.toOracles P.toParams ref h)
    (hfb : FirstByteOK O.toOracles P.toParams ref h) (hs : SuffixOK P Mt h) (ha : AsciiIsOK O P ref h)
    (hn : P.hasBT = false → MetaFind.isMatchNFA O.toOracles P.toParams h = (ref h 0).isSome) :
    isMatchBoundedBacktracker O P h = (ref h 0).isSome := by
  unfold isMatchBoundedBacktracker
  cases hb : P.hasBT with
  | false => simp only [Bool.not_false, ↓reduceIte]; exact hn hb
  | true =>
    simp only [Bool.not_true, Bool.false_eq_true, ↓reduceIte]
    by_cases hf : MetaFind.firstByteRejects O.toOracles P.toParams h = true
    · rw [if_pos hf, hfb hf]; rfl
    · rw [if_neg hf]
      by_cases hsr : suffixRejects P h = true
      · rw [if_pos hsr, suffixRejects_sound R hs hsr]; rfl
      · rw [if_neg hsr]
        by_cases hasc : (P.hasAsciiBT && MetaFind.isASCIIIn h 0 h.size) = true
        · rw [if_pos hasc]
          simp only [Bool.and_eq_true] at hasc
          cases hc : O.asciiCanHandle h.size with
          | false => simp only [Bool.not_false, ↓reduceIte]; exact E.pikeIs
          | true => simp only [Bool.not_true, Bool.false_eq_true, ↓reduceIte]; exact ha hasc.1 hasc.2 hc
        · rw [if_neg hasc]
          cases hc : O.btCanHandle h.size with
          | false => simp only [Bool.not_false, ↓reduceIte]; exact E.pikeIs
          | true => simp only [Bool.not_true, Bool.false_eq_true, ↓reduceIte]; exact E.btIs hb hc

end

/-! ### `isMatchBoundedBacktracker` — counter-models, one per hypothesis  (`/` = 47, `a` = 97, `b` = 98, `é` = 195 169)

* `cex_im_first_byte` (`FirstByteOK`): a first-byte set that lacks the first byte of a match.
* `cex_im_suffix` (`SuffixOK`): the suffix rejection applied to a pattern that is NOT end-anchored — `^/.*a` on "/ab" with
  `anchoredSuffix = "a"`: the haystack does not end with "a", the match [0,2) is lost.  (compile.go l.583 demands
  `IsPatternEndAnchored`; the comment there gives this very example.)
* `cex_im_ascii` (`AsciiIsOK`): an ASCII-only automaton that is wrong on an ASCII haystack (e.g. compiled from another pattern).
* `cex_im_bt` (`IsMatchEnginesOK.btIs`), `cex_im_pike` (`IsMatchEnginesOK.pikeIs`): the engines' boolean entry points.
  In `cex_im_bt` the same wrong backtracker is harmless once `CanHandle` fails (the Pike VM answers). -/

theorem cex_im_first_byte :
    let T : Tables2 := { mt := fun _ _ => false, pike := fun a => if a = 0 then some (0, 1) else none, fwd := fun _ => none,
                         btLimit := 9, pikeIs := true, btIs := true }
    isMatchBoundedBacktracker (bruteOracles2 { T with fb := fun _ => false }) { hasBT := true, hasFirstBytes := true } #[97] = false ∧
    isMatchBoundedBacktracker (bruteOracles2 T) { hasBT := true, hasFirstBytes := true } #[97] = true := by decide

theorem cex_im_suffix :
    let T : Tables2 := { mt := fun _ _ => false, pike := fun a => if a = 0 then some (0, 2) else none, fwd := fun _ => none,
                         btLimit := 9, pikeIs := true, btIs := true }
    isMatchBoundedBacktracker (bruteOracles2 T) { hasBT := true, anchoredSuffix := #[97] } #[47, 97, 98] = false ∧
    isMatchBoundedBacktracker (bruteOracles2 T) { hasBT := true } #[47, 97, 98] = true ∧
    isMatchBoundedBacktracker (bruteOracles2 T) { hasBT := true, anchoredSuffix := #[97] } #[47, 98, 97] = true := by decide

theorem cex_im_ascii :
    let T : Tables2 := { mt := fun _ _ => false, pike := fun a => if a = 0 then some (0, 1) else none, fwd := fun _ => none,
                         btLimit := 9, asciiLimit := 9, pikeIs := true, btIs := true, asciiIs := false }
    isMatchBoundedBacktracker (bruteOracles2 T) { hasBT := true, hasAsciiBT := true } #[97] = false ∧
    isMatchBoundedBacktracker (bruteOracles2 T) { hasBT := true, hasAsciiBT := true } #[195, 169] = true ∧
    isMatchBoundedBacktracker (bruteOracles2 { T with asciiLimit := 0 }) { hasBT := true, hasAsciiBT := true } #[97] = true := by decide

theorem cex_im_bt :
    let T : Tables2 := { mt := fun _ _ => false, pike := fun a => if a = 0 then some (0, 1) else none, fwd := fun _ => none,
                         btLimit := 9, pikeIs := true, btIs := false }
    isMatchBoundedBacktracker (bruteOracles2 T) { hasBT := true } #[97] = false ∧
    isMatchBoundedBacktracker (bruteOracles2 { T with btLimit := 0 }) { hasBT := true } #[97] = true := by decide

theorem cex_im_pike :
    let T : Tables2 := { mt := fun _ _ => false, pike := fun a => if a = 0 then some (0, 1) else none, fwd := fun _ => none,
                         btLimit := 0, pikeIs := false, btIs := true }
    isMatchBoundedBacktracker (bruteOracles2 T) { hasBT := true } #[97] = false ∧
    isMatchBoundedBacktracker (bruteOracles2 { T with btLimit := 9 }) { hasBT := true } #[97] = true := by decide

/-! ### `isMatchBoundedBacktracker` — non-vacuity: the pattern `^lit$` (the haystack IS the literal), with a first-byte set, an
anchored suffix (the literal itself) and an ASCII backtracker; every component computed naively -/

/-- `^lit$` matches `h[s:e)` -/
def WholeMt (lit : Bytes) (h : Bytes) (s e : Nat) : Prop := s = 0 ∧ e = h.size ∧ h = lit

def wholeRef (lit : Bytes) (h : Bytes) (a : Nat) : Option Span := if a = 0 ∧ h = lit then some (0, h.size) else none

def wholeOracles (lit : Bytes) : Oracles2 where
  toOracles := { MetaFind.bruteOracles { mt := fun _ _ => false, pike := fun _ => none, fwd := fun _ => none } with
                 pike := wholeRef lit, firstByteOK := fun b => b == lit.at 0, btCanHandle := fun _ => true,
                 asciiCanHandle := fun _ => true, pikeIsMatch := fun h => decide (h = lit), btIsMatch := fun h => decide (h = lit) }
  digitFind := fun _ _ => none
  anchStop := fun _ _ => (none, 0)
  ahoFind := fun _ _ => none
  ahoIsMatch := fun _ => false
  fatFind := fun _ _ => none
  fatFindAt := fun _ _ => none
  fatIsMatch := fun _ => false
  asciiIsMatch := fun h => decide (h = lit)

theorem wholeRef_refOK (lit h : Bytes) : RefOK (WholeMt lit) (wholeRef lit) h := by
  refine { ref_sound := ?_, ref_leftmost := ?_, ref_none := ?_, mt_le := ?_, restart := ?_ }
  · intro a s e _ hr
    unfold wholeRef at hr
    split at hr
    · rename_i hc
      cases hr
      exact ⟨by omega, Nat.zero_le _, rfl, rfl, hc.2⟩
    · cases hr
  · intro a s e _ hr s' e' _ _
    unfold wholeRef at hr
    split at hr
    · cases hr; exact Nat.zero_le _
    · cases hr
  · intro a _ hr s e h1 _ hm
    unfold wholeRef at hr
    split at hr
    · cases hr
    · rename_i hc
      exact hc ⟨by have := hm.1; omega, hm.2.2⟩
  · intro s e _ hm
    obtain ⟨h1, h2, _⟩ := hm
    omega
  · intro a a' s e _ hr h1 h2
    unfold wholeRef at hr ⊢
    split at hr
    · rename_i hc
      cases hr
      rw [if_pos ⟨by omega, hc.2⟩]
    · cases hr

theorem wholeRef_isSome (lit h : Bytes) : (wholeRef lit h 0).isSome = decide (h = lit) := by
  unfold wholeRef
  by_cases hc : h = lit
  · simp [hc]
  · simp [hc]

/-- **non-vacuity**: for `^lit$` (`lit` non-empty) with first-byte set `{lit[0]}`, anchored suffix `lit` and an ASCII
    backtracker, the hypotheses of `isMatchBoundedBacktracker_eq_ref` hold on EVERY haystack -/
theorem wholeOracles_instance (lit : Bytes) (hL : 0 < lit.size) (h : Bytes) :
    let P : Params2 := { hasBT := true, hasAsciiBT := true, hasFirstBytes := true, alwaysAnchored := true, anchoredSuffix := lit }
    isMatchBoundedBacktracker (wholeOracles lit) P h = (wholeRef lit h 0).isSome := by
  intro P
  apply isMatchBoundedBacktracker_eq_ref (Mt := WholeMt lit) (wholeRef_refOK lit h)
  · exact ⟨(wholeRef_isSome lit h).symm, fun _ _ => (wholeRef_isSome lit h).symm⟩
  · intro hr
    have hr' : (true && decide (h.size > 0) && !(h.at 0 == lit.at 0)) = true := hr
    simp only [Bool.true_and, Bool.and_eq_true, decide_eq_true_eq, Bool.not_eq_true', beq_eq_false_iff_ne] at hr'
    unfold wholeRef
    rw [if_neg]
    intro hc
    exact hr'.2 (by rw [hc.2])
  · intro _ s e _ hm
    obtain ⟨_, h2, h3⟩ := hm
    refine ⟨h2, ?_⟩
    show lit.size ≤ e ∧ occursAt h lit (e - lit.size) = true
    subst h3
    subst h2
    refine ⟨Nat.le_refl _, ?_⟩
    rw [Nat.sub_self, Cx.RevSuffix.occursAt_iff]
    exact ⟨by omega, fun k _ => by rw [Nat.zero_add]⟩
  · intro _ _ _
    exact (wholeRef_isSome lit h).symm
  · intro hc
    cases hc

/-! ## UseTeddy / UseAhoCorasick -/

section
variable {O : Oracles2} {P : Params2} {Mt : Bytes → Nat → Nat → Prop} {ref : Bytes → Nat → Option Span} {h : Bytes}

/-- **`ahoCorasick.Find` reports the occurrence that ENDS first** (`EndsFirstOK`, `Cx.Proofs.MetaFind2Lits`): what
    github.com/coregx/ahocorasick v0.3.0 actually does.  (The contract this replaces, `AhoOK` = "`Find` IS the reference search",
    is not met by the dependency: `cex_aho_nested_flag_needed`.) -/
def AhoEndsFirstOK (O : Oracles2) (lits : List Bytes) (h : Bytes) : Prop := EndsFirstOK (O.ahoFind h) lits h

/-- the contracts of `ahoCorasickSpan`: the pattern is the alternation of `lits` (`mt_iff`); the engine's `ahoCorasickNested` /
    `ahoCorasickMaxLen` describe the set (`AcSetOK`: decidable facts, `acSetOK_compile`); the automaton is ends-first; with a nested
    set the Pike VM is the reference search -/
structure AhoLitOK (O : Oracles2) (P : Params2) (lits : List Bytes) (Mt : Bytes → Nat → Nat → Prop)
    (ref : Bytes → Nat → Option Span) (h : Bytes) : Prop extends RefOK Mt ref h where
  set : AcSetOK lits P.acNested P.acMaxLen
  aho : AhoEndsFirstOK O lits h
  mt_iff : ∀ s e, Mt h s e ↔ LitOcc lits h s e
  pike : P.acNested = true → PikeOK O.toOracles ref h

/-- the contracts of the Fat Teddy small-haystack automaton: compile.go builds it only for a set without nesting (`nonest`,
    `fatFallbackBuilt`), and its `Find` is ends-first -/
structure FatOK (O : Oracles2) (lits : List Bytes) (Mt : Bytes → Nat → Nat → Prop) (h : Bytes) : Prop where
  nonest : hasNestedLiteral lits = false
  fat : EndsFirstOK (O.fatFind h) lits h
  mt_iff : ∀ s e, Mt h s e ↔ LitOcc lits h s e

/-- the component contracts of the Teddy functions: `FindMatch` is the reference search (`PfMatchOK`); without `FindMatch` the
    prefilter never skips (`PfOK`), and a uniform `LiteralLen()` makes the candidate the match (`PfCompleteOK`) -/
structure TeddyOK (O : Oracles2) (P : Params2) (Mt : Bytes → Nat → Nat → Prop) (ref : Bytes → Nat → Option Span) (h : Bytes) :
    Prop extends RefOK Mt ref h where
  fm : P.pfHasFindMatch = true → PfMatchOK O.toOracles ref h
  pf : P.pfHasFindMatch = false → PfOK O.toOracles Mt h
  pfc : P.pfHasFindMatch = false → P.literalLen > 0 → PfCompleteOK O.toOracles P.toParams ref h

theorem teddyFrom_eq_ref (T : TeddyOK O P Mt ref h) (nfaAt : Nat → Option Span)
    (hnfa : P.pfHasFindMatch = false → P.literalLen = 0 → ∀ p, p ≤ h.size → nfaAt p = ref h p) {at_ : Nat} (hat : at_ ≤ h.size) :
    teddyFrom nfaAt O P h at_ = ref h at_ := by
  unfold teddyFrom
  cases hm : P.pfHasFindMatch with
  | true => simp only [↓reduceIte]; exact T.fm hm at_ hat
  | false =>
    simp only [Bool.false_eq_true, ↓reduceIte]
    have F := T.pf hm
    cases hf : O.pfFind h at_ with
    | none => exact (F.none_ref T.toRefOK hat hf).symm
    | some pos =>
      obtain ⟨h1, h2, h3⟩ := F.some_ref T.toRefOK hat hf
      simp only
      by_cases hl : P.literalLen > 0
      · rw [if_pos hl]; exact (T.pfc hm hl at_ pos hat hf).symm
      · rw [if_neg hl, hnfa hm (by omega) pos (by omega), h3]

/-- **`findIndicesTeddy` returns the reference's span.**  `hn`: the NFA functions it falls back to (no prefilter; no
    `FindMatch` and literals of different lengths). -/
theorem findIndicesTeddy_eq_ref (ht : P.hasPrefilter = true → TeddyOK O P Mt ref h)
    (hn : P.hasPrefilter = false ∨ (P.pfHasFindMatch = false ∧ P.literalLen = 0) → NfaOK O P Mt ref h) :
    findIndicesTeddy O P h = ref h 0 := by
  unfold findIndicesTeddy
  cases hp : P.hasPrefilter with
  | false => simp only [Bool.not_false, ↓reduceIte]; exact (hn (Or.inl hp)).find
  | true =>
    simp only [Bool.not_true, Bool.false_eq_true, ↓reduceIte]
    exact teddyFrom_eq_ref (ht hp) _ (fun h1 h2 p hp' => (hn (Or.inr ⟨h1, h2⟩)).findAt hp') (Nat.zero_le _)

/-- **`findIndicesTeddyAt(h, at)` returns the reference's span from `at`** -/
theorem findIndicesTeddyAt_eq_ref {at_ : Nat} (ht : P.hasPrefilter = true → TeddyOK O P Mt ref h)
    (hn : P.hasPrefilter = false ∨ at_ = h.size ∨ (P.pfHasFindMatch = false ∧ P.literalLen = 0) → NfaOK O P Mt ref h)
    (hat : at_ ≤ h.size) : findIndicesTeddyAt O P h at_ = ref h at_ := by
  unfold findIndicesTeddyAt
  by_cases hc : (!P.hasPrefilter || decide (at_ ≥ h.size)) = true
  · rw [if_pos hc]
    simp only [Bool.or_eq_true, Bool.not_eq_true', decide_eq_true_eq] at hc
    refine (hn ?_).findAt hat
    cases hc with
    | inl g => exact Or.inl g
    | inr g => exact Or.inr (Or.inl (by omega))
  · rw [if_neg hc]
    simp only [Bool.or_eq_true, Bool.not_eq_true', decide_eq_true_eq, not_or, Bool.not_eq_false] at hc
    exact teddyFrom_eq_ref (ht hc.1) _ (fun h1 h2 p hp' => (hn (Or.inr (Or.inr ⟨h1, h2⟩))).findAt hp') hat

/-- `isMatchTeddy`: the candidate of a COMPLETE prefilter is a match (`hpc`); the small-haystack automaton is exact (`hfat`) -/
theorem isMatchTeddy_eq_ref (R : RefOK Mt ref h) (hpf : P.hasPrefilter = true → PfOK O.toOracles Mt h)
    (hpc : P.hasPrefilter = true → ∀ p, O.pfFind h 0 = some p → (ref h 0).isSome = true)
    (hfat : useFatFallback P h = true → O.fatIsMatch h = (ref h 0).isSome)
    (hn : P.hasPrefilter = false → MetaFind.isMatchNFA O.toOracles P.toParams h = (ref h 0).isSome) :
    isMatchTeddy O P h = (ref h 0).isSome := by
  unfold isMatchTeddy
  cases hp : P.hasPrefilter with
  | false => simp only [Bool.not_false, ↓reduceIte]; exact hn hp
  | true =>
    simp only [Bool.not_true, Bool.false_eq_true, ↓reduceIte]
    by_cases hf : useFatFallback P h = true
    · rw [if_pos hf]; exact hfat hf
    · rw [if_neg hf]
      cases hfd : O.pfFind h 0 with
      | none => rw [(hpf hp).none_ref R (Nat.zero_le _) hfd]; rfl
      | some p => rw [hpc hp p hfd]; rfl

/-- the small-haystack automaton is exact: it exists only for sets without nesting, where ends-first = leftmost-first -/
theorem FatOK.find_eq_ref {lits : List Bytes} (F : FatOK O lits Mt h) (R : RefOK Mt ref h) {a : Nat} (ha : a ≤ h.size) :
    O.fatFind h a = ref h a :=
  endsFirst_eq_ref (hasNestedLiteral_false F.nonest) F.fat R F.mt_iff ha

/-- `findTeddy` (find.go): the small-haystack automaton's `Find` is ends-first, and the automaton is only there for literal
    sets without nesting -/
theorem findTeddy_eq_ref {lits : List Bytes} (ht : P.hasPrefilter = true → TeddyOK O P Mt ref h) (K : PikeOK O.toOracles ref h)
    (hfat : P.hasFatFallback = true → FatOK O lits Mt h) : findTeddy O P h = ref h 0 := by
  unfold findTeddy
  cases hp : P.hasPrefilter with
  | false => simp only [Bool.not_false, ↓reduceIte]; exact K 0 (Nat.zero_le _)
  | true =>
    simp only [Bool.not_true, Bool.false_eq_true, ↓reduceIte]
    by_cases hf : useFatFallback P h = true
    · rw [if_pos hf]
      unfold useFatFallback at hf
      simp only [Bool.and_eq_true] at hf
      exact (hfat hf.1).find_eq_ref (ht hp).toRefOK (Nat.zero_le _)
    · rw [if_neg hf]
      exact teddyFrom_eq_ref (ht hp) _ (fun _ _ p hp' => K p hp') (Nat.zero_le _)

/-- `findTeddyAt` (find.go): the small-haystack branch SEARCHES with `fatTeddyFallback.Find(h, at)` (the anchored `FindAt` of the
    code as of a92eaaa was wrong: `cex_fat_findAt_anchored`) -/
theorem findTeddyAt_eq_ref {lits : List Bytes} {at_ : Nat} (ht : P.hasPrefilter = true → TeddyOK O P Mt ref h)
    (K : PikeOK O.toOracles ref h) (hfat : P.hasFatFallback = true → FatOK O lits Mt h) (hat : at_ ≤ h.size) :
    findTeddyAt O P h at_ = ref h at_ := by
  unfold findTeddyAt
  by_cases hc : (!P.hasPrefilter || decide (at_ ≥ h.size)) = true
  · rw [if_pos hc]; exact K at_ hat
  · rw [if_neg hc]
    simp only [Bool.or_eq_true, Bool.not_eq_true', decide_eq_true_eq, not_or, Bool.not_eq_false] at hc
    by_cases hf : useFatFallback P h = true
    · rw [if_pos hf]
      unfold useFatFallback at hf
      simp only [Bool.and_eq_true] at hf
      exact (hfat hf.1).find_eq_ref (ht hc.1).toRefOK hat
    · rw [if_neg hf]
      exact teddyFrom_eq_ref (ht hc.1) _ (fun _ _ p hp' => K p hp') hat

/-! ### UseAhoCorasick -/

/-- **`ahoCorasickSpan(h, at)` returns the reference's span** — the automaton only has to be what it is (ends-first):
    without nesting its answer is the leftmost-first match (`endsFirst_eq_ref`); with nesting no match starts before
    `lo = max(at, end − maxLen)` (`endsFirst_lo`), so the Pike VM's answer from `lo` is the reference's from `lo` (`PikeOK`), which
    is the reference's from `at` (`RefOK.skip`, i.e. the restart property of the reference) -/
theorem ahoCorasickSpan_eq_ref {lits : List Bytes} (A : AhoLitOK O P lits Mt ref h) {at_ : Nat} (hat : at_ ≤ h.size) :
    ahoCorasickSpan O P h at_ = ref h at_ := by
  unfold ahoCorasickSpan
  cases hf : O.ahoFind h at_ with
  | none =>
    exact (A.toRefOK.toRefSpec.none_of hat
      (fun s e g1 _ hm => A.aho.none_occ at_ hat hf s e g1 ((A.mt_iff s e).mp hm))).symm
  | some se =>
    obtain ⟨s, e⟩ := se
    simp only
    cases hn : P.acNested with
    | false =>
      simp only [Bool.not_false, ↓reduceIte]
      have := endsFirst_eq_ref (A.set.noNest hn) A.aho A.toRefOK A.mt_iff hat
      rw [← this]
      exact hf.symm
    | true =>
      simp only [Bool.not_true, Bool.false_eq_true, ↓reduceIte]
      obtain ⟨b1, b2, b3, b4⟩ := endsFirst_lo A.set A.aho hat hf
      rw [A.pike hn _ (by omega)]
      exact A.toRefOK.skip b1 (by omega) (fun s' e' g1 g2 hm => b4 s' e' g1 g2 ((A.mt_iff s' e').mp hm))

/-- **`findIndicesAhoCorasick` returns the reference's span — under the contract `AhoEndsFirstOK`** (no `AhoOK`) -/
theorem findIndicesAhoCorasick_eq_ref {lits : List Bytes} (ha : P.hasAho = true → AhoLitOK O P lits Mt ref h)
    (hn : P.hasAho = false → NfaOK O P Mt ref h) : findIndicesAhoCorasick O P h = ref h 0 := by
  unfold findIndicesAhoCorasick
  cases hp : P.hasAho with
  | false => simp only [Bool.not_false, ↓reduceIte]; exact (hn hp).find
  | true => simp only [Bool.not_true, Bool.false_eq_true, ↓reduceIte]; exact ahoCorasickSpan_eq_ref (ha hp) (Nat.zero_le _)

theorem findIndicesAhoCorasickAt_eq_ref {lits : List Bytes} {at_ : Nat} (ha : P.hasAho = true → AhoLitOK O P lits Mt ref h)
    (hn : P.hasAho = false ∨ at_ = h.size → NfaOK O P Mt ref h) (hat : at_ ≤ h.size) :
    findIndicesAhoCorasickAt O P h at_ = ref h at_ := by
  unfold findIndicesAhoCorasickAt
  by_cases hc : (!P.hasAho || decide (at_ ≥ h.size)) = true
  · rw [if_pos hc]
    simp only [Bool.or_eq_true, Bool.not_eq_true', decide_eq_true_eq] at hc
    exact (hn (hc.imp id (fun g => by omega))).findAt hat
  · rw [if_neg hc]
    simp only [Bool.or_eq_true, Bool.not_eq_true', decide_eq_true_eq, not_or, Bool.not_eq_false] at hc
    exact ahoCorasickSpan_eq_ref (ha hc.1) hat

/-- `ahoCorasick.IsMatch(h)` answers iff some literal occurs somewhere -/
def AhoIsMatchOK (O : Oracles2) (lits : List Bytes) (h : Bytes) : Prop := O.ahoIsMatch h = true ↔ ∃ s e, LitOcc lits h s e

/-- `isMatchAhoCorasick`: the automaton's `IsMatch` is exact on OCCURRENCES, and the matches are the occurrences -/
theorem isMatchAhoCorasick_eq_ref {lits : List Bytes} (R : RefOK Mt ref h)
    (hmt : P.hasAho = true → ∀ s e, Mt h s e ↔ LitOcc lits h s e) (ha : P.hasAho = true → AhoIsMatchOK O lits h)
    (hn : P.hasAho = false → MetaFind.isMatchNFA O.toOracles P.toParams h = (ref h 0).isSome) :
    isMatchAhoCorasick O P h = (ref h 0).isSome := by
  unfold isMatchAhoCorasick
  cases hp : P.hasAho with
  | false => simp only [Bool.not_false, ↓reduceIte]; exact hn hp
  | true =>
    simp only [Bool.not_true, Bool.false_eq_true, ↓reduceIte]
    cases hr : ref h 0 with
    | none =>
      cases hi : O.ahoIsMatch h with
      | false => rfl
      | true =>
        obtain ⟨s, e, ho⟩ := (ha hp).mp hi
        have := ho.le
        exact absurd ((hmt hp s e).mpr ho) (R.ref_none 0 (Nat.zero_le _) hr s e (Nat.zero_le _) (by omega))
    | some se =>
      obtain ⟨s, e⟩ := se
      obtain ⟨_, _, h3⟩ := R.ref_sound 0 s e (Nat.zero_le _) hr
      exact (ha hp).mpr ⟨s, e, (hmt hp s e).mp h3⟩

theorem findAhoCorasick_eq_ref {lits : List Bytes} (ha : P.hasAho = true → AhoLitOK O P lits Mt ref h)
    (K : PikeOK O.toOracles ref h) : findAhoCorasick O P h = ref h 0 := by
  unfold findAhoCorasick
  cases hp : P.hasAho with
  | false => simp only [Bool.not_false, ↓reduceIte]; exact K 0 (Nat.zero_le _)
  | true => simp only [Bool.not_true, Bool.false_eq_true, ↓reduceIte]; exact ahoCorasickSpan_eq_ref (ha hp) (Nat.zero_le _)

theorem findAhoCorasickAt_eq_ref {lits : List Bytes} {at_ : Nat} (ha : P.hasAho = true → AhoLitOK O P lits Mt ref h)
    (K : PikeOK O.toOracles ref h) (hat : at_ ≤ h.size) : findAhoCorasickAt O P h at_ = ref h at_ := by
  unfold findAhoCorasickAt
  by_cases hc : (!P.hasAho || decide (at_ ≥ h.size)) = true
  · rw [if_pos hc]; exact K at_ hat
  · rw [if_neg hc]
    simp only [Bool.or_eq_true, Bool.not_eq_true', decide_eq_true_eq, not_or, Bool.not_eq_false] at hc
    exact ahoCorasickSpan_eq_ref (ha hc.1) hat

/-! ### find.go: the digit twins -/

theorem findDigitPrefilter_eq_ref (hd : P.hasDigitPrefilter = true → DigitOK O P Mt ref h)
    (hfa : P.hasDFA = true → ∀ a, a ≤ h.size → (ref h a).isSome = true → (O.fwdFindAt h a).isSome = true)
    (K : PikeOK O.toOracles ref h) : findDigitPrefilter O P h = ref h 0 := by
  unfold findDigitPrefilter
  cases hp : P.hasDigitPrefilter with
  | false => simp only [Bool.not_false, ↓reduceIte]; exact K 0 (Nat.zero_le _)
  | true =>
    simp only [Bool.not_true, Bool.false_eq_true, ↓reduceIte]
    by_cases h0 : h.size = 0
    · rw [if_pos h0]
      have := end_none (hd hp).toRefOK (hd hp).lead
      rw [h0] at this
      exact this.symm
    · rw [if_neg h0]; exact findFromFirstDigit_eq_ref (hd hp) hfa (Nat.zero_le _)

theorem findDigitPrefilterAt_eq_ref {at_ : Nat} (hd : P.hasDigitPrefilter = true → DigitOK O P Mt ref h)
    (hfa : P.hasDFA = true → ∀ a, a ≤ h.size → (ref h a).isSome = true → (O.fwdFindAt h a).isSome = true)
    (K : PikeOK O.toOracles ref h) (hat : at_ ≤ h.size) : findDigitPrefilterAt O P h at_ = ref h at_ := by
  unfold findDigitPrefilterAt
  by_cases hc : (!P.hasDigitPrefilter || decide (at_ ≥ h.size)) = true
  · rw [if_pos hc]; exact K at_ hat
  · rw [if_neg hc]
    simp only [Bool.or_eq_true, Bool.not_eq_true', decide_eq_true_eq, not_or, Bool.not_eq_false] at hc
    exact findFromFirstDigit_eq_ref (hd hc.1) hfa hat

/-! ### the dispatch -/

/-- the hypotheses of the strategy functions, per strategy, in leftmost-first mode -/
def StratOK (O : Oracles2) (P : Params2) (lits : List Bytes) (Mt : Bytes → Nat → Nat → Prop) (ref : Bytes → Nat → Option Span)
    (h : Bytes) (at_ : Nat) : Strategy2 → Prop
  | .digit => (P.hasDigitPrefilter = true → DigitOK O P Mt ref h) ∧
              (P.hasDigitPrefilter = false ∨ at_ = h.size → NfaOK O P Mt ref h)
  | .teddy => (P.hasPrefilter = true → TeddyOK O P Mt ref h) ∧
              (P.hasPrefilter = false ∨ at_ = h.size ∨ (P.pfHasFindMatch = false ∧ P.literalLen = 0) → NfaOK O P Mt ref h)
  | .aho => (P.hasAho = true → AhoLitOK O P lits Mt ref h) ∧ (P.hasAho = false ∨ at_ = h.size → NfaOK O P Mt ref h)

/-- **`FindIndicesAt` for UseDigitPrefilter / UseTeddy / UseAhoCorasick returns the reference's span.**  In leftmost-longest
    mode (`hl`: `searchStrategy()` answers UseNFA) only the NFA contracts are needed — with `ref` the leftmost-longest reference. -/
theorem findIndicesAt_eq_ref {lits : List Bytes} (st : Strategy2) {at_ : Nat} (hat : at_ ≤ h.size)
    (R : RefOK Mt ref h) (hanch : P.alwaysAnchored = true → ∀ s e, s ≤ h.size → Mt h s e → s = 0)
    (hl : P.longest = true → NfaOK O P Mt ref h) (hs : P.longest = false → StratOK O P lits Mt ref h at_ st) :
    findIndicesAt O P st h at_ = ref h at_ := by
  unfold findIndicesAt
  by_cases ha : (decide (at_ > 0) && P.alwaysAnchored) = true
  · rw [if_pos ha]
    simp only [Bool.and_eq_true, decide_eq_true_eq] at ha
    exact (R.toRefSpec.none_of hat (fun s e h1 h2 hm => by have := hanch ha.2 s e h2 hm; omega)).symm
  · rw [if_neg ha]
    unfold searchesWithNFA
    cases hlg : P.longest with
    | true => simp only [↓reduceIte]; exact (hl hlg).findAt hat
    | false =>
      simp only [Bool.false_eq_true, ↓reduceIte]
      have S := hs hlg
      cases st with
      | digit => exact findIndicesDigitPrefilterAt_eq_ref S.1 S.2 hat
      | teddy => exact findIndicesTeddyAt_eq_ref S.1 S.2 hat
      | aho => exact findIndicesAhoCorasickAt_eq_ref S.1 S.2 hat

theorem findIndicesAtWithState_eq_ref {lits : List Bytes} (st : Strategy2) {at_ : Nat} (hat : at_ ≤ h.size)
    (R : RefOK Mt ref h) (hanch : P.alwaysAnchored = true → ∀ s e, s ≤ h.size → Mt h s e → s = 0)
    (hl : P.longest = true → NfaOK O P Mt ref h) (hs : P.longest = false → StratOK O P lits Mt ref h at_ st) :
    findIndicesAtWithState O P st h at_ = ref h at_ := by
  have := findIndicesAt_eq_ref st hat R hanch hl hs
  unfold findIndicesAt at this
  unfold findIndicesAtWithState findIndicesDigitPrefilterAtWithState
  exact this

theorem findIndices_eq_ref {lits : List Bytes} (st : Strategy2) (hl : P.longest = true → NfaOK O P Mt ref h)
    (hs : P.longest = false → StratOK O P lits Mt ref h 0 st) : findIndices O P st h = ref h 0 := by
  unfold findIndices searchesWithNFA
  cases hlg : P.longest with
  | true => simp only [↓reduceIte]; exact (hl hlg).find
  | false =>
    simp only [Bool.false_eq_true, ↓reduceIte]
    have S := hs hlg
    cases st with
    | digit => exact findIndicesDigitPrefilter_eq_ref S.1 (fun g => S.2 (Or.inl g))
    | teddy =>
      exact findIndicesTeddy_eq_ref S.1 (fun g => S.2 (g.elim Or.inl (fun g' => Or.inr (Or.inr g'))))
    | aho => exact findIndicesAhoCorasick_eq_ref S.1 (fun g => S.2 (Or.inl g))

/-- the hypotheses of the find.go twins, per strategy, in leftmost-first mode -/
def FindStratOK (O : Oracles2) (P : Params2) (lits : List Bytes) (Mt : Bytes → Nat → Nat → Prop)
    (ref : Bytes → Nat → Option Span) (h : Bytes) : Strategy2 → Prop
  | .digit => (P.hasDigitPrefilter = true → DigitOK O P Mt ref h) ∧
              (P.hasDFA = true → ∀ a, a ≤ h.size → (ref h a).isSome = true → (O.fwdFindAt h a).isSome = true)
  | .teddy => (P.hasPrefilter = true → TeddyOK O P Mt ref h) ∧
              (P.hasFatFallback = true → FatOK O lits Mt h)
  | .aho => P.hasAho = true → AhoLitOK O P lits Mt ref h

/-- `Engine.Find` / `Engine.FindAt` (find.go) for the three strategies -/
theorem engineFindAt_eq_ref {lits : List Bytes} (st : Strategy2) {at_ : Nat} (hat : at_ ≤ h.size) (R : RefOK Mt ref h)
    (hanch : P.alwaysAnchored = true → ∀ s e, s ≤ h.size → Mt h s e → s = 0) (K : PikeOK O.toOracles ref h)
    (hs : P.longest = false → FindStratOK O P lits Mt ref h st) : engineFindAt O P st h at_ = ref h at_ := by
  unfold engineFindAt
  rw [if_neg (by omega)]
  by_cases ha : (decide (at_ > 0) && P.alwaysAnchored) = true
  · rw [if_pos ha]
    simp only [Bool.and_eq_true, decide_eq_true_eq] at ha
    exact (R.toRefSpec.none_of hat (fun s e h1 h2 hm => by have := hanch ha.2 s e h2 hm; omega)).symm
  · rw [if_neg ha]
    unfold searchesWithNFA
    by_cases h0 : at_ = 0
    · subst h0
      simp only [↓reduceIte]
      cases hlg : P.longest with
      | true => simp only [↓reduceIte]; exact K 0 hat
      | false =>
        simp only [Bool.false_eq_true, ↓reduceIte]
        have S := hs hlg
        cases st with
        | digit => exact findDigitPrefilter_eq_ref S.1 S.2 K
        | teddy => exact findTeddy_eq_ref S.1 K S.2
        | aho => exact findAhoCorasick_eq_ref S K
    · rw [if_neg h0]
      cases hlg : P.longest with
      | true => simp only [↓reduceIte]; exact K at_ hat
      | false =>
        simp only [Bool.false_eq_true, ↓reduceIte]
        have S := hs hlg
        cases st with
        | digit => exact findDigitPrefilterAt_eq_ref S.1 S.2 K hat
        | teddy => exact findTeddyAt_eq_ref S.1 K S.2 hat
        | aho => exact findAhoCorasickAt_eq_ref S K hat

end

/-! ### UseTeddy / UseAhoCorasick — counter-models, one per hypothesis  (`r d q s 1 b` = 114 100 113 115 49 98)

* `cex_aho_ends_first_fixed`: **the wrong answer of the code as of a92eaaa is gone.**  Literals {`rdqs1b`, `dqs`} on "rdqs1b": an
  Aho-Corasick automaton that stops at the first accepting state reports the occurrence that ENDS first, `dqs` = [1,4) (the
  table IS `endsFirst` on that input); the reference (leftmost start, first alternative; the table IS `refLit`) is [0,6).
  The code used to return the automaton's answer as it is (`ahoCorasickSpanDirect`: [1,4), and so did
  github.com/coregx/ahocorasick v0.3.0 on the real engine); with `ahoCorasickNested = HasNestedLiteral = true` and
  `ahoCorasickMaxLen = 6` the model (HEAD) runs the Pike VM from `lo = max(0, 4 − 6) = 0` and returns [0,6).
* `cex_aho_nested_flag_needed`: **the nested test is necessary**: the same tables with `acNested = false` — the direct return —
  answer [1,4).  Second shape, `xbcd|xbc` on "xbcd" (same start, the earlier alternative ends later): ends-first [0,3),
  reference [0,4); with the flag: [0,4).
* `cex_aho_maxLen_needed`: `acMaxLen` must bound the literals: with `acMaxLen = 2` the restart position `lo = 2` lies behind the
  match start and the Pike VM finds nothing.
* `cex_acpf_direct_skips`: `prefilter.AhoCorasickPrefilter.Find` as of a92eaaa (`ahoPrefilterFindDirect`: `m.Start`) SKIPS a match
  start: {`rdqs1b`, `dqs`} on "xrdqs1b" from 0: candidate 2, the leftmost match starts at 1; the model of HEAD (probing
  `[end − maxLen, start)` with the anchored `FindAt`) answers 1; without the nested flag it would still answer 2.
* `cex_teddy_findMatch` (`PfMatchOK`): the same table as `FindMatch` answers.
* `cex_teddy_literalLen` (`PfCompleteOK`): `abc|ab` without `FindMatch` but a claimed `LiteralLen() = 2`: [0,2) on "abc", ref [0,3).
* `cex_teddy_pf_skips` (`PfOK`, no `FindMatch`, literals of different lengths): a prefilter that skips a candidate.
* `cex_fat_findAt_anchored` (the code as of a92eaaa, `findTeddyAtAnchored`): `fatTeddyFallback.FindAt(h, at)` is an ANCHORED
  match at `at` (ahocorasick/automaton.go l.90: "the first match starting exactly at position start"), and `findTeddyAt` used
  it as a search: `foo|bar` (as a 33+ literal set) on "xfoo" from 1: found; from 0 (`findTeddy`: `Find`): found; from an offset
  before the match: NOT found.  `cex_fat_findAt_anchored_fixed`: HEAD calls `Find(h, at)`: found.
* `cex_isMatchTeddy_incomplete` (`hpc`): `isMatchTeddy` returns "a candidate exists" — wrong for an incomplete prefilter.
* `cex_longest_literal_engines`: why `searchStrategy()` sends these strategies to the NFA in leftmost-longest mode: `mon|month` on
  "month": the literal engines answer the FIRST alternative [0,3), the leftmost-longest reference is [0,5). -/

/-- `r d q s 1 b`, `d q s` -/
def cexLits : List Bytes := [#[114, 100, 113, 115, 49, 98], #[100, 113, 115]]

/-- the tables of the old counter-model `cex_aho_ends_first` -/
def cexAhoTables : Tables2 :=
  { mt := fun _ _ => false, pike := fun a => if a = 0 then some (0, 6) else if a = 1 then some (1, 4) else none,
    fwd := fun _ => none, aho := fun a => if a ≤ 1 then some (1, 4) else none }

theorem cex_aho_ends_first_fixed :
    let hay : Bytes := #[114, 100, 113, 115, 49, 98]
    let P : Params2 := { hasAho := true, acNested := hasNestedLiteral cexLits, acMaxLen := litMaxLen cexLits }
    hasNestedLiteral cexLits = true ∧ litMaxLen cexLits = 6 ∧
    (∀ a, a ≤ 6 → cexAhoTables.aho a = endsFirst cexLits hay a) ∧ (∀ a, a ≤ 6 → cexAhoTables.pike a = refLit cexLits hay a) ∧
    ahoCorasickSpanDirect (bruteOracles2 cexAhoTables) P hay 0 = some (1, 4) ∧
    findIndicesAhoCorasick (bruteOracles2 cexAhoTables) P hay = some (0, 6) ∧
    findIndicesAhoCorasickAt (bruteOracles2 cexAhoTables) P hay 0 = some (0, 6) ∧
    findAhoCorasick (bruteOracles2 cexAhoTables) P hay = some (0, 6) ∧
    cexAhoTables.pike 0 = some (0, 6) := by decide

theorem cex_aho_nested_flag_needed :
    let hay : Bytes := #[114, 100, 113, 115, 49, 98]
    (findIndicesAhoCorasick (bruteOracles2 cexAhoTables) { hasAho := true, acNested := false, acMaxLen := 6 } hay = some (1, 4) ∧
     findIndicesAhoCorasickAt (bruteOracles2 cexAhoTables) { hasAho := true, acNested := false, acMaxLen := 6 } hay 0 = some (1, 4) ∧
     cexAhoTables.pike 0 = some (0, 6) ∧ hasNestedLiteral cexLits = true) ∧
    -- `x b c d`, `x b c` on "xbcd"
    (let lits : List Bytes := [#[120, 98, 99, 100], #[120, 98, 99]]
     let hay2 : Bytes := #[120, 98, 99, 100]
     let T : Tables2 := { mt := fun _ _ => false, pike := refLit lits hay2, fwd := fun _ => none, aho := endsFirst lits hay2 }
     findIndicesAhoCorasick (bruteOracles2 T) { hasAho := true, acNested := false, acMaxLen := 4 } hay2 = some (0, 3) ∧
     findIndicesAhoCorasick (bruteOracles2 T) { hasAho := true, acNested := hasNestedLiteral lits, acMaxLen := litMaxLen lits } hay2
       = some (0, 4) ∧
     refLit lits hay2 0 = some (0, 4)) := by decide

theorem cex_aho_maxLen_needed :
    findIndicesAhoCorasick (bruteOracles2 cexAhoTables) { hasAho := true, acNested := true, acMaxLen := 2 }
      #[114, 100, 113, 115, 49, 98] = none ∧ cexAhoTables.pike 0 = some (0, 6) := by decide

theorem cex_acpf_direct_skips :
    let hay : Bytes := #[120, 114, 100, 113, 115, 49, 98]
    let findAt : Bytes → Nat → Option Span := fun h p => if anyLitAt cexLits h p then some (p, p) else none
    ahoPrefilterFindDirect (endsFirst cexLits) hay 0 = some 2 ∧ refLit cexLits hay 0 = some (1, 7) ∧
    ahoPrefilterFind (endsFirst cexLits) findAt (hasNestedLiteral cexLits) (litMaxLen cexLits) hay 0 = some 1 ∧
    ahoPrefilterFind (endsFirst cexLits) findAt false 6 hay 0 = some 2 := by decide

theorem cex_teddy_findMatch :
    let T : Tables2 := { mt := fun _ _ => false, pike := fun a => if a = 0 then some (0, 6) else if a = 1 then some (1, 4) else none,
                         fwd := fun _ => none, pfm := fun a => if a ≤ 1 then some (1, 4) else none }
    findIndicesTeddy (bruteOracles2 T) { hasPrefilter := true, pfComplete := true, pfHasFindMatch := true }
      #[114, 100, 113, 115, 49, 98] = some (1, 4) ∧ T.pike 0 = some (0, 6) := by decide

theorem cex_teddy_literalLen :
    let T : Tables2 := { mt := fun _ _ => false, pike := fun a => if a = 0 then some (0, 3) else none, fwd := fun _ => none,
                         pf := fun a => if a = 0 then some 0 else none, bt := fun a => if a = 0 then some (0, 3) else none }
    findIndicesTeddy (bruteOracles2 T) { hasPrefilter := true, pfComplete := true, literalLen := 2 } #[97, 98, 99] = some (0, 2) ∧
    findIndicesTeddy (bruteOracles2 T) { hasPrefilter := true, pfComplete := true, literalLen := 0 } #[97, 98, 99] = some (0, 3) := by
  decide

theorem cex_teddy_pf_skips :
    let T : Tables2 := { mt := fun _ _ => false, pike := fun a => if a < 2 then some (a, a + 1) else none, fwd := fun _ => none,
                         pf := fun a => if a ≤ 1 then some 1 else none }
    findIndicesTeddy (bruteOracles2 T) { hasPrefilter := true, pfComplete := true } #[97, 97] = some (1, 2) ∧
    T.pike 0 = some (0, 1) := by decide

/-- `foo` on "xfoo" -/
def cexFatTables : Tables2 :=
  { mt := fun _ _ => false, pike := fun a => if a ≤ 1 then some (1, 4) else none, fwd := fun _ => none,
    pfm := fun a => if a ≤ 1 then some (1, 4) else none,
    fat := fun a => if a ≤ 1 then some (1, 4) else none, fatAt := fun a => if a = 1 then some (1, 4) else none }

theorem cex_fat_findAt_anchored :
    let P : Params2 := { hasPrefilter := true, pfComplete := true, pfHasFindMatch := true, hasFatFallback := true }
    findTeddyAtAnchored (bruteOracles2 cexFatTables) P #[120, 102, 111, 111] 0 = none ∧
    findTeddy (bruteOracles2 cexFatTables) P #[120, 102, 111, 111] = some (1, 4) ∧
    findTeddyAtAnchored (bruteOracles2 cexFatTables) P #[120, 102, 111, 111] 1 = some (1, 4) ∧
    findIndicesTeddyAt (bruteOracles2 cexFatTables) P #[120, 102, 111, 111] 0 = some (1, 4) := by decide

theorem cex_fat_findAt_anchored_fixed :
    let P : Params2 := { hasPrefilter := true, pfComplete := true, pfHasFindMatch := true, hasFatFallback := true }
    findTeddyAt (bruteOracles2 cexFatTables) P #[120, 102, 111, 111] 0 = some (1, 4) ∧
    findTeddyAt (bruteOracles2 cexFatTables) P #[120, 102, 111, 111] 1 = some (1, 4) ∧
    cexFatTables.pike 0 = some (1, 4) := by decide

theorem cex_isMatchTeddy_incomplete :
    let T : Tables2 := { mt := fun _ _ => false, pike := fun _ => none, fwd := fun _ => none,
                         pf := fun a => if a = 0 then some 0 else none }
    isMatchTeddy (bruteOracles2 T) { hasPrefilter := true } #[97, 98] = true ∧
    MetaFind.isMatchNFA (bruteOracles2 T).toOracles { hasPrefilter := true } #[97, 98] = false := by decide

theorem cex_longest_literal_engines :
    let T : Tables2 := { mt := fun _ _ => false, pike := fun a => if a = 0 then some (0, 5) else none, fwd := fun _ => none,
                         pfm := fun a => if a = 0 then some (0, 3) else none, aho := fun a => if a = 0 then some (0, 3) else none }
    let P : Params2 := { longest := true, hasPrefilter := true, pfComplete := true, pfHasFindMatch := true, prefilterPartialCoverage := true,
                         hasAho := true }
    findIndicesTeddy (bruteOracles2 T) P #[109, 111, 110, 116, 104] = some (0, 3) ∧
    findIndicesAhoCorasick (bruteOracles2 T) P #[109, 111, 110, 116, 104] = some (0, 3) ∧
    findIndices (bruteOracles2 T) P .teddy #[109, 111, 110, 116, 104] = some (0, 5) ∧
    findIndices (bruteOracles2 T) P .aho #[109, 111, 110, 116, 104] = some (0, 5) := by decide

/-! ### UseTeddy — non-vacuity: a single literal, `FindMatch` computed by naive search (`MetaFind.litOracles`, `MetaFind.litRef`) -/

def litOracles2 (lit : Bytes) : Oracles2 where
  toOracles := MetaFind.litOracles lit
  digitFind := fun _ _ => none
  anchStop := fun _ _ => (none, 0)
  ahoFind := MetaFind.litRef lit
  ahoIsMatch := fun h => (MetaFind.litRef lit h 0).isSome
  fatFind := MetaFind.litRef lit
  fatFindAt := MetaFind.litRef lit
  fatIsMatch := fun h => (MetaFind.litRef lit h 0).isSome
  asciiIsMatch := fun h => (MetaFind.litRef lit h 0).isSome

/-- **non-vacuity**: the hypotheses of the Teddy theorems hold for a literal pattern on EVERY haystack -/
theorem litOracles2_instance (lit : Bytes) (h : Bytes) {at_ : Nat} (hat : at_ < h.size) :
    let P : Params2 := { hasPrefilter := true, pfComplete := true, pfHasFindMatch := true }
    findIndicesTeddyAt (litOracles2 lit) P h at_ = MetaFind.litRef lit h at_ ∧
    findIndicesTeddy (litOracles2 lit) P h = MetaFind.litRef lit h 0 := by
  intro P
  have T : TeddyOK (litOracles2 lit) P (MetaFind.LitMt lit) (MetaFind.litRef lit) h :=
    { toRefOK := MetaFind.litRef_refOK lit h, fm := fun _ _ _ => rfl, pf := (fun hc => by cases hc), pfc := (fun hc => by cases hc) }
  refine ⟨?_, ?_⟩
  · exact findIndicesTeddyAt_eq_ref (Mt := MetaFind.LitMt lit) (fun _ => T) (fun hc => by
      rcases hc with hc | hc | hc
      · cases hc
      · omega
      · cases hc.1) (by omega)
  · exact findIndicesTeddy_eq_ref (Mt := MetaFind.LitMt lit) (fun _ => T) (fun hc => by
      rcases hc with hc | hc
      · cases hc
      · cases hc.1)

/-! ### UseAhoCorasick / the Fat Teddy fallback — non-vacuity: ANY list of literals, the automaton computed by brute force as the
ends-first search `endsFirst` (`endsFirst_ok`), the Pike VM as the executable reference `refLit` (`refLit_refOK`), the engine's
flags computed as compile.go computes them (`acSetOK_compile`) -/

def acOracles (lits : List Bytes) : Oracles2 where
  toOracles := { MetaFind.litOracles #[] with pike := refLit lits, pfFindMatch := refLit lits }
  digitFind := fun _ _ => none
  anchStop := fun _ _ => (none, 0)
  ahoFind := endsFirst lits
  ahoIsMatch := fun h => (endsFirst lits h 0).isSome
  fatFind := endsFirst lits
  fatFindAt := fun _ _ => none
  fatIsMatch := fun h => (endsFirst lits h 0).isSome
  asciiIsMatch := fun _ => false

theorem acOracles_ok (lits : List Bytes) (h : Bytes) (P : Params2) (hn : P.acNested = hasNestedLiteral lits)
    (hm : P.acMaxLen = litMaxLen lits) : AhoLitOK (acOracles lits) P lits (LitOcc lits) (refLit lits) h where
  toRefOK := refLit_refOK lits h
  set := by rw [hn, hm]; exact acSetOK_compile lits
  aho := endsFirst_ok lits h
  mt_iff := fun _ _ => Iff.rfl
  pike := fun _ _ _ => rfl

/-- **non-vacuity, and a closed statement**: for EVERY literal list (nested or not) and EVERY haystack the UseAhoCorasick
    functions over the brute-force ends-first automaton return the leftmost-first reference `refLit` -/
theorem acOracles_instance (lits : List Bytes) (h : Bytes) {at_ : Nat} (hat : at_ ≤ h.size) :
    let P : Params2 := { hasAho := true, acNested := hasNestedLiteral lits, acMaxLen := litMaxLen lits }
    findIndicesAhoCorasickAt (acOracles lits) P h at_ = refLit lits h at_ ∧
    findIndicesAhoCorasick (acOracles lits) P h = refLit lits h 0 ∧
    findAhoCorasickAt (acOracles lits) P h at_ = refLit lits h at_ ∧
    findAhoCorasick (acOracles lits) P h = refLit lits h 0 ∧
    isMatchAhoCorasick (acOracles lits) P h = (refLit lits h 0).isSome := by
  intro P
  have A : AhoLitOK (acOracles lits) P lits (LitOcc lits) (refLit lits) h := acOracles_ok lits h P rfl rfl
  have K : PikeOK (acOracles lits).toOracles (refLit lits) h := fun _ _ => rfl
  have hsz : ¬ at_ ≥ h.size → at_ < h.size := by omega
  refine ⟨?_, findIndicesAhoCorasick_eq_ref (Mt := LitOcc lits) (fun _ => A) (fun hc => by cases hc),
    findAhoCorasickAt_eq_ref (Mt := LitOcc lits) (fun _ => A) K hat, findAhoCorasick_eq_ref (Mt := LitOcc lits) (fun _ => A) K, ?_⟩
  · -- `at = len(h)`: the NFA function = the Pike VM = the reference
    unfold findIndicesAhoCorasickAt
    by_cases hc : (!P.hasAho || decide (at_ ≥ h.size)) = true
    · rw [if_pos hc]
      have hp : P.hasPrefilter = false := rfl
      unfold MetaFind.findIndicesNFAAt
      simp only [hp, Bool.false_eq_true, ↓reduceIte, Bool.false_and]
      rfl
    · rw [if_neg hc]
      exact ahoCorasickSpan_eq_ref A hat
  · refine isMatchAhoCorasick_eq_ref (Mt := LitOcc lits) (lits := lits) A.toRefOK (fun _ => A.mt_iff) (fun _ => ?_) (fun hc => by cases hc)
    -- `IsMatch` of the brute-force automaton: some occurrence iff the search from 0 answers
    show (endsFirst lits h 0).isSome = true ↔ _
    have E := endsFirst_ok lits h
    constructor
    · intro hs
      cases hf : endsFirst lits h 0 with
      | none => rw [hf] at hs; cases hs
      | some se => exact ⟨se.1, se.2, (E.some_occ 0 se.1 se.2 (Nat.zero_le _) hf).2.1⟩
    · rintro ⟨s, e, ho⟩
      cases hf : endsFirst lits h 0 with
      | none => exact absurd ho (E.none_occ 0 (Nat.zero_le _) hf s e (Nat.zero_le _))
      | some se => rfl

/-- the Fat Teddy fallback: when compile.go builds it (`fatFallbackBuilt`), the ends-first automaton is the reference search -/
theorem acOracles_fat (lits : List Bytes) (h : Bytes) (hb : fatFallbackBuilt true lits = true) {a : Nat} (ha : a ≤ h.size) :
    (acOracles lits).fatFind h a = refLit lits h a := by
  have hn : hasNestedLiteral lits = false := by
    unfold fatFallbackBuilt at hb
    cases hc : hasNestedLiteral lits with
    | false => rfl
    | true => rw [hc] at hb; cases hb
  exact (FatOK.find_eq_ref (Mt := LitOcc lits) ⟨hn, endsFirst_ok lits h, fun _ _ => Iff.rfl⟩ (refLit_refOK lits h) ha)

end Cx.MetaFind2
