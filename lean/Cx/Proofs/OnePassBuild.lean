import Cx.Model.OnePass
/-
  Cx.Proofs.OnePassBuild — the builder of the one-pass DFA (`buildState` with its memo map, state numbering and
  flat transition table) computes, for every NFA root it visits, exactly the row that the closure of that root
  prescribes; hence `search` on the built table is the numbering-free run `arun` over NFA roots
  (`search_eq_orun`).  DFA state 0 is the dead state; the states of NFA roots are numbered from 1.
-/
namespace Cx.Caps.OnePass
open Cx Cx.Nfa

/-! ### array plumbing -/

theorem getD_append_left {α : Type} (a b : Array α) (i : Nat) (d : α) (hi : i < a.size) :
    (a ++ b).getD i d = a.getD i d := by
  simp [Array.getD_eq_getD_getElem?, Array.getElem?_append_left hi]

theorem getD_append_replicate {α : Type} (a : Array α) (k : Nat) (v d : α) (i : Nat) (h1 : a.size ≤ i)
    (h2 : i < a.size + k) : (a ++ Array.replicate k v).getD i d = v := by
  simp only [Array.getD_eq_getD_getElem?]
  rw [Array.getElem?_append_right h1]
  simp only [Array.getElem?_replicate]
  rw [if_pos (by omega)]
  rfl

theorem getD_push_lt {α : Type} (a : Array α) (v d : α) (i : Nat) (hi : i < a.size) :
    (a.push v).getD i d = a.getD i d := by
  simp only [Array.getD_eq_getD_getElem?, Array.getElem?_push]
  rw [if_neg (by omega)]

theorem getD_push_eq {α : Type} (a : Array α) (v d : α) : (a.push v).getD a.size d = v := by
  simp [Array.getD_eq_getD_getElem?, Array.getElem?_push]

theorem getD_set_self' {α : Type} (a : Array α) (i : Nat) (v d : α) (hi : i < a.size) :
    (a.setIfInBounds i v).getD i d = v := by
  simp [Array.getD_eq_getD_getElem?, Array.getElem?_setIfInBounds, hi]

theorem getD_set_other' {α : Type} (a : Array α) (i j : Nat) (v d : α) (hne : i ≠ j) :
    (a.setIfInBounds i v).getD j d = a.getD j d := by
  simp [Array.getD_eq_getD_getElem?, Array.getElem?_setIfInBounds, hne]

/-! ### the memo map -/

theorem lookup_cons (k v : Nat) (m : List (Nat × Nat)) (x : Nat) :
    lookup ((k, v) :: m) x = if k = x then some v else lookup m x := by
  unfold lookup
  by_cases h : k = x
  · simp [List.find?, h]
  · simp [List.find?, h]

theorem lookup_mem {m : List (Nat × Nat)} {k v : Nat} (h : lookup m k = some v) : (k, v) ∈ m := by
  induction m with
  | nil => simp [lookup] at h
  | cons a m ih =>
    obtain ⟨k', v'⟩ := a
    rw [lookup_cons] at h
    split at h
    · rename_i he
      simp only [Option.some.injEq] at h
      subst he; subst h
      exact List.mem_cons_self
    · exact List.mem_cons_of_mem _ (ih h)

theorem lookup_none_not_mem {m : List (Nat × Nat)} {k : Nat} (h : lookup m k = none) : ∀ v, (k, v) ∉ m := by
  induction m with
  | nil => intro v hv; simp at hv
  | cons a m ih =>
    obtain ⟨k', v'⟩ := a
    rw [lookup_cons] at h
    split at h
    · cases h
    · rename_i hne
      intro v hv
      rcases List.mem_cons.mp hv with h1 | h1
      · simp only [Prod.mk.injEq] at h1; exact hne h1.1.symm
      · exact ih h v h1

/-- with distinct keys, membership determines the lookup -/
theorem lookup_of_mem {m : List (Nat × Nat)} (hnd : (m.map (·.1)).Nodup) {k v : Nat} (h : (k, v) ∈ m) :
    lookup m k = some v := by
  induction m with
  | nil => simp at h
  | cons a m ih =>
    obtain ⟨k', v'⟩ := a
    simp only [List.map_cons, List.nodup_cons] at hnd
    rw [lookup_cons]
    rcases List.mem_cons.mp h with h1 | h1
    · simp only [Prod.mk.injEq] at h1
      rw [if_pos h1.1.symm, h1.2]
    · have hne : k' ≠ k := by
        intro he
        apply hnd.1
        rw [he]
        exact List.mem_map.mpr ⟨(k, v), h1, rfl⟩
      rw [if_neg hne]
      exact ih hnd.2 h1

theorem nodup_rev_range (n : Nat) : (List.range n).reverse.Nodup := by
  unfold List.Nodup
  rw [List.pairwise_reverse]
  exact (List.nodup_range (n := n)).imp (fun h => Ne.symm h)

theorem nodup_map_inj {α β : Type} (f : α → β) : ∀ (l : List α), (l.map f).Nodup →
    ∀ a b, a ∈ l → b ∈ l → f a = f b → a = b := by
  intro l
  induction l with
  | nil => intro _ a b ha; simp at ha
  | cons x l ih =>
    intro hnd a b ha hb hf
    simp only [List.map_cons, List.nodup_cons] at hnd
    rcases List.mem_cons.mp ha with rfl | ha'
    · rcases List.mem_cons.mp hb with rfl | hb'
      · rfl
      · exfalso; apply hnd.1; rw [hf]; exact List.mem_map.mpr ⟨b, hb', rfl⟩
    · rcases List.mem_cons.mp hb with rfl | hb'
      · exfalso; apply hnd.1; rw [← hf]; exact List.mem_map.mpr ⟨a, ha', rfl⟩
      · exact ih hnd.2 a b ha' hb' hf

/-! ### invariants of the builder -/

/-- ids handed out so far: `k, k-1, …, 1` -/
def idsDown : Nat → List Nat
  | 0 => []
  | k+1 => (k+1) :: idsDown k

theorem mem_idsDown {k x : Nat} : x ∈ idsDown k ↔ 1 ≤ x ∧ x ≤ k := by
  induction k with
  | zero => simp [idsDown]; omega
  | succ k ih => simp only [idsDown, List.mem_cons, ih]; omega

theorem nodup_idsDown (k : Nat) : (idsDown k).Nodup := by
  induction k with
  | zero => exact List.nodup_nil
  | succ k ih =>
    simp only [idsDown, List.nodup_cons]
    refine ⟨?_, ih⟩
    intro hm
    have := (mem_idsDown.mp hm).2
    omega

structure WF (stride : Nat) (B : Builder) : Prop where
  flags : B.matchFlags.size = B.numStates
  eflags : B.endFlags.size = B.numStates
  mslots : B.matchSlots.size = B.numStates
  table : B.table.size = B.numStates * stride
  ids : B.nfaToDFA.map (·.2) = idsDown (B.numStates - 1)
  keys : (B.nfaToDFA.map (·.1)).Nodup
  bound : B.numStates ≤ maxStateID + 1
  pos : 1 ≤ B.numStates

theorem WF.id_lt {stride : Nat} {B : Builder} (w : WF stride B) {r sid : Nat} (h : (r, sid) ∈ B.nfaToDFA) :
    sid < B.numStates := by
  have : sid ∈ B.nfaToDFA.map (·.2) := List.mem_map.mpr ⟨(r, sid), h, rfl⟩
  rw [w.ids] at this
  have := mem_idsDown.mp this
  have := w.pos
  omega

theorem WF.id_pos {stride : Nat} {B : Builder} (w : WF stride B) {r sid : Nat} (h : (r, sid) ∈ B.nfaToDFA) :
    1 ≤ sid := by
  have : sid ∈ B.nfaToDFA.map (·.2) := List.mem_map.mpr ⟨(r, sid), h, rfl⟩
  rw [w.ids] at this
  exact (mem_idsDown.mp this).1

theorem WF.ids_inj {stride : Nat} {B : Builder} (w : WF stride B) {r1 r2 sid : Nat} (h1 : (r1, sid) ∈ B.nfaToDFA)
    (h2 : (r2, sid) ∈ B.nfaToDFA) : r1 = r2 := by
  have hnd : (B.nfaToDFA.map (·.2)).Nodup := by rw [w.ids]; exact nodup_idsDown _
  have := nodup_map_inj (·.2) _ hnd _ _ h1 h2 rfl
  exact congrArg Prod.fst this

/-- the row of DFA state `sid` is the one the closure of `root` prescribes (targets by their DFA ids) -/
def RowOK (N : NFA) (cls : Array Nat) (stride : Nat) (B : Builder) (root sid : Nat) : Prop :=
  ∃ c bt, epsClosure N root = some c ∧ byteTrans N cls c.entries = some bt ∧
    B.matchFlags.getD sid false = c.matched ∧ B.endFlags.getD sid false = (c.matched && c.matchEnd) ∧
    B.matchSlots.getD sid 0 = (if c.matched then c.matchMask else 0) ∧
    ∀ cl, cl < stride →
      (bt.getD cl none = none → B.table.getD (sid * stride + cl) deadWord = deadWord) ∧
      (∀ tgt sl mw, bt.getD cl none = some (tgt, sl, mw) → ∃ id, lookup B.nfaToDFA tgt = some id ∧
        B.table.getD (sid * stride + cl) deadWord = Trans.encode ⟨id, mw, sl⟩)

/-- every finished state (root not in the in-progress set `P`) has its row -/
def Done (N : NFA) (cls : Array Nat) (stride : Nat) (B : Builder) (P : Nat → Prop) : Prop :=
  ∀ r sid, (r, sid) ∈ B.nfaToDFA → ¬ P r → RowOK N cls stride B r sid

/-- `B'` extends `B`: more states, the old part of the tables untouched -/
structure Ext (B B' : Builder) : Prop where
  map : ∃ new, B'.nfaToDFA = new ++ B.nfaToDFA
  num : B.numStates ≤ B'.numStates
  table : ∀ i, i < B.table.size → B'.table.getD i deadWord = B.table.getD i deadWord
  flags : ∀ i, i < B.matchFlags.size → B'.matchFlags.getD i false = B.matchFlags.getD i false
  eflags : ∀ i, i < B.endFlags.size → B'.endFlags.getD i false = B.endFlags.getD i false
  mslots : ∀ i, i < B.matchSlots.size → B'.matchSlots.getD i 0 = B.matchSlots.getD i 0
  tsize : B.table.size ≤ B'.table.size

theorem Ext.refl (B : Builder) : Ext B B :=
  ⟨⟨[], rfl⟩, Nat.le_refl _, fun _ _ => rfl, fun _ _ => rfl, fun _ _ => rfl, fun _ _ => rfl, Nat.le_refl _⟩

theorem Ext.trans {A B C : Builder} {stride : Nat} (wA : WF stride A) (wB : WF stride B) (h1 : Ext A B) (h2 : Ext B C) :
    Ext A C := by
  obtain ⟨n1, e1⟩ := h1.map
  obtain ⟨n2, e2⟩ := h2.map
  refine ⟨⟨n2 ++ n1, by rw [e2, e1, List.append_assoc]⟩, Nat.le_trans h1.num h2.num, ?_, ?_, ?_, ?_,
    Nat.le_trans h1.tsize h2.tsize⟩
  · intro i hi
    rw [h2.table i (Nat.lt_of_lt_of_le hi h1.tsize), h1.table i hi]
  · intro i hi
    have : i < B.matchFlags.size := by rw [wB.flags]; rw [wA.flags] at hi; exact Nat.lt_of_lt_of_le hi h1.num
    rw [h2.flags i this, h1.flags i hi]
  · intro i hi
    have : i < B.endFlags.size := by rw [wB.eflags]; rw [wA.eflags] at hi; exact Nat.lt_of_lt_of_le hi h1.num
    rw [h2.eflags i this, h1.eflags i hi]
  · intro i hi
    have : i < B.matchSlots.size := by rw [wB.mslots]; rw [wA.mslots] at hi; exact Nat.lt_of_lt_of_le hi h1.num
    rw [h2.mslots i this, h1.mslots i hi]

theorem Ext.mem {B B' : Builder} (h : Ext B B') {x : Nat × Nat} (hx : x ∈ B.nfaToDFA) : x ∈ B'.nfaToDFA := by
  obtain ⟨n, e⟩ := h.map
  rw [e]; exact List.mem_append_right _ hx

theorem Ext.lookup {B B' : Builder} {stride : Nat} (h : Ext B B') (w' : WF stride B') {k v : Nat}
    (hl : lookup B.nfaToDFA k = some v) : lookup B'.nfaToDFA k = some v :=
  lookup_of_mem w'.keys (h.mem (lookup_mem hl))

theorem RowOK.ext {N : NFA} {cls : Array Nat} {stride : Nat} {B B' : Builder} {r sid : Nat}
    (hr : RowOK N cls stride B r sid) (w : WF stride B) (w' : WF stride B') (he : Ext B B') (hs : sid < B.numStates) :
    RowOK N cls stride B' r sid := by
  obtain ⟨c, bt, h1, h2, h3, h3e, h4, h5⟩ := hr
  refine ⟨c, bt, h1, h2, ?_, ?_, ?_, ?_⟩
  · rw [he.flags sid (by rw [w.flags]; exact hs)]; exact h3
  · rw [he.eflags sid (by rw [w.eflags]; exact hs)]; exact h3e
  · rw [he.mslots sid (by rw [w.mslots]; exact hs)]; exact h4
  · intro cl hcl
    have hidx : sid * stride + cl < B.table.size := by
      rw [w.table]
      have : (sid + 1) * stride ≤ B.numStates * stride := Nat.mul_le_mul_right _ hs
      rw [Nat.add_mul] at this
      omega
    obtain ⟨a1, a2⟩ := h5 cl hcl
    refine ⟨fun hn => by rw [he.table _ hidx]; exact a1 hn, ?_⟩
    intro tgt sl mw hb
    obtain ⟨id, b1, b2⟩ := a2 tgt sl mw hb
    exact ⟨id, he.lookup w' b1, by rw [he.table _ hidx]; exact b2⟩


/-! ### the per-class map only has entries at class values -/

def BtOK (stride : Nat) (bt : BT) : Prop := ∀ cl, stride ≤ cl → bt.getD cl none = none

def ClsOK (cls : Array Nat) (stride : Nat) : Prop := ∀ b, cls.getD b 0 < stride

theorem addByte_btOK {cls : Array Nat} {stride : Nat} (hc : ClsOK cls stride) (info : Info) (bt : Option BT)
    (byte : Nat) (hb : ∀ b, bt = some b → BtOK stride b) :
    ∀ b, addByte cls info bt byte = some b → BtOK stride b := by
  intro b hr
  unfold addByte at hr
  cases bt with
  | none => simp at hr
  | some bt0 =>
    have h0 := hb bt0 rfl
    simp only at hr
    have hset : ∀ v, BtOK stride (bt0.setIfInBounds (cls.getD byte 0) v) := by
      intro v cl hcl
      have hne : cls.getD byte 0 ≠ cl := by have := hc byte; omega
      rw [getD_set_other' _ _ _ _ _ hne]
      exact h0 cl hcl
    split at hr
    · split at hr
      · cases hr
      · simp only [Option.some.injEq] at hr; subst hr; exact hset _
    · simp only [Option.some.injEq] at hr; subst hr; exact hset _

theorem foldl_btOK {α : Type} {stride : Nat} (f : Option BT → α → Option BT)
    (hf : ∀ bt x, (∀ b, bt = some b → BtOK stride b) → ∀ b, f bt x = some b → BtOK stride b) :
    ∀ (L : List α) (bt : Option BT), (∀ b, bt = some b → BtOK stride b) →
      ∀ b, L.foldl f bt = some b → BtOK stride b := by
  intro L
  induction L with
  | nil => intro bt h b hb; exact h b hb
  | cons x L ih => intro bt h b hb; exact ih (f bt x) (hf bt x h) b hb

theorem addRange_btOK {cls : Array Nat} {stride : Nat} (hc : ClsOK cls stride) (lo hi : Nat) (info : Info)
    (bt : Option BT) (hb : ∀ b, bt = some b → BtOK stride b) :
    ∀ b, addRange cls lo hi info bt = some b → BtOK stride b := by
  unfold addRange
  exact foldl_btOK _ (fun bt x h => addByte_btOK hc info bt x h) _ bt hb

theorem stepEntry_btOK {N : NFA} {cls : Array Nat} {stride : Nat} (hc : ClsOK cls stride) (bt0 : Option BT) (e : CEntry)
    (h0 : ∀ b, bt0 = some b → BtOK stride b) : ∀ b, stepEntry N cls bt0 e = some b → BtOK stride b := by
  intro b hb
  unfold stepEntry at hb
  split at hb
  · exact h0 b hb
  · split at hb
    · exact addRange_btOK hc _ _ _ bt0 h0 b hb
    · exact foldl_btOK _ (fun bt x h => addRange_btOK hc _ _ _ bt h) _ bt0 h0 b hb
    · exact h0 b hb

theorem byteTrans_btOK {N : NFA} {cls : Array Nat} {stride : Nat} (hc : ClsOK cls stride) (c : List CEntry) (bt : BT)
    (h : byteTrans N cls c = some bt) : BtOK stride bt := by
  unfold byteTrans at h
  refine foldl_btOK _ (fun bt0 e h0 => stepEntry_btOK hc bt0 e h0) c _ ?_ bt h
  intro b hb
  simp only [Option.some.injEq] at hb
  subst hb
  intro cl _
  simp only [Array.getD_eq_getD_getElem?, Array.getElem?_replicate]
  split <;> rfl


theorem row_idx_inj {a b st i j : Nat} (he : a * st + i = b * st + j) (hi : i < st) (hj : j < st) :
    a = b ∧ i = j := by
  have hst : 0 < st := by omega
  have h1 := congrArg (· / st) he
  simp only [Nat.mul_comm _ st, Nat.mul_add_div hst, Nat.div_eq_of_lt hi, Nat.div_eq_of_lt hj, Nat.add_zero] at h1
  subst h1
  exact ⟨rfl, by omega⟩

/-! ### `buildState` -/

/-- one entry of the row under construction (the row starts at `startIdx`) -/
def EntryOK (bt : BT) (startIdx : Nat) (B : Builder) (cl : Nat) : Prop :=
  (bt.getD cl none = none → B.table.getD (startIdx + cl) deadWord = deadWord) ∧
  (∀ tgt sl mw, bt.getD cl none = some (tgt, sl, mw) → ∃ id, lookup B.nfaToDFA tgt = some id ∧
    B.table.getD (startIdx + cl) deadWord = Trans.encode ⟨id, mw, sl⟩)

structure LoopInv (N : NFA) (cls : Array Nat) (stride : Nat) (P' : Nat → Prop) (B : Builder) (bt : BT)
    (root sid : Nat) (isMatch isEnd : Bool) (mval : Nat) (S : Nat → Prop) (Bk : Builder) : Prop where
  wf : WF stride Bk
  ext : Ext B Bk
  mem : (root, sid) ∈ Bk.nfaToDFA
  done : Done N cls stride Bk P'
  flag : Bk.matchFlags.getD sid false = isMatch
  eflag : Bk.endFlags.getD sid false = isEnd
  mslot : Bk.matchSlots.getD sid 0 = mval
  rowsz : B.table.size + stride ≤ Bk.table.size
  row : ∀ cl, cl < stride → (S cl → EntryOK bt B.table.size Bk cl) ∧
    (¬ S cl → Bk.table.getD (B.table.size + cl) deadWord = deadWord)

def Spec (N : NFA) (cls : Array Nat) (stride : Nat) (clsL : List Nat) (fuel : Nat) : Prop :=
  ∀ (B : Builder) (root : Nat) (P : Nat → Prop) (B' : Builder) (sid : Nat),
    buildState N cls stride clsL fuel B root = some (B', sid) → WF stride B → Done N cls stride B P →
    (∀ r, P r → ∃ s, (r, s) ∈ B.nfaToDFA) →
    WF stride B' ∧ Ext B B' ∧ lookup B'.nfaToDFA root = some sid ∧ Done N cls stride B' P

theorem foldl_rowStep_none (rec : Builder → Nat → Option (Builder × Nat)) (startIdx : Nat) (bt : BT) (L : List Nat) :
    L.foldl (rowStep rec startIdx bt) none = none := by
  induction L with
  | nil => rfl
  | cons x L ih => simp only [List.foldl_cons, rowStep]; exact ih

theorem rowLoop_spec {N : NFA} {cls : Array Nat} {stride : Nat} {clsL : List Nat} {fuel : Nat} (IH : Spec N cls stride clsL fuel)
    {P : Nat → Prop} {B : Builder} (wB : WF stride B) (hP : ∀ r, P r → ∃ s, (r, s) ∈ B.nfaToDFA)
    {bt : BT} (hbt : BtOK stride bt) {root sid : Nat} (hsid : sid = B.numStates) {isMatch isEnd : Bool} {mval : Nat} :
    ∀ (L : List Nat) (S : Nat → Prop) (Bk Bf : Builder),
      L.foldl (rowStep (buildState N cls stride clsL fuel) B.table.size bt) (some Bk) = some Bf →
      LoopInv N cls stride (fun r => P r ∨ r = root) B bt root sid isMatch isEnd mval S Bk →
      LoopInv N cls stride (fun r => P r ∨ r = root) B bt root sid isMatch isEnd mval (fun cl => S cl ∨ cl ∈ L) Bf := by
  intro L
  induction L with
  | nil =>
    intro S Bk Bf hf inv
    simp only [List.foldl_nil, Option.some.injEq] at hf
    subst hf
    have : (fun cl => S cl ∨ cl ∈ ([] : List Nat)) = S := by funext cl; simp
    rw [this]; exact inv
  | cons x L ih =>
    intro S Bk Bf hf inv
    simp only [List.foldl_cons] at hf
    have hS : (fun cl => S cl ∨ cl ∈ x :: L) = (fun cl => (S cl ∨ cl = x) ∨ cl ∈ L) := by
      funext cl; simp only [List.mem_cons, or_assoc]
    rw [hS]
    cases hb : bt.getD x none with
    | none =>
      have hstep : rowStep (buildState N cls stride clsL fuel) B.table.size bt (some Bk) x = some Bk := by
        simp only [rowStep, hb]
      rw [hstep] at hf
      refine ih _ Bk Bf hf ⟨inv.wf, inv.ext, inv.mem, inv.done, inv.flag, inv.eflag, inv.mslot, inv.rowsz, ?_⟩
      intro cl hcl
      obtain ⟨r1, r2⟩ := inv.row cl hcl
      refine ⟨?_, fun hn => r2 (fun h => hn (Or.inl h))⟩
      rintro (h1 | rfl)
      · exact r1 h1
      · by_cases hs : S cl
        · exact r1 hs
        · exact ⟨fun _ => r2 hs, fun tgt sl mw he => by rw [hb] at he; cases he⟩
    | some ts =>
      obtain ⟨tgt, sl, mw⟩ := ts
      have hxlt : x < stride := by
        cases Nat.lt_or_ge x stride with
        | inl h => exact h
        | inr h => have := hbt x h; rw [hb] at this; cases this
      cases hrec : buildState N cls stride clsL fuel Bk tgt with
      | none =>
        have hstep : rowStep (buildState N cls stride clsL fuel) B.table.size bt (some Bk) x = none := by
          simp only [rowStep, hb, hrec]
        rw [hstep, foldl_rowStep_none] at hf
        cases hf
      | some res =>
        obtain ⟨Bk1, id⟩ := res
        have hP' : ∀ r, (P r ∨ r = root) → ∃ s, (r, s) ∈ Bk.nfaToDFA := by
          rintro r (h1 | rfl)
          · obtain ⟨s, hs⟩ := hP r h1; exact ⟨s, inv.ext.mem hs⟩
          · exact ⟨sid, inv.mem⟩
        obtain ⟨w1, e1, l1, d1⟩ := IH Bk tgt _ Bk1 id hrec inv.wf inv.done hP'
        have hidx : B.table.size + x < Bk1.table.size := by
          have := inv.rowsz; have := e1.tsize; omega
        have hstep : rowStep (buildState N cls stride clsL fuel) B.table.size bt (some Bk) x =
            some { Bk1 with table := Bk1.table.setIfInBounds (B.table.size + x) (Trans.encode ⟨id, mw, sl⟩) } := by
          simp only [rowStep, hb, hrec]
          rw [if_neg (by omega)]
        rw [hstep] at hf
        have hstart : B.table.size = sid * stride := by rw [wB.table, hsid]
        have hsidlt : sid < Bk.numStates := inv.wf.id_lt inv.mem
        -- the new builder
        have w2 : WF stride { Bk1 with table := Bk1.table.setIfInBounds (B.table.size + x) (Trans.encode ⟨id, mw, sl⟩) } :=
          ⟨w1.flags, w1.eflags, w1.mslots, by simpa using w1.table, w1.ids, w1.keys, w1.bound, w1.pos⟩
        have hsid1 : (root, sid) ∈ Bk1.nfaToDFA := e1.mem inv.mem
        have hrow_ne : ∀ s cl', s ≠ sid → cl' < stride → B.table.size + x ≠ s * stride + cl' := by
          intro s cl' hne hcl' he
          rw [hstart] at he
          exact hne (row_idx_inj he.symm hcl' hxlt).1
        refine ih _ _ Bf hf ⟨w2, ?_, hsid1, ?_, ?_, ?_, ?_, ?_, ?_⟩
        · -- Ext B Bk2
          have e01 := Ext.trans wB inv.wf inv.ext e1
          refine ⟨e01.map, e01.num, ?_, e01.flags, e01.eflags, e01.mslots, by simpa using e01.tsize⟩
          intro i hi
          simp only
          rw [getD_set_other' _ _ _ _ _ (by omega), e01.table i hi]
        · -- Done
          intro r s hrs hnp
          have hr1 := d1 r s hrs hnp
          have hne : s ≠ sid := by
            intro he
            subst he
            exact hnp (Or.inr (w1.ids_inj hrs hsid1))
          obtain ⟨c, bt', q1, q2, q3, q3e, q4, q5⟩ := hr1
          refine ⟨c, bt', q1, q2, q3, q3e, q4, ?_⟩
          intro cl' hcl'
          simp only
          rw [getD_set_other' _ _ _ _ _ (hrow_ne s cl' hne hcl')]
          exact q5 cl' hcl'
        · show Bk1.matchFlags.getD sid false = isMatch
          rw [e1.flags sid (by rw [inv.wf.flags]; exact hsidlt)]; exact inv.flag
        · show Bk1.endFlags.getD sid false = isEnd
          rw [e1.eflags sid (by rw [inv.wf.eflags]; exact hsidlt)]; exact inv.eflag
        · show Bk1.matchSlots.getD sid 0 = mval
          rw [e1.mslots sid (by rw [inv.wf.mslots]; exact hsidlt)]; exact inv.mslot
        · show B.table.size + stride ≤ (Bk1.table.setIfInBounds _ _).size
          have := inv.rowsz; have := e1.tsize; simp; omega
        · intro cl hcl
          have hcl_lt : B.table.size + cl < Bk.table.size := by have := inv.rowsz; omega
          obtain ⟨r1, r2⟩ := inv.row cl hcl
          by_cases hx : cl = x
          · subst hx
            refine ⟨fun _ => ⟨(fun hn => by rw [hb] at hn; cases hn), ?_⟩, fun hn => absurd (Or.inr rfl) hn⟩
            intro tgt' sl' mw' he
            rw [hb] at he
            simp only [Option.some.injEq, Prod.mk.injEq] at he
            obtain ⟨rfl, rfl, rfl⟩ := he
            exact ⟨id, l1, getD_set_self' _ _ _ _ hidx⟩
          · have hne : B.table.size + x ≠ B.table.size + cl := by omega
            refine ⟨?_, ?_⟩
            · rintro (hs | hs)
              · obtain ⟨t1, t2⟩ := r1 hs
                refine ⟨fun hn => ?_, fun tgt' sl' mw' he => ?_⟩
                · show (Bk1.table.setIfInBounds _ _).getD _ _ = _
                  rw [getD_set_other' _ _ _ _ _ hne, e1.table _ hcl_lt]; exact t1 hn
                · obtain ⟨id', u1, u2⟩ := t2 tgt' sl' mw' he
                  refine ⟨id', e1.lookup w1 u1, ?_⟩
                  show (Bk1.table.setIfInBounds _ _).getD _ _ = _
                  rw [getD_set_other' _ _ _ _ _ hne, e1.table _ hcl_lt]; exact u2
              · exact absurd hs hx
            · intro hn
              show (Bk1.table.setIfInBounds _ _).getD _ _ = _
              rw [getD_set_other' _ _ _ _ _ hne, e1.table _ hcl_lt]
              exact r2 (fun h => hn (Or.inl h))


theorem idsDown_succ_of_pos {k : Nat} (hk : 1 ≤ k) : idsDown (k + 1 - 1) = k :: idsDown (k - 1) := by
  obtain ⟨j, rfl⟩ : ∃ j, k = j + 1 := ⟨k - 1, by omega⟩
  simp [idsDown]

/-- the builder right after `addState` and the memo entry -/
theorem wf_alloc {stride : Nat} {B : Builder} (wB : WF stride B) (root : Nat) (m me : Bool) (mm : Nat)
    (hkey : ∀ v, (root, v) ∉ B.nfaToDFA) (hbound : ¬ B.numStates > maxStateID) :
    WF stride { addState B stride m me mm with nfaToDFA := (root, B.numStates) :: B.nfaToDFA } := by
  refine ⟨by simp [addState, wB.flags], by simp [addState, wB.eflags], by simp [addState, wB.mslots], ?_, ?_, ?_, ?_, ?_⟩
  · simp only [addState, Array.size_append, Array.size_replicate, wB.table, Nat.add_mul, Nat.one_mul]
  · simp only [addState, List.map_cons, wB.ids]
    exact (idsDown_succ_of_pos wB.pos).symm
  · simp only [addState, List.map_cons, List.nodup_cons]
    refine ⟨?_, wB.keys⟩
    intro hmem
    obtain ⟨⟨k, v⟩, h1, h2⟩ := List.mem_map.mp hmem
    simp only at h2
    subst h2
    exact hkey v h1
  · simp only [addState]; omega
  · simp only [addState]; omega

theorem ext_alloc {stride : Nat} (B : Builder) (root : Nat) (m me : Bool) (mm : Nat) :
    Ext B { addState B stride m me mm with nfaToDFA := (root, B.numStates) :: B.nfaToDFA } :=
  ⟨⟨[(root, B.numStates)], rfl⟩, Nat.le_succ _, fun i hi => getD_append_left _ _ _ _ hi,
    fun i hi => getD_push_lt _ _ _ _ hi, fun i hi => getD_push_lt _ _ _ _ hi, fun i hi => getD_push_lt _ _ _ _ hi,
    by simp [addState]⟩

theorem spec_all (N : NFA) (cls : Array Nat) (stride : Nat) (hc : ClsOK cls stride) (clsL : List Nat)
    (hall : ∀ cl, cl < stride → cl ∈ clsL) : ∀ fuel, Spec N cls stride clsL fuel := by
  intro fuel
  induction fuel with
  | zero => intro B root P B' sid hb; rw [buildState] at hb; cases hb
  | succ fuel ih =>
    intro B root P B' sid hb wB dB hP
    rw [buildState] at hb
    cases hl : lookup B.nfaToDFA root with
    | some s =>
      rw [hl] at hb
      simp only [Option.some.injEq, Prod.mk.injEq] at hb
      obtain ⟨rfl, rfl⟩ := hb
      exact ⟨wB, Ext.refl _, hl, dB⟩
    | none =>
      rw [hl] at hb
      simp only at hb
      cases hcl : epsClosure N root with
      | none => rw [hcl] at hb; cases hb
      | some c =>
        rw [hcl] at hb
        simp only at hb
        split at hb
        · cases hb
        · rename_i hbound
          cases hbt : byteTrans N cls c.entries with
          | none => rw [hbt] at hb; cases hb
          | some bt =>
            rw [hbt] at hb
            simp only at hb
            split at hb
            · cases hb
            · rename_i Bf hfold
              simp only [Option.some.injEq, Prod.mk.injEq] at hb
              obtain ⟨rfl, rfl⟩ := hb
              have hkey : ∀ v, (root, v) ∉ B.nfaToDFA := lookup_none_not_mem hl
              have w0 := wf_alloc wB root c.matched c.matchEnd c.matchMask hkey hbound
              have e0 := ext_alloc (stride := stride) B root c.matched c.matchEnd c.matchMask
              have inv0 : LoopInv N cls stride (fun r => P r ∨ r = root) B bt root B.numStates c.matched
                  (c.matched && c.matchEnd) (if c.matched = true then c.matchMask else 0) (fun _ => False)
                  { addState B stride c.matched c.matchEnd c.matchMask with
                    nfaToDFA := (root, B.numStates) :: B.nfaToDFA } := by
                refine ⟨w0, e0, List.mem_cons_self, ?_, ?_, ?_, ?_, by simp [addState], ?_⟩
                · intro r s hrs hnp
                  rcases List.mem_cons.mp hrs with h1 | h1
                  · simp only [Prod.mk.injEq] at h1
                    exact absurd (Or.inr h1.1) hnp
                  · exact (dB r s h1 (fun hp => hnp (Or.inl hp))).ext wB w0 e0 (wB.id_lt h1)
                · show (B.matchFlags.push c.matched).getD B.numStates false = c.matched
                  rw [← wB.flags]; exact getD_push_eq _ _ _
                · show (B.endFlags.push _).getD B.numStates false = _
                  rw [← wB.eflags]; exact getD_push_eq _ _ _
                · show (B.matchSlots.push _).getD B.numStates 0 = _
                  rw [← wB.mslots]; exact getD_push_eq _ _ _
                · intro cl hcl
                  refine ⟨fun hf => hf.elim, fun _ => ?_⟩
                  exact getD_append_replicate _ _ _ _ _ (by omega) (by omega)
              have invf := rowLoop_spec ih wB hP (byteTrans_btOK hc c.entries bt hbt) rfl clsL _ _ _ hfold inv0
              refine ⟨invf.wf, invf.ext, lookup_of_mem invf.wf.keys invf.mem, ?_⟩
              intro r s hrs hnp
              by_cases hr : r = root
              · subst hr
                have h1 := lookup_of_mem invf.wf.keys hrs
                have h2 := lookup_of_mem invf.wf.keys invf.mem
                rw [h1] at h2
                simp only [Option.some.injEq] at h2
                subst h2
                refine ⟨c, bt, hcl, hbt, invf.flag, invf.eflag, invf.mslot, ?_⟩
                intro cl hcl'
                have hS : (False ∨ cl ∈ clsL) := Or.inr (hall cl hcl')
                have := (invf.row cl hcl').1 hS
                rw [wB.table] at this
                exact this
              · exact invf.done r s hrs (fun hp => hp.elim hnp hr)

/-! ### byte classes stay below the stride -/

theorem classOf_mono (N : NFA) {a b : Nat} (hab : a ≤ b) : classOf N a ≤ classOf N b := by
  unfold classOf
  obtain ⟨k, rfl⟩ : ∃ k, b = a + k := ⟨b - a, by omega⟩
  rw [List.range_add, List.filter_append, List.length_append]
  omega

theorem classOf_le (N : NFA) (b : Nat) : classOf N b ≤ b := by
  unfold classOf
  have := List.length_filter_le (isBoundary N) (List.range b)
  simpa using this

theorem le_nextPow2 {n : Nat} (hn : n ≤ 256) : n ≤ nextPow2 n := by
  unfold nextPow2
  repeat' split
  all_goals omega

theorem nextPow2_le (n : Nat) : nextPow2 n ≤ 256 := by
  unfold nextPow2
  repeat' split
  all_goals omega

theorem classOf_succ (N : NFA) (b : Nat) : classOf N (b+1) = classOf N b + (if isBoundary N b then 1 else 0) := by
  unfold classOf
  rw [List.range_succ, List.filter_append, List.length_append]
  by_cases hb : isBoundary N b = true <;> simp [List.filter, hb]

theorem classesFrom_get (N : NFA) : ∀ (fuel b k : Nat), k < fuel →
    (classesFrom N fuel b (classOf N b))[k]? = some (classOf N (b + k)) := by
  intro fuel
  induction fuel with
  | zero => intro b k hk; omega
  | succ fuel ih =>
    intro b k hk
    rw [classesFrom]
    cases k with
    | zero => simp
    | succ k =>
      simp only [List.getElem?_cons_succ]
      have : (if isBoundary N b = true then classOf N b + 1 else classOf N b) = classOf N (b+1) := by
        rw [classOf_succ]; split <;> rfl
      rw [this, ih (b+1) k (by omega)]
      congr 2; omega

theorem classesFrom_length (N : NFA) : ∀ (fuel b cl : Nat), (classesFrom N fuel b cl).length = fuel := by
  intro fuel
  induction fuel with
  | zero => intro b cl; rfl
  | succ fuel ih => intro b cl; simp [classesFrom, ih]

theorem classTable_getD (N : NFA) (b : Nat) : (classTable N).getD b 0 = if b < 256 then classOf N b else 0 := by
  unfold classTable
  simp only [Array.getD_eq_getD_getElem?, List.getElem?_toArray]
  have h0 : classOf N 0 = 0 := by simp [classOf]
  split
  · rename_i hb
    have := classesFrom_get N 256 0 b hb
    rw [h0] at this
    rw [this]; simp
  · rename_i hb
    rw [List.getElem?_eq_none (by rw [classesFrom_length]; omega)]
    rfl

theorem clsOK_classTable (N : NFA) : ClsOK (classTable N) (nextPow2 (alphabetLen N)) := by
  intro b
  rw [classTable_getD]
  have h255 := classOf_le N 255
  have hle : alphabetLen N ≤ nextPow2 (alphabetLen N) := le_nextPow2 (by unfold alphabetLen; omega)
  unfold alphabetLen at hle ⊢
  split
  · have := classOf_mono N (a := b) (b := 255) (by omega)
    omega
  · omega


/-! ### the 64-bit transition word -/

theorem wNext_encode (id sl : Nat) (mw : Bool) (hid : id < 2^21) : wNext (Trans.encode ⟨id, mw, sl⟩) = id := by
  unfold wNext Trans.encode
  have hs : sl % 2^32 < 2^32 := Nat.mod_lt _ (by decide)
  rw [Nat.mod_eq_of_lt hid]
  cases mw <;> simp only [Bool.false_eq_true, ↓reduceIte, Nat.add_zero, Nat.reducePow] at hs hid ⊢ <;> omega

theorem wMatchWins_encode (id sl : Nat) (mw : Bool) : wMatchWins (Trans.encode ⟨id, mw, sl⟩) = mw := by
  unfold wMatchWins Trans.encode
  have hs : sl % 2^32 < 2^32 := Nat.mod_lt _ (by decide)
  cases mw
  · simp only [Bool.false_eq_true, ↓reduceIte, Nat.add_zero, Nat.reducePow, decide_eq_false_iff_not] at hs ⊢
    omega
  · simp only [↓reduceIte, Nat.reducePow, decide_eq_true_eq] at hs ⊢
    omega

theorem wSlots_encode (id sl : Nat) (mw : Bool) : wSlots (Trans.encode ⟨id, mw, sl⟩) = sl % 2^32 := by
  unfold wSlots Trans.encode
  have hs : sl % 2^32 < 2^32 := Nat.mod_lt _ (by decide)
  cases mw <;> simp only [Bool.false_eq_true, ↓reduceIte, Nat.add_zero, Nat.reducePow] at hs ⊢ <;> omega

theorem applyMask_mod (sl pos : Nat) (slots : Slots) : applyMask (sl % 2^32) pos slots = applyMask sl pos slots := by
  unfold applyMask
  have : ∀ (L : List Nat), (∀ i ∈ L, i < 32) → ∀ (acc : Slots),
      L.foldl (fun sl' i => if (sl % 2^32).testBit i then sl'.set i (pos : Int) else sl') acc =
      L.foldl (fun sl' i => if sl.testBit i then sl'.set i (pos : Int) else sl') acc := by
    intro L
    induction L with
    | nil => intro _ acc; rfl
    | cons x L ih =>
      intro hL acc
      have hx : x < 32 := hL x List.mem_cons_self
      simp only [List.foldl_cons]
      rw [Nat.testBit_mod_two_pow]
      simp only [hx, decide_true, Bool.true_and]
      exact ih (fun i hi => hL i (List.mem_cons_of_mem _ hi)) _
  exact this _ (by intro i hi; simpa using hi) _

theorem wDead_dead : wDead deadWord = true := by decide


/-! ### `search` on the built table is the numbering-free run -/

theorem run_sim {N : NFA} {cls : Array Nat} {stride : Nat} {b : Builder} (wf : WF stride b)
    (dn : Done N cls stride b (fun _ => False))
    (hcls : ClsOK cls stride) (h : Bytes) (longest : Bool) {T : Table} (hT1 : T.stride = stride) (hT2 : T.table = b.table)
    (hT3 : T.matchStates = b.matchFlags) (hT3e : T.endMatches = b.endFlags) (hT4 : T.matchSlots = b.matchSlots)
    (hT5 : T.classes = cls) :
    ∀ (fuel pos root id : Nat) (slots : Slots) (best : Option Slots), lookup b.nfaToDFA root = some id →
      searchLoop T h longest fuel pos id slots best = orun N cls h longest fuel pos root slots best := by
  intro fuel
  induction fuel with
  | zero => intro pos root id slots best _; rfl
  | succ fuel ih =>
    intro pos root id slots best hl
    have hmem := lookup_mem hl
    obtain ⟨c, bt, q1, q2, q3, q3e, q4, q5⟩ := dn root id hmem (fun hf => hf)
    have hidlt := wf.id_lt hmem
    rw [searchLoop, orun, q1]
    simp only []
    have hrec : ∀ p, recordMatch T id p slots =
        spanSlots p (applyMask (if c.matched = true then c.matchMask else 0) p slots) := by
      intro p; unfold recordMatch; rw [hT4, q4]
    by_cases hp : pos < h.size
    · rw [if_pos hp, if_pos hp, q2]
      simp only []
      have hcl := hcls (h.at pos)
      rw [hT5, hT3, hT3e, q3, q3e, hrec]
      obtain ⟨r1, r2⟩ := q5 _ hcl
      have hidx : id * stride + cls.getD (h.at pos) 0 < b.table.size := by
        rw [wf.table]
        have : (id + 1) * stride ≤ b.numStates * stride := Nat.mul_le_mul_right _ hidlt
        rw [Nat.add_mul] at this
        omega
      have hget : getTransition T id (cls.getD (h.at pos) 0) =
          b.table.getD (id * stride + cls.getD (h.at pos) 0) deadWord := by
        unfold getTransition
        simp only [hT1, hT2]
        rw [if_neg (by omega)]
      rw [hget]
      cases hb : bt.getD (cls.getD (h.at pos) 0) none with
      | none =>
        rw [r1 hb]
        simp only [wDead_dead, ↓reduceIte]
        have : wMatchWins deadWord = false := by decide
        rw [this]
        simp
      | some ts =>
        obtain ⟨tgt, sl, mw⟩ := ts
        obtain ⟨id', u1, u2⟩ := r2 tgt sl mw hb
        have hid'lt : id' < 2^21 := by
          have := wf.id_lt (lookup_mem u1)
          have := wf.bound
          simp only [maxStateID] at this
          omega
        have hid'pos : id' ≠ 0 := by
          have := wf.id_pos (lookup_mem u1)
          omega
        rw [u2]
        simp only [wDead, wNext_encode _ _ _ hid'lt, wMatchWins_encode, wSlots_encode, applyMask_mod, hid'pos,
          decide_false, Bool.false_eq_true, ↓reduceIte]
        split
        · rfl
        · exact ih (pos+1) tgt id' _ _ u1
    · rw [if_neg hp, if_neg hp, hT3, q3, hrec]

theorem wf_init (stride : Nat) : WF stride (addState emptyBuilder stride false false 0) :=
  ⟨rfl, rfl, rfl, by simp [addState, emptyBuilder], rfl, List.nodup_nil, by simp [addState, emptyBuilder, maxStateID],
    by simp [addState, emptyBuilder]⟩

/-- what a successful `build` went through -/
theorem build_inv {N : NFA} {T : Table} (hb : build N = some T) :
    isOnePass N = true ∧ N.states.size ≤ invalidState ∧
    ∃ b start, buildState N (classTable N) (nextPow2 (alphabetLen N)) (List.range 256) (N.states.size + 2)
        (addState emptyBuilder (nextPow2 (alphabetLen N)) false false 0) N.startAnchored = some (b, start) ∧
      T = { stride := nextPow2 (alphabetLen N), table := b.table, startState := start, matchStates := b.matchFlags,
            endMatches := b.endFlags, matchSlots := b.matchSlots, classes := classTable N } := by
  unfold build at hb
  split at hb
  · cases hb
  · rename_i h1
    split at hb
    · cases hb
    · rename_i h2
      simp only at hb
      split at hb
      · cases hb
      · rename_i b start hbs
        simp only [Option.some.injEq] at hb
        refine ⟨by simpa using h1, by omega, b, start, hbs, hb.symm⟩

theorem build_spec {N : NFA} {b : Builder} {start : Nat}
    (hbs : buildState N (classTable N) (nextPow2 (alphabetLen N)) (List.range 256) (N.states.size + 2)
        (addState emptyBuilder (nextPow2 (alphabetLen N)) false false 0) N.startAnchored = some (b, start)) :
    WF (nextPow2 (alphabetLen N)) b ∧ lookup b.nfaToDFA N.startAnchored = some start ∧
    Done N (classTable N) (nextPow2 (alphabetLen N)) b (fun _ => False) := by
  have hcls := clsOK_classTable N
  have hspec := spec_all N (classTable N) (nextPow2 (alphabetLen N)) hcls (List.range 256)
    (by intro cl hcl; have := nextPow2_le (alphabetLen N); simp; omega) (N.states.size + 2)
    _ N.startAnchored (fun _ => False) b start hbs (wf_init _)
    (fun r s hrs => by simp [addState, emptyBuilder] at hrs) (fun r hr => hr.elim)
  exact ⟨hspec.1, hspec.2.2.1, hspec.2.2.2⟩

/-- the DFA that `build` produces computes `orun`: the run over NFA roots, closures and per-class transitions -/
theorem searchLoop_eq_orun {N : NFA} {T : Table} (hb : build N = some T) (h : Bytes) (n : Nat) (longest : Bool) :
    searchLoop T h longest (h.size + 1) 0 T.startState (unset n) none = orunSearch N h n longest := by
  obtain ⟨_, _, b, start, hbs, rfl⟩ := build_inv hb
  obtain ⟨w, l, d⟩ := build_spec hbs
  unfold orunSearch
  exact run_sim w d (clsOK_classTable N) h longest rfl rfl rfl rfl rfl rfl _ _ _ _ _ _ l

theorem search_eq_orun {N : NFA} {T : Table} (hb : build N = some T) (h : Bytes) (n : Nat) :
    search T h n = orunSearch N h n false := searchLoop_eq_orun hb h n false

theorem searchLongest_eq_orun {N : NFA} {T : Table} (hb : build N = some T) (h : Bytes) (n : Nat) :
    searchLongest T h n = orunSearch N h n true := searchLoop_eq_orun hb h n true

/-- the roots that `build` visited: each has a closure and a transition map whose targets were visited too -/
theorem build_closed {N : NFA} {T : Table} (hb : build N = some T) :
    ∃ Built : Nat → Prop, Built N.startAnchored ∧
      ∀ r, Built r → ∃ c bt, epsClosure N r = some c ∧ byteTrans N (classTable N) c.entries = some bt ∧
        ∀ cl tgt sl mw, bt.getD cl none = some (tgt, sl, mw) → Built tgt := by
  obtain ⟨_, _, b, start, hbs, rfl⟩ := build_inv hb
  obtain ⟨w, l, d⟩ := build_spec hbs
  have hcls := clsOK_classTable N
  refine ⟨fun r => ∃ id, lookup b.nfaToDFA r = some id, ⟨start, l⟩, ?_⟩
  rintro r ⟨id, hl⟩
  obtain ⟨c, bt, q1, q2, _, _, _, q5⟩ := d r id (lookup_mem hl) (fun hf => hf)
  refine ⟨c, bt, q1, q2, ?_⟩
  intro cl tgt sl mw hbt
  have hlt : cl < nextPow2 (alphabetLen N) := by
    cases Nat.lt_or_ge cl (nextPow2 (alphabetLen N)) with
    | inl h => exact h
    | inr h => have := byteTrans_btOK hcls c.entries bt q2 cl h; rw [hbt] at this; cases this
  obtain ⟨id', u1, _⟩ := (q5 cl hlt).2 tgt sl mw hbt
  exact ⟨id', u1⟩

end Cx.Caps.OnePass
