import Cx.Proofs.CompositeSimRun
import Cx.Proofs.Fast
/-
  Cx.Proofs.CompositeSimTables — what `buildTables` computes.

  * `cloList`: the closure of a configuration as a pure list (`closureLoop_eq`: the flat-array loop appends exactly it);
  * `buildTables_entry`: the table entry of configuration `(i, c)` (id `numConfigs parts[:i] + c`) holds the class of part
    `i` and the closure of `(i, min (c+1) cap)`; `buildTables_start`: the start closure is the closure of `(0, 0)`;
  * `tablesOK`: ids in range, tail-determinacy, start bytes — the hypotheses of Cx.Proofs.CompositeSimRun;
  * `startVal_eq_matchFrom`: the priority semantics of the tables IS the greedy backtracking matcher of the old model
    (`CompositeSearcher.matchFrom`), hence `later_eq_searchLoop`.
-/
namespace Cx.CompSim
open Cx Cx.Fast CompositeSim

/-! ## closures as pure lists -/

/-- `closureOf(i, count)` as a pure function: the ids it appends, and `matches` (`ps = parts[i:]`, `o = offset[i]`) -/
def cloList : List CharClassPart → Nat → Nat → List Nat × Bool
  | [], _, _ => ([], true)
  | q :: qs, o, c =>
    let hd := if canConsume q c then [o + c] else []
    if c < q.minMatch then (hd, false) else (hd ++ (cloList qs (o + countCap q + 1) 0).1, (cloList qs (o + countCap q + 1) 0).2)

theorem closureLoop_eq : ∀ (ps : List CharClassPart) (o c : Nat) (clo : Array Nat),
    (closureLoop ps o c clo).1.toList = clo.toList ++ (cloList ps o c).1 ∧ (closureLoop ps o c clo).2 = (cloList ps o c).2 := by
  intro ps
  induction ps with
  | nil => intro o c clo; simp [closureLoop, cloList]
  | cons q qs ih =>
    intro o c clo
    rw [closureLoop, cloList]
    by_cases hlt : c < q.minMatch
    · rw [if_pos hlt, if_pos hlt]
      by_cases hcc : canConsume q c = true
      · simp [hcc]
      · simp [hcc]
    · rw [if_neg hlt, if_neg hlt]
      obtain ⟨i1, i2⟩ := ih (o + countCap q + 1) 0 (if canConsume q c = true then clo.push (o + c) else clo)
      refine ⟨?_, i2⟩
      rw [i1]
      by_cases hcc : canConsume q c = true
      · simp [hcc]
      · simp [hcc]

/-- `entered`: `min (count + 1) limit` -/
def bump (q : CharClassPart) (c : Nat) : Nat := if c + 1 > countCap q then countCap q else c + 1

theorem bump_le (q : CharClassPart) (c : Nat) : bump q c ≤ countCap q := by unfold bump; split <;> omega

/-! ## the configuration table -/

/-- the slice `cl[a:b]` -/
def slice (l : List Nat) (a b : Nat) : List Nat := (l.drop a).take (b - a)

theorem slice_append (l e : List Nat) (a b : Nat) (hab : a ≤ b) (hb : b ≤ l.length) : slice (l ++ e) a b = slice l a b := by
  unfold slice
  rw [List.drop_append_of_le_length (by omega), List.take_append_of_le_length (by rw [List.length_drop]; omega)]

theorem slice_mid (l x : List Nat) : slice (l ++ x) l.length (l.length + x.length) = x := by
  unfold slice
  rw [List.drop_left' rfl, show l.length + x.length - l.length = x.length by omega, List.take_length]

/-- entry `id` of `cf` describes part `q` and the closure `X` -/
def EntryOK (cf : Array Config) (cl : Array Nat) (id : Nat) (q : CharClassPart) (X : List Nat × Bool) : Prop :=
  ∃ c, cf[id]? = some c ∧ c.cls = q.membership ∧ c.next ≤ c.nextEnd ∧ c.nextEnd ≤ cl.size ∧
    slice cl.toList c.next c.nextEnd = X.1 ∧ c.nextMatches = X.2

/-- the tables only grow -/
def Ext (cf : Array Config) (cl : Array Nat) (cf' : Array Config) (cl' : Array Nat) : Prop :=
  (∀ id, id < cf.size → cf'[id]? = cf[id]?) ∧ cf.size ≤ cf'.size ∧ ∃ e, cl'.toList = cl.toList ++ e

theorem Ext.refl (cf : Array Config) (cl : Array Nat) : Ext cf cl cf cl :=
  ⟨fun _ _ => rfl, Nat.le_refl _, [], by simp⟩

theorem Ext.trans {cf cl cf1 cl1 cf2 cl2} (h1 : Ext cf cl cf1 cl1) (h2 : Ext cf1 cl1 cf2 cl2) : Ext cf cl cf2 cl2 := by
  obtain ⟨a1, a2, e1, a3⟩ := h1
  obtain ⟨b1, b2, e2, b3⟩ := h2
  refine ⟨fun id hid => ?_, by omega, e1 ++ e2, by rw [b3, a3, List.append_assoc]⟩
  rw [b1 id (by omega), a1 id hid]

theorem EntryOK.ext {cf cl cf' cl' id q X} (h : EntryOK cf cl id q X) (hx : Ext cf cl cf' cl') : EntryOK cf' cl' id q X := by
  obtain ⟨c, h1, h2, h3, h4, h5, h6⟩ := h
  obtain ⟨a1, a2, e, a3⟩ := hx
  have hid : id < cf.size := by
    rcases Nat.lt_or_ge id cf.size with hlt | hge
    · exact hlt
    · rw [Array.getElem?_eq_none hge] at h1; exact nomatch h1
  have hsz : cl'.size = cl.size + e.length := by
    have := congrArg List.length a3
    simpa using this
  refine ⟨c, by rw [a1 id hid]; exact h1, h2, h3, by omega, ?_, h6⟩
  rw [a3, slice_append _ _ _ _ h3 (by simpa using h4)]
  exact h5

theorem countLoop_spec (ps : List CharClassPart) (q : CharClassPart) (o : Nat) : ∀ (k count : Nat) (cf : Array Config)
    (cl : Array Nat), count + k = countCap q + 1 → cf.size = o + count →
    Ext cf cl (countLoop ps q o k count cf cl).1 (countLoop ps q o k count cf cl).2 ∧
    (countLoop ps q o k count cf cl).1.size = o + countCap q + 1 ∧
    ∀ c', count ≤ c' → c' ≤ countCap q →
      EntryOK (countLoop ps q o k count cf cl).1 (countLoop ps q o k count cf cl).2 (o + c') q (cloList ps o (bump q c')) := by
  intro k
  induction k with
  | zero =>
    intro count cf cl hk hsz
    rw [countLoop]
    exact ⟨Ext.refl _ _, by show cf.size = _; omega, fun c' h1 h2 => by omega⟩
  | succ k ih =>
    intro count cf cl hk hsz
    rw [countLoop]
    have hb : (if count + 1 > countCap q then countCap q else count + 1) = bump q count := rfl
    rw [hb]
    obtain ⟨l1, l2⟩ := closureLoop_eq ps o (bump q count) cl
    generalize closureLoop ps o (bump q count) cl = r at l1 l2
    let e : Config := { cls := q.membership, next := cl.size, nextEnd := r.1.size, nextMatches := r.2 }
    have hext1 : Ext cf cl (cf.push e) r.1 := by
      refine ⟨fun id hid => ?_, by rw [Array.size_push]; omega, _, l1⟩
      rw [Array.getElem?_push, if_neg (by omega)]
    have hsz1 : r.1.size = cl.size + (cloList ps o (bump q count)).1.length := by
      have := congrArg List.length l1
      simpa using this
    have hentry : EntryOK (cf.push e) r.1 (o + count) q (cloList ps o (bump q count)) := by
      refine ⟨e, by rw [Array.getElem?_push, if_pos (by omega)], rfl, by show cl.size ≤ r.1.size; omega, Nat.le_refl _, ?_, l2⟩
      show slice r.1.toList cl.size r.1.size = _
      rw [l1, hsz1]
      have := slice_mid cl.toList (cloList ps o (bump q count)).1
      simpa using this
    obtain ⟨i1, i2, i3⟩ := ih (count + 1) (cf.push e) r.1 (by omega) (by rw [Array.size_push]; omega)
    refine ⟨hext1.trans i1, i2, fun c' h1 h2 => ?_⟩
    by_cases hc : c' = count
    · subst hc; exact hentry.ext i1
    · exact i3 c' (by omega) h2

theorem numConfigs_append : ∀ (a b : List CharClassPart), numConfigs (a ++ b) = numConfigs a + numConfigs b
  | [], b => by simp [numConfigs]
  | p :: a, b => by rw [List.cons_append, numConfigs, numConfigs, numConfigs_append a b]; omega

theorem buildConfigs_spec : ∀ (ps : List CharClassPart) (o : Nat) (cf : Array Config) (cl : Array Nat), cf.size = o →
    Ext cf cl (buildConfigs ps o cf cl).1 (buildConfigs ps o cf cl).2 ∧
    (buildConfigs ps o cf cl).1.size = o + numConfigs ps ∧
    ∀ pre q qs, ps = pre ++ q :: qs → ∀ c, c ≤ countCap q →
      EntryOK (buildConfigs ps o cf cl).1 (buildConfigs ps o cf cl).2 (o + numConfigs pre + c) q
        (cloList (q :: qs) (o + numConfigs pre) (bump q c)) := by
  intro ps
  induction ps with
  | nil =>
    intro o cf cl hsz
    rw [buildConfigs]
    refine ⟨Ext.refl _ _, by show cf.size = _; simp [numConfigs, hsz], fun pre q qs hps => ?_⟩
    cases pre <;> exact nomatch hps
  | cons part rest ih =>
    intro o cf cl hsz
    rw [buildConfigs]
    obtain ⟨c1, c2, c3⟩ := countLoop_spec (part :: rest) part o (countCap part + 1) 0 cf cl (by omega) (by omega)
    generalize countLoop (part :: rest) part o (countCap part + 1) 0 cf cl = r at c1 c2 c3
    obtain ⟨i1, i2, i3⟩ := ih (o + countCap part + 1) r.1 r.2 c2
    refine ⟨c1.trans i1, by rw [i2, numConfigs]; omega, fun pre q qs hps c hc => ?_⟩
    cases pre with
    | nil =>
      rw [List.nil_append] at hps
      injection hps with h1 h2
      subst h1; subst h2
      have := (c3 c (Nat.zero_le _) hc).ext i1
      simpa [numConfigs] using this
    | cons p' pre' =>
      rw [List.cons_append] at hps
      injection hps with h1 h2
      subst h1
      have := i3 pre' q qs h2 c hc
      have e1 : o + countCap part + 1 + numConfigs pre' = o + numConfigs (part :: pre') := by rw [numConfigs]; omega
      rw [e1] at this
      exact this

theorem canConsume_zero (q : CharClassPart) : canConsume q 0 = true := by
  unfold canConsume bounded
  by_cases h : q.maxMatch > 0
  · simp [h]
  · simp [h]

theorem cloList_head (q : CharClassPart) (qs : List CharClassPart) (o : Nat) :
    ∃ B, (cloList (q :: qs) o 0).1 = o :: B := by
  rw [cloList, canConsume_zero]
  simp only [if_true, Nat.add_zero]
  split
  · exact ⟨[], rfl⟩
  · exact ⟨_, rfl⟩

/-! ## what `buildTables` builds -/

theorem buildTables_size (parts : List CharClassPart) : (buildTables parts).configs.size = numConfigs parts := by
  unfold buildTables
  simp only []
  rw [(buildConfigs_spec parts 0 #[] #[] rfl).2.1]; omega

theorem buildTables_start (parts : List CharClassPart) :
    (buildTables parts).startClosure = (cloList parts 0 0).1 ∧ (buildTables parts).startMatches = (cloList parts 0 0).2 := by
  unfold buildTables
  simp only []
  generalize buildConfigs parts 0 #[] #[] = r
  obtain ⟨l1, l2⟩ := closureLoop_eq parts 0 0 r.2
  refine ⟨?_, l2⟩
  rw [Array.toList_extract]
  show slice _ _ _ = _
  have hsz : (closureLoop parts 0 0 r.2).1.size = r.2.size + (cloList parts 0 0).1.length := by
    have := congrArg List.length l1
    simpa using this
  rw [l1, hsz]
  have := slice_mid r.2.toList (cloList parts 0 0).1
  simpa using this

theorem buildTables_entry (parts pre : List CharClassPart) (q : CharClassPart) (qs : List CharClassPart)
    (hps : parts = pre ++ q :: qs) (c : Nat) (hc : c ≤ countCap q) :
    ((buildTables parts).cfgAt (numConfigs pre + c)).cls = q.membership ∧
    (buildTables parts).nxOf (numConfigs pre + c) = (cloList (q :: qs) (numConfigs pre) (bump q c)).1 ∧
    (buildTables parts).nmOf (numConfigs pre + c) = (cloList (q :: qs) (numConfigs pre) (bump q c)).2 := by
  obtain ⟨b1, b2, b3⟩ := buildConfigs_spec parts 0 #[] #[] rfl
  have hent := b3 pre q qs hps c hc
  obtain ⟨l1, _⟩ := closureLoop_eq parts 0 0 (buildConfigs parts 0 #[] #[]).2
  have hext : Ext (buildConfigs parts 0 #[] #[]).1 (buildConfigs parts 0 #[] #[]).2 (buildTables parts).configs
      (buildTables parts).closures := ⟨fun _ _ => rfl, Nat.le_refl _, _, l1⟩
  obtain ⟨e, h1, h2, h3, h4, h5, h6⟩ := hent.ext hext
  rw [Nat.zero_add] at h1 h5 h6
  have hcfg : (buildTables parts).cfgAt (numConfigs pre + c) = e := by
    unfold cfgAt
    rw [Array.getD_eq_getD_getElem?, h1]; rfl
  refine ⟨by rw [hcfg]; exact h2, ?_, by unfold nmOf; rw [hcfg]; exact h6⟩
  unfold nxOf
  rw [hcfg, Array.toList_extract]
  exact h5

/-! ## ids ↔ configurations `(i, c)` -/

theorem decode : ∀ (parts : List CharClassPart) (id : Nat), id < numConfigs parts →
    ∃ pre q qs c, parts = pre ++ q :: qs ∧ c ≤ countCap q ∧ id = numConfigs pre + c := by
  intro parts
  induction parts with
  | nil => intro id hid; exact absurd hid (by simp [numConfigs])
  | cons p ps ih =>
    intro id hid
    rw [numConfigs] at hid
    by_cases hle : id ≤ countCap p
    · exact ⟨[], p, ps, id, rfl, hle, by simp [numConfigs]⟩
    · obtain ⟨pre, q, qs, c, h1, h2, h3⟩ := ih (id - (countCap p + 1)) (by omega)
      exact ⟨p :: pre, q, qs, c, by rw [h1]; rfl, h2, by rw [numConfigs]; omega⟩

theorem decode_lt (parts pre : List CharClassPart) (q : CharClassPart) (qs : List CharClassPart)
    (hps : parts = pre ++ q :: qs) (c : Nat) (hc : c ≤ countCap q) : numConfigs pre + c < numConfigs parts := by
  rw [hps, numConfigs_append, numConfigs]; omega

theorem decode_unique (parts pre1 : List CharClassPart) (q1 : CharClassPart) (qs1 : List CharClassPart) (c1 : Nat)
    (pre2 : List CharClassPart) (q2 : CharClassPart) (qs2 : List CharClassPart) (c2 : Nat)
    (h1 : parts = pre1 ++ q1 :: qs1) (h2 : parts = pre2 ++ q2 :: qs2) (hc1 : c1 ≤ countCap q1) (hc2 : c2 ≤ countCap q2)
    (he : numConfigs pre1 + c1 = numConfigs pre2 + c2) : pre1 = pre2 ∧ q1 = q2 ∧ qs1 = qs2 ∧ c1 = c2 := by
  have hh : pre1 ++ q1 :: qs1 = pre2 ++ q2 :: qs2 := by rw [← h1, ← h2]
  rcases List.append_eq_append_iff.mp hh with ⟨as, e1, e2⟩ | ⟨bs, e1, e2⟩
  · cases as with
    | nil =>
      rw [List.append_nil] at e1
      rw [List.nil_append] at e2
      injection e2 with e3 e4
      subst e1
      exact ⟨rfl, e3, e4, by omega⟩
    | cons a as =>
      rw [List.cons_append] at e2
      injection e2 with e3 e4
      subst e3
      rw [e1, numConfigs_append, numConfigs] at he
      omega
  · cases bs with
    | nil =>
      rw [List.append_nil] at e1
      rw [List.nil_append] at e2
      injection e2 with e3 e4
      subst e1
      exact ⟨rfl, e3.symm, e4.symm, by omega⟩
    | cons b bs =>
      rw [List.cons_append] at e2
      injection e2 with e3 e4
      subst e3
      rw [e1, numConfigs_append, numConfigs] at he
      omega

/-- what follows configuration `(i, c)` in every closure list that contains it -/
def afterOf : List CharClassPart → Nat → Nat → List Nat × Bool
  | [], _, _ => ([], true)
  | q :: qs, o, c => if c < q.minMatch then ([], false) else cloList qs (o + countCap q + 1) 0

theorem cloList_eq_after (q : CharClassPart) (qs : List CharClassPart) (o c : Nat) :
    cloList (q :: qs) o c =
      ((if canConsume q c then [o + c] else []) ++ (afterOf (q :: qs) o c).1, (afterOf (q :: qs) o c).2) := by
  rw [cloList, afterOf]
  split
  · simp
  · rfl

theorem cloList_shape (parts : List CharClassPart) : ∀ (qs pre : List CharClassPart) (q : CharClassPart) (c : Nat),
    parts = pre ++ q :: qs → c ≤ countCap q → ∀ A a B, (cloList (q :: qs) (numConfigs pre) c).1 = A ++ a :: B →
    ∃ pre' q' qs' c', parts = pre' ++ q' :: qs' ∧ c' ≤ countCap q' ∧ a = numConfigs pre' + c' ∧
      (B, (cloList (q :: qs) (numConfigs pre) c).2) = afterOf (q' :: qs') (numConfigs pre') c' := by
  intro qs
  induction qs with
  | nil =>
    intro pre q c hps hc A a B hX
    rw [cloList_eq_after] at hX ⊢
    simp only [] at hX ⊢
    have haft : (afterOf [q] (numConfigs pre) c).1 = [] := by
      rw [afterOf]; split <;> rfl
    rw [haft, List.append_nil] at hX
    by_cases hcc : canConsume q c = true
    · rw [if_pos hcc] at hX
      cases A with
      | nil =>
        injection hX with e1 e2
        refine ⟨pre, q, [], c, hps, hc, e1.symm, ?_⟩
        rw [← e2, ← haft]
      | cons x A =>
        injection hX with e1 e2
        cases A <;> exact nomatch e2
    · rw [if_neg hcc] at hX
      cases A <;> exact nomatch hX
  | cons q2 qs2 ih =>
    intro pre q c hps hc A a B hX
    rw [cloList_eq_after] at hX ⊢
    simp only [] at hX ⊢
    -- the tail part
    have tailCase : ∀ A', (afterOf (q :: q2 :: qs2) (numConfigs pre) c).1 = A' ++ a :: B →
        ∃ pre' q' qs' c', parts = pre' ++ q' :: qs' ∧ c' ≤ countCap q' ∧ a = numConfigs pre' + c' ∧
          (B, (afterOf (q :: q2 :: qs2) (numConfigs pre) c).2) = afterOf (q' :: qs') (numConfigs pre') c' := by
      intro A' hA'
      rw [afterOf] at hA' ⊢
      by_cases hlt : c < q.minMatch
      · rw [if_pos hlt] at hA'
        cases A' <;> exact nomatch hA'
      · rw [if_neg hlt] at hA' ⊢
        have hn : numConfigs pre + countCap q + 1 = numConfigs (pre ++ [q]) := by
          rw [numConfigs_append, numConfigs, numConfigs]; omega
        rw [hn] at hA' ⊢
        exact ih (pre ++ [q]) q2 0 (by rw [hps]; simp) (Nat.zero_le _) A' a B hA'
    by_cases hcc : canConsume q c = true
    · rw [if_pos hcc] at hX
      cases A with
      | nil =>
        injection hX with e1 e2
        exact ⟨pre, q, q2 :: qs2, c, hps, hc, e1.symm, by rw [← e2]; rfl⟩
      | cons x A =>
        injection hX with e1 e2
        exact tailCase A e2
    · rw [if_neg hcc, List.nil_append] at hX
      exact tailCase A hX

/-- every closure list of the tables is the closure of some configuration -/
theorem isClo_cloList (parts : List CharClassPart) (hne : parts ≠ []) (X : List Nat) (m : Bool)
    (hc : IsClo (buildTables parts) X m) :
    ∃ pre q qs c, parts = pre ++ q :: qs ∧ c ≤ countCap q ∧ (X, m) = cloList (q :: qs) (numConfigs pre) c := by
  rcases hc with ⟨h1, h2⟩ | ⟨id, hid, h1, h2⟩
  · cases parts with
    | nil => exact absurd rfl hne
    | cons q qs =>
      obtain ⟨s1, s2⟩ := buildTables_start (q :: qs)
      exact ⟨[], q, qs, 0, rfl, Nat.zero_le _, by rw [h1, h2, s1, s2]; rfl⟩
  · rw [buildTables_size] at hid
    obtain ⟨pre, q, qs, c, hps, hcc, he⟩ := decode parts id hid
    obtain ⟨_, e2, e3⟩ := buildTables_entry parts pre q qs hps c hcc
    exact ⟨pre, q, qs, bump q c, hps, bump_le q c, by rw [h1, h2, he, e2, e3]⟩

theorem buildTables_startBytes (parts : List CharClassPart) :
    (buildTables parts).startBytes =
      Array.ofFn (n := 256) fun b => (buildTables parts).startClosure.any fun id => (buildTables parts).clsOf id b.val := by
  unfold buildTables clsOf cfgAt
  dsimp only

theorem cls_size_le (parts : List CharClassPart) (hsz : ∀ q ∈ parts, q.membership.size ≤ 256) (id : Nat) :
    ((buildTables parts).cfgAt id).cls.size ≤ 256 := by
  by_cases hid : id < numConfigs parts
  · obtain ⟨pre, q, qs, c, hps, hcc, he⟩ := decode parts id hid
    rw [he, (buildTables_entry parts pre q qs hps c hcc).1]
    exact hsz q (by rw [hps]; simp)
  · unfold cfgAt
    rw [Array.getD_eq_getD_getElem?, Array.getElem?_eq_none (by rw [buildTables_size]; omega)]
    show (default : Config).cls.size ≤ 256
    exact Nat.zero_le _

/-- **the tables satisfy the hypotheses of the simulation theorem** -/
theorem tablesOK (parts : List CharClassPart) (hne : parts ≠ []) (hsz : ∀ q ∈ parts, q.membership.size ≤ 256) :
    TablesOK (buildTables parts) := by
  refine ⟨fun X m hc x hx => ?_, ?_, fun b => ?_, ?_⟩
  · obtain ⟨pre, q, qs, c, hps, hcc, he⟩ := isClo_cloList parts hne X m hc
    obtain ⟨A, B, hAB⟩ := List.append_of_mem hx
    have hX : (cloList (q :: qs) (numConfigs pre) c).1 = A ++ x :: B := by rw [← he]; exact hAB
    obtain ⟨pre', q', qs', c', h1, h2, h3, _⟩ := cloList_shape parts qs pre q c hps hcc A x B hX
    rw [buildTables_size, h3]
    exact decode_lt parts pre' q' qs' h1 c' h2
  · intro X1 m1 X2 m2 hc1 hc2 A1 a B1 A2 B2 hs1 hs2
    obtain ⟨pre1, q1, qs1, c1, hps1, hcc1, he1⟩ := isClo_cloList parts hne X1 m1 hc1
    obtain ⟨pre2, q2, qs2, c2, hps2, hcc2, he2⟩ := isClo_cloList parts hne X2 m2 hc2
    have hX1 : (cloList (q1 :: qs1) (numConfigs pre1) c1).1 = A1 ++ a :: B1 := by rw [← he1]; exact hs1
    have hX2 : (cloList (q2 :: qs2) (numConfigs pre2) c2).1 = A2 ++ a :: B2 := by rw [← he2]; exact hs2
    obtain ⟨p1, r1, s1, d1, f1, f2, f3, f4⟩ := cloList_shape parts qs1 pre1 q1 c1 hps1 hcc1 A1 a B1 hX1
    obtain ⟨p2, r2, s2, d2, g1, g2, g3, g4⟩ := cloList_shape parts qs2 pre2 q2 c2 hps2 hcc2 A2 a B2 hX2
    obtain ⟨u1, u2, u3, u4⟩ := decode_unique parts p1 r1 s1 d1 p2 r2 s2 d2 f1 g1 f2 g2 (by rw [← f3, ← g3])
    subst u1; subst u2; subst u3; subst u4
    rw [← he1] at f4
    rw [← he2] at g4
    have := f4.trans g4.symm
    injection this with i1 i2
    exact ⟨i1, i2⟩
  · rw [buildTables_startBytes]
    unfold Table.mem
    rw [Array.getD_eq_getD_getElem?, Array.getElem?_ofFn]
    by_cases hb : b < 256
    · rw [dif_pos hb]; rfl
    · rw [dif_neg hb]
      symm
      rw [Option.getD_none, List.any_eq_false]
      intro id _
      have := cls_size_le parts hsz id
      unfold clsOf Table.mem
      rw [Array.getD_eq_getD_getElem?, Array.getElem?_eq_none (by omega)]
      simp
  · cases parts with
    | nil => exact absurd rfl hne
    | cons q qs =>
      rw [(buildTables_start (q :: qs)).1]
      obtain ⟨B, hB⟩ := cloList_head q qs 0
      rw [hB]
      exact List.cons_ne_nil _ _

/-! ## the priority semantics of the tables is the old backtracking matcher -/

open CompositeSearcher in
theorem tryDown_step (rest : Nat → Option Nat) (p lo : Nat) : ∀ t,
    tryDown rest p lo (t + 1) = (tryDown rest (p + 1) (lo - 1) t).or (if lo = 0 then rest p else none) := by
  intro t
  induction t with
  | zero =>
    rw [tryDown, tryDown, tryDown]
    rcases Nat.lt_trichotomy lo 1 with h0 | h1 | h2
    · have : lo = 0 := by omega
      subst this
      simp only [Nat.zero_add, ge_iff_le, Nat.zero_le, if_true, Nat.le_refl]
      cases rest (p + 1) <;> rfl
    · subst h1
      simp only [Nat.zero_add, ge_iff_le, Nat.le_refl, if_true, Nat.sub_self]
      cases rest (p + 1) <;> simp
    · rw [if_neg (by omega), if_neg (by omega), if_neg (by omega)]; rfl
  | succ t ih =>
    have e : ∀ p' lo' t', tryDown rest p' lo' (t' + 1) =
        if t' + 1 ≥ lo' then (rest (p' + (t' + 1))).or (tryDown rest p' lo' t') else none := by
      intro p' lo' t'
      rw [tryDown]
      split
      · cases rest (p' + (t' + 1)) <;> rfl
      · rfl
    rw [e p lo (t + 1), e (p + 1) (lo - 1) t, ih]
    by_cases hge : t + 1 + 1 ≥ lo
    · have h1 : t + 1 ≥ lo - 1 := by omega
      rw [if_pos hge, if_pos h1, show p + 1 + (t + 1) = p + (t + 1 + 1) by omega, Option.or_assoc]
    · have h1 : ¬ t + 1 ≥ lo - 1 := by omega
      have h2 : ¬ lo = 0 := by omega
      rw [if_neg hge, if_neg h1, if_neg h2]; rfl

/-- how many more bytes of part `q` may be taken after `c`, with `r` bytes left -/
def budget (q : CharClassPart) (c r : Nat) : Nat := if bounded q then min (q.maxMatch.toNat - c) r else r

/-- the backtracking matcher resumed in the middle of part `q` (`c` bytes taken so far, `c` capped as in the tables) -/
def G (h : Bytes) (q : CharClassPart) (qs : List CharClassPart) (c p : Nat) : Option Nat :=
  CompositeSearcher.tryDown (CompositeSearcher.matchFrom h qs) p (q.minMatch - c)
    (CompositeSearcher.consume q.mem h (budget q c (h.size - p)) p)

theorem matchFrom_eq_G (h : Bytes) (q : CharClassPart) (qs : List CharClassPart) (p : Nat) :
    CompositeSearcher.matchFrom h (q :: qs) p = G h q qs 0 p := by
  rw [CompositeSearcher.matchFrom, G]
  congr 2
  unfold CompositeSearcher.maxLen budget bounded
  by_cases hb : q.maxMatch > 0
  · simp only [hb, decide_true, if_true, true_and, Nat.sub_zero]
    split <;> omega
  · simp [hb]

theorem G_step (h : Bytes) (q : CharClassPart) (qs : List CharClassPart) (c p : Nat) (hc : c ≤ countCap q) :
    G h q qs c p =
      (if canConsume q c = true ∧ p < h.size ∧ q.mem (h.at p) = true then G h q qs (bump q c) (p + 1) else none).or
        (if c < q.minMatch then none else CompositeSearcher.matchFrom h qs p) := by
  unfold G
  by_cases hcond : canConsume q c = true ∧ p < h.size ∧ q.mem (h.at p) = true
  · obtain ⟨hcc, hp, hmem⟩ := hcond
    rw [if_pos ⟨hcc, hp, hmem⟩]
    have hbud : budget q c (h.size - p) = budget q (bump q c) (h.size - (p + 1)) + 1 := by
      unfold budget bump countCap
      unfold canConsume at hcc
      unfold countCap at hc
      by_cases hb : bounded q = true
      · simp only [hb, if_true] at hc ⊢
        simp only [hb, Bool.not_true, Bool.false_or, decide_eq_true_eq] at hcc
        split <;> omega
      · simp only [hb, Bool.false_eq_true, if_false]
        omega
    have hlo : q.minMatch - bump q c = q.minMatch - c - 1 := by
      unfold bump countCap
      unfold canConsume at hcc
      unfold countCap at hc
      by_cases hb : bounded q = true
      · simp only [hb, if_true] at hc ⊢
        simp only [hb, Bool.not_true, Bool.false_or, decide_eq_true_eq] at hcc
        split <;> omega
      · simp only [hb, Bool.false_eq_true, if_false]
        split <;> omega
    rw [hbud, CompositeSearcher.consume]
    simp only [hp, hmem, decide_true, Bool.and_self, if_true]
    rw [tryDown_step, hlo]
    congr 1
    by_cases hlt : c < q.minMatch
    · rw [if_pos hlt, if_neg (by omega)]
    · rw [if_neg hlt, if_pos (by omega)]
  · rw [if_neg hcond, Option.none_or]
    have ht : CompositeSearcher.consume q.mem h (budget q c (h.size - p)) p = 0 := by
      cases hk : budget q c (h.size - p) with
      | zero => rfl
      | succ k =>
        rw [CompositeSearcher.consume]
        by_cases hp : p < h.size
        · by_cases hmem : q.mem (h.at p) = true
          · exfalso
            apply hcond
            refine ⟨?_, hp, hmem⟩
            unfold budget at hk
            unfold canConsume
            by_cases hb : bounded q = true
            · simp only [hb, if_true] at hk
              simp only [hb, Bool.not_true, Bool.false_or, decide_eq_true_eq]
              omega
            · simp [hb]
          · simp [hmem]
        · simp [hp]
    rw [ht, CompositeSearcher.tryDown]
    by_cases hlt : c < q.minMatch
    · rw [if_pos hlt, if_neg (by omega)]
    · rw [if_neg hlt, if_pos (by omega)]

/-- the statement of `futL_clo` at one position -/
def CloSem (parts : List CharClassPart) (h : Bytes) (p : Nat) : Prop :=
  ∀ (qs pre : List CharClassPart) (q : CharClassPart) (c : Nat), parts = pre ++ q :: qs → c ≤ countCap q →
    futL (fun x => futW (buildTables parts) h (h.size - p) x p) (cloList (q :: qs) (numConfigs pre) c).2 p
      (cloList (q :: qs) (numConfigs pre) c).1 = G h q qs c p

theorem futW_entry (parts : List CharClassPart) (h : Bytes) (p : Nat) (hnext : CloSem parts h (p + 1))
    (pre : List CharClassPart) (q : CharClassPart) (qs : List CharClassPart) (hps : parts = pre ++ q :: qs) (c : Nat)
    (hc : c ≤ countCap q) :
    futW (buildTables parts) h (h.size - p) (numConfigs pre + c) p =
      if p < h.size ∧ q.mem (h.at p) = true then G h q qs (bump q c) (p + 1) else none := by
  obtain ⟨e1, e2, e3⟩ := buildTables_entry parts pre q qs hps c hc
  by_cases hp : p < h.size
  · rw [show h.size - p = (h.size - (p + 1)) + 1 by omega, futW]
    have hcls : (buildTables parts).clsOf (numConfigs pre + c) (h.at p) = q.mem (h.at p) := by
      unfold clsOf; rw [e1]; rfl
    rw [hcls, e2, e3, hnext qs pre q (bump q c) hps (bump_le q c)]
  · rw [futW_ge _ _ _ _ _ (by omega), if_neg (fun hc => hp hc.1)]

theorem cloSem_step (parts : List CharClassPart) (h : Bytes) (p : Nat) (hnext : CloSem parts h (p + 1)) :
    CloSem parts h p := by
  intro qs
  induction qs with
  | nil =>
    intro pre q c hps hc
    rw [cloList_eq_after, G_step h q [] c p hc]
    simp only []
    rw [futL, List.findSome?_append, Option.or_assoc]
    congr 1
    · by_cases hcc : canConsume q c = true
      · simp only [hcc, if_true, true_and, List.findSome?_cons, List.findSome?_nil]
        rw [futW_entry parts h p hnext pre q [] hps c hc]
        generalize (if p < h.size ∧ q.mem (h.at p) = true then G h q [] (bump q c) (p + 1) else none) = v
        cases v <;> rfl
      · simp [hcc]
    · rw [afterOf]
      by_cases hlt : c < q.minMatch
      · simp [hlt]
      · simp [hlt, cloList, CompositeSearcher.matchFrom]
  | cons q2 qs2 ih =>
    intro pre q c hps hc
    rw [cloList_eq_after, G_step h q (q2 :: qs2) c p hc]
    simp only []
    rw [futL, List.findSome?_append, Option.or_assoc]
    congr 1
    · by_cases hcc : canConsume q c = true
      · simp only [hcc, if_true, true_and, List.findSome?_cons, List.findSome?_nil]
        rw [futW_entry parts h p hnext pre q (q2 :: qs2) hps c hc]
        generalize (if p < h.size ∧ q.mem (h.at p) = true then G h q (q2 :: qs2) (bump q c) (p + 1) else none) = v
        cases v <;> rfl
      · simp [hcc]
    · rw [afterOf]
      by_cases hlt : c < q.minMatch
      · simp [hlt]
      · rw [if_neg hlt, if_neg hlt]
        have hn : numConfigs pre + countCap q + 1 = numConfigs (pre ++ [q]) := by
          rw [numConfigs_append, numConfigs, numConfigs]; omega
        have := ih (pre ++ [q]) q2 0 (by rw [hps]; simp) (Nat.zero_le _)
        rw [futL, ← hn] at this
        rw [this, matchFrom_eq_G]

theorem cloSem_end (parts : List CharClassPart) (h : Bytes) (p : Nat) (hp : h.size ≤ p) : CloSem parts h p := by
  -- nothing is consumed at or beyond the end, so the statement at `p + 1` is not used
  have aux : ∀ (hnext : True), CloSem parts h p := by
    intro _ qs
    induction qs with
    | nil =>
      intro pre q c hps hc
      rw [cloList_eq_after, G_step h q [] c p hc]
      simp only []
      rw [futL, List.findSome?_append, Option.or_assoc]
      congr 1
      · have hno : ¬ (canConsume q c = true ∧ p < h.size ∧ q.mem (h.at p) = true) := fun hc => by omega
        rw [if_neg hno, List.findSome?_eq_none_iff]
        intro x _
        exact futW_ge _ _ _ _ _ hp
      · rw [afterOf]
        by_cases hlt : c < q.minMatch
        · simp [hlt]
        · simp [hlt, cloList, CompositeSearcher.matchFrom]
    | cons q2 qs2 ih =>
      intro pre q c hps hc
      rw [cloList_eq_after, G_step h q (q2 :: qs2) c p hc]
      simp only []
      rw [futL, List.findSome?_append, Option.or_assoc]
      congr 1
      · have hno : ¬ (canConsume q c = true ∧ p < h.size ∧ q.mem (h.at p) = true) := fun hc => by omega
        rw [if_neg hno, List.findSome?_eq_none_iff]
        intro x _
        exact futW_ge _ _ _ _ _ hp
      · rw [afterOf]
        by_cases hlt : c < q.minMatch
        · simp [hlt]
        · rw [if_neg hlt, if_neg hlt]
          have hn : numConfigs pre + countCap q + 1 = numConfigs (pre ++ [q]) := by
            rw [numConfigs_append, numConfigs, numConfigs]; omega
          have := ih (pre ++ [q]) q2 0 (by rw [hps]; simp) (Nat.zero_le _)
          rw [futL, ← hn] at this
          rw [this, matchFrom_eq_G]
  exact aux trivial

/-- **closures mean what the backtracking matcher does**: the value of the closure of `(i, c)` at `p` is the old
    matcher resumed in part `i` with `c` bytes taken -/
theorem futL_clo (parts : List CharClassPart) (h : Bytes) : ∀ (d p : Nat), p + d = h.size + 1 → CloSem parts h p := by
  intro d
  induction d with
  | zero => intro p hp; exact cloSem_end parts h p (by omega)
  | succ d ih => intro p hp; exact cloSem_step parts h p (ih (p + 1) (by omega))

theorem cloSem (parts : List CharClassPart) (h : Bytes) (p : Nat) : CloSem parts h p := by
  by_cases hp : p ≤ h.size
  · exact futL_clo parts h (h.size + 1 - p) p (by omega)
  · exact cloSem_end parts h p (by omega)

/-- a new attempt at `p` has the value of the old `matchAt` -/
theorem startVal_eq_matchFrom (parts : List CharClassPart) (hne : parts ≠ []) (h : Bytes) (p : Nat) :
    startVal (buildTables parts) h p = CompositeSearcher.matchFrom h parts p := by
  cases parts with
  | nil => exact absurd rfl hne
  | cons q qs =>
    obtain ⟨s1, s2⟩ := buildTables_start (q :: qs)
    unfold startVal
    rw [s1, s2, matchFrom_eq_G]
    exact cloSem (q :: qs) h p qs [] q 0 rfl (Nat.zero_le _)

theorem later_eq_searchLoop (parts : List CharClassPart) (hne : parts ≠ []) (h : Bytes) : ∀ (k p : Nat),
    later (buildTables parts) h k p = CompositeSearcher.searchLoop { parts := parts } h k p := by
  intro k
  induction k with
  | zero => intro p; rfl
  | succ k ih =>
    intro p
    rw [later, CompositeSearcher.searchLoop, startVal_eq_matchFrom parts hne h p, ih (p + 1)]
    rfl

end Cx.CompSim
