import Cx.Proofs.RevSuffixInst
import Cx.Proofs.DfaRevRef
import Cx.Proofs.ReverseSimple
/-
  Cx.Proofs.RevSuffixDfa — (c) THE REVERSE-SUFFIX STRATEGY WITH THE REVERSE LAZY DFA PLUGGED IN: the abstract
  `RevDfaContract` of `Cx.Proofs.RevSuffixInst` is discharged by the model of the real reverse searches
  (`Cx.Model.DfaRev`: `SearchReverseLimited`, `SearchReverse` of `dfa/lazy/lazy.go`) run on the model of the real reverse
  automaton (`Cx.Model.Reverse`: `nfa.Reverse(N)`), configured the way `NewReverseSuffixSearcher` configures it
  (`BreakAtMatch = false`).

    revDfa_contract            RevDfaContract N (revSearchLimited N rcfg) (revSearchFull N rcfg) h         (uncached searches)
    revDfa_contract_cached     the same for the CACHED searches, whatever cache (satisfying the invariant `Dfa.Inv`)
                               each call finds — every capacity, clear limit, determinization limit, history
    C14_revSuffix_find_eq_reference_closed
        findIndicesAt (realOracles N cfg P.suffix (revSearchLimited N rcfg) (revSearchFull N rcfg)) P h at = btSearchAt N h at
    C14_revSuffix_find_eq_reference_closed_cached,  C14_revSuffix_isMatch_iff_closed

  Chain: (a) cached = uncached (`Cx.Proofs.DfaRev`); (b) uncached reverse search on `R = reverse N false` = least `s` with
  `AcceptsA R (revB h) (|h|-e) (|h|-s)` (`Cx.Proofs.DfaRevRef`, all-transitions semantics: NO disjointness hypothesis on the
  sparse states of `R`); the reverse automaton is look-free and rune-free by construction (`Cx.Proofs.ReverseSimple`);
  `AcceptsA R (revB h) (|h|-e) (|h|-s) ↔ AcceptsA N h s e` (`Rev.reverse_accepts`).

  Hypotheses left: `NfaHyp N cfg` (decidable, on the FORWARD automaton and the forward DFA's configuration, as before),
  `rcfg.breakAtMatch = false` for the reverse DFA, the literal-checker facts about the suffix, `BytesOK h`; for the cached
  version additionally `ClassSound (reverse N false) rcfg` (decidable sufficient condition `classStepB`/`classCompatB`,
  evaluated by the harness on the byte classes of every reverse automaton).
-/
namespace Cx.RevSuffix
open Cx Cx.Nfa

/-- `nfa.Reverse(forwardNFA)` (meta/reverse_suffix.go:130) -/
abbrev revNfa (N : NFA) : NFA := Rev.reverse N false

/-- `s.reverseDFA.SearchReverseLimited(revCache, haystack, start, end, minStart)` without a cache -/
def revSearchLimited (N : NFA) (rcfg : Dfa.Config) : Bytes → Nat → Nat → Nat → RevAnswer :=
  fun h lo e m => Dfa.searchReverseLimitedU (revNfa N) rcfg h lo e m

/-- `s.reverseDFA.SearchReverse(revCache, haystack, start, end)` without a cache (`< 0` = `none`) -/
def revSearchFull (N : NFA) (rcfg : Dfa.Config) : Bytes → Nat → Nat → Option Nat :=
  fun h lo e => (Dfa.searchReverseU (revNfa N) rcfg h lo e).toOption

/-- the same on caches: `cl` / `cf` name the cache each call finds -/
def revSearchLimitedC (N : NFA) (rcfg : Dfa.Config) (cl : Bytes → Nat → Nat → Nat → Dfa.Cache) :
    Bytes → Nat → Nat → Nat → RevAnswer :=
  fun h lo e m => (Dfa.searchReverseLimitedC (revNfa N) rcfg (cl h lo e m) h lo e m).1

def revSearchFullC (N : NFA) (rcfg : Dfa.Config) (cf : Bytes → Nat → Nat → Dfa.Cache) : Bytes → Nat → Nat → Option Nat :=
  fun h lo e => (Dfa.searchReverseC (revNfa N) rcfg (cf h lo e) h lo e).1.toOption

/-- the reverse automaton meets the hypotheses of the reverse-DFA theorems by construction -/
theorem revDfaHyp (N : NFA) {rcfg : Dfa.Config} (hbrk : rcfg.breakAtMatch = false) : Dfa.RevDfaHyp (revNfa N) rcfg :=
  { lf := Rev.reverse_lookFree N false, nr := Rev.reverse_noRune N false, brk := hbrk }

/-- the reference of the reverse-DFA theorems is the `RevAcc` of the contract (`reverse` has one start state) -/
theorem rAcc_eq (N : NFA) (h : Bytes) (s e : Nat) : Dfa.RAcc (revNfa N) h e s = RevAcc N h s e := rfl

theorem toOption_some {r : RevAnswer} {s : Nat} (h : r.toOption = some s) : r = .found s := by
  cases r with
  | found x => simp only [RevAnswer.toOption, Option.some.injEq] at h; rw [h]
  | none => cases h
  | cutOff => cases h

theorem least_some {N : NFA} {h : Bytes} {lo e s : Nat} (hl : Dfa.LeastIn (Dfa.RAcc (revNfa N) h e) lo e (some s)) :
    lo ≤ s ∧ s ≤ e ∧ RevAcc N h s e ∧ ∀ s', lo ≤ s' → s' < s → ¬ RevAcc N h s' e := hl

theorem least_none {N : NFA} {h : Bytes} {lo e : Nat} (hl : Dfa.LeastIn (Dfa.RAcc (revNfa N) h e) lo e none) :
    ∀ s', lo ≤ s' → s' ≤ e → ¬ RevAcc N h s' e := hl

/-- **the contract of the reverse oracle holds for the model of the real reverse DFA searches** (no cache) -/
theorem revDfa_contract (N : NFA) {rcfg : Dfa.Config} (hbrk : rcfg.breakAtMatch = false) (h : Bytes) :
    RevDfaContract N (revSearchLimited N rcfg) (revSearchFull N rcfg) h := by
  have H := revDfaHyp N hbrk
  refine ⟨?_, ?_, ?_⟩
  · intro lo e s hle he hr
    unfold revSearchFull at hr
    have hf := toOption_some hr
    by_cases hlt : lo < e
    · obtain ⟨o, ho, hl⟩ := Dfa.searchReverseU_spec H h hlt he
      rw [ho] at hf
      rw [Dfa.ofLast_found hf] at hl
      exact least_some hl
    · -- `end <= start`: the search answers -1
      unfold Dfa.searchReverseU Dfa.reverseWalk at hf
      rw [if_pos (Or.inl (by omega))] at hf
      cases hf
  · intro lo e m s hlt he hr
    exact least_some (Dfa.searchReverseLimitedU_found H h hlt he hr)
  · intro lo e m hlt he hr
    exact least_none (Dfa.searchReverseLimitedU_none H h hlt he hr)

/-- **the same for the cached searches**, on whatever caches the calls find -/
theorem revDfa_contract_cached (N : NFA) {rcfg : Dfa.Config} (hbrk : rcfg.breakAtMatch = false)
    (hC : Dfa.ClassSound (revNfa N) rcfg) {h : Bytes} (hb : Dfa.BytesOK h)
    {cl : Bytes → Nat → Nat → Nat → Dfa.Cache} {cf : Bytes → Nat → Nat → Dfa.Cache}
    (hcl : ∀ lo e m, Dfa.Inv (revNfa N) rcfg (cl h lo e m)) (hcf : ∀ lo e, Dfa.Inv (revNfa N) rcfg (cf h lo e)) :
    RevDfaContract N (revSearchLimitedC N rcfg cl) (revSearchFullC N rcfg cf) h := by
  have H := revDfaHyp N hbrk
  refine ⟨?_, ?_, ?_⟩
  · intro lo e s hle he hr
    unfold revSearchFullC at hr
    have hf := toOption_some hr
    by_cases hlt : lo < e
    · obtain ⟨_, o, ho, hl⟩ := Dfa.searchReverseC_spec H hC hb (hcf lo e) hlt he
      rw [ho] at hf
      rw [Dfa.ofLast_found hf] at hl
      exact least_some hl
    · unfold Dfa.searchReverseC at hf
      rw [if_pos (Or.inl (by omega))] at hf
      cases hf
  · intro lo e m s hlt he hr
    exact least_some (Dfa.searchReverseLimitedC_found H hC hb (hcl lo e m) hlt he hr)
  · intro lo e m hlt he hr
    exact least_none (Dfa.searchReverseLimitedC_none H hC hb (hcl lo e m) hlt he hr)

/-- **the reverse-suffix strategy over the component MODELS ONLY is the reference search**: forward lazy DFA, reverse lazy
    DFA on the reverse automaton, Pike VM, literal search; no abstract oracle is left -/
theorem C14_revSuffix_find_eq_reference_closed {N : NFA} {cfg rcfg : Dfa.Config} (H : NfaHyp N cfg)
    (hbrk : rcfg.breakAtMatch = false) {P : Params} (hL : 0 < P.suffix.size) (hmz : P.matchStartZero = false)
    (hlit : Lit.checkSuffix N [P.suffix.toList] = true)
    (hlb : P.lineBounded = true → ∀ (h : Bytes) s e, s ≤ h.size → Accepts N h s e → ∀ i, s ≤ i → i < e → h.at i ≠ 10)
    {h : Bytes} (hb : Dfa.BytesOK h) {at_ : Nat} (hat : at_ ≤ h.size) :
    findIndicesAt (realOracles N cfg P.suffix (revSearchLimited N rcfg) (revSearchFull N rcfg)) P h at_ = btSearchAt N h at_ :=
  C14_revSuffix_find_eq_reference H hL hmz hlit hlb hb (revDfa_contract N hbrk h) hat

/-- the same with the CACHED reverse searches, for every family of caches satisfying the cache invariant -/
theorem C14_revSuffix_find_eq_reference_closed_cached {N : NFA} {cfg rcfg : Dfa.Config} (H : NfaHyp N cfg)
    (hbrk : rcfg.breakAtMatch = false) (hC : Dfa.ClassSound (revNfa N) rcfg) {P : Params} (hL : 0 < P.suffix.size)
    (hmz : P.matchStartZero = false) (hlit : Lit.checkSuffix N [P.suffix.toList] = true)
    (hlb : P.lineBounded = true → ∀ (h : Bytes) s e, s ≤ h.size → Accepts N h s e → ∀ i, s ≤ i → i < e → h.at i ≠ 10)
    {h : Bytes} (hb : Dfa.BytesOK h)
    {cl : Bytes → Nat → Nat → Nat → Dfa.Cache} {cf : Bytes → Nat → Nat → Dfa.Cache}
    (hcl : ∀ lo e m, Dfa.Inv (revNfa N) rcfg (cl h lo e m)) (hcf : ∀ lo e, Dfa.Inv (revNfa N) rcfg (cf h lo e))
    {at_ : Nat} (hat : at_ ≤ h.size) :
    findIndicesAt (realOracles N cfg P.suffix (revSearchLimitedC N rcfg cl) (revSearchFullC N rcfg cf)) P h at_ =
      btSearchAt N h at_ :=
  C14_revSuffix_find_eq_reference H hL hmz hlit hlb hb (revDfa_contract_cached N hbrk hC hb hcl hcf) hat

theorem C14_revSuffix_isMatch_iff_closed {N : NFA} {cfg rcfg : Dfa.Config} (H : NfaHyp N cfg)
    (hbrk : rcfg.breakAtMatch = false) {P : Params} (hL : 0 < P.suffix.size)
    (hlit : Lit.checkSuffix N [P.suffix.toList] = true) {h : Bytes} (hb : Dfa.BytesOK h) :
    isMatch (realOracles N cfg P.suffix (revSearchLimited N rcfg) (revSearchFull N rcfg)) P h = true ↔
      ∃ i j, i ≤ h.size ∧ Accepts N h i j :=
  C14_revSuffix_isMatch_iff H hL hlit hb (revDfa_contract N hbrk h)

/-! ### the start of a match through the reverse DFA (`ReverseAnchored` and `Reverse` alike)

What `meta` uses the reverse DFA for in the bidirectional searches (`findIndices…`: forward DFA → end, reverse DFA →
start) and in the reverse strategies: for a fixed end `e`, `SearchReverse(h, start, e)` on the reverse automaton of `N` is
the LEFTMOST `s ≥ start` such that `N` matches `h[s:e]`. -/

theorem revDfaHyp' (N : NFA) (a : Bool) {rcfg : Dfa.Config} (hbrk : rcfg.breakAtMatch = false) :
    Dfa.RevDfaHyp (Rev.reverse N a) rcfg :=
  { lf := Rev.reverse_lookFree N a, nr := Rev.reverse_noRune N a, brk := hbrk }

theorem rAcc_iff_acceptsA {N : NFA} (H : Rev.RevHyp N) (a : Bool) (h : Bytes) {s e : Nat} (hs : s ≤ h.size) (he : e ≤ h.size) :
    Dfa.RAcc (Rev.reverse N a) h e s ↔ Rev.AcceptsA N h s e :=
  Rev.reverse_accepts H a h hs he

/-- **`SearchReverse` on the reverse automaton finds the leftmost start** of a match of `N` ending at `e` (uncached) -/
theorem reverse_search_leftmost_start {N : NFA} (H : Rev.RevHyp N) (a : Bool) {rcfg : Dfa.Config}
    (hbrk : rcfg.breakAtMatch = false) (h : Bytes) {start e : Nat} (hse : start < e) (he : e ≤ h.size) :
    ∃ o, Dfa.searchReverseU (Rev.reverse N a) rcfg h start e = Dfa.ofLast o ∧
      Dfa.LeastIn (fun s => Rev.AcceptsA N h s e) start e o := by
  obtain ⟨o, ho, hl⟩ := Dfa.searchReverseU_spec (revDfaHyp' N a hbrk) h hse he
  exact ⟨o, ho, hl.congr (fun s _ h2 => rAcc_iff_acceptsA H a h (by omega) he)⟩

/-- the same for the cached search on any cache satisfying the invariant -/
theorem reverse_search_leftmost_start_cached {N : NFA} (H : Rev.RevHyp N) (a : Bool) {rcfg : Dfa.Config}
    (hbrk : rcfg.breakAtMatch = false) (hC : Dfa.ClassSound (Rev.reverse N a) rcfg) {h : Bytes} (hb : Dfa.BytesOK h)
    {c : Dfa.Cache} (hI : Dfa.Inv (Rev.reverse N a) rcfg c) {start e : Nat} (hse : start < e) (he : e ≤ h.size) :
    Dfa.Inv (Rev.reverse N a) rcfg (Dfa.searchReverseC (Rev.reverse N a) rcfg c h start e).2 ∧
    ∃ o, (Dfa.searchReverseC (Rev.reverse N a) rcfg c h start e).1 = Dfa.ofLast o ∧
      Dfa.LeastIn (fun s => Rev.AcceptsA N h s e) start e o := by
  obtain ⟨hI', o, ho, hl⟩ := Dfa.searchReverseC_spec (revDfaHyp' N a hbrk) hC hb hI hse he
  exact ⟨hI', o, ho, hl.congr (fun s _ h2 => rAcc_iff_acceptsA H a h (by omega) he)⟩

/-- `IsMatchReverse` on the reverse automaton: some match of `N` ends at `e` and starts in `[start, e]` -/
theorem reverse_isMatch_iff {N : NFA} (H : Rev.RevHyp N) (a : Bool) {rcfg : Dfa.Config}
    (hbrk : rcfg.breakAtMatch = false) (h : Bytes) {start e : Nat} (hse : start < e) (he : e ≤ h.size) :
    Dfa.isMatchReverseU (Rev.reverse N a) rcfg h start e = true ↔ ∃ s, start ≤ s ∧ s ≤ e ∧ Rev.AcceptsA N h s e := by
  rw [Dfa.isMatchReverseU_iff (revDfaHyp' N a hbrk) h hse he]
  constructor
  · rintro ⟨s, h1, h2, h3⟩
    exact ⟨s, h1, h2, (rAcc_iff_acceptsA H a h (by omega) he).mp h3⟩
  · rintro ⟨s, h1, h2, h3⟩
    exact ⟨s, h1, h2, (rAcc_iff_acceptsA H a h (by omega) he).mpr h3⟩

/-- the reverse DFA's configuration in `NewReverseSuffixSearcher`: the forward configuration with `BreakAtMatch = false` -/
def revConfig (cfg : Dfa.Config) : Dfa.Config := { cfg with breakAtMatch := false }

/-- **`[a-z]+z`, closed, with the reverse lazy DFA**: the strategy with `lineBounded = true`, the real compiled automaton,
    the forward lazy-DFA model, the reverse lazy-DFA model on the model of `nfa.Reverse`, the Pike model as fallback,
    returns the reference's span on every haystack of bytes, from every offset -/
theorem C14_revSuffix_closed_instance_dfa {h : Bytes} (hb : Dfa.BytesOK h) {at_ : Nat} (hat : at_ ≤ h.size) :
    findIndicesAt (realOracles exAzZ Dfa.Config.plain #[122]
        (revSearchLimited exAzZ (revConfig Dfa.Config.plain)) (revSearchFull exAzZ (revConfig Dfa.Config.plain)))
      { suffix := #[122], lineBounded := true } h at_ = btSearchAt exAzZ h at_ :=
  C14_revSuffix_find_eq_reference_closed (P := { suffix := #[122], lineBounded := true }) exAzZ_hyp rfl (by decide) rfl
    exAzZ_suffix (fun _ h s e hs ha => checkNoByte_sound exAzZ_noNL h s e hs ha) hb hat

/-- `ClassSound` for the reverse DFA from the decidable check on its byte-class map (the harness evaluates `classStepB` and
    `classCompatB` on the real `ByteClasses` of every reverse automaton) -/
theorem classSound_rev_of_step {N : NFA} {rcfg : Dfa.Config} (hc : Dfa.classStepB (revNfa N) rcfg.cls = true) :
    Dfa.ClassSound (revNfa N) rcfg :=
  Dfa.classSound_of_compat rcfg (Dfa.classCompat_of_step hc)

/-- the same instance with the CACHED reverse searches, each call on a fresh cache (`NewCache()`), no byte classes -/
theorem C14_revSuffix_closed_instance_dfa_cached {h : Bytes} (hb : Dfa.BytesOK h) {at_ : Nat} (hat : at_ ≤ h.size) :
    findIndicesAt (realOracles exAzZ Dfa.Config.plain #[122]
        (revSearchLimitedC exAzZ (revConfig Dfa.Config.plain) (fun _ _ _ _ => Dfa.Cache.empty))
        (revSearchFullC exAzZ (revConfig Dfa.Config.plain) (fun _ _ _ => Dfa.Cache.empty)))
      { suffix := #[122], lineBounded := true } h at_ = btSearchAt exAzZ h at_ :=
  C14_revSuffix_find_eq_reference_closed_cached (P := { suffix := #[122], lineBounded := true }) exAzZ_hyp rfl
    (Dfa.classSound_id _ _ (fun _ => rfl)) (by decide) rfl exAzZ_suffix
    (fun _ h s e hs ha => checkNoByte_sound exAzZ_noNL h s e hs ha) hb
    (fun _ _ _ => Dfa.inv_empty _ _) (fun _ _ => Dfa.inv_empty _ _) hat

end Cx.RevSuffix
