import Cx.Spec.StdLoops
import Cx.Model.Loops
/-
  Cx.Proofs.Loops — helper lemmas for C04 / C08 / C11: coregex's loops = stdlib's loops over any
  well-behaved single-match function.
-/
namespace Cx
open Cx.Std Cx.Loops

variable {α : Type}

/-- Contract of the single-match function underneath a loop (what C02 is about), for input length `len`. -/
structure FindOK (find : Nat → Option α) (sp : α → Nat × Nat) (len : Nat) : Prop where
  bounds : ∀ {pos m}, find pos = some m → pos ≤ (sp m).1 ∧ (sp m).1 ≤ (sp m).2 ∧ (sp m).2 ≤ len
  stable : ∀ {pos m p}, find pos = some m → pos ≤ p → p ≤ (sp m).1 → find p = some m

/-- `utf8.DecodeRune` widths: at least 1 inside the input, 0 at/after the end. -/
structure WidthOK (w : Nat → Nat) (len : Nat) : Prop where
  pos_lt : ∀ p, p < len → 1 ≤ w p
  zero_ge : ∀ p, len ≤ p → w p = 0

/-! ### Basic facts -/

theorem find_none_of_gt {find : Nat → Option α} {sp : α → Nat × Nat} {len : Nat} (ok : FindOK find sp len)
    {pos : Nat} (hp : pos > len) : find pos = none := by
  cases hf : find pos with
  | none => rfl
  | some m =>
    have := ok.bounds hf
    omega

theorem nextOf_gt (w : Nat → Nat) (p : Nat) : p < nextOf w p := by
  unfold nextOf
  split <;> omega

/-- stdlib's step after an empty match at `pos ≤ len` is `nextOf w pos`. -/
theorem stdNext_eq {w : Nat → Nat} {len : Nat} (wk : WidthOK w len) {pos : Nat} (hp : pos ≤ len) :
    (if w pos > 0 then pos + w pos else len + 1) = nextOf w pos := by
  unfold nextOf
  by_cases h : w pos = 0
  · have : ¬ (pos < len) := fun hl => by have := wk.pos_lt pos hl; omega
    rw [if_neg (by omega), if_pos h]; omega
  · rw [if_pos (by omega), if_neg h]

/-! ### One-step unfoldings of `stdAll` -/

theorem stdAll_stop (find : Nat → Option α) (sp : α → Nat × Nat) (w : Nat → Nat) (len fuel pos i : Nat)
    (prev : Option Nat) (n : Nat) (hp : pos > len) : stdAll find sp w len fuel pos i prev n = [] := by
  cases fuel with
  | zero => rfl
  | succ fuel =>
    rw [stdAll, if_pos (by omega)]

theorem stdAll_lim (find : Nat → Option α) (sp : α → Nat × Nat) (w : Nat → Nat) (len fuel pos i : Nat)
    (prev : Option Nat) (n : Nat) (hl : ¬ i < n) : stdAll find sp w len fuel pos i prev n = [] := by
  cases fuel with
  | zero => rfl
  | succ fuel =>
    rw [stdAll, if_pos (fun h => hl h.1)]

theorem stdAll_none {find : Nat → Option α} (sp : α → Nat × Nat) (w : Nat → Nat) (len fuel pos i : Nat)
    (prev : Option Nat) (n : Nat) (hf : find pos = none) : stdAll find sp w len fuel pos i prev n = [] := by
  cases fuel with
  | zero => rfl
  | succ fuel =>
    rw [stdAll]
    split
    · rfl
    · rw [hf]

theorem stdAll_rej {find : Nat → Option α} {sp : α → Nat × Nat} {w : Nat → Nat} {len : Nat} (wk : WidthOK w len)
    {fuel pos i : Nat} {prev : Option Nat} {n : Nat} {m : α}
    (hl : i < n) (hp : pos ≤ len) (hf : find pos = some m) (he : (sp m).2 = pos) (hr : some (sp m).1 = prev) :
    stdAll find sp w len (fuel+1) pos i prev n = stdAll find sp w len fuel (nextOf w pos) i (some pos) n := by
  rw [stdAll, if_neg (by omega), hf]
  simp only []
  rw [if_pos he, if_pos hr, stdNext_eq wk hp, he]

theorem stdAll_accE {find : Nat → Option α} {sp : α → Nat × Nat} {w : Nat → Nat} {len : Nat} (wk : WidthOK w len)
    {fuel pos i : Nat} {prev : Option Nat} {n : Nat} {m : α}
    (hl : i < n) (hp : pos ≤ len) (hf : find pos = some m) (he : (sp m).2 = pos) (hr : ¬ some (sp m).1 = prev) :
    stdAll find sp w len (fuel+1) pos i prev n = m :: stdAll find sp w len fuel (nextOf w pos) (i+1) (some pos) n := by
  rw [stdAll, if_neg (by omega), hf]
  simp only []
  rw [if_pos he, if_neg hr, stdNext_eq wk hp, he]

theorem stdAll_accN {find : Nat → Option α} {sp : α → Nat × Nat} {w : Nat → Nat} {len : Nat}
    {fuel pos i : Nat} {prev : Option Nat} {n : Nat} {m : α}
    (hl : i < n) (hp : pos ≤ len) (hf : find pos = some m) (he : ¬ (sp m).2 = pos) :
    stdAll find sp w len (fuel+1) pos i prev n
      = m :: stdAll find sp w len fuel (sp m).2 (i+1) (some (sp m).2) n := by
  rw [stdAll, if_neg (by omega), hf]
  simp only []
  rw [if_neg he]

/-! ### One-step unfoldings of `loopA` -/

theorem loopA_lim (find : Nat → Option α) (sp : α → Nat × Nat) (next : Nat → Nat) (len fuel pos : Nat)
    (last : Option Nat) (cnt : Nat) (n : Option Nat) (hl : limitHit n cnt = true) :
    loopA find sp next len fuel pos last cnt n = [] := by
  cases fuel with
  | zero => rfl
  | succ fuel => rw [loopA, if_pos hl]

theorem loopA_none {find : Nat → Option α} (sp : α → Nat × Nat) (next : Nat → Nat) (len fuel pos : Nat)
    (last : Option Nat) (cnt : Nat) (n : Option Nat) (hf : find pos = none) :
    loopA find sp next len fuel pos last cnt n = [] := by
  cases fuel with
  | zero => rfl
  | succ fuel =>
    rw [loopA]
    split
    · rfl
    · rw [hf]

theorem loopA_rej {find : Nat → Option α} {sp : α → Nat × Nat} {next : Nat → Nat} {len fuel pos : Nat}
    {last : Option Nat} {cnt : Nat} {n : Option Nat} {m : α}
    (hl : ¬ limitHit n cnt = true) (hf : find pos = some m) (hr : (sp m).1 = (sp m).2 ∧ some (sp m).1 = last) :
    loopA find sp next len (fuel+1) pos last cnt n
      = if next pos > len then [] else loopA find sp next len fuel (next pos) last cnt n := by
  rw [loopA, if_neg hl, hf]
  simp only []
  rw [if_pos hr]

theorem loopA_acc {find : Nat → Option α} {sp : α → Nat × Nat} {next : Nat → Nat} {len fuel pos : Nat}
    {last : Option Nat} {cnt : Nat} {n : Option Nat} {m : α}
    (hl : ¬ limitHit n cnt = true) (hf : find pos = some m) (hr : ¬ ((sp m).1 = (sp m).2 ∧ some (sp m).1 = last)) :
    loopA find sp next len (fuel+1) pos last cnt n
      = if advance next pos (sp m).1 (sp m).2 > len then [m]
        else m :: loopA find sp next len fuel (advance next pos (sp m).1 (sp m).2)
                    (if (sp m).1 ≠ (sp m).2 then some (sp m).2 else last) (cnt+1) n := by
  rw [loopA, if_neg hl, hf]
  simp only []
  rw [if_neg hr]

/-- what the two loops must agree on about their "previous end" registers -/
structure Rel (pos : Nat) (prev last : Option Nat) : Prop where
  iff_here : prev = some pos ↔ last = some pos
  last_le : ∀ x, last = some x → x ≤ pos
  prev_le : ∀ x, prev = some x → x ≤ pos

theorem Rel.init : Rel 0 none none :=
  { iff_here := Iff.intro (fun h => nomatch h) (fun h => nomatch h)
    last_le := fun _ h => nomatch h
    prev_le := fun _ h => nomatch h }

/-- moving strictly forward with stdlib's register anywhere behind and the model's unchanged -/
theorem Rel.step {pos p' q : Nat} {prev last : Option Nat} (rel : Rel pos prev last) (hq : q < p') (hp : pos < p') :
    Rel p' (some q) last :=
  { iff_here := Iff.intro (fun h => absurd (Option.some.inj h) (by omega))
      (fun h => by have := rel.last_le _ h; omega)
    last_le := fun x hx => by have := rel.last_le x hx; omega
    prev_le := fun x hx => by cases hx; omega }

theorem Rel.same (e : Nat) : Rel e (some e) (some e) :=
  { iff_here := Iff.intro (fun _ => rfl) (fun _ => rfl)
    last_le := fun x hx => by cases hx; omega
    prev_le := fun x hx => by cases hx; omega }

/-- Main simulation: stdlib's `allMatches` loop and `findAllIndicesLoop` deliver the same list.
`hlim` says the two limit tests agree on every count that is reachable from here. -/
theorem loopA_std (find : Nat → Option α) (sp : α → Nat × Nat) (w : Nat → Nat) (len : Nat)
    (ok : FindOK find sp len) (wk : WidthOK w len) (N : Nat) (n : Option Nat) :
    ∀ (k pos : Nat) (prev last : Option Nat) (i cnt fs fc : Nat),
      len + 2 - pos ≤ k → Rel pos prev last →
      (∀ j, pos + j ≤ len → (limitHit n (cnt + j) = true ↔ ¬ (i + j < N))) →
      2 * (len + 2 - pos) ≤ fs → len + 2 - pos ≤ fc →
      stdAll find sp w len fs pos i prev N = loopA find sp (nextOf w) len fc pos last cnt n := by
  intro k
  induction k with
  | zero =>
    intro pos prev last i cnt fs fc hk _ _ _ _
    have hp : pos > len := by omega
    rw [stdAll_stop _ _ _ _ _ _ _ _ _ hp, loopA_none _ _ _ _ _ _ _ _ (find_none_of_gt ok hp)]
  | succ k ih =>
    intro pos prev last i cnt fs fc hk rel hlim hfs hfc
    by_cases hp : pos > len
    · rw [stdAll_stop _ _ _ _ _ _ _ _ _ hp, loopA_none _ _ _ _ _ _ _ _ (find_none_of_gt ok hp)]
    · have hple : pos ≤ len := by omega
      have hlim0 := hlim 0 (by omega)
      simp only [Nat.add_zero] at hlim0
      by_cases hl : i < N
      · have hlc : ¬ limitHit n cnt = true := fun h => (hlim0.mp h) hl
        cases hf : find pos with
        | none => rw [stdAll_none _ _ _ _ _ _ _ _ hf, loopA_none _ _ _ _ _ _ _ _ hf]
        | some m =>
          obtain ⟨h1, h2, h3⟩ := ok.bounds hf
          obtain ⟨fs, rfl⟩ : ∃ fs', fs = fs' + 1 := ⟨fs - 1, by omega⟩
          obtain ⟨fc, rfl⟩ : ∃ fc', fc = fc' + 1 := ⟨fc - 1, by omega⟩
          have hshift : ∀ p', pos < p' → ∀ j, p' + j ≤ len →
              (limitHit n (cnt + 1 + j) = true ↔ ¬ (i + 1 + j < N)) := by
            intro p' hp' j hj
            have := hlim (j + 1) (by omega)
            rwa [show cnt + (j + 1) = cnt + 1 + j by omega, show i + (j + 1) = i + 1 + j by omega] at this
          by_cases hse : (sp m).1 = (sp m).2
          · by_cases hsp : (sp m).2 = pos
            · -- empty match at pos
              have hgt := nextOf_gt w pos
              by_cases hprev : some (sp m).1 = prev
              · have hlast : some (sp m).1 = last := by
                  rw [hse, hsp] at hprev ⊢
                  exact (rel.iff_here.mp hprev.symm).symm
                rw [stdAll_rej wk hl hple hf hsp hprev, loopA_rej hlc hf ⟨hse, hlast⟩]
                by_cases hlt : nextOf w pos > len
                · rw [if_pos hlt, stdAll_stop _ _ _ _ _ _ _ _ _ hlt]
                · rw [if_neg hlt]
                  exact ih _ _ _ _ _ _ _ (by omega) (rel.step hgt hgt)
                    (fun j hj => hlim j (by omega)) (by omega) (by omega)
              · have hlast : ¬ ((sp m).1 = (sp m).2 ∧ some (sp m).1 = last) := by
                  intro h
                  apply hprev
                  have h2 := h.2
                  rw [hse, hsp] at h2 ⊢
                  exact (rel.iff_here.mpr h2.symm).symm
                rw [stdAll_accE wk hl hple hf hsp hprev, loopA_acc hlc hf hlast]
                have hadv : advance (nextOf w) pos (sp m).1 (sp m).2 = nextOf w pos := by
                  unfold advance; rw [if_pos hse, hsp]
                rw [hadv, if_neg (fun h : (sp m).1 ≠ (sp m).2 => h hse)]
                by_cases hlt : nextOf w pos > len
                · rw [if_pos hlt, stdAll_stop _ _ _ _ _ _ _ _ _ hlt]
                · rw [if_neg hlt]
                  congr 1
                  exact ih _ _ _ _ _ _ _ (by omega) (rel.step hgt hgt)
                    (hshift _ hgt) (by omega) (by omega)
            · -- empty match strictly ahead of pos: stdlib visits it twice
              have hgt := nextOf_gt w (sp m).2
              have hlast : ¬ ((sp m).1 = (sp m).2 ∧ some (sp m).1 = last) := by
                intro h; have := rel.last_le _ h.2.symm; omega
              rw [stdAll_accN hl hple hf hsp, loopA_acc hlc hf hlast]
              have hadv : advance (nextOf w) pos (sp m).1 (sp m).2 = nextOf w (sp m).2 := by
                unfold advance; rw [if_pos hse]
              rw [hadv, if_neg (fun h : (sp m).1 ≠ (sp m).2 => h hse)]
              obtain ⟨fs, rfl⟩ : ∃ fs', fs = fs' + 1 := ⟨fs - 1, by omega⟩
              have hf2 : find (sp m).2 = some m := ok.stable hf (by omega) (by omega)
              by_cases hl1 : i + 1 < N
              · rw [stdAll_rej wk hl1 h3 hf2 rfl (by rw [hse])]
                by_cases hlt : nextOf w (sp m).2 > len
                · rw [if_pos hlt, stdAll_stop _ _ _ _ _ _ _ _ _ hlt]
                · rw [if_neg hlt]
                  congr 1
                  exact ih _ _ _ _ _ _ _ (by omega) (rel.step hgt (by omega))
                    (hshift _ (by omega)) (by omega) (by omega)
              · rw [stdAll_lim _ _ _ _ _ _ _ _ _ hl1]
                by_cases hlt : nextOf w (sp m).2 > len
                · rw [if_pos hlt]
                · rw [if_neg hlt]
                  have := (hlim 1 (by omega)).mpr hl1
                  rw [loopA_lim _ _ _ _ _ _ _ _ _ this]
          · -- non-empty match
            have hep : ¬ (sp m).2 = pos := by omega
            have hlast : ¬ ((sp m).1 = (sp m).2 ∧ some (sp m).1 = last) := fun h => hse h.1
            rw [stdAll_accN hl hple hf hep, loopA_acc hlc hf hlast]
            have hadv : advance (nextOf w) pos (sp m).1 (sp m).2 = (sp m).2 := by
              unfold advance; rw [if_neg hse, if_pos (by omega)]
            rw [hadv, if_pos hse, if_neg (by omega)]
            congr 1
            exact ih _ _ _ _ _ _ _ (by omega) (Rel.same _)
              (hshift _ (by omega)) (by omega) (by omega)
      · have hlc : limitHit n cnt = true := hlim0.mpr hl
        rw [stdAll_lim _ _ _ _ _ _ _ _ _ hl, loopA_lim _ _ _ _ _ _ _ _ _ hlc]

theorem loopA_eq_std (find : Nat → Option α) (sp : α → Nat × Nat) (w : Nat → Nat) (len : Nat)
    (ok : FindOK find sp len) (wk : WidthOK w len) (n : Int) (hn : n ≠ 0) :
    findAllA false find sp (nextOf w) len (if n ≤ 0 then none else some n.toNat) = stdFindAll find sp w len n := by
  unfold findAllA stdFindAll
  rw [if_neg (by decide)]
  symm
  by_cases hneg : n < 0
  · have hle : n ≤ 0 := by omega
    simp only []
    rw [if_pos hneg, if_pos hle]
    apply loopA_std find sp w len ok wk (len + 1) none (len + 2) 0 none none 0 0 _ _ (by omega) Rel.init
    · intro j hj
      simp only [limitHit]
      constructor
      · intro h; exact absurd h (by decide)
      · intro h; omega
    · omega
    · omega
  · have hle : ¬ n ≤ 0 := by omega
    simp only []
    rw [if_neg hneg, if_neg hle]
    apply loopA_std find sp w len ok wk n.toNat (some n.toNat) (len + 2) 0 none none 0 0 _ _ (by omega) Rel.init
    · intro j hj
      simp only [limitHit, decide_eq_true_eq]
      omega
    · omega
    · omega

theorem anchored_eq_std (find : Nat → Option α) (sp : α → Nat × Nat) (w : Nat → Nat) (len : Nat)
    (ok : FindOK find sp len) (wk : WidthOK w len) (anch : ∀ p, 0 < p → find p = none) (n : Int) (hn : n ≠ 0) :
    findAllA true find sp (nextOf w) len (if n ≤ 0 then none else some n.toNat) = stdFindAll find sp w len n := by
  unfold findAllA stdFindAll
  rw [if_pos rfl]
  simp only []
  have hn' : 0 < (if n < 0 then len + 1 else n.toNat) := by
    split <;> omega
  generalize (if n < 0 then len + 1 else n.toNat) = n' at hn'
  obtain ⟨f, hf⟩ : ∃ f, 2 * (len + 2) = f + 1 := ⟨2 * len + 3, by omega⟩
  rw [hf]
  cases hf0 : find 0 with
  | none => rw [stdAll_none _ _ _ _ _ _ _ _ hf0]
  | some m =>
    obtain ⟨h1, h2, h3⟩ := ok.bounds hf0
    by_cases hsp : (sp m).2 = 0
    · rw [stdAll_accE (prev := none) wk hn' (by omega) hf0 hsp (fun h => nomatch h),
        stdAll_none _ _ _ _ _ _ _ _ (anch _ (nextOf_gt w 0))]
    · rw [stdAll_accN hn' (by omega) hf0 hsp,
        stdAll_none _ _ _ _ _ _ _ _ (anch _ (by omega))]

/-! ### `loopB` and `loopC` run in lockstep with `loopA` -/

theorem loopB_stop (find : Nat → Option α) (sp : α → Nat × Nat) (next : Nat → Nat) (len fuel pos : Nat)
    (last : Option Nat) (cnt : Nat) (n : Option Nat) (hp : pos > len) :
    loopB find sp next len fuel pos last cnt n = [] := by
  cases fuel with
  | zero => rfl
  | succ fuel => rw [loopB, if_pos hp]

theorem loopC_stop (find : Nat → Option α) (sp : α → Nat × Nat) (next : Nat → Nat) (len fuel pos : Nat)
    (last : Option Nat) (hp : pos > len) :
    loopC find sp next len fuel pos last = [] := by
  cases fuel with
  | zero => rfl
  | succ fuel => rw [loopC, if_pos hp]

theorem loopB_eq_loopA (find : Nat → Option α) (sp : α → Nat × Nat) (next : Nat → Nat) (len : Nat)
    (ok : FindOK find sp len) (n : Option Nat) :
    ∀ (fuel pos : Nat) (last : Option Nat) (cnt : Nat), ¬ limitHit n cnt = true →
      loopB find sp next len fuel pos last cnt n = loopA find sp next len fuel pos last cnt n := by
  intro fuel
  induction fuel with
  | zero => intro pos last cnt _; rfl
  | succ fuel ih =>
    intro pos last cnt hl
    by_cases hp : pos > len
    · rw [loopB_stop _ _ _ _ _ _ _ _ _ hp, loopA_none _ _ _ _ _ _ _ _ (find_none_of_gt ok hp)]
    · cases hf : find pos with
      | none => rw [loopA_none _ _ _ _ _ _ _ _ hf, loopB, if_neg hp, hf]
      | some m =>
        by_cases hr : (sp m).1 = (sp m).2 ∧ some (sp m).1 = last
        · rw [loopA_rej hl hf hr, loopB, if_neg hp, hf]
          simp only []
          rw [if_pos hr]
          by_cases hlt : next pos > len
          · rw [if_pos hlt, if_pos hlt]
          · rw [if_neg hlt, if_neg hlt]; exact ih _ _ _ hl
        · rw [loopA_acc hl hf hr, loopB, if_neg hp, hf]
          simp only []
          rw [if_neg hr]
          by_cases hl1 : limitHit n (cnt + 1) = true
          · rw [if_pos hl1, loopA_lim _ _ _ _ _ _ _ _ _ hl1]
            split <;> rfl
          · rw [if_neg hl1]
            by_cases hlt : advance next pos (sp m).1 (sp m).2 > len
            · rw [if_pos hlt, loopB_stop _ _ _ _ _ _ _ _ _ hlt]
            · rw [if_neg hlt]; congr 1; exact ih _ _ _ hl1

theorem loopC_eq_loopA (find : Nat → Option α) (sp : α → Nat × Nat) (next : Nat → Nat) (len : Nat)
    (ok : FindOK find sp len) :
    ∀ (fuel pos : Nat) (last : Option Nat) (cnt : Nat),
      loopC find sp next len fuel pos last = loopA find sp next len fuel pos last cnt none := by
  intro fuel
  induction fuel with
  | zero => intro pos last cnt; rfl
  | succ fuel ih =>
    intro pos last cnt
    have hl : ¬ limitHit none cnt = true := by simp [limitHit]
    by_cases hp : pos > len
    · rw [loopC_stop _ _ _ _ _ _ _ hp, loopA_none _ _ _ _ _ _ _ _ (find_none_of_gt ok hp)]
    · cases hf : find pos with
      | none => rw [loopA_none _ _ _ _ _ _ _ _ hf, loopC, if_neg hp, hf]
      | some m =>
        obtain ⟨h1, h2, h3⟩ := ok.bounds hf
        by_cases hr : (sp m).1 = (sp m).2 ∧ some (sp m).1 = last
        · rw [loopA_rej hl hf hr, loopC, if_neg hp, hf]
          simp only []
          rw [if_pos hr]
          by_cases hlt : next pos > len
          · rw [if_pos hlt, if_pos hlt]
          · rw [if_neg hlt, if_neg hlt]; exact ih _ _ _
        · rw [loopA_acc hl hf hr, loopC, if_neg hp, hf]
          simp only []
          rw [if_neg hr]
          have hadv : advance next pos (sp m).1 (sp m).2
              = if (sp m).1 = (sp m).2 then next (sp m).2 else (sp m).2 := by
            unfold advance
            by_cases hse : (sp m).1 = (sp m).2
            · rw [if_pos hse, if_pos hse]
            · rw [if_neg hse, if_neg hse, if_pos (by omega)]
          rw [hadv]
          by_cases hlt : (if (sp m).1 = (sp m).2 then next (sp m).2 else (sp m).2) > len
          · rw [if_pos hlt, loopC_stop _ _ _ _ _ _ _ hlt]
          · rw [if_neg hlt]; congr 1; exact ih _ _ _

theorem loopB_eq_std (find : Nat → Option α) (sp : α → Nat × Nat) (w : Nat → Nat) (len : Nat)
    (ok : FindOK find sp len) (wk : WidthOK w len) (n : Int) (hn : n ≠ 0) :
    findAllB find sp (nextOf w) len (if n ≤ 0 then none else some n.toNat) = stdFindAll find sp w len n := by
  rw [← loopA_eq_std find sp w len ok wk n hn]
  unfold findAllB findAllA
  rw [if_neg (show ¬ (false = true) by decide)]
  apply loopB_eq_loopA find sp (nextOf w) len ok
  by_cases hle : n ≤ 0
  · rw [if_pos hle]; simp [limitHit]
  · rw [if_neg hle]; simp only [limitHit, decide_eq_true_eq]; omega

theorem loopC_eq_std (find : Nat → Option α) (sp : α → Nat × Nat) (w : Nat → Nat) (len : Nat)
    (ok : FindOK find sp len) (wk : WidthOK w len) :
    findAllC find sp (nextOf w) len = stdFindAll find sp w len (-1) := by
  rw [← loopA_eq_std find sp w len ok wk (-1) (by decide)]
  unfold findAllC findAllA
  rw [if_neg (show ¬ (false = true) by decide), if_pos (show (-1 : Int) ≤ 0 by decide)]
  exact loopC_eq_loopA find sp (nextOf w) len ok _ _ _ _

/-- A limit `n` just truncates the list delivered under any non-binding limit `N`. -/
theorem stdAll_take (find : Nat → Option α) (sp : α → Nat × Nat) (w : Nat → Nat) (len : Nat)
    (ok : FindOK find sp len) (wk : WidthOK w len) (n N : Nat) :
    ∀ (fuel pos i i' : Nat) (prev : Option Nat), len + 1 - pos ≤ N - i' →
      stdAll find sp w len fuel pos i prev n = (stdAll find sp w len fuel pos i' prev N).take (n - i) := by
  intro fuel
  induction fuel with
  | zero => intro pos i i' prev _; simp only [stdAll, List.take_nil]
  | succ fuel ih =>
    intro pos i i' prev hN
    by_cases hp : pos > len
    · rw [stdAll_stop _ _ _ _ _ _ _ _ _ hp, stdAll_stop _ _ _ _ _ _ _ _ _ hp, List.take_nil]
    · have hple : pos ≤ len := by omega
      have hl' : i' < N := by omega
      by_cases hl : i < n
      · cases hf : find pos with
        | none => rw [stdAll_none _ _ _ _ _ _ _ _ hf, stdAll_none _ _ _ _ _ _ _ _ hf, List.take_nil]
        | some m =>
          obtain ⟨h1, h2, h3⟩ := ok.bounds hf
          have hsucc : n - i = (n - (i + 1)) + 1 := by omega
          by_cases hsp : (sp m).2 = pos
          · have hgt := nextOf_gt w pos
            by_cases hprev : some (sp m).1 = prev
            · rw [stdAll_rej wk hl hple hf hsp hprev, stdAll_rej wk hl' hple hf hsp hprev]
              exact ih _ _ _ _ (by omega)
            · rw [stdAll_accE wk hl hple hf hsp hprev, stdAll_accE wk hl' hple hf hsp hprev, hsucc,
                List.take_succ_cons]
              congr 1
              exact ih _ _ _ _ (by omega)
          · rw [stdAll_accN hl hple hf hsp, stdAll_accN hl' hple hf hsp, hsucc, List.take_succ_cons]
            congr 1
            exact ih _ _ _ _ (by omega)
      · rw [stdAll_lim _ _ _ _ _ _ _ _ _ hl, show n - i = 0 by omega, List.take_zero]

theorem std_limit_prefix (find : Nat → Option α) (sp : α → Nat × Nat) (w : Nat → Nat) (len : Nat)
    (ok : FindOK find sp len) (wk : WidthOK w len) (n : Nat) :
    stdFindAll find sp w len (n : Int) = (stdFindAll find sp w len (-1)).take n := by
  unfold stdFindAll
  simp only []
  rw [if_neg (by omega), if_pos (by omega), Int.toNat_natCast]
  exact stdAll_take find sp w len ok wk n (len + 1) _ 0 0 0 none (by omega)

/-- Everything delivered from `pos` starts at or after `pos` (strictly after, when the match found at `pos`
is the empty match at `pos` that `prev` suppresses) and is a well-formed span. -/
theorem stdAll_mem (find : Nat → Option α) (sp : α → Nat × Nat) (w : Nat → Nat) (len : Nat)
    (ok : FindOK find sp len) (wk : WidthOK w len) (n : Nat) :
    ∀ (fuel pos i : Nat) (prev : Option Nat) (b : α), b ∈ stdAll find sp w len fuel pos i prev n →
      pos ≤ (sp b).1 ∧ (sp b).1 ≤ (sp b).2 ∧ (sp b).2 ≤ len ∧
      (∀ m, find pos = some m → (sp m).2 = pos → prev = some pos → pos < (sp b).1) := by
  intro fuel
  induction fuel with
  | zero => intro pos i prev b hb; simp only [stdAll] at hb; exact nomatch hb
  | succ fuel ih =>
    intro pos i prev b hb
    by_cases hp : pos > len
    · rw [stdAll_stop _ _ _ _ _ _ _ _ _ hp] at hb; exact nomatch hb
    · have hple : pos ≤ len := by omega
      by_cases hl : i < n
      · cases hf : find pos with
        | none => rw [stdAll_none _ _ _ _ _ _ _ _ hf] at hb; exact nomatch hb
        | some m =>
          obtain ⟨h1, h2, h3⟩ := ok.bounds hf
          by_cases hsp : (sp m).2 = pos
          · have hgt := nextOf_gt w pos
            by_cases hprev : some (sp m).1 = prev
            · rw [stdAll_rej wk hl hple hf hsp hprev] at hb
              obtain ⟨a1, a2, a3, _⟩ := ih _ _ _ _ hb
              exact ⟨by omega, a2, a3, fun _ _ _ _ => by omega⟩
            · rw [stdAll_accE wk hl hple hf hsp hprev] at hb
              rcases List.mem_cons.mp hb with hbm | hb
              · rw [hbm]
                refine ⟨h1, h2, h3, ?_⟩
                intro m' hm' _ hpv
                exfalso; apply hprev
                rw [hpv]; congr 1; omega
              · obtain ⟨a1, a2, a3, _⟩ := ih _ _ _ _ hb
                exact ⟨by omega, a2, a3, fun _ _ _ _ => by omega⟩
          · rw [stdAll_accN hl hple hf hsp] at hb
            rcases List.mem_cons.mp hb with hbm | hb
            · rw [hbm]
              refine ⟨h1, h2, h3, ?_⟩
              intro m' hm' he' _
              exfalso
              have : m' = m := Option.some.inj hm'.symm
              rw [this] at he'
              exact hsp he'
            · obtain ⟨a1, a2, a3, _⟩ := ih _ _ _ _ hb
              exact ⟨by omega, a2, a3, fun _ _ _ _ => by omega⟩
      · rw [stdAll_lim _ _ _ _ _ _ _ _ _ hl] at hb; exact nomatch hb

theorem stdAll_pairwise (find : Nat → Option α) (sp : α → Nat × Nat) (w : Nat → Nat) (len : Nat)
    (ok : FindOK find sp len) (wk : WidthOK w len) (n : Nat) :
    ∀ (fuel pos i : Nat) (prev : Option Nat),
      (stdAll find sp w len fuel pos i prev n).Pairwise
        (fun a b => (sp a).2 ≤ (sp b).1 ∧ (sp a).1 < (sp b).1) := by
  intro fuel
  induction fuel with
  | zero => intro pos i prev; simp only [stdAll]; exact List.Pairwise.nil
  | succ fuel ih =>
    intro pos i prev
    by_cases hp : pos > len
    · rw [stdAll_stop _ _ _ _ _ _ _ _ _ hp]; exact List.Pairwise.nil
    · have hple : pos ≤ len := by omega
      by_cases hl : i < n
      · cases hf : find pos with
        | none => rw [stdAll_none _ _ _ _ _ _ _ _ hf]; exact List.Pairwise.nil
        | some m =>
          obtain ⟨h1, h2, h3⟩ := ok.bounds hf
          by_cases hsp : (sp m).2 = pos
          · have hgt := nextOf_gt w pos
            by_cases hprev : some (sp m).1 = prev
            · rw [stdAll_rej wk hl hple hf hsp hprev]; exact ih _ _ _
            · rw [stdAll_accE wk hl hple hf hsp hprev]
              refine List.Pairwise.cons ?_ (ih _ _ _)
              intro b hb
              obtain ⟨a1, _, _, _⟩ := stdAll_mem find sp w len ok wk n _ _ _ _ b hb
              omega
          · rw [stdAll_accN hl hple hf hsp]
            refine List.Pairwise.cons ?_ (ih _ _ _)
            intro b hb
            obtain ⟨a1, _, _, a4⟩ := stdAll_mem find sp w len ok wk n _ _ _ _ b hb
            by_cases hse : (sp m).1 = (sp m).2
            · have hf2 : find (sp m).2 = some m := ok.stable hf (by omega) (by omega)
              have := a4 m hf2 rfl rfl
              omega
            · omega
      · rw [stdAll_lim _ _ _ _ _ _ _ _ _ hl]; exact List.Pairwise.nil

theorem std_wellformed (find : Nat → Option α) (sp : α → Nat × Nat) (w : Nat → Nat) (len : Nat)
    (ok : FindOK find sp len) (wk : WidthOK w len) (n : Int) :
    (stdFindAll find sp w len n).Pairwise (fun a b => (sp a).2 ≤ (sp b).1 ∧ (sp a).1 < (sp b).1)
    ∧ ∀ m ∈ stdFindAll find sp w len n, (sp m).1 ≤ (sp m).2 ∧ (sp m).2 ≤ len := by
  unfold stdFindAll
  refine ⟨stdAll_pairwise find sp w len ok wk _ _ _ _ _, ?_⟩
  intro m hm
  obtain ⟨_, a2, a3, _⟩ := stdAll_mem find sp w len ok wk _ _ _ _ _ m hm
  exact ⟨a2, a3⟩

/-! ### Replace

`replace_eq_std` as originally stated (under `FindOK` and `WidthOK` only) is FALSE: stdlib's `replaceAll`
advances by `max (searchPos + width) a1`, the model by `a1`, so they diverge as soon as a match ends strictly
inside the rune that starts at the search position (see `replace_eq_std_counterexample`).  With real UTF-8
widths and a rune-stepping matcher this never happens; `RuneAligned` states exactly that, and
`replace_eq_std_partial` is the theorem under this extra hypothesis. -/

/-- No match ends strictly inside the rune that starts at the position the search started from. -/
structure RuneAligned (find : Nat → Option α) (sp : α → Nat × Nat) (w : Nat → Nat) : Prop where
  ends : ∀ {pos m}, find pos = some m → pos < (sp m).2 → pos + w pos ≤ (sp m).2

theorem stdReplace_stop (find : Nat → Option α) (sp : α → Nat × Nat) (w : Nat → Nat) (src : List Nat)
    (repl : α → List Nat) (fuel pos L : Nat) (buf : List Nat) (hp : pos > src.length) :
    stdReplace find sp w src repl fuel pos L buf = buf ++ src.drop L := by
  cases fuel with
  | zero => rfl
  | succ fuel => rw [stdReplace, if_pos hp]

theorem stdReplace_none {find : Nat → Option α} (sp : α → Nat × Nat) (w : Nat → Nat) (src : List Nat)
    (repl : α → List Nat) (fuel pos L : Nat) (buf : List Nat) (hf : find pos = none) :
    stdReplace find sp w src repl fuel pos L buf = buf ++ src.drop L := by
  cases fuel with
  | zero => rfl
  | succ fuel =>
    rw [stdReplace]
    split
    · rfl
    · rw [hf]

theorem stdReplace_step {find : Nat → Option α} {sp : α → Nat × Nat} {w : Nat → Nat} {src : List Nat}
    {repl : α → List Nat} {fuel pos L : Nat} {buf : List Nat} {m : α}
    (hp : pos ≤ src.length) (hf : find pos = some m) :
    stdReplace find sp w src repl (fuel+1) pos L buf
      = stdReplace find sp w src repl fuel
          (if pos + w pos > (sp m).2 then pos + w pos else if pos + 1 > (sp m).2 then pos + 1 else (sp m).2)
          (sp m).2
          (if (sp m).2 > L ∨ (sp m).1 = 0 then buf ++ (src.drop L).take ((sp m).1 - L) ++ repl m
           else buf ++ (src.drop L).take ((sp m).1 - L)) := by
  rw [stdReplace, if_neg (by omega), hf]

/-- stdlib's advance rule, for a match that does not end inside the rune at `pos`. -/
theorem stdAdv_eq {w : Nat → Nat} {pos e : Nat} (hpe : pos ≤ e) (hal : pos < e → pos + w pos ≤ e) :
    (if pos + w pos > e then pos + w pos else if pos + 1 > e then pos + 1 else e)
      = if e = pos then nextOf w pos else e := by
  unfold nextOf
  by_cases h : e = pos
  · rw [if_pos h]
    by_cases hw : w pos = 0
    · rw [if_pos hw, if_neg (by omega), if_pos (by omega)]
    · rw [if_neg hw, if_pos (by omega)]
  · have := hal (by omega)
    rw [if_neg h, if_neg (by omega), if_neg (by omega)]

theorem replaceLoop_none {find : Nat → Option α} (sp : α → Nat × Nat) (next : Nat → Nat) (src : List Nat)
    (repl : α → List Nat) (fuel pos L : Nat) (last : Option Nat) (buf : List Nat) (hf : find pos = none) :
    replaceLoop find sp next src repl fuel pos L last buf = buf ++ src.drop L := by
  cases fuel with
  | zero => rfl
  | succ fuel => rw [replaceLoop, hf]

theorem replaceLoop_rej {find : Nat → Option α} {sp : α → Nat × Nat} {next : Nat → Nat} {src : List Nat}
    {repl : α → List Nat} {fuel pos L : Nat} {last : Option Nat} {buf : List Nat} {m : α}
    (hf : find pos = some m) (hr : (sp m).1 = (sp m).2 ∧ some (sp m).1 = last) :
    replaceLoop find sp next src repl (fuel+1) pos L last buf
      = if next pos > src.length then buf ++ src.drop L
        else replaceLoop find sp next src repl fuel (next pos) L last buf := by
  rw [replaceLoop, hf]
  simp only []
  rw [if_pos hr]

theorem replaceLoop_acc {find : Nat → Option α} {sp : α → Nat × Nat} {next : Nat → Nat} {src : List Nat}
    {repl : α → List Nat} {fuel pos L : Nat} {last : Option Nat} {buf : List Nat} {m : α}
    (hf : find pos = some m) (hr : ¬ ((sp m).1 = (sp m).2 ∧ some (sp m).1 = last)) :
    replaceLoop find sp next src repl (fuel+1) pos L last buf
      = if advance next pos (sp m).1 (sp m).2 > src.length
        then buf ++ (src.drop L).take ((sp m).1 - L) ++ repl m ++ src.drop (sp m).2
        else replaceLoop find sp next src repl fuel (advance next pos (sp m).1 (sp m).2) (sp m).2
               (if (sp m).1 ≠ (sp m).2 then some (sp m).2 else last)
               (buf ++ (src.drop L).take ((sp m).1 - L) ++ repl m) := by
  rw [replaceLoop, hf]
  simp only []
  rw [if_neg hr]

/-- Invariant linking stdlib's `(searchPos, lastMatchEnd)` with the model's `(pos, lastEnd, lastMatchEnd)`:
the positions and copy marks coincide (`L`), and the model's "end of the last non-empty match" register equals
the current position exactly when stdlib's `lastMatchEnd` does (and we are not at 0). -/
structure RInv (pos L : Nat) (last : Option Nat) : Prop where
  le : L ≤ pos
  iff_here : last = some pos ↔ (L = pos ∧ pos ≠ 0)
  last_le : ∀ x, last = some x → x ≤ pos

theorem RInv.init : RInv 0 0 none :=
  { le := Nat.le_refl 0
    iff_here := Iff.intro (fun h => nomatch h) (fun h => absurd rfl h.2)
    last_le := fun _ h => nomatch h }

theorem RInv.step {pos L p' L' : Nat} {last : Option Nat} (inv : RInv pos L last) (hL : L' < p') (hp : pos < p') :
    RInv p' L' last :=
  { le := by omega
    iff_here := Iff.intro (fun h => by have := inv.last_le _ h; omega) (fun h => by omega)
    last_le := fun x hx => by have := inv.last_le x hx; omega }

theorem RInv.same {e : Nat} (he : e ≠ 0) : RInv e e (some e) :=
  { le := Nat.le_refl e
    iff_here := Iff.intro (fun _ => ⟨rfl, he⟩) (fun _ => rfl)
    last_le := fun x hx => by cases hx; omega }

theorem replace_sim (find : Nat → Option α) (sp : α → Nat × Nat) (w : Nat → Nat) (src : List Nat)
    (repl : α → List Nat) (ok : FindOK find sp src.length) (al : RuneAligned find sp w) :
    ∀ (k pos L : Nat) (last : Option Nat) (buf : List Nat) (fs fc : Nat),
      src.length + 2 - pos ≤ k → RInv pos L last →
      src.length + 2 - pos ≤ fs → src.length + 2 - pos ≤ fc →
      stdReplace find sp w src repl fs pos L buf = replaceLoop find sp (nextOf w) src repl fc pos L last buf := by
  intro k
  induction k with
  | zero =>
    intro pos L last buf fs fc hk _ _ _
    have hp : pos > src.length := by omega
    rw [stdReplace_stop _ _ _ _ _ _ _ _ _ hp, replaceLoop_none _ _ _ _ _ _ _ _ _ (find_none_of_gt ok hp)]
  | succ k ih =>
    intro pos L last buf fs fc hk inv hfs hfc
    by_cases hp : pos > src.length
    · rw [stdReplace_stop _ _ _ _ _ _ _ _ _ hp, replaceLoop_none _ _ _ _ _ _ _ _ _ (find_none_of_gt ok hp)]
    · have hple : pos ≤ src.length := by omega
      have hLp := inv.le
      cases hf : find pos with
      | none => rw [stdReplace_none _ _ _ _ _ _ _ _ hf, replaceLoop_none _ _ _ _ _ _ _ _ _ hf]
      | some m =>
        obtain ⟨h1, h2, h3⟩ := ok.bounds hf
        obtain ⟨fs, rfl⟩ : ∃ fs', fs = fs' + 1 := ⟨fs - 1, by omega⟩
        obtain ⟨fc, rfl⟩ : ∃ fc', fc = fc' + 1 := ⟨fc - 1, by omega⟩
        rw [stdReplace_step hple hf, stdAdv_eq (by omega) (al.ends hf)]
        by_cases hse : (sp m).1 = (sp m).2
        · by_cases hsp : (sp m).2 = pos
          · -- empty match at pos
            have hgt := nextOf_gt w pos
            rw [if_pos hsp]
            by_cases hlast : some (sp m).1 = last
            · have hL : L = pos ∧ pos ≠ 0 := by
                apply inv.iff_here.mp
                rw [← hlast]; congr 1; omega
              rw [replaceLoop_rej hf ⟨hse, hlast⟩, if_neg (by omega), show (sp m).1 - L = 0 by omega,
                List.take_zero, List.append_nil, show (sp m).2 = L by omega]
              by_cases hlt : nextOf w pos > src.length
              · rw [if_pos hlt, stdReplace_stop _ _ _ _ _ _ _ _ _ hlt]
              · rw [if_neg hlt]
                exact ih _ _ _ _ _ _ (by omega) (inv.step (by omega) hgt) (by omega) (by omega)
            · have hnr : ¬ ((sp m).1 = (sp m).2 ∧ some (sp m).1 = last) := fun h => hlast h.2
              have hcond : L ≠ pos ∨ pos = 0 := by
                by_cases hc : L = pos ∧ pos ≠ 0
                · exfalso; apply hlast
                  rw [inv.iff_here.mpr hc]; congr 1; omega
                · omega
              have hadv : advance (nextOf w) pos (sp m).1 (sp m).2 = nextOf w pos := by
                unfold advance; rw [if_pos hse, hsp]
              rw [replaceLoop_acc hf hnr, hadv, if_pos (by omega),
                if_neg (fun h : (sp m).1 ≠ (sp m).2 => h hse)]
              by_cases hlt : nextOf w pos > src.length
              · rw [if_pos hlt, stdReplace_stop _ _ _ _ _ _ _ _ _ hlt]
              · rw [if_neg hlt]
                exact ih _ _ _ _ _ _ (by omega) (inv.step (by omega) hgt) (by omega) (by omega)
          · -- empty match strictly ahead of pos: stdlib visits it twice
            have hgt := nextOf_gt w (sp m).2
            have hnr : ¬ ((sp m).1 = (sp m).2 ∧ some (sp m).1 = last) := by
              intro h; have := inv.last_le _ h.2.symm; omega
            have hadv : advance (nextOf w) pos (sp m).1 (sp m).2 = nextOf w (sp m).2 := by
              unfold advance; rw [if_pos hse]
            rw [if_neg hsp, if_pos (Or.inl (by omega)), replaceLoop_acc hf hnr, hadv,
              if_neg (fun h : (sp m).1 ≠ (sp m).2 => h hse)]
            obtain ⟨fs, rfl⟩ : ∃ fs', fs = fs' + 1 := ⟨fs - 1, by omega⟩
            have hf2 : find (sp m).2 = some m := ok.stable hf (by omega) (by omega)
            rw [stdReplace_step h3 hf2, stdAdv_eq (Nat.le_refl _) (al.ends hf2), if_pos rfl,
              if_neg (by omega), show (sp m).1 - (sp m).2 = 0 by omega, List.take_zero, List.append_nil]
            by_cases hlt : nextOf w (sp m).2 > src.length
            · rw [if_pos hlt, stdReplace_stop _ _ _ _ _ _ _ _ _ hlt]
            · rw [if_neg hlt]
              exact ih _ _ _ _ _ _ (by omega) (inv.step hgt (by omega)) (by omega) (by omega)
        · -- non-empty match
          have hnr : ¬ ((sp m).1 = (sp m).2 ∧ some (sp m).1 = last) := fun h => hse h.1
          have hadv : advance (nextOf w) pos (sp m).1 (sp m).2 = (sp m).2 := by
            unfold advance; rw [if_neg hse, if_pos (by omega)]
          rw [if_neg (by omega), if_pos (Or.inl (by omega)), replaceLoop_acc hf hnr, hadv,
            if_neg (by omega), if_pos hse]
          exact ih _ _ _ _ _ _ (by omega) (RInv.same (by omega)) (by omega) (by omega)

/-- C08 (under the extra hypothesis `RuneAligned`): the five Replace* loops produce what `regexp.replaceAll`
produces.  Same statement as the original `replace_eq_std` plus `al`; `WidthOK` is kept for signature
compatibility but is not used (both sides step by `nextOf w` once matches are rune-aligned). -/
theorem replace_eq_std_partial (find : Nat → Option α) (sp : α → Nat × Nat) (w : Nat → Nat) (src : List Nat)
    (repl : α → List Nat) (ok : FindOK find sp src.length) (_wk : WidthOK w src.length)
    (al : RuneAligned find sp w) :
    replaceAll find sp (nextOf w) src repl = stdReplaceAll find sp w src repl := by
  unfold replaceAll stdReplaceAll
  exact (replace_sim find sp w src repl ok al (src.length + 2) 0 0 none [] _ _
    (by omega) RInv.init (by omega) (by omega)).symm

/-! #### The original `replace_eq_std` is false

Input of length 2 whose first rune is 2 bytes wide (`w 0 = 2`, `w 1 = 1`); `find 0 = (0,1)` (a match ending
inside that rune), `find 1 = none`, `find 2 = (2,2)`.  The model continues at 1, finds nothing and stops:
`[7, 11]`.  stdlib continues at `0 + 2 = 2`, finds the empty match at 2 and inserts once more: `[7, 11, 7]`. -/

def cexFind (p : Nat) : Option (Nat × Nat) :=
  if p = 0 then some (0, 1) else if p = 2 then some (2, 2) else none

def cexW (p : Nat) : Nat := if p = 0 then 2 else if p = 1 then 1 else 0

theorem cexFind_ok : FindOK cexFind id 2 := by
  constructor
  · intro pos m h
    unfold cexFind at h
    split at h
    · cases h; simp only [id]; omega
    · split at h
      · cases h; simp only [id]; omega
      · exact nomatch h
  · intro pos m p h hp hps
    unfold cexFind at h
    split at h
    · cases h
      simp only [id] at hps
      have : p = 0 := by omega
      rw [this]; rfl
    · split at h
      · cases h
        simp only [id] at hps
        have : p = 2 := by omega
        rw [this]; rfl
      · exact nomatch h

theorem cexW_ok : WidthOK cexW 2 := by
  constructor
  · intro p hp
    unfold cexW
    split
    · omega
    · split <;> omega
  · intro p hp
    unfold cexW
    rw [if_neg (by omega), if_neg (by omega)]

/-- The statement of `replace_eq_std` without `RuneAligned` fails on a concrete instance. -/
theorem replace_eq_std_counterexample :
    FindOK cexFind id [10, 11].length ∧ WidthOK cexW [10, 11].length ∧
    replaceAll cexFind id (nextOf cexW) [10, 11] (fun _ => [7]) = [7, 11] ∧
    stdReplaceAll cexFind id cexW [10, 11] (fun _ => [7]) = [7, 11, 7] :=
  ⟨cexFind_ok, cexW_ok, by decide, by decide⟩

theorem replace_eq_std_false :
    ¬ ∀ (find : Nat → Option (Nat × Nat)) (sp : Nat × Nat → Nat × Nat) (w : Nat → Nat) (src : List Nat)
        (repl : Nat × Nat → List Nat), FindOK find sp src.length → WidthOK w src.length →
        replaceAll find sp (nextOf w) src repl = stdReplaceAll find sp w src repl := by
  intro h
  have := h cexFind id cexW [10, 11] (fun _ => [7]) cexFind_ok cexW_ok
  obtain ⟨_, _, h1, h2⟩ := replace_eq_std_counterexample
  rw [h1, h2] at this
  exact absurd this (by decide)

end Cx
