import Cx.Spec.StdLoops
import Cx.Model.Loops
/-
  Cx.Proofs.Loops — helper lemmas for C04 / C08 / C11: coregex's loops = stdlib's loops over any
  well-behaved single-match function.
-/
namespace Cx
open Cx.Std Cx.Loops

variable {α : Type}

/-- Contract of the single-match function underneath a loop (what C02 is about), for input length `len`. -/
structure FindOK (find : Nat → Option α) (sp : α → Nat × Nat) (len : Nat) : Prop where
  bounds : ∀ {pos m}, find pos = some m → pos ≤ (sp m).1 ∧ (sp m).1 ≤ (sp m).2 ∧ (sp m).2 ≤ len
  stable : ∀ {pos m p}, find pos = some m → pos ≤ p → p ≤ (sp m).1 → find p = some m

/-- `utf8.DecodeRune` widths: at least 1 inside the input, 0 at/after the end. -/
structure WidthOK (w : Nat → Nat) (len : Nat) : Prop where
  pos_lt : ∀ p, p < len → 1 ≤ w p
  zero_ge : ∀ p, len ≤ p → w p = 0

theorem loopA_eq_std (find : Nat → Option α) (sp : α → Nat × Nat) (w : Nat → Nat) (len : Nat)
    (ok : FindOK find sp len) (wk : WidthOK w len) (n : Int) (hn : n ≠ 0) :
    findAllA false find sp (nextOf w) len (if n ≤ 0 then none else some n.toNat) = stdFindAll find sp w len n := by
  sorry

theorem anchored_eq_std (find : Nat → Option α) (sp : α → Nat × Nat) (w : Nat → Nat) (len : Nat)
    (ok : FindOK find sp len) (wk : WidthOK w len) (anch : ∀ p, 0 < p → find p = none) (n : Int) (hn : n ≠ 0) :
    findAllA true find sp (nextOf w) len (if n ≤ 0 then none else some n.toNat) = stdFindAll find sp w len n := by
  sorry

theorem loopB_eq_std (find : Nat → Option α) (sp : α → Nat × Nat) (w : Nat → Nat) (len : Nat)
    (ok : FindOK find sp len) (wk : WidthOK w len) (n : Int) (hn : n ≠ 0) :
    findAllB find sp (nextOf w) len (if n ≤ 0 then none else some n.toNat) = stdFindAll find sp w len n := by
  sorry

theorem loopC_eq_std (find : Nat → Option α) (sp : α → Nat × Nat) (w : Nat → Nat) (len : Nat)
    (ok : FindOK find sp len) (wk : WidthOK w len) :
    findAllC find sp (nextOf w) len = stdFindAll find sp w len (-1) := by
  sorry

theorem std_limit_prefix (find : Nat → Option α) (sp : α → Nat × Nat) (w : Nat → Nat) (len : Nat)
    (ok : FindOK find sp len) (wk : WidthOK w len) (n : Nat) :
    stdFindAll find sp w len (n : Int) = (stdFindAll find sp w len (-1)).take n := by
  sorry

theorem std_wellformed (find : Nat → Option α) (sp : α → Nat × Nat) (w : Nat → Nat) (len : Nat)
    (ok : FindOK find sp len) (wk : WidthOK w len) (n : Int) :
    (stdFindAll find sp w len n).Pairwise (fun a b => (sp a).2 ≤ (sp b).1 ∧ (sp a).1 < (sp b).1)
    ∧ ∀ m ∈ stdFindAll find sp w len n, (sp m).1 ≤ (sp m).2 ∧ (sp m).2 ≤ len := by
  sorry

/-- C08: the five Replace* loops produce what `regexp.replaceAll` produces. -/
theorem replace_eq_std (find : Nat → Option α) (sp : α → Nat × Nat) (w : Nat → Nat) (src : List Nat)
    (repl : α → List Nat) (ok : FindOK find sp src.length) (wk : WidthOK w src.length) :
    replaceAll find sp (nextOf w) src repl = stdReplaceAll find sp w src repl := by
  sorry

end Cx
