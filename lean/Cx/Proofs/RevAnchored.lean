import Cx.Model.RevAnchored
import Cx.Proofs.RevSuffix
/-
  Cx.Proofs.RevAnchored — the reverse-anchored strategy (`meta/reverse_anchored.go`, model `Cx.Model.RevAnchored`) returns
  exactly what the reference search from offset 0 returns, RELATIVE to the contracts of its components.

  Hypothesis about the pattern (`Spec.end_anch`): every match ends at the end of the haystack (what `nfa.IsPatternEndAnchored`
  must guarantee: the pattern ends with `\z` / non-multiline `$` in every alternative).
  Component contracts: RefSpec (as for reverse suffix); `fwdPike h = ref h 0` on the empty haystack; `revFull h 0 |h|` = the
  least start of a match ending at |h|, `none` iff there is none; `revIsMatch h 0 |h|` = true iff there is one.

  Theorems:  find_eq_ref : find O h = ref h 0      isMatch_eq_ref : isMatch O h = (ref h 0).isSome
-/
namespace Cx.RevAnchored
open Cx
open Cx.RevSuffix (RefSpec findFirst)

structure Spec (O : Oracles) (Mt : Bytes → Nat → Nat → Prop) (ref : Bytes → Nat → Option (Nat × Nat)) (h : Bytes) : Prop
    extends RefSpec Mt ref h where
  /-- the pattern is end-anchored: every match ends at the end of the haystack -/
  end_anch : ∀ s e, s ≤ h.size → Mt h s e → e = h.size
  mt_le : ∀ s e, s ≤ h.size → Mt h s e → s ≤ e
  pike : h.size = 0 → O.fwdPike h = ref h 0
  revF_some : ∀ s, O.revFull h 0 h.size = some s → s ≤ h.size ∧ Mt h s h.size ∧ ∀ s', s' ≤ h.size → Mt h s' h.size → s ≤ s'
  revF_none : O.revFull h 0 h.size = none → ∀ s', s' ≤ h.size → ¬ Mt h s' h.size
  revIs : O.revIsMatch h 0 h.size = true ↔ ∃ s', s' ≤ h.size ∧ Mt h s' h.size

section
variable {O : Oracles} {Mt : Bytes → Nat → Nat → Prop} {ref : Bytes → Nat → Option (Nat × Nat)} {h : Bytes}

/-- the reference from 0, in terms of the matches that end at the end of the haystack -/
theorem ref_of_end (S : Spec O Mt ref h) :
    (∀ s, s ≤ h.size → Mt h s h.size → (∀ s', s' ≤ h.size → Mt h s' h.size → s ≤ s') → ref h 0 = some (s, h.size)) ∧
    ((∀ s', s' ≤ h.size → ¬ Mt h s' h.size) → ref h 0 = none) := by
  constructor
  · intro s hs hm hleast
    obtain ⟨s0, e0, hr⟩ := S.toRefSpec.some_of (a := 0) (Nat.zero_le _) (Nat.zero_le _) hs hm
    obtain ⟨_, r2, r3⟩ := S.ref_sound 0 s0 e0 (Nat.zero_le _) hr
    have he := S.end_anch s0 e0 r2 r3
    subst he
    have h1 := S.ref_leftmost 0 s0 h.size (Nat.zero_le _) hr s h.size (Nat.zero_le _) hm
    have h2 := hleast s0 r2 r3
    have : s0 = s := by omega
    rw [hr, this]
  · intro hno
    refine S.toRefSpec.none_of (Nat.zero_le _) ?_
    intro s e _ hs hm
    have he := S.end_anch s e hs hm
    subst he
    exact hno s hs hm

/-- **`Find` is exact** -/
theorem find_eq_ref (S : Spec O Mt ref h) : find O h = ref h 0 := by
  unfold find
  split
  · rename_i h0; exact S.pike h0
  · cases hr : O.revFull h 0 h.size with
    | none => exact ((ref_of_end S).2 (S.revF_none hr)).symm
    | some s =>
      obtain ⟨h1, h2, h3⟩ := S.revF_some s hr
      exact ((ref_of_end S).1 s h1 h2 h3).symm

/-- **`IsMatch` is exact** -/
theorem isMatch_eq_ref (S : Spec O Mt ref h) : isMatch O h = (ref h 0).isSome := by
  unfold isMatch
  split
  · rename_i h0; rw [S.pike h0]
  · rw [Bool.eq_iff_iff, S.revIs]
    constructor
    · rintro ⟨s, hs, hm⟩
      obtain ⟨s0, e0, hr⟩ := S.toRefSpec.some_of (a := 0) (Nat.zero_le _) (Nat.zero_le _) hs hm
      rw [hr]; rfl
    · intro hs
      obtain ⟨se, hse⟩ := Option.isSome_iff_exists.mp hs
      obtain ⟨_, r2, r3⟩ := S.ref_sound 0 se.1 se.2 (Nat.zero_le _) hse
      have he := S.end_anch se.1 se.2 r2 r3
      exact ⟨se.1, r2, he ▸ r3⟩

end

/-! ### the contracts are satisfiable: brute-force oracles -/

theorem bruteOracles_spec {mt : Nat → Nat → Bool} {rf : Nat → Option (Nat × Nat)} {h : Bytes}
    (R : RefSpec (fun _ s e => mt s e = true) (fun _ a => rf a) h)
    (hend : ∀ s e, s ≤ h.size → mt s e = true → e = h.size) (hle : ∀ s e, s ≤ h.size → mt s e = true → s ≤ e) :
    Spec (bruteOracles mt (rf 0)) (fun _ s e => mt s e = true) (fun _ a => rf a) h where
  toRefSpec := R
  end_anch := hend
  mt_le := hle
  pike := fun _ => rfl
  revF_some := by
    intro s hr
    obtain ⟨_, f2, f3, f4⟩ := RevSuffix.findFirst_some hr
    refine ⟨by omega, f3, ?_⟩
    intro s' _ g2
    apply Classical.byContradiction
    intro hlt
    have := f4 s' (Nat.zero_le _) (by omega)
    rw [g2] at this
    cases this
  revF_none := by
    intro hr s' g1 g2
    have := RevSuffix.findFirst_none hr s' (Nat.zero_le _) (by omega)
    rw [g2] at this
    cases this
  revIs := by
    show (findFirst (fun s => mt s h.size) 0 (h.size + 1 - 0)).isSome = true ↔ _
    constructor
    · intro hs
      obtain ⟨s, hf⟩ := Option.isSome_iff_exists.mp hs
      obtain ⟨_, f2, f3, _⟩ := RevSuffix.findFirst_some hf
      exact ⟨s, by omega, f3⟩
    · rintro ⟨s', g1, g2⟩
      cases hf : findFirst (fun s => mt s h.size) 0 (h.size + 1 - 0) with
      | some s => rfl
      | none =>
        have := RevSuffix.findFirst_none hf s' (Nat.zero_le _) (by omega)
        rw [g2] at this
        cases this

/-! ### why the pattern must be end-anchored: a counter-model

`a` (not anchored) on "ab": the only match is [0,1); no match ends at 2, so the reverse scan from the end finds nothing.
With `a$` on "ba" (matches: [1,2)) the strategy answers the reference's span. -/

example :
    find (bruteOracles (fun s e => s == 0 && e == 1) (some (0, 1))) #[97, 98] = none ∧
    isMatch (bruteOracles (fun s e => s == 0 && e == 1) (some (0, 1))) #[97, 98] = false := by decide

example :
    find (bruteOracles (fun s e => s == 1 && e == 2) (some (1, 2))) #[98, 97] = some (1, 2) ∧
    isMatch (bruteOracles (fun s e => s == 1 && e == 2) (some (1, 2))) #[98, 97] = true := by decide

/-- non-vacuity: the contracts hold for `a$` on "ba" -/
example : Spec (bruteOracles (fun s e => s == 1 && e == 2) (if (0:Nat) ≤ 1 then some (1, 2) else none))
    (fun _ s e => (s == 1 && e == 2) = true) (fun _ a => if a ≤ 1 then some (1, 2) else none) #[98, 97] := by
  refine bruteOracles_spec (rf := fun a => if a ≤ 1 then some (1, 2) else none) ⟨?_, ?_, ?_⟩ ?_ ?_
  · intro a s e _ hr
    split at hr
    · cases hr; exact ⟨by omega, by decide, by decide⟩
    · cases hr
  · intro a s e _ hr s' e' h1 h2
    split at hr
    · cases hr
      simp only [Bool.and_eq_true, beq_iff_eq] at h2
      omega
    · cases hr
  · intro a _ hr s e h1 _ h3
    split at hr
    · cases hr
    · simp only [Bool.and_eq_true, beq_iff_eq] at h3
      omega
  · intro s e _ hm
    simp only [Bool.and_eq_true, beq_iff_eq] at hm
    rw [hm.2]; rfl
  · intro s e _ hm
    simp only [Bool.and_eq_true, beq_iff_eq] at hm
    omega

end Cx.RevAnchored
